package main

// Environment scripts (wave 5): tables of globals of threads and environments of functions.
//
// The reference evaluator of the program cases has no table of globals per thread (getfenv(0),
// setfenv(0, t), loadstring are outside it), so this part of "globals follow fenv" has its own Coq
// model, coq/Fenv/FenvModel.v, and its own case kind `C3Env nt main post obs`
// (coq/Fenv/C03Cases.v). A script is a random tree of the model's operations; it is printed as Lua
// (every function body is `function(H) ... end` or a loaded chunk `local H = ...`; everything but
// the free names gx/gy/gz is reached through the helper table H, because the environments of the
// functions are bare tables), run on a fresh state, then the `post` operations are performed by the
// host on the main thread with no function running (LState API only). The observation is the list
// of emitted numbers (table ids; -1 = nil).
//
// Each script picks one of three bindings of the primitives: the base library (setfenv/getfenv,
// loadstring or load with a reader function, coroutine.create/wrap/resume, debug.setfenv/getfenv)
// or the host API from inside Go functions (L.SetFEnv / L.GetFEnv / L.Get(GlobalsIndex),
// L.LoadString, L.NewThread + L.Resume).
//
// The whole batch runs in a child process (coroutines are goroutines; a hang or a fatal error of
// the runtime is then an observation, not the end of the harness).

import (
	"bufio"
	"context"
	"encoding/json"
	"fmt"
	"os"
	"os/exec"
	"strings"
	"time"

	lua "github.com/yuin/gopher-lua"
	"github.com/yuin/gopher-lua/ast"
	"github.com/yuin/gopher-lua/parse"
	"verifh/lib"
	"verifh/luaprop"
)

const c03Header = luaprop.VMHeader + "\nFrom GL Require Import Fenv.FenvModel Fenv.C03Cases."

type eop struct {
	K    string `json:"k"`
	A    int    `json:"a,omitempty"`
	B    int    `json:"b,omitempty"`
	V    int    `json:"v,omitempty"`
	W    bool   `json:"w,omitempty"`
	Body []eop  `json:"body,omitempty"`
}

type envScript struct {
	NT      int    `json:"nt"`
	Binding string `json:"binding"` // baselib | baselib-load | api | api2
	Main    []eop  `json:"main"`
	Post    []eop  `json:"post"`
}

const (
	envSlots = 3
	envNames = 3
	envDepth = 4
)

var nameOf = []string{"gx", "gy", "gz"}

// ---- generator ----

type envGen struct {
	r  *lib.Rand
	nt int
}

func (g *envGen) tab() int  { return g.r.Intn(g.nt + 1) }
func (g *envGen) slot() int { return 1 + g.r.Intn(envSlots) }

func (g *envGen) ops(n, depth int, host bool) []eop {
	var out []eop
	for i := 0; i < n; i++ {
		out = append(out, g.op(depth, host)...)
	}
	return out
}

func (g *envGen) body(depth int) []eop {
	// what a function body typically does: look at where it runs, use free names, define / load / call /
	// create further functions
	n := g.r.Range(2, 5)
	if depth >= 2 {
		n = g.r.Range(1, 3)
	}
	return g.ops(n, depth+1, false)
}

func (g *envGen) op(depth int, host bool) []eop {
	deep := depth < 3
	w := []int{10, 6, 6, 5, 12, 8, 7, 5, 12, 8, 9 * b2i(deep), 9 * b2i(deep), 10, 9, 9, 6 * b2i(deep)}
	if host { // no running function: no setfenv(1)/getfenv(1), no closure creation
		w[1], w[5], w[10] = 0, 0, 0
	}
	switch g.r.Pick(w...) {
	case 0:
		return []eop{{K: "setT", A: g.tab()}}
	case 1:
		return []eop{{K: "setSelf", A: g.tab()}}
	case 2:
		return []eop{{K: "setF", A: g.slot(), B: g.tab()}}
	case 3:
		return []eop{{K: "setCo", A: g.slot(), B: g.tab()}}
	case 4:
		return []eop{{K: "getT"}}
	case 5:
		return []eop{{K: "getSelf"}}
	case 6:
		return []eop{{K: "getF", A: g.slot()}}
	case 7:
		return []eop{{K: "getCo", A: g.slot()}}
	case 8:
		return []eop{{K: "read", A: g.r.Intn(envNames)}}
	case 9:
		return []eop{{K: "write", A: g.r.Intn(envNames), V: g.r.Range(100, 999)}}
	case 10:
		return []eop{{K: "closure", A: g.slot(), Body: g.body(depth)}}
	case 11:
		return []eop{{K: "load", A: g.slot(), Body: g.body(depth)}}
	case 12:
		return []eop{{K: "call", A: g.slot()}}
	case 13:
		return []eop{{K: "coCreate", A: g.slot(), B: g.slot(), W: !host && g.r.Chance(30)}}
	case 14:
		return []eop{{K: "coResume", A: g.slot()}}
	default:
		// the history the family is about, in one piece: replace a table of globals, define a body that
		// inspects its surroundings, make a coroutine of it now, replace the table again, run it later
		k, c := g.slot(), g.slot()
		def := "closure"
		if host || g.r.Bool() {
			def = "load"
		}
		out := []eop{{K: "setT", A: g.tab()}, {K: def, A: k, Body: append([]eop{{K: "getT"}, {K: "load", A: g.slot(), Body: []eop{{K: "getSelf"}, {K: "read", A: 0}, {K: "write", A: 1, V: g.r.Range(100, 999)}}}}, g.body(depth)...)},
			{K: "coCreate", A: c, B: k, W: !host && g.r.Chance(30)}}
		if g.r.Chance(60) {
			out = append(out, eop{K: "setT", A: g.tab()})
		}
		out = append(out, g.ops(g.r.Intn(3), depth, host)...)
		return append(out, eop{K: "coResume", A: c})
	}
}

func b2i(b bool) int {
	if b {
		return 1
	}
	return 0
}

func genEnvScript(r *lib.Rand) *envScript {
	g := &envGen{r: r, nt: 3}
	s := &envScript{NT: g.nt, Binding: []string{"baselib", "baselib-load", "api", "api2"}[r.Pick(35, 20, 25, 20)]}
	s.Main = g.ops(r.Range(6, 14), 0, false)
	s.Post = g.ops(r.Range(0, 6), 0, true)
	return s
}

// ---- printers ----

func coqOps(ops []eop) string {
	it := make([]string, len(ops))
	for i, o := range ops {
		switch o.K {
		case "setT":
			it[i] = fmt.Sprintf("OSetT %d", o.A)
		case "setSelf":
			it[i] = fmt.Sprintf("OSetSelf %d", o.A)
		case "setF":
			it[i] = fmt.Sprintf("OSetF %d %d", o.A, o.B)
		case "setCo":
			it[i] = fmt.Sprintf("OSetCo %d %d", o.A, o.B)
		case "getT":
			it[i] = "OGetT"
		case "getSelf":
			it[i] = "OGetSelf"
		case "getF":
			it[i] = fmt.Sprintf("OGetF %d", o.A)
		case "getCo":
			it[i] = fmt.Sprintf("OGetCo %d", o.A)
		case "read":
			it[i] = fmt.Sprintf("ORead %d", o.A)
		case "write":
			it[i] = fmt.Sprintf("OWrite %d %d", o.A, o.V)
		case "closure":
			it[i] = fmt.Sprintf("OClosure %d %s", o.A, coqOps(o.Body))
		case "load":
			it[i] = fmt.Sprintf("OLoad %d %s", o.A, coqOps(o.Body))
		case "call":
			it[i] = fmt.Sprintf("OCall %d", o.A)
		case "coCreate":
			it[i] = fmt.Sprintf("OCoCreate %d %d %s", o.A, o.B, lib.CoqBool(o.W))
		case "coResume":
			it[i] = fmt.Sprintf("OCoResume %d", o.A)
		default:
			panic("unknown op " + o.K)
		}
	}
	return lib.CoqList(it)
}

func (s *envScript) coq(obs []int64) string {
	return fmt.Sprintf("C3Env %d %s %s %s", s.NT, coqOps(s.Main), coqOps(s.Post), lib.CoqZList(obs))
}

// luaOps prints a body; lvl is the long-bracket level for the next loaded chunk inside it.
func luaOps(ops []eop, ind string, lvl int) string {
	var b strings.Builder
	for _, o := range ops {
		b.WriteString(ind)
		switch o.K {
		case "setT":
			fmt.Fprintf(&b, "H.setT(H.T[%d])\n", o.A)
		case "setSelf":
			fmt.Fprintf(&b, "H.setfenv(1, H.T[%d])\n", o.A)
		case "setF":
			fmt.Fprintf(&b, "H.setF(%d, %d)\n", o.A, o.B)
		case "setCo":
			fmt.Fprintf(&b, "H.setCo(%d, %d)\n", o.A, o.B)
		case "getT":
			b.WriteString("H.emit(H.getT())\n")
		case "getSelf":
			b.WriteString("H.emit(H.getfenv(1))\n")
		case "getF":
			fmt.Fprintf(&b, "H.getF(%d)\n", o.A)
		case "getCo":
			fmt.Fprintf(&b, "H.getCo(%d)\n", o.A)
		case "read":
			fmt.Fprintf(&b, "H.emit(%s)\n", nameOf[o.A])
		case "write":
			fmt.Fprintf(&b, "%s = %d\n", nameOf[o.A], o.V)
		case "closure":
			fmt.Fprintf(&b, "H.F[%d] = function(H)\n%s%send\n", o.A, luaOps(o.Body, ind+"  ", lvl), ind)
		case "load":
			eq := strings.Repeat("=", lvl)
			fmt.Fprintf(&b, "H.F[%d] = H.load([%s[local H = ...\n%s%s]%s])\n", o.A, eq, luaOps(o.Body, ind+"  ", lvl+1), ind, eq)
		case "call":
			fmt.Fprintf(&b, "H.call(%d)\n", o.A)
		case "coCreate":
			fmt.Fprintf(&b, "H.coCreate(%d, %d, %v)\n", o.A, o.B, o.W)
		case "coResume":
			fmt.Fprintf(&b, "H.coResume(%d)\n", o.A)
		}
	}
	return b.String()
}

func (s *envScript) lua() string { return "local H = ...\n" + luaOps(s.Main, "", 0) }

// the helper table; written in Lua against primitives that the binding supplies (prim.*)
const envPrelude = `
local prim, nt, maxdepth = ...
local type, error, setfenv, getfenv = type, error, setfenv, getfenv
local H = {F = {}, C = {}, T = {}, started = {}, cofn = {}, hostco = {}, depth = 0, setfenv = setfenv, getfenv = getfenv}
H.T[0] = getfenv(0)
for i = 1, nt do H.T[i] = {} end
function H.idof(t) for i = 0, nt do if H.T[i] == t then return i end end return -2 end
function H.emit(v) if v == nil then prim.emit(-1) elseif type(v) == "table" then prim.emit(H.idof(v)) else prim.emit(v) end end
H.setT, H.getT, H.load = prim.setT, prim.getT, prim.load
function H.setF(k, t) local f = H.F[k]; if f then prim.setF(f, H.T[t]) end end
function H.getF(k) local f = H.F[k]; if f then H.emit(prim.getF(f)) else H.emit(nil) end end
function H.setCo(k, t) local c = H.C[k]; if c and type(c) == "thread" then prim.setCo(c, H.T[t]) end end
function H.getCo(k) local c = H.C[k]; if c and type(c) == "thread" then H.emit(prim.getCo(c)) else H.emit(nil) end end
function H.call(k)
  local f = H.F[k]
  if f and H.depth < maxdepth then H.depth = H.depth + 1; f(H); H.depth = H.depth - 1 end
end
function H.coCreate(k, j, wrap)
  local f = H.F[j]
  if f then
    local c
    if wrap then c = prim.wrap(f) else c = prim.create(f) end
    H.C[k] = c; H.cofn[c] = f
  end
end
function H.coResume(k)
  local c = H.C[k]
  if c and not H.started[c] and H.depth < maxdepth then
    H.started[c] = true; H.depth = H.depth + 1
    if type(c) == "thread" then
      -- a thread the host made with NewThread has no body yet: only L.Resume can give it one
      local resume = H.hostco[c] and prim.hostresume or prim.resume
      local ok, e = resume(c, H.cofn[c], H)
      if not ok then error(e, 0) end
    else c(H) end
    H.depth = H.depth - 1
  end
end
return H
`

const envPrimBase = `
local setfenv, getfenv, loadstring, load, coroutine, debug = setfenv, getfenv, loadstring, load, coroutine, debug
local viaLoad = ...
local prim = {}
function prim.setT(t) setfenv(0, t) end
function prim.getT() return getfenv(0) end
if viaLoad then
  function prim.load(src)
    local parts, i = {src:sub(1, 7), src:sub(8)}, 0
    return (load(function() i = i + 1; return parts[i] end))
  end
else
  function prim.load(src) return (loadstring(src)) end
end
function prim.setF(f, t) setfenv(f, t) end
function prim.getF(f) return getfenv(f) end
prim.setCo, prim.getCo = debug.setfenv, debug.getfenv
prim.create, prim.wrap = coroutine.create, coroutine.wrap
function prim.resume(c, f, h) return coroutine.resume(c, h) end
return prim
`

// ---- runner ----

type envRun struct {
	Obs []int64 `json:"obs"`
	Err string  `json:"err,omitempty"`
}

// apiPrims: the primitives through the host API, called from inside Go functions. alt picks the
// second way the API offers for the same thing: L.Replace(GlobalsIndex, t) for L.SetFEnv(L, t),
// L.GetFEnv(L) for L.Get(GlobalsIndex), parse + Compile + NewFunctionFromProto for LoadString.
func apiPrims(L *lua.LState, alt bool) *lua.LTable {
	p := L.NewTable()
	reg := func(n string, f lua.LGFunction) { p.RawSetString(n, L.NewFunction(f)) }
	reg("setT", func(L *lua.LState) int {
		if alt {
			L.Replace(lua.GlobalsIndex, L.CheckTable(1))
		} else {
			L.SetFEnv(L, L.CheckTable(1))
		}
		return 0
	})
	reg("getT", func(L *lua.LState) int {
		if alt {
			L.Push(L.GetFEnv(L))
		} else {
			L.Push(L.Get(lua.GlobalsIndex))
		}
		return 1
	})
	reg("load", func(L *lua.LState) int {
		var fn *lua.LFunction
		var err error
		if alt {
			var chunk []ast.Stmt
			var proto *lua.FunctionProto
			if chunk, err = parse.Parse(strings.NewReader(L.CheckString(1)), "<string>"); err == nil {
				if proto, err = lua.Compile(chunk, "<string>"); err == nil {
					fn = L.NewFunctionFromProto(proto)
				}
			}
		} else {
			fn, err = L.LoadString(L.CheckString(1))
		}
		if err != nil {
			L.RaiseError("load: %v", err)
		}
		L.Push(fn)
		return 1
	})
	reg("setF", func(L *lua.LState) int { L.SetFEnv(L.CheckFunction(1), L.CheckTable(2)); return 0 })
	reg("getF", func(L *lua.LState) int { L.Push(L.GetFEnv(L.CheckFunction(1))); return 1 })
	reg("setCo", func(L *lua.LState) int { L.SetFEnv(L.CheckThread(1), L.CheckTable(2)); return 0 })
	reg("getCo", func(L *lua.LState) int { L.Push(L.GetFEnv(L.CheckThread(1))); return 1 })
	reg("create", func(L *lua.LState) int { th, _ := L.NewThread(); L.Push(th); return 1 })
	p.RawSetString("wrap", L.GetField(L.GetGlobal("coroutine"), "wrap"))
	reg("resume", apiResume)
	return p
}

// apiResume(th, fn, h): L.Resume; fn becomes the body if the thread has none yet (made by NewThread)
func apiResume(L *lua.LState) int {
	st, err, _ := L.Resume(L.CheckThread(1), L.CheckFunction(2), L.Get(3))
	if st == lua.ResumeError {
		L.Push(lua.LFalse)
		L.Push(lua.LString(fmt.Sprint(err)))
		return 2
	}
	L.Push(lua.LTrue)
	return 1
}

func runEnvScript(s *envScript) (res envRun) {
	L := lua.NewState()
	defer L.Close()
	ctx, cancel := context.WithTimeout(context.Background(), 10*time.Second)
	defer cancel()
	L.SetContext(ctx)
	defer func() {
		if r := recover(); r != nil {
			res.Err = fmt.Sprintf("panic: %v", r)
		}
	}()
	callChunk := func(src, name string, nret int, args ...lua.LValue) (lua.LValue, error) {
		fn, err := L.Load(strings.NewReader(src), name)
		if err != nil {
			return nil, err
		}
		L.Push(fn)
		for _, a := range args {
			L.Push(a)
		}
		if err := L.PCall(len(args), nret, nil); err != nil {
			return nil, err
		}
		if nret == 0 {
			return lua.LNil, nil
		}
		v := L.Get(-1)
		L.Pop(1)
		return v, nil
	}
	var prim lua.LValue
	var err error
	if s.Binding == "api" || s.Binding == "api2" {
		prim = apiPrims(L, s.Binding == "api2")
	} else if prim, err = callChunk(envPrimBase, "prim", 1, lua.LBool(s.Binding == "baselib-load")); err != nil {
		res.Err = "prelude: " + err.Error()
		return
	}
	prim.(*lua.LTable).RawSetString("hostresume", L.NewFunction(apiResume))
	prim.(*lua.LTable).RawSetString("emit", L.NewFunction(func(L *lua.LState) int {
		res.Obs = append(res.Obs, int64(L.CheckNumber(1)))
		return 0
	}))
	hv, err := callChunk(envPrelude, "helpers", 1, prim, lua.LNumber(s.NT), lua.LNumber(envDepth))
	if err != nil {
		res.Err = "prelude: " + err.Error()
		return
	}
	H := hv.(*lua.LTable)
	if _, err := callChunk(s.lua(), "script", 0, H); err != nil {
		res.Err = "script: " + err.Error()
		return
	}
	if L.GetTop() != 0 {
		res.Err = fmt.Sprintf("stack not empty after the script: %d", L.GetTop())
		return
	}
	if err := hostOps(L, H, s.Post); err != nil {
		res.Err = "host operations: " + err.Error()
	}
	return
}

// hostOps performs operations on the main thread with no function running, through the API only.
func hostOps(L *lua.LState, H *lua.LTable, ops []eop) error {
	tabOf := func(name string) *lua.LTable { return H.RawGetString(name).(*lua.LTable) }
	F, C, T, started, cofn := tabOf("F"), tabOf("C"), tabOf("T"), tabOf("started"), tabOf("cofn")
	emitV := func(v lua.LValue) error {
		return L.CallByParam(lua.P{Fn: H.RawGetString("emit"), NRet: 0, Protect: true}, v)
	}
	depth := func() int { return int(H.RawGetString("depth").(lua.LNumber)) }
	for _, o := range ops {
		var err error
		switch o.K {
		case "setT":
			L.SetFEnv(L, T.RawGetInt(o.A))
		case "getT":
			err = emitV(L.Get(lua.GlobalsIndex))
		case "setF":
			if f, ok := F.RawGetInt(o.A).(*lua.LFunction); ok {
				L.SetFEnv(f, T.RawGetInt(o.B))
			}
		case "getF":
			if f, ok := F.RawGetInt(o.A).(*lua.LFunction); ok {
				err = emitV(L.GetFEnv(f))
			} else {
				err = emitV(lua.LNil)
			}
		case "setCo":
			if c, ok := C.RawGetInt(o.A).(*lua.LState); ok {
				L.SetFEnv(c, T.RawGetInt(o.B))
			}
		case "getCo":
			if c, ok := C.RawGetInt(o.A).(*lua.LState); ok {
				err = emitV(L.GetFEnv(c))
			} else {
				err = emitV(lua.LNil)
			}
		case "read":
			err = emitV(L.GetGlobal(nameOf[o.A]))
		case "write":
			L.SetGlobal(nameOf[o.A], lua.LNumber(o.V))
		case "load":
			var fn *lua.LFunction
			if fn, err = L.LoadString("local H = ...\n" + luaOps(o.Body, "  ", 0)); err == nil {
				F.RawSetInt(o.A, fn)
			}
		case "call":
			if f, ok := F.RawGetInt(o.A).(*lua.LFunction); ok && depth() < envDepth {
				H.RawSetString("depth", lua.LNumber(depth()+1))
				err = L.CallByParam(lua.P{Fn: f, NRet: 0, Protect: true}, H)
				H.RawSetString("depth", lua.LNumber(depth()-1))
			}
		case "coCreate":
			if f, ok := F.RawGetInt(o.B).(*lua.LFunction); ok {
				th, _ := L.NewThread()
				C.RawSetInt(o.A, th)
				cofn.RawSetH(th, f)
				tabOf("hostco").RawSetH(th, lua.LTrue)
			}
		case "coResume":
			c := C.RawGetInt(o.A)
			if c != lua.LNil && started.RawGetH(c) == lua.LNil && depth() < envDepth {
				started.RawSetH(c, lua.LTrue)
				H.RawSetString("depth", lua.LNumber(depth()+1))
				if th, ok := c.(*lua.LState); ok {
					var st lua.ResumeState
					if st, err, _ = L.Resume(th, cofn.RawGetH(c).(*lua.LFunction), H); st != lua.ResumeError {
						err = nil
					}
				} else {
					err = L.CallByParam(lua.P{Fn: c, NRet: 0, Protect: true}, H)
				}
				H.RawSetString("depth", lua.LNumber(depth()-1))
			}
		default:
			err = fmt.Errorf("operation %s is not a host operation", o.K)
		}
		if err != nil {
			return fmt.Errorf("%s: %v", o.K, err)
		}
		if L.GetTop() != 0 {
			return fmt.Errorf("%s: stack not empty (%d)", o.K, L.GetTop())
		}
	}
	return nil
}

// ---- corpus: one script per mechanism, each binding ----

func envCorpus() []*envScript {
	inspect := []eop{{K: "getT"}, {K: "getSelf"}, {K: "read", A: 0}, {K: "load", A: 3, Body: []eop{{K: "getSelf"}, {K: "read", A: 0}, {K: "write", A: 1, V: 555}}}, {K: "call", A: 3}}
	var out []*envScript
	for _, b := range []string{"baselib", "baselib-load", "api", "api2"} {
		out = append(out,
			// the creator's table of globals is replaced first, then coroutines are made (create and wrap),
			// replaced again, then they run: each sees the table of its creation time
			&envScript{NT: 3, Binding: b, Main: []eop{{K: "write", A: 0, V: 100}, {K: "setT", A: 1}, {K: "closure", A: 1, Body: inspect},
				{K: "coCreate", A: 1, B: 1}, {K: "coCreate", A: 2, B: 1, W: true}, {K: "setT", A: 2}, {K: "coCreate", A: 3, B: 1},
				{K: "getCo", A: 1}, {K: "getCo", A: 3}, {K: "coResume", A: 1}, {K: "coResume", A: 2}, {K: "coResume", A: 3}, {K: "getT"}, {K: "read", A: 1}},
				Post: []eop{{K: "getT"}, {K: "read", A: 1}, {K: "load", A: 2, Body: inspect}, {K: "coCreate", A: 1, B: 2}, {K: "setT", A: 3}, {K: "getCo", A: 1}, {K: "coResume", A: 1}, {K: "call", A: 2}}},
			// a coroutine that replaces its own table and creates a coroutine in turn; debug.setfenv on a
			// thread that has not run yet
			&envScript{NT: 3, Binding: b, Main: []eop{{K: "closure", A: 2, Body: inspect},
				{K: "closure", A: 1, Body: []eop{{K: "setT", A: 2}, {K: "coCreate", A: 2, B: 2}, {K: "setT", A: 3}, {K: "coResume", A: 2}, {K: "getT"}}},
				{K: "coCreate", A: 1, B: 1}, {K: "setCo", A: 1, B: 1}, {K: "getCo", A: 1}, {K: "coResume", A: 1}, {K: "getCo", A: 1}, {K: "getCo", A: 2}, {K: "getT"}},
				Post: []eop{{K: "getT"}, {K: "getCo", A: 2}}},
			// functions: closure inherits from its creator, loaded chunk from the thread, setfenv(1)/(f)
			&envScript{NT: 3, Binding: b, Main: []eop{{K: "setT", A: 1}, {K: "closure", A: 1, Body: []eop{{K: "getSelf"}, {K: "setSelf", A: 2}, {K: "write", A: 0, V: 7}, {K: "closure", A: 2, Body: []eop{{K: "getSelf"}, {K: "read", A: 0}}}, {K: "load", A: 3, Body: []eop{{K: "getSelf"}, {K: "read", A: 0}}}}},
				{K: "call", A: 1}, {K: "call", A: 2}, {K: "call", A: 3}, {K: "setF", A: 2, B: 3}, {K: "getF", A: 1}, {K: "getF", A: 2}, {K: "getF", A: 3}, {K: "call", A: 2}, {K: "getSelf"}, {K: "read", A: 0}},
				Post: []eop{{K: "getF", A: 2}, {K: "setF", A: 3, B: 0}, {K: "call", A: 3}, {K: "read", A: 0}}})
	}
	return out
}

// ---- child / parent ----

type envLine struct {
	Script *envScript `json:"script"`
	Run    envRun     `json:"run"`
	Class  string     `json:"class"`
}

// fenvChild: `c03 fenvchild <seed> <n>` prints one JSON line per script (corpus first);
// `c03 fenvchild replay` reads one script from stdin.
func fenvChild(args []string) {
	out := bufio.NewWriter(os.Stdout)
	defer out.Flush()
	enc := json.NewEncoder(out)
	if len(args) > 0 && args[0] == "replay" {
		var s envScript
		if err := json.NewDecoder(os.Stdin).Decode(&s); err != nil {
			panic(err)
		}
		enc.Encode(envLine{&s, runEnvScript(&s), "fenv-replay"})
		return
	}
	var seed uint64
	var n int
	fmt.Sscan(args[0], &seed)
	fmt.Sscan(args[1], &n)
	for _, s := range envCorpus() {
		enc.Encode(envLine{s, runEnvScript(s), "fenv-corpus"})
		out.Flush()
	}
	r := lib.NewRand(seed*7919 + 17)
	for i := 0; i < n; i++ {
		s := genEnvScript(r.Fork())
		enc.Encode(envLine{s, runEnvScript(s), "fenv-" + s.Binding})
		out.Flush()
	}
}

func addEnvLines(w *lib.Writer, raw []byte, childErr string) {
	sc := bufio.NewScanner(strings.NewReader(string(raw)))
	sc.Buffer(make([]byte, 1<<20), 1<<26)
	n := 0
	for sc.Scan() {
		var l envLine
		if json.Unmarshal(sc.Bytes(), &l) != nil || l.Script == nil {
			continue
		}
		n++
		id := w.Add(lib.Case{Input: map[string]any{"fenv": l.Script, "lua": l.Script.lua()}, Observed: l.Run, Class: l.Class,
			Nontrivial: len(l.Run.Obs) >= 3, Coq: l.Script.coq(l.Run.Obs)})
		if l.Run.Err != "" {
			w.GoFail(id, "environment script did not run to its end: "+l.Run.Err)
		}
	}
	if childErr != "" {
		id := w.Add(lib.Case{Input: map[string]any{"fenv-child": "batch"}, Observed: childErr, Class: "fenv-child", Nontrivial: true, Coq: "C3Env 0 [] [] []"})
		w.GoFail(id, fmt.Sprintf("the child process running the environment scripts failed after %d scripts: %s", n, childErr))
	}
}

func fenvExtra(w *lib.Writer, tier string, seed uint64) {
	n := 150
	if tier == "thorough" {
		n = 3000
	}
	ctx, cancel := context.WithTimeout(context.Background(), 10*time.Minute)
	defer cancel()
	cmd := exec.CommandContext(ctx, os.Args[0], "fenvchild", fmt.Sprint(seed), fmt.Sprint(n))
	var eb strings.Builder
	cmd.Stderr = &eb
	raw, err := cmd.Output()
	ce := ""
	if err != nil {
		e := eb.String()
		if len(e) > 1500 {
			e = e[:1500]
		}
		ce = fmt.Sprintf("%v: %s", err, e)
	}
	addEnvLines(w, raw, ce)
}

func fenvReplay(w *lib.Writer, file []byte) bool {
	var rp struct {
		Input struct {
			Fenv *envScript `json:"fenv"`
		} `json:"input"`
	}
	if json.Unmarshal(file, &rp) != nil || rp.Input.Fenv == nil {
		return false
	}
	b, _ := json.Marshal(rp.Input.Fenv)
	ctx, cancel := context.WithTimeout(context.Background(), time.Minute)
	defer cancel()
	cmd := exec.CommandContext(ctx, os.Args[0], "fenvchild", "replay")
	cmd.Stdin = strings.NewReader(string(b))
	raw, err := cmd.Output()
	ce := ""
	if err != nil {
		ce = err.Error()
	}
	addEnvLines(w, raw, ce)
	return true
}
