// c13: correspondence + exploration harness for property C13
// (concurrent states never interfere; channels deliver each value once, in order).
//
//	c13 run   --tier T --seed S --out DIR [--replay FILE]   parent: generates jobs, runs them in child processes, writes cases
//	c13 child JOBS.json                                     child: runs the real code, prints one JSON line per job
//
// Everything that touches goroutines, channels or shared prototypes runs in the child under a
// time limit; a crash, a hang or a race report (the binary is built with -race when the toolchain
// allows it) is that job's observation and becomes a GoFail.
package main

import (
	"fmt"
	"os"

	"verifh/lib"
)

const header = "From GL Require Import Common.Bytes Chan.ChanModel Chan.ChanSpec Chan.ChanCases."

func main() {
	if len(os.Args) >= 3 && os.Args[1] == "child" {
		childMain(os.Args[2])
		return
	}
	a := lib.ParseArgs()
	if a.Cmd != "run" {
		fmt.Fprintln(os.Stderr, "unknown command", a.Cmd)
		os.Exit(2)
	}
	w, err := lib.NewWriter(a.Out, "C13", a.Tier, a.Seed, header, "case", 25)
	if err != nil {
		panic(err)
	}
	w.Meta.Rule = "channel histories: 1..3 producer, 1..3 consumer, closer and janitor LStates, each in its own goroutine, running Lua scripts over the real channel library " +
		"(send/receive/close/select with and without default, handlers) on 1..2 channels of capacity 0..5, GOMAXPROCS in {1,2,4,16}; plus single-state scripts over all payload kinds; " +
		"the log of invocation/return entries is checked by trace_ok (impl) and by the clause predicates spec_log (spec). " +
		"non-interference jobs: N states in N goroutines run one shared compiled FunctionProto while other goroutines create/compile/close states (race detector on when available). " +
		"stress jobs: 2-3 producers and 8-12 consumers (most with a context) compete on one small buffered channel for 15000+ values; counters for duplicates, early closure reports, per-sender disorder. " +
		"lib jobs: a state changes every table reachable from its globals (library tables, metatables, function environments); states created before/after/concurrently must keep the pristine fingerprint. " +
		"limit jobs: a retrying consumer receives (receive / select / select handler) with its registry or call stack at the limit; every value must still arrive once. " +
		"edge histories: one state with a small fixed / growing / grown-to-its-maximum registry or a small call stack goes through history steps (errors raised while the registry was completely full, growth, recursion overflows, errors in coroutines and in gsub/sort/xpcall callbacks, failing channel calls) and then issues receive / select (receive and send cases, Lua handlers of fixed arity, varargs and 40 locals, a Go function as handler, handler on the second case), in the main thread or inside a coroutine, at every register height from beyond the limit down to where the operation has room; a failed operation is logged as RErrLimit and the top level then looks into the channel (select with default), closes and drains it. " +
		"make jobs: pcall(channel.make, n) for sizes from 0 to 2^62 and negative ones next to a computing state. " +
		"non-trivial = a history with >= 2 threads, >= 1 delivered value and >= 1 pair of operations of different threads overlapping in time, or a single-state script with >= 1 refused payload or closure report; " +
		"an edge history with >= 1 operation that worked, >= 1 that failed after its leaf had been entered (the library call itself hit the limit) and the final closure report; " +
		"an isolation job with >= 2 concurrent states; distinct by Gallina term"
	w.Meta.Extra = map[string]any{"race_detector": raceEnabled}
	r := lib.NewRand(a.Seed)
	var jobs []Job
	if a.Replay != "" {
		jobs = replayJobs(a.Replay)
	} else {
		jobs = append(jobs, corpus()...)
		jobs = append(jobs, genJobs(r, a.Tier)...)
	}
	for i := range jobs {
		jobs[i].ID = i
	}
	runJobs(w, jobs, a.Out)
	if err := w.Close(); err != nil {
		panic(err)
	}
}
