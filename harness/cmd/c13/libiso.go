package main

// Non-interference of per-state library objects ("lib" jobs).
//
// Every mutable object that a script can reach from its globals (library tables, metatables of
// strings / channels / files, environments of library functions) must belong to that state alone.
// A mutator state adds a field to, and replaces a function in, EVERY table it can reach; inspector
// states -- one created before the mutator ran, one created after, one created after the mutator
// was closed, and several running concurrently with further mutators -- compute a fingerprint of
// everything they can reach, which must equal the fingerprint a state computes before any
// mutation happened; and every library function must have the inspecting state's own globals as
// its environment.  Runs in the child process: a tree that shares such an object may die with
// "concurrent map read and map write".

import (
	"crypto/sha256"
	"encoding/hex"
	"fmt"
	"runtime"
	"strings"
	"sync"
	"time"

	lua "github.com/yuin/gopher-lua"
)

type LibSpec struct {
	Tag       string `json:"tag"`
	Mutators  int    `json:"mutators"`
	Inspect   int    `json:"inspectors"`
	Rounds    int    `json:"rounds"`
	Procs     int    `json:"procs"`
	TimeoutMs int    `json:"timeout_ms"`
}

type LibObs struct {
	Ref       string   `json:"ref"`
	Obs       []string `json:"obs"`
	Who       []string `json:"who"`
	Foreign   int      `json:"foreign_env"`
	Tables    int      `json:"tables_mutated"`
	MutatorOK bool     `json:"mutator_sees_own_changes"`
	Entries   int      `json:"entries"`
	Diff      []string `json:"diff,omitempty"`
}

// walk(visit): breadth first over every table reachable from the globals through table values,
// metatables of any value (debug.getmetatable, so __metatable does not hide them) and
// environments of functions; keys in a canonical order.
const libWalker = `
local G = _G
local type, next, tostring, rawget, rawset, rawequal, getfenv, ipairs = type, next, tostring, rawget, rawset, rawequal, getfenv, ipairs
local dgetmt, dgetinfo, sort, concat = debug.getmetatable, debug.getinfo, table.sort, table.concat
ch = channel.make(1)
local function walk(visit)
  local seen, queue, paths = {}, {}, {}
  local function push(t, path)
    if type(t) == "table" and not seen[t] then seen[t] = true; queue[#queue + 1] = t; paths[t] = path end
  end
  push(G, "_G")
  push(dgetmt(""), "<string>.<mt>")
  push(dgetmt(ch), "<channel>.<mt>")
  push(dgetmt(0), "<number>.<mt>")
  push(dgetmt(print), "<function>.<mt>")
  local qi = 1
  while qi <= #queue do
    local t = queue[qi]; qi = qi + 1
    local path = paths[t]
    local keys = {}
    local k = next(t)
    while k ~= nil do
      if type(k) == "string" or type(k) == "number" then keys[#keys + 1] = k end
      k = next(t, k)
    end
    sort(keys, function(a, b)
      local ta, tb = type(a), type(b)
      if ta ~= tb then return ta < tb end
      return a < b
    end)
    visit(t, path, keys)
    push(dgetmt(t), path .. ".<mt>")
    for _, k in ipairs(keys) do
      local v = rawget(t, k)
      local p = path .. "." .. tostring(k)
      if type(v) == "table" then push(v, p)
      elseif type(v) == "function" then push(getfenv(v), p .. ".<env>") end
      if type(v) ~= "table" then push(dgetmt(v), p .. ".<mt>") end
    end
  end
end
`

// returns the fingerprint text, the number of functions whose environment is not this state's
// globals, and the number of entries
const libInspect = libWalker + libPhases + `
local lines, foreign = {}, 0
local function look(phase)
  walk(function(t, path, keys)
    for _, k in ipairs(keys) do
      local v = rawget(t, k)
      local d = type(v)
      if d == "function" then
        local i = dgetinfo(v, "S")
        d = d .. ":" .. tostring(i and i.what)
        if not rawequal(getfenv(v), G) then foreign = foreign + 1; d = d .. ":foreign-env" end
      elseif d == "number" or d == "string" or d == "boolean" then
        d = d .. "=" .. tostring(v)
      elseif d == "userdata" then
        d = d .. (dgetmt(v) == nil and ":no-mt" or ":mt")
      end
      lines[#lines + 1] = phase .. " " .. path .. "." .. tostring(k) .. " : " .. d
    end
  end)
end
phases(look)
-- the library still works and its methods are the built-in ones
local okm = ch.send ~= nil and dgetinfo(ch.send, "S").what == "Go" and dgetinfo(("").rep, "S").what == "Go"
ch:send(7)
local ok, v = ch:receive()
-- hidden state of the libraries: the random source and the standard files are this state's own
math.randomseed(4242)
local rs = 0
for i = 1, 200 do rs = rs + math.random(1000) end
lines[#lines + 1] = "random after randomseed(4242) : " .. rs .. " " .. math.random(1000000)
lines[#lines + 1] = "standard files usable : " .. tostring(io.stdout:write("") ~= nil) .. " " .. tostring(io.stderr:write("") ~= nil) .. " " .. io.type(io.stdout) .. " " .. io.type(io.stderr) .. " " .. io.type(io.stdin)
lines[#lines + 1] = "use : " .. tostring(okm) .. " " .. tostring(ok) .. " " .. tostring(v) .. " " .. ("x"):rep(3) .. " " .. #lines
return concat(lines, "\n"), foreign, #lines
`

// Objects that exist only while a library calls back into Lua are looked at from there: the
// body runs at top level, inside a package.preload loader (package.loaded[name] then holds
// require's loop-detection sentinel), inside a string.gsub replacement function and inside a
// table.sort comparator.
const libPhases = `
local function phases(body)
  body("top")
  package.preload["verif_probe_mod"] = function(name) body("loader") return true end
  require("verif_probe_mod")
  package.loaded["verif_probe_mod"] = nil
  package.preload["verif_probe_mod"] = nil
  local once = true
  string.gsub("x", ".", function(c) if once then once = false; body("gsub") end end)
  once = true
  table.sort({2, 1}, function(a, b) if once then once = false; body("sort") end return a < b end)
end
`

// adds a field to every reachable table and replaces the first function-valued entry of each by a
// (behaviour preserving) Lua closure of this state; returns the number of tables changed
const libMutate = libWalker + libPhases + `
local n = 0
local function change(phase)
  local tables, uds = {}, {}
  walk(function(t, path, keys)
    tables[#tables + 1] = {t, keys}
    for _, k in ipairs(keys) do
      local v = rawget(t, k)
      if type(v) == "userdata" and dgetmt(v) == nil then uds[#uds + 1] = v end
    end
  end)
  for _, e in ipairs(tables) do
    local t, keys = e[1], e[2]
    rawset(t, "zz_verif_" .. TAG .. phase, function() return TAG end)
    for _, k in ipairs(keys) do
      local orig = rawget(t, k)
      if type(orig) == "function" then
        rawset(t, k, function(...) return orig(...) end)
        break
      end
    end
    n = n + 1
  end
  -- a userdata without a metatable gets one (the only way to change it from Lua)
  for _, u in ipairs(uds) do
    debug.setmetatable(u, {__index = function(t, k) return TAG .. ":" .. tostring(k) end})
    n = n + 1
  end
end
phases(change)
-- the way a script would extend the channel library
dgetmt(ch).__index["myop_" .. TAG] = function(c, x) c:send(x); return TAG end
channel["helper_" .. TAG] = function() return TAG end
string["trim_" .. TAG] = function(s) return s end
-- hidden state: reseed and draw, try to close the standard files
math.randomseed(7)
for i = 1, 10 do math.random() end
pcall(function() return io.stdout:close() end)
pcall(function() return io.stderr:close() end)
pcall(io.close)
pcall(function() return io.stdin:close() end)
return n
`

func digestText(s string) string {
	h := sha256.Sum256([]byte(s))
	return hex.EncodeToString(h[:])
}

func runLib(spec *LibSpec) Result {
	if spec.Procs > 0 {
		runtime.GOMAXPROCS(spec.Procs)
	}
	insp, err1 := compileSrc(libInspect, "inspect")
	mut, err2 := compileSrc(libMutate, "mutate")
	if err1 != nil || err2 != nil {
		return Result{Status: "error", Msg: fmt.Sprint("lib scripts do not compile: ", err1, err2)}
	}
	var mu sync.Mutex
	obs := &LibObs{}
	var errs []string
	texts := map[string]string{}
	inspect := func(L *lua.LState, who string) (string, bool) {
		L.Push(L.NewFunctionFromProto(insp))
		if err := L.PCall(0, 3, nil); err != nil {
			mu.Lock()
			errs = append(errs, who+": "+trunc(err.Error(), 300))
			mu.Unlock()
			return "", false
		}
		txt := lua.LVAsString(L.Get(-3))
		foreign := int(lua.LVAsNumber(L.Get(-2)))
		n := int(lua.LVAsNumber(L.Get(-1)))
		L.Pop(3)
		d := digestText(txt)
		mu.Lock()
		obs.Obs = append(obs.Obs, d)
		obs.Who = append(obs.Who, who)
		obs.Foreign += foreign
		obs.Entries = n
		texts[d] = txt
		mu.Unlock()
		return txt, true
	}
	mutate := func(L *lua.LState, tag string) int {
		L.SetGlobal("TAG", lua.LString(tag))
		L.Push(L.NewFunctionFromProto(mut))
		if err := L.PCall(0, 1, nil); err != nil {
			mu.Lock()
			errs = append(errs, "mutator "+tag+": "+trunc(err.Error(), 300))
			mu.Unlock()
			return 0
		}
		n := int(lua.LVAsNumber(L.Get(-1)))
		L.Pop(1)
		return n
	}
	done := make(chan struct{})
	go func() {
		defer close(done)
		// the reference: a state looks at itself before anything was changed anywhere
		old := lua.NewState()
		defer old.Close()
		ref, ok := inspect(old, "reference")
		if !ok {
			return
		}
		obs.Ref = digestText(ref)
		obs.Obs, obs.Who = nil, nil
		// a seeded sequence continues as it does alone, whatever other states draw in between
		draw := func(L *lua.LState, src string) string {
			if err := L.DoString(src); err != nil {
				return "error " + trunc(err.Error(), 100)
			}
			v := lua.LVAsString(L.Get(-1))
			L.Pop(1)
			return v
		}
		const p1 = `math.randomseed(42) return math.random(1000000) .. "," .. math.random(1000000) .. "," .. math.random()`
		const p2 = `return math.random(1000000) .. "," .. math.random(5, 500000) .. "," .. math.random()`
		lone := lua.NewState()
		randAlone := draw(lone, p1) + ";" + draw(lone, p2)
		lone.Close()
		seq := lua.NewState() // created before the mutator; nothing else runs in it
		defer seq.Close()
		randSeen := draw(seq, p1)
		// sequential: A changes everything it can reach
		a := lua.NewState()
		obs.Tables = mutate(a, spec.Tag)
		own, _ := inspect(a, "mutator-self")
		obs.MutatorOK = own != ref
		// the mutator's own view is not an observation to compare
		mu.Lock()
		obs.Obs, obs.Who = nil, nil
		obs.Foreign = 0
		mu.Unlock()
		inspect(old, "created-before-mutator")
		fresh := lua.NewState()
		inspect(fresh, "created-after-mutator")
		fresh.Close()
		a.Close()
		fresh2 := lua.NewState()
		inspect(fresh2, "created-after-mutator-closed")
		fresh2.Close()
		randSeen += ";" + draw(seq, p2)
		if randSeen == randAlone {
			obs.Obs, obs.Who = append(obs.Obs, obs.Ref), append(obs.Who, "seeded-random-across-mutator")
		} else {
			obs.Obs, obs.Who = append(obs.Obs, digestText("random:"+randSeen)), append(obs.Who, "seeded-random-across-mutator")
			obs.Diff = append(obs.Diff, "seeded sequence alone "+randAlone+" / with another state drawing in between "+randSeen)
		}
		// concurrent: mutators and inspectors at the same time
		var wg sync.WaitGroup
		for m := 0; m < spec.Mutators; m++ {
			wg.Add(1)
			go func(m int) {
				defer wg.Done()
				for r := 0; r < spec.Rounds; r++ {
					L := lua.NewState(isoOptions(m + r))
					mutate(L, fmt.Sprintf("%s_%d_%d", spec.Tag, m, r))
					L.Close()
				}
			}(m)
		}
		for i := 0; i < spec.Inspect; i++ {
			wg.Add(1)
			go func(i int) {
				defer wg.Done()
				for r := 0; r < spec.Rounds; r++ {
					L := lua.NewState(isoOptions(i + r))
					inspect(L, fmt.Sprintf("concurrent-%d-%d", i, r))
					L.Close()
				}
			}(i)
		}
		wg.Wait()
		inspect(old, "created-before-all-after-all")
	}()
	to := spec.TimeoutMs
	if to <= 0 {
		to = 60000
	}
	select {
	case <-done:
	case <-time.After(time.Duration(to) * time.Millisecond):
		return Result{Status: "hang", Msg: "lib job still running after the time limit"}
	}
	// a few differing lines for the report
	refText := texts[obs.Ref]
	for i, d := range obs.Obs {
		if d != obs.Ref && len(obs.Diff) < 6 {
			have := map[string]bool{}
			for _, ln := range strings.Split(refText, "\n") {
				have[ln] = true
			}
			for _, ln := range strings.Split(texts[d], "\n") {
				if !have[ln] && len(obs.Diff) < 6 {
					obs.Diff = append(obs.Diff, obs.Who[i]+": "+trunc(ln, 120))
				}
			}
		}
	}
	r := Result{Status: "ok", Lib: obs, Errs: errs}
	if len(errs) > 0 {
		r.Status = "error"
		r.Msg = strings.Join(errs, "; ")
	}
	return r
}

// ---------- channel.make with any size, next to another state ("make" jobs) ----------

type MakeSpec struct {
	Sizes     []int64 `json:"sizes"`
	TimeoutMs int     `json:"timeout_ms"`
}

type MakeObs struct {
	Sizes       []int64 `json:"sizes"`
	Ok          []bool  `json:"ok"`
	NeighbourOK bool    `json:"neighbour_ok"`
	// channel.select() without any case must be refused (catchably, at once): Go's select{}
	// blocks for ever and, as the last runnable goroutine, ends the process
	EmptySelectRefused bool `json:"empty_select_refused"`
}

// Each size goes through pcall(channel.make, n) in state A while state B computes in another
// goroutine. A size no machine can hold must come back as a catchable error: Go "throws" when it
// cannot map a channel buffer, which would end the whole process (then this job is a crash).
func runMake(spec *MakeSpec) Result {
	obs := &MakeObs{}
	var wg sync.WaitGroup
	wg.Add(1)
	go func() {
		defer wg.Done()
		B := lua.NewState()
		defer B.Close()
		if err := B.DoString("local s = 0 for i = 1, 200000 do s = s + i % 7 end return s"); err == nil {
			obs.NeighbourOK = lua.LVAsNumber(B.Get(-1)) == 599997
		}
	}()
	A := lua.NewState()
	defer A.Close()
	var errs []string
	for _, n := range spec.Sizes {
		A.Push(A.GetGlobal("pcall"))
		A.Push(A.GetField(A.GetGlobal("channel"), "make"))
		A.Push(lua.LNumber(n))
		if err := A.PCall(2, 2, nil); err != nil {
			errs = append(errs, trunc(err.Error(), 200))
			continue
		}
		ok := A.Get(-2) == lua.LTrue
		_, isch := A.Get(-1).(lua.LChannel)
		A.Pop(2)
		obs.Sizes = append(obs.Sizes, n)
		obs.Ok = append(obs.Ok, ok && isch)
	}
	wg.Wait()
	sel := make(chan bool, 1)
	go func() {
		S := lua.NewState()
		err := S.DoString("local ok = pcall(channel.select) return ok")
		sel <- err == nil && S.Get(-1) == lua.LFalse
	}()
	select {
	case obs.EmptySelectRefused = <-sel:
	case <-time.After(3 * time.Second):
		obs.EmptySelectRefused = false
	}
	r := Result{Status: "ok", Make: obs, Errs: errs}
	if len(errs) > 0 {
		r.Status = "error"
		r.Msg = strings.Join(errs, "; ")
	}
	return r
}

// ---------- receiving at the registry / call-stack limit, with retry ("limit" jobs) ----------

type LimitSpec struct {
	Mode      string `json:"mode"` // receive | select | handler
	Fat       bool   `json:"fat"`  // fat frames: the registry fills first; thin frames: the call stack fills first
	N         int    `json:"n"`
	Cap       int    `json:"cap"`
	RegSize   int    `json:"reg_size"`
	RegMax    int    `json:"reg_max"`
	CallStack int    `json:"call_stack"`
	TimeoutMs int    `json:"timeout_ms"`
	// what the consumer's state goes through before the first receive and again after every failed
	// call (round robin): byte / unpack = an error raised while the registry is completely full,
	// rec = unbounded recursion, co = an error raised inside a coroutine with a full registry
	History []string `json:"history,omitempty"`
}

// A consumer that receives at the bottom of a recursion of growing depth, under pcall, and retries
// with another register alignment whenever a call fails (what a robust consumer does). A receive
// that ends in an error ("registry overflow", "stack overflow") must not have consumed anything:
// every value sent arrives, once, in order.
const limitConsumer = `
local ch, mode, fat = CHAN, MODE, FAT
local got, closed, failures, disorder, last = 0, false, 0, 0, 0
local r_ok, r_v
local case = {"|<-", ch}
local hcase = {"|<-", ch, function(ok, v) r_ok, r_v = ok, v end}
local h
if mode == "receive" then
  h = function() r_ok, r_v = ch:receive() end
elseif mode == "select" then
  h = function() local i; i, r_v, r_ok = channel.select(case) end
else
  h = function() r_ok = nil; channel.select(hcase); if r_ok == nil then error("handler not run") end end
end
local function take()
  h()
  if r_ok then
    got = got + 1
    if r_v <= last then disorder = disorder + 1 end
    last = r_v
  else closed = true end
end
local f
if fat then
  f = function(d)
    local l01,l02,l03,l04,l05,l06,l07,l08,l09,l10,l11,l12,l13,l14,l15,l16,l17,l18,l19,l20
    local m01,m02,m03,m04,m05,m06,m07,m08,m09,m10,m11,m12,m13,m14,m15,m16,m17,m18,m19,m20
    if d == 0 then take() return 1 end
    local a = f(d - 1)
    return a
  end
else
  f = function(d)
    if d == 0 then take() return 1 end
    local a = f(d - 1)
    return a
  end
end
local function g(d, ...) local a = f(d) return a end
local function pad(k) local t = {} for i = 1, k do t[i] = i end return unpack(t) end
local big = string.rep("x", REGMAX + 200)
local bigt = {}
for i = 1, REGMAX + 200 do bigt[i] = i end
local hsteps = {
  byte = function() local a = string.byte(big, 1, -1) return a end,
  unpack = function() local a = unpack(bigt) return a end,
  rec = function() local function r(n) return 1 + r(n + 1) end return r(1) end,
  co = function() coroutine.wrap(function() local a = string.byte(big, 1, -1) end)() end,
}
local nhist = 0
local function history()
  if HIST then
    nhist = nhist + 1
    pcall(hsteps[HIST[(nhist - 1) % #HIST + 1]])
  end
end
if HIST then for i = 1, #HIST do history() end end
local k, d, rounds = 0, 2, 0
while not closed and rounds < 200000 do
  rounds = rounds + 1
  local ok, err = pcall(g, d, pad(k))
  if ok then
    d = d + 1
  else
    failures = failures + 1
    k = k + 1
    d = 2
    if k > 50 then k = 0 end
    history()
  end
end
return got, failures, disorder
`

func runLimit(spec *LimitSpec) Result {
	runtime.GOMAXPROCS(4)
	ch := make(chan lua.LValue, spec.Cap)
	perr := make(chan error, 1)
	go func() {
		L := lua.NewState()
		defer L.Close()
		L.SetGlobal("CHAN", lua.LChannel(ch))
		perr <- L.DoString(fmt.Sprintf("for i = 1, %d do CHAN:send(i) end CHAN:close()", spec.N))
	}()
	type out struct {
		got, failures, disorder int64
		err                     error
	}
	res := make(chan out, 1)
	go func() {
		L := lua.NewState(lua.Options{RegistrySize: spec.RegSize, RegistryMaxSize: spec.RegMax, RegistryGrowStep: 32, CallStackSize: spec.CallStack})
		defer L.Close()
		L.SetGlobal("CHAN", lua.LChannel(ch))
		L.SetGlobal("MODE", lua.LString(spec.Mode))
		L.SetGlobal("FAT", lua.LBool(spec.Fat))
		regmax := spec.RegSize
		if spec.RegMax > regmax {
			regmax = spec.RegMax
		}
		L.SetGlobal("REGMAX", lua.LNumber(regmax))
		if len(spec.History) > 0 {
			ht := L.NewTable()
			for _, s := range spec.History {
				ht.Append(lua.LString(s))
			}
			L.SetGlobal("HIST", ht)
		}
		fn, err := L.LoadString(limitConsumer)
		if err != nil {
			res <- out{err: err}
			return
		}
		L.Push(fn)
		if err := L.PCall(0, 3, nil); err != nil {
			res <- out{err: err}
			return
		}
		res <- out{got: int64(lua.LVAsNumber(L.Get(-3))), failures: int64(lua.LVAsNumber(L.Get(-2))), disorder: int64(lua.LVAsNumber(L.Get(-1)))}
	}()
	to := spec.TimeoutMs
	if to <= 0 {
		to = 60000
	}
	select {
	case o := <-res:
		if o.err != nil {
			return Result{Status: "error", Msg: "consumer: " + trunc(o.err.Error(), 300)}
		}
		select {
		case e := <-perr:
			if e != nil {
				return Result{Status: "error", Msg: "producer: " + trunc(e.Error(), 300)}
			}
		case <-time.After(5 * time.Second):
			return Result{Status: "hang", Msg: "producer still blocked after the consumer saw the channel closed"}
		}
		// Early carries the number of failed (retried) calls for the record; it is not a violation
		return Result{Status: "ok", Stress: &StressObs{Sent: int64(spec.N), Recvd: o.got, Disorder: o.disorder}, Msg: fmt.Sprintf("retried calls: %d", o.failures)}
	case <-time.After(time.Duration(to) * time.Millisecond):
		return Result{Status: "hang", Msg: "limit job still running after the time limit"}
	}
}
