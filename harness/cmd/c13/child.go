package main

import (
	"bufio"
	"context"
	"crypto/sha256"
	"encoding/hex"
	"encoding/json"
	"fmt"
	"hash"
	"os"
	"reflect"
	"runtime"
	"strings"
	"sync"
	"sync/atomic"
	"time"

	lua "github.com/yuin/gopher-lua"
	"github.com/yuin/gopher-lua/parse"
)

// ---------- job / observation types (JSON between parent and child, and in replay files) ----------

type Val struct {
	K     string `json:"k"` // nil bool num str func ud thread table chan
	B     bool   `json:"b,omitempty"`
	N     int64  `json:"n,omitempty"`
	S     string `json:"s,omitempty"` // hex
	Meta  bool   `json:"meta,omitempty"`
	Elems []Val  `json:"elems,omitempty"`
}

type SCase struct {
	Kind string `json:"kind"` // send recv default
	Ch   int    `json:"ch"`
	V    *Val   `json:"v,omitempty"`
}

type Op struct {
	Kind  string  `json:"kind"` // send recv close select
	Ch    int     `json:"ch"`
	V     *Val    `json:"v,omitempty"`
	Cases []SCase `json:"cases,omitempty"`
}

type Res struct {
	Kind string `json:"kind"` // sendok recv closeok sel refused sendclosed closeclosed other
	Ok   bool   `json:"ok,omitempty"`
	V    *Val   `json:"v,omitempty"`
	Idx  int    `json:"idx,omitempty"`
	Msg  string `json:"msg,omitempty"`
}

type Event struct {
	T   int  `json:"t"`
	Op  Op   `json:"op"`
	Res *Res `json:"res,omitempty"` // nil: invocation entry
}

type ThreadSpec struct {
	Role   string     `json:"role"` // producer consumer closer janitor solo edge
	Script string     `json:"script"`
	Ctx    bool       `json:"ctx,omitempty"`  // the state has a (never cancelled) context attached
	Opts   *StateOpts `json:"opts,omitempty"` // registry / call stack sizes of the state (edge threads)
	Edge   bool       `json:"edge,omitempty"` // the script uses the edge prelude (operations at a chosen register height)
}

// StateOpts are the lua.Options of a thread's state (small, fixed or growing registries; small call stacks).
type StateOpts struct {
	RegSize   int  `json:"reg_size"`
	RegMax    int  `json:"reg_max"`
	Grow      int  `json:"grow"`
	CallStack int  `json:"call_stack"`
	MinStack  bool `json:"min_stack,omitempty"`
}

// EdgeObs counts what the edge threads of a history did: operations issued at a chosen register
// height, how many of them ended in an error, how many of those failed after the leaf had been
// entered (the library call itself, or the handler it called, hit the limit), history steps run.
type EdgeObs struct {
	Ops          int `json:"ops"`
	Failed       int `json:"failed"`
	FailedInside int `json:"failed_inside"`
	HistSteps    int `json:"hist_steps"`
	HistErrors   int `json:"hist_errors"`
}

type HistSpec struct {
	Class     string       `json:"class"`
	Caps      []int        `json:"caps"`
	Threads   []ThreadSpec `json:"threads"`
	Procs     int          `json:"procs"`
	TimeoutMs int          `json:"timeout_ms"`
}

type IsoSpec struct {
	Src       string `json:"src"`
	Other     string `json:"other"`
	N         int    `json:"n"`
	Churn     int    `json:"churn"`
	Procs     int    `json:"procs"`
	TimeoutMs int    `json:"timeout_ms"`
}

type ShareSpec struct {
	Sender   string `json:"sender"`
	Receiver string `json:"receiver"`
}

type StressSpec struct {
	Producers int    `json:"producers"`
	Consumers int    `json:"consumers"`
	Cap       int    `json:"cap"`
	N         int    `json:"n"`    // values per producer
	Ctx       []bool `json:"ctx"`  // per consumer: state has a context
	Work      int    `json:"work"` // busy iterations between two receives
	Procs     int    `json:"procs"`
	TimeoutMs int    `json:"timeout_ms"`
}

type StressObs struct {
	Sent     int64 `json:"sent"`
	Recvd    int64 `json:"recvd"`
	Dups     int64 `json:"dups"`
	Early    int64 `json:"early"`
	Disorder int64 `json:"disorder"`
}

type Job struct {
	Limit  *LimitSpec  `json:"limit,omitempty"`
	Make   *MakeSpec   `json:"make,omitempty"`
	Lib    *LibSpec    `json:"lib,omitempty"`
	Stress *StressSpec `json:"stress,omitempty"`
	ID     int         `json:"id"`
	Share  *ShareSpec  `json:"share,omitempty"`
	Kind   string      `json:"kind"` // hist iso share
	KF     []string    `json:"kf,omitempty"`
	Hist   *HistSpec   `json:"hist,omitempty"`
	Iso    *IsoSpec    `json:"iso,omitempty"`
}

type IsoObs struct {
	Exp  []string `json:"exp"`
	Conc []string `json:"conc"`
	H0   string   `json:"h0"`
	H1   string   `json:"h1"`
}

type Result struct {
	ID     int        `json:"id"`
	Start  bool       `json:"start,omitempty"`
	Status string     `json:"status,omitempty"` // ok hang error
	Msg    string     `json:"msg,omitempty"`
	Log    []Event    `json:"log,omitempty"`
	Iso    *IsoObs    `json:"iso,omitempty"`
	Stress *StressObs `json:"stress,omitempty"`
	Lib    *LibObs    `json:"lib,omitempty"`
	Make   *MakeObs   `json:"make,omitempty"`
	Errs   []string   `json:"errs,omitempty"`
	Edge   *EdgeObs   `json:"edge,omitempty"`
}

// ---------- child ----------

func childMain(path string) {
	b, err := os.ReadFile(path)
	if err != nil {
		panic(err)
	}
	var jobs []Job
	if err := json.Unmarshal(b, &jobs); err != nil {
		panic(err)
	}
	out := bufio.NewWriter(os.Stdout)
	emit := func(r Result) {
		jb, _ := json.Marshal(r)
		out.Write(jb)
		out.WriteByte('\n')
		out.Flush()
	}
	for _, j := range jobs {
		emit(Result{ID: j.ID, Start: true})
		fmt.Fprintf(os.Stderr, "\n@@JOB %d\n", j.ID)
		var r Result
		switch j.Kind {
		case "hist":
			r = runHist(j.Hist)
		case "iso":
			r = runIso(j.Iso)
		case "share":
			r = runShare(j.Share)
		case "stress":
			r = runStress(j.Stress)
		case "lib":
			r = runLib(j.Lib)
		case "make":
			r = runMake(j.Make)
		case "limit":
			r = runLimit(j.Limit)
		default:
			r = Result{Status: "error", Msg: "unknown job kind"}
		}
		r.ID = j.ID
		emit(r)
		if r.Status == "hang" {
			// goroutines are stuck in channel operations: this process cannot be reused
			os.Exit(3)
		}
	}
}

// ---------- channel histories ----------

const prelude = `
local pcall, unpack, select, ipairs = pcall, unpack, select, ipairs
function op_send(c, v)
  inv("send", c, v)
  local ok, err = pcall(CH[c].send, CH[c], v)
  res("send", ok, err)
  return ok
end
function op_recv(c)
  inv("recv", c)
  local ok, a, b = pcall(CH[c].receive, CH[c])
  res("recv", ok, a, b)
  if not ok then return nil end
  return a, b
end
function op_close(c)
  inv("close", c)
  local ok, err = pcall(CH[c].close, CH[c])
  res("close", ok, err)
  return ok
end
function op_select(cases)
  local args, hrec = {}, {}
  for i, k in ipairs(cases) do
    local a
    if k[1] == "send" then a = {"<-|", CH[k[2]], k[3]}
    elseif k[1] == "recv" then a = {"|<-", CH[k[2]]}
    else a = {"default"} end
    if k.h then
      a[#a + 1] = function(...) hrec[#hrec + 1] = {i, select("#", ...), ...} end
    end
    args[i] = a
  end
  inv("select", cases)
  local ok, idx, v, rok = pcall(channel.select, unpack(args, 1, #cases))
  local hbad = false
  if ok then
    local k = cases[idx]
    if k and k.h then
      if #hrec ~= 1 or hrec[1][1] ~= idx then hbad = true
      else
        local h = hrec[1]
        if k[1] == "recv" then
          if h[2] ~= 2 or h[3] ~= rok or h[4] ~= v then hbad = true end
        elseif k[1] == "send" then
          if h[2] ~= 1 or h[3] ~= k[3] then hbad = true end
        else
          if h[2] ~= 0 then hbad = true end
        end
      end
    elseif #hrec ~= 0 then hbad = true end
  elseif #hrec ~= 0 then hbad = true end
  res("select", ok, idx, v, rok, hbad)
  return ok, idx, v, rok
end
`

const maxEvents = 3000

type histRun struct {
	mu      sync.Mutex
	log     []Event
	chs     []chan lua.LValue
	chIndex map[chan lua.LValue]int
	prod    sync.WaitGroup
	errs    []string
	edge    EdgeObs
}

func (h *histRun) describe(lv lua.LValue, depth int) Val {
	switch v := lv.(type) {
	case *lua.LNilType:
		return Val{K: "nil"}
	case lua.LBool:
		return Val{K: "bool", B: bool(v)}
	case lua.LNumber:
		return Val{K: "num", N: int64(v)}
	case lua.LString:
		return Val{K: "str", S: hex.EncodeToString([]byte(string(v)))}
	case *lua.LFunction:
		return Val{K: "func"}
	case *lua.LUserData:
		return Val{K: "ud"}
	case *lua.LState:
		return Val{K: "thread"}
	case *lua.LTable:
		r := Val{K: "table", Meta: v.Metatable != lua.LNil}
		if n, ok := v.RawGetString("id").(lua.LNumber); ok {
			r.N = int64(n)
		}
		if depth < 4 {
			for i := 1; i <= v.Len(); i++ {
				r.Elems = append(r.Elems, h.describe(v.RawGetInt(i), depth+1))
			}
		}
		return r
	case lua.LChannel:
		if i, ok := h.chIndex[(chan lua.LValue)(v)]; ok {
			return Val{K: "chan", N: int64(i)}
		}
		return Val{K: "chan", N: -1}
	}
	return Val{K: "other"}
}

func classifyErr(msg string) string {
	switch {
	case strings.HasPrefix(msg, "edge: "):
		// the edge prelude's own verdict (error after the operation or its handler had completed)
		return "other"
	case strings.Contains(msg, "can not send a function, userdata, thread or table that has a metatable"):
		return "refused"
	case strings.Contains(msg, "send on closed channel"):
		return "sendclosed"
	case strings.Contains(msg, "close of closed channel"):
		return "closeclosed"
	case strings.Contains(msg, "registry overflow") || strings.Contains(msg, "stack overflow"):
		// the calling state's own resource limit (no room for the results / the handler call)
		return "limit"
	}
	return "other"
}

func trunc(s string, n int) string {
	if len(s) > n {
		return s[:n] + "..."
	}
	return s
}

func (h *histRun) register(L *lua.LState, t int) {
	var cur Op
	tbl := L.NewTable()
	for i, c := range h.chs {
		tbl.RawSetInt(i+1, lua.LChannel(c))
	}
	L.SetGlobal("CH", tbl)
	L.SetGlobal("inv", L.NewFunction(func(L *lua.LState) int {
		kind := L.CheckString(1)
		op := Op{Kind: kind}
		switch kind {
		case "send":
			op.Ch = L.CheckInt(2) - 1
			v := h.describe(L.Get(3), 0)
			op.V = &v
		case "recv", "close":
			op.Ch = L.CheckInt(2) - 1
		case "select":
			ct := L.CheckTable(2)
			for i := 1; i <= ct.Len(); i++ {
				k, _ := ct.RawGetInt(i).(*lua.LTable)
				sc := SCase{Kind: lua.LVAsString(k.RawGetInt(1))}
				if sc.Kind != "default" {
					sc.Ch = int(lua.LVAsNumber(k.RawGetInt(2))) - 1
				}
				if sc.Kind == "send" {
					v := h.describe(k.RawGetInt(3), 0)
					sc.V = &v
				}
				op.Cases = append(op.Cases, sc)
			}
		}
		cur = op
		h.mu.Lock()
		h.log = append(h.log, Event{T: t, Op: op})
		n := len(h.log)
		h.mu.Unlock()
		if n > maxEvents {
			// a script that should have stopped long ago (e.g. closure never reported): end it
			L.RaiseError("history too long")
		}
		return 0
	}))
	L.SetGlobal("res", L.NewFunction(func(L *lua.LState) int {
		kind := L.CheckString(1)
		ok := L.ToBool(2)
		var r Res
		if !ok {
			msg := lua.LVAsString(L.Get(3))
			r = Res{Kind: classifyErr(msg)}
			if r.Kind == "other" {
				r.Msg = trunc(msg, 200)
			}
		} else {
			switch kind {
			case "send":
				r = Res{Kind: "sendok"}
			case "close":
				r = Res{Kind: "closeok"}
			case "recv":
				v := h.describe(L.Get(4), 0)
				fl, isb := L.Get(3).(lua.LBool)
				r = Res{Kind: "recv", Ok: bool(fl), V: &v}
				if !isb {
					r = Res{Kind: "other", Msg: "receive: first result is not a boolean"}
				}
			case "select":
				v := h.describe(L.Get(4), 0)
				idx, isn := L.Get(3).(lua.LNumber)
				fl, isb := L.Get(5).(lua.LBool)
				r = Res{Kind: "sel", Idx: int(idx) - 1, V: &v, Ok: bool(fl)}
				if !isn || !isb || int(idx) < 1 {
					r = Res{Kind: "other", Msg: "select: result shape"}
				}
				if L.ToBool(6) {
					r = Res{Kind: "other", Msg: "select: handler not called exactly once with the chosen case's arguments"}
				}
			}
		}
		h.mu.Lock()
		h.log = append(h.log, Event{T: t, Op: cur, Res: &r})
		h.mu.Unlock()
		return 0
	}))
	// edge threads report, from the top level, how an operation at depth ended
	L.SetGlobal("edge_note", L.NewFunction(func(L *lua.LState) int {
		ok, entered := L.ToBool(1), L.ToBool(2)
		h.mu.Lock()
		h.edge.Ops++
		if !ok {
			h.edge.Failed++
			if entered {
				h.edge.FailedInside++
			}
		}
		h.mu.Unlock()
		return 0
	}))
	L.SetGlobal("edge_hist", L.NewFunction(func(L *lua.LState) int {
		h.mu.Lock()
		h.edge.HistSteps++
		if !L.ToBool(1) {
			h.edge.HistErrors++
		}
		h.mu.Unlock()
		return 0
	}))
	L.SetGlobal("yield", L.NewFunction(func(L *lua.LState) int { runtime.Gosched(); return 0 }))
	L.SetGlobal("nap", L.NewFunction(func(L *lua.LState) int {
		time.Sleep(time.Duration(L.OptInt(1, 1)) * time.Microsecond)
		return 0
	}))
	L.SetGlobal("wait_producers", L.NewFunction(func(L *lua.LState) int { h.prod.Wait(); return 0 }))
	L.SetGlobal("newud", L.NewFunction(func(L *lua.LState) int { L.Push(L.NewUserData()); return 1 }))
}

func compileSrc(src, name string) (*lua.FunctionProto, error) {
	chunk, err := parse.Parse(strings.NewReader(src), name)
	if err != nil {
		return nil, err
	}
	return lua.Compile(chunk, name)
}

func runHist(spec *HistSpec) Result {
	if spec.Procs > 0 {
		runtime.GOMAXPROCS(spec.Procs)
	}
	h := &histRun{chIndex: map[chan lua.LValue]int{}}
	// the channels are made by the library itself (channel.make) in a set-up state
	L0 := lua.NewState()
	for i, c := range spec.Caps {
		src := fmt.Sprintf("return channel.make(%d)", c)
		if c == 0 && i%2 == 0 {
			src = "return channel.make()"
		}
		if err := L0.DoString(src); err != nil {
			L0.Close()
			return Result{Status: "error", Msg: "channel.make failed: " + trunc(err.Error(), 300)}
		}
		lc, ok := L0.Get(-1).(lua.LChannel)
		L0.Pop(1)
		if !ok {
			L0.Close()
			return Result{Status: "error", Msg: "channel.make did not return a channel"}
		}
		ch := (chan lua.LValue)(lc)
		h.chs = append(h.chs, ch)
		h.chIndex[ch] = i
	}
	L0.Close()
	// identical scripts share one compiled prototype (as the README recommends)
	protos := map[string]*lua.FunctionProto{}
	for _, th := range spec.Threads {
		if _, ok := protos[th.Script]; !ok {
			pre := prelude
			if th.Edge {
				pre += edgePrelude
			}
			p, err := compileSrc(pre+th.Script, "script")
			if err != nil {
				return Result{Status: "error", Msg: "script does not compile: " + trunc(err.Error(), 300)}
			}
			protos[th.Script] = p
		}
		if th.Role == "producer" {
			h.prod.Add(1)
		}
	}
	var wg sync.WaitGroup
	for i, th := range spec.Threads {
		wg.Add(1)
		go func(t int, th ThreadSpec) {
			defer wg.Done()
			if th.Role == "producer" {
				defer h.prod.Done()
			}
			opts := lua.Options{}
			if t%2 == 0 {
				opts = lua.Options{MinimizeStackMemory: true, CallStackSize: 128}
			}
			if o := th.Opts; o != nil {
				opts = lua.Options{RegistrySize: o.RegSize, RegistryMaxSize: o.RegMax, RegistryGrowStep: o.Grow, CallStackSize: o.CallStack, MinimizeStackMemory: o.MinStack}
			}
			L := lua.NewState(opts)
			defer L.Close()
			if th.Ctx {
				// channel operations of a state with a context go through other code paths
				// (reflect.Select on ctx.Done()); the context is never cancelled here
				ctx, cancel := context.WithCancel(context.Background())
				defer cancel()
				L.SetContext(ctx)
			}
			h.register(L, t)
			L.Push(L.NewFunctionFromProto(protos[th.Script]))
			if err := L.PCall(0, 0, nil); err != nil {
				h.mu.Lock()
				h.errs = append(h.errs, fmt.Sprintf("thread %d: %s", t, trunc(err.Error(), 300)))
				h.mu.Unlock()
			}
		}(i+1, th)
	}
	done := make(chan struct{})
	go func() { wg.Wait(); close(done) }()
	to := spec.TimeoutMs
	if to <= 0 {
		to = 10000
	}
	select {
	case <-done:
	case <-time.After(time.Duration(to) * time.Millisecond):
		h.mu.Lock()
		lg := append([]Event(nil), h.log...)
		h.mu.Unlock()
		return Result{Status: "hang", Msg: "threads still blocked after the time limit", Log: lg}
	}
	r := Result{Status: "ok", Log: h.log, Errs: h.errs}
	if h.edge.Ops > 0 || h.edge.HistSteps > 0 {
		e := h.edge
		r.Edge = &e
	}
	if len(h.errs) > 0 {
		r.Status = "error"
		r.Msg = strings.Join(h.errs, "; ")
	}
	return r
}

// ---------- non-interference ----------

func deepHash(h hash.Hash, v reflect.Value, seen map[uintptr]bool, depth int) {
	if depth > 64 {
		return
	}
	switch v.Kind() {
	case reflect.Ptr:
		if v.IsNil() {
			h.Write([]byte{0})
			return
		}
		p := v.Pointer()
		if seen[p] {
			h.Write([]byte{2})
			return
		}
		seen[p] = true
		h.Write([]byte{1})
		deepHash(h, v.Elem(), seen, depth+1)
	case reflect.Interface:
		if v.IsNil() {
			h.Write([]byte{0})
			return
		}
		fmt.Fprintf(h, "<%s>", v.Elem().Type().String())
		deepHash(h, v.Elem(), seen, depth+1)
	case reflect.Struct:
		for i := 0; i < v.NumField(); i++ {
			fmt.Fprintf(h, ".%s:", v.Type().Field(i).Name)
			deepHash(h, v.Field(i), seen, depth+1)
		}
	case reflect.Slice, reflect.Array:
		fmt.Fprintf(h, "[%d]", v.Len())
		for i := 0; i < v.Len(); i++ {
			deepHash(h, v.Index(i), seen, depth+1)
		}
	case reflect.String:
		fmt.Fprintf(h, "%q", v.String())
	case reflect.Bool:
		fmt.Fprintf(h, "%v", v.Bool())
	case reflect.Int, reflect.Int8, reflect.Int16, reflect.Int32, reflect.Int64:
		fmt.Fprintf(h, "%d,", v.Int())
	case reflect.Uint, reflect.Uint8, reflect.Uint16, reflect.Uint32, reflect.Uint64, reflect.Uintptr:
		fmt.Fprintf(h, "%d,", v.Uint())
	case reflect.Float32, reflect.Float64:
		fmt.Fprintf(h, "%x,", v.Float())
	case reflect.Map:
		fmt.Fprintf(h, "map%d", v.Len()) // no maps inside a FunctionProto today
	default:
		fmt.Fprintf(h, "?%s", v.Kind())
	}
}

func protoHash(p *lua.FunctionProto) string {
	h := sha256.New()
	deepHash(h, reflect.ValueOf(p), map[uintptr]bool{}, 0)
	return hex.EncodeToString(h.Sum(nil))
}

func isoOptions(i int) lua.Options {
	switch i % 4 {
	case 1:
		return lua.Options{MinimizeStackMemory: true, CallStackSize: 200}
	case 2:
		return lua.Options{RegistrySize: 512, RegistryMaxSize: 512 * 64, RegistryGrowStep: 64}
	case 3:
		return lua.Options{MinimizeStackMemory: true, CallStackSize: 256, RegistrySize: 1024, RegistryMaxSize: 1024 * 32, RegistryGrowStep: 32}
	}
	return lua.Options{}
}

// opts is handed to NewState as it is: the slice may be shared by all goroutines creating states
func runTrace(p *lua.FunctionProto, opts []lua.Options, variant int) string {
	L := lua.NewState(opts...)
	defer L.Close()
	L.SetGlobal("VARIANT", lua.LNumber(variant))
	h := sha256.New()
	L.SetGlobal("emit", L.NewFunction(func(L *lua.LState) int {
		n := L.GetTop()
		for i := 1; i <= n; i++ {
			switch v := L.Get(i).(type) {
			case lua.LString, lua.LNumber, lua.LBool, *lua.LNilType:
				fmt.Fprintf(h, "%s|", v.String())
			default:
				fmt.Fprintf(h, "<%s>|", v.Type().String())
			}
		}
		h.Write([]byte{'\n'})
		return 0
	}))
	L.Push(L.NewFunctionFromProto(p))
	if err := L.PCall(0, 0, nil); err != nil {
		// message and the stack trace the API hands out (names of call sites come from Proto.DbgCalls)
		if ae, ok := err.(*lua.ApiError); ok {
			fmt.Fprintf(h, "ERROR %s\n%s", ae.Object.String(), ae.StackTrace)
		} else {
			fmt.Fprintf(h, "ERROR %s", err.Error())
		}
	}
	return hex.EncodeToString(h.Sum(nil))
}

func runIso(spec *IsoSpec) Result {
	if spec.Procs > 0 {
		runtime.GOMAXPROCS(spec.Procs)
	}
	p, err := compileSrc(spec.Src, "shared")
	if err != nil {
		return Result{Status: "error", Msg: "program does not compile: " + trunc(err.Error(), 300)}
	}
	obs := &IsoObs{H0: protoHash(p)}
	// what each variant of the program computes alone, on a prototype nobody else uses
	const nvariants = 3
	alone := make([]string, nvariants)
	for v := 0; v < nvariants; v++ {
		q, err := compileSrc(spec.Src, "shared")
		if err != nil {
			return Result{Status: "error", Msg: "program does not compile"}
		}
		alone[v] = runTrace(q, []lua.Options{{}}, v+1)
	}
	obs.Conc = make([]string, spec.N)
	obs.Exp = make([]string, spec.N)
	for i := range obs.Exp {
		obs.Exp[i] = alone[i%nvariants]
	}
	var errs []string
	var emu sync.Mutex
	stop := make(chan struct{})
	var wg, cw sync.WaitGroup
	// one Options value per variant, shared by every goroutine that creates a state (an embedder
	// with one configuration for all its states): creating states concurrently must not write to it
	shared := make([][]lua.Options, 4)
	for v := range shared {
		shared[v] = []lua.Options{isoOptions(v)}
	}
	for i := 0; i < spec.N; i++ {
		wg.Add(1)
		go func(i int) {
			defer wg.Done()
			obs.Conc[i] = runTrace(p, shared[i%4], 1+i%nvariants)
		}(i)
	}
	for c := 0; c < spec.Churn; c++ {
		cw.Add(1)
		go func(c int) {
			defer cw.Done()
			for k := 0; ; k++ {
				select {
				case <-stop:
					return
				default:
				}
				switch (c + k) % 3 {
				case 0: // compiling the same source again must give the same prototype
					q, err := compileSrc(spec.Src, "shared")
					if err != nil || protoHash(q) != obs.H0 {
						emu.Lock()
						errs = append(errs, "recompiling the shared source concurrently gave a different prototype")
						emu.Unlock()
						return
					}
				case 1:
					L := lua.NewState(shared[k%4]...)
					if err := L.DoString(spec.Other); err != nil {
						emu.Lock()
						errs = append(errs, "churn state failed: "+trunc(err.Error(), 200))
						emu.Unlock()
					}
					L.Close()
				case 2:
					if _, err := compileSrc(spec.Other, "other"); err != nil {
						emu.Lock()
						errs = append(errs, "churn compile failed: "+trunc(err.Error(), 200))
						emu.Unlock()
					}
				}
			}
		}(c)
	}
	done := make(chan struct{})
	go func() { wg.Wait(); close(stop); cw.Wait(); close(done) }()
	to := spec.TimeoutMs
	if to <= 0 {
		to = 60000
	}
	select {
	case <-done:
	case <-time.After(time.Duration(to) * time.Millisecond):
		return Result{Status: "hang", Msg: "states still running after the time limit"}
	}
	obs.H1 = protoHash(p)
	for v := range shared {
		if shared[v][0] != isoOptions(v) {
			errs = append(errs, fmt.Sprintf("lua.NewState wrote into the caller's Options value (variant %d), which the goroutines creating states share", v))
		}
	}
	r := Result{Status: "ok", Iso: obs, Errs: errs}
	if len(errs) > 0 {
		r.Status = "error"
		r.Msg = strings.Join(errs, "; ")
	}
	return r
}

// ---------- known finding C13-1: a table is passed by reference ----------

// runShare runs two states that both use a table after it went through a channel. Nothing is
// compared here: the observation is whether the race detector reports (parent side).
func runShare(spec *ShareSpec) Result {
	runtime.GOMAXPROCS(4)
	ch := make(chan lua.LValue, 1)
	var wg sync.WaitGroup
	var mu sync.Mutex
	var errs []string
	run := func(src string) {
		defer wg.Done()
		L := lua.NewState()
		defer L.Close()
		L.SetGlobal("ch", lua.LChannel(ch))
		if err := L.DoString(src); err != nil {
			mu.Lock()
			errs = append(errs, trunc(err.Error(), 200))
			mu.Unlock()
		}
	}
	wg.Add(2)
	go run(spec.Sender)
	go run(spec.Receiver)
	done := make(chan struct{})
	go func() { wg.Wait(); close(done) }()
	select {
	case <-done:
	case <-time.After(10 * time.Second):
		return Result{Status: "hang", Msg: "share job still running after the time limit"}
	}
	if len(errs) > 0 {
		return Result{Status: "error", Msg: strings.Join(errs, "; ")}
	}
	return Result{Status: "ok"}
}

// ---------- high-volume competition on one buffered channel (no log; counters) ----------

const stressProducer = `
local base = PID * 10000000
for i = 1, N do ch:send(base + i) end
`

// closure reported while no close has been invoked yet is counted and the consumer goes on, so
// that one slip does not end the run
const stressConsumer = `
local last = {}
local x = 0
while true do
  local ok, v = ch:receive()
  if ok then
    local p = math.floor(v / 10000000)
    if last[p] and v <= last[p] then disorder() end
    last[p] = v
    seen(v)
    for i = 1, WORK do x = x + i end
  elseif close_invoked() then
    break
  else
    early()
  end
end
`

func runStress(spec *StressSpec) Result {
	if spec.Procs > 0 {
		runtime.GOMAXPROCS(spec.Procs)
	}
	L0 := lua.NewState()
	if err := L0.DoString(fmt.Sprintf("return channel.make(%d)", spec.Cap)); err != nil {
		L0.Close()
		return Result{Status: "error", Msg: "channel.make failed"}
	}
	lch := L0.Get(-1).(lua.LChannel)
	L0.Close()
	pp, err1 := compileSrc(stressProducer, "producer")
	cp, err2 := compileSrc(stressConsumer, "consumer")
	if err1 != nil || err2 != nil {
		return Result{Status: "error", Msg: "stress scripts do not compile"}
	}
	counts := make([]uint32, (spec.Producers+1)*(spec.N+1))
	var closeInvoked, early, disorder, recvd, dups int64
	var errs []string
	var emu sync.Mutex
	var pw, cw sync.WaitGroup
	fail := func(err error) {
		emu.Lock()
		errs = append(errs, trunc(err.Error(), 200))
		emu.Unlock()
	}
	for p := 1; p <= spec.Producers; p++ {
		pw.Add(1)
		go func(p int) {
			defer pw.Done()
			L := lua.NewState()
			defer L.Close()
			L.SetGlobal("ch", lch)
			L.SetGlobal("PID", lua.LNumber(p))
			L.SetGlobal("N", lua.LNumber(spec.N))
			L.Push(L.NewFunctionFromProto(pp))
			if err := L.PCall(0, 0, nil); err != nil {
				fail(err)
			}
		}(p)
	}
	for c := 0; c < spec.Consumers; c++ {
		cw.Add(1)
		go func(c int) {
			defer cw.Done()
			L := lua.NewState()
			defer L.Close()
			if c < len(spec.Ctx) && spec.Ctx[c] {
				ctx, cancel := context.WithCancel(context.Background())
				defer cancel()
				L.SetContext(ctx)
			}
			L.SetGlobal("ch", lch)
			L.SetGlobal("WORK", lua.LNumber(spec.Work))
			L.SetGlobal("seen", L.NewFunction(func(L *lua.LState) int {
				v := int64(L.CheckNumber(1))
				p, i := v/10000000, v%10000000
				atomic.AddInt64(&recvd, 1)
				if p >= 1 && p <= int64(spec.Producers) && i >= 1 && i <= int64(spec.N) {
					if atomic.AddUint32(&counts[p*int64(spec.N+1)+i], 1) > 1 {
						atomic.AddInt64(&dups, 1)
					}
				} else {
					atomic.AddInt64(&dups, 1) // a value nobody sent
				}
				return 0
			}))
			L.SetGlobal("early", L.NewFunction(func(L *lua.LState) int { atomic.AddInt64(&early, 1); runtime.Gosched(); return 0 }))
			L.SetGlobal("disorder", L.NewFunction(func(L *lua.LState) int { atomic.AddInt64(&disorder, 1); return 0 }))
			L.SetGlobal("close_invoked", L.NewFunction(func(L *lua.LState) int {
				L.Push(lua.LBool(atomic.LoadInt64(&closeInvoked) != 0))
				return 1
			}))
			L.Push(L.NewFunctionFromProto(cp))
			if err := L.PCall(0, 0, nil); err != nil {
				fail(err)
			}
		}(c)
	}
	done := make(chan struct{})
	go func() {
		pw.Wait()
		atomic.StoreInt64(&closeInvoked, 1)
		// closed through the library, by a state of its own
		L := lua.NewState()
		L.SetGlobal("ch", lch)
		if err := L.DoString("ch:close()"); err != nil {
			fail(err)
		}
		L.Close()
		cw.Wait()
		close(done)
	}()
	to := spec.TimeoutMs
	if to <= 0 {
		to = 60000
	}
	select {
	case <-done:
	case <-time.After(time.Duration(to) * time.Millisecond):
		return Result{Status: "hang", Msg: "stress job still running after the time limit"}
	}
	obs := &StressObs{Sent: int64(spec.Producers) * int64(spec.N), Recvd: recvd, Dups: dups, Early: early, Disorder: disorder}
	r := Result{Status: "ok", Stress: obs, Errs: errs}
	if len(errs) > 0 {
		r.Status = "error"
		r.Msg = strings.Join(errs, "; ")
	}
	return r
}
