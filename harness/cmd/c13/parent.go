package main

import (
	"bufio"
	"bytes"
	"context"
	"encoding/hex"
	"encoding/json"
	"fmt"
	"os"
	"os/exec"
	"path/filepath"
	"strconv"
	"strings"
	"time"

	"verifh/lib"
)

// capped keeps the first max bytes of what is written to it (a Go fatal dump is huge).
type capped struct {
	buf bytes.Buffer
	max int
}

func (l *capped) Write(p []byte) (int, error) {
	if room := l.max - l.buf.Len(); room > 0 {
		if len(p) > room {
			l.buf.Write(p[:room])
		} else {
			l.buf.Write(p)
		}
	}
	return len(p), nil
}

// raceReports splits the child's stderr into race-detector reports per job (the child writes a
// marker line "@@JOB n" when a job starts) and the remaining text of each job.
// A report whose two accesses are runtime.closechan and runtime.chansend is Go's synthetic
// "close concurrent with send" race on the channel itself: that is exactly the situation the
// histories with an early close create on purpose (the send then fails with "send on closed
// channel", which the model covers), not a race on interpreter memory; it is counted, not failed.
func raceReports(stderr string) (real map[int][]string, benign map[int]int, other map[int]string) {
	real, benign, other = map[int][]string{}, map[int]int{}, map[int]string{}
	cur := -1
	var block []string
	in := false
	flush := func() {
		var tops []string
		for i, ln := range block {
			t := strings.TrimSpace(ln)
			if (strings.HasPrefix(t, "Write at") || strings.HasPrefix(t, "Read at") || strings.HasPrefix(t, "Previous write at") ||
				strings.HasPrefix(t, "Previous read at") || strings.HasPrefix(t, "Atomic") || strings.HasPrefix(t, "Previous atomic")) && i+1 < len(block) {
				tops = append(tops, strings.TrimSpace(block[i+1]))
			}
		}
		isBenign := false
		if len(tops) == 2 {
			cl, sn := 0, 0
			for _, t := range tops {
				switch {
				case strings.HasPrefix(t, "runtime.closechan("):
					cl++
				case strings.HasPrefix(t, "runtime.chansend(") || strings.HasPrefix(t, "runtime.selectgo("):
					sn++
				}
			}
			isBenign = cl == 1 && sn == 1
		}
		if isBenign {
			benign[cur]++
		} else {
			real[cur] = append(real[cur], strings.Join(block, "\n"))
		}
		block = nil
	}
	for _, ln := range strings.Split(stderr, "\n") {
		switch {
		case strings.HasPrefix(ln, "@@JOB "):
			n, err := strconv.Atoi(strings.TrimSpace(ln[6:]))
			if err == nil {
				cur = n
			}
		case strings.HasPrefix(ln, "=================="):
			if in {
				flush()
			}
			in = !in
		case in:
			block = append(block, ln)
		default:
			if strings.TrimSpace(ln) != "" && !strings.HasPrefix(ln, "Found ") && len(other[cur]) < 1500 {
				other[cur] += ln + "\n"
			}
		}
	}
	if in && len(block) > 0 {
		flush()
	}
	return
}

func jobTimeout(j Job) int {
	if j.Hist != nil && j.Hist.TimeoutMs > 0 {
		return j.Hist.TimeoutMs
	}
	if j.Lib != nil && j.Lib.TimeoutMs > 0 {
		return j.Lib.TimeoutMs
	}
	if j.Stress != nil && j.Stress.TimeoutMs > 0 {
		return j.Stress.TimeoutMs
	}
	if j.Iso != nil && j.Iso.TimeoutMs > 0 {
		return j.Iso.TimeoutMs
	}
	return 10000
}

// runJobs executes the jobs in child processes (batches), attributing a crash / hang / race
// report to the job that was running, and adds one case per job in job order.
func runJobs(w *lib.Writer, jobs []Job, outDir string) {
	tmp, err := os.MkdirTemp("", "c13-")
	if err != nil {
		panic(err)
	}
	defer os.RemoveAll(tmp)
	results := map[int]Result{}
	pending := append([]Job(nil), jobs...)
	const batchSize = 60
	const maxBroken = 4 // after that many crashed / hung jobs the rest is not run (the check has failed anyway)
	benignTotal, broken, notRun := 0, 0, 0
	for len(pending) > 0 {
		if broken >= maxBroken {
			for _, j := range pending {
				results[j.ID] = Result{ID: j.ID, Status: "notrun"}
				notRun++
			}
			break
		}
		n := len(pending)
		if n > batchSize {
			n = batchSize
		}
		batch := pending[:n]
		jb, _ := json.Marshal(batch)
		jf := filepath.Join(tmp, "jobs.json")
		if err := os.WriteFile(jf, jb, 0o644); err != nil {
			panic(err)
		}
		total := 20000
		for _, j := range batch {
			total += jobTimeout(j) / 4
		}
		ctx, cancel := context.WithTimeout(context.Background(), time.Duration(total)*time.Millisecond)
		cmd := exec.CommandContext(ctx, os.Args[0], "child", jf)
		cmd.Env = append(os.Environ(), "GORACE=halt_on_error=0 exitcode=0", "GOTRACEBACK=single")
		stderr := &capped{max: 8 << 20}
		cmd.Stderr = stderr
		so, _ := cmd.StdoutPipe()
		if err := cmd.Start(); err != nil {
			panic(err)
		}
		cur := -1
		got := 0
		sc := bufio.NewScanner(so)
		sc.Buffer(make([]byte, 1<<20), 64<<20)
		for sc.Scan() {
			var r Result
			if json.Unmarshal(sc.Bytes(), &r) != nil {
				continue
			}
			if r.Start {
				cur = r.ID
				continue
			}
			results[r.ID] = r
			got++
			cur = -1
		}
		werr := cmd.Wait()
		timedOut := ctx.Err() == context.DeadlineExceeded
		cancel()
		real, benign, other := raceReports(stderr.buf.String())
		if cur != -1 {
			what := "child process died"
			if timedOut {
				what = "child process exceeded its time limit"
			}
			results[cur] = Result{ID: cur, Status: "crash", Msg: what + " (" + fmt.Sprint(werr) + "): " + trunc(other[cur], 1500)}
			got++
		}
		if got == 0 {
			// no progress at all: blame the first job so that the loop terminates
			results[batch[0].ID] = Result{ID: batch[0].ID, Status: "crash", Msg: "child produced nothing (" + fmt.Sprint(werr) + "): " + trunc(other[-1], 1500)}
		}
		for id, reps := range real {
			if r, ok := results[id]; ok && r.Status != "crash" {
				r.Status = "race"
				r.Msg = fmt.Sprintf("%d race detector report(s); first: %s", len(reps), trunc(reps[0], 1400))
				results[id] = r
			}
		}
		for id, n := range benign {
			benignTotal += n
			_ = id
		}
		for _, j := range batch {
			if r, ok := results[j.ID]; ok && (r.Status == "crash" || r.Status == "hang") {
				broken++
			}
		}
		var rest []Job
		for _, j := range pending {
			if _, ok := results[j.ID]; !ok {
				rest = append(rest, j)
			}
		}
		pending = rest
	}
	for _, j := range jobs {
		if results[j.ID].Status == "notrun" {
			continue
		}
		addCase(w, j, results[j.ID])
	}
	if w.Meta.Extra == nil {
		w.Meta.Extra = map[string]any{}
	}
	w.Meta.Extra["close_vs_send_race_reports_filtered"] = benignTotal
	w.Meta.Extra["jobs_not_run_after_repeated_crashes"] = notRun
	w.Meta.Extra["history_totals"] = totals
}

// ---------- Gallina printing ----------

func coqNat(n int) string {
	if n < 0 {
		n = 9999 // never a valid channel / case index
	}
	return strconv.Itoa(n) + "%nat"
}

func coqVal(v *Val) string {
	if v == nil {
		return "VNil"
	}
	switch v.K {
	case "nil":
		return "VNil"
	case "bool":
		return "(VBool " + lib.CoqBool(v.B) + ")"
	case "num":
		return "(VNum " + lib.CoqZ(v.N) + ")"
	case "str":
		b, _ := hex.DecodeString(v.S)
		return "(VStr " + lib.CoqBytes(b) + ")"
	case "func":
		return "(VFunc 0)"
	case "ud":
		return "(VUserData 0)"
	case "thread":
		return "(VThread 0)"
	case "table":
		el := make([]string, len(v.Elems))
		for i := range v.Elems {
			el[i] = coqVal(&v.Elems[i])
		}
		return "(VTable " + lib.CoqZ(v.N) + " " + lib.CoqBool(v.Meta) + " " + lib.CoqList(el) + ")"
	case "chan":
		return "(VChan " + lib.CoqZ(v.N) + ")"
	}
	return "(VUserData 999)"
}

func coqOp(o Op) string {
	switch o.Kind {
	case "send":
		return "(OSend " + coqNat(o.Ch) + " " + coqVal(o.V) + ")"
	case "recv":
		return "(ORecv " + coqNat(o.Ch) + ")"
	case "close":
		return "(OClose " + coqNat(o.Ch) + ")"
	case "select":
		cs := make([]string, len(o.Cases))
		for i, c := range o.Cases {
			switch c.Kind {
			case "send":
				cs[i] = "SSend " + coqNat(c.Ch) + " " + coqVal(c.V)
			case "recv":
				cs[i] = "SRecv " + coqNat(c.Ch)
			default:
				cs[i] = "SDefault"
			}
		}
		return "(OSelect " + lib.CoqList(cs) + ")"
	}
	return "(OClose 9999%nat)"
}

func coqRes(r *Res) string {
	switch r.Kind {
	case "sendok":
		return "RSendOk"
	case "recv":
		return "(RRecv " + lib.CoqBool(r.Ok) + " " + coqVal(r.V) + ")"
	case "closeok":
		return "RCloseOk"
	case "sel":
		return "(RSel " + coqNat(r.Idx) + " " + coqVal(r.V) + " " + lib.CoqBool(r.Ok) + ")"
	case "refused":
		return "RErrRefused"
	case "sendclosed":
		return "RErrSendClosed"
	case "closeclosed":
		return "RErrCloseClosed"
	case "limit":
		return "RErrLimit"
	}
	return "RErrOther"
}

func coqLog(log []Event) string {
	it := make([]string, len(log))
	for i, e := range log {
		if e.Res == nil {
			it[i] = "EInv " + strconv.Itoa(e.T) + " " + coqOp(e.Op)
		} else {
			it[i] = "ERes " + strconv.Itoa(e.T) + " " + coqOp(e.Op) + " " + coqRes(e.Res)
		}
	}
	return lib.CoqList(it)
}

func coqCaps(caps []int) string {
	zs := make([]int64, len(caps))
	for i, c := range caps {
		zs[i] = int64(c)
	}
	return lib.CoqZList(zs)
}

// a digest as 8 numbers of 32 bits
func coqDigest(hx string) string {
	b, _ := hex.DecodeString(hx)
	var zs []int64
	for i := 0; i+4 <= len(b); i += 4 {
		zs = append(zs, int64(b[i])<<24|int64(b[i+1])<<16|int64(b[i+2])<<8|int64(b[i+3]))
	}
	return lib.CoqZList(zs)
}

const failingTerm = "CHist [] [ERes 0 (OClose 0%nat) RErrOther]" // ill-formed log: both checks are false

// ---------- measuring the histories ----------

type histStats struct {
	threads, delivered, refused, closedReports, selects, defaults, errors int
	overlap                                                               bool
}

func measure(log []Event) histStats {
	var s histStats
	seen := map[int]bool{}
	open := map[int]bool{}
	for _, e := range log {
		seen[e.T] = true
		if e.Res == nil {
			if len(open) > 0 {
				s.overlap = true
			}
			open[e.T] = true
			continue
		}
		delete(open, e.T)
		switch e.Res.Kind {
		case "recv":
			if e.Res.Ok {
				s.delivered++
			} else {
				s.closedReports++
			}
		case "sel":
			s.selects++
			if e.Res.Idx >= 0 && e.Res.Idx < len(e.Op.Cases) {
				switch e.Op.Cases[e.Res.Idx].Kind {
				case "recv":
					if e.Res.Ok {
						s.delivered++
					} else {
						s.closedReports++
					}
				case "default":
					s.defaults++
				}
			}
		case "refused":
			s.refused++
		case "sendclosed", "closeclosed":
			s.errors++
		}
	}
	s.threads = len(seen)
	return s
}

var totals = map[string]int{}

func addCase(w *lib.Writer, j Job, r Result) {
	id := w.NextID()
	switch j.Kind {
	case "limit":
		c := lib.Case{Input: j, KF: j.KF, Class: "limit-" + j.Limit.Mode, Observed: map[string]any{"status": r.Status, "msg": trunc(r.Msg, 800), "counts": r.Stress}}
		if r.Status == "ok" && r.Stress != nil {
			o := r.Stress
			c.Coq = fmt.Sprintf("CStress %d %d %d %d %d", o.Sent, o.Recvd, o.Dups, o.Early, o.Disorder)
			// non-trivial only if some calls really failed at the limit and were retried
			c.Nontrivial = !strings.HasSuffix(r.Msg, ": 0")
			w.Add(c)
			return
		}
		c.Class += "-" + r.Status
		c.Coq = failingTerm
		w.Add(c)
		w.GoFail(id, "receive-at-the-limit run: "+r.Status+": "+trunc(r.Msg, 1200))
	case "make":
		c := lib.Case{Input: j, KF: j.KF, Class: "make", Observed: map[string]any{"status": r.Status, "msg": trunc(r.Msg, 800), "make": r.Make}}
		if r.Status == "ok" && r.Make != nil {
			it := make([]string, len(r.Make.Sizes))
			for i, n := range r.Make.Sizes {
				it[i] = "(" + lib.CoqZ(n) + ", " + lib.CoqBool(r.Make.Ok[i]) + ")"
			}
			c.Coq = "CMake " + lib.CoqList(it) + " " + lib.CoqBool(r.Make.NeighbourOK && r.Make.EmptySelectRefused)
			c.Nontrivial = len(it) >= 3
			w.Add(c)
			return
		}
		c.Class += "-" + r.Status
		c.Coq = failingTerm
		w.Add(c)
		w.GoFail(id, "channel.make run: "+r.Status+": "+trunc(r.Msg, 1200))
	case "lib":
		c := lib.Case{Input: j, KF: j.KF, Class: "lib", Observed: map[string]any{"status": r.Status, "msg": trunc(r.Msg, 800), "lib": r.Lib}}
		if r.Status == "ok" && r.Lib != nil && r.Lib.Ref != "" {
			o := r.Lib
			ds := make([]string, len(o.Obs))
			for i, d := range o.Obs {
				ds[i] = coqDigest(d)
			}
			c.Coq = fmt.Sprintf("CLib %s %s %d", coqDigest(o.Ref), lib.CoqList(ds), o.Foreign)
			// the mutator must really have changed what it sees, else the job shows nothing
			c.Nontrivial = o.MutatorOK && o.Tables >= 10 && len(o.Obs) >= 4
			totals["lib_tables_mutated"] += o.Tables
			totals["lib_fingerprint_entries"] = o.Entries
			if !o.MutatorOK || o.Tables < 10 {
				w.Add(c)
				w.GoFail(id, "lib job is vacuous: the mutator state does not see its own changes")
				return
			}
			w.Add(c)
			return
		}
		c.Class += "-" + r.Status
		c.Coq = failingTerm
		w.Add(c)
		w.GoFail(id, "library non-interference run: "+r.Status+": "+trunc(r.Msg, 1200))
	case "stress":
		c := lib.Case{Input: j, KF: j.KF, Class: "stress", Observed: map[string]any{"status": r.Status, "msg": trunc(r.Msg, 800), "stress": r.Stress}}
		if r.Status == "ok" && r.Stress != nil {
			o := r.Stress
			c.Coq = fmt.Sprintf("CStress %d %d %d %d %d", o.Sent, o.Recvd, o.Dups, o.Early, o.Disorder)
			c.Nontrivial = j.Stress.Consumers >= 2 && o.Recvd > 0
			totals["stress_values"] += int(o.Sent)
			w.Add(c)
			return
		}
		c.Class += "-" + r.Status
		c.Coq = failingTerm
		w.Add(c)
		w.GoFail(id, "stress run: "+r.Status+": "+trunc(r.Msg, 1200))
	case "share":
		// the race on the shared table is the observation (known finding C13-1); a crash of the
		// runtime ("concurrent map read and map write") is the same race seen by the runtime
		raced := r.Status == "race" || (r.Status == "crash" && strings.Contains(r.Msg, "concurrent map"))
		c := lib.Case{Input: j, KF: j.KF, Class: "share", Nontrivial: true,
			Observed: map[string]any{"status": r.Status, "raced": raced, "msg": trunc(r.Msg, 800)},
			Coq:      "CShare " + lib.CoqBool(raced)}
		w.Add(c)
		if !raced && r.Status != "ok" {
			w.GoFail(id, "share job: "+r.Status+": "+trunc(r.Msg, 800))
		}
	case "hist":
		c := lib.Case{Input: j, KF: j.KF, Class: "hist-" + j.Hist.Class}
		st := measure(r.Log)
		totals["events"] += len(r.Log)
		totals["delivered"] += st.delivered
		totals["closure_reports"] += st.closedReports
		totals["refused"] += st.refused
		totals["selects"] += st.selects
		totals["select_default"] += st.defaults
		totals["send_on_closed_or_close_of_closed"] += st.errors
		if st.overlap {
			totals["histories_with_overlapping_operations"]++
		}
		for _, c := range j.Hist.Caps {
			if c == 0 {
				totals["unbuffered_channels"]++
			} else {
				totals["buffered_channels"]++
			}
		}
		c.Observed = map[string]any{"status": r.Status, "msg": trunc(r.Msg, 1500), "events": len(r.Log), "delivered": st.delivered,
			"closure_reports": st.closedReports, "refused": st.refused, "select": st.selects, "default": st.defaults, "log": r.Log}
		if r.Status == "ok" {
			c.Coq = "CHist " + coqCaps(j.Hist.Caps) + " " + coqLog(r.Log)
			if j.Hist.Class == "edge" {
				// the sweep must have crossed the limit: operations that worked, operations that
				// failed, and at least one that failed after its leaf had been entered (the
				// library call itself hit the limit)
				e := r.Edge
				if e == nil {
					e = &EdgeObs{}
				}
				c.Observed.(map[string]any)["edge"] = e
				c.Nontrivial = e.Ops-e.Failed >= 1 && e.FailedInside >= 1 && st.closedReports >= 1
				totals["edge_ops"] += e.Ops
				totals["edge_ops_failed_at_the_limit"] += e.Failed
				totals["edge_ops_failed_inside_the_call"] += e.FailedInside
				totals["edge_history_steps"] += e.HistSteps
			} else if j.Hist.Class == "solo" {
				c.Nontrivial = st.refused+st.closedReports > 0
			} else {
				c.Nontrivial = st.threads >= 2 && st.delivered >= 1 && st.overlap
			}
			w.Add(c)
			return
		}
		c.Class += "-" + r.Status
		c.Coq = failingTerm
		w.Add(c)
		w.GoFail(id, "channel history: "+r.Status+": "+trunc(r.Msg, 1200))
	case "iso":
		c := lib.Case{Input: j, KF: j.KF, Class: "iso"}
		c.Observed = map[string]any{"status": r.Status, "msg": trunc(r.Msg, 1500), "iso": r.Iso}
		if r.Status == "ok" && r.Iso != nil {
			conc := make([]string, len(r.Iso.Conc))
			for i, d := range r.Iso.Conc {
				conc[i] = coqDigest(d)
			}
			exp := make([]string, len(r.Iso.Exp))
			for i, d := range r.Iso.Exp {
				exp[i] = coqDigest(d)
			}
			c.Coq = "CIso " + lib.CoqList(exp) + " " + lib.CoqList(conc) + " " + coqDigest(r.Iso.H0) + " " + coqDigest(r.Iso.H1)
			c.Nontrivial = len(conc) >= 2
			w.Add(c)
			return
		}
		c.Class += "-" + r.Status
		c.Coq = failingTerm
		w.Add(c)
		w.GoFail(id, "non-interference run: "+r.Status+": "+trunc(r.Msg, 1200))
	}
}

func replayJobs(path string) []Job {
	b, err := os.ReadFile(path)
	if err != nil {
		panic(err)
	}
	var rp struct {
		Input Job `json:"input"`
	}
	if err := json.Unmarshal(b, &rp); err != nil {
		panic(err)
	}
	// a schedule cannot be replayed exactly: run the same job several times
	var js []Job
	for i := 0; i < 20; i++ {
		js = append(js, rp.Input)
	}
	return js
}
