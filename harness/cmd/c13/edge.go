package main

import (
	"fmt"
	"strings"

	"verifh/lib"
)

// ---------- channel operations at a chosen register height, after a chosen history ("edge" histories) ----------
//
// Class: a receive or select that ends in an error of the calling state (no room left in its
// registry for the results, call stack full for the handler) must not have touched a channel,
// whatever that state has been through before.  An edge thread is one LState with a small
// registry (fixed, growing, or grown to its maximum) or a small call stack.  It
//   * puts the state through HISTORY steps: errors raised while the registry was completely full
//     (string.byte / unpack pushing value by value), registry growth, call-stack and registry
//     overflows by recursion, errors with non-string values, errors raised inside coroutines and
//     inside callbacks of string.gsub / table.sort / xpcall handlers, failing channel calls;
//   * then issues the operation (receive, select with a receive or send case, with Lua handlers of
//     fixed arity / varargs / many locals, with a Go function as handler) at the bottom of a
//     recursion, at EVERY register height around the limit: for each k (number of extra arguments
//     of the vararg leaf: one register each) the depths around the first depth at which a bare leaf
//     fails.  Optionally everything happens inside a coroutine (its own registry and call stack).
// All entries of the log are written from the top level (the operation at depth stores its results
// in upvalues), so logging never competes for the registers under test.  A failed operation is
// logged with result "limit" (RErrLimit in the model: no channel touched); the script then looks
// into the channel with select{recv, default} from the top level, and at the end closes and drains
// it, so a value that a failed receive took (or that a failed select sent) contradicts the log:
// trace_ok rejects it and spec_select / spec_closed / spec_once fail.

const edgePrelude = `
local e_entered, e_done = false, false
local e_a, e_b, e_c
local e_hn, e_h1, e_h2, e_hargs = 0
local e_pad = {}
for i = 1, 64 do e_pad[i] = false end
local e_inco, e_regmax, e_co = false, 0
local e_big, e_bigt

local function e_rec(d, k, f)
  if d == 0 then f(unpack(e_pad, 1, k)) return 1 end
  local a = e_rec(d - 1, k, f)
  return a
end
local function e_noop(...) end

-- runs fn(a, b, c) under pcall, in the main thread or inside the long-lived coroutine
local function e_run(fn, a, b, c)
  if not e_inco then return pcall(fn, a, b, c) end
  if e_co == nil then
    e_co = coroutine.wrap(function(f, x, y, z)
      while true do
        f, x, y, z = coroutine.yield(pcall(f, x, y, z))
      end
    end)
  end
  return e_co(fn, a, b, c)
end

function e_init(regmax, inco)
  e_regmax, e_inco = regmax, inco
  e_big = string.rep("x", regmax + 200)
  e_bigt = {}
  for i = 1, regmax + 200 do e_bigt[i] = i end
end

-- smallest depth at which a leaf that does nothing fails with k extra arguments
function e_edge(k)
  for d = 0, 6000 do
    if not e_run(e_rec, d, k, e_noop) then return d end
  end
  return nil
end

local e_hist = {
  -- an error raised while the registry is completely full (the library pushes value by value)
  byte = function() local a = string.byte(e_big, 1, -1) return a end,
  unpack = function() local a = unpack(e_bigt) return a end,
  -- the same from the bottom of a deep recursion, and inside callbacks that Go code runs
  deepbyte = function() e_rec(20, 3, function(...) local a = string.byte(e_big, 1, -1) return a end) end,
  gsub = function() local a = string.gsub("aaa", "a", function() local b = string.byte(e_big, 1, -1) return "b" end) return a end,
  sort = function() table.sort({3, 2, 1, 5, 4}, function(x, y) error("cmp") end) end,
  xpcall = function() local a = xpcall(function() local b = string.byte(e_big, 1, -1) end, function(m) return debug.traceback(m) end) error("after xpcall") end,
  -- call stack / registry exhausted by recursion (thin and fat frames)
  rec = function() local function r(n) return 1 + r(n + 1) end return r(1) end,
  fat = function()
    local function r(n)
      local l01,l02,l03,l04,l05,l06,l07,l08,l09,l10,l11,l12,l13,l14,l15,l16,l17,l18,l19,l20
      local m01,m02,m03,m04,m05,m06,m07,m08,m09,m10,m11,m12,m13,m14,m15,m16,m17,m18,m19,m20
      return 1 + r(n + 1)
    end
    return r(1)
  end,
  -- an error value that is not a string; an error raised in a coroutine (plain and with a full registry)
  errobj = function() error({code = 1}) end,
  codie = function() coroutine.wrap(function() local a = string.byte(e_big, 1, -1) end)() end,
  coerr = function() local co = coroutine.create(function() coroutine.yield(1) error("in coroutine") end) coroutine.resume(co) coroutine.resume(co) error("after coroutine") end,
  -- a coroutine hands more values to its resumer than the resumer has room for
  coyield = function() local co = coroutine.wrap(function() coroutine.yield(unpack(e_bigt)) end) local a = co() return a end,
  -- the registry grows (no error on a growing registry that is large enough; "registry overflow" otherwise)
  grow = function() local t = {unpack(e_bigt, 1, e_regmax - 100)} return #t end,
  -- failing channel library calls
  selbad = function() channel.select({"bogus"}) end,
  selnone = function() channel.select() end,
  sendbad = function() CH[1]:send(function() end) end,
}

function e_history(name)
  local f = e_hist[name]
  local ok = e_run(f)
  edge_hist(ok)
  return ok
end

local function e_leaf(kind, c, v)
  local ch = CH[c]
  if kind == "recv" then
    return function(...) e_entered = true; e_a, e_b = ch:receive(); e_done = true end
  end
  local case, first
  if kind == "selrecv" then
    case = {"|<-", ch}
  elseif kind == "selrecvh" then
    case = {"|<-", ch, function(ok, x) e_hn = e_hn + 1; e_h1, e_h2 = ok, x end}
  elseif kind == "selrecvvh" then
    -- (handlers make no calls of their own: a handler that runs out of call stack in a nested call has received the value)
    case = {"|<-", ch, function(...) e_hn = e_hn + 1; local a, b, c = ...; e_h1, e_h2 = a, b; if c == nil then e_hargs = 2 else e_hargs = 3 end end}
  elseif kind == "selrecvfh" or kind == "sel2fh" then
    -- sel2fh: the handler sits on the second case; the first one (channel 2, always empty) has none
    if kind == "sel2fh" then first = {"|<-", CH[2]} end
    case = {"|<-", ch, function(ok, x)
      local l01,l02,l03,l04,l05,l06,l07,l08,l09,l10,l11,l12,l13,l14,l15,l16,l17,l18,l19,l20
      local m01,m02,m03,m04,m05,m06,m07,m08,m09,m10,m11,m12,m13,m14,m15,m16,m17,m18,m19,m20 = ok, x
      e_hn = e_hn + 1; e_h1, e_h2 = m01, m02
    end}
  elseif kind == "selrecvgh" then
    case = {"|<-", ch, rawequal}
  elseif kind == "selsend" then
    case = {"<-|", ch, v}
  elseif kind == "selsendh" then
    case = {"<-|", ch, v, function(x) e_hn = e_hn + 1; e_h1 = x end}
  elseif kind == "selsendvh" then
    case = {"<-|", ch, v, function(...) e_hn = e_hn + 1; local a, b = ...; e_h1 = a; if b == nil then e_hargs = 1 else e_hargs = 2 end end}
  else
    error("edge: unknown kind " .. tostring(kind))
  end
  if first then
    return function(...) e_entered = true; e_a, e_b, e_c = channel.select(first, case); e_done = true end
  end
  return function(...) e_entered = true; e_a, e_b, e_c = channel.select(case); e_done = true end
end

-- the operation of the given kind on channel c at depth d with k extra arguments; logged from here
function op_at(kind, c, d, k, v)
  local issend = kind == "selsend" or kind == "selsendh" or kind == "selsendvh"
  if kind == "recv" then inv("recv", c)
  elseif issend then inv("select", {{"send", c, v}})
  elseif kind == "sel2fh" then inv("select", {{"recv", 2}, {"recv", c}})
  else inv("select", {{"recv", c}}) end
  e_entered, e_done, e_a, e_b, e_c, e_hn, e_h1, e_h2, e_hargs = false, false, nil, nil, nil, 0, nil, nil, nil
  local ok, err = e_run(e_rec, d, k, e_leaf(kind, c, v))
  if ok and not e_done then ok, err = false, "edge: the leaf returned without completing the operation" end
  if not ok and e_done then err = "edge: error after the operation had completed: " .. tostring(err) end
  if not ok and e_hn > 0 then err = "edge: error after the handler had been run: " .. tostring(err) end
  local name = "select"
  if kind == "recv" then name = "recv" end
  if not ok then
    res(name, false, tostring(err))
  elseif kind == "recv" then
    res("recv", true, e_a, e_b)
  else
    local hbad = false
    if kind == "selrecvh" or kind == "selrecvfh" or kind == "sel2fh" then hbad = not (e_hn == 1 and e_h1 == e_c and e_h2 == e_b)
    elseif kind == "selrecvvh" then hbad = not (e_hn == 1 and e_hargs == 2 and e_h1 == e_c and e_h2 == e_b)
    elseif kind == "selsendh" then hbad = not (e_hn == 1 and e_h1 == v)
    elseif kind == "selsendvh" then hbad = not (e_hn == 1 and e_hargs == 1 and e_h1 == v)
    end
    res("select", true, e_a, e_b, e_c, hbad)
  end
  edge_note(ok, e_entered)
  return ok
end

local e_next = 0
-- one operation at (d, k): it is offered exactly one value (receive kinds) or offers one (send
-- kinds); after a failure the top level looks into the channel
local function e_one(kind, issend, c, d, k)
  e_next = e_next + 1
  local v = e_next
  local ok
  if issend then
    ok = op_at(kind, c, d, k, v)
    op_select({{"recv", c}, {"default"}})
  else
    op_send(c, v)
    ok = op_at(kind, c, d, k)
    if not ok then op_select({{"recv", c}, {"default"}}) end
  end
  return ok
end
-- one sweep: for every k (one register per extra argument) walk down from the depth at which a bare
-- leaf fails until the operation has worked twice in a row: every register height from beyond the
-- limit down to where the operation has room is visited, whatever the frame sizes are.  skip: the
-- first skip depths below the edge are not visited if the operation (a handler with a big frame)
-- still fails there; if it does not, the walk starts over from the top.
function e_sweep(kind, c, K, skip)
  local issend = kind == "selsend" or kind == "selsendh" or kind == "selsendvh"
  for k = 0, K - 1 do
    local dk = e_edge(k)
    if dk then
      local d, sk, first, succ = dk - 1 - skip, skip, true, 0
      while d >= 0 and succ < 2 do
        local ok = e_one(kind, issend, c, d, k)
        if first and ok and sk > 0 then
          d, sk, succ = dk - 1, 0, 0
        else
          if ok then succ = succ + 1 else succ = 0 end
          d = d - 1
        end
        first = false
      end
    end
  end
end
`

var edgeKinds = []string{"recv", "selrecv", "selrecvh", "selrecvvh", "selrecvfh", "sel2fh", "selrecvgh", "selsend", "selsendh", "selsendvh"}

// history steps; the first group raises an error while the registry is completely full
var edgeHistFull = []string{"byte", "unpack", "deepbyte", "gsub", "xpcall", "codie"}
var edgeHistOther = []string{"sort", "rec", "fat", "errobj", "coerr", "coyield", "grow", "selbad", "selnone", "sendbad"}

type edgeParams struct {
	Kinds   []string
	History []string // steps run before each sweep, in order (one more step per sweep)
	Opts    StateOpts
	InCo    bool
	Ctx     bool
	K       int
	Cap     int
}

func edgeScript(p edgeParams) string {
	regmax := p.Opts.RegSize
	if p.Opts.RegMax > regmax {
		regmax = p.Opts.RegMax
	}
	var b strings.Builder
	fmt.Fprintf(&b, "e_init(%d, %v)\n", regmax, p.InCo)
	// sweep i runs after history step i (a sweep without any step first when there is no history)
	n := len(p.History)
	if n == 0 {
		n = 1
	}
	for i := 0; i < n; i++ {
		if i < len(p.History) {
			fmt.Fprintf(&b, "e_history(%q)\n", p.History[i])
		}
		kind := p.Kinds[i%len(p.Kinds)]
		skip := 0
		if (kind == "selrecvfh" || kind == "sel2fh") && p.Opts.RegSize < 5120 {
			// the handler's frame alone is 40 registers (about 9 frames of the recursion)
			skip = 8
		}
		fmt.Fprintf(&b, "e_sweep(%q, 1, %d, %d)\n", kind, p.K, skip)
	}
	b.WriteString("op_close(1)\nop_recv(1)\n")
	return b.String()
}

func edgeJob(p edgeParams) Job {
	o := p.Opts
	return Job{Kind: "hist", Hist: &HistSpec{Class: "edge", Caps: []int{p.Cap, 1}, Procs: 2, TimeoutMs: 60000,
		Threads: []ThreadSpec{{Role: "edge", Script: edgeScript(p), Ctx: p.Ctx, Opts: &o, Edge: true}}}}
}

func genEdgeOpts(r *lib.Rand) StateOpts {
	switch r.Pick(4, 3, 2, 1) {
	case 0: // fixed registry
		return StateOpts{RegSize: 128 + 8*r.Range(0, 48), CallStack: 1024}
	case 1: // growing registry (odd grow steps on purpose): every overflow happens at the maximum
		s := 128 + 8*r.Range(0, 16)
		return StateOpts{RegSize: s, RegMax: s + r.Range(1, 300), Grow: []int{1, 7, 32, 100}[r.Intn(4)], CallStack: 1024}
	case 2: // the call stack fills first
		return StateOpts{RegSize: 5120, CallStack: r.Range(16, 60)}
	}
	// growing call stack
	return StateOpts{RegSize: 128 + 8*r.Range(0, 48), CallStack: 1024, MinStack: true}
}

func genEdge(r *lib.Rand) Job {
	p := edgeParams{Opts: genEdgeOpts(r), InCo: r.Chance(30), Ctx: r.Chance(40), K: 7, Cap: r.Range(1, 3)}
	if p.Opts.RegSize >= 5120 {
		p.K = 2 // the call stack decides: the register height does not matter
	}
	nk := r.Range(2, 3)
	for i := 0; i < nk; i++ {
		p.Kinds = append(p.Kinds, edgeKinds[r.Intn(len(edgeKinds))])
	}
	// 2-3 history steps; the first one is an error on a completely full registry in 3 of 4 jobs
	nh := r.Range(2, 3)
	for i := 0; i < nh; i++ {
		if (i == 0 && r.Chance(75)) || r.Chance(30) {
			p.History = append(p.History, edgeHistFull[r.Intn(len(edgeHistFull))])
		} else {
			p.History = append(p.History, edgeHistOther[r.Intn(len(edgeHistOther))])
		}
	}
	return edgeJob(p)
}

// corpus: one job per family of kinds, each after an error raised on a completely full registry
// and after ordinary failures, on a fixed registry, on a registry grown to its maximum, inside a
// coroutine, at the call-stack limit
func edgeCorpus() []Job {
	return []Job{
		edgeJob(edgeParams{Kinds: []string{"recv", "selrecv", "recv"}, History: []string{"rec", "byte", "unpack"},
			Opts: StateOpts{RegSize: 256, CallStack: 1024}, K: 7, Cap: 1}),
		edgeJob(edgeParams{Kinds: []string{"selrecvh", "sel2fh", "selrecvvh", "selrecvfh"}, History: []string{"byte", "gsub", "errobj", "grow"},
			Opts: StateOpts{RegSize: 200, RegMax: 333, Grow: 7, CallStack: 1024}, K: 7, Cap: 2, Ctx: true}),
		edgeJob(edgeParams{Kinds: []string{"selsend", "selsendh", "selsendvh"}, History: []string{"unpack", "codie", "sort"},
			Opts: StateOpts{RegSize: 192, CallStack: 1024}, K: 7, Cap: 1}),
		edgeJob(edgeParams{Kinds: []string{"recv", "selrecvgh", "selrecvh"}, History: []string{"byte", "coyield", "xpcall"},
			Opts: StateOpts{RegSize: 256, CallStack: 1024}, InCo: true, K: 7, Cap: 1}),
		edgeJob(edgeParams{Kinds: []string{"selrecvh", "selsendh", "selrecvvh"}, History: []string{"rec", "fat", "selnone"},
			Opts: StateOpts{RegSize: 5120, CallStack: 40}, K: 2, Cap: 1}),
	}
}
