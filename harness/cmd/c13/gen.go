package main

import (
	"fmt"
	"strings"

	"verifh/lib"
)

// ---------- multi-state channel histories ----------
//
// Liveness by construction: every channel has at least one consumer that receives until the
// channel is closed; the janitor closes every channel once all producers have returned; a send or
// select blocked on a channel that gets closed fails with "send on closed channel" and the
// producer stops.  So every operation returns and the logs are complete.

var capPool = []int{0, 0, 0, 1, 1, 2, 3, 5}
var procPool = []int{1, 2, 4, 16}

func pause(r *lib.Rand) string {
	switch r.Pick(5, 3, 2) {
	case 1:
		return "yield()"
	case 2:
		return fmt.Sprintf("nap(%d)", r.Range(1, 40))
	}
	return ""
}

func producerScript(r *lib.Rand, t, nch int) string {
	c := r.Range(1, nch)
	n := r.Range(1, 8)
	base := t * 1000
	var body string
	switch v := r.Pick(5, 3, 2); {
	case v == 1:
		h := ""
		if r.Chance(40) {
			h = ", h = true"
		}
		hd := ""
		if r.Chance(30) {
			hd = ", h = true"
		}
		body = fmt.Sprintf(`
  local sent
  for try = 1, %d do
    local ok, idx = op_select({{"send", c, base + i%s}, {"default"%s}})
    if not ok then sent = "closed" break end
    if idx == 1 then sent = "yes" break end
    yield()
  end
  if sent == "closed" then break end
  if not sent and not op_send(c, base + i) then break end`, r.Range(1, 4), h, hd)
	case v == 2 && nch == 2:
		body = `
  local ok = op_select({{"send", 1, base + i}, {"send", 2, base + i}})
  if not ok then break end`
	default:
		body = `
  if not op_send(c, base + i) then break end`
	}
	return fmt.Sprintf("local c, base = %d, %d\nfor i = 1, %d do\n  %s%s\nend\n", c, base, n, pause(r), body)
}

func drainScript(r *lib.Rand, nch int, forceAll bool) string {
	if nch == 1 && r.Chance(60) || nch == 2 && !forceAll && r.Chance(25) {
		return fmt.Sprintf("local c = %d\nwhile true do\n  %s\n  local ok, v = op_recv(c)\n  if not ok then break end\nend\n", r.Range(1, nch), pause(r))
	}
	h := "false"
	if r.Chance(40) {
		h = "true"
	}
	return fmt.Sprintf(`local NCH, polls = %d, %d
local open, nopen = {}, NCH
for c = 1, NCH do open[c] = true end
while nopen > 0 do
  %s
  local cases, map = {}, {}
  for c = 1, NCH do if open[c] then cases[#cases + 1] = {"recv", c, h = %s}; map[#cases] = c end end
  if polls > 0 then cases[#cases + 1] = {"default"}; polls = polls - 1 end
  local ok, idx, v, rok = op_select(cases)
  if not ok then break end
  local c = map[idx]
  if c then
    if not rok then open[c] = false; nopen = nopen - 1 end
  else
    yield()
  end
end
`, nch, r.Pick(3, 1, 1, 1)*r.Range(1, 3), pause(r), h)
}

func takeAndCloseScript(r *lib.Rand, nch int) string {
	return fmt.Sprintf("local c = %d\nfor i = 1, %d do\n  local ok, v = op_recv(c)\n  if not ok then break end\nend\nop_close(c)\n", r.Range(1, nch), r.Range(1, 5))
}

func genMpmc(r *lib.Rand) *HistSpec {
	nch := 1 + r.Pick(3, 2)
	h := &HistSpec{Class: "mpmc", Procs: procPool[r.Intn(len(procPool))], TimeoutMs: 8000}
	for i := 0; i < nch; i++ {
		h.Caps = append(h.Caps, capPool[r.Intn(len(capPool))])
	}
	np := r.Range(1, 3)
	nc := r.Range(1, 3)
	t := 1
	for i := 0; i < np; i++ {
		h.Threads = append(h.Threads, ThreadSpec{Role: "producer", Script: producerScript(r, t, nch)})
		t++
	}
	// the first consumer drains every channel until it is closed
	h.Threads = append(h.Threads, ThreadSpec{Role: "consumer", Script: drainScript(r, nch, true)})
	t++
	for i := 1; i < nc; i++ {
		if r.Chance(35) {
			h.Threads = append(h.Threads, ThreadSpec{Role: "consumer", Script: takeAndCloseScript(r, nch)})
		} else {
			h.Threads = append(h.Threads, ThreadSpec{Role: "consumer", Script: drainScript(r, nch, false)})
		}
		t++
	}
	if r.Chance(30) {
		h.Threads = append(h.Threads, ThreadSpec{Role: "closer",
			Script: fmt.Sprintf("for i = 1, %d do yield() end\nnap(%d)\nop_close(%d)\n", r.Range(0, 20), r.Range(1, 200), r.Range(1, nch))})
	}
	h.Threads = append(h.Threads, ThreadSpec{Role: "janitor", Script: fmt.Sprintf("wait_producers()\nfor c = 1, %d do op_close(c) end\n", nch)})
	// shuffle so that thread numbers (and option variants) are not tied to roles
	for i := len(h.Threads) - 1; i > 0; i-- {
		k := r.Intn(i + 1)
		h.Threads[i], h.Threads[k] = h.Threads[k], h.Threads[i]
	}
	for i := range h.Threads {
		h.Threads[i].Ctx = r.Chance(40)
	}
	// payload bases depend on the final thread number: producers use their own constant, which
	// stays unique because it was derived from the pre-shuffle index
	return h
}

// ---------- single-state scripts over all payload kinds (never block) ----------

var payloads = []struct {
	expr string
	safe bool
}{
	{"nil", true}, {"true", true}, {"false", true}, {"%d", true}, {"\"s%d\"", true}, {"\"\"", true},
	{"{id = %d}", true}, {"{id = %d, 1, \"x\", true}", true}, {"CH[1]", true},
	{"{id = %d, function() end}", true},             // nested function: accepted (shallow filter)
	{"{id = %d, setmetatable({id = 1}, {})}", true}, // nested table with metatable: accepted
	{"{id = %d, {id = 2, {id = 3}}}", true},
	{"function() end", false}, {"print", false}, {"newud()", false}, {"coroutine.create(function() end)", false},
	{"setmetatable({id = %d}, {})", false}, {"setmetatable({id = %d, 5}, {__index = function() end})", false},
}

func payload(r *lib.Rand, k *int) (string, bool) {
	p := payloads[r.Intn(len(payloads))]
	*k++
	if strings.Contains(p.expr, "%d") {
		return fmt.Sprintf(p.expr, *k), p.safe
	}
	return p.expr, p.safe
}

func genSolo(r *lib.Rand) *HistSpec {
	nch := 1 + r.Pick(3, 2)
	h := &HistSpec{Class: "solo", Procs: 1, TimeoutMs: 10000}
	cnt := make([]int, nch)
	closed := make([]bool, nch)
	for i := 0; i < nch; i++ {
		h.Caps = append(h.Caps, capPool[2+r.Intn(len(capPool)-2)])
	}
	var sb strings.Builder
	k := 100
	n := r.Range(4, 30)
	for i := 0; i < n; i++ {
		c := r.Intn(nch)
		switch r.Pick(5, 4, 1, 4) {
		case 0: // send
			e, safe := payload(r, &k)
			if !safe || closed[c] {
				fmt.Fprintf(&sb, "op_send(%d, %s)\n", c+1, e)
			} else if cnt[c] < h.Caps[c] {
				fmt.Fprintf(&sb, "op_send(%d, %s)\n", c+1, e)
				cnt[c]++
			}
		case 1: // receive
			if cnt[c] > 0 {
				fmt.Fprintf(&sb, "op_recv(%d)\n", c+1)
				cnt[c]--
			} else if closed[c] {
				fmt.Fprintf(&sb, "op_recv(%d)\n", c+1)
			}
		case 2:
			fmt.Fprintf(&sb, "op_close(%d)\n", c+1)
			closed[c] = true
		case 3: // select with at most one ready case besides default, so that the outcome is determined
			var cases []string
			ready := -1
			for m := r.Range(1, 3); m > 0; m-- {
				d := r.Intn(nch)
				if r.Bool() {
					isReady := cnt[d] > 0 || closed[d]
					if isReady && ready >= 0 {
						continue
					}
					if isReady {
						ready = len(cases)
						if cnt[d] > 0 {
							cnt[d]--
						}
					}
					hh := ""
					if r.Chance(40) {
						hh = ", h = true"
					}
					cases = append(cases, fmt.Sprintf("{\"recv\", %d%s}", d+1, hh))
				} else {
					e, safe := payload(r, &k)
					if !safe {
						// refused before anything else happens: undo the bookkeeping of this select
						cases = append(cases, fmt.Sprintf("{\"send\", %d, %s}", d+1, e))
						ready = -2
						break
					}
					isReady := closed[d] || cnt[d] < h.Caps[d]
					if isReady && ready >= 0 {
						continue
					}
					if isReady {
						ready = len(cases)
						if !closed[d] {
							cnt[d]++
						}
					}
					hh := ""
					if e != "nil" && r.Chance(40) {
						hh = ", h = true"
					}
					cases = append(cases, fmt.Sprintf("{\"send\", %d, %s%s}", d+1, e, hh))
				}
			}
			if ready == -2 {
				// bookkeeping of earlier cases of this select must be undone: simplest is to stop tracking
				fmt.Fprintf(&sb, "op_select({%s, {\"default\"}})\n", strings.Join(cases, ", "))
				goto tail
			}
			if ready < 0 || r.Chance(50) {
				cases = append(cases, "{\"default\"}")
			}
			fmt.Fprintf(&sb, "op_select({%s})\n", strings.Join(cases, ", "))
		}
	}
tail:
	// free-form tail: only operations that can never block, outcome left to the real code
	for m := r.Range(0, 5); m > 0; m-- {
		var cases []string
		for q := r.Range(1, 3); q > 0; q-- {
			d := r.Intn(nch)
			if r.Bool() {
				cases = append(cases, fmt.Sprintf("{\"recv\", %d}", d+1))
			} else {
				e, _ := payload(r, &k)
				cases = append(cases, fmt.Sprintf("{\"send\", %d, %s}", d+1, e))
			}
		}
		pos := r.Intn(len(cases) + 1)
		cases = append(cases[:pos], append([]string{"{\"default\"}"}, cases[pos:]...)...)
		fmt.Fprintf(&sb, "op_select({%s})\n", strings.Join(cases, ", "))
		if r.Chance(20) {
			fmt.Fprintf(&sb, "op_close(%d)\n", r.Range(1, nch))
		}
	}
	h.Threads = []ThreadSpec{{Role: "solo", Script: sb.String(), Ctx: r.Bool()}}
	return h
}

// ---------- non-interference programs ----------

var snippets = []string{
	`do local t = {} for i = 1, %[1]d do t[i] = i * %[2]d; t["k" .. i] = i end
   local s = 0 for i = 1, #t do s = s + t[i] end for i = 1, %[1]d do s = s + t["k" .. i] end emit("tbl", s, #t) end`,
	`do local function fib(n) if n < 2 then return n end return fib(n - 1) + fib(n - 2) end emit("fib", fib(%[3]d)) end`,
	`do emit("fmt", string.format("%%5.2f|%%d|%%s|%%q|%%x", %[1]d / 7, %[2]d, "hi", "a\nb", %[1]d)) end`,
	`do local s, n = ("hello world %[1]d"):gsub("o", "%[2]d") emit("gsub", s, n)
   emit("match", ("key%[1]d=val%[2]d"):match("(%%w+)=(%%w+)")) for w in ("a%[1]d b c"):gmatch("%%w+") do emit("gm", w) end
   emit("find", ("abc%[2]dabc"):find("c%%d+a")) end`,
	`do local co = coroutine.wrap(function(a) for i = 1, %[3]d do a = coroutine.yield(a + i) end return "done" end)
   for i = 1, %[3]d + 1 do emit("co", tostring(co(i))) end end`,
	`do local ok, e = pcall(function() error({code = %[1]d}) end) emit("pcall", tostring(ok), type(e), e.code)
   local ok2, e2 = pcall(function() local x = nil; return x.y end) emit("pcall2", tostring(ok2), type(e2)) end`,
	`do local mt = setmetatable({}, {__index = function(t, k) return k .. "!%[1]d" end, __add = function(a, b) return %[2]d end,
     __call = function(self, x) return x * 2 end}) emit("mt", mt.foo, mt + 1, mt(%[1]d)) end`,
	`do local t = {} for i = 1, %[1]d do t[i] = (i * 7919) %% 101 end table.sort(t) emit("sort", t[1], t[#t], table.concat(t, ",", 1, 5))
   table.sort(t, function(a, b) return a > b end) emit("sortd", t[1], t[#t]) end`,
	`do local function cnt() local n = %[1]d return function() n = n + 1 return n end end
   local a, b = cnt(), cnt() a() a() emit("clos", a(), b()) end`,
	`do local function va(...) return select("#", ...), ... end emit("va", va(1, nil, %[1]d)) emit("unpack", unpack({1, 2, %[2]d})) end`,
	`do local f = loadstring("return %[1]d + %[2]d") emit("load", f()) emit("rep", #string.rep("x", %[1]d), ("ab"):rep(3), ("%[2]d"):len()) end`,
	`do local function rec(n) if n == 0 then return 0 end return 1 + rec(n - 1) end emit("rec", rec(%[1]d + 60)) end`,
	`do local s = 0 for i = %[1]d, 1, -1 do s = s + i %% 3 end local i = 0 while i < %[2]d do i = i + 1 if i %% 2 == 0 then s = s - 1 end end
   repeat s = s + 1 until s %% 5 == 0 emit("loops", s) end`,
	`do emit("num", math.floor(%[1]d / 3), math.max(%[1]d, %[2]d), tostring(%[1]d / 4), %[1]d %% 7, 2 ^ 10, tostring(1e15), tostring(0.1))
   emit("str", ("x"):byte(), string.char(72, 105), ("Hello"):upper(), ("Hello"):lower(), ("hello"):sub(2, -2), ("abc"):reverse()) end`,
	`do local t = {} for i = 1, 10 do table.insert(t, i) end table.remove(t, 1) table.insert(t, 1, %[1]d) emit("tins", #t, t[1], t[#t], table.concat(t, "-")) end`,
	`do local o = {v = %[1]d} function o.get(self) return self.v end function o:inc(d) self.v = self.v + d return self end
   emit("meth", o:inc(%[2]d):get(), o.get(o)) end`,
	`do local function f1() error("boom%[1]d") end local function f2() error("bam") end local function f3() local x = nil return x.y end
   local fs = {f1, f2, f3}
   local ok, tb = xpcall(function() fs[VARIANT]() end, debug.traceback) emit("tb", tostring(ok), tb)
   local ok2, tb2 = xpcall(function() return fs[(VARIANT %% 3) + 1]() end, debug.traceback) emit("tbtail", tostring(ok2), tb2)
   for i = 1, 3 do local ok3, e3 = pcall(fs[((VARIANT + i) %% 3) + 1]) emit("pc", tostring(ok3), tostring(e3)) end end`,
	`do local function who() local i = debug.getinfo(1, "n") return tostring(i and i.name) end
   local function who2() return (who()) end local function who3() return who() end
   local ws = {who, who2, who3}
   emit("name", ws[VARIANT](), ws[(VARIANT %% 3) + 1](), ws[((VARIANT + 1) %% 3) + 1]()) emit("tbhere", debug.traceback("m%[1]d")) end`,
	`do local function a1(x) return string.rep(x) end local function a2(x) return ("x"):rep(x, x, {}) .. string.char(-1) end
   local function a3(x) return math.floor(x) end local as = {a1, a2, a3}
   for i = 0, 2 do local ok, e = pcall(as[((VARIANT + i) %% 3) + 1], {}) emit("argerr", tostring(ok), tostring(e)) end end`,
	`do local ok = pcall(string.rep) local a, b = tostring(nil), tostring(true) emit("misc", tostring(ok), a, b, type(print), tonumber("%[1]d"), tonumber("0x10")) end`,
}

const otherSrc = `
local t = {}
for i = 1, 60 do t[#t + 1] = string.format("%d:%s", i, ("x"):rep(i % 5)) end
local s = table.concat(t, ","):gsub("%d+", function(d) return tostring(tonumber(d) + 1) end)
local co = coroutine.wrap(function() for i = 1, 5 do coroutine.yield(i) end end)
local n = 0 for i = 1, 5 do n = n + co() end
local function f(a, ...) return select("#", ...) + a end
x = f(n, 1, 2, 3) + #s
`

func genIso(r *lib.Rand, n, churn int) *IsoSpec {
	var sb strings.Builder
	for k := r.Range(4, 12); k > 0; k-- {
		sn := snippets[r.Intn(len(snippets))]
		a, b, c := r.Range(1, 60), r.Range(1, 9), r.Range(3, 14)
		if strings.Contains(sn, "%[") {
			fmt.Fprintf(&sb, sn, a, b, c)
		} else {
			sb.WriteString(strings.ReplaceAll(sn, "%%", "%"))
		}
		sb.WriteString("\n")
	}
	if r.Chance(40) {
		sb.WriteString("local function e1() error(\"uncaught one\") end local function e2() local t = nil return t.x end\n" +
			"local function e3() return e1() end\nlocal es = {e1, e2, e3}\nes[VARIANT]()\n")
	}
	src := sb.String()
	if i := strings.Index(src, "%!"); i >= 0 {
		panic("bad snippet format near: " + src[i:min(len(src), i+40)])
	}
	return &IsoSpec{Src: src, Other: otherSrc, N: n, Churn: churn, Procs: procPool[1+r.Intn(len(procPool)-1)], TimeoutMs: 60000}
}

// ---------- corpus: fixed witnesses, run first ----------

func corpus() []Job {
	solo := func(caps []int, script string) Job {
		return Job{Kind: "hist", Hist: &HistSpec{Class: "solo", Caps: caps, Procs: 1, TimeoutMs: 10000, Threads: []ThreadSpec{{Role: "solo", Script: script}}}}
	}
	withCtx := func(j Job) Job {
		h := *j.Hist
		h.Threads = append([]ThreadSpec(nil), h.Threads...)
		for i := range h.Threads {
			h.Threads[i].Ctx = true
		}
		j.Hist = &h
		return j
	}
	all := corpusBase(solo)
	// the payload filter and every other sequential behaviour again on states that have a context
	all = append(all, withCtx(all[0]), withCtx(all[1]), withCtx(all[3]))
	// receive / select at every register height around the limit, after errors raised on a full registry
	return append(all, edgeCorpus()...)
}

func corpusBase(solo func(caps []int, script string) Job) []Job {
	return []Job{
		// every sequential behaviour of the library once (buffer, closure, errors, filter, select, handlers)
		solo([]int{2}, `
op_send(1, 1) op_send(1, nil) op_recv(1) op_recv(1)
op_send(1, function() end) op_send(1, setmetatable({id = 1}, {})) op_send(1, {id = 2, function() end})
op_send(1, coroutine.create(function() end)) op_send(1, newud()) op_send(1, CH[1])
op_recv(1) op_recv(1)
op_select({{"recv", 1}, {"default"}}) op_select({{"send", 1, 5}, {"default"}})
op_select({{"send", 1, function() end}, {"default"}})
op_select({{"send", 1, 6, h = true}, {"default"}}) op_select({{"send", 1, 7, h = true}, {"default", h = true}})
op_select({{"recv", 1, h = true}, {"default"}})
op_close(1) op_close(1) op_send(1, 1) op_select({{"send", 1, 5}, {"default"}})
op_select({{"recv", 1}, {"default"}}) op_select({{"recv", 1}, {"default"}}) op_recv(1)
`),
		solo([]int{0}, `op_select({{"recv", 1}, {"send", 1, 1}, {"default"}}) op_close(1) op_recv(1) op_select({{"recv", 1, h = true}})`),
		// unbuffered ping-pong between two states
		{Kind: "hist", Hist: &HistSpec{Class: "mpmc", Caps: []int{0, 0}, Procs: 2, TimeoutMs: 8000, Threads: []ThreadSpec{
			{Role: "producer", Script: "for i = 1, 6 do if not op_send(1, 1000 + i) then break end local ok, v = op_recv(2) if not ok then break end end\n"},
			{Role: "consumer", Script: "while true do local ok, v = op_recv(1) if not ok then break end if not op_send(2, 2000 + v) then break end end\n"},
			{Role: "janitor", Script: "wait_producers() op_close(1) op_close(2)\n"},
		}}},
		// the README's receiver/sender/quit shape
		{Kind: "hist", Hist: &HistSpec{Class: "mpmc", Caps: []int{0, 0}, Procs: 4, TimeoutMs: 8000, Threads: []ThreadSpec{
			{Role: "consumer", Script: `local exit = false
while not exit do
  local ok, idx, v, rok = op_select({{"recv", 1, h = true}, {"recv", 2, h = true}})
  if not ok or idx == 2 or not rok then exit = true end
end
`},
			{Role: "producer", Script: "op_send(1, \"1\") op_send(1, \"2\") op_send(1, \"3\") op_send(2, true)\n"},
			{Role: "janitor", Script: "wait_producers() op_close(1) op_close(2)\n"},
		}}},
		// known finding C13-1: a table (and whatever it contains) is passed by reference, so two
		// states that both keep using it race on interpreter-owned memory
		{Kind: "share", KF: []string{"C13-1"}, Share: &ShareSpec{
			Sender:   "local t = {n = 0}\nch:send(t)\nt.x = 1\n",
			Receiver: "local ok, t = ch:receive()\nlocal y = t.x\n"}},
		// one shared prototype, several states, churn
		{Kind: "iso", Iso: &IsoSpec{Src: fmt.Sprintf(strings.Join(snippets, "\n"), 40, 7, 12), Other: otherSrc, N: 8, Churn: 3, Procs: 16, TimeoutMs: 60000}},
		// a consumer that receives with its registry / call stack at the limit and retries: a
		// receive that fails must not have taken a value
		{Kind: "limit", Limit: &LimitSpec{Mode: "receive", Fat: true, N: 600, Cap: 0, RegSize: 1024, CallStack: 256, TimeoutMs: 60000}},
		{Kind: "limit", Limit: &LimitSpec{Mode: "select", Fat: true, N: 600, Cap: 2, RegSize: 512, RegMax: 1536, CallStack: 256, TimeoutMs: 60000}},
		{Kind: "limit", Limit: &LimitSpec{Mode: "handler", Fat: false, N: 400, Cap: 0, RegSize: 5120, CallStack: 48, TimeoutMs: 60000}},
		{Kind: "limit", Limit: &LimitSpec{Mode: "handler", Fat: true, N: 400, Cap: 1, RegSize: 1024, CallStack: 256, TimeoutMs: 60000}},
		// the same after (and between) errors raised while the consumer's registry was completely full
		{Kind: "limit", Limit: &LimitSpec{Mode: "receive", Fat: true, N: 600, Cap: 0, RegSize: 512, CallStack: 256, TimeoutMs: 60000, History: []string{"byte", "rec", "unpack", "co"}}},
		{Kind: "limit", Limit: &LimitSpec{Mode: "select", Fat: true, N: 400, Cap: 1, RegSize: 384, RegMax: 640, CallStack: 256, TimeoutMs: 60000, History: []string{"unpack", "byte"}}},
		// channel.make with sizes from harmless to absurd, under pcall, next to another state
		{Kind: "make", Make: &MakeSpec{Sizes: []int64{0, 1, 5, 1024, 1 << 20, 67108865, 1 << 33, 1 << 40, 1 << 44, 1 << 53, 1 << 62, -1, -(1 << 40)}, TimeoutMs: 30000}},
		// per-state library objects: a state that changes every table it can reach (channel
		// method table, library tables, string metatable, ...) must not be visible to any other state
		{Kind: "lib", Lib: &LibSpec{Tag: "corpus", Mutators: 3, Inspect: 3, Rounds: 3, Procs: 8, TimeoutMs: 60000}},
		// states sharing a prototype take different callees through one anonymous call site and
		// read the stack trace of the uncaught error (names come from Proto.DbgCalls)
		{Kind: "iso", Iso: &IsoSpec{Src: "local function f1() error(\"boom\") end\nlocal function f2() error(\"boom\") end\nlocal function f3() return f1() end\n" +
			"local fs = {f1, f2, f3}\nemit(\"before\")\nfs[VARIANT]()\nreturn 0\n", Other: otherSrc, N: 9, Churn: 2, Procs: 4, TimeoutMs: 60000}},
	}
}

// several consumers (most of them with a context) compete for the values of a small buffered
// channel that producers keep non-empty
func genStress(r *lib.Rand, n int) *StressSpec {
	// measured on a tree with a check-then-act receive (seeded C13-3): 14 of 15 runs of 15 000
	// values showed a false closure report with these parameters (work > 0, 2-3 producers, small
	// capacity); work = 0 or one producer hit much less often
	nc := r.Range(8, 12)
	st := &StressSpec{Producers: r.Range(2, 3), Consumers: nc, Cap: []int{1, 1, 2, 2, 3}[r.Intn(5)],
		Work: []int{3, 10, 30}[r.Intn(3)], Procs: []int{4, 8, 16, 16}[r.Intn(4)], TimeoutMs: 120000}
	for i := 0; i < nc; i++ {
		st.Ctx = append(st.Ctx, i == 0 || r.Chance(80))
	}
	st.N = n / st.Producers
	return st
}

func genJobs(r *lib.Rand, tier string) []Job {
	nm, ns, ni, states, churn := 220, 80, 50, 8, 3
	if tier == "thorough" {
		nm, ns, ni, states, churn = 4000, 1000, 500, 32, 6
	}
	var js []Job
	for i := 0; i < ns; i++ {
		js = append(js, Job{Kind: "hist", Hist: genSolo(r.Fork())})
	}
	for i := 0; i < nm; i++ {
		js = append(js, Job{Kind: "hist", Hist: genMpmc(r.Fork())})
	}
	for i := 0; i < ni; i++ {
		js = append(js, Job{Kind: "iso", Iso: genIso(r.Fork(), states, churn)})
	}
	nst, vol := 5, 15000
	if tier == "thorough" {
		nst, vol = 40, 60000
	}
	for i := 0; i < nst; i++ {
		js = append(js, Job{Kind: "stress", Stress: genStress(r.Fork(), vol)})
	}
	for i := 0; i < 2; i++ {
		var sizes []int64
		for k := r.Range(4, 10); k > 0; k-- {
			switch r.Pick(3, 2, 3, 1) {
			case 0:
				sizes = append(sizes, int64(r.Range(0, 4096)))
			case 1:
				sizes = append(sizes, -int64(r.U64()>>uint(r.Range(1, 62)))-1)
			case 2:
				sizes = append(sizes, int64(1)<<uint(r.Range(32, 62))+int64(r.Intn(1000)))
			case 3:
				sizes = append(sizes, 67108864+int64(r.Range(1, 1000)))
			}
		}
		js = append(js, Job{Kind: "make", Make: &MakeSpec{Sizes: sizes, TimeoutMs: 30000}})
	}
	for i := 0; i < 3; i++ {
		l := &LimitSpec{Mode: []string{"receive", "select", "handler"}[r.Intn(3)], Fat: r.Chance(70), N: r.Range(200, 600), Cap: r.Pick(2, 1, 1),
			RegSize: 256 * r.Range(2, 6), CallStack: 256, TimeoutMs: 60000}
		if r.Bool() {
			l.RegMax = l.RegSize + 32*r.Range(1, 20)
		}
		if !l.Fat {
			l.RegSize, l.RegMax, l.CallStack = 5120, 0, r.Range(24, 80)
		}
		if r.Chance(70) {
			hs := []string{"byte", "unpack", "rec", "co"}
			for k := r.Range(1, 3); k > 0; k-- {
				l.History = append(l.History, hs[r.Intn(len(hs))])
			}
		}
		js = append(js, Job{Kind: "limit", Limit: l})
	}
	nedge := 6
	if tier == "thorough" {
		nedge = 80
	}
	for i := 0; i < nedge; i++ {
		js = append(js, genEdge(r.Fork()))
	}
	nlib := 3
	if tier == "thorough" {
		nlib = 30
	}
	for i := 0; i < nlib; i++ {
		js = append(js, Job{Kind: "lib", Lib: &LibSpec{Tag: fmt.Sprintf("t%x", r.U64()&0xffffff), Mutators: r.Range(2, 4), Inspect: r.Range(2, 4),
			Rounds: r.Range(2, 4), Procs: procPool[1+r.Intn(len(procPool)-1)], TimeoutMs: 60000}})
	}
	return js
}
