package main

import (
	"verifh/lib"
)

// ---------- small constructors ----------

func req(m int) Action             { return Action{A: "require", M: m} }
func preq(m int) Action            { return Action{A: "prequire", M: m} }
func reqT(t string, m int) Action  { return Action{A: "require", M: m, T: t} }
func preqT(t string, m int) Action { return Action{A: "prequire", M: m, T: t} }
func setl(e VExp) Action           { return Action{A: "setloaded", E: &e} }
func ret(e VExp) Action            { return Action{A: "return", E: &e} }
func retNothing() Action           { return Action{A: "returnnothing"} }
func fail() Action                 { return Action{A: "fail"} }
func module() Action               { return Action{A: "module"} }
func moduleSeeAll() Action         { return Action{A: "module", SeeAll: true} }
func eNil() VExp                   { return VExp{K: "nil"} }
func eFalse() VExp                 { return VExp{K: "false"} }
func eTrue() VExp                  { return VExp{K: "true"} }
func eStr(k int) VExp              { return VExp{K: "str", N: k} }
func eTab(k int) VExp              { return VExp{K: "tab", N: k} }
func sc(a ...Action) []Action {
	if a == nil {
		return []Action{}
	}
	return a
}

func hReq(n int) Op { return Op{Op: "require", N: n} }
func hPre(n int, kind string, s []Action) Op {
	return Op{Op: "preload", N: n, Loader: &Loader{Kind: kind, Script: s}}
}
func hPreNone(n int) Op               { return Op{Op: "preload", N: n} }
func hFile(d, n int, s []Action) Op   { return Op{Op: "file", D: d, N: n, File: &File{Script: s}} }
func hBroken(d, n int) Op             { return Op{Op: "file", D: d, N: n, File: &File{Broken: true}} }
func hUnreadable(d, n int) Op         { return Op{Op: "file", D: d, N: n, File: &File{Unreadable: true}} }
func hFileNone(d, n int) Op           { return Op{Op: "file", D: d, N: n} }
func hPath(p ...int) Op               { return Op{Op: "path", Path: p} }
func hClear(n int) Op                 { return Op{Op: "clear", N: n} }
func hSetG(n int, g string, k int) Op { return Op{Op: "setglobal", N: n, G: g, GK: k} }
func hGetG(n int) Op                  { return Op{Op: "getglobal", N: n} }
func hGetL(n int) Op                  { return Op{Op: "getloaded", N: n} }
func hNewPre(keep ...int) Op {
	if keep == nil {
		keep = []int{}
	}
	return Op{Op: "newpreload", Keep: keep}
}
func onThread(th int, o Op) Op { o.Th = th; return o }
func hReg(n int, fs ...int) Op {
	if fs == nil {
		fs = []int{}
	}
	return Op{Op: "register", N: n, Fs: fs}
}

// ---------- corpus: witnesses of the repaired defects and the shapes the theorems talk about ----------

func corpus(w *lib.Writer, env *envT) {
	hs := [][]Op{
		// C20-1 (fixed 449e27a): loader sets package.loaded[n] and returns a different value
		{hPre(0, "lua", sc(setl(eStr(0)), ret(eStr(1)))), hReq(0), hReq(0), hGetL(0)},
		{hPre(0, "lua", sc(setl(eStr(0)), ret(eFalse()))), hReq(0), hGetL(0), hReq(0)},
		{hPre(0, "go", sc(setl(eTab(0)), ret(eTab(1)))), hReq(0), hReq(0), hGetL(0)},
		{hFile(0, 0, sc(module(), ret(eTab(1)))), hReq(0), hReq(0), hGetG(0), hGetL(0)},
		// C20-2 (fixed 4394a77): second RegisterModule on an existing module
		{hReg(3, 1), hReg(3, 2), hReq(3), hGetG(3)},
		{hPre(1, "lua", sc(ret(eTab(0)))), hReq(1), hReg(1, 0, 3), hReq(1), hGetG(1)},
		// once / cached / true
		{hPre(0, "lua", sc()), hReq(0), hReq(0), hGetL(0)},
		{hPre(0, "lua", sc(ret(eTab(0)))), hReq(0), hReq(0), hClear(0), hReq(0)},
		{hPre(0, "lua", sc(setl(eTab(0)))), hReq(0), hReq(0)},
		{hPre(0, "lua", sc(ret(eFalse()))), hReq(0), hReq(0)},
		{hPre(0, "lua", sc(setl(eNil()))), hReq(0), hReq(0), hGetL(0)},
		{hPre(0, "lua", sc(retNothing())), hReq(0), hReq(0)},
		// preload before path, directory order, path change
		{hFile(0, 0, sc(ret(eStr(0)))), hPre(0, "lua", sc(ret(eStr(1)))), hReq(0)},
		{hFile(1, 0, sc(ret(eStr(0)))), hReq(0), hClear(0), hFile(0, 0, sc(ret(eStr(1)))), hReq(0)},
		{hFile(0, 2, sc(ret(eStr(0)))), hFile(1, 2, sc(ret(eStr(1)))), hPath(1, 0), hReq(2), hClear(2), hPath(0), hReq(2)},
		{hFile(2, 1, sc(ret(eTab(0)))), hReq(1), hPath(0, 2), hReq(1), hReq(1)},
		{hFile(0, 0, sc(ret(eStr(0)))), hPre(0, "go", sc(ret(eStr(1)))), hReq(0), hPreNone(0), hClear(0), hReq(0)},
		// loops: direct, 2-cycle, 3-cycle, through pcall, through files and Go loaders
		{hPre(0, "lua", sc(req(0))), hReq(0), hReq(0), hGetL(0)},
		{hPre(0, "lua", sc(req(1))), hPre(1, "lua", sc(req(0))), hReq(0), hReq(1), hReq(0), hGetL(0), hGetL(1)},
		{hPre(0, "lua", sc(req(1))), hFile(0, 1, sc(req(2))), hPre(2, "go", sc(req(0))), hReq(0), hGetL(0), hGetL(1), hGetL(2), hReq(2)},
		{hPre(0, "lua", sc(preq(0), ret(eTab(0)))), hReq(0), hReq(0)},
		{hPre(0, "go", sc(preq(1), ret(eTab(0)))), hPre(1, "lua", sc(req(0))), hReq(0), hGetL(1), hReq(1), hReq(0)},
		{hPre(0, "lua", sc(setl(eTab(0)), req(1))), hPre(1, "lua", sc(req(0), ret(eTab(1)))), hReq(0), hReq(1)},
		// failures: sentinel stays; search failures leave nothing behind
		{hPre(0, "lua", sc(fail())), hReq(0), hReq(0), hGetL(0), hClear(0), hReq(0)},
		{hPre(0, "go", sc(fail())), hReq(0), hReq(0), hGetL(0)},
		{hPre(0, "lua", sc(req(1))), hReq(0), hGetL(0), hPre(1, "lua", sc()), hReq(0), hClear(0), hReq(0)},
		{hBroken(0, 0), hFile(1, 0, sc()), hReq(0), hGetL(0), hFileNone(0, 0), hReq(0)},
		// hunt2 obs-1: a candidate that exists but cannot be opened is listed and skipped (5.1 readable())
		{hUnreadable(0, 0), hFile(1, 0, sc(ret(eStr(0)))), hReq(0), hReq(0), hGetL(0)},
		{hUnreadable(0, 2), hUnreadable(1, 2), hReq(2), hGetL(2), hFile(1, 2, sc(ret(eTab(0)))), hReq(2), hUnreadable(1, 2), hReq(2), hClear(2), hReq(2)},
		{hUnreadable(1, 1), hPre(0, "lua", sc(req(1), ret(eStr(1)))), hReq(0), hGetL(0), hGetL(1)},
		{hFile(0, 0, sc(req(1))), hBroken(1, 1), hReq(0), hGetL(0), hGetL(1), hReq(1), hReq(0)},
		// stat failing with something else than "does not exist" still means "not there": a path entry
		// running through a regular file (ENOTDIR), a name too long for a file name (ENAMETOOLONG)
		{hPath(3, 0, 1), hReq(2), hFile(1, 2, sc(ret(eStr(0)))), hReq(2), hGetL(2)},
		{hPath(3), hReq(2), hPre(2, "lua", sc()), hReq(2)},
		{hReq(4), hPath(3, 1), hReq(4), hPre(4, "lua", sc(ret(eTab(0)))), hReq(4), hReq(4)},
		{hReq(0), hReq(2), hPath(2), hReq(1), hPath(1, 1, 0), hReq(3), hFile(0, 0, sc()), hReq(0)},
		{hPre(0, "lua", sc(setl(eStr(0)), fail())), hReq(0), hReq(0)},
		// hunt obs-3: package.seeall on a module table with a protected metatable (t1)
		{hPre(0, "lua", sc(setl(eTab(1)), moduleSeeAll())), hReq(0), hGetL(0), hReq(0), hGetG(0)},
		{hFile(0, 0, sc(setl(eTab(0)), moduleSeeAll(), ret(eNil()))), hReq(0), hReq(0)},
		{hPre(0, "lua", sc(moduleSeeAll(), moduleSeeAll())), hReq(0), hGetG(0), hReq(0)},
		// module() and host registration, conflicts
		{hPre(0, "lua", sc(module())), hReq(0), hGetG(0), hGetL(0), hReq(0)},
		{hPre(2, "lua", sc(module())), hReq(2), hGetG(2), hReq(2)},
		{hPre(0, "go", sc(module())), hReq(0), hGetG(0), hGetL(0), hReq(0)},
		{hSetG(0, "str", 0), hPre(0, "lua", sc(module())), hReq(0), hGetL(0), hReq(0)},
		{hSetG(1, "str", 1), hReg(1, 0), hGetL(1), hSetG(1, "nil", 0), hReg(1, 0), hGetG(1), hReq(1)},
		{hSetG(2, "tab", 0), hReg(2, 1), hGetG(2), hReq(2), hPre(2, "lua", sc(ret(eStr(0)))), hReq(2)},
		{hReg(0), hPre(0, "lua", sc(module(), ret(eNil()))), hClear(0), hReq(0), hGetG(0)},
		{hPre(0, "lua", sc(ret(eStr(0)))), hReq(0), hReg(0, 2), hReq(0), hGetG(0)},
	}
	// wave 5: a require cycle that crosses a coroutine boundary is the same loop error; a module
	// loaded on one thread is cached for all (the sentinel and package.loaded belong to the state)
	hs = append(hs,
		[]Op{hPre(0, "lua", sc(reqT("co", 0))), hReq(0), hGetL(0), hReq(0)},
		[]Op{hPre(0, "lua", sc(preqT("co", 0), ret(eTab(0)))), hReq(0), hReq(0)},
		[]Op{hPre(0, "lua", sc(reqT("cog", 1))), hFile(0, 1, sc(preqT("cog", 0), reqT("co", 0))), hReq(0), hGetL(0), hGetL(1), hReq(1)},
		[]Op{hPre(0, "go", sc(reqT("co", 0))), hReq(0), hGetL(0), hReq(0)},
		[]Op{hPre(0, "go", sc(preqT("cog", 1), ret(eTab(0)))), hPre(1, "lua", sc(reqT("co", 0))), hReq(0), hGetL(1), hReq(1), hReq(0)},
		[]Op{hPre(0, "lua", sc(reqT("co", 1), ret(eTab(0)))), hPre(1, "go", sc(reqT("cog", 2))), hFile(1, 2, sc(ret(eTab(1)))), hReq(0), hReq(2), hReq(1), hReq(0)},
		[]Op{hPre(0, "lua", sc(fail())), onThread(1, hReq(0)), hReq(0), onThread(2, hReq(0)), hGetL(0)},
		[]Op{hPre(0, "lua", sc(req(0))), onThread(1, hReq(0)), hReq(0), hGetL(0)},
		[]Op{hPre(0, "lua", sc(ret(eTab(0)))), onThread(1, hReq(0)), hReq(0), onThread(2, hReq(0)), onThread(1, hReg(1, 2)), hReq(1), hGetG(1)},
		[]Op{onThread(1, hPre(0, "go", sc(ret(eStr(0))))), hReq(0), onThread(2, hPre(1, "go", sc(req(0), ret(eTab(1))))), onThread(1, hReq(1)), hReq(1)},
	)
	// wave 5: a script assigns a new table to package.preload; PreloadModule and package.preload[n]=f
	// afterwards must register where the searcher looks (host registrations after the replacement)
	hs = append(hs,
		[]Op{hNewPre(), hPre(0, "go", sc(ret(eStr(0)))), hReq(0), hReq(0)},
		[]Op{hFile(0, 0, sc(ret(eStr(1)))), hNewPre(), hPre(0, "go", sc(ret(eStr(0)))), hReq(0), hGetL(0)},
		[]Op{hPre(0, "go", sc(ret(eStr(0)))), hPre(1, "lua", sc(ret(eStr(1)))), hNewPre(1), hReq(0), hReq(1), hPre(0, "go", sc(ret(eTab(0)))), hReq(0), hReq(0)},
		[]Op{hPre(0, "lua", sc(req(1), ret(eTab(0)))), hNewPre(0), hPre(1, "go", sc(ret(eTab(1)))), hReq(0), hReq(1), hPreNone(1), hClear(1), hReq(1)},
		[]Op{hPre(0, "go", sc()), hNewPre(0), hNewPre(0), hNewPre(), hReq(0), onThread(1, hPre(0, "go", sc(ret(eTrue())))), onThread(2, hReq(0))},
		[]Op{hPre(0, "lua", sc(req(1), ret(eStr(0)))), hFile(1, 1, sc(ret(eStr(1)))), hNewPre(0), hPre(1, "go", sc(fail())), hReq(0), hGetL(0), hGetL(1)},
	)
	for _, h := range hs {
		runCase(w, env, in{Ops: h})
	}
	// unguarded but terminating (hand-checked): the sentinel is removed before a nested load
	runCase(w, env, in{AllowUnguarded: true, Ops: []Op{
		hPre(0, "lua", sc(setl(eNil()), req(1))), hPre(1, "lua", sc(ret(eTab(0)))), hReq(0), hGetL(0), hReq(0)}})
	runCase(w, env, in{AllowUnguarded: true, Ops: []Op{
		hPre(0, "lua", sc(setl(eFalse()), preq(1), ret(eTab(0)))), hPre(1, "lua", sc(req(0))), hSetG(0, "nil", 0), hReq(1), hGetL(0), hGetL(1)}})
}

// ---------- bounded enumeration ----------

func alphabet() []Action {
	as := []Action{}
	for m := 0; m < 3; m++ {
		as = append(as, req(m))
	}
	for m := 0; m < 3; m++ {
		as = append(as, preq(m))
	}
	// the same on another coroutine of the state
	for m := 0; m < 3; m++ {
		as = append(as, reqT([]string{"co", "cog", "co"}[m], m))
	}
	for m := 0; m < 3; m++ {
		as = append(as, preqT([]string{"cog", "co", "cog"}[m], m))
	}
	for _, e := range []VExp{eNil(), eFalse(), eStr(0), eTab(0)} {
		as = append(as, setl(e))
	}
	as = append(as, module())
	for _, e := range []VExp{eNil(), eFalse(), eTrue(), eStr(1), eTab(0), eTab(1)} {
		as = append(as, ret(e))
	}
	as = append(as, retNothing(), fail())
	return as
}

func allScripts() [][]Action {
	al := alphabet()
	out := [][]Action{sc()}
	for _, a := range al {
		out = append(out, sc(a))
	}
	for _, a := range al {
		for _, b := range al {
			if s := sc(a, b); guarded(s) {
				out = append(out, s)
			}
		}
	}
	return out
}

type pairT struct {
	m1, m2 []Action // nil = module absent
}

func companionPairs() []pairT {
	return []pairT{
		{sc(ret(eTab(0))), sc()},
		{sc(req(0)), sc(req(1))},
		{sc(req(2), ret(eStr(0))), sc(fail())},
		{sc(preq(0), setl(eTab(0))), sc(req(0), ret(eTab(1)))},
		{sc(module()), sc(setl(eFalse()))},
		{nil, sc(preq(1), ret(eStr(1)))},
		{sc(reqT("co", 0)), sc(preqT("co", 1), reqT("cog", 0))},
		{sc(preqT("cog", 0), setl(eTab(0))), sc(reqT("co", 0), ret(eTab(1)))},
	}
}

// install kinds for module 0's script; module 1 lives in a file of directory 1, module 2 in package.preload
func setup(kind int, s0 []Action, p pairT) []Op {
	ops := []Op{}
	switch kind {
	case 0:
		ops = append(ops, hPre(0, "lua", s0))
	case 1:
		ops = append(ops, hPre(0, "go", s0))
	case 2:
		ops = append(ops, hFile(0, 0, s0))
	case 3: // in the second directory, shadowing nothing; a broken decoy under another name
		ops = append(ops, hFile(1, 0, s0), hBroken(0, 3))
	}
	if p.m1 != nil {
		ops = append(ops, hFile(1, 1, p.m1))
	}
	if p.m2 != nil {
		ops = append(ops, hPre(2, "lua", p.m2))
	}
	return ops
}

func histOps(code int) []Op { // code in [0,81): four requires over names 0..2, then the final package.loaded
	ops := []Op{}
	for i := 0; i < 4; i++ {
		ops = append(ops, hReq(code%3))
		code /= 3
	}
	return append(ops, hGetL(0), hGetL(1), hGetL(2))
}

func genEnum(w *lib.Writer, env *envT, r *lib.Rand, tier string) {
	scripts := allScripts()
	pairs := companionPairs()
	w.Meta.Extra = map[string]any{"enum_scripts": len(scripts), "enum_pairs": len(pairs), "enum_kinds": 4, "enum_histories": 81}
	one := func(si, pi, kind, hc int) {
		ops := append(setup(kind, scripts[si], pairs[pi]), histOps(hc)...)
		runCase(w, env, in{Ops: ops})
	}
	if tier != "thorough" {
		for k := 0; k < 1900; k++ {
			one(r.Intn(len(scripts)), r.Intn(len(pairs)), r.Intn(4), r.Intn(81))
		}
		return
	}
	// exhaustive slice: every script x every history, Lua preload, the cyclic companions
	for si := range scripts {
		for hc := 0; hc < 81; hc++ {
			one(si, 1, 0, hc)
		}
	}
	// every script x pair x kind with 4 sampled histories
	for si := range scripts {
		for pi := range pairs {
			for kind := 0; kind < 4; kind++ {
				for q := 0; q < 4; q++ {
					one(si, pi, kind, r.Intn(81))
				}
			}
		}
	}
}

// ---------- random longer histories ----------

func randVExp(r *lib.Rand, falsyOK bool) VExp {
	for {
		var e VExp
		switch r.Pick(2, 2, 1, 3, 4) {
		case 0:
			e = eNil()
		case 1:
			e = eFalse()
		case 2:
			e = eTrue()
		case 3:
			e = eStr(r.Intn(2))
		default:
			e = eTab(r.Intn(2))
		}
		if falsyOK || (e.K != "nil" && e.K != "false") {
			return e
		}
	}
}

// a quarter of the nested requires run on another coroutine of the state
func randThread(r *lib.Rand) string {
	return []string{"", "", "", "", "", "", "co", "cog"}[r.Intn(8)]
}

// one host call in seven is issued on one of the host's two extra threads
func randTh(r *lib.Rand) int {
	if r.Chance(14) {
		return 1 + r.Intn(2)
	}
	return 0
}

func randKeep(r *lib.Rand, nn int) []int {
	keep := []int{}
	switch r.Pick(3, 2, 3) {
	case 0: // package.preload = {}
	case 1: // a copy
		for m := 0; m < nn; m++ {
			keep = append(keep, m)
		}
	default:
		for m := 0; m < nn; m++ {
			if r.Bool() {
				keep = append(keep, m)
			}
		}
	}
	return keep
}

func randScript(r *lib.Rand, nnames int) []Action {
	for {
		n := r.Pick(1, 3, 4, 3, 2)
		s := sc()
		for i := 0; i < n; i++ {
			switch r.Pick(5, 3, 3, 2, 4, 1, 2) {
			case 0:
				s = append(s, reqT(randThread(r), r.Intn(nnames)))
			case 1:
				s = append(s, preqT(randThread(r), r.Intn(nnames)))
			case 2:
				s = append(s, setl(randVExp(r, true)))
			case 3:
				if r.Bool() {
					s = append(s, moduleSeeAll())
				} else {
					s = append(s, module())
				}
			case 4:
				s = append(s, ret(randVExp(r, true)))
			case 5:
				s = append(s, retNothing())
			case 6:
				s = append(s, fail())
			}
		}
		// a return/fail in the middle hides the rest: keep most scripts straight-line
		if guarded(s) {
			return s
		}
	}
}

func genRandom(w *lib.Writer, env *envT, r *lib.Rand, tier string) {
	n := 800
	if tier == "thorough" {
		n = 20000
	}
	for k := 0; k < n; k++ {
		cr := r.Fork()
		nn := cr.Range(2, 5)
		ops := []Op{}
		// mostly-valid: start by installing loaders for most names
		for m := 0; m < nn; m++ {
			switch cr.Pick(4, 2, 3, 1) {
			case 0:
				ops = append(ops, hPre(m, "lua", randScript(cr, nn)))
			case 1:
				ops = append(ops, hPre(m, "go", randScript(cr, nn)))
			case 2:
				ops = append(ops, hFile(cr.Intn(2), m, randScript(cr, nn)))
			}
		}
		// boundary streams on purpose: a non-table global in the way of module()/RegisterModule,
		// a file that does not parse in front of / behind a good one
		if cr.Chance(15) {
			ops = append(ops, hSetG(cr.Intn(nn), "str", cr.Intn(2)))
		}
		if cr.Chance(15) {
			ops = append(ops, hBroken(cr.Intn(2), cr.Intn(nn)))
		}
		if cr.Chance(15) {
			ops = append(ops, hUnreadable(0, cr.Intn(nn)))
		}
		steps := cr.Range(5, 14)
		for i := 0; i < steps; i++ {
			m := cr.Intn(nn)
			switch cr.Pick(42, 8, 4, 8, 5, 3, 8, 7, 6, 6, 4, 3) {
			case 11:
				ops = append(ops, hNewPre(randKeep(cr, nn)...))
			case 0:
				ops = append(ops, onThread(randTh(cr), hReq(m)))
			case 1:
				kind := "lua"
				if cr.Chance(35) {
					kind = "go"
				}
				ops = append(ops, onThread(randTh(cr), hPre(m, kind, randScript(cr, nn))))
			case 2:
				ops = append(ops, hPreNone(m))
			case 3:
				ops = append(ops, hFile(cr.Intn(nDirs), m, randScript(cr, nn)))
			case 4:
				if cr.Chance(50) {
					ops = append(ops, hUnreadable(cr.Intn(nDirs), m))
				} else {
					ops = append(ops, hBroken(cr.Intn(nDirs), m))
				}
			case 5:
				ops = append(ops, hFileNone(cr.Intn(nDirs), m))
			case 6:
				ops = append(ops, hClear(m))
			case 7:
				ops = append(ops, hGetL(m))
			case 8:
				fs := []int{}
				for f := 0; f < 4; f++ {
					if cr.Chance(35) {
						fs = append(fs, f)
					}
				}
				ops = append(ops, onThread(randTh(cr), hReg(m, fs...)))
			case 9:
				ops = append(ops, hSetG(m, []string{"nil", "str", "str", "tab"}[cr.Intn(4)], cr.Intn(2)))
			case 10:
				if cr.Chance(60) {
					ops = append(ops, hGetG(m))
				} else {
					p := []int{}
					for j := cr.Range(1, 3); j > 0; j-- {
						p = append(p, cr.Intn(nDirs))
					}
					ops = append(ops, hPath(p...))
				}
			}
		}
		runCase(w, env, in{Ops: ops})
	}
}

// ---------- hosts that open the libraries themselves, in any order ----------

const (
	idPkg    = 10
	idString = 11
	idTable  = 12
)

func iBase() IOp     { return IOp{Op: "openbase"} }
func iPkg() IOp      { return IOp{Op: "openpackage"} }
func iLib(n int) IOp { return IOp{Op: "openlib", N: n} }
func iReg(n int, fs ...int) IOp {
	if fs == nil {
		fs = []int{}
	}
	return IOp{Op: "register", N: n, Fs: fs}
}
func iPre(n int, kind string, s []Action) IOp {
	return IOp{Op: "preload", N: n, Loader: &Loader{Kind: kind, Script: s}}
}

func corpusInit(w *lib.Writer, env *envT) {
	cs := []in{
		// modules registered before OpenPackage must survive it (seeded regression C20-4)
		{Init: []IOp{iReg(3, 1), iBase(), iPkg()}, Ops: []Op{hReq(3), hGetG(3), hGetL(3), hReq(idPkg), hGetG(idPkg)}},
		{Init: []IOp{iLib(idString), iLib(idTable), iReg(0), iPkg(), iBase()},
			Ops: []Op{hReq(idString), hGetG(idString), hReq(idTable), hGetG(idTable), hReq(0), hReq(idPkg), hGetL(idPkg)}},
		{Init: []IOp{iPkg(), iBase(), iLib(idString), iReg(1, 0, 2), iPre(0, "go", sc(req(1), ret(eTab(0))))},
			Ops: []Op{hReq(0), hReq(1), hReq(idString), hReq(idPkg), hGetG(1)}},
		// PreloadModule before the package library is open is an error; afterwards it is found
		{Init: []IOp{iBase(), iPre(0, "go", sc(ret(eStr(0)))), iPkg(), iPre(1, "go", sc(ret(eStr(1))))},
			Ops: []Op{hReq(0), hReq(1)}},
		{Init: []IOp{iReg(idString, 1), iLib(idString), iReg(idPkg, 2), iPkg(), iBase(), iReg(idPkg, 3)},
			Ops: []Op{hReq(idString), hReq(idPkg), hReg(idString, 0), hReq(idString)}},
	}
	// hunt obs-1: a script assigns the global `package`; require, package.preload and PreloadModule
	// must keep working (Lua 5.1: the searchers use the package table as their environment)
	cs = append(cs,
		in{Init: []IOp{iBase(), iPkg(), iPre(0, "go", sc(ret(eStr(0))))},
			Ops: []Op{hSetG(idPkg, "str", 0), hReq(0), hReq(1), hPre(1, "go", sc(ret(eTab(0)))), hReq(1), hGetG(idPkg), hReq(idPkg)}},
		in{Init: []IOp{iPkg(), iBase()},
			Ops: []Op{hPre(0, "lua", sc(req(1), ret(eTab(0)))), hFile(1, 1, sc(ret(eStr(1)))), hSetG(idPkg, "nil", 0), hReq(0), hReq(2),
				hPre(2, "lua", sc()), hReq(2), hGetL(1), hReq(idPkg), hReg(idPkg, 1)}},
	)
	for _, c := range cs {
		runCase(w, env, c)
	}
}

func genInit(w *lib.Writer, env *envT, r *lib.Rand, tier string) {
	n := 300
	if tier == "thorough" {
		n = 6000
	}
	libs := []int{idPkg, idString, idTable}
	for k := 0; k < n; k++ {
		cr := r.Fork()
		init := []IOp{iBase(), iPkg()}
		registered := []int{idPkg}
		if cr.Chance(70) {
			init = append(init, iLib(idString))
			registered = append(registered, idString)
		}
		if cr.Chance(50) {
			init = append(init, iLib(idTable))
			registered = append(registered, idTable)
		}
		for j := cr.Range(1, 3); j > 0; j-- {
			m := cr.Intn(4)
			if cr.Chance(15) {
				m = libs[cr.Intn(3)]
			}
			fs := []int{}
			for f := 0; f < 4; f++ {
				if cr.Chance(30) {
					fs = append(fs, f)
				}
			}
			init = append(init, iReg(m, fs...))
			registered = append(registered, m)
		}
		for j := cr.Range(0, 2); j > 0; j-- {
			init = append(init, iPre(cr.Intn(4), "go", randScript(cr, 4)))
		}
		// any order
		for i := len(init) - 1; i > 0; i-- {
			j := cr.Intn(i + 1)
			init[i], init[j] = init[j], init[i]
		}
		ops := []Op{}
		for _, m := range registered {
			ops = append(ops, hReq(m), hGetG(m))
		}
		if cr.Chance(30) {
			ops = append(ops, hSetG(idPkg, []string{"nil", "str", "tab"}[cr.Intn(3)], cr.Intn(2)))
		}
		if cr.Chance(20) {
			ops = append(ops, hNewPre(randKeep(cr, 4)...))
		}
		for j := cr.Range(2, 6); j > 0; j-- {
			m := cr.Intn(4)
			switch cr.Pick(5, 2, 2, 2, 2, 1) {
			case 0:
				ops = append(ops, hReq(m))
			case 1:
				ops = append(ops, hGetL(registered[cr.Intn(len(registered))]))
			case 2:
				ops = append(ops, onThread(randTh(cr), hPre(m, []string{"lua", "go"}[cr.Intn(2)], randScript(cr, 4))))
			case 3:
				ops = append(ops, hReg(registered[cr.Intn(len(registered))], cr.Intn(4)))
			case 4:
				ops = append(ops, hReq(libs[cr.Intn(3)]))
			case 5:
				ops = append(ops, hClear(registered[cr.Intn(len(registered))]))
			}
		}
		runCase(w, env, in{Init: init, Ops: ops})
	}
}

// ---------- wave 5: re-bound tables and long nested loads ----------

// Histories around `package.preload = <new table>`: loaders installed, some loaded, the table
// replaced (empty / copy / part), then host (PreloadModule, on any thread) and Lua registrations
// and requires of everything; sometimes a second replacement.
func genRebind(w *lib.Writer, env *envT, r *lib.Rand, tier string) {
	n := 160
	if tier == "thorough" {
		n = 4000
	}
	for k := 0; k < n; k++ {
		cr := r.Fork()
		nn := cr.Range(2, 4)
		ops := []Op{}
		for m := 0; m < nn; m++ {
			switch cr.Pick(3, 3, 2, 2) {
			case 0:
				ops = append(ops, hPre(m, "lua", randScript(cr, nn)))
			case 1:
				ops = append(ops, onThread(randTh(cr), hPre(m, "go", randScript(cr, nn))))
			case 2:
				ops = append(ops, hFile(cr.Intn(2), m, randScript(cr, nn)))
			}
		}
		for j := cr.Range(0, 2); j > 0; j-- {
			ops = append(ops, hReq(cr.Intn(nn)))
		}
		rounds := 1
		if cr.Chance(25) {
			rounds = 2
		}
		for ; rounds > 0; rounds-- {
			ops = append(ops, hNewPre(randKeep(cr, nn)...))
			for j := cr.Range(2, 6); j > 0; j-- {
				m := cr.Intn(nn)
				switch cr.Pick(5, 4, 2, 1, 1, 1) {
				case 0:
					ops = append(ops, onThread(randTh(cr), hReq(m)))
				case 1:
					ops = append(ops, onThread(randTh(cr), hPre(m, "go", randScript(cr, nn))))
				case 2:
					ops = append(ops, hPre(m, "lua", randScript(cr, nn)))
				case 3:
					ops = append(ops, hClear(m))
				case 4:
					ops = append(ops, hPreNone(m))
				case 5:
					ops = append(ops, hFile(cr.Intn(2), m, randScript(cr, nn)))
				}
			}
			for m := 0; m < nn; m++ {
				ops = append(ops, hReq(m))
			}
		}
		for m := 0; m < nn; m++ {
			ops = append(ops, hGetL(m))
		}
		runCase(w, env, in{Ops: ops})
	}
}

// Long chains of nested loads (deeper than anything the other generators build): c0 requires c1
// requires ... c(L-1), over all nine ordinary names, every link on the same thread or across a
// coroutine, protected or not; the last one succeeds, fails, is missing, or requires a member of
// the chain again (a long cycle). Then everything is required again and package.loaded read.
func genChain(w *lib.Writer, env *envT, r *lib.Rand, tier string) {
	n := 60
	if tier == "thorough" {
		n = 1500
	}
	names := []int{0, 1, 2, 3, 5, 6, 7, 8, 9}
	for k := 0; k < n; k++ {
		cr := r.Fork()
		perm := append([]int{}, names...)
		for i := len(perm) - 1; i > 0; i-- {
			j := cr.Intn(i + 1)
			perm[i], perm[j] = perm[j], perm[i]
		}
		l := cr.Range(5, 9)
		c := perm[:l]
		ops := []Op{}
		install := func(m int, s []Action) {
			switch cr.Pick(3, 2, 3) {
			case 0:
				ops = append(ops, hPre(m, "lua", s))
			case 1:
				ops = append(ops, onThread(randTh(cr), hPre(m, "go", s)))
			default:
				ops = append(ops, hFile(cr.Intn(2), m, s))
			}
		}
		link := func(m int) Action {
			if cr.Chance(15) {
				return preqT(randThread(cr), m)
			}
			return reqT(randThread(cr), m)
		}
		for i := 0; i+1 < l; i++ {
			s := sc()
			if cr.Chance(20) {
				s = append(s, setl(randVExp(cr, false)))
			}
			s = append(s, link(c[i+1]))
			switch cr.Pick(3, 2, 1) {
			case 0:
				s = append(s, ret(randVExp(cr, true)))
			case 1:
			default:
				s = append(s, module())
			}
			install(c[i], s)
		}
		switch cr.Pick(3, 2, 2, 4) {
		case 0:
			install(c[l-1], sc(ret(eTab(0))))
		case 1:
			install(c[l-1], sc(fail()))
		case 2: // missing
		default:
			install(c[l-1], sc(link(c[cr.Intn(l)]), ret(eTab(1))))
		}
		ops = append(ops, onThread(randTh(cr), hReq(c[cr.Intn(2)])))
		for _, m := range c {
			ops = append(ops, hGetL(m))
		}
		for j := cr.Range(2, 5); j > 0; j-- {
			ops = append(ops, onThread(randTh(cr), hReq(c[cr.Intn(l)])))
		}
		runCase(w, env, in{Ops: ops})
	}
}
