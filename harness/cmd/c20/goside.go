package main

import (
	"fmt"
	"os"
	"strings"

	lua "github.com/yuin/gopher-lua"
	"verifh/lib"
)

// Go-side-only scenarios: behaviours the Lua 5.1 manual fixes for `require` that the Coq model does
// not represent (the model's searcher list is the constant [preload; path]). Expected results are
// stated here from the manual / loadlib.c; a wrong result is a Go-side failure of the check.
// They are tests, not theorems.
type scenario struct {
	name string
	src  string
	want func(res []lua.LValue, err error) string // "" = as expected
}

func wantValues(vals ...string) func([]lua.LValue, error) string {
	return func(res []lua.LValue, err error) string {
		if err != nil {
			return "raised: " + firstLine(err.Error())
		}
		if len(res) != len(vals) {
			return fmt.Sprintf("%d results, want %d", len(res), len(vals))
		}
		for i, v := range vals {
			if res[i].String() != v {
				return fmt.Sprintf("result %d is %q, want %q", i+1, res[i].String(), v)
			}
		}
		return ""
	}
}

func goSide(w *lib.Writer, env *envT) {
	env.resetFiles()
	p := env.filePath(0, 0)
	if err := os.WriteFile(p, []byte("return 'from-file'\n"), 0o644); err != nil {
		panic(err)
	}
	env.written[p] = true
	path := env.pathString([]int{0, 1})
	scs := []scenario{
		{"package.loaders replaced by a new table is what require uses (manual 5.3: 'By changing this array, we can change how require looks for a module')", `
			local old = package.loaders
			package.loaders = { function(n) if n:sub(1, 5) == "virt." then return function() return "virtual:" .. n end end return "\n\tno virt " .. n end, old[1] }
			package.preload.p = function() return "P" end
			return require("virt.x"), require("p")`, wantValues("virtual:virt.x", "P")},
		{"package.loaders = nil: require raises \"'package.loaders' must be a table\"", `
			package.loaders = nil
			local ok, e = pcall(require, "zzz")
			return tostring(ok), tostring(e:find("package.loaders", 1, true) ~= nil and e:find("must be a table", 1, true) ~= nil), tostring(e:find("not found", 1, true) ~= nil)`,
			wantValues("false", "true", "false")},
		{"package.loaders = {preload searcher}: files on package.path are no longer loaded", `
			package.preload.p = function() return "P" end
			package.loaders = { package.loaders[1] }
			local ok, e = pcall(require, "vhm0")
			return require("p"), tostring(ok), tostring(e:find("not found", 1, true) ~= nil), tostring(e:find(".lua", 1, true) ~= nil)`,
			wantValues("P", "false", "true", "false")},
		{"in-place edit of package.loaders is used", `
			table.insert(package.loaders, 1, function(n) if n == "z" then return function() return "Z" end end end)
			return require("z"), require("vhm0")`, wantValues("Z", "from-file")},
		{"package.seeall sets __index on the raw metatable, not on the __metatable value", `
			local fake = {}
			package.preload.m = function(name)
				local M = setmetatable({}, {__metatable = fake})
				package.loaded[name] = M
				module(name, package.seeall)
				function answer() return tostring(42) end
			end
			local m = require("m")
			return m.answer(), tostring(rawget(fake, "__index") == nil), tostring(require("m") == m)`, wantValues("42", "true", "true")},
		// hunt2 obs-2: the module's global is created by an ordinary assignment to the table of globals
		// (luaL_findtable stores with lua_settable), so a __newindex on _G sees it
		{"module() under a strict-globals guard on _G raises and creates nothing", `
			setmetatable(_G, {__newindex = function(t, k, v) error("new global '" .. k .. "' forbidden", 2) end})
			local ok, e = pcall(function() module("leak") end)
			return tostring(ok), tostring(rawget(_G, "leak") == nil), tostring(tostring(e):find("forbidden", 1, true) ~= nil)`,
			wantValues("false", "true", "true")},
		{"L.RegisterModule under a proxy _G goes through __newindex; the module is reachable by its global name and by require", `
			local SHADOW, log = {}, {}
			setmetatable(_G, {__newindex = function(t, k, v) log[#log + 1] = k; SHADOW[k] = v end, __index = SHADOW})
			local t = vh_register("hostmod")
			return tostring(log[1]), tostring(SHADOW.hostmod == t), tostring(rawget(_G, "hostmod") == nil), tostring(require("hostmod") == t), tostring(hostmod == t)`,
			wantValues("hostmod", "true", "true", "true", "true")},
		// wave 5: re-bound fields of the package table. require, module and RegisterModule use the
		// registry's _LOADED (ll_require / luaL_findtable(REGISTRY, "_LOADED")): assigning a new table to
		// package.loaded neither empties the cache nor redirects registrations
		{"package.loaded = {} does not drop the cache: cached value identical, loader not run again, module()/RegisterModule still register where require looks", `
			local require, package, tostring, next, module, vh_register = require, package, tostring, next, module, vh_register
			local n = 0
			package.preload.m = function() n = n + 1; return {n} end
			local m = require("m")
			local real = package.loaded
			package.loaded = {}
			local same = require("m") == m
			package.preload.mm = function(name) module(name) end
			local mm = require("mm")
			local t = vh_register("hostmod")
			return tostring(same), tostring(n), tostring(mm == real.mm), tostring(require("mm") == mm), tostring(real.hostmod == t),
				tostring(require("hostmod") == t), tostring(next(package.loaded) == nil)`,
			wantValues("true", "1", "true", "true", "true", "true", "true")},
		// the preload searcher and PreloadModule read the field package.preload at every call
		// (loadlib.c loader_preload: "'package.preload' must be a table")
		{"package.preload = 42: require of an unloaded module and PreloadModule raise, cached modules are still returned; a table put back works again", `
			package.preload.a = function() return "A" end
			local a = require("a")
			local keep = package.preload
			package.preload = 42
			local ok1, e1 = pcall(require, "zz")
			local ok2, e2 = pcall(vh_preload, "b", "B")
			local cached = require("a")
			package.preload = keep
			vh_preload("b", "B")
			return tostring(ok1), tostring(tostring(e1):find("preload", 1, true) ~= nil), tostring(ok2), tostring(tostring(e2):find("preload", 1, true) ~= nil), cached, require("b")`,
			wantValues("false", "true", "false", "true", "A", "B")},
		{"a host loader registered (from a coroutine) after package.preload was replaced wins over the file on package.path; the orphaned table is not consulted", `
			local old = package.preload
			package.preload = {}
			coroutine.wrap(vh_preload)("vhm0", "from-host")
			old.other = function() return "orphan" end
			local ok = pcall(require, "other")
			return require("vhm0"), tostring(ok), tostring(rawget(old, "vhm0") == nil)`,
			wantValues("from-host", "false", "true")},
	}
	for _, sc := range scs {
		L := lua.NewState()
		L.SetGlobal("vh_register", L.NewFunction(func(L *lua.LState) int {
			L.Push(L.RegisterModule(L.CheckString(1), map[string]lua.LGFunction{"f": func(L *lua.LState) int { return 0 }}))
			return 1
		}))
		L.SetGlobal("vh_preload", L.NewFunction(func(L *lua.LState) int {
			v := L.CheckString(2)
			L.PreloadModule(L.CheckString(1), func(L *lua.LState) int { L.Push(lua.LString(v)); return 1 })
			return 0
		}))
		L.SetField(L.GetGlobal("package"), "path", lua.LString(path))
		var res []lua.LValue
		var err error
		func() {
			defer func() {
				if r := recover(); r != nil {
					err = fmt.Errorf("Go panic: %v", r)
				}
			}()
			var fn *lua.LFunction
			fn, err = L.LoadString(sc.src)
			if err != nil {
				return
			}
			top := L.GetTop()
			L.Push(fn)
			if err = L.PCall(0, lua.MultRet, nil); err != nil {
				return
			}
			for i := top + 1; i <= L.GetTop(); i++ {
				res = append(res, L.Get(i))
			}
		}()
		w.Meta.GoOnlyChecked++
		if what := sc.want(res, err); what != "" {
			if len(what) > 200 {
				what = what[:200]
			}
			what = strings.TrimSpace(sc.name + ": " + what)
			id := w.Add(lib.Case{Coq: "CHist [] []", Input: map[string]string{"go_side_scenario": sc.name}, Observed: what, Class: "gofail"})
			w.GoFail(id, what)
		}
		L.Close()
	}
	w.Meta.GoOnlyChecked++
	if what := twoStates(); what != "" {
		what = "two Lua states in one process are independent (nothing of require is process-wide): " + what
		id := w.Add(lib.Case{Coq: "CHist [] []", Input: map[string]string{"go_side_scenario": "two states"}, Observed: what, Class: "gofail"})
		w.GoFail(id, what)
	}
	env.resetFiles()
}

// While state A is in the middle of loading its module "m" (A's sentinel is in A's package.loaded),
// state B loads ITS module "m": no loop error, B's own loader runs once, each state caches its own
// value, and a module loaded only in A is unknown in B.
func twoStates() (what string) {
	defer func() {
		if r := recover(); r != nil {
			what = fmt.Sprintf("Go panic: %v", r)
			if len(what) > 200 {
				what = what[:200]
			}
		}
	}()
	A, B := lua.NewState(), lua.NewState()
	defer A.Close()
	defer B.Close()
	nB, inner := 0, ""
	B.PreloadModule("m", func(L *lua.LState) int { nB++; L.Push(lua.LString("B-m")); return 1 })
	A.PreloadModule("onlyA", func(L *lua.LState) int { L.Push(lua.LString("A-only")); return 1 })
	A.PreloadModule("m", func(L *lua.LState) int {
		if err := B.DoString(`vh_r = require("m") .. "/" .. tostring(pcall(require, "onlyA"))`); err != nil {
			inner = "B raised while A was loading: " + firstLine(err.Error())
		}
		L.Push(lua.LString("A-m"))
		return 1
	})
	if err := A.DoString(`vh_r = require("onlyA") .. "/" .. require("m") .. "/" .. require("m")`); err != nil {
		return "A raised: " + firstLine(err.Error())
	}
	if inner != "" {
		return inner
	}
	if err := B.DoString(`vh_r = vh_r .. "/" .. require("m")`); err != nil {
		return "B raised: " + firstLine(err.Error())
	}
	if got := A.GetGlobal("vh_r").String(); got != "A-only/A-m/A-m" {
		return "state A got " + got
	}
	if got := B.GetGlobal("vh_r").String(); got != "B-m/false/B-m" || nB != 1 {
		return fmt.Sprintf("state B got %s after %d loader runs", got, nB)
	}
	return ""
}
