package main

import (
	"fmt"
	"os"
	"strings"

	lua "github.com/yuin/gopher-lua"
	"verifh/lib"
)

// Go-side-only scenarios: behaviours the Lua 5.1 manual fixes for `require` that the Coq model does
// not represent (the model's searcher list is the constant [preload; path]). Expected results are
// stated here from the manual / loadlib.c; a wrong result is a Go-side failure of the check.
// They are tests, not theorems.
type scenario struct {
	name string
	src  string
	want func(res []lua.LValue, err error) string // "" = as expected
}

func wantValues(vals ...string) func([]lua.LValue, error) string {
	return func(res []lua.LValue, err error) string {
		if err != nil {
			return "raised: " + firstLine(err.Error())
		}
		if len(res) != len(vals) {
			return fmt.Sprintf("%d results, want %d", len(res), len(vals))
		}
		for i, v := range vals {
			if res[i].String() != v {
				return fmt.Sprintf("result %d is %q, want %q", i+1, res[i].String(), v)
			}
		}
		return ""
	}
}

func goSide(w *lib.Writer, env *envT) {
	env.resetFiles()
	p := env.filePath(0, 0)
	if err := os.WriteFile(p, []byte("return 'from-file'\n"), 0o644); err != nil {
		panic(err)
	}
	env.written[p] = true
	path := env.pathString([]int{0, 1})
	scs := []scenario{
		{"package.loaders replaced by a new table is what require uses (manual 5.3: 'By changing this array, we can change how require looks for a module')", `
			local old = package.loaders
			package.loaders = { function(n) if n:sub(1, 5) == "virt." then return function() return "virtual:" .. n end end return "\n\tno virt " .. n end, old[1] }
			package.preload.p = function() return "P" end
			return require("virt.x"), require("p")`, wantValues("virtual:virt.x", "P")},
		{"package.loaders = nil: require raises \"'package.loaders' must be a table\"", `
			package.loaders = nil
			local ok, e = pcall(require, "zzz")
			return tostring(ok), tostring(e:find("package.loaders", 1, true) ~= nil and e:find("must be a table", 1, true) ~= nil), tostring(e:find("not found", 1, true) ~= nil)`,
			wantValues("false", "true", "false")},
		{"package.loaders = {preload searcher}: files on package.path are no longer loaded", `
			package.preload.p = function() return "P" end
			package.loaders = { package.loaders[1] }
			local ok, e = pcall(require, "vhm0")
			return require("p"), tostring(ok), tostring(e:find("not found", 1, true) ~= nil), tostring(e:find(".lua", 1, true) ~= nil)`,
			wantValues("P", "false", "true", "false")},
		{"in-place edit of package.loaders is used", `
			table.insert(package.loaders, 1, function(n) if n == "z" then return function() return "Z" end end end)
			return require("z"), require("vhm0")`, wantValues("Z", "from-file")},
		{"package.seeall sets __index on the raw metatable, not on the __metatable value", `
			local fake = {}
			package.preload.m = function(name)
				local M = setmetatable({}, {__metatable = fake})
				package.loaded[name] = M
				module(name, package.seeall)
				function answer() return tostring(42) end
			end
			local m = require("m")
			return m.answer(), tostring(rawget(fake, "__index") == nil), tostring(require("m") == m)`, wantValues("42", "true", "true")},
		// hunt2 obs-2: the module's global is created by an ordinary assignment to the table of globals
		// (luaL_findtable stores with lua_settable), so a __newindex on _G sees it
		{"module() under a strict-globals guard on _G raises and creates nothing", `
			setmetatable(_G, {__newindex = function(t, k, v) error("new global '" .. k .. "' forbidden", 2) end})
			local ok, e = pcall(function() module("leak") end)
			return tostring(ok), tostring(rawget(_G, "leak") == nil), tostring(tostring(e):find("forbidden", 1, true) ~= nil)`,
			wantValues("false", "true", "true")},
		{"L.RegisterModule under a proxy _G goes through __newindex; the module is reachable by its global name and by require", `
			local SHADOW, log = {}, {}
			setmetatable(_G, {__newindex = function(t, k, v) log[#log + 1] = k; SHADOW[k] = v end, __index = SHADOW})
			local t = vh_register("hostmod")
			return tostring(log[1]), tostring(SHADOW.hostmod == t), tostring(rawget(_G, "hostmod") == nil), tostring(require("hostmod") == t), tostring(hostmod == t)`,
			wantValues("hostmod", "true", "true", "true", "true")},
	}
	for _, sc := range scs {
		L := lua.NewState()
		L.SetGlobal("vh_register", L.NewFunction(func(L *lua.LState) int {
			L.Push(L.RegisterModule(L.CheckString(1), map[string]lua.LGFunction{"f": func(L *lua.LState) int { return 0 }}))
			return 1
		}))
		L.SetField(L.GetGlobal("package"), "path", lua.LString(path))
		var res []lua.LValue
		var err error
		func() {
			defer func() {
				if r := recover(); r != nil {
					err = fmt.Errorf("Go panic: %v", r)
				}
			}()
			var fn *lua.LFunction
			fn, err = L.LoadString(sc.src)
			if err != nil {
				return
			}
			top := L.GetTop()
			L.Push(fn)
			if err = L.PCall(0, lua.MultRet, nil); err != nil {
				return
			}
			for i := top + 1; i <= L.GetTop(); i++ {
				res = append(res, L.Get(i))
			}
		}()
		w.Meta.GoOnlyChecked++
		if what := sc.want(res, err); what != "" {
			if len(what) > 200 {
				what = what[:200]
			}
			what = strings.TrimSpace(sc.name + ": " + what)
			id := w.Add(lib.Case{Coq: "CHist [] []", Input: map[string]string{"go_side_scenario": sc.name}, Observed: what, Class: "gofail"})
			w.GoFail(id, what)
		}
		L.Close()
	}
	env.resetFiles()
}
