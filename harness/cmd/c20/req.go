package main

import (
	"encoding/json"
	"fmt"
	"net"
	"os"
	"path/filepath"
	"sort"
	"strings"

	lua "github.com/yuin/gopher-lua"
	"verifh/lib"
)

// ---------- replayable input ----------

type VExp struct {
	K string `json:"k"` // nil false true str tab
	N int    `json:"n,omitempty"`
}

type Action struct {
	A string `json:"a"` // require prequire setloaded module return returnnothing fail
	M int    `json:"m,omitempty"`
	E *VExp  `json:"e,omitempty"`
	// require/prequire only: "" = on the loader's own thread; "co" / "cog" = on another coroutine of
	// the same state (model: TCo). Lua loaders: co = coroutine.wrap(function() return require(m) end)()
	// resp. coroutine.resume(coroutine.create(function ... end)); cog = the coroutine's body is require
	// itself (a Go function). Go loaders: co = L.NewThread() + CallByParam on it; cog = L.NewThread() +
	// L.Resume(thread, require, m)
	T string `json:"t,omitempty"`
	// module(name, package.seeall) instead of module(name); the model does not distinguish them
	// (the option only gives the module table's metatable an __index)
	SeeAll bool `json:"seeall,omitempty"`
}

type Loader struct {
	Kind   string   `json:"kind"` // lua | go
	Script []Action `json:"script"`
}

type File struct {
	Broken bool `json:"broken,omitempty"`
	// exists (stat succeeds) but cannot be opened for reading, even by root: a unix socket
	Unreadable bool     `json:"unreadable,omitempty"`
	Script     []Action `json:"script,omitempty"`
}

type Op struct {
	Op     string  `json:"op"` // require preload file path clear setglobal getglobal getloaded register newpreload
	N      int     `json:"n"`
	D      int     `json:"d,omitempty"`
	Loader *Loader `json:"loader,omitempty"` // preload: nil = remove
	File   *File   `json:"file,omitempty"`   // file: nil = remove
	Path   []int   `json:"path,omitempty"`
	G      string  `json:"g,omitempty"` // setglobal: nil str tab
	GK     int     `json:"gk,omitempty"`
	Fs     []int   `json:"fs,omitempty"`
	// newpreload: package.preload = {a new table holding the old entries of these names}
	Keep []int `json:"keep,omitempty"`
	// require / preload (go) / register: > 0 = the host issues the call on its Th-th extra thread
	// (L.NewThread(), kept for the whole history) instead of the main thread. The model has one
	// state per Lua state, shared by its threads, so the Gallina term is the same.
	Th int `json:"th,omitempty"`
}

// IOp is one step of a host that opens the libraries itself (lua.Options{SkipOpenLibs: true})
type IOp struct {
	Op     string  `json:"op"` // openbase openpackage openlib register preload
	N      int     `json:"n,omitempty"`
	Fs     []int   `json:"fs,omitempty"`
	Loader *Loader `json:"loader,omitempty"`
}

func (o IOp) coq() string {
	switch o.Op {
	case "openbase":
		return "IOpenBase"
	case "openpackage":
		return "IOpenPackage"
	case "openlib":
		return fmt.Sprintf("IOpenLib %d", o.N)
	case "register":
		return fmt.Sprintf("IRegister %d %s", o.N, zlist(o.Fs))
	case "preload":
		k := "KLua"
		if o.Loader.Kind == "go" {
			k = "KGo"
		}
		return fmt.Sprintf("IPreload %d (mkLoader %s %s)", o.N, k, scriptCoq(o.Loader.Script))
	}
	panic("iop " + o.Op)
}

type in struct {
	Init           []IOp `json:"init,omitempty"` // non-empty: SkipOpenLibs, these first
	Ops            []Op  `json:"ops"`
	AllowUnguarded bool  `json:"allow_unguarded,omitempty"` // hand-checked terminating corpus entries only
}

// ids 10..12 are the reserved names PKG, LSTRING, LTABLE of the model
// id 4 is a name longer than a file name may be (stat fails with ENAMETOOLONG); it never has a file
var modNames = []string{"vhm0", "vhm1", "vhp.m2", "vhm3", "vhl" + strings.Repeat("x", 260), "vhm5", "vhm6", "vhm7", "vhm8", "vhm9",
	"package", "string", "table"}

// directories d0..d2 are ordinary; in d3 the entry "vhp" is a regular FILE, so the path of the dotted
// module vhp.m2 there runs through a file (stat fails with ENOTDIR, not ENOENT)
const nDirs = 4

func nameID(s string) int {
	for i, n := range modNames {
		if n == s {
			return i
		}
	}
	return -1
}

// ---------- Gallina printers ----------

func (e *VExp) coq() string {
	if e == nil {
		return "ENil"
	}
	switch e.K {
	case "nil":
		return "ENil"
	case "false":
		return "EFalse"
	case "true":
		return "ETrue"
	case "str":
		return fmt.Sprintf("(EStr %d)", e.N)
	case "tab":
		return fmt.Sprintf("(ETab %d)", e.N)
	}
	panic("vexp " + e.K)
}

func (a Action) coq() string {
	switch a.A {
	case "require":
		return fmt.Sprintf("Require %s %d", threadCoq(a.T), a.M)
	case "prequire":
		return fmt.Sprintf("PRequire %s %d", threadCoq(a.T), a.M)
	case "setloaded":
		return "SetLoaded " + a.E.coq()
	case "module":
		return "Module"
	case "return":
		return "Return " + a.E.coq()
	case "returnnothing":
		return "ReturnNothing"
	case "fail":
		return "Fail"
	}
	panic("action " + a.A)
}

func threadCoq(t string) string {
	switch t {
	case "":
		return "TSame"
	case "co", "cog":
		return "TCo"
	}
	panic("thread " + t)
}

func scriptCoq(sc []Action) string {
	it := make([]string, len(sc))
	for i, a := range sc {
		it[i] = a.coq()
	}
	return lib.CoqList(it)
}

func zlist(l []int) string {
	it := make([]string, len(l))
	for i, x := range l {
		it[i] = lib.CoqZ(int64(x))
	}
	return lib.CoqList(it)
}

func (o Op) coq() string {
	switch o.Op {
	case "require":
		return fmt.Sprintf("HRequire %d", o.N)
	case "preload":
		if o.Loader == nil {
			return fmt.Sprintf("HSetPreload %d None", o.N)
		}
		k := "KLua"
		if o.Loader.Kind == "go" {
			k = "KGo"
		}
		return fmt.Sprintf("HSetPreload %d (Some (mkLoader %s %s))", o.N, k, scriptCoq(o.Loader.Script))
	case "file":
		if o.File == nil {
			return fmt.Sprintf("HSetFile %d %d None", o.D, o.N)
		}
		if o.File.Unreadable {
			return fmt.Sprintf("HSetFile %d %d (Some FUnreadable)", o.D, o.N)
		}
		if o.File.Broken {
			return fmt.Sprintf("HSetFile %d %d (Some FBroken)", o.D, o.N)
		}
		return fmt.Sprintf("HSetFile %d %d (Some (FScript %s))", o.D, o.N, scriptCoq(o.File.Script))
	case "path":
		return "HSetPath " + zlist(o.Path)
	case "clear":
		return fmt.Sprintf("HClearLoaded %d", o.N)
	case "setglobal":
		switch o.G {
		case "nil":
			return fmt.Sprintf("HSetGlobal %d GNil", o.N)
		case "str":
			return fmt.Sprintf("HSetGlobal %d (GStr %d)", o.N, o.GK)
		case "tab":
			return fmt.Sprintf("HSetGlobal %d GNewTab", o.N)
		}
	case "getglobal":
		return fmt.Sprintf("HGetGlobal %d", o.N)
	case "getloaded":
		return fmt.Sprintf("HGetLoaded %d", o.N)
	case "register":
		return fmt.Sprintf("HRegister %d %s", o.N, zlist(o.Fs))
	case "newpreload":
		return "HNewPreload " + zlist(o.Keep)
	}
	panic("op " + o.Op)
}

// ---------- observations ----------

type valT struct {
	K string `json:"k"` // nil false true str tab sent other
	N int    `json:"n,omitempty"`
}

func (v valT) coq() string {
	switch v.K {
	case "nil":
		return "VNil"
	case "false":
		return "VFalse"
	case "true":
		return "VTrue"
	case "str":
		return fmt.Sprintf("(VStr %s)", lib.CoqZ(int64(v.N)))
	case "tab":
		return fmt.Sprintf("(VTab %d 0)", v.N)
	case "sent":
		return "VSent"
	}
	return "(VStr (-1))" // a value the models never produce
}

type triedT struct {
	Pre bool `json:"pre,omitempty"`
	D   int  `json:"d"`
	N   int  `json:"n"`
}

type errT struct {
	Class string   `json:"class"` // loop notfound syntax fail conflict modgo other
	N     int      `json:"n"`
	D     int      `json:"d,omitempty"`
	Tried []triedT `json:"tried,omitempty"`
	Text  string   `json:"text,omitempty"` // only for class other
}

func (e *errT) coq() string {
	n := lib.CoqZ(int64(e.N))
	switch e.Class {
	case "loop":
		return "(ELoop " + n + ")"
	case "notfound":
		it := make([]string, len(e.Tried))
		for i, t := range e.Tried {
			if t.Pre {
				it[i] = "TPre " + lib.CoqZ(int64(t.N))
			} else {
				it[i] = fmt.Sprintf("TPath %s %s", lib.CoqZ(int64(t.D)), lib.CoqZ(int64(t.N)))
			}
		}
		return "(ENotFound " + n + " " + lib.CoqList(it) + ")"
	case "syntax":
		return fmt.Sprintf("(ESyntax %s %s)", lib.CoqZ(int64(e.D)), n)
	case "fail":
		return "(EFail " + n + ")"
	case "conflict":
		return "(EConflict " + n + ")"
	case "modgo":
		return "EModGo"
	case "nopkg":
		return "ENoPackage"
	}
	return "EOther"
}

type logT struct {
	N int    `json:"n"`
	O string `json:"o"` // pre | file
	D int    `json:"d,omitempty"`
}

type obsT struct {
	Kind    string `json:"kind"` // none res val reg
	Val     *valT  `json:"val,omitempty"`
	Err     *errT  `json:"err,omitempty"`
	Log     []logT `json:"log,omitempty"`
	Present []int  `json:"present,omitempty"`
}

func resCoq(v *valT, e *errT) string {
	if e != nil {
		return "(Err " + e.coq() + ")"
	}
	return "(Ok " + v.coq() + ")"
}

func (o obsT) coq() string {
	switch o.Kind {
	case "none":
		return "ONone"
	case "res":
		it := make([]string, len(o.Log))
		for i, l := range o.Log {
			if l.O == "pre" {
				it[i] = fmt.Sprintf("(%s, OPre)", lib.CoqZ(int64(l.N)))
			} else {
				it[i] = fmt.Sprintf("(%s, OFile %d)", lib.CoqZ(int64(l.N)), l.D)
			}
		}
		return "ORes " + resCoq(o.Val, o.Err) + " " + lib.CoqList(it)
	case "val":
		return "OVal " + o.Val.coq()
	case "reg":
		return "OReg " + resCoq(o.Val, o.Err) + " " + zlist(o.Present)
	}
	panic("obs " + o.Kind)
}

// ---------- environment: the directories on package.path ----------

type envT struct {
	base    string
	written map[string]bool
}

func newEnv() *envT {
	e := &envT{base: fmt.Sprintf("/tmp/vh-req-%d", os.Getpid()), written: map[string]bool{}}
	os.RemoveAll(e.base)
	for d := 0; d < nDirs-1; d++ {
		if err := os.MkdirAll(filepath.Join(e.base, fmt.Sprintf("d%d", d), "vhp"), 0o755); err != nil {
			panic(err)
		}
	}
	if err := os.MkdirAll(filepath.Join(e.base, "d3"), 0o755); err != nil {
		panic(err)
	}
	if err := os.WriteFile(filepath.Join(e.base, "d3", "vhp"), []byte("not a directory\n"), 0o644); err != nil {
		panic(err)
	}
	return e
}

func (e *envT) cleanup() { os.RemoveAll(e.base) }

func (e *envT) filePath(d, n int) string {
	return filepath.Join(e.base, fmt.Sprintf("d%d", d), strings.Replace(modNames[n], ".", "/", -1)+".lua")
}

func (e *envT) pathString(dirs []int) string {
	it := make([]string, len(dirs))
	for i, d := range dirs {
		it[i] = filepath.Join(e.base, fmt.Sprintf("d%d", d), "?.lua")
	}
	return strings.Join(it, ";")
}

func (e *envT) resetFiles() {
	for p := range e.written {
		os.Remove(p)
	}
	e.written = map[string]bool{}
}

// ---------- turning scripts into real loaders ----------

// Generated Lua code never reads a global after it was installed: the host keeps the originals in
// the table vh_P (filled before the first script-visible operation), so histories may clobber
// globals such as `package`.
const luaPrelude = "local P = vh_P\n"

const luaBodyHead = "local require, package, pcall, error, module, emit, setmetatable = " +
	"P.require, P.package, P.pcall, P.error, P.module, P.emit, P.setmetatable\n"

func vexpLua(e *VExp) string {
	if e == nil {
		return "nil"
	}
	switch e.K {
	case "nil":
		return "nil"
	case "false":
		return "false"
	case "true":
		return "true"
	case "str":
		return fmt.Sprintf("%q", fmt.Sprintf("s%d", e.N))
	case "tab":
		return fmt.Sprintf("t%d", e.N)
	}
	panic("vexp")
}

// body of a Lua loader (function body or file chunk); `...` is the module name
func luaBody(sc []Action, origin string) string {
	var sb strings.Builder
	sb.WriteString("local name = ...\n")
	sb.WriteString(luaBodyHead)
	fmt.Fprintf(&sb, "emit(name, %q)\n", origin)
	// t1 has a protected metatable (module(name, package.seeall) must still work on it)
	sb.WriteString("local t0, t1 = {}, setmetatable({}, {__metatable = \"locked\"})\n")
	for _, a := range sc {
		switch a.A {
		case "require":
			switch a.T {
			case "":
				fmt.Fprintf(&sb, "require(%q)\n", modNames[a.M])
			case "co":
				fmt.Fprintf(&sb, "P.cowrap(function() return require(%q) end)()\n", modNames[a.M])
			case "cog":
				fmt.Fprintf(&sb, "P.cowrap(require)(%q)\n", modNames[a.M])
			default:
				panic("thread " + a.T)
			}
		case "prequire":
			switch a.T {
			case "":
				fmt.Fprintf(&sb, "pcall(require, %q)\n", modNames[a.M])
			case "co":
				fmt.Fprintf(&sb, "P.coresume(P.cocreate(function() return require(%q) end))\n", modNames[a.M])
			case "cog":
				fmt.Fprintf(&sb, "P.coresume(P.cocreate(require), %q)\n", modNames[a.M])
			default:
				panic("thread " + a.T)
			}
		case "setloaded":
			fmt.Fprintf(&sb, "package.loaded[name] = %s\n", vexpLua(a.E))
		case "module":
			if a.SeeAll {
				sb.WriteString("module(name, package.seeall)\n")
			} else {
				sb.WriteString("module(name)\n")
			}
		case "return":
			fmt.Fprintf(&sb, "do return %s end\n", vexpLua(a.E))
		case "returnnothing":
			sb.WriteString("do return end\n")
		case "fail":
			sb.WriteString("error(\"vhfail:\" .. name)\n")
		}
	}
	return sb.String()
}

type runT struct {
	L     *lua.LState
	env   *envT
	log   []logT
	canon map[*lua.LTable]int
	blown bool
	pkg   lua.LValue // the package table, held by the host
	P     *lua.LTable
	ths   map[int]*lua.LState // the host's extra threads (L.NewThread), by number
}

// the host's i-th thread: 0 = the main thread
func (r *runT) thread(i int) *lua.LState {
	if i <= 0 {
		return r.L
	}
	if r.ths == nil {
		r.ths = map[int]*lua.LState{}
	}
	if t, ok := r.ths[i]; ok {
		return t
	}
	t, _ := r.L.NewThread()
	r.ths[i] = t
	return t
}

// makes coroutine.wrap/create/resume available to the generated loaders through vh_P (hosts that
// open libraries themselves do not open the coroutine library: it is opened, after their
// initialisation sequence, only when a loader of the case needs it)
func (r *runT) ensureCoroutine() {
	L := r.L
	if r.P.RawGetString("cowrap") != lua.LNil {
		return
	}
	co, ok := L.GetGlobal("coroutine").(*lua.LTable)
	if !ok {
		co, _ = openLib(lua.CoroutineLibName, lua.OpenCoroutine)(L).(*lua.LTable)
	}
	r.P.RawSetString("cowrap", co.RawGetString("wrap"))
	r.P.RawSetString("cocreate", co.RawGetString("create"))
	r.P.RawSetString("coresume", co.RawGetString("resume"))
}

func usesThreads(x in) bool {
	has := func(sc []Action) bool {
		for _, a := range sc {
			if a.T != "" {
				return true
			}
		}
		return false
	}
	for _, o := range x.Init {
		if o.Loader != nil && has(o.Loader.Script) {
			return true
		}
	}
	for _, o := range x.Ops {
		if (o.Loader != nil && has(o.Loader.Script)) || (o.File != nil && has(o.File.Script)) {
			return true
		}
	}
	return false
}

// (re)fills vh_P with the library functions that exist now
func (r *runT) fillP() {
	L := r.L
	if r.P == nil {
		r.P = L.NewTable()
		L.SetGlobal("vh_P", r.P)
		r.P.RawSetString("emit", L.NewFunction(func(L *lua.LState) int {
			r.emit(L, L.CheckString(1), L.CheckString(2))
			return 0
		}))
	}
	for _, g := range []string{"require", "package", "pcall", "error", "module", "setmetatable"} {
		r.P.RawSetString(g, L.GetGlobal(g))
	}
	r.pkg = L.GetGlobal("package")
}

// more loader invocations than any in-domain history can produce: the sentinel no longer stops
// re-entry. From then on every loader fails at entry so that the recursion unwinds at once.
const invocationBudget = 400

func (r *runT) emit(L *lua.LState, name, origin string) {
	if len(r.log) >= invocationBudget {
		r.blown = true
		L.RaiseError("vh-budget")
	}
	l := logT{N: nameID(name), O: "pre"}
	if strings.HasPrefix(origin, "file:") {
		l.O = "file"
		fmt.Sscanf(origin[5:], "%d", &l.D)
	}
	r.log = append(r.log, l)
}

func vexpGo(L *lua.LState, e *VExp, t [2]*lua.LTable) lua.LValue {
	if e == nil {
		return lua.LNil
	}
	switch e.K {
	case "nil":
		return lua.LNil
	case "false":
		return lua.LFalse
	case "true":
		return lua.LTrue
	case "str":
		return lua.LString(fmt.Sprintf("s%d", e.N))
	case "tab":
		return t[e.N]
	}
	panic("vexp")
}

// a Go loader for L.PreloadModule behaving as the script says
func (r *runT) goLoader(sc []Action) lua.LGFunction {
	return func(L *lua.LState) int {
		name := L.CheckString(1)
		r.emit(L, name, "pre")
		t := [2]*lua.LTable{L.NewTable(), L.NewTable()}
		locked := L.NewTable()
		locked.RawSetString("__metatable", lua.LString("locked"))
		L.SetMetatable(t[1], locked)
		for _, a := range sc {
			switch a.A {
			case "require":
				if a.T != "" {
					if err := requireOnNewThread(L, a.T, modNames[a.M]); err != nil {
						L.RaiseError("%s", errText(err)) // the host passes the failure on
					}
					break
				}
				if err := L.CallByParam(lua.P{Fn: L.GetGlobal("require"), NRet: 1, Protect: false}, lua.LString(modNames[a.M])); err != nil {
					panic(err)
				}
				L.Pop(1)
			case "prequire":
				if a.T != "" {
					requireOnNewThread(L, a.T, modNames[a.M])
					break
				}
				if err := L.CallByParam(lua.P{Fn: L.GetGlobal("require"), NRet: 1, Protect: true}, lua.LString(modNames[a.M])); err == nil {
					L.Pop(1)
				}
			case "setloaded":
				L.SetField(L.GetField(r.pkg, "loaded"), name, vexpGo(L, a.E, t))
			case "module":
				margs := []lua.LValue{lua.LString(name)}
				if a.SeeAll {
					margs = append(margs, L.GetField(r.pkg, "seeall"))
				}
				if err := L.CallByParam(lua.P{Fn: L.GetGlobal("module"), NRet: 0, Protect: false}, margs...); err != nil {
					panic(err)
				}
			case "return":
				L.Push(vexpGo(L, a.E, t))
				return 1
			case "returnnothing":
				return 0
			case "fail":
				L.RaiseError("vhfail:%s", name)
			}
		}
		return 0
	}
}

// a Go function running on L requires a module on a new thread of the same state
func requireOnNewThread(L *lua.LState, mode, name string) error {
	co, _ := L.NewThread()
	fn := L.GetGlobal("require").(*lua.LFunction)
	if mode == "cog" { // drive it as a coroutine
		_, err, _ := L.Resume(co, fn, lua.LString(name))
		return err
	}
	err := co.CallByParam(lua.P{Fn: fn, NRet: 1, Protect: true}, lua.LString(name))
	if err == nil {
		co.Pop(1)
	}
	return err
}

// ---------- reading observations ----------

func (r *runT) val(v lua.LValue) *valT {
	switch x := v.(type) {
	case *lua.LNilType:
		return &valT{K: "nil"}
	case lua.LBool:
		if bool(x) {
			return &valT{K: "true"}
		}
		return &valT{K: "false"}
	case lua.LString:
		var k int
		if n, err := fmt.Sscanf(string(x), "s%d", &k); n == 1 && err == nil {
			return &valT{K: "str", N: k}
		}
	case *lua.LTable:
		c, ok := r.canon[x]
		if !ok {
			c = len(r.canon)
			r.canon[x] = c
		}
		return &valT{K: "tab", N: c}
	case *lua.LUserData:
		return &valT{K: "sent"}
	}
	return &valT{K: "other"}
}

func errText(err error) string {
	if ae, ok := err.(*lua.ApiError); ok && ae.Object != nil {
		return ae.Object.String()
	}
	return err.Error()
}

func (r *runT) classify(msg string) *errT {
	const loopM = "loop or previous error loading module: "
	if i := strings.Index(msg, loopM); i >= 0 {
		return &errT{Class: "loop", N: nameID(firstLine(msg[i+len(loopM):]))}
	}
	if i := strings.Index(msg, "vhfail:"); i >= 0 {
		return &errT{Class: "fail", N: nameID(firstLine(msg[i+7:]))}
	}
	if strings.Contains(msg, "with key 'preload'") || strings.Contains(msg, "package.preload must be a table") {
		return &errT{Class: "nopkg"}
	}
	if strings.Contains(msg, "module() can not be called from GFunctions") {
		return &errT{Class: "modgo"}
	}
	for _, m := range []string{"name conflict for module(", "name conflict for module: "} {
		if i := strings.Index(msg, m); i >= 0 {
			return &errT{Class: "conflict", N: nameID(strings.TrimSuffix(firstLine(msg[i+len(m):]), ")"))}
		}
	}
	if i := strings.Index(msg, " not found:"); i >= 0 {
		j := strings.LastIndex(msg[:i], "module ")
		if j >= 0 {
			e := &errT{Class: "notfound", N: nameID(msg[j+7 : i]), Tried: []triedT{}}
			for _, line := range strings.Split(msg[i+len(" not found:"):], "\n") {
				line = strings.TrimSpace(strings.TrimSuffix(strings.TrimSpace(line), ","))
				if line == "" {
					continue
				}
				e.Tried = append(e.Tried, r.parseTried(line))
			}
			return e
		}
	}
	// a file that does not parse: "<file> line:N(column:M) near ..." (outer loaders only prefix "<file>:N:")
	for d := 0; d < nDirs; d++ {
		for n := range modNames {
			if strings.Contains(msg, r.env.filePath(d, n)+" line:") {
				return &errT{Class: "syntax", N: n, D: d}
			}
		}
	}
	if len(msg) > 200 {
		msg = msg[:200]
	}
	return &errT{Class: "other", Text: msg}
}

func firstLine(s string) string {
	if i := strings.IndexByte(s, '\n'); i >= 0 {
		s = s[:i]
	}
	return strings.TrimSpace(s)
}

func (r *runT) parseTried(line string) triedT {
	const p = "package.preload['"
	if i := strings.Index(line, p); i >= 0 {
		rest := line[i+len(p):]
		if j := strings.Index(rest, "']"); j >= 0 {
			return triedT{Pre: true, N: nameID(rest[:j])}
		}
	}
	for d := 0; d < nDirs; d++ {
		prefix := filepath.Join(r.env.base, fmt.Sprintf("d%d", d)) + "/"
		if i := strings.Index(line, prefix); i >= 0 {
			rest := line[i+len(prefix):]
			if j := strings.Index(rest, ".lua"); j >= 0 {
				return triedT{D: d, N: nameID(strings.Replace(rest[:j], "/", ".", -1))}
			}
		}
	}
	return triedT{D: -1, N: -1}
}

// raw lookup of a possibly dotted global name
func rawGlobal(L *lua.LState, name string) lua.LValue {
	var cur lua.LValue = L.Get(lua.GlobalsIndex)
	for _, part := range strings.Split(name, ".") {
		tb, ok := cur.(*lua.LTable)
		if !ok {
			return lua.LNil
		}
		cur = tb.RawGetString(part)
	}
	return cur
}

func setRawGlobal(L *lua.LState, name string, v lua.LValue) {
	parts := strings.Split(name, ".")
	cur := L.Get(lua.GlobalsIndex).(*lua.LTable)
	for _, part := range parts[:len(parts)-1] {
		nx, ok := cur.RawGetString(part).(*lua.LTable)
		if !ok {
			if v == lua.LNil {
				return
			}
			nx = L.NewTable()
			cur.RawSetString(part, nx)
		}
		cur = nx
	}
	cur.RawSetString(parts[len(parts)-1], v)
}

// ---------- guardedness (the domain) ----------

func isReq(a Action) bool { return a.A == "require" || a.A == "prequire" }

func guarded(sc []Action) bool {
	for i, a := range sc {
		if a.A == "setloaded" && (a.E == nil || a.E.K == "nil" || a.E.K == "false") {
			for _, b := range sc[i+1:] {
				if isReq(b) {
					return false
				}
			}
		}
	}
	return true
}

func inputGuarded(x in) bool {
	for _, o := range x.Init {
		if o.Loader != nil && !guarded(o.Loader.Script) {
			return false
		}
	}
	for _, o := range x.Ops {
		if o.Loader != nil && !guarded(o.Loader.Script) {
			return false
		}
		if o.File != nil && !guarded(o.File.Script) {
			return false
		}
	}
	return true
}

// ---------- one case ----------

func hostFuncs(fs []int) map[string]lua.LGFunction {
	funcs := map[string]lua.LGFunction{}
	for _, f := range fs {
		funcs[fmt.Sprintf("hf%d", f)] = func(L *lua.LState) int { return 0 }
	}
	return funcs
}

// runs a host call that yields a module table under a protected call; observes the table's
// identity and which of the host functions hf0..hf3 it has, or the error class
func (r *runT) protectedTable(f func(L *lua.LState) lua.LValue) obsT {
	return r.protectedTableOn(r.L, f)
}

func (r *runT) protectedTableOn(L *lua.LState, f func(L *lua.LState) lua.LValue) obsT {
	top := L.GetTop()
	err := L.CallByParam(lua.P{Fn: L.NewFunction(func(L *lua.LState) int {
		L.Push(f(L))
		return 1
	}), NRet: 1, Protect: true})
	ob := obsT{Kind: "reg", Present: []int{}}
	if err != nil {
		ob.Err = r.classify(errText(err))
	} else {
		v := L.Get(-1)
		ob.Val = r.val(v)
		if tb, ok := v.(*lua.LTable); ok {
			for f := 0; f < 4; f++ {
				if tb.RawGetString(fmt.Sprintf("hf%d", f)) != lua.LNil {
					ob.Present = append(ob.Present, f)
				}
			}
		}
	}
	L.SetTop(top)
	return ob
}

func openLib(name string, f lua.LGFunction) func(L *lua.LState) lua.LValue {
	return func(L *lua.LState) lua.LValue {
		L.Push(L.NewFunction(f))
		L.Push(lua.LString(name))
		L.Call(1, 1)
		v := L.Get(-1)
		L.Pop(1)
		return v
	}
}

// the initialisation phase of a host that opens libraries itself
func (r *runT) runInit(init []IOp) (obs []obsT, fail string) {
	L := r.L
	pkgOpen, baseOpen := false, false
	for _, o := range init {
		switch o.Op {
		case "openbase":
			openLib(lua.BaseLibName, lua.OpenBase)(L)
			baseOpen = true
			r.fillP()
			obs = append(obs, obsT{Kind: "none"})
		case "openpackage":
			ob := r.protectedTable(openLib(lua.LoadLibName, lua.OpenPackage))
			if ob.Err == nil {
				pkgOpen = true
				r.fillP()
				L.SetField(L.GetGlobal("package"), "path", lua.LString(r.env.pathString([]int{0, 1})))
			}
			obs = append(obs, ob)
		case "openlib":
			switch modNames[o.N] {
			case "string":
				obs = append(obs, r.protectedTable(openLib(lua.StringLibName, lua.OpenString)))
			case "table":
				obs = append(obs, r.protectedTable(openLib(lua.TabLibName, lua.OpenTable)))
			default:
				panic("openlib " + modNames[o.N])
			}
		case "register":
			fs, name := o.Fs, modNames[o.N]
			obs = append(obs, r.protectedTable(func(L *lua.LState) lua.LValue { return L.RegisterModule(name, hostFuncs(fs)) }))
		case "preload":
			name, ld := modNames[o.N], o.Loader
			var ob obsT
			if ld.Kind == "go" {
				ob = r.protectedTable(func(L *lua.LState) lua.LValue { L.PreloadModule(name, r.goLoader(ld.Script)); return lua.LNil })
			} else {
				ob = r.protectedTable(func(L *lua.LState) lua.LValue {
					// the Lua-side equivalent: package.preload[name] = f (raw API, no base library needed)
					fn, err := L.LoadString(luaPrelude + "return function(...)\n" + luaBody(ld.Script, "pre") + "end\n")
					if err != nil {
						panic(err)
					}
					L.Push(fn)
					L.Call(0, 1)
					f := L.Get(-1)
					L.Pop(1)
					L.SetField(L.GetField(L.GetGlobal("package"), "preload"), name, f)
					return lua.LNil
				})
			}
			if ob.Err != nil {
				obs = append(obs, obsT{Kind: "res", Err: ob.Err})
			} else {
				obs = append(obs, obsT{Kind: "none"})
			}
		default:
			panic("unknown init op " + o.Op)
		}
	}
	if !pkgOpen || !baseOpen {
		return obs, "unsupported"
	}
	return obs, ""
}

func runHistory(env *envT, x in) (obs []obsT, fail string) {
	env.resetFiles()
	var L *lua.LState
	if len(x.Init) > 0 {
		L = lua.NewState(lua.Options{SkipOpenLibs: true})
	} else {
		L = lua.NewState()
	}
	defer L.Close()
	r := &runT{L: L, env: env, canon: map[*lua.LTable]int{}}
	defer func() {
		if p := recover(); p != nil {
			s := fmt.Sprint(p)
			if len(s) > 300 {
				s = s[:300]
			}
			fail = "Go panic escaped: " + s
		}
	}()
	r.fillP()
	if len(x.Init) > 0 {
		o, f := r.runInit(x.Init)
		obs = o
		if f != "" {
			return obs, f
		}
		r.fillP()
	}
	if usesThreads(x) {
		r.ensureCoroutine()
	}
	pkg := r.pkg
	if len(x.Init) == 0 {
		L.SetField(pkg, "path", lua.LString(env.pathString([]int{0, 1})))
	}
	requireFn := L.GetGlobal("require")
	for _, o := range x.Ops {
		switch o.Op {
		case "require":
			before := len(r.log)
			st := r.thread(o.Th)
			top := st.GetTop()
			err := st.CallByParam(lua.P{Fn: requireFn, NRet: 1, Protect: true}, lua.LString(modNames[o.N]))
			ob := obsT{Kind: "res"}
			if err != nil {
				ob.Err = r.classify(errText(err))
			} else {
				ob.Val = r.val(st.Get(-1))
			}
			st.SetTop(top)
			if r.blown {
				return obs, "unbounded loader recursion: more than 400 loader invocations in one history"
			}
			ob.Log = append([]logT{}, r.log[before:]...)
			obs = append(obs, ob)
		case "preload":
			if o.Loader == nil {
				L.SetField(L.GetField(pkg, "preload"), modNames[o.N], lua.LNil)
			} else if o.Loader.Kind == "go" {
				r.thread(o.Th).PreloadModule(modNames[o.N], r.goLoader(o.Loader.Script))
			} else {
				src := luaPrelude + fmt.Sprintf("P.package.preload[%q] = function(...)\n%send\n", modNames[o.N], luaBody(o.Loader.Script, "pre"))
				if err := L.DoString(src); err != nil {
					return obs, "installing a preload loader failed: " + firstLine(err.Error())
				}
			}
			obs = append(obs, obsT{Kind: "none"})
		case "file":
			p := env.filePath(o.D, o.N)
			if o.File == nil {
				os.Remove(p)
				delete(env.written, p)
			} else if o.File.Unreadable {
				os.Remove(p)
				l, err := net.Listen("unix", p)
				if err != nil {
					panic(err)
				}
				l.(*net.UnixListener).SetUnlinkOnClose(false)
				l.Close()
				env.written[p] = true
			} else {
				os.Remove(p) // a socket cannot be overwritten in place
				src := "return return (("
				if !o.File.Broken {
					src = luaPrelude + luaBody(o.File.Script, fmt.Sprintf("file:%d", o.D))
				}
				if err := os.WriteFile(p, []byte(src), 0o644); err != nil {
					panic(err)
				}
				env.written[p] = true
			}
			obs = append(obs, obsT{Kind: "none"})
		case "path":
			L.SetField(pkg, "path", lua.LString(env.pathString(o.Path)))
			obs = append(obs, obsT{Kind: "none"})
		case "clear":
			L.SetField(L.GetField(pkg, "loaded"), modNames[o.N], lua.LNil)
			obs = append(obs, obsT{Kind: "none"})
		case "setglobal":
			var v lua.LValue = lua.LNil
			switch o.G {
			case "str":
				v = lua.LString(fmt.Sprintf("s%d", o.GK))
			case "tab":
				v = L.NewTable()
			}
			setRawGlobal(L, modNames[o.N], v)
			obs = append(obs, obsT{Kind: "none"})
		case "getglobal":
			obs = append(obs, obsT{Kind: "val", Val: r.val(rawGlobal(L, modNames[o.N]))})
		case "getloaded":
			obs = append(obs, obsT{Kind: "val", Val: r.val(L.GetField(L.GetField(pkg, "loaded"), modNames[o.N]))})
		case "register":
			fs := o.Fs
			name := modNames[o.N]
			obs = append(obs, r.protectedTableOn(r.thread(o.Th), func(L *lua.LState) lua.LValue { return L.RegisterModule(name, hostFuncs(fs)) }))
		case "newpreload":
			// what a script's `package.preload = {...}` does: a new table in the field, holding
			// (copies of) some of the old entries
			nt := L.NewTable()
			if old, ok := L.GetField(pkg, "preload").(*lua.LTable); ok {
				for _, k := range o.Keep {
					nt.RawSetString(modNames[k], old.RawGetString(modNames[k]))
				}
			}
			L.SetField(pkg, "preload", nt)
			obs = append(obs, obsT{Kind: "none"})
		default:
			panic("unknown op " + o.Op)
		}
	}
	return obs, ""
}

func classOf(x in, obs []obsT) (class string, nontrivial bool) {
	set := map[string]bool{}
	nreq, ninv := 0, 0
	for _, o := range obs {
		if o.Kind == "res" {
			nreq++
			ninv += len(o.Log)
			if o.Err != nil {
				set[o.Err.Class] = true
			} else {
				set["ok"] = true
			}
		}
		if o.Kind == "reg" {
			set["reg"] = true
		}
	}
	if len(x.Init) > 0 {
		set["init"] = true
	}
	if usesThreads(x) {
		set["co"] = true
	}
	for _, o := range x.Ops {
		if o.Loader != nil && o.Loader.Kind == "go" {
			set["goloader"] = true
		}
		if o.Th > 0 {
			set["co"] = true
		}
		if o.Op == "newpreload" {
			set["newpreload"] = true
		}
		if o.File != nil {
			set["file"] = true
		}
	}
	ks := make([]string, 0, len(set))
	for k := range set {
		ks = append(ks, k)
	}
	sort.Strings(ks)
	return strings.Join(ks, "+"), nreq >= 2 && (ninv >= 1 || len(x.Init) > 0)
}

// files cannot exist where stat fails for another reason than absence (name 4 anywhere, vhp.m2 in
// d3): such file operations become preload operations / go to d0, so that the model's file map
// stays what the file system holds
func sanitize(ops []Op) []Op {
	out := make([]Op, 0, len(ops))
	for _, o := range ops {
		if o.Op == "file" {
			if o.N == 4 {
				if o.File != nil && !o.File.Broken && !o.File.Unreadable {
					o = Op{Op: "preload", N: 4, Loader: &Loader{Kind: "lua", Script: o.File.Script}}
				} else {
					o = Op{Op: "getloaded", N: 4}
				}
			} else if o.D == 3 && o.N == 2 {
				o.D = 0
			}
		}
		out = append(out, o)
	}
	return out
}

func runCase(w *lib.Writer, env *envT, x in) {
	x.Ops = sanitize(x.Ops)
	if !x.AllowUnguarded && !inputGuarded(x) {
		w.Meta.Discarded++
		return
	}
	obs, fail := runHistory(env, x)
	if fail == "unsupported" {
		w.Meta.Discarded++
		return
	}
	if fail != "" {
		// the model has no observation for this; record the failure against a placeholder case
		id := w.Add(lib.Case{Coq: "CHist [] []", Input: x, Observed: fail, Class: "gofail"})
		w.GoFail(id, fail)
		return
	}
	ops := make([]string, len(x.Ops))
	for i, o := range x.Ops {
		ops[i] = o.coq()
	}
	os_ := make([]string, len(obs))
	for i, o := range obs {
		os_[i] = o.coq()
	}
	class, nt := classOf(x, obs)
	w.Add(lib.Case{
		Coq:        caseHead(x) + lib.CoqList(ops) + " " + lib.CoqList(os_),
		Input:      x,
		Observed:   obs,
		Class:      class,
		Nontrivial: nt,
		KF:         []string{},
	})
}

func caseHead(x in) string {
	if len(x.Init) == 0 {
		return "CHist "
	}
	it := make([]string, len(x.Init))
	for i, o := range x.Init {
		it[i] = o.coq()
	}
	return "CInit " + lib.CoqList(it) + " "
}

func replay(w *lib.Writer, env *envT, path string) {
	b, err := os.ReadFile(path)
	if err != nil {
		panic(err)
	}
	var rp struct {
		Input in `json:"input"`
	}
	if err := json.Unmarshal(b, &rp); err != nil {
		panic(err)
	}
	rp.Input.AllowUnguarded = true
	runCase(w, env, rp.Input)
}
