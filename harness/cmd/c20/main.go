// c20: correspondence harness for property C20 (require: once, preload first, loops).
package main

import (
	"fmt"
	"os"

	"verifh/lib"
)

const header = "From Coq Require Import List ZArith.\nFrom GL Require Import Req.ReqModel Req.ReqCases.\nImport ListNotations."

func main() {
	a := lib.ParseArgs()
	if a.Cmd != "run" {
		fmt.Fprintln(os.Stderr, "unknown command", a.Cmd)
		os.Exit(2)
	}
	w, err := lib.NewWriter(a.Out, "C20", a.Tier, a.Seed, header, "case", 200)
	if err != nil {
		panic(err)
	}
	w.Meta.Rule = "histories of host operations (pcall(require,n), package.preload[n]=f / L.PreloadModule, module files written/removed in two " +
		"directories of package.path, package.loaded[n]=nil, L.RegisterModule, global reads/writes) run on a fresh LState each; loaders are real Lua " +
		"functions / Go LGFunctions / files generated from action scripts (require, pcall(require), package.loaded[self]=v, module(self), return v, " +
		"return, error); observed per step: result value (tables by identity, canonical by first appearance; the loopdetection userdata as the sentinel) " +
		"or error class (loop/not found + parsed list of names tried/syntax/loader error/name conflict), the loader invocations of that step, functions " +
		"present after RegisterModule. Generators: corpus of defect witnesses; bounded enumeration (all guarded scripts of length<=2 over a 19-action " +
		"alphabet for module 0 x 6 companion pairs x 4 install kinds x histories of 4 requires over 3 names; quick = PRNG sample of that product, " +
		"thorough = one exhaustive slice (all 81 histories) + 6 sampled histories for every other combination); random histories of 5..14 operations " +
		"with scripts of length<=4; hosts created with SkipOpenLibs that call OpenBase/OpenPackage/OpenString/OpenTable/RegisterModule/PreloadModule in a random " +
		"order and then require every registered module, package, string, table and read their globals. " +
		"Wave 5: a quarter of the nested requires run on another coroutine of the state (coroutine.wrap / create+resume with a Lua closure or require itself " +
		"as the body; L.NewThread + CallByParam / L.Resume in Go loaders), one host call in seven (require, PreloadModule, RegisterModule) is issued on one of two " +
		"extra host threads; operation package.preload = {copies of some old entries} in random and initialisation-order histories and a dedicated family around it " +
		"(replace, then host/Lua registrations on any thread, then require everything); chains of 5..9 nested loads over nine names ending in success, failure, " +
		"a missing module or a long cycle. Non-trivial = at least two require calls and at least one loader invocation; distinct by Gallina term. " +
		"Scripts that reset package.loaded[self] to nil/false and then require again (unbounded recursion) are outside the domain and never generated."
	r := lib.NewRand(a.Seed)
	env := newEnv()
	defer env.cleanup()
	if a.Replay != "" {
		replay(w, env, a.Replay)
	} else {
		corpus(w, env)
		corpusInit(w, env)
		genEnum(w, env, r, a.Tier)
		genRandom(w, env, r, a.Tier)
		genInit(w, env, r, a.Tier)
		genRebind(w, env, r, a.Tier)
		genChain(w, env, r, a.Tier)
		goSide(w, env)
	}
	env.cleanup()
	if err := w.Close(); err != nil {
		panic(err)
	}
}
