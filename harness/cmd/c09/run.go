package main

import (
	"fmt"
	"math"
	"regexp"
	"runtime"
	"sort"
	"strings"

	lua "github.com/yuin/gopher-lua"
	"verifh/cmd/c09/tv"
	"verifh/lib"
)

const defaultMai = 67108864

// Step is one replayable step of a history.
type Step struct {
	Op  string    `json:"op"` // set get len maxn append insert remove dump walk ipairs guard trav
	How string    `json:"how,omitempty"`
	K   *tv.V     `json:"k,omitempty"`
	V   *tv.V     `json:"v,omitempty"`
	I   int64     `json:"i,omitempty"`
	Upd [][]tv.KV `json:"upd,omitempty"` // trav: stores performed after the n-th Next
}

type Input struct {
	Mai   int    `json:"mai"`
	New   string `json:"new"` // NewTable | CreateTable | lua
	Steps []Step `json:"steps"`
}

const helpers = `
function h_set(t,k,v) t[k]=v end
function h_get(t,k) return t[k] end
function h_len(t) return #t end
function h_next1(t,k) return next(t,k) end
function h_next(t) local n=0 local k,v=next(t) while k~=nil do n=n+1 if n>20000 then error("runaway traversal") end emit(k,v) k,v=next(t,k) end end
function h_pairs(t) local n=0 for k,v in pairs(t) do n=n+1 if n>20000 then error("runaway traversal") end emit(k,v) end end
function h_ipairs(t) local n=0 for i,v in ipairs(t) do n=n+1 if n>20000 then error("runaway traversal") end emit(i,v) end end
function h_new() return {} end
`

type runner struct {
	L       *lua.LState
	pool    *tv.Pool
	t       *lua.LTable
	mai     int
	emitted [][2]lua.LValue
	coq     []string
	obs     []any
	fail    string // first Go-side failure
	bound   bool   // array part reached MaxArrayIndex-1 (C09-2 class)
	stop    bool   // the rest of the history is not modelled (Go-side-only step ran)
	kinds   map[string]bool
	delPres int
}

var theL *lua.LState

func newRunner(in *Input) *runner {
	if theL == nil {
		theL = lua.NewState()
		if err := theL.DoString(helpers); err != nil {
			panic(err)
		}
	}
	r := &runner{L: theL, mai: in.Mai, kinds: map[string]bool{}}
	r.L.SetTop(0)
	lua.MaxArrayIndex = in.Mai
	r.pool = tv.NewPool(r.L, 3)
	r.L.SetGlobal("emit", r.L.NewFunction(func(L *lua.LState) int {
		r.emitted = append(r.emitted, [2]lua.LValue{L.Get(1), L.Get(2)})
		return 0
	}))
	switch in.New {
	case "CreateTable":
		r.t = r.L.CreateTable(0, 0)
	case "lua":
		res, _ := r.call("h_new")
		r.t = res[0].(*lua.LTable)
	default:
		r.t = r.L.NewTable()
	}
	return r
}

func (r *runner) call(fn string, args ...lua.LValue) (res []lua.LValue, err error) {
	L := r.L
	top := L.GetTop()
	err = L.CallByParam(lua.P{Fn: L.GetGlobal(fn), NRet: lua.MultRet, Protect: true}, args...)
	if err != nil {
		L.SetTop(top)
		return nil, err
	}
	for i := top + 1; i <= L.GetTop(); i++ {
		res = append(res, L.Get(i))
	}
	L.SetTop(top)
	return res, nil
}

func (r *runner) callLib(mod, fn string, args ...lua.LValue) (res []lua.LValue, err error) {
	L := r.L
	top := L.GetTop()
	var f lua.LValue
	if mod == "" {
		f = L.GetGlobal(fn)
	} else {
		f = L.GetField(L.GetGlobal(mod), fn)
	}
	err = L.CallByParam(lua.P{Fn: f, NRet: lua.MultRet, Protect: true}, args...)
	if err != nil {
		L.SetTop(top)
		return nil, err
	}
	for i := top + 1; i <= L.GetTop(); i++ {
		res = append(res, L.Get(i))
	}
	L.SetTop(top)
	return res, nil
}

func (r *runner) failf(f string, a ...any) {
	if r.fail == "" {
		s := fmt.Sprintf(f, a...)
		if len(s) > 300 {
			s = s[:300]
		}
		r.fail = s
	}
}

func (r *runner) of(lv lua.LValue) tv.V {
	v, ok := r.pool.Of(lv)
	if !ok || !v.ValOK() {
		r.failf("unexpected value %v", lv)
		return tv.Nil()
	}
	return v
}

func (r *runner) ofKey(lv lua.LValue) tv.V {
	v, ok := r.pool.Of(lv)
	if !ok || v.IsNil() {
		r.failf("unexpected key %v", lv)
		return tv.Int(0)
	}
	return v
}

var identRe = regexp.MustCompile(`^[a-zA-Z_][a-zA-Z0-9_]*$`)
var reserved = map[string]bool{"and": true, "break": true, "do": true, "else": true, "elseif": true, "end": true, "false": true, "for": true,
	"function": true, "if": true, "in": true, "local": true, "nil": true, "not": true, "or": true, "repeat": true, "return": true, "then": true,
	"true": true, "until": true, "while": true, "goto": true}

func isIdent(s string) bool { return identRe.MatchString(s) && !reserved[s] }

func intKey(k tv.V) (int, bool) {
	if k.T != "n" {
		return 0, false
	}
	f := k.Float()
	if !tv.IsIntegral(f) || math.Abs(f) > 1<<53 {
		return 0, false
	}
	return int(f), true
}

func (r *runner) isArrayKey(k tv.V) bool {
	if k.T != "n" {
		return false
	}
	f := k.Float()
	return tv.IsIntegral(f) && f > 0 && f < float64(r.mai)
}

// howOK: can this spelling be used with this key?
func (r *runner) setHowOK(how string, k tv.V) bool {
	switch how {
	case "go.RawSetInt", "L.RawSetInt":
		_, ok := intKey(k)
		return ok
	case "go.RawSetString", "L.SetField":
		return k.T == "s"
	case "lua.field":
		return k.T == "s" && isIdent(string(k.Bytes()))
	case "go.RawSetH":
		return !r.isArrayKey(k)
	}
	return true
}

func (r *runner) getHowOK(how string, k tv.V) bool {
	switch how {
	case "go.RawGetInt", "L.RawGetInt":
		_, ok := intKey(k)
		return ok
	case "go.RawGetString", "L.GetField":
		return k.T == "s"
	case "lua.field":
		return k.T == "s" && isIdent(string(k.Bytes()))
	case "go.RawGetH":
		return !r.isArrayKey(k)
	}
	return true
}

func (r *runner) store(how string, k, v tv.V) {
	L, t := r.L, r.t
	lk, lv := r.pool.L(k), r.pool.L(v)
	var err error
	switch how {
	case "go.RawSet":
		t.RawSet(lk, lv)
	case "go.RawSetInt":
		i, _ := intKey(k)
		t.RawSetInt(i, lv)
	case "go.RawSetString":
		t.RawSetString(string(k.Bytes()), lv)
	case "go.RawSetH":
		t.RawSetH(lk, lv)
	case "L.RawSet":
		L.RawSet(t, lk, lv)
	case "L.RawSetInt":
		i, _ := intKey(k)
		L.RawSetInt(t, i, lv)
	case "L.SetTable":
		L.SetTable(t, lk, lv)
	case "L.SetField":
		L.SetField(t, string(k.Bytes()), lv)
	case "lua.index":
		_, err = r.call("h_set", t, lk, lv)
	case "lua.rawset":
		_, err = r.callLib("", "rawset", t, lk, lv)
	case "lua.field":
		L.SetGlobal("T", t)
		L.SetGlobal("V", lv)
		err = L.DoString("T." + string(k.Bytes()) + " = V")
	default:
		r.failf("unknown store spelling %s", how)
	}
	if err != nil {
		r.failf("store %s raised: %v", how, err)
	}
}

func (r *runner) load(how string, k tv.V) lua.LValue {
	L, t := r.L, r.t
	lk := r.pool.L(k)
	var res []lua.LValue
	var err error
	switch how {
	case "go.RawGet":
		return t.RawGet(lk)
	case "go.RawGetInt":
		i, _ := intKey(k)
		return t.RawGetInt(i)
	case "go.RawGetString":
		return t.RawGetString(string(k.Bytes()))
	case "go.RawGetH":
		return t.RawGetH(lk)
	case "L.RawGet":
		return L.RawGet(t, lk)
	case "L.RawGetInt":
		i, _ := intKey(k)
		return L.RawGetInt(t, i)
	case "L.GetTable":
		return L.GetTable(t, lk)
	case "L.GetField":
		return L.GetField(t, string(k.Bytes()))
	case "lua.index":
		res, err = r.call("h_get", t, lk)
	case "lua.rawget":
		res, err = r.callLib("", "rawget", t, lk)
	case "lua.field":
		L.SetGlobal("T", t)
		top := L.GetTop()
		err = L.DoString("return T." + string(k.Bytes()))
		if err == nil {
			res = []lua.LValue{L.Get(top + 1)}
		}
		L.SetTop(top)
	default:
		r.failf("unknown load spelling %s", how)
	}
	if err != nil || len(res) != 1 {
		r.failf("load %s: err=%v results=%d", how, err, len(res))
		return lua.LNil
	}
	return res[0]
}

func setHowCoq(how string) string {
	switch how {
	case "go.RawSetInt", "L.RawSetInt":
		return "HSetInt"
	case "go.RawSetString", "L.SetField", "lua.field":
		return "HSetString"
	case "go.RawSetH":
		return "HSetH"
	}
	return "HSet"
}

func getHowCoq(how string) string {
	switch how {
	case "go.RawGetInt", "L.RawGetInt":
		return "GGetInt"
	case "go.RawGetString", "L.GetField", "lua.field":
		return "GGetString"
	case "go.RawGetH":
		return "GGetH"
	}
	return "GGet"
}

func (r *runner) dump() []tv.KV {
	var out []tv.KV
	r.t.ForEach(func(k, v lua.LValue) { out = append(out, tv.KV{K: r.ofKey(k), V: r.of(v)}) })
	return out
}

func sortKVs(l []tv.KV) {
	sort.SliceStable(l, func(i, j int) bool { return l[i].K.SortKey() < l[j].K.SortKey() })
}

func (r *runner) num(lv lua.LValue, what string) int64 {
	n, ok := lv.(lua.LNumber)
	if !ok || float64(n) != math.Trunc(float64(n)) {
		r.failf("%s: not an integer: %v", what, lv)
		return -1
	}
	return int64(n)
}

func (r *runner) next1(how string, cur lua.LValue) (lua.LValue, lua.LValue) {
	switch how {
	case "L.Next":
		return r.L.Next(r.t, cur)
	case "lua.next":
		res, err := r.call("h_next1", r.t, cur)
		if err != nil {
			r.failf("next raised: %v", err)
			return lua.LNil, lua.LNil
		}
		if len(res) == 1 && res[0] == lua.LNil {
			return lua.LNil, lua.LNil
		}
		if len(res) != 2 {
			r.failf("next returned %d values", len(res))
			return lua.LNil, lua.LNil
		}
		return res[0], res[1]
	}
	return r.t.Next(cur)
}

const walkCap = 20000

// exec runs one step against the real code; g != nil means "generate the free choices now".
func (r *runner) exec(s *Step, g *lib.Rand) {
	defer func() {
		if e := recover(); e != nil {
			r.failf("Go panic in %s/%s: %v", s.Op, s.How, e)
		}
	}()
	L, t := r.L, r.t
	var obs any
	var coq string
	switch s.Op {
	case "set":
		r.kinds[s.K.T] = true
		if s.V.IsNil() && t.RawGet(r.pool.L(*s.K)) != lua.LNil {
			r.delPres++
		}
		var m0 runtime.MemStats
		if s.V.IsNil() {
			runtime.ReadMemStats(&m0)
		}
		r.store(s.How, *s.K, *s.V)
		if s.V.IsNil() {
			var m1 runtime.MemStats
			runtime.ReadMemStats(&m1)
			if d := m1.TotalAlloc - m0.TotalAlloc; d > 32<<20 {
				r.failf("storing nil under %s allocated %d MiB", s.K.N, d>>20)
				farTripped = true
			}
		}
		coq = fmt.Sprintf("SSet %s %s %s", setHowCoq(s.How), s.K.CoqKey(), s.V.CoqVal())
	case "get":
		v := r.of(r.load(s.How, *s.K))
		obs = v
		coq = fmt.Sprintf("SGet %s %s %s", getHowCoq(s.How), s.K.CoqKey(), v.CoqVal())
	case "len":
		var n int64
		switch s.How {
		case "L.ObjLen":
			n = int64(L.ObjLen(t))
		case "lua.#":
			res, err := r.call("h_len", t)
			if err != nil || len(res) != 1 {
				r.failf("#t: %v", err)
			} else {
				n = r.num(res[0], "#t")
			}
		case "lua.getn":
			res, err := r.callLib("table", "getn", t)
			if err != nil || len(res) != 1 {
				r.failf("getn: %v", err)
			} else {
				n = r.num(res[0], "getn")
			}
		default:
			n = int64(t.Len())
		}
		obs = n
		coq = "SLen " + lib.CoqZ(n)
	case "maxn":
		var n int64
		if s.How == "lua.maxn" {
			res, err := r.callLib("table", "maxn", t)
			if err != nil || len(res) != 1 {
				r.failf("maxn: %v", err)
			} else {
				n = r.num(res[0], "maxn")
			}
		} else {
			n = int64(t.MaxN())
		}
		obs = n
		coq = "SMaxN " + lib.CoqZ(n)
	case "append":
		if s.How == "lua.insert" {
			if _, err := r.callLib("table", "insert", t, r.pool.L(*s.V)); err != nil {
				r.failf("table.insert raised: %v", err)
			}
		} else {
			t.Append(r.pool.L(*s.V))
		}
		coq = "SAppend " + s.V.CoqVal()
	case "insert":
		var m0, m1 runtime.MemStats
		runtime.ReadMemStats(&m0)
		if s.How == "lua.insert" {
			if _, err := r.callLib("table", "insert", t, lua.LNumber(s.I), r.pool.L(*s.V)); err != nil {
				r.failf("table.insert raised: %v", err)
			}
		} else {
			t.Insert(int(s.I), r.pool.L(*s.V))
		}
		runtime.ReadMemStats(&m1)
		if d := m1.TotalAlloc - m0.TotalAlloc; s.V.IsNil() && d > 32<<20 {
			r.failf("table.insert(t, %d, nil) allocated %d MiB", s.I, d>>20)
			farTripped = true
		}
		coq = fmt.Sprintf("SInsert %s %s", lib.CoqZ(s.I), s.V.CoqVal())
	case "remove":
		var lv lua.LValue = lua.LNil
		if s.How == "lua.remove" {
			res, err := r.callLib("table", "remove", t, lua.LNumber(s.I))
			if err != nil || len(res) != 1 {
				r.failf("table.remove: %v (%d results)", err, len(res))
			} else {
				lv = res[0]
			}
		} else {
			lv = t.Remove(int(s.I))
		}
		v := r.of(lv)
		obs = v
		coq = fmt.Sprintf("SRemove %s %s", lib.CoqZ(s.I), v.CoqVal())
	case "dump":
		var d []tv.KV
		if s.How == "L.ForEach" {
			L.ForEach(t, func(k, v lua.LValue) { d = append(d, tv.KV{K: r.ofKey(k), V: r.of(v)}) })
		} else {
			d = r.dump()
		}
		sortKVs(d)
		obs = d
		coq = "SDump " + tv.CoqKVs(d)
	case "walk":
		var d []tv.KV
		switch s.How {
		case "lua.nextloop", "lua.pairs":
			r.emitted = nil
			fn := "h_next"
			if s.How == "lua.pairs" {
				fn = "h_pairs"
			}
			if _, err := r.call(fn, t); err != nil {
				r.failf("%s raised: %v", fn, err)
			}
			for _, e := range r.emitted {
				d = append(d, tv.KV{K: r.ofKey(e[0]), V: r.of(e[1])})
			}
		default:
			var cur lua.LValue = lua.LNil
			for n := 0; ; n++ {
				k, v := r.next1(s.How, cur)
				if k == lua.LNil {
					break
				}
				if n > walkCap {
					r.failf("Next walk does not terminate")
					break
				}
				d = append(d, tv.KV{K: r.ofKey(k), V: r.of(v)})
				cur = k
			}
		}
		if len(d) > walkCap/2 {
			r.failf("walk visited %d entries", len(d))
			d = d[:40]
		}
		obs = d
		coq = "SWalk " + tv.CoqKVs(d)
	case "ipairs":
		r.emitted = nil
		if _, err := r.call("h_ipairs", t); err != nil {
			r.failf("ipairs raised: %v", err)
		}
		var vs []tv.V
		if len(r.emitted) > walkCap/2 {
			r.failf("ipairs visited %d entries", len(r.emitted))
			r.emitted = r.emitted[:40]
		}
		for i, e := range r.emitted {
			if n, ok := e[0].(lua.LNumber); !ok || int(n) != i+1 {
				r.failf("ipairs index %v at step %d", e[0], i+1)
			}
			vs = append(vs, r.of(e[1]))
		}
		obs = vs
		coq = "SIpairs " + tv.CoqVals(vs)
	case "guard":
		var lk lua.LValue = lua.LNil
		ck := "LKNil"
		if s.K != nil && s.K.T == "nan" {
			lk = lua.LNumber(math.NaN())
			ck = "LKNaN"
		}
		lv := r.pool.L(*s.V)
		raised := false
		switch s.How {
		case "lua.rawset":
			_, err := r.callLib("", "rawset", t, lk, lv)
			raised = err != nil
		case "L.SetTable":
			func() {
				defer func() {
					if e := recover(); e != nil {
						_, isApi := e.(*lua.ApiError)
						raised = isApi
						if !isApi {
							panic(e)
						}
					}
				}()
				L.SetTable(t, lk, lv)
			}()
			L.SetTop(0)
		default:
			_, err := r.call("h_set", t, lk, lv)
			raised = err != nil
		}
		obs = raised
		coq = fmt.Sprintf("SGuard %s %s", ck, lib.CoqBool(raised))
	case "dumprm":
		// ForEach whose callback removes an element once (position s.I counted from the end):
		// the callback must only ever see Lua values that are in the table at that moment.
		// Checked on the Go side only; the history ends here (SStop).
		done := false
		nth := 0
		t.ForEach(func(k, v lua.LValue) {
			nth++
			if v == nil || v == lua.LNil || k == nil || k == lua.LNil {
				r.failf("ForEach callback got a nil key or value (%v, %v)", k, v)
				return
			}
			if cur := t.RawGet(k); cur != v {
				r.failf("ForEach delivered (%v, %v) but the table holds %v there now", k, v, cur)
			}
			if !done && int64(nth) >= s.I {
				done = true
				if m := t.Len(); m > 0 {
					pos := m
					if s.How == "middle" && m > 1 {
						pos = 1 + int(s.I)%m
					}
					t.Remove(pos)
				}
			}
		})
		r.stop = true
		coq = "SStop"
	case "trav":
		type tstep struct {
			K, V tv.V
			U    []tv.KV
		}
		var tr []tstep
		var upds [][]tv.KV
		var cur lua.LValue = lua.LNil
		for n := 0; ; n++ {
			k, v := r.next1(s.How, cur)
			if k == lua.LNil {
				break
			}
			if n > walkCap {
				r.failf("traversal with updates does not terminate")
				break
			}
			var us []tv.KV
			if g != nil {
				us = r.genUpdates(g, r.ofKey(k))
			} else if n < len(s.Upd) {
				us = s.Upd[n]
			}
			for _, u := range us {
				if u.K.T == "remove" { // table.remove(t, pos): only assigns existing fields
					if _, err := r.callLib("table", "remove", t, lua.LNumber(u.V.Float())); err != nil {
						r.failf("table.remove during traversal raised: %v", err)
					}
					continue
				}
				if g != nil && g.Chance(50) {
					r.store("lua.index", u.K, u.V)
				} else {
					r.store("go.RawSet", u.K, u.V)
				}
			}
			upds = append(upds, us)
			tr = append(tr, tstep{r.ofKey(k), r.of(v), us})
			cur = k
		}
		if len(tr) > walkCap/2 {
			r.failf("traversal with updates visited %d entries", len(tr))
			tr = tr[:40]
			upds = upds[:40]
		}
		if g != nil {
			s.Upd = upds
		}
		items := make([]string, len(tr))
		for i, e := range tr {
			us := make([]string, len(e.U))
			for j, u := range e.U {
				if u.K.T == "remove" {
					us[j] = "(URemove " + lib.CoqZ(int64(u.V.Float())) + ")"
				} else {
					us[j] = "(USet " + u.K.CoqKey() + " " + u.V.CoqVal() + ")"
				}
			}
			items[i] = fmt.Sprintf("(%s, %s, %s)", e.K.CoqKey(), e.V.CoqVal(), lib.CoqList(us))
		}
		obs = tr
		coq = "STrav " + lib.CoqList(items)
	default:
		r.failf("unknown op %s", s.Op)
	}
	if t.MaxN() >= r.mai-1 {
		r.bound = true
	}
	r.coq = append(r.coq, "("+coq+")")
	r.obs = append(r.obs, obs)
}

// genUpdates: stores to fields that exist right now (cleared or overwritten), as the property allows.
func (r *runner) genUpdates(g *lib.Rand, cur tv.V) []tv.KV {
	var us []tv.KV
	n := g.Pick(45, 35, 15, 5)
	if n == 0 {
		return nil
	}
	if g.Chance(22) {
		// table.remove: the last element (70 %) or one in the middle; nothing else in this round,
		// the choice of "existing" keys below relies on the dump taken before
		if m := r.t.Len(); m > 0 {
			pos := m
			if g.Chance(30) {
				pos = g.Range(1, m)
			}
			return []tv.KV{{K: tv.V{T: "remove"}, V: tv.Int(int64(pos))}}
		}
	}
	present := r.dump()
	sortKVs(present)
	gone := map[string]bool{}
	for i := 0; i < n && len(present) > 0; i++ {
		var k tv.V
		if g.Chance(40) && !gone[cur.SortKey()] {
			k = cur
		} else {
			k = present[g.Intn(len(present))].K
		}
		if gone[k.SortKey()] {
			continue // it no longer exists: a store would create a new field
		}
		var v tv.V
		if g.Chance(55) {
			v = tv.Nil()
			gone[k.SortKey()] = true
		} else {
			v = genValue(g, false)
		}
		us = append(us, tv.KV{K: k, V: v})
	}
	return us
}

// runCase executes an input and records the case.
func runCase(w *lib.Writer, in *Input, class string, g *lib.Rand, plan func(r *runner, g *lib.Rand) *Step) {
	r := newRunner(in)
	if plan != nil {
		for {
			s := plan(r, g)
			if s == nil || r.fail != "" || r.stop {
				break
			}
			r.exec(s, g)
			in.Steps = append(in.Steps, *s)
		}
	} else {
		for i := range in.Steps {
			r.exec(&in.Steps[i], nil)
			if r.fail != "" || r.stop {
				break
			}
		}
	}
	lua.MaxArrayIndex = defaultMai
	id := w.NextID()
	c := lib.Case{Input: in, Observed: r.obs, Class: class,
		Nontrivial: len(in.Steps) >= 10 && len(r.kinds) >= 2 && r.delPres >= 1,
		Coq:        fmt.Sprintf("mkCase %d %s", in.Mai, lib.CoqList(r.coq))}
	if in.Mai != defaultMai && r.bound {
		c.KF = []string{"C09-2"}
	}
	w.Add(c)
	if r.fail != "" {
		w.GoFail(id, r.fail)
	}
}

func trunc(s string, n int) string {
	s = strings.ReplaceAll(s, "\n", " ")
	if len(s) > n {
		return s[:n]
	}
	return s
}
