package main

import (
	"math"

	"verifh/cmd/c09/tv"
	"verifh/lib"
)

func set(how string, k, v tv.V) Step { return Step{Op: "set", How: how, K: &k, V: &v} }
func get(how string, k tv.V) Step    { return Step{Op: "get", How: how, K: &k} }

// corpus: witnesses of every defect recorded for C09 (fixed ones stay as regression cases) and
// hand-written histories for the situations the property text names.
func corpus(w *lib.Writer) {
	S := tv.Str
	I := tv.Int
	fin := finale()
	add := func(class string, mai int, newk string, steps ...Step) {
		in := &Input{Mai: mai, New: newk, Steps: append(steps, fin...)}
		runCase(w, in, class, nil, nil)
	}
	// C09-1 (fixed 875f0ec): RawSetInt routes keys < 1 and >= MaxArrayIndex to the hash part, RawGetInt must find them
	add("corpus", defaultMai, "NewTable",
		set("go.RawSetInt", I(0), S("zero")), get("go.RawGetInt", I(0)), get("go.RawGet", I(0)),
		set("go.RawSetInt", I(-1), S("neg")), get("go.RawGetInt", I(-1)),
		set("go.RawSetInt", I(defaultMai), S("big")), get("go.RawGetInt", I(defaultMai)), get("L.RawGetInt", I(defaultMai)),
		set("go.RawSet", I(0), tv.Nil()), get("go.RawGetInt", I(0)))
	// C09-1 at the Lua level: ipairs must continue across ... and t[0] is not visited by ipairs
	add("corpus", defaultMai, "lua", set("lua.index", I(0), S("z")), set("lua.index", I(1), S("a")), Step{Op: "ipairs"})
	// C09-2 (open): at the MaxArrayIndex boundary Len is not a border (lowered MaxArrayIndex)
	add("corpus-smallmai", 4, "NewTable",
		set("lua.index", I(1), I(1)), set("lua.index", I(2), I(2)), set("lua.index", I(3), I(3)), set("lua.index", I(4), I(4)),
		Step{Op: "len", How: "lua.#"}, get("lua.index", I(4)))
	// C09-2, second face: table.insert/Append past MaxArrayIndex-1 cells stores into a cell no read reaches
	add("corpus-smallmai", 4, "lua",
		Step{Op: "append", How: "lua.insert", V: vp(I(1))}, Step{Op: "append", How: "lua.insert", V: vp(I(2))},
		Step{Op: "append", How: "lua.insert", V: vp(I(3))}, Step{Op: "append", How: "lua.insert", V: vp(I(4))},
		get("lua.index", I(4)))
	// C09-2, third face (hunt2 C18 obs-2): the lost element, then a second value for the same key
	add("corpus-smallmai", 4, "lua",
		Step{Op: "append", How: "lua.insert", V: vp(I(1))}, Step{Op: "append", How: "lua.insert", V: vp(I(2))},
		Step{Op: "append", How: "lua.insert", V: vp(I(3))}, Step{Op: "append", How: "lua.insert", V: vp(I(4))},
		get("lua.index", I(4)), set("lua.index", I(4), I(9)), get("lua.index", I(4)), Step{Op: "dump", How: "go.ForEach"}, Step{Op: "walk", How: "lua.pairs"})
	// 1 and 1.0 one key, "1" another; storing nil deletes; last write wins
	add("corpus", defaultMai, "CreateTable",
		set("lua.index", I(1), S("int")), set("lua.index", S("1"), S("str")), get("lua.index", tv.Num(1.0)), get("lua.index", S("1")),
		set("go.RawSetString", S("1"), tv.Nil()), get("go.RawGet", S("1")), get("go.RawGetInt", I(1)),
		set("go.RawSet", I(1), I(7)), set("L.SetTable", tv.Num(1.0), I(8)), get("go.RawGet", I(1)),
		set("lua.rawset", I(1), tv.Nil()), get("lua.index", I(1)))
	// delete / re-insert cycles in the hash part keep one slot per key; -0.0 is the key 0
	add("corpus", defaultMai, "NewTable",
		set("go.RawSetString", S("a"), I(1)), set("go.RawSetH", tv.Bool(true), I(2)), set("go.RawSet", tv.Num(0.5), I(3)),
		set("go.RawSetString", S("a"), tv.Nil()), Step{Op: "walk", How: "go.Next"}, set("lua.field", S("a"), I(4)),
		set("go.RawSet", tv.Num(math.Copysign(0, -1)), I(5)), get("go.RawGet", I(0)), get("go.RawGetInt", I(0)),
		set("go.RawSetH", tv.Bool(true), tv.Nil()), set("go.RawSetH", tv.Bool(true), tv.Bool(false)),
		Step{Op: "walk", How: "lua.pairs"}, Step{Op: "dump", How: "L.ForEach"})
	// holes, growth across a gap, trailing nils, Len/MaxN, append into a trailing hole
	add("corpus", defaultMai, "lua",
		set("lua.index", I(1), I(1)), set("lua.index", I(2), I(2)), set("lua.index", I(5), I(5)), Step{Op: "len", How: "lua.#"},
		set("lua.index", I(5), tv.Nil()), Step{Op: "len", How: "go.Len"}, Step{Op: "maxn", How: "go.MaxN"},
		Step{Op: "append", How: "go.Append", V: vp(I(9))}, set("lua.index", I(2), tv.Nil()), Step{Op: "len", How: "L.ObjLen"},
		Step{Op: "ipairs"}, Step{Op: "insert", How: "go.Insert", I: 2, V: vp(I(7))}, Step{Op: "remove", How: "go.Remove", I: 1},
		Step{Op: "remove", How: "go.Remove", I: 9}, Step{Op: "insert", How: "lua.insert", I: 0, V: vp(S("zero"))})
	// hunt C09 obs-1 (fixed 2ba8ccb): table.remove(t) during pairs must not hide the first hash key
	add("corpus", defaultMai, "lua",
		set("lua.index", I(1), I(10)), set("lua.index", I(2), I(20)), set("lua.index", I(3), I(30)), set("lua.field", S("x"), I(1)), set("lua.field", S("y"), I(2)),
		Step{Op: "trav", How: "lua.next", Upd: [][]tv.KV{{}, {}, {{K: tv.V{T: "remove"}, V: I(3)}}}})
	add("corpus", defaultMai, "NewTable",
		set("go.RawSet", I(1), I(1)), set("go.RawSet", I(2), I(2)), set("go.RawSet", I(3), I(3)), set("go.RawSet", I(4), I(4)), set("go.RawSet", S("h"), I(5)),
		Step{Op: "trav", How: "go.Next", Upd: [][]tv.KV{{{K: tv.V{T: "remove"}, V: I(1)}}, {{K: tv.V{T: "remove"}, V: I(3)}}, {{K: tv.V{T: "remove"}, V: I(2)}}}})
	// hunt C09 obs-2 (fixed cc364f6): ForEach whose callback removes an element
	runCase(w, &Input{Mai: defaultMai, New: "NewTable", Steps: []Step{set("go.RawSet", I(1), I(1)), set("go.RawSet", I(2), I(2)), set("go.RawSet", I(3), I(3)),
		set("go.RawSet", I(4), I(4)), set("go.RawSet", I(5), I(5)), {Op: "dumprm", How: "middle", I: 2}}}, "corpus", nil, nil)
	runCase(w, &Input{Mai: defaultMai, New: "NewTable", Steps: []Step{set("go.RawSet", I(1), I(1)), set("go.RawSet", I(2), I(2)), set("go.RawSet", I(3), I(3)),
		{Op: "dumprm", How: "last", I: 1}}}, "corpus", nil, nil)
	// hunt2 C09 obs-3 (fixed): deleting an absent key far above the array part must not grow it
	far := I(defaultMai - 1)
	add("corpus", defaultMai, "lua",
		set("lua.index", far, tv.Nil()), set("lua.rawset", far, tv.Nil()), set("go.RawSetInt", far, tv.Nil()), set("go.RawSet", far, tv.Nil()),
		set("L.SetTable", far, tv.Nil()), set("L.RawSetInt", I(1000000), tv.Nil()),
		Step{Op: "insert", How: "lua.insert", I: defaultMai - 2, V: vp(tv.Nil())}, Step{Op: "insert", How: "go.Insert", I: 5000000, V: vp(tv.Nil())},
		set("lua.index", I(1), I(1)), set("lua.index", I(3), tv.Nil()), set("lua.index", I(2), tv.Nil()), Step{Op: "len", How: "lua.#"},
		get("lua.index", far))
	// traversal while clearing every visited field, then while overwriting
	add("corpus", defaultMai, "NewTable",
		set("go.RawSet", I(1), I(1)), set("go.RawSet", I(2), I(2)), set("go.RawSet", S("x"), I(3)), set("go.RawSet", tv.Obj(1), I(4)),
		set("go.RawSet", tv.Num(-3), I(5)),
		Step{Op: "trav", How: "go.Next", Upd: [][]tv.KV{{{K: I(1), V: tv.Nil()}}, {{K: I(2), V: tv.Nil()}, {K: S("x"), V: I(30)}}, {{K: S("x"), V: tv.Nil()}}, {{K: tv.Num(-3), V: tv.Nil()}}}},
		Step{Op: "guard", How: "lua.index", K: &tv.V{T: "nil"}, V: vp(I(1))}, Step{Op: "guard", How: "lua.rawset", K: &tv.V{T: "nan"}, V: vp(I(1))},
		Step{Op: "guard", How: "L.SetTable", K: &tv.V{T: "nan"}, V: vp(tv.Nil())})
}
