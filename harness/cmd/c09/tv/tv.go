// Package tv: canonical keys and values of the table model (coq/Table/TImpl.v) and their
// translation to and from gopher-lua values. Shared by the C09 and C18 harnesses.
package tv

import (
	"encoding/hex"
	"fmt"
	"math"
	"math/big"
	"strconv"

	lua "github.com/yuin/gopher-lua"
	"verifh/lib"
)

// V is a Lua value used as a key or as a stored value.
// T: "nil" | "n" (number, N = shortest round-trip text) | "s" (S = hex bytes) | "b" | "o" (object id O)
type V struct {
	T string `json:"t"`
	N string `json:"n,omitempty"`
	S string `json:"s,omitempty"`
	B bool   `json:"b,omitempty"`
	O int    `json:"o,omitempty"`
}

func Nil() V            { return V{T: "nil"} }
func Num(f float64) V   { return V{T: "n", N: strconv.FormatFloat(f, 'g', -1, 64)} }
func Int(i int64) V     { return Num(float64(i)) }
func Str(s string) V    { return V{T: "s", S: hex.EncodeToString([]byte(s))} }
func Bool(b bool) V     { return V{T: "b", B: b} }
func Obj(id int) V      { return V{T: "o", O: id} }
func (v V) IsNil() bool { return v.T == "nil" }

func (v V) Float() float64 {
	f, _ := strconv.ParseFloat(v.N, 64)
	return f
}

func (v V) Bytes() []byte {
	b, _ := hex.DecodeString(v.S)
	return b
}

// Pool is the set of object identities a case may use (tables).
type Pool struct{ Objs []*lua.LTable }

func NewPool(L *lua.LState, n int) *Pool {
	p := &Pool{}
	for i := 0; i < n; i++ {
		p.Objs = append(p.Objs, L.NewTable())
	}
	return p
}

func (p *Pool) L(v V) lua.LValue {
	switch v.T {
	case "n":
		return lua.LNumber(v.Float())
	case "s":
		return lua.LString(string(v.Bytes()))
	case "b":
		return lua.LBool(v.B)
	case "o":
		return p.Objs[v.O]
	}
	return lua.LNil
}

// Of canonicalises an observed value; ok=false for something the model has no term for.
func (p *Pool) Of(lv lua.LValue) (V, bool) {
	switch x := lv.(type) {
	case *lua.LNilType:
		return Nil(), true
	case lua.LNumber:
		if math.IsNaN(float64(x)) {
			return V{}, false
		}
		return Num(float64(x)), true
	case lua.LString:
		return Str(string(x)), true
	case lua.LBool:
		return Bool(bool(x)), true
	case *lua.LTable:
		for i, o := range p.Objs {
			if o == x {
				return Obj(i), true
			}
		}
	}
	if lv == nil {
		return V{}, false
	}
	return V{}, false
}

// IsIntegral: the number has an integer value (the model's KInt).
func IsIntegral(f float64) bool { return !math.IsInf(f, 0) && !math.IsNaN(f) && f == math.Trunc(f) }

func bigZ(f float64) string {
	bf := new(big.Float).SetFloat64(f)
	z, _ := bf.Int(nil)
	s := z.String()
	if z.Sign() < 0 {
		return "(" + s + ")"
	}
	return s
}

// CoqKey prints the value as a term of type key.
func (v V) CoqKey() string {
	switch v.T {
	case "n":
		f := v.Float()
		if math.IsInf(f, 0) {
			return "(KInf " + lib.CoqBool(f < 0) + ")"
		}
		if IsIntegral(f) {
			return "(KInt " + bigZ(f) + ")"
		}
		m, e, _ := lib.Dyadic(f)
		return fmt.Sprintf("(KDy %s %s)", lib.CoqZ(m), lib.CoqZ(int64(e)))
	case "s":
		return "(KStr " + lib.CoqBytes(v.Bytes()) + ")"
	case "b":
		return "(KBool " + lib.CoqBool(v.B) + ")"
	case "o":
		return "(KObj " + strconv.Itoa(v.O) + ")"
	}
	panic("nil is not a key")
}

// ValOK: the model's values are nil, integral numbers, strings, booleans, objects.
func (v V) ValOK() bool { return v.T != "n" || IsIntegral(v.Float()) }

// CoqVal prints the value as a term of type value.
func (v V) CoqVal() string {
	switch v.T {
	case "nil":
		return "VNil"
	case "n":
		return "(VNum " + bigZ(v.Float()) + ")"
	case "s":
		return "(VStr " + lib.CoqBytes(v.Bytes()) + ")"
	case "b":
		return "(VBool " + lib.CoqBool(v.B) + ")"
	case "o":
		return "(VObj " + strconv.Itoa(v.O) + ")"
	}
	panic("bad value")
}

// KV is one observed table entry.
type KV struct {
	K V `json:"k"`
	V V `json:"v"`
}

func CoqKV(k, v V) string { return "(" + k.CoqKey() + ", " + v.CoqVal() + ")" }

func CoqKVs(l []KV) string {
	it := make([]string, len(l))
	for i, p := range l {
		it[i] = CoqKV(p.K, p.V)
	}
	return lib.CoqList(it)
}

func CoqVals(l []V) string {
	it := make([]string, len(l))
	for i, p := range l {
		it[i] = p.CoqVal()
	}
	return lib.CoqList(it)
}

// SortKey orders entries canonically (map iteration order is never an observable).
func (v V) SortKey() string {
	switch v.T {
	case "n":
		return fmt.Sprintf("n%+025.6f|%s", clampf(v.Float()), v.N)
	case "s":
		return "s" + v.S
	case "b":
		return "b" + strconv.FormatBool(v.B)
	case "o":
		return "o" + strconv.Itoa(v.O)
	}
	return "~"
}

func clampf(f float64) float64 {
	if f > 1e17 {
		return 1e17
	}
	if f < -1e17 {
		return -1e17
	}
	return f
}
