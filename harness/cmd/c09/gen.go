package main

import (
	"encoding/json"
	"math"
	"os"

	"verifh/cmd/c09/tv"
	"verifh/lib"
)

var strPool = []string{"", "1", "a", "x1", "key", "\x00\xff", "1.0", "n", "end", "_u", "0", "-1"}

func genValue(g *lib.Rand, allowNil bool) tv.V {
	if allowNil && g.Chance(22) {
		return tv.Nil()
	}
	switch g.Pick(40, 22, 12, 8) {
	case 0:
		return tv.Int(int64(g.Range(-3, 40)))
	case 1:
		return tv.Str(strPool[g.Intn(len(strPool))])
	case 2:
		return tv.Bool(g.Chance(60) == false)
	}
	return tv.Obj(g.Intn(3))
}

// specialKeys: hash-part numbers, strings, booleans, objects.
func specialKey(g *lib.Rand, mai int) tv.V {
	switch g.Pick(30, 12, 30, 10, 10) {
	case 0:
		c := []float64{0, -1, -7, float64(mai), float64(mai) + 1, 1 << 53, -(1 << 53), 1e300, math.Ldexp(1, 63), -0.0, float64(mai) + 5}
		return tv.Num(c[g.Intn(len(c))])
	case 1:
		c := []float64{0.5, 1.5, -2.25, float64(mai) + 0.5, math.Inf(1), math.Inf(-1), 2.5, 1e-3}
		return tv.Num(c[g.Intn(len(c))])
	case 2:
		if g.Chance(80) {
			return tv.Str(strPool[g.Intn(len(strPool))])
		}
		return tv.Str(string(g.Bytes(g.Range(1, 4), []byte("abz09_\x00\xff "))))
	case 3:
		return tv.Bool(g.Bool())
	}
	return tv.Obj(g.Intn(3))
}

// arrayKey: a positive integer close to the current array part (never far above it: the array
// part is grown up to the key).
func arrayKey(g *lib.Rand, r *runner) tv.V {
	n := r.t.MaxN()
	var k int
	switch g.Pick(38, 14, 8, 28, 6, 6) {
	case 0:
		k = n + 1
	case 1:
		k = n
	case 2:
		k = n + g.Range(2, 3)
	case 3:
		k = g.Range(1, n+1)
	case 4:
		k = 1
	default:
		k = n + 1 + g.Intn(7)
	}
	if k < 1 {
		k = 1
	}
	if r.mai == defaultMai && k >= r.mai {
		k = 1
	}
	return tv.Int(int64(k))
}

type profile struct {
	name    string
	arrPct  int // share of array-range keys among stores/reads
	weights []int
	// set get len maxn append insert remove dump walk ipairs guard trav
}

var profiles = []profile{
	{"mixed", 45, []int{46, 16, 6, 2, 4, 4, 4, 4, 5, 3, 1, 3}},
	{"hash", 10, []int{55, 18, 3, 1, 1, 1, 1, 6, 8, 1, 1, 4}},
	{"array", 88, []int{42, 12, 10, 4, 7, 7, 7, 3, 3, 4, 0, 1}},
	{"trav", 35, []int{50, 6, 2, 1, 2, 1, 1, 3, 6, 1, 0, 27}},
}

var setHows = []string{"go.RawSet", "go.RawSetInt", "go.RawSetString", "go.RawSetH", "L.RawSet", "L.RawSetInt", "L.SetTable", "L.SetField", "lua.index", "lua.rawset", "lua.field"}
var getHows = []string{"go.RawGet", "go.RawGetInt", "go.RawGetString", "go.RawGetH", "L.RawGet", "L.RawGetInt", "L.GetTable", "L.GetField", "lua.index", "lua.rawget", "lua.field"}

// farTripped: a far nil store already allocated a huge array part in this run (do not repeat
// the multi-GB allocation for every later case)
var farTripped bool

type planner struct {
	far     bool
	prelude []Step
	prof    profile
	left    int
	pool    []tv.V
	finale  []Step
}

func (p *planner) key(g *lib.Rand, r *runner) tv.V {
	if g.Chance(p.prof.arrPct) {
		return arrayKey(g, r)
	}
	if len(p.pool) > 0 && g.Chance(85) {
		return p.pool[g.Intn(len(p.pool))]
	}
	k := specialKey(g, r.mai)
	if len(p.pool) < 14 {
		p.pool = append(p.pool, k)
	}
	return k
}

func (p *planner) smallKey(g *lib.Rand, r *runner) tv.V {
	if g.Chance(80) {
		return tv.Int(int64(g.Range(-1, r.mai+3)))
	}
	return p.key(g, r)
}

func vp(v tv.V) *tv.V { return &v }

func (p *planner) next(r *runner, g *lib.Rand) *Step {
	if len(p.prelude) > 0 {
		s := p.prelude[0]
		p.prelude = p.prelude[1:]
		return &s
	}
	if p.left <= 0 {
		if len(p.finale) == 0 {
			return nil
		}
		s := p.finale[0]
		p.finale = p.finale[1:]
		return &s
	}
	p.left--
	small := r.mai != defaultMai
	key := func() tv.V {
		if small {
			return p.smallKey(g, r)
		}
		return p.key(g, r)
	}
	pos := func() int64 {
		n := r.t.MaxN()
		switch g.Pick(30, 25, 30, 10, 5) {
		case 0:
			return int64(n + 1)
		case 1:
			return int64(n)
		case 2:
			return int64(g.Range(1, n+1))
		case 3:
			return int64(n + g.Range(2, 4))
		}
		return 1
	}
	switch g.Pick(p.prof.weights...) {
	case 0:
		if !small && p.far && !farTripped && g.Chance(10) {
			p.far = false
			// deleting an absent key far above the array part (must not grow it)
			k := tv.Int(int64(defaultMai - 1 - g.Intn(1000000)))
			how := []string{"lua.index", "go.RawSet", "go.RawSetInt", "lua.rawset", "L.SetTable"}[g.Intn(5)]
			return &Step{Op: "set", How: how, K: vp(k), V: vp(tv.Nil())}
		}
		k := key()
		how := setHows[g.Intn(len(setHows))]
		for tries := 0; !r.setHowOK(how, k); tries++ {
			how = setHows[g.Intn(len(setHows))]
		}
		return &Step{Op: "set", How: how, K: vp(k), V: vp(genValue(g, true))}
	case 1:
		k := key()
		how := getHows[g.Intn(len(getHows))]
		for !r.getHowOK(how, k) {
			how = getHows[g.Intn(len(getHows))]
		}
		return &Step{Op: "get", How: how, K: vp(k)}
	case 2:
		return &Step{Op: "len", How: []string{"go.Len", "L.ObjLen", "lua.#", "lua.getn"}[g.Intn(4)]}
	case 3:
		return &Step{Op: "maxn", How: "go.MaxN"}
	case 4:
		return &Step{Op: "append", How: []string{"go.Append", "lua.insert"}[g.Intn(2)], V: vp(genValue(g, g.Chance(20)))}
	case 5:
		return &Step{Op: "insert", How: []string{"go.Insert", "lua.insert"}[g.Intn(2)], I: pos(), V: vp(genValue(g, g.Chance(10)))}
	case 6:
		return &Step{Op: "remove", How: "go.Remove", I: pos()}
	case 7:
		return &Step{Op: "dump", How: []string{"go.ForEach", "L.ForEach"}[g.Intn(2)]}
	case 8:
		return &Step{Op: "walk", How: []string{"go.Next", "L.Next", "lua.next", "lua.nextloop", "lua.pairs"}[g.Intn(5)]}
	case 9:
		return &Step{Op: "ipairs"}
	case 10:
		k := tv.V{T: "nil"}
		if g.Bool() {
			k = tv.V{T: "nan"}
		}
		return &Step{Op: "guard", How: []string{"lua.index", "lua.rawset", "L.SetTable"}[g.Intn(3)], K: &k, V: vp(genValue(g, true))}
	}
	return &Step{Op: "trav", How: []string{"go.Next", "L.Next", "lua.next"}[g.Intn(3)]}
}

func finale() []Step {
	return []Step{{Op: "dump", How: "go.ForEach"}, {Op: "walk", How: "go.Next"}, {Op: "len", How: "go.Len"}, {Op: "maxn", How: "go.MaxN"}, {Op: "ipairs"}}
}

func generate(w *lib.Writer, r *lib.Rand, tier string) {
	n, lo, hi := 720, 20, 80
	if tier == "thorough" {
		n, lo, hi = 6000, 30, 200
	}
	news := []string{"NewTable", "CreateTable", "lua"}
	for i := 0; i < n; i++ {
		g := r.Fork()
		in := &Input{Mai: defaultMai, New: news[g.Intn(3)]}
		var prof profile
		class := ""
		if g.Chance(7) {
			in.Mai = g.Range(3, 10)
			prof = profiles[2]
			if g.Bool() {
				prof = profiles[0]
			}
			class = "smallmai-" + prof.name
		} else {
			prof = profiles[g.Pick(35, 20, 25, 20)]
			class = prof.name
		}
		p := &planner{prof: prof, left: g.Range(lo, hi), finale: finale(), far: g.Chance(4)}
		if in.Mai != defaultMai {
			p.left = g.Range(10, 40)
		} else if g.Chance(8) {
			// a large array part (beyond any small-array special case of Len) ending in nil cells / holes
			class = "bigarray"
			p.prof = profiles[2]
			p.left = g.Range(8, 25)
			k := g.Range(60, 160)
			for i := 1; i <= k; i++ {
				p.prelude = append(p.prelude, set("go.RawSetInt", tv.Int(int64(i)), tv.Int(int64(i%7))))
			}
			for j := g.Range(1, 3); j > 0; j-- { // trailing nil cells
				p.prelude = append(p.prelude, set("lua.index", tv.Int(int64(k)), tv.Nil()))
				k--
			}
			if g.Chance(40) { // a hole in the middle
				p.prelude = append(p.prelude, set("go.RawSet", tv.Int(int64(g.Range(2, k-1))), tv.Nil()))
			}
			for _, how := range []string{"go.Len", "lua.#", "L.ObjLen", "lua.getn"} {
				p.prelude = append(p.prelude, Step{Op: "len", How: how})
			}
			p.prelude = append(p.prelude, Step{Op: "maxn", How: "go.MaxN"}, Step{Op: "ipairs"})
		}
		if g.Chance(6) && in.Mai == defaultMai {
			// end the history with a ForEach whose callback removes an element (Go-side check; not at the
			// lowered-MaxArrayIndex boundary, where ForEach reports unreachable cells: finding C09-2)
			how := "last"
			if g.Bool() {
				how = "middle"
			}
			p.finale = []Step{{Op: "append", How: "go.Append", V: vp(tv.Int(1))}, {Op: "append", How: "go.Append", V: vp(tv.Int(2))},
				{Op: "append", How: "go.Append", V: vp(tv.Int(3))}, {Op: "dumprm", How: how, I: int64(g.Range(1, 4))}}
		}
		runCase(w, in, class, g, p.next)
	}
}

func replay(w *lib.Writer, file string) {
	b, err := os.ReadFile(file)
	if err != nil {
		panic(err)
	}
	var rp struct {
		Input Input `json:"input"`
	}
	if err := json.Unmarshal(b, &rp); err != nil {
		panic(err)
	}
	runCase(w, &rp.Input, "replay", nil, nil)
}
