// c09: correspondence harness for property C09 (a table is a finite map with a valid border and
// complete traversal). One case = one history on one table, driven through LTable's exported API
// and the Lua-level spellings, every step carrying what the real code returned.
package main

import (
	"fmt"
	"os"

	"verifh/lib"
)

const header = "From GL Require Import Common.Bytes Table.TImpl Table.TSpec Table.TCases."

func main() {
	a := lib.ParseArgs()
	if a.Cmd != "run" {
		fmt.Fprintln(os.Stderr, "unknown command", a.Cmd)
		os.Exit(2)
	}
	w, err := lib.NewWriter(a.Out, "C09", a.Tier, a.Seed, header, "case", 48)
	if err != nil {
		panic(err)
	}
	w.Meta.Rule = "one case = one history (stores/deletes/reads/len/maxn/append/insert/remove/ForEach dump/full Next walk/ipairs/" +
		"traversal with stores to existing fields) on a fresh table through LTable's API, LState's API and compiled Lua (t[k]=v, #t, next, pairs, ipairs, rawset/rawget, table.*); " +
		"keys: ints around the array length, 0, negatives, 2^26, 2^53, 1e300, halves, +-inf, strings, booleans, tables; 85% from a per-case pool; " +
		"non-trivial = at least 10 steps, at least 2 key kinds, at least one deletion of a present key; distinct by Gallina term"
	r := lib.NewRand(a.Seed)
	if a.Replay != "" {
		replay(w, a.Replay)
	} else {
		corpus(w)
		generate(w, r, a.Tier)
	}
	if err := w.Close(); err != nil {
		panic(err)
	}
}
