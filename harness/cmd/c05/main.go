// c05: errors at any point are contained by protected calls and leave state intact.
package main

import (
	"encoding/json"
	"fmt"
	"os"
	"sort"
	"strings"
	"sync"
	"time"

	"verifh/lib"
	"verifh/luagen"
	"verifh/luaprop"
)

var cfgForExtra *luaprop.Config

// devSrc (./c05 src file.lua): development aid -- runs one Lua text through the corpus path and prints
// a Coq file evaluating check_skip / check_spec on it.
func devSrc(file string) {
	b, _ := os.ReadFile(file)
	prog, err := luagen.ParseCorpus(string(b))
	if err != nil {
		panic(err)
	}
	text := luagen.PrintLua(prog)
	if len(os.Args) > 3 { // ./c05 src file.lua K [str]: the K-th emit call fails
		k := 0
		fmt.Sscan(os.Args[3], &k)
		str := len(os.Args) > 4
		out := luagen.RunIsolated(text, 20*time.Second, &luagen.RunOptions{EmitFault: k, FaultString: str})
		fmt.Printf("%s\nOpen Scope Z_scope.\nDefinition cc : case := CProgF %d %v %s %s.\nEval vm_compute in (check_skip cc, check_spec cc, check_impl cc).\nEval vm_compute in (fst (run_case no_devs cc)).\n(* %v *)\n",
			luaprop.Header, k, str, luagen.CoqBlock(prog), out.Coq(), out.Summary())
		return
	}
	out := luagen.RunIsolated(text, 20*time.Second, nil)
	fmt.Printf("%s\nOpen Scope Z_scope.\nDefinition cc : case := CProg %s %s.\nEval vm_compute in (check_skip cc, check_spec cc, check_impl cc).\n(* %v *)\n",
		luaprop.Header, luagen.CoqBlock(prog), out.Coq(), out.Summary())
}

// replayGoSide: a replay file whose input is a Go-side case (key "api") re-runs the Go-side families (they
// are deterministic in the seed and take seconds); the generated-program replays stay with luaprop.
func replayGoSide() bool {
	if len(os.Args) < 2 || os.Args[1] != "run" {
		return false
	}
	a := lib.ParseArgs()
	if a.Replay == "" {
		return false
	}
	b, _ := os.ReadFile(a.Replay)
	var rp struct {
		Input map[string]any `json:"input"`
		Seed  uint64         `json:"seed"`
	}
	if json.Unmarshal(b, &rp) != nil || rp.Input["api"] == nil {
		return false
	}
	w, err := lib.NewWriter(a.Out, "C05", a.Tier, a.Seed, luaprop.VMHeader, "vcase", 20)
	if err != nil {
		panic(err)
	}
	w.HasSkip = true
	w.Meta.Rule = "replay of the Go-side families (API-level protected calls, limits, bookkeeping after histories)"
	seed := a.Seed
	if rp.Seed != 0 {
		seed = rp.Seed
	}
	apiProtected(w, a.Tier, seed)
	wave5(w, a.Tier, seed)
	if err := w.Close(); err != nil {
		panic(err)
	}
	return true
}

func main() {
	if len(os.Args) > 2 && os.Args[1] == "src" {
		devSrc(os.Args[2])
		return
	}
	if replayGoSide() {
		return
	}
	f := luagen.CoreFeatures()
	f.Errors, f.FaultPct, f.Closures, f.Meta, f.Coroutines, f.Funcs, f.Goto = 16, 75, 4, 3, 3, 4, 1
	cfgForExtra = &luaprop.Config{
		Prop: "C05",
		Rule: "generated programs dominated by protected calls (pcall/xpcall, nested) whose bodies raise error() with values of every type and level 0/1/2, runtime faults (index/call/arith/compare/concat), assert, " +
			"also from nested calls, metamethods and coroutines; after each the program keeps using the caller's locals, upvalues and tables; traces compared with the reference evaluator; " +
			"mode history: one contained error repeated N times (N small or around the internal limits 200/256) along a chosen route to a chosen catcher, then probes of coroutines, nested resumes/pcalls/metamethods and handlers; " +
			"Go-side families: handlers at every internal limit and entry depth, white-box counters after every contained error and black-box nesting gauges after long histories, exact values raised by Go functions; " +
			"non-trivial = at least 5 emitted rows or an error outcome; distinct by Gallina term",
		Modes: []luaprop.Mode{{Name: "errors", Features: f, Weight: 3},
			{Name: "errors-autostack", Features: f, Weight: 1, Run: &luagen.RunOptions{MinimizeStack: true, CallStackSize: 64, Timeout: 15 * time.Second}},
			// wave 5: a long history of one contained error along a chosen route, then probes of every
			// mechanism whose bookkeeping the failed protected calls could have disturbed (history.go)
			{Name: "history", Features: f, Weight: 1, Gen: historyGen}},
		// the child's own guard: 15 s instead of the default 5 s (a 250-iteration history on a loaded machine is
		// not a hang; a real one still runs into it, and into the parent's 20 s)
		RunOptions: &luagen.RunOptions{Timeout: 15 * time.Second},
		NQuick:     150,
		NThorough:  2500,
		Corpus:     corpus,
		VM:         true,
		Isolate:    true,
		Extra: func(w *lib.Writer, tier string, seed uint64) {
			faultEnumeration(w, tier, seed)
			apiProtected(w, tier, seed)
			referenceOnly(w)
			wave5(w, tier, seed)
		},
		KF: func(uses map[string]int, src string) []string {
			var k []string
			if uses["xpcall"] > 0 || uses["closure-after-xpcall-error"] > 0 || strings.Contains(src, "xpcall(") {
				k = append(k, "C05-5") // only matters when a message handler itself fails
			}
			return k
		},
	}
	luaprop.Main(cfgForExtra)
}

var corpus = []string{
	`local function dive(n) if n == 0 then local ok, e = pcall(error, {code = 1}); return ok, e.code end; local a, b = dive(n - 1); return a, b + 1 end; for d = 0, 20 do emit(d, dive(d)) end`,
	`local t = {[""] = function() error("x") end}; emit(pcall(function() t[""]() end))`,
	`local co = coroutine.create(math.max); emit(coroutine.resume(co, 1, 5, 3)); emit(coroutine.status(co), coroutine.running())`,
	`emit(pcall(error)); emit(pcall(error, nil)); emit(pcall(error, "s")); emit(pcall(error, "s", 0)); emit(pcall(error, {1})); emit(pcall(error, true)); emit(pcall(error, 12, 0))`,
	`local function f() error("lvl1") end; local function g() error("lvl0", 0) end; emit(pcall(f)); emit(pcall(g)); emit(pcall(function() local t = nil; return t.x end)); emit(pcall(function() return 1 + {} end)); emit(pcall(function() return {} < {} end)); emit(pcall(function() return "a" .. {} end)); emit(pcall(function() local f; f() end))`,
	`local log = {}; local ok, e = xpcall(function() error("E") end, function(m) log[#log+1] = m; return "handled:" .. m end); emit(ok, e, #log)`,
	`local x = 1; local t = {1,2,3}; local ok = pcall(function() x = 2; t[#t+1] = 4; error("after side effects") end); emit(ok, x, #t); local ok2, a, b = pcall(function() return 1, 2 end); emit(ok2, a, b)`,
	`local ok, e = pcall(function() local ok2, e2 = pcall(error, "inner"); emit("inner caught", ok2, e2); error("outer") end); emit(ok, e)`,
	`local o = setmetatable({}, {__index = function(t, k) error("idx:" .. k) end, __add = function() error({code = 7}) end}); emit(pcall(function() return o.foo end)); local ok, e = pcall(function() return o + 1 end); emit(ok, type(e), e.code)`,
	`local co = coroutine.create(function() error("in co") end); emit(coroutine.resume(co)); emit(coroutine.status(co)); emit(pcall(coroutine.wrap(function() error({}) end)))`,
	`emit(pcall(function() assert(false) end)); emit(pcall(function() assert(nil, "msg") end)); emit(pcall(assert, 1, 2, 3)); emit(select('#', pcall(function() assert(false) end)))`,
	`local function thrower() error("x") end; for i = 1, 3 do local ok, e = pcall(thrower); emit(i, ok, e) end; local n = 0; while n < 3 do n = n + 1; pcall(error, n) end; emit(n)`,
	// wave 5: the C-call depth after a protected call with a handler, seen through the only thing it decides
	// inside the models: whether the coroutine may still yield (the handler-raises variant is in
	// referenceOnly, history.go: VMX/Step.v does not follow 8afd4e6 yet, notes/VMX-todo.md item 4)
	`local co = coroutine.wrap(function() emit(xpcall(function() error("a", 0) end, function(m) return m .. "!" end)); emit(pcall(error, {})); local r = coroutine.yield(1); return r + 1 end); emit(co()); emit(co(41))`,
	// 250 contained errors leaving a coroutine through its wrap function, then ordinary coroutines (seed C05-10 class)
	`local n = 0; for i = 1, 250 do local ok, e = pcall(coroutine.wrap(function() error({code = i}) end)); if not ok and e.code == i then n = n + 1 end end; emit(n); local co = coroutine.create(function(a) local b = coroutine.yield(a + 1); return b * 2 end); emit(coroutine.resume(co, 1)); emit(coroutine.resume(co, 21)); local g = coroutine.wrap(function() for i = 1, 3 do coroutine.yield(i) end end); emit(pcall(g))`,
}

// faultEnumeration: (a) host-call faults: for generated programs the k-th emit call raises, for every
// k up to the fault-free number of emit calls (cap per tier) — compared exactly with the evaluator
// under the same injection; (b) instruction-boundary faults: a one-shot done-context at the k-th
// dispatch poll of the main thread, for every k up to the fault-free poll count (sampled above the
// cap) — checked against the property's own predicates on the Go side: nothing escapes as a Go
// panic, the injected error is delivered at most once, an uncaught fault leaves a prefix of the
// fault-free trace, and the same state then has an empty stack and runs a fixed epilogue.
func faultEnumeration(w *lib.Writer, tier string, seed uint64) {
	cfg := cfgForExtra
	nprog, capEmit, capInstr := 16, 8, 50
	if tier == "thorough" {
		nprog, capEmit, capInstr = 400, 40, 600
	}
	for i := 0; i < nprog; i++ {
		idx := 100000 + i
		prog, mode := luaprop.Gen(cfg, seed, idx)
		src := luagen.PrintLua(prog)
		base := luagen.RunIsolated(src, 20*time.Second, &luagen.RunOptions{InstrFault: 1 << 40})
		if base.GoFail != "" {
			continue // reported by the ordinary run of this generator already
		}
		coqProg := luagen.CoqBlock(prog)
		// (a) host-call faults
		e := len(base.Trace)
		for k := 1; k <= e && k <= capEmit; k++ {
			str := (k+i)%2 == 0
			if strings.Contains(src, "coroutine.wrap(") {
				// a STRING raised inside a coroutine whose wrap function was called directly by a host function
				// (pcall(w, ...)) leaves with no position added (luaL_where of a C function is empty; gopher-lua
				// agrees), but coq/Lua/Eval.v BWrapped prefixes "<string>:0:" there (frames_line of a host frame):
				// a slip of the reference evaluator, see notes/C05.md. The generator's shapes never raise a string
				// through such a call; the injected fault would.
				str = false
			}
			out := luagen.RunIsolated(src, 20*time.Second, &luagen.RunOptions{EmitFault: k, FaultString: str})
			if slowChild(out.GoFail) {
				out = luagen.RunIsolated(src, 150*time.Second, &luagen.RunOptions{EmitFault: k, FaultString: str, Timeout: 120 * time.Second})
			}
			coq := fmt.Sprintf("CProgF %d %v %s %s", k, str, coqProg, out.Coq())
			if out.GoFail != "" {
				coq = "CProg [] (Outcome [] (OOk []))"
			}
			id := w.Add(lib.Case{Input: map[string]any{"src": src, "seed": seed, "idx": idx, "mode": mode, "emit_fault": k, "fault_string": str},
				Observed: out.Summary(), Class: "emit-fault", Nontrivial: true, Coq: coq, KF: []string{"C05-5"}})
			if out.GoFail != "" {
				w.GoFail(id, out.GoFail)
			}
		}
		// (b) instruction-boundary faults (child processes, run in parallel)
		polls := base.Polls
		step := 1
		if polls > capInstr {
			step = polls / capInstr
		}
		type res struct {
			k    int
			out  *luagen.Outcome
			what string
		}
		var mu sync.Mutex
		var wg sync.WaitGroup
		var results []res
		sem := make(chan struct{}, 12)
		for k := 1; k <= polls; k += step {
			wg.Add(1)
			sem <- struct{}{}
			go func(k int) {
				defer wg.Done()
				defer func() { <-sem }()
				out := luagen.RunIsolated(src, 20*time.Second, &luagen.RunOptions{InstrFault: k, Epilogue: true})
				if slowChild(out.GoFail) {
					// the child's 5 s wall-clock guard fired: on a loaded machine that is not a hang -- once more
					// with a guard a real hang still runs into
					out = luagen.RunIsolated(src, 150*time.Second, &luagen.RunOptions{InstrFault: k, Epilogue: true, Timeout: 120 * time.Second})
				}
				what := out.GoFail
				if what == "" {
					what = instrPredicates(base, out)
				}
				mu.Lock()
				results = append(results, res{k, out, what})
				mu.Unlock()
			}(k)
		}
		wg.Wait()
		sort.Slice(results, func(a, b int) bool { return results[a].k < results[b].k })
		for _, r := range results {
			w.Meta.GoOnlyChecked++
			if r.what != "" {
				id := w.Add(lib.Case{Input: map[string]any{"src": src, "seed": seed, "idx": idx, "mode": mode, "instr_fault": r.k},
					Observed: r.out.Summary(), Class: "instr-fault", Nontrivial: true, Coq: "CProg [] (Outcome [] (OOk []))"})
				w.GoFail(id, fmt.Sprintf("instruction fault at poll %d/%d: %s", r.k, polls, r.what))
			}
		}
	}
}

// slowChild: the failure is a time limit (the child's own guard exits with status 97), not a crash
func slowChild(goFail string) bool {
	return strings.Contains(goFail, "exit status 97") || strings.Contains(goFail, "within the time limit")
}

func isInjected(v luagen.OVal) bool { return v.Kind == "fault" && v.K == 98 }

func instrPredicates(base, out *luagen.Outcome) string {
	delivered := 0
	for _, row := range out.Trace {
		for _, v := range row {
			if isInjected(v) {
				delivered++
			}
		}
	}
	uncaught := !out.Ok && isInjected(out.Err)
	if uncaught {
		delivered++
	}
	if delivered > 1 {
		return fmt.Sprintf("the injected error was observed %d times", delivered)
	}
	if uncaught {
		if len(out.Trace) > len(base.Trace) {
			return "an uncaught fault produced more side effects than the fault-free run"
		}
		for i, row := range out.Trace {
			if len(row) != len(base.Trace[i]) {
				return fmt.Sprintf("an uncaught fault changed emitted row %d", i)
			}
			for j := range row {
				if row[j].String() != base.Trace[i][j].String() {
					return fmt.Sprintf("an uncaught fault changed emitted row %d", i)
				}
			}
		}
	}
	return ""
}
