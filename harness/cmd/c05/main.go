// c05: errors at any point are contained by protected calls and leave state intact.
package main

import (
	"verifh/luagen"
	"verifh/luaprop"
)

func main() {
	f := luagen.CoreFeatures()
	f.Errors, f.FaultPct, f.Closures, f.Meta, f.Coroutines, f.Funcs, f.Goto = 16, 75, 4, 3, 3, 4, 1
	luaprop.Main(&luaprop.Config{
		Prop: "C05",
		Rule: "generated programs dominated by protected calls (pcall/xpcall, nested) whose bodies raise error() with values of every type and level 0/1/2, runtime faults (index/call/arith/compare/concat), assert, " +
			"also from nested calls, metamethods and coroutines; after each the program keeps using the caller's locals, upvalues and tables; traces compared with the reference evaluator; " +
			"non-trivial = at least 5 emitted rows or an error outcome; distinct by Gallina term",
		Modes:     []luaprop.Mode{{Name: "errors", Features: f, Weight: 1}},
		NQuick:    220,
		NThorough: 6000,
		Corpus:    corpus,
		Isolate:   true,
		KF: func(uses map[string]int, src string) []string {
			var k []string
			if uses["fault-error-level2"] > 0 {
				k = append(k, "C05-3")
			}
			return k
		},
	})
}

var corpus = []string{
	`emit(pcall(error)); emit(pcall(error, nil)); emit(pcall(error, "s")); emit(pcall(error, "s", 0)); emit(pcall(error, {1})); emit(pcall(error, true)); emit(pcall(error, 12, 0))`,
	`local function f() error("lvl1") end; local function g() error("lvl0", 0) end; emit(pcall(f)); emit(pcall(g)); emit(pcall(function() local t = nil; return t.x end)); emit(pcall(function() return 1 + {} end)); emit(pcall(function() return {} < {} end)); emit(pcall(function() return "a" .. {} end)); emit(pcall(function() local f; f() end))`,
	`local log = {}; local ok, e = xpcall(function() error("E") end, function(m) log[#log+1] = m; return "handled:" .. m end); emit(ok, e, #log)`,
	`local x = 1; local t = {1,2,3}; local ok = pcall(function() x = 2; t[#t+1] = 4; error("after side effects") end); emit(ok, x, #t); local ok2, a, b = pcall(function() return 1, 2 end); emit(ok2, a, b)`,
	`local ok, e = pcall(function() local ok2, e2 = pcall(error, "inner"); emit("inner caught", ok2, e2); error("outer") end); emit(ok, e)`,
	`local o = setmetatable({}, {__index = function(t, k) error("idx:" .. k) end, __add = function() error({code = 7}) end}); emit(pcall(function() return o.foo end)); local ok, e = pcall(function() return o + 1 end); emit(ok, type(e), e.code)`,
	`local co = coroutine.create(function() error("in co") end); emit(coroutine.resume(co)); emit(coroutine.status(co)); emit(pcall(coroutine.wrap(function() error({}) end)))`,
	`emit(pcall(function() assert(false) end)); emit(pcall(function() assert(nil, "msg") end)); emit(pcall(assert, 1, 2, 3)); emit(select('#', pcall(function() assert(false) end)))`,
	`local function thrower() error("x") end; for i = 1, 3 do local ok, e = pcall(thrower); emit(i, ok, e) end; local n = 0; while n < 3 do n = n + 1; pcall(error, n) end; emit(n)`,
}
