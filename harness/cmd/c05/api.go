package main

import (
	"fmt"

	lua "github.com/yuin/gopher-lua"
	"verifh/lib"
)

// apiProtected: Go-side protected calls (LState.PCall with and without handler, CallByParam with
// Protect) of callees that fail at different moments -- before a frame exists (nil, number, string,
// table without __call, call stack exactly full), inside a Lua function, inside a Go function
// (RaiseError and a Go panic), inside a __call handler -- issued at the top level and from a host
// function running at every call depth up to the call-stack limit. Predicates of the property:
// an error is returned (never a Go panic), the value-stack height is what it was before the function
// and its arguments were pushed, the call depth is restored (the state runs a fixed follow-up chunk),
// and a handler runs exactly once.
func apiProtected(w *lib.Writer, tier string, seed uint64) {
	loadReader(w)
	handlerAtFullStack(w)
	depthLeak(w)
	type callee struct {
		name string
		mk   func(L *lua.LState) lua.LValue
	}
	callees := []callee{
		{"nil", func(L *lua.LState) lua.LValue { return lua.LNil }},
		{"number", func(L *lua.LState) lua.LValue { return lua.LNumber(42) }},
		{"string", func(L *lua.LState) lua.LValue { return lua.LString("s") }},
		{"plain-table", func(L *lua.LState) lua.LValue { return L.NewTable() }},
		{"lua-error", func(L *lua.LState) lua.LValue { return L.GetGlobal("lua_err") }},
		{"lua-runtime", func(L *lua.LState) lua.LValue { return L.GetGlobal("lua_rt") }},
		{"go-raise", func(L *lua.LState) lua.LValue {
			return L.NewFunction(func(L *lua.LState) int { L.RaiseError("go raise"); return 0 })
		}},
		{"go-panic", func(L *lua.LState) lua.LValue {
			return L.NewFunction(func(L *lua.LState) int { var m map[string]int; m["x"] = 1; return 0 })
		}},
		{"call-handler-error", func(L *lua.LState) lua.LValue { return L.GetGlobal("callable_err") }},
		{"deep-then-error", func(L *lua.LState) lua.LValue { return L.GetGlobal("deep_err") }},
	}
	const prelude = `
function lua_err(...) error({code = select('#', ...)}) end
function lua_rt(a) local t = nil; return t.x end
callable_err = setmetatable({}, {__call = function(self, ...) error("in __call") end})
function deep_err(n) local function d(k) if k == 0 then error("deep") end return 1 + d(k - 1) end return d(5) end
function leaf(...) return ... end
`
	styles := []string{"pcall", "pcall-handler", "callbyparam"}
	handlerRuns := 0
	// probe performs one protected call in the given style and reports what it observed
	probe := func(L *lua.LState, c callee, style string, nargs int) (failed bool, what string) {
		defer func() {
			if r := recover(); r != nil {
				failed, what = true, fmt.Sprintf("Go panic escaped the protected call: %v", r)
			}
		}()
		before := L.GetTop()
		fn := c.mk(L)
		args := make([]lua.LValue, nargs)
		for i := range args {
			args[i] = lua.LNumber(i + 1)
		}
		var err error
		runs0 := handlerRuns
		switch style {
		case "pcall", "pcall-handler":
			L.Push(fn)
			for _, a := range args {
				L.Push(a)
			}
			var h *lua.LFunction
			if style == "pcall-handler" {
				h = L.NewFunction(func(L *lua.LState) int { handlerRuns++; L.Push(lua.LString("handled")); return 1 })
			}
			err = L.PCall(nargs, lua.MultRet, h)
		default:
			err = L.CallByParam(lua.P{Fn: fn, NRet: 1, Protect: true}, args...)
		}
		if err == nil {
			return true, "the failing callee returned no error"
		}
		if L.GetTop() != before {
			return true, fmt.Sprintf("value-stack height after the failed protected call is %d, was %d before the push", L.GetTop(), before)
		}
		if style == "pcall-handler" && handlerRuns-runs0 > 1 {
			return true, fmt.Sprintf("handler ran %d times", handlerRuns-runs0)
		}
		return false, ""
	}
	sink := &caseSink{}
	defer func() { addGrouped(w, sink.list) }()
	for _, opt := range []lua.Options{{}, {CallStackSize: 16, RegistrySize: 1024}, {CallStackSize: 16, RegistrySize: 1024, MinimizeStackMemory: true}} {
		for _, c := range callees {
			for _, style := range styles {
				for nargs := 0; nargs <= 2; nargs++ {
					o := opt
					bad, what, hits := apiRun(o, prelude, func(L *lua.LState, depth int) (bool, string) { return probe(L, c, style, nargs) })
					// one case per callee (wave 5: the verdicts of a callee are written together, see addGrouped)
					if !bad {
						what = ""
					} else if what == "" {
						what = "failed"
					}
					sink.add("api-"+c.name, map[string]any{"api": c.name, "style": style, "nargs": nargs, "options": fmt.Sprintf("%+v", o)},
						map[string]any{"probes": hits}, what, nil, fmt.Sprintf("Go-side protected call (%s) of callee %q with %d argument(s) under %+v", style, c.name, nargs, o))
				}
			}
		}
	}
}

// apiRun runs the probe at the top level and from a host function at Lua call depths 1..24 (beyond
// the small call-stack limits, so that the probe also runs with the call stack exactly full), then a
// follow-up chunk on the same state.
func apiRun(opt lua.Options, prelude string, probe func(L *lua.LState, depth int) (bool, string)) (bad bool, what string, hits int) {
	defer func() {
		if r := recover(); r != nil {
			bad, what = true, fmt.Sprintf("Go panic escaped: %v", r)
		}
	}()
	L := lua.NewState(opt)
	defer L.Close()
	if err := L.DoString(prelude); err != nil {
		return true, "prelude: " + err.Error(), 0
	}
	note := func(f bool, wh string, where string) {
		hits++
		if f && !bad {
			bad, what = true, where+": "+wh
		}
	}
	f, wh := probe(L, 0)
	note(f, wh, "top level")
	depth := 0
	L.SetGlobal("probe", L.NewFunction(func(L *lua.LState) int {
		top := L.GetTop()
		f, wh := probe(L, depth)
		note(f, wh, fmt.Sprintf("host function at depth %d", depth))
		if L.GetTop() != top {
			note(true, fmt.Sprintf("host function's own stack height changed from %d to %d", top, L.GetTop()), fmt.Sprintf("depth %d", depth))
		}
		return 0
	}))
	for depth = 1; depth <= 24; depth++ {
		top := L.GetTop()
		err := L.DoString(fmt.Sprintf(`local function dive(n) if n == 0 then probe(1, 2) return 0 end return 1 + dive(n - 1) end; return pcall(dive, %d)`, depth))
		if err != nil {
			note(true, "driver chunk failed: "+err.Error(), fmt.Sprintf("depth %d", depth))
		}
		L.SetTop(top)
	}
	top := L.GetTop()
	if err := L.DoString(`local t = {}; for i = 1, 3 do t[i] = leaf(i) end; assert(#t == 3 and select('#', pcall(error, "x")) == 2); return 25`); err != nil {
		note(true, "follow-up chunk failed: "+err.Error(), "after all probes")
	} else if L.GetTop() != top+1 || L.Get(-1) != lua.LNumber(25) {
		note(true, "follow-up chunk returned the wrong values", "after all probes")
	}
	return
}

// loadReader: load runs its reader under its own protection (lua_load's protected parser): an error
// raised by the reader, of any type, at any call, is load's second result and the caller goes on.
func loadReader(w *lib.Writer) {
	src := `
local r = {}
local function note(...) r[#r + 1] = table.concat({...}, " ") end
local f, e = load(function() error("reader boom", 0) end); note(tostring(f), tostring(e))
local n, E = 0, {}
f, e = load(function() n = n + 1; if n == 1 then return "return 1 +" end; error(E) end); note(tostring(f), tostring(e == E), n)
f, e = load(function() local t = nil; return t.x end); note(tostring(f), type(e))
local co = coroutine.wrap(function() local f2, e2 = load(function() error("in co", 0) end); return tostring(f2), e2, "reached" end); note(co())
n = 0; f = load(function() n = n + 1; return ({"return ", "4", "2", nil})[n] end); note(f())
RESULT = table.concat(r, " | ")`
	want := "nil reader boom | nil true 2 | nil string | nil in co reached | 42"
	what := ""
	func() {
		defer func() {
			if r := recover(); r != nil {
				what = fmt.Sprintf("Go panic escaped: %v", r)
			}
		}()
		L := lua.NewState()
		defer L.Close()
		if err := L.DoString(src); err != nil {
			what = "the reader's error left load: " + err.Error()
			return
		}
		if got := L.GetGlobal("RESULT").String(); got != want {
			what = fmt.Sprintf("got %q, expected %q", got, want)
		}
	}()
	id := w.Add(lib.Case{Input: map[string]any{"api": "load-reader-error", "src": src}, Observed: map[string]any{"failed": what != "", "what": what},
		Class: "api-load-reader", Nontrivial: true, Coq: "CProg [] (Outcome [] (OOk []))"})
	w.Meta.GoOnlyChecked++
	if what != "" {
		w.GoFail(id, "errors of load's reader function: "+what)
	}
}

// handlerAtFullStack: xpcall's handler must run (once) also when the error is a call-stack overflow.
// Open known finding C05-6: gopher-lua calls the handler on the still-full frame stack, so it never
// runs; the case is tagged with the finding and fails only in that way.
func handlerAtFullStack(w *lib.Writer) {
	src := `local runs = 0; local function rec() return 1 + rec() end
local ok, e = xpcall(rec, function(m) runs = runs + 1; return "H:" .. tostring(m) end)
RESULT = tostring(ok) .. " " .. runs .. " " .. tostring(type(e) == "string" and e:sub(1, 2) == "H:")`
	what := ""
	func() {
		defer func() {
			if r := recover(); r != nil {
				what = fmt.Sprintf("Go panic escaped: %v", r)
			}
		}()
		L := lua.NewState()
		defer L.Close()
		if err := L.DoString(src); err != nil {
			what = "the overflow left xpcall: " + err.Error()
			return
		}
		if got := L.GetGlobal("RESULT").String(); got != "false 1 true" {
			what = fmt.Sprintf("ok/handler runs/handler result delivered = %q, expected \"false 1 true\"", got)
		}
	}()
	kf := []string{}
	if what == `ok/handler runs/handler result delivered = "false 0 false", expected "false 1 true"` {
		kf = []string{"C05-6"} // exactly the listed behaviour: contained, but the handler never ran
	}
	id := w.Add(lib.Case{Input: map[string]any{"api": "xpcall-handler-at-full-call-stack", "src": src}, Observed: map[string]any{"failed": what != "", "what": what},
		Class: "api-handler-full-stack", Nontrivial: true, KF: kf, Coq: "CProg [] (Outcome [] (OOk []))"})
	w.Meta.GoOnlyChecked++
	if what != "" {
		w.GoFail(id, "xpcall handler when the call stack is full: "+what)
	}
}

// depthLeak: "afterwards the interpreter is as if the protected call had returned normally ... the
// call depth and all later behaviour": whatever bookkeeping a failed protected call touches must be
// back where it was. The depth to which pcall can be nested (bounded by the call stack and by the
// C-call limit) is measured before and after several hundred failed protected calls of every kind;
// a leak of one unit per call shows as a smaller depth (or as library callbacks failing).
func depthLeak(w *lib.Writer) {
	src := `
local function depth() local d = 0; local function f() d = d + 1; return (pcall(f)) end; pcall(f); return d end
local before = depth()
for i = 1, 300 do
  xpcall(function() error("x") end, function() error("y") end)
  xpcall(function() local t = nil; return t.x end, function(m) return m end)
  pcall(error, {})
  pcall(function() return 1 + {} end)
  pcall(string.gsub, "ab", "%w", function() error("in callback") end)
  pcall(table.sort, {3, 2, 1}, function() error("in comparator") end)
  local co = coroutine.wrap(function() error("in coroutine") end); pcall(co)
  pcall(function() return setmetatable({}, {__index = function() error("in handler") end}).x end)
end
local after = depth()
local cb = (string.gsub("ab", "%w", function(c) return c:upper() end))
RESULT = tostring(before == after) .. " " .. cb .. " " .. tostring(before > 50)`
	what := ""
	func() {
		defer func() {
			if r := recover(); r != nil {
				what = fmt.Sprintf("Go panic escaped: %v", r)
			}
		}()
		for _, opt := range []lua.Options{{}, {CallStackSize: 1000, RegistrySize: 1 << 16}, {CallStackSize: 1000, RegistrySize: 1 << 16, MinimizeStackMemory: true}} {
			L := lua.NewState(opt)
			err := L.DoString(src)
			got := ""
			if err == nil {
				got = L.GetGlobal("RESULT").String()
			}
			L.Close()
			if err != nil {
				what = fmt.Sprintf("under %+v: %v", opt, err)
				return
			}
			if got != "true AB true" {
				what = fmt.Sprintf("under %+v: same nesting depth before/after, callback result, depth>50 = %q, expected \"true AB true\"", opt, got)
				return
			}
		}
	}()
	id := w.Add(lib.Case{Input: map[string]any{"api": "nesting-depth-after-failed-protected-calls", "src": src}, Observed: map[string]any{"failed": what != "", "what": what},
		Class: "api-depth-leak", Nontrivial: true, Coq: "CProg [] (Outcome [] (OOk []))"})
	w.Meta.GoOnlyChecked++
	if what != "" {
		w.GoFail(id, "nesting depth available after failed protected calls: "+what)
	}
}
