package main

import (
	"context"
	"fmt"
	"os"
	"strings"
	"sync"
	"syscall"
	"time"

	lua "github.com/yuin/gopher-lua"
	"verifh/lib"
)

// Wave 5: errors raised AT the interpreter's internal limits and bookkeeping AFTER long histories of
// contained errors. Three families, all judged by Go-side predicates taken from the property's text:
//
//  handlerAtLimits     "xpcall's handler runs exactly once, before unwinding, and its result is what the
//                      caller receives": the protected function fails by reaching a limit (nested calls
//                      from Go: metamethods of every event, pcall, iterators, library callbacks,
//                      __tostring, __call; nested resumes; the Lua call stack; the registry; the string
//                      size), with the protected call entered at the top level, inside a coroutine,
//                      inside a metamethod, from Go (PCall / CallByParam with a Go or Lua handler), and
//                      at EVERY nesting depth up to the limit (handlerLadder).
//  bookkeepingAfter    "afterwards the interpreter is as if the protected call had returned normally ...
//                      the call depth and all later behaviour": for ~45 kinds of contained error (every
//                      route an error can take to a catcher) a history of 260 of them (3 for the expensive
//                      ones) leaves (a) the white-box counters (frames, calls from Go, resume depth,
//                      Panic mode, current thread; verif hook) unchanged after EVERY single event and
//                      (b) the black-box gauges (how deep pcall / metamethods / resume / wrap / plain
//                      recursion / callbacks can nest, how many values the registry takes) unchanged
//                      after the whole history; in four contexts.
//  raisedValues        the value a Go function raises (RaiseError, Error with any value, ArgError, a Go
//                      panic) is the value the catcher gets: exact strings with and without a Lua frame
//                      below the Go function.

type limOpt struct {
	name string
	opt  lua.Options
}

// big*: the Lua call stack and the registry are out of the way, the limits on nesting come first
var limOpts = []limOpt{
	{"default", lua.Options{}},
	{"big-fixed", lua.Options{CallStackSize: 1500, RegistrySize: 1 << 12}},
	{"big-auto", lua.Options{CallStackSize: 1500, RegistrySize: 1 << 12, MinimizeStackMemory: true}},
	{"big-growing", lua.Options{CallStackSize: 1500, RegistrySize: 512, RegistryMaxSize: 1 << 15, RegistryGrowStep: 256}},
}

const limitPrelude = `
big = {}; for i = 1, 40000 do big[i] = i end
-- mk(kind): a function that fails by running into one of the interpreter's limits
function mk(kind)
  if kind == "index" then local t; t = setmetatable({}, {__index = function(_, k) return t[k + 1] end}); return function() return t[1] end end
  if kind == "newindex" then local t; t = setmetatable({}, {__newindex = function(_, k, v) t[k + 1] = v end}); return function() t[1] = 1 end end
  if kind == "add" then local o; o = setmetatable({}, {__add = function(a, b) return a + b end}); return function() return o + 1 end end
  if kind == "concat" then local o; o = setmetatable({}, {__concat = function(a, b) return a .. b end}); return function() return o .. "x" end end
  if kind == "unm" then local o; o = setmetatable({}, {__unm = function(a) return -a end}); return function() return -o end end
  if kind == "eq" then local mt = {}; mt.__eq = function(a, b) return a == b end; local a, b = setmetatable({}, mt), setmetatable({}, mt); return function() return a == b end end
  if kind == "lt" then local mt = {}; mt.__lt = function(a, b) return a < b end; local a, b = setmetatable({}, mt), setmetatable({}, mt); return function() return a < b end end
  if kind == "le" then local mt = {}; mt.__le = function(a, b) return a <= b end; local a, b = setmetatable({}, mt), setmetatable({}, mt); return function() return a <= b end end
  if kind == "call" then local o; o = setmetatable({}, {__call = function(self) return 1 + self() end}); return function() return o() end end
  if kind == "tostring" then local o; o = setmetatable({}, {__tostring = function() return tostring(o) end}); return function() return tostring(o) end end
  if kind == "pcall" then local function f() local ok, e = pcall(f); if not ok then error(e, 0) end; error("bottom?") end; return f end
  if kind == "xpcall" then local function f() local ok, e = xpcall(f, function(m) return m end); if not ok then error(e, 0) end; error("bottom?") end; return f end
  if kind == "gsub" then local function f() return (string.gsub("a", "a", f)) end; return f end
  if kind == "sort" then local function f() table.sort({2, 1}, function(a, b) f(); return a < b end) end; return f end
  if kind == "iter" then local function f() for _ in function() return f() end do end end; return f end
  if kind == "resume" then local function f() local ok, e = coroutine.resume(coroutine.create(f)); if not ok then error(e, 0) end; return 1 end; return f end
  if kind == "wrap" then local function f() return 1 + coroutine.wrap(f)() end; return f end
  if kind == "luarec" then local function f() return 1 + f() end; return f end
  if kind == "unpack" then return function() return unpack(big) end end
  if kind == "unpack-args" then return function() return select("#", unpack(big)) end end
  if kind == "rep" then return function() return string.rep("x", 1e10) end end
  error("no such kind " .. kind)
end
function levels() local n = 0; while debug.getinfo(n + 1, "l") do n = n + 1 end; return n end
-- one protected call with a handler: ok, handler runs, handler's value delivered, raw message, frames seen by the handler - frames of the caller
function probe(kind)
  local runs, seen = 0, 0
  local raw = select(2, pcall(mk(kind)))
  local base = levels()
  local ok, e = xpcall(mk(kind), function(m) runs = runs + 1; seen = levels(); return "H:" .. tostring(m) end)
  local again = select(2, pcall(mk(kind)))
  return tostring(ok), runs, tostring(e == "H:" .. tostring(raw)), tostring(raw), seen - base, tostring(again == raw)
end
function in_coroutine(f, ...) return coroutine.wrap(f)(...) end
function in_metamethod(f, a) return setmetatable({}, {__index = function(_, k) return table.concat({f(k)}, "\1") end})[a] end
`

var limitKinds = []string{"index", "newindex", "add", "concat", "unm", "eq", "lt", "le", "call", "tostring", "pcall", "xpcall",
	"gsub", "sort", "iter", "resume", "wrap", "luarec", "unpack", "unpack-args", "rep"}

func short(s string, n int) string {
	if i := strings.Index(s, "\nstack traceback:"); i >= 0 {
		s = s[:i]
	}
	if len(s) > n {
		return s[:n] + "..."
	}
	return s
}

// limitClass maps the raw message of the failing function to the limit it ran into
func limitClass(raw string) string {
	switch {
	case strings.Contains(raw, "C stack overflow"):
		return "ccalls"
	case strings.Contains(raw, "stack overflow"):
		return "callstack"
	case strings.Contains(raw, "registry overflow"):
		return "registry"
	case strings.Contains(raw, "too large"):
		return "string"
	}
	return "other:" + short(raw, 60)
}

// judgeHandler: what the property demands of (ok, runs, delivered, raw, frames, again) and which listed
// finding an exact known deviation falls under
func judgeHandler(ok string, runs int, delivered, raw string, frames int, again string) (what string, kf []string) {
	class := limitClass(raw)
	if strings.HasPrefix(class, "other") {
		return "the failing function did not reach a limit: " + raw, nil
	}
	if ok == "false" && runs == 0 && delivered == "false" && again == "true" {
		// contained and intact, but the handler never ran: listed for a full call stack and a full registry only
		switch class {
		case "callstack":
			return "handler ran 0 times (call stack full)", []string{"C05-6"}
		case "registry":
			return "handler ran 0 times (registry full)", []string{"C05-7"}
		}
	}
	switch {
	case ok != "false":
		return "xpcall returned " + ok, nil
	case runs != 1:
		return fmt.Sprintf("handler ran %d times (limit: %s)", runs, class), nil
	case delivered != "true":
		return "the caller did not receive the handler's result", nil
	case frames < 3:
		return fmt.Sprintf("handler saw %d frames above the caller of xpcall: it ran after unwinding", frames), nil
	case again != "true":
		return "the same failure gave another error afterwards", nil
	}
	return "", nil
}

// goCase is one Go-side verdict; jobs (one interpreter state each) produce lists of them in parallel, the
// writer gets them in the fixed order of the jobs
type goCase struct {
	class      string
	input, obs map[string]any
	what       string
	kf         []string
	prefix     string
}

type caseSink struct{ list []goCase }

func (c *caseSink) add(class string, input, obs map[string]any, what string, kf []string, prefix string) {
	c.list = append(c.list, goCase{class, input, obs, what, kf, prefix})
}

// groupOf[i] names the group of job i (jobs of one group are written together, see addGrouped); a
// missing entry makes the job a group of its own
func runJobs(w *lib.Writer, jobs []func(*caseSink), groupOf ...string) {
	sinks := make([]caseSink, len(jobs))
	var wg sync.WaitGroup
	sem := make(chan struct{}, 8)
	for i := range jobs {
		wg.Add(1)
		sem <- struct{}{}
		go func(i int) {
			defer wg.Done()
			defer func() { <-sem }()
			defer func() {
				if r := recover(); r != nil {
					sinks[i].add("wave5-job", map[string]any{"api": "job", "job": i}, map[string]any{}, short(fmt.Sprintf("Go panic escaped: %v", r), 300), nil, "wave-5 job")
				}
			}()
			jobs[i](&sinks[i])
		}(i)
	}
	wg.Wait()
	merged := map[string][]goCase{}
	var order []string
	for i, sk := range sinks {
		g := fmt.Sprint("job", i)
		if i < len(groupOf) {
			g = groupOf[i]
		}
		if _, ok := merged[g]; !ok {
			order = append(order, g)
		}
		merged[g] = append(merged[g], sk.list...)
	}
	for _, g := range order {
		addGrouped(w, merged[g])
	}
}

// addGrouped writes the verdicts of one job: a failure that is not an exactly-matched listed finding is a
// case (and a violation) of its own; the passing verdicts of the job become ONE case, and so do the
// verdicts falling under each listed finding (every case costs a kernel evaluation and shards are
// small; the Go-side verdicts need none). Every verdict counts as a Go-side evaluation.
func addGrouped(w *lib.Writer, list []goCase) {
	type group struct {
		first   goCase
		members []map[string]any
		whats   []string
	}
	groups := map[string]*group{}
	var order []string
	for _, c := range list {
		w.Meta.GoOnlyChecked++
		if c.what != "" && len(c.kf) == 0 {
			addGoCase(w, c.class, c.input, c.obs, c.what, nil, c.prefix)
			continue
		}
		key := c.class + "|" + strings.Join(c.kf, ",")
		g := groups[key]
		if g == nil {
			g = &group{first: c}
			groups[key] = g
			order = append(order, key)
		}
		m := map[string]any{}
		for k, v := range c.input {
			if k != "src" {
				m[k] = v
			}
		}
		for k, v := range c.obs {
			m["obs_"+k] = v
		}
		g.members = append(g.members, m)
		if c.what != "" {
			g.whats = append(g.whats, c.prefix+": "+c.what)
		}
	}
	for _, key := range order {
		g := groups[key]
		what := ""
		if len(g.whats) > 0 {
			what = fmt.Sprintf("%d verdict(s) under the listed finding; first: %s", len(g.whats), g.whats[0])
		}
		input := map[string]any{"api": g.first.input["api"], "grouped": len(g.members), "members": g.members}
		obs := map[string]any{"verdicts": len(g.members), "failed": what != "", "what": what}
		id := w.Add(lib.Case{Input: input, Observed: obs, Class: g.first.class, Nontrivial: true, KF: g.first.kf, Coq: "CProg [] (Outcome [] (OOk []))"})
		if what != "" {
			w.GoFail(id, what)
		}
	}
}

func addGoCase(w *lib.Writer, class string, input map[string]any, observed map[string]any, what string, kf []string, failPrefix string) {
	observed["failed"] = what != ""
	observed["what"] = what
	id := w.Add(lib.Case{Input: input, Observed: observed, Class: class, Nontrivial: true, KF: kf, Coq: "CProg [] (Outcome [] (OOk []))"})
	if what != "" {
		w.GoFail(id, failPrefix+": "+what)
	}
}

func guarded(f func() string) (what string) {
	defer func() {
		if r := recover(); r != nil {
			what = short(fmt.Sprintf("Go panic escaped: %v", r), 300)
		}
	}()
	return f()
}

// handlerAtLimits: Lua-side xpcall in three contexts, and the Go-side protected calls with handlers. One
// state per (options, context) runs all kinds one after the other (what an earlier failure left behind is
// part of what the next one meets).
func handlerAtLimits(w *lib.Writer) {
	contexts := []struct{ name, call string }{
		{"top", `return probe(%q)`},
		{"coroutine", `return in_coroutine(probe, %q)`},
		{"metamethod", `return in_metamethod(probe, %q)`},
		{"pcall-gohandler", ""}, {"pcall-luahandler", ""}, {"callbyparam-handler", ""},
	}
	var jobs []func(*caseSink)
	var groups []string
	defer func() { runJobs(w, jobs, groups...) }()
	for _, o := range limOpts {
		for _, cx := range contexts {
			o, cx := o, cx
			groups = append(groups, o.name)
			jobs = append(jobs, func(sink *caseSink) {
				L := lua.NewState(o.opt)
				setup := guarded(func() string {
					if err := L.DoString(limitPrelude + `
hruns = 0
function lua_handler(m) hruns = hruns + 1; hseen = levels(); return "H:" .. tostring(m) end`); err != nil {
						return "prelude: " + err.Error()
					}
					return ""
				})
				for _, kind := range limitKinds {
					if o.name == "big-fixed" && (kind == "resume" || kind == "wrap") {
						continue // 200 threads with a large fixed registry each: memory only, nothing new
					}
					var kf []string
					obs := map[string]any{}
					what := setup
					if what == "" && cx.call != "" {
						what = guarded(func() string {
							L.SetTop(0)
							if err := L.DoString(fmt.Sprintf(cx.call, kind)); err != nil {
								return "the error left DoString: " + short(err.Error(), 200)
							}
							var vals []string
							if cx.name == "metamethod" {
								vals = strings.Split(L.Get(-1).String(), "\x01")
							} else {
								for i := 1; i <= L.GetTop(); i++ {
									vals = append(vals, L.Get(i).String())
								}
							}
							L.SetTop(0)
							if len(vals) != 6 {
								return fmt.Sprintf("probe returned %d values", len(vals))
							}
							runs, frames := 0, 0
							fmt.Sscan(vals[1], &runs)
							fmt.Sscan(vals[4], &frames)
							obs["limit"], obs["runs"], obs["frames"] = limitClass(vals[3]), runs, frames
							var wh string
							wh, kf = judgeHandler(vals[0], runs, vals[2], vals[3], frames, vals[5])
							if d := lua.VerifDepthSnapshot(L); wh == "" && (d.Sp != 0 || d.NCCalls != 0 || d.ResumeDepth != 0 || d.PanicMode != "traceback" || !d.CurrentIsL) {
								wh = fmt.Sprintf("state after the chunk: %+v", d)
							}
							return wh
						})
					} else if what == "" {
						// Go-side: PCall with a Go handler, PCall with a Lua handler, CallByParam with Handler
						what = guarded(func() string {
							L.SetTop(0)
							mk := func() lua.LValue {
								if err := L.CallByParam(lua.P{Fn: L.GetGlobal("mk"), NRet: 1, Protect: true}, lua.LString(kind)); err != nil {
									panic(err)
								}
								f := L.Get(-1)
								L.Pop(1)
								return f
							}
							rawErr := L.CallByParam(lua.P{Fn: mk(), NRet: lua.MultRet, Protect: true})
							if rawErr == nil {
								return "the failing function returned no error"
							}
							raw := rawErr.(*lua.ApiError).Object.String()
							L.SetTop(0)
							goRuns := 0
							gh := L.NewFunction(func(L *lua.LState) int {
								goRuns++
								L.Push(lua.LString("H:" + L.Get(1).String()))
								return 1
							})
							hr0 := int(lua.LVAsNumber(L.GetGlobal("hruns")))
							before := lua.VerifDepthSnapshot(L)
							var err error
							switch cx.name {
							case "pcall-gohandler":
								L.Push(mk())
								err = L.PCall(0, lua.MultRet, gh)
							case "pcall-luahandler":
								L.Push(mk())
								err = L.PCall(0, lua.MultRet, L.GetGlobal("lua_handler").(*lua.LFunction))
							default:
								err = L.CallByParam(lua.P{Fn: mk(), NRet: 1, Protect: true, Handler: gh})
							}
							after := lua.VerifDepthSnapshot(L)
							if err == nil {
								return "the protected call returned no error"
							}
							runs := goRuns
							if cx.name == "pcall-luahandler" {
								runs = int(lua.LVAsNumber(L.GetGlobal("hruns"))) - hr0
							}
							delivered := "false"
							if err.(*lua.ApiError).Object.String() == "H:"+raw {
								delivered = "true"
							}
							obs["limit"], obs["runs"] = limitClass(raw), runs
							var wh string
							wh, kf = judgeHandler("false", runs, delivered, raw, 3, "true")
							if wh == "" && before != after {
								wh = fmt.Sprintf("bookkeeping before the failed call %+v, after %+v", before, after)
							}
							return wh
						})
					}
					sink.add("limit-handler", map[string]any{"api": "handler-at-limit", "kind": kind, "context": cx.name, "options": o.name},
						obs, what, kf, fmt.Sprintf("protected call with a handler around a function that runs into a limit (%s, %s, options %s)", kind, cx.name, o.name))
				}
				L.Close()
			})
		}
	}
}

// handlerLadder: a recursion through a re-entry point in which EVERY level makes its own protected call
// with a handler around the next level, so that protected calls are entered at every nesting depth up
// to the limit. Every xpcall that failed must have run its handler exactly once and returned its value.
func handlerLadder(w *lib.Writer) {
	ladders := []struct{ name, src string }{
		{"index", `local t; t = setmetatable({}, {__index = function(_, k) return step(function() return t[k + 1] end, k) end}); return function() return t[1] end`},
		{"add", `local mt = {}; mt.__add = function(a, k) return step(function() return a + (k + 1) end, k) end; local o = setmetatable({}, mt); return function() return o + 1 end`},
		{"call", `local o; o = setmetatable({}, {__call = function(self, k) return step(function() return o(k + 1) end, k) end}); return function() return o(1) end`},
		{"gsub", `local function f(k) return step(function() return (string.gsub("a", "a", function() return f(k + 1) end)) end, k) end; return function() return f(1) end`},
		{"direct", `local function f(k) return step(function() return f(k + 1) end, k) end; return function() return f(1) end`},
		{"wrap", `local function f(k) return step(function() return coroutine.wrap(f)(k + 1) end, k) end; return function() return f(1) end`},
		{"tostring", `local k = 0; local o; o = setmetatable({}, {__tostring = function() k = k + 1; local kk = k; return step(function() return tostring(o) end, kk) end}); return function() return tostring(o) end`},
	}
	const prelude = `
failed, bad, deepest, deepest_failed = 0, {}, 0, 0
function step(next_level, k)
  if k > deepest then deepest = k end
  local runs = 0
  local ok, e = xpcall(next_level, function(m) runs = runs + 1; return "H:" .. tostring(m) end)
  if not ok then
    failed = failed + 1
    if k > deepest_failed then deepest_failed = k end
    if runs ~= 1 or type(e) ~= "string" or e:sub(1, 2) ~= "H:" then bad[#bad + 1] = "level " .. k .. ": handler ran " .. runs .. " times, xpcall returned " .. tostring(e):sub(1, 60) end
    if RETHROW then error(e, 0) end
  end
  return "v"
end`
	var jobs []func(*caseSink)
	var groups []string
	defer func() { runJobs(w, jobs, groups...) }()
	for _, o := range limOpts[1:] {
		for _, ld := range ladders {
			if o.name == "big-fixed" && ld.name == "wrap" {
				continue
			}
			for _, rethrow := range []bool{false, true} {
				o, ld, rethrow := o, ld, rethrow
				groups = append(groups, o.name)
				jobs = append(jobs, func(sink *caseSink) {
					obs := map[string]any{}
					var kf []string
					what := guarded(func() string {
						L := lua.NewState(o.opt)
						defer L.Close()
						L.SetGlobal("RETHROW", lua.LBool(rethrow))
						if err := L.DoString(prelude); err != nil {
							return "prelude: " + err.Error()
						}
						if err := L.DoString("local run = (function() " + ld.src + " end)(); local ok, e = pcall(run); return tostring(ok), tostring(e)"); err != nil {
							return "the error left DoString: " + short(err.Error(), 200)
						}
						failed := int(lua.LVAsNumber(L.GetGlobal("failed")))
						deepest := int(lua.LVAsNumber(L.GetGlobal("deepest")))
						deepestFailed := int(lua.LVAsNumber(L.GetGlobal("deepest_failed")))
						bad := L.GetGlobal("bad").(*lua.LTable)
						obs["failed_xpcalls"], obs["deepest"] = failed, deepest
						if failed == 0 {
							return fmt.Sprintf("the ladder never reached a limit (deepest level %d)", deepest)
						}
						if rethrow && failed < deepestFailed {
							return fmt.Sprintf("the error was rethrown at every level, but only %d of %d xpcalls failed", failed, deepestFailed)
						}
						if bad.Len() > 0 {
							first := bad.RawGetInt(1).String()
							// listed (C05-8): only the xpcall that was itself entered at the limit (the innermost one that
							// failed; calling its function already overflows) did not run its handler
							if bad.Len() == 1 && strings.HasPrefix(first, fmt.Sprintf("level %d: handler ran 0 times", deepestFailed)) && strings.Contains(first, "C stack overflow") {
								kf = []string{"C05-8"}
							}
							return fmt.Sprintf("%d of %d failed xpcalls broke the handler rule; first: %s", bad.Len(), failed, first)
						}
						if d := lua.VerifDepthSnapshot(L); d.Sp != 0 || d.NCCalls != 0 || d.ResumeDepth != 0 || d.PanicMode != "traceback" || !d.CurrentIsL {
							return fmt.Sprintf("state after the chunk: %+v", d)
						}
						return ""
					})
					sink.add("limit-ladder", map[string]any{"api": "handler-ladder", "kind": ld.name, "rethrow": rethrow, "options": o.name}, obs, what, kf,
						fmt.Sprintf("xpcall entered at every nesting depth up to the limit (%s, rethrow %v, options %s)", ld.name, rethrow, o.name))
				})
			}
		}
	}
}

/* ---------- bookkeeping after histories of contained errors ---------- */

type histEvent struct {
	name  string
	n     int // repetitions
	src   string
	skipO string // options under which the event is left out (cost only)
}

var histEvents = []histEvent{
	{"pcall-error-table", 260, `pcall(error, {})`, ""},
	{"pcall-runtime-fault", 260, `pcall(function() local t = nil; return t.x end); pcall(function() return 1 + {} end); pcall(function() return #5 end); pcall(function() local f; f() end)`, ""},
	{"xpcall-handler", 260, `xpcall(function() error("x") end, function(m) return m end)`, ""},
	{"xpcall-handler-raises", 260, `xpcall(function() error("x") end, function(m) error("y") end)`, ""},
	{"xpcall-handler-faults", 260, `xpcall(function() local t; return t.x end, function(m) return m.y.z end)`, ""},
	{"xpcall-in-handler", 260, `xpcall(function() error("x") end, function(m) return select(2, xpcall(function() error("inner") end, function(m2) return m2 end)) end)`, ""},
	{"wrap-error", 260, `pcall(coroutine.wrap(function() error("in co") end))`, ""},
	{"wrap-error-xpcall", 260, `xpcall(coroutine.wrap(function() error({}) end), function(m) return m end)`, ""},
	{"wrap-error-no-catcher-near", 260, `pcall(function() local v = coroutine.wrap(function() local t; return t.x end)(); return v end)`, ""},
	{"wrap-in-wrap", 260, `pcall(coroutine.wrap(function() return coroutine.wrap(function() error("inner") end)() end))`, ""},
	{"wrap-after-yield", 260, `local w = coroutine.wrap(function() coroutine.yield(1); error("after yield") end); w(); pcall(w)`, ""},
	{"wrap-dead", 260, `local w = coroutine.wrap(function() end); w(); pcall(w)`, ""},
	{"wrap-gofunction-body", 260, `pcall(coroutine.wrap(string.rep)); pcall(coroutine.wrap(error), {})`, ""},
	{"resume-error", 260, `coroutine.resume(coroutine.create(function() error("x") end))`, ""},
	{"resume-of-wrap-error", 260, `coroutine.resume(coroutine.create(function() coroutine.wrap(function() error("x") end)() end))`, ""},
	{"resume-running-and-dead", 260, `local co; co = coroutine.create(function() return coroutine.resume(co) end); coroutine.resume(co); coroutine.resume(co); pcall(coroutine.resume, 1)`, ""},
	{"yield-across-pcall", 260, `pcall(coroutine.wrap(function() pcall(coroutine.yield, 1); error("z") end))`, ""},
	{"yield-across-metamethod", 260, `pcall(coroutine.wrap(function() return setmetatable({}, {__index = function() coroutine.yield(1) end}).x end))`, ""},
	{"yield-outside", 260, `pcall(coroutine.yield, 1)`, "in-coroutine"},
	{"gsub-callback", 260, `pcall(string.gsub, "ab", "%w", function() error("cb") end)`, ""},
	{"sort-comparator", 260, `pcall(table.sort, {3, 2, 1}, function() error("cmp") end)`, ""},
	{"iterator", 260, `pcall(function() for _ in function() error("iter") end do end end)`, ""},
	{"tostring-handler", 260, `pcall(tostring, setmetatable({}, {__tostring = function() error("ts") end}))`, ""},
	{"call-handler", 260, `pcall(setmetatable({}, {__call = function() error("call") end}))`, ""},
	{"metamethods", 260, `local o = setmetatable({}, {__concat = function() error("cc") end, __eq = function() error("eq") end, __lt = function() error("lt") end, __le = function() error("le") end, __unm = function() error("unm") end, __newindex = function() error("ni") end, __index = function() error("ix") end})
      local p = setmetatable({}, getmetatable(o))
      pcall(function() return o .. "x" end); pcall(function() return o == p end); pcall(function() return o < p end); pcall(function() return o <= p end); pcall(function() return -o end); pcall(function() o.k = 1 end); pcall(function() return o.k end)`, ""},
	{"callback-in-coroutine", 260, `pcall(coroutine.wrap(function() string.gsub("a", "a", function() error("cb in co") end) end))`, ""},
	{"pcall-in-callback", 260, `string.gsub("ab", "%w", function() pcall(error, "x"); pcall(coroutine.wrap(function() error("y") end)) end)`, ""},
	{"registry-overflow", 60, `pcall(unpack, big); pcall(function() return select("#", unpack(big)) end)`, ""},
	{"registry-overflow-in-coroutine", 60, `pcall(coroutine.wrap(function() return unpack(big) end))`, "big-fixed"},
	{"results-overflow-resumer", 60, `pcall(function() local function take(...) return coroutine.wrap(function() return unpack(big, 1, 400) end)() end; return take(unpack(big, 1, ROOM - 200)) end)`, "big-fixed"},
	{"results-overflow-resumer-error", 60, `pcall(function() local function take(...) return coroutine.wrap(function() error({unpack(big, 1, 10)}) end)() end; return take(unpack(big, 1, ROOM - 40 + i % 48)) end)`, "big-fixed"},
	{"string-too-large", 260, `pcall(string.rep, "x", 1e10)`, ""},
	{"argument-errors", 260, `pcall(setmetatable, 1, 2); pcall(next, {}, "nokey"); pcall(string.rep); pcall(ipairs); pcall(select, 0)`, ""},
	{"load-errors", 260, `pcall(loadstring("x = = 1")); load(function() error("reader") end); pcall(require, "no_such_module_w5"); pcall(dofile, "/nonexistent/w5.lua")`, ""},
	{"error-after-inner-success", 260, `pcall(function() local ok = pcall(function() return 1 end); local v = coroutine.wrap(function() return 2 end)(); error("late") end)`, ""},
	{"nested-three-deep", 260, `pcall(function() pcall(function() pcall(error, "a"); error("b") end); error("c") end)`, ""},
	{"error-through-5-wraps", 120, `local function lv(n) if n == 0 then error("bottom") end; return coroutine.wrap(lv)(n - 1) end; pcall(lv, 5)`, ""},
	{"locals-upvalues-across-growth", 120, `local a, b = i, 2 * i; local function get() return a + b end
      local ok, e = pcall(function() local x, y = 10, 20; local function inner() return x + y + a end; a = a + 1; local t = {unpack(big, 1, 700 + i)}; x = x + #t; error({inner()}) end)
      assert(not ok and e[1] == 10 + 700 + i + 20 + i + 1, "value computed before the error"); assert(a == i + 1 and b == 2 * i and get() == 3 * i + 1, "caller's locals and upvalues after the failed call")`, ""},
	// expensive events: a few repetitions, the per-event snapshot does the work
	{"ccalls-overflow-pcall", 3, `pcall(mk("index")); pcall(mk("gsub")); pcall(mk("sort")); pcall(mk("pcall")); pcall(mk("concat"))`, ""},
	{"ccalls-overflow-xpcall", 3, `xpcall(mk("index"), function(m) return m end); xpcall(mk("iter"), function(m) error(m) end); xpcall(mk("tostring"), function(m) return mk("add")() end)`, ""},
	{"callstack-overflow", 3, `pcall(mk("luarec")); xpcall(mk("luarec"), function(m) return m end); pcall(mk("call"))`, ""},
	{"resume-overflow", 1, `pcall(mk("wrap")); pcall(mk("resume")); xpcall(mk("wrap"), function(m) return m end)`, "big-fixed"},
	{"error-through-150-wraps", 2, `local function lv(n) if n == 0 then error("bottom") end; return coroutine.wrap(lv)(n - 1) end; pcall(lv, 150)`, "big-fixed"},
	{"error-through-150-metamethods", 3, `local t; t = setmetatable({}, {__index = function(_, k) if k == 150 then error("bottom") end; return t[k + 1] end}); pcall(function() return t[1] end)`, ""},
	{"error-through-100-pcalls-rethrown", 3, `local function lv(n) if n == 0 then error("bottom") end; local ok, e = pcall(lv, n - 1); error(e, 0) end; pcall(lv, 100)`, ""},
}

const gaugePrelude = `
-- how deep each mechanism nests before the interpreter refuses, and how many values the registry takes
function room()
  local lo, hi = 0, #big
  while lo < hi do local mid = math.floor((lo + hi + 1) / 2); if pcall(function() return select("#", unpack(big, 1, mid)) end) then lo = mid else hi = mid - 1 end end
  return lo
end
function cogauge() local d = 0; local function f() d = d + 1; return (coroutine.resume(coroutine.create(f))) end; f(); return d end
function gauges()
  local g = {}
  do local d = 0; local function f() d = d + 1; return (pcall(f)) end; pcall(f); g[#g + 1] = d end
  do local d = 0; local t; t = setmetatable({}, {__index = function(_, k) d = d + 1; return t[k + 1] end}); pcall(function() return t[1] end); g[#g + 1] = d end
  do local d = 0; local function f() d = d + 1; return 1 + f() end; pcall(f); g[#g + 1] = d end
  do local d = 0; local function f() d = d + 1; return (string.gsub("a", "a", f)) end; pcall(f); g[#g + 1] = d end
  if COGAUGES then g[#g + 1] = cogauge() end
  g[#g + 1] = room()
  return g
end
function measure(event, n)
  local g, s, bad = {}, {}, nil
  for phase = 1, 2 do -- both measurements from the same instruction: same registers in use
    g[phase], s[phase] = table.concat(gauges(), ","), snap()
    if phase == 1 then
      ROOM = room()
      for i = 1, n do
        local s = snap()
        event(i)
        local s2 = snap()
        if s2 ~= s and not bad then bad = "event " .. i .. ": " .. s .. " -> " .. s2 end
      end
    end
  end
  return g[1], g[2], s[1], s[2], bad or ""
end
`

var histContexts = []struct{ name, call string }{
	{"top", `return measure(EVENT, N)`},
	{"in-coroutine", `return coroutine.wrap(function() return measure(EVENT, N) end)()`},
	{"in-pcall", `return select(2, pcall(function() return measure(EVENT, N) end))`},
	{"in-metamethod", `return unpack(setmetatable({}, {__index = function() return {measure(EVENT, N)} end}).x)`},
}

func snapString(L *lua.LState) string {
	d := lua.VerifDepthSnapshot(L)
	return fmt.Sprintf("frames=%d ccalls=%d resumes=%d panic=%s current=%v", d.Sp, d.NCCalls, d.ResumeDepth, d.PanicMode, d.CurrentIsL)
}

// bookkeepingAfter: one state per (options, context); the events follow one another on it, every event
// between two measurements.
func bookkeepingAfter(w *lib.Writer, tier string, seed uint64) {
	var jobs []func(*caseSink)
	var groups []string
	defer func() { runJobs(w, jobs, groups...) }()
	for oi, o := range limOpts {
		for ci, cx := range histContexts {
			oi, o, ci, cx := oi, o, ci, cx
			// quick tier: default options at the top level and in one more context, the other options in one
			// context each, chosen by the seed (thorough: all)
			if tier != "thorough" && ci != (oi+int(seed%4))%len(histContexts) && !(oi == 0 && ci == 0) {
				continue
			}
			groups = append(groups, "all")
			jobs = append(jobs, func(sink *caseSink) {
				r := lib.NewRand(seed ^ 0x5c05 ^ uint64(oi*16+ci))
				L := lua.NewState(o.opt)
				L.SetGlobal("snap", L.NewFunction(func(L *lua.LState) int { L.Push(lua.LString(snapString(L))); return 1 }))
				setup := guarded(func() string {
					if err := L.DoString(limitPrelude + gaugePrelude + "CO0 = cogauge()"); err != nil {
						return "prelude: " + err.Error()
					}
					return ""
				})
				for _, ev := range histEvents {
					if ev.skipO == o.name || ev.skipO == cx.name {
						continue
					}
					n := ev.n
					if n >= 200 {
						n += r.Intn(8) // 260..267: beyond every limit
						if tier != "thorough" && !(oi == 0 && ci == 0) && strings.Contains(ev.src, "coroutine") {
							n -= 55 // 205..212: beyond the limits on nesting (one thread per event: cost)
						}
					}
					if o.opt.RegistryMaxSize > 0 && ev.name == "registry-overflow-in-coroutine" {
						n = 4 // a registry growing in small steps to its maximum: quadratic
					}
					// the nesting depth of resumes is measured around every event in the thorough tier, around the
					// whole sequence in the quick tier (200 threads per measurement)
					cogauges := tier == "thorough" && o.name != "big-fixed" && (strings.Contains(ev.src, "coroutine") || strings.Contains(ev.src, `mk("wrap")`))
					obs := map[string]any{}
					src := ""
					what := setup
					tEv := time.Now()
					if what == "" {
						what = guarded(func() string {
							L.SetTop(0)
							L.SetGlobal("COGAUGES", lua.LBool(cogauges))
							fresh := lua.VerifDepthSnapshot(L)
							src = "local EVENT, N = function(i) " + ev.src + " end, " + fmt.Sprint(n) + "\n" + cx.call
							if err := L.DoString(src); err != nil {
								return "the history left DoString: " + short(err.Error(), 300)
							}
							if L.GetTop() != 5 {
								return fmt.Sprintf("measure returned %d values: %s", L.GetTop(), short(L.Get(-1).String(), 200))
							}
							g0, g1, s0, s1, bad := L.Get(1).String(), L.Get(2).String(), L.Get(3).String(), L.Get(4).String(), L.Get(5).String()
							obs["gauges"], obs["n"] = g0, n
							L.SetTop(0)
							switch {
							case bad != "":
								return "bookkeeping changed by one contained error: " + bad
							case s0 != s1:
								return "bookkeeping before the history: " + s0 + ", after: " + s1
							case g0 != g1:
								return fmt.Sprintf("nesting depths / registry room (pcall, metamethod, recursion, callback%s, registry) before the history: %s, after %d contained errors: %s",
									map[bool]string{true: ", resume", false: ""}[cogauges], g0, n, g1)
							}
							if after := lua.VerifDepthSnapshot(L); after != fresh {
								return fmt.Sprintf("state before the chunk %+v, after %+v", fresh, after)
							}
							return ""
						})
					}
					if os.Getenv("C05_TIMING") == "2" {
						fmt.Fprintf(os.Stderr, "  %s %s %s: %v\n", o.name, cx.name, ev.name, time.Since(tEv))
					}
					sink.add("bookkeeping", map[string]any{"api": "bookkeeping-after-history", "event": ev.name, "context": cx.name, "options": o.name, "n": n, "src": src},
						obs, what, nil, fmt.Sprintf("bookkeeping after %d contained errors of kind %q (%s, options %s)", n, ev.name, cx.name, o.name))
				}
				// all later behaviour: a fixed follow-up on the same state
				what := setup
				if what == "" {
					what = guarded(func() string {
						if err := L.DoString(`local c1 = cogauge(); if c1 ~= CO0 then error("resumes nested " .. CO0 .. " deep before the histories, " .. c1 .. " deep after them", 0) end
local co = coroutine.wrap(function(a) local b = coroutine.yield(a + 1); return b * 2 end)
assert(co(1) == 2 and co(21) == 42)
local function nest(k) if k == 0 then return 0 end; return 1 + coroutine.wrap(nest)(k - 1) end
assert(nest(120) == 120)
local t; t = setmetatable({}, {__index = function(_, k) if k == 150 then return 0 end; return 1 + t[k + 1] end}); assert(t[1] == 149)
assert(select("#", pcall(error, "x")) == 2 and (string.gsub("ab", "%w", function(c) return c:upper() end)) == "AB")`); err != nil {
							return "follow-up chunk failed: " + short(err.Error(), 300)
						}
						return ""
					})
				}
				sink.add("bookkeeping", map[string]any{"api": "bookkeeping-after-history", "event": "follow-up", "context": cx.name, "options": o.name},
					map[string]any{}, what, nil, fmt.Sprintf("follow-up chunk after all histories (%s, options %s)", cx.name, o.name))
				L.Close()
			})
		}
	}
}

/* ---------- the value raised by a Go function is the value caught ---------- */

func raisedValues(w *lib.Writer) {
	tbl := &lua.LTable{}
	type raiser struct {
		name    string
		fn      func(L *lua.LState) int
		bare    string // expected with no Lua frame below; "" = identity of tbl
		inLua   string // expected when called from line 2 of a Lua chunk
		isPanic bool
	}
	raisers := []raiser{
		{"RaiseError", func(L *lua.LState) int { L.RaiseError("boom %d", 7); return 0 }, "boom 7", "<string>:2: boom 7", false},
		{"Error-string-level1", func(L *lua.LState) int { L.Error(lua.LString("boom"), 1); return 0 }, "boom", "<string>:2: boom", false},
		{"Error-string-level0", func(L *lua.LState) int { L.Error(lua.LString("boom"), 0); return 0 }, "boom", "boom", false},
		{"Error-table", func(L *lua.LState) int { L.Error(tbl, 1); return 0 }, "", "", false},
		{"Error-number", func(L *lua.LState) int { L.Error(lua.LNumber(42), 1); return 0 }, "42", "42", false},
		{"ArgError", func(L *lua.LState) int { L.ArgError(1, "bad thing"); return 0 }, "bad argument #1 to", "<string>:2: bad argument #1 to", false},
		{"CheckString", func(L *lua.LState) int { L.CheckString(1); return 0 }, "bad argument #1 to", "<string>:2: bad argument #1 to", false},
		{"go-panic-string", func(L *lua.LState) int { panic("plain panic") }, "plain panic", "plain panic", true},
		{"go-panic-runtime", func(L *lua.LState) int { var m map[string]int; m["x"] = 1; return 0 }, "assignment to entry in nil map", "assignment to entry in nil map", true},
	}
	check := func(r raiser, where string, err error, obj lua.LValue) string {
		want := r.bare
		if where == "lua" {
			want = r.inLua
		}
		if err != nil {
			ae, ok := err.(*lua.ApiError)
			if !ok {
				return fmt.Sprintf("error of type %T", err)
			}
			obj = ae.Object
			if r.isPanic != (ae.Type == lua.ApiErrorPanic) {
				return fmt.Sprintf("ApiError type %v", ae.Type)
			}
		}
		switch {
		case r.name == "Error-table":
			if obj != lua.LValue(tbl) {
				return "the table raised is not the value caught: " + short(obj.String(), 80)
			}
		case strings.HasSuffix(want, " to") || r.isPanic:
			if s, ok := obj.(lua.LString); !ok || !strings.Contains(string(s), want) || (!r.isPanic && !strings.HasPrefix(string(s), want)) {
				return fmt.Sprintf("caught %q, expected a string starting with %q", short(obj.String(), 120), want)
			}
		case r.name == "Error-number":
			if obj != lua.LNumber(42) {
				return fmt.Sprintf("caught %v (%s), expected the number 42", obj, obj.Type())
			}
		default:
			if s, ok := obj.(lua.LString); !ok || string(s) != want {
				return fmt.Sprintf("caught %q, expected %q", short(obj.String(), 120), want)
			}
		}
		return ""
	}
	sink := &caseSink{}
	defer func() { addGrouped(w, sink.list) }()
	for _, r := range raisers {
		for _, style := range []string{"go-pcall", "go-callbyparam", "go-pcall-in-hostfn", "go-resume-thread", "lua-pcall", "lua-pcall-direct", "lua-wrap-body", "lua-resume-body", "lua-xpcall"} {
			obs := map[string]any{}
			what := guarded(func() string {
				L := lua.NewState()
				defer L.Close()
				fn := L.NewFunction(r.fn)
				L.SetGlobal("raiser", fn)
				caught := func(src string) (lua.LValue, string) {
					if err := L.DoString(src); err != nil {
						return nil, "the error left DoString: " + short(err.Error(), 200)
					}
					return L.Get(-1), ""
				}
				switch style {
				case "go-pcall":
					L.Push(fn)
					return check(r, "bare", L.PCall(0, lua.MultRet, nil), nil)
				case "go-callbyparam":
					return check(r, "bare", L.CallByParam(lua.P{Fn: fn, NRet: 0, Protect: true}), nil)
				case "go-pcall-in-hostfn":
					// the protected call is made by a host function that Lua code called on line 2
					res := ""
					L.SetGlobal("host", L.NewFunction(func(L *lua.LState) int {
						res = check(r, "lua", L.CallByParam(lua.P{Fn: fn, NRet: 0, Protect: true}), nil)
						return 0
					}))
					if _, wh := caught("local a = 1\nhost()\nreturn 1"); wh != "" {
						return wh
					}
					return res
				case "go-resume-thread":
					co, _ := L.NewThread()
					st, err, _ := L.Resume(co, fn)
					if st != lua.ResumeError {
						return fmt.Sprintf("Resume state %v", st)
					}
					if r.isPanic {
						// a thread converts a foreign panic itself; the type is not kept apart here
						if !strings.Contains(err.Error(), r.bare) {
							return "Resume error: " + short(err.Error(), 120)
						}
						return ""
					}
					return check(r, "bare", err, nil)
				case "lua-pcall":
					v, wh := caught("local ok, e = pcall(function()\nraiser()\nend); return e")
					if wh != "" {
						return wh
					}
					return check(r, "lua", nil, v)
				case "lua-xpcall":
					v, wh := caught("local ok, e = xpcall(function()\nraiser()\nend, function(m) return m end); return e")
					if wh != "" {
						return wh
					}
					return check(r, "lua", nil, v)
				case "lua-wrap-body":
					// the Go function is the body of a coroutine: no Lua frame on that thread
					v, wh := caught("local ok, e = pcall(coroutine.wrap(raiser)); return e")
					if wh != "" {
						return wh
					}
					return check(r, "bare", nil, v)
				case "lua-resume-body":
					v, wh := caught("local ok, e = coroutine.resume(coroutine.create(raiser)); return e")
					if wh != "" {
						return wh
					}
					return check(r, "bare", nil, v)
				default: // lua-pcall-direct: pcall(raiser) on line 2; gopher-lua reports the position of the nearest Lua frame
					v, wh := caught("local ok, e\nok, e = pcall(raiser); return e")
					if wh != "" {
						return wh
					}
					if r.name == "RaiseError" || r.name == "Error-string-level1" || r.name == "ArgError" || r.name == "CheckString" {
						// position of a library function called directly by pcall: excluded (notes/C01-C06.md); only the shape
						if s, ok := v.(lua.LString); !ok || strings.HasPrefix(string(s), " ") {
							return fmt.Sprintf("caught %q", short(v.String(), 120))
						}
						return ""
					}
					return check(r, "lua", nil, v)
				}
			})
			sink.add("raised-value", map[string]any{"api": "raised-value", "raiser": r.name, "style": style}, obs, what, nil,
				fmt.Sprintf("value raised by a Go function (%s) as seen by the catcher (%s)", r.name, style))
		}
	}
}

/* ---------- cancellation at every instruction boundary of a workload, bookkeeping afterwards ---------- */

// rearmable: a context whose Done() is closed for exactly one poll, the k-th after arm(k)
type rearmable struct {
	context.Context
	mu     sync.Mutex
	k, n   int
	closed chan struct{}
	open   chan struct{}
}

func newRearmable() *rearmable {
	c := make(chan struct{})
	close(c)
	return &rearmable{Context: context.Background(), closed: c, open: make(chan struct{})}
}

func (o *rearmable) arm(k int) { o.mu.Lock(); o.k, o.n = k, 0; o.mu.Unlock() }

func (o *rearmable) Done() <-chan struct{} {
	o.mu.Lock()
	defer o.mu.Unlock()
	if o.k <= 0 {
		return o.open
	}
	o.n++
	if o.n >= o.k {
		o.k = 0
		return o.closed
	}
	return o.open
}

func (o *rearmable) Err() error { return fmt.Errorf("injected cancellation") }

var cancelWorkloads = []struct{ name, src string }{
	{"mixed", `local t = setmetatable({}, {__index = function(_, k) return k end}); local s = 0; for j = 1, 3 do s = s + t[j] end
      pcall(error, "x"); xpcall(function() error("y") end, function(m) return m end)
      string.gsub("ab", "%w", function(c) return c end); table.sort({3, 1, 2}, function(a, b) return a < b end)
      for _, v in ipairs({1, 2}) do s = s + v end; s = s + #tostring(setmetatable({}, {__tostring = function() return "ts" end}))`},
	{"calls", `local function f(n, ...) if n == 0 then return ... end; return f(n - 1, n, ...) end; local function g(...) return select("#", ...) end
      local a = g(f(6)); local o = setmetatable({}, {__call = function(self, x) return x end}); a = a + o(1); local up = 0; local function inc() up = up + 1; return up end; inc(); inc()
      pcall(function() local z = 1; local function c() z = z + 1 end; c(); error("e") end)`},
	{"handlers", `xpcall(function() local t; return t.x end, function(m) local s = 0; for j = 1, 5 do s = s + j end; return m end)
      xpcall(function() error("a") end, function(m) error("b") end)
      pcall(function() pcall(function() pcall(error, "c") error("d") end) error("e") end)`},
}

func cancellationBookkeeping(w *lib.Writer, tier string, seed uint64) {
	var jobs []func(*caseSink)
	var groups []string
	defer func() { runJobs(w, jobs, groups...) }()
	for oi, o := range limOpts {
		if tier != "thorough" && oi != 0 && oi != 1+int(seed%3) {
			continue
		}
		for ci, cx := range histContexts {
			if cx.name == "in-coroutine" {
				continue // a coroutine thread polls a context derived from the state's: the poll counter is not its own
			}
			if tier != "thorough" && oi != 0 && ci != int(seed%2)*2 {
				continue
			}
			o, cx := o, cx
			groups = append(groups, "all")
			jobs = append(jobs, func(sink *caseSink) {
				L := lua.NewState(o.opt)
				defer L.Close()
				shot := newRearmable()
				L.SetContext(shot)
				L.SetGlobal("snap", L.NewFunction(func(L *lua.LState) int { L.Push(lua.LString(snapString(L))); return 1 }))
				L.SetGlobal("arm", L.NewFunction(func(L *lua.LState) int { shot.arm(L.CheckInt(1)); return 0 }))
				fired := 0
				L.SetGlobal("disarm", L.NewFunction(func(L *lua.LState) int {
					shot.mu.Lock()
					if shot.k == 0 {
						fired++
					}
					shot.k = -1
					shot.mu.Unlock()
					return 0
				}))
				setup := guarded(func() string {
					if err := L.DoString(limitPrelude + gaugePrelude); err != nil {
						return "prelude: " + err.Error()
					}
					return ""
				})
				for _, wl := range cancelWorkloads {
					n := 260
					obs := map[string]any{}
					what := setup
					src := ""
					if what == "" {
						what = guarded(func() string {
							L.SetTop(0)
							L.SetGlobal("COGAUGES", lua.LFalse)
							fired = 0
							fresh := lua.VerifDepthSnapshot(L)
							src = "local EVENT, N = function(i) pcall(function() arm(i) " + wl.src + " disarm() end) disarm() end, " + fmt.Sprint(n) + "\n" + cx.call
							if err := L.DoString(src); err != nil {
								return "the history left DoString: " + short(err.Error(), 300)
							}
							if L.GetTop() != 5 {
								return fmt.Sprintf("measure returned %d values: %s", L.GetTop(), short(L.Get(-1).String(), 200))
							}
							g0, g1, s0, s1, bad := L.Get(1).String(), L.Get(2).String(), L.Get(3).String(), L.Get(4).String(), L.Get(5).String()
							obs["gauges"], obs["n"], obs["fired"] = g0, n, fired
							L.SetTop(0)
							switch {
							case bad != "":
								return "bookkeeping changed by one contained cancellation: " + bad
							case s0 != s1:
								return "bookkeeping before the history: " + s0 + ", after: " + s1
							case g0 != g1:
								return fmt.Sprintf("nesting depths / registry room before the history: %s, after %d contained cancellations: %s", g0, fired, g1)
							case fired < 20:
								return fmt.Sprintf("only %d of %d cancellations fired inside the workload", fired, n)
							}
							if after := lua.VerifDepthSnapshot(L); after != fresh {
								return fmt.Sprintf("state before the chunk %+v, after %+v", fresh, after)
							}
							return ""
						})
					}
					sink.add("bookkeeping", map[string]any{"api": "bookkeeping-after-cancellation", "workload": wl.name, "context": cx.name, "options": o.name, "n": n, "src": src},
						obs, what, nil, fmt.Sprintf("bookkeeping after cancellations at the 1st..%dth instruction boundary of workload %q, each contained by pcall (%s, options %s)", n, wl.name, cx.name, o.name))
				}
			})
		}
	}
}

/* ---------- Go-side protected calls on a thread other than the main one ---------- */

// threadsProtected: PCall / CallByParam on a thread made by NewThread (fresh, or suspended in a yield) with
// callees failing in every way: error returned, the thread's bookkeeping and stack height as before, the
// thread still usable (a fresh one can be resumed with a function, a suspended one continues).
func threadsProtected(w *lib.Writer) {
	sink := &caseSink{}
	defer func() { addGrouped(w, sink.list) }()
	type callee struct {
		name string
		mk   func(L *lua.LState) lua.LValue
	}
	callees := []callee{
		{"nil", func(L *lua.LState) lua.LValue { return lua.LNil }},
		{"lua-error", func(L *lua.LState) lua.LValue { return L.GetGlobal("lua_err") }},
		{"lua-runtime", func(L *lua.LState) lua.LValue { return L.GetGlobal("lua_rt") }},
		{"go-raise", func(L *lua.LState) lua.LValue {
			return L.NewFunction(func(L *lua.LState) int { L.RaiseError("go raise"); return 0 })
		}},
		{"go-panic", func(L *lua.LState) lua.LValue {
			return L.NewFunction(func(L *lua.LState) int { panic("p") })
		}},
		{"ccalls-overflow", func(L *lua.LState) lua.LValue { return L.GetGlobal("deep_meta") }},
		{"wrap-error", func(L *lua.LState) lua.LValue { return L.GetGlobal("wrap_err") }},
		{"yield", func(L *lua.LState) lua.LValue { return L.GetGlobal("yielder") }},
	}
	const prelude = `
function lua_err(...) error({code = select('#', ...)}) end
function lua_rt(a) local t = nil; return t.x end
function deep_meta() local t; t = setmetatable({}, {__index = function(_, k) return t[k + 1] end}); return t[1] end
function wrap_err() return coroutine.wrap(function() error("in co") end)() end
function yielder() coroutine.yield(1) end
function body(a) local b = coroutine.yield(a + 1); return b * 2 end
function leaf(...) return ... end`
	for _, o := range limOpts[:2] {
		for _, c := range callees {
			for _, style := range []string{"pcall", "pcall-handler", "callbyparam"} {
				for _, suspended := range []bool{false, true} {
					obs := map[string]any{}
					what := guarded(func() string {
						L := lua.NewState(o.opt)
						defer L.Close()
						if err := L.DoString(prelude); err != nil {
							return "prelude: " + err.Error()
						}
						th, _ := L.NewThread()
						if suspended {
							st, err, vals := L.Resume(th, L.GetGlobal("body").(*lua.LFunction), lua.LNumber(1))
							if st != lua.ResumeYield || err != nil || len(vals) != 1 || vals[0] != lua.LNumber(2) {
								return fmt.Sprintf("first resume: %v %v %v", st, err, vals)
							}
						}
						// G.CurrentThread is left out: Call on a thread that was not entered by Resume does not maintain
						// it (a coroutine resumed inside hands it back to the thread, also when nothing fails)
						snapOf := func(x *lua.LState) lua.VerifDepth { d := lua.VerifDepthSnapshot(x); d.CurrentIsL = false; return d }
						main0 := snapOf(L)
						for round := 0; round < 3; round++ {
							before := snapOf(th)
							top := th.GetTop()
							fn := c.mk(L)
							hruns := 0
							var err error
							switch style {
							case "pcall", "pcall-handler":
								th.Push(fn)
								th.Push(lua.LNumber(1))
								var h *lua.LFunction
								if style == "pcall-handler" {
									h = L.NewFunction(func(L *lua.LState) int { hruns++; L.Push(lua.LString("handled")); return 1 })
								}
								err = th.PCall(1, lua.MultRet, h)
							default:
								err = th.CallByParam(lua.P{Fn: fn, NRet: 1, Protect: true}, lua.LNumber(1))
							}
							if err == nil {
								return "the failing callee returned no error"
							}
							if style == "pcall-handler" && hruns != 1 && !(c.name == "yield" && hruns <= 1) {
								return fmt.Sprintf("handler ran %d times", hruns)
							}
							if th.GetTop() != top {
								return fmt.Sprintf("value-stack height of the thread after the failed protected call is %d, was %d", th.GetTop(), top)
							}
							if after := snapOf(th); after != before {
								return fmt.Sprintf("thread bookkeeping before the failed call %+v, after %+v", before, after)
							}
							if m := snapOf(L); m != main0 {
								return fmt.Sprintf("main-state bookkeeping before %+v, after %+v", main0, m)
							}
						}
						// the thread is still what it was (not after a coroutine ran inside the call: Call on a thread that
						// is not the current one leaves G.CurrentThread pointing at it -- also when nothing fails --, and
						// Resume then refuses it as "running": coroutine bookkeeping, not error containment; see notes/C05.md)
						if c.name == "wrap-error" {
						} else if suspended {
							st, err, vals := L.Resume(th, nil, lua.LNumber(21))
							if st != lua.ResumeOK || err != nil || len(vals) != 1 || vals[0] != lua.LNumber(42) {
								return fmt.Sprintf("the suspended thread did not continue: %v %v %v", st, err, vals)
							}
						} else {
							st, err, vals := L.Resume(th, L.GetGlobal("leaf").(*lua.LFunction), lua.LNumber(7))
							if st != lua.ResumeOK || err != nil || len(vals) != 1 || vals[0] != lua.LNumber(7) {
								return fmt.Sprintf("the fresh thread could not be resumed afterwards: %v %v %v", st, err, vals)
							}
						}
						if err := L.DoString(`assert(select("#", pcall(error, "x")) == 2); local co = coroutine.wrap(body); assert(co(1) == 2 and co(21) == 42)`); err != nil {
							return "follow-up chunk failed: " + short(err.Error(), 200)
						}
						return ""
					})
					sink.add("api-thread", map[string]any{"api": "protected-call-on-thread", "callee": c.name, "style": style, "suspended": suspended, "options": o.name},
						obs, what, nil, fmt.Sprintf("Go-side protected call (%s) of callee %q on a NewThread thread (suspended in a yield: %v, options %s)", style, c.name, suspended, o.name))
				}
			}
		}
	}
}

func wave5(w *lib.Writer, tier string, seed uint64) {
	t0 := time.Now()
	cpu := func() time.Duration {
		var ru syscall.Rusage
		syscall.Getrusage(syscall.RUSAGE_SELF, &ru)
		return time.Duration(ru.Utime.Nano() + ru.Stime.Nano())
	}
	c0 := cpu()
	lap := func(name string) {
		if os.Getenv("C05_TIMING") != "" {
			fmt.Fprintf(os.Stderr, "wave5 %s: wall %v cpu %v\n", name, time.Since(t0), cpu()-c0)
		}
		t0, c0 = time.Now(), cpu()
	}
	handlerAtLimits(w)
	lap("handlerAtLimits")
	handlerLadder(w)
	lap("handlerLadder")
	bookkeepingAfter(w, tier, seed)
	lap("bookkeepingAfter")
	cancellationBookkeeping(w, tier, seed)
	lap("cancellationBookkeeping")
	threadsProtected(w)
	lap("threadsProtected")
	raisedValues(w)
	lap("raisedValues")
}
