package main

import (
	"fmt"
	"strings"
	"time"

	"verifh/lib"
	"verifh/luagen"
)

// Mode "history": programs of the form  HISTORY ; PROBES  compared with the reference evaluator.
// The history repeats one contained error N times (N small, or around the interpreter's internal
// limits: 200 nested calls from Go, 200 nested resumes, 256 call frames) along a chosen ROUTE (how the
// error travels from the failing function to the catcher: directly, out of a coroutine.wrap function,
// out of a wrap inside a wrap, out of a wrap that had yielded before, out of a metamethod, out of a
// wrap called by a metamethod, returned by coroutine.resume, a wrap that is already dead) to a chosen
// CATCHER (pcall, xpcall with a handler, xpcall inside a coroutine), running at the top level or
// inside a coroutine body or inside a protected call. The probes then use every mechanism whose
// bookkeeping a failed protected call could have disturbed: ordinary coroutines (generator protocol,
// status), resumes / pcalls / metamethod calls nested D deep (D + the number of contained errors
// crosses the limits when one unit leaks per error), xpcall's handler count, the caller's locals.
// The reference evaluator has no hidden counters: whatever the history, the probes give the
// fault-free answers ("all later behaviour is what it would have been").

func pickS(r *lib.Rand, xs ...string) string { return xs[r.Intn(len(xs))] }

func historyCount(r *lib.Rand) int {
	switch r.Pick(3, 4, 3, 2) {
	case 0:
		return r.Range(1, 6)
	case 1:
		return r.Range(199, 203) // maxCCalls / maxResumeDepth
	case 2:
		return r.Range(254, 259) // default CallStackSize
	}
	return r.Range(40, 120) // together with a deep probe
}

// failing bodies: a statement list that raises (i is the loop variable, x an upvalue counter)
func failBody(r *lib.Rand) string {
	return pickS(r,
		`x = x + 1; error({code = x})`,
		`x = x + 1; error("boom" .. x)`,
		`error("raw", 0)`,
		`x = x + 1; local t = nil; return t.x`,
		`return {} + 1`,
		`x = x + 1; error()`,
		`assert(false, "a" .. x)`,
		`local f = nil; f()`,
		`x = x + 1; error(x)`,
		`x = x + 1; error(true)`,
	)
}

// route: an expression of type function built from the failing function `fail`; called by the catcher
func route(r *lib.Rand) (setup, fn string, viaResume bool) {
	switch r.Pick(2, 6, 2, 3, 3, 2, 3, 2, 2) {
	case 0:
		return "", "fail", false
	case 1:
		return "", "coroutine.wrap(fail)", false
	case 2:
		return "", "fail", true // coroutine.resume(coroutine.create(fail)): no catcher needed
	case 3:
		return "", "coroutine.wrap(function() return coroutine.wrap(fail)() end)", false
	case 4:
		return "local w = coroutine.wrap(function(a) local b = coroutine.yield(a); fail(); return b end); w(i)", "w", false
	case 5:
		return "local o = setmetatable({}, {__index = function(t, k) fail(); return k end})", "function() return o.x end", false
	case 6:
		return "local o = setmetatable({}, {__index = function(t, k) return coroutine.wrap(fail)() end})", "function() return o.x end", false
	case 7:
		return "local w = coroutine.wrap(function() return 1 end); w()", "w", false // dead wrap function
	}
	return "", "function() local v = coroutine.wrap(fail)(); return v end", true // resume of a body that calls a failing wrap
}

func catcher(r *lib.Rand, fn string) string {
	switch r.Pick(5, 3, 2) {
	case 0:
		return "pcall(" + fn + ")"
	case 1:
		return "xpcall(" + fn + ", function(m) h = h + 1; return m end)"
	}
	return "coroutine.wrap(function() return pcall(" + fn + ") end)()"
}

func probe(r *lib.Rand, deep bool) string {
	d := r.Range(2, 12)
	if deep {
		d = r.Range(90, 115)
	}
	switch r.Pick(3, 3, 3, 2, 2, 2, 2) {
	case 0:
		return `local g = coroutine.wrap(function() for j = 1, 3 do coroutine.yield(j) end; return "done" end); emit(g(), g(), g(), g()); emit(pcall(g))`
	case 1:
		return `local co = coroutine.create(function(a) local b = coroutine.yield(a + 1); return b * 2 end); emit(coroutine.resume(co, 1)); emit(coroutine.status(co)); emit(coroutine.resume(co, 21)); emit(coroutine.status(co), coroutine.resume(co))`
	case 2:
		return fmt.Sprintf(`local function nest(n) if n == 0 then return 0 end; local ok, v = coroutine.resume(coroutine.create(nest), n - 1); if not ok then return v end; return v + 1 end; emit(nest(%d))`, d)
	case 3:
		if d > 100 {
			d = 100 // two call frames per level, 256 frames
		}
		return fmt.Sprintf(`local function dive(n) if n == 0 then return 0 end; local ok, v = pcall(dive, n - 1); if not ok then return v end; return v + 1 end; emit(dive(%d))`, d)
	case 4:
		return fmt.Sprintf(`local idx; idx = setmetatable({}, {__index = function(t, k) if k == 0 then return 0 end; return idx[k - 1] + 1 end}); emit(pcall(function() return idx[%d] end))`, d)
	case 5:
		return fmt.Sprintf(`local function wnest(n) if n == 0 then return 0 end; return coroutine.wrap(wnest)(n - 1) + 1 end; emit(pcall(wnest, %d))`, d)
	}
	return `local hr = 0; emit(xpcall(function() error("E", 0) end, function(m) hr = hr + 1; return "H:" .. m end)); emit(hr, coroutine.running())`
}

func historyBlock(r *lib.Rand, n int) string {
	var b strings.Builder
	setup, fn, viaResume := route(r)
	b.WriteString("local function fail() " + failBody(r) + " end\n")
	fmt.Fprintf(&b, "for i = 1, %d do\n", n)
	if setup != "" {
		b.WriteString(setup + "\n")
	}
	if viaResume {
		b.WriteString("local ok, e = coroutine.resume(coroutine.create(" + fn + "))\n")
	} else {
		b.WriteString("local ok, e = " + catcher(r, fn) + "\n")
	}
	b.WriteString("if not ok then caught = caught + 1; last = e end\n")
	if r.Chance(30) {
		// successful uses in between must not disturb anything either
		b.WriteString("local okw, vw = pcall(coroutine.wrap(function(a) return a + 1 end), i); if okw and vw == i + 1 then good = good + 1 end\n")
	}
	b.WriteString("end\n")
	return b.String()
}

func historySource(r *lib.Rand) string {
	var b strings.Builder
	b.WriteString("local x, h, caught, good, last = 0, 0, 0, 0, nil\n")
	n := historyCount(r)
	deep := n < 199 && n >= 40
	body := historyBlock(r, n)
	if r.Chance(25) {
		body += historyBlock(r, r.Range(1, 5))
	}
	switch r.Pick(5, 2, 2, 1) {
	case 0:
		b.WriteString(body)
	case 1: // the whole history runs inside a coroutine body
		b.WriteString("local hist = coroutine.wrap(function()\n" + body + "coroutine.yield(caught)\nreturn caught end)\nemit(hist())\n")
	case 2: // ... inside a protected call
		b.WriteString("emit(pcall(function()\n" + body + "return caught end))\n")
	case 3: // ... inside a coroutine that is then abandoned by an error of its own
		b.WriteString("emit(pcall(coroutine.wrap(function()\n" + body + "error({caught}) end)))\n")
	}
	b.WriteString("emit(caught, good, h, x, type(last))\n")
	np := r.Range(2, 4)
	for i := 0; i < np; i++ {
		b.WriteString("do " + probe(r, deep && i == 0) + " end\n")
	}
	b.WriteString("emit(caught, x)\n")
	return b.String()
}

func historyGen(r *lib.Rand) []luagen.Stmt {
	src := historySource(r)
	prog, err := luagen.ParseCorpus(src)
	if err != nil {
		panic(fmt.Sprintf("history program does not parse: %v\n%s", err, src))
	}
	return prog
}

// referenceOnly: fixed programs compared with the reference evaluator alone (plain CProg cases: the VM
// model is not consulted). Used for witnesses whose VM-model transcription is behind the Go code.
var referenceOnlyCorpus = []string{
	// a message handler that raises leaves the C-call depth where it was (8afd4e6): the coroutine can still yield
	`local co = coroutine.wrap(function() emit(xpcall(function() error("a", 0) end, function(m) error("b", 0) end)); local r = coroutine.yield(1); return r + 1 end); emit(co()); emit(co(41))`,
	`local co = coroutine.wrap(function() for i = 1, 3 do xpcall(function() local t; return t.x end, function(m) error({i}) end) end; local r = coroutine.yield(1); return r + 1 end); emit(co()); emit(co(41))`,
}

func referenceOnly(w *lib.Writer) {
	for i, src := range referenceOnlyCorpus {
		prog, err := luagen.ParseCorpus(src)
		if err != nil {
			panic(fmt.Sprintf("reference-only entry %d does not parse: %v", i, err))
		}
		text := luagen.PrintLua(prog)
		out := luagen.RunIsolated(text, 20*time.Second, nil)
		c := lib.Case{Input: map[string]any{"src": text, "mode": "reference-only", "idx": i}, Observed: out.Summary(), Class: "reference-only",
			Nontrivial: true, KF: []string{"C05-5"}, Coq: fmt.Sprintf("CProg %s %s", luagen.CoqBlock(prog), out.Coq())}
		if out.GoFail != "" {
			c.Coq = "CProg [] (Outcome [] (OOk []))"
		}
		id := w.Add(c)
		if out.GoFail != "" {
			w.GoFail(id, out.GoFail)
		}
	}
}
