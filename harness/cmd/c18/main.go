// c18: correspondence harness for property C18 (table library list semantics; sort).
// One case = one history of table.* calls and direct assignments on one table, all through the
// Lua-level entry points, with a read-back (rawget 1..#t+1) after every mutation.
package main

import (
	"encoding/hex"
	"encoding/json"
	"fmt"
	"math"
	"os"
	"strings"

	lua "github.com/yuin/gopher-lua"
	"verifh/cmd/c09/tv"
	"verifh/lib"
)

const header = "From GL Require Import Common.Bytes Table.TImpl Table.TSpec Table.TLib Table.TLibCases."
const defaultMai = 67108864

type Cmp struct {
	Kind string `json:"kind"` // default nil lt gt lt_truthy gt_truthy mod const bits failat yieldat meta metalt (B: descending)
	// failat: M = what is raised (0 a string, 1 a table, 2 nil); yieldat: the K-th call calls coroutine.yield
	M    int64  `json:"m,omitempty"`
	B    bool   `json:"b,omitempty"`
	Bits []bool `json:"bits,omitempty"`
	K    int64  `json:"k,omitempty"`
}

type Step struct {
	Op     string `json:"op"` // ins2 ins3 insbad rem1 rem2 assign assignk concat unpack getn maxn len read sort
	V      *tv.V  `json:"v,omitempty"`
	K      *tv.V  `json:"k,omitempty"`
	I      *int64 `json:"i,omitempty"`
	J      *int64 `json:"j,omitempty"`
	Sep    string `json:"sep,omitempty"`    // hex
	SepNum *int64 `json:"sepnum,omitempty"` // concat: the separator is this number
	N      int64  `json:"n,omitempty"`      // fill: how many
	JHuge  bool   `json:"jhuge,omitempty"`  // unpack: j = math.huge
	Cmp    *Cmp   `json:"cmp,omitempty"`
	Nest   *Nest  `json:"nest,omitempty"` // sort: what the comparator does besides answering
	Co     bool   `json:"co,omitempty"`   // the library call of this step runs inside a coroutine started for it
	Act    string `json:"act,omitempty"`  // sortmut: remove (default) | sortself | insert
}

// Nest: the comparator (or __lt metamethod) of a sort re-enters the table library: at its At-th
// call (1-based), and then at every Every-th call after that (0 = only once), it performs the next
// of Acts (cycled) before answering.
type Nest struct {
	At    int64     `json:"at"`
	Every int64     `json:"every,omitempty"`
	Acts  []NestAct `json:"acts"`
}

// NestAct: table.sort(u, cmp) on a fresh table u holding List.
//   sort   called unprotected on the thread the comparator runs on
//   pcall  the same under pcall (the inner comparator may fail; the outer sort goes on)
//   co     inside a coroutine created on the spot (coroutine.wrap)
//   state2 in a second, independent Lua state of the same process
type NestAct struct {
	Kind string `json:"kind"`
	List []tv.V `json:"list"`
	Cmp  *Cmp   `json:"cmp"`
	Nest *Nest  `json:"nest,omitempty"` // the inner comparator re-enters as well (one more level)
}

type call struct{ A, B tv.V }

// sortRec: one nested table.sort as observed
type sortRec struct {
	List   []tv.V
	Cmp    *Cmp
	Calls  []call
	Raised bool
	Final  []tv.V
}

const maxInner = 24 // nested sorts recorded (and performed) per sort step

type Input struct {
	Steps []Step `json:"steps"`
}

const helpers = `
function h_set(t,k,v) t[k]=v end
function h_len(t) return #t end
function h_new() return {} end
function c_lt(a,b) return a < b end
function c_gt(a,b) return a > b end
function c_lt_truthy(a,b) if a < b then return 0 else return nil end end
function c_gt_truthy(a,b) if a > b then return "yes" else return false end end
function c_mod(m) return function(a,b) return a % m < b % m end end
function c_yieldat(k) local n = 0 return function(a,b) n = n + 1 if n == k then coroutine.yield(n) end return a < b end end
function h_co(f, ...) return coroutine.wrap(function(...) return f(...) end)(...) end
`

type runner struct {
	L      *lua.LState
	pool   *tv.Pool
	t      *lua.LTable
	coq    []string
	obs    []any
	fail   string
	offdom bool
	stop   bool
	nsort  int
	nmut   int
	inner  []*sortRec
	co     bool // the current step's library call runs inside a coroutine of its own
}

var theL, theL2 *lua.LState

// state2: a second Lua state of the process (sorts there must not interfere with sorts here)
func state2() *lua.LState {
	if theL2 == nil {
		theL2 = lua.NewState()
		if err := theL2.DoString(helpers); err != nil {
			panic(err)
		}
	}
	return theL2
}

func newRunner() *runner {
	if theL == nil {
		theL = lua.NewState()
		if err := theL.DoString(helpers); err != nil {
			panic(err)
		}
	}
	r := &runner{L: theL}
	r.L.SetTop(0)
	lua.MaxArrayIndex = defaultMai
	r.pool = tv.NewPool(r.L, 6)
	res, _ := r.callG("h_new")
	r.t = res[0].(*lua.LTable)
	return r
}

func (r *runner) callF(f lua.LValue, args ...lua.LValue) (res []lua.LValue, err error) {
	L := r.L
	top := L.GetTop()
	err = L.CallByParam(lua.P{Fn: f, NRet: lua.MultRet, Protect: true}, args...)
	if err != nil {
		L.SetTop(top)
		return nil, err
	}
	for i := top + 1; i <= L.GetTop(); i++ {
		res = append(res, L.Get(i))
	}
	L.SetTop(top)
	return res, nil
}
func (r *runner) callG(fn string, args ...lua.LValue) ([]lua.LValue, error) {
	return r.callF(r.L.GetGlobal(fn), args...)
}
func (r *runner) callT(fn string, args ...lua.LValue) ([]lua.LValue, error) {
	return r.callCo(r.L.GetField(r.L.GetGlobal("table"), fn), args...)
}

// callCo: f(args...), inside a coroutine created for the call when the step asks for it
func (r *runner) callCo(f lua.LValue, args ...lua.LValue) ([]lua.LValue, error) {
	if r.co {
		return r.callG("h_co", append([]lua.LValue{f}, args...)...)
	}
	return r.callF(f, args...)
}

func (r *runner) failf(f string, a ...any) {
	if r.fail == "" {
		s := fmt.Sprintf(f, a...)
		if len(s) > 300 {
			s = s[:300]
		}
		r.fail = s
	}
}

func (r *runner) of(lv lua.LValue) tv.V {
	v, ok := r.pool.Of(lv)
	if !ok || !v.ValOK() {
		r.failf("unexpected value %v", lv)
		return tv.Nil()
	}
	return v
}

func (r *runner) length() int64 {
	res, err := r.callG("h_len", r.t)
	if err != nil || len(res) != 1 {
		r.failf("#t: %v", err)
		return 0
	}
	n, ok := res[0].(lua.LNumber)
	if !ok {
		r.failf("#t is not a number")
		return 0
	}
	return int64(n)
}

func (r *runner) rawget(i int64) tv.V {
	res, err := r.callG("rawget", r.t, lua.LNumber(i))
	if err != nil || len(res) != 1 {
		r.failf("rawget: %v", err)
		return tv.Nil()
	}
	return r.of(res[0])
}

func optZ(p *int64) string {
	if p == nil {
		return "None"
	}
	return "(Some " + lib.CoqZ(*p) + ")"
}

func (c *Cmp) coq() string {
	switch c.Kind {
	case "lt", "lt_truthy":
		return "CLt"
	case "gt", "gt_truthy":
		return "CGt"
	case "mod":
		return "(CMod " + lib.CoqZ(c.M) + ")"
	case "const":
		return "(CConst " + lib.CoqBool(c.B) + ")"
	case "bits":
		it := make([]string, len(c.Bits))
		for i, b := range c.Bits {
			it[i] = lib.CoqBool(b)
		}
		return "(CBits " + lib.CoqList(it) + ")"
	case "failat", "yieldat":
		return "(CFailAt " + lib.CoqZ(c.K) + ")"
	}
	return "CDefault"
}

func (r *runner) num1(res []lua.LValue, err error, what string) int64 {
	if err != nil || len(res) != 1 {
		r.failf("%s: err=%v results=%d", what, err, len(res))
		return -1
	}
	n, ok := res[0].(lua.LNumber)
	if !ok || float64(n) != float64(int64(n)) {
		r.failf("%s: not an integer", what)
		return -1
	}
	return int64(n)
}

func (r *runner) exec(s *Step) {
	defer func() {
		if e := recover(); e != nil {
			r.failf("Go panic in %s: %v", s.Op, e)
			// the states may hold half-unwound frames: the next case starts from fresh ones
			theL, theL2 = nil, nil
		}
	}()
	t := r.t
	var obs any
	var coq string
	r.co = s.Co
	defer func() { r.co = false }()
	switch s.Op {
	case "ins2":
		if _, err := r.callT("insert", t, r.pool.L(*s.V)); err != nil {
			r.failf("table.insert raised: %v", err)
		}
		coq = "LIns2 " + s.V.CoqVal()
		r.nmut++
	case "ins3":
		if _, err := r.callT("insert", t, lua.LNumber(*s.I), r.pool.L(*s.V)); err != nil {
			r.failf("table.insert raised: %v", err)
		}
		coq = fmt.Sprintf("LIns3 %s %s", lib.CoqZ(*s.I), s.V.CoqVal())
		r.nmut++
	case "fill":
		for i := int64(0); i < s.N; i++ {
			if _, err := r.callT("insert", t, r.pool.L(*s.V)); err != nil {
				r.failf("table.insert raised: %v", err)
				break
			}
		}
		coq = fmt.Sprintf("LFill %s %s", lib.CoqZ(s.N), s.V.CoqVal())
		r.nmut++
	case "sortmut":
		// a comparator with a side effect on the table being sorted (table.remove(t,1) at its I-th
		// call): anything may come out, but only Lua values and at most a Lua error. Go side only.
		ncall := int64(0)
		bad := ""
		rec := r.L.NewFunction(func(L *lua.LState) int {
			a, b := L.Get(1), L.Get(2)
			if a == nil || b == nil {
				bad = "comparator received a Go nil"
			}
			ncall++
			if ncall == *s.I {
				switch s.Act {
				case "sortself": // the comparator sorts the very table being sorted (default order)
					L.Push(L.GetField(L.GetGlobal("table"), "sort"))
					L.Push(t)
					L.Call(1, 0)
				case "insert": // the table grows (its array may be reallocated) under the running sort
					for i := 0; i < 40; i++ {
						L.Push(L.GetField(L.GetGlobal("table"), "insert"))
						L.Push(t)
						L.Push(a)
						L.Call(2, 0)
					}
				default:
					L.Push(L.GetField(L.GetGlobal("table"), "remove"))
					L.Push(t)
					L.Push(lua.LNumber(1))
					L.Call(2, 0)
				}
			}
			if s.Cmp != nil && s.Cmp.Kind == "const" {
				L.Push(lua.LTrue)
				return 1
			}
			L.Push(lua.LBool(lessOrRaise(L, a, b)))
			return 1
		})
		_, err := r.callT("sort", t, rec)
		if err != nil && strings.Contains(err.Error(), "runtime error") {
			bad = "sort raised a Go runtime error: " + err.Error()
		}
		for i := 1; i <= t.Len()+2; i++ {
			if t.RawGetInt(i) == nil {
				bad = fmt.Sprintf("t[%d] is a Go nil after the sort", i)
			}
		}
		t.ForEach(func(k, v lua.LValue) {
			if k == nil || v == nil {
				bad = "ForEach delivers a Go nil after the sort"
			}
		})
		if bad != "" {
			r.failf("%s", bad)
		}
		r.stop = true
		coq = "LStop"
	case "rem1", "rem2", "remnil":
		var res []lua.LValue
		var err error
		if s.Op == "rem1" {
			res, err = r.callT("remove", t)
		} else if s.Op == "remnil" {
			res, err = r.callT("remove", t, lua.LNil)
		} else {
			res, err = r.callT("remove", t, lua.LNumber(*s.I))
		}
		o := "None"
		if err != nil || len(res) > 1 {
			r.failf("table.remove: err=%v results=%d", err, len(res))
		} else if len(res) == 1 {
			v := r.of(res[0])
			obs = v
			o = "(Some " + v.CoqVal() + ")"
		} else {
			obs = "no value"
		}
		if s.Op == "rem1" || s.Op == "remnil" {
			coq = "LRem1 " + o
		} else {
			coq = fmt.Sprintf("LRem2 %s %s", lib.CoqZ(*s.I), o)
		}
		r.nmut++
	case "insbad":
		_, err := r.callT("insert", t, lua.LNumber(1), lua.LNumber(2), lua.LNumber(3))
		obs = err != nil
		coq = "LInsBad " + lib.CoqBool(err != nil)
	case "assignk":
		if _, err := r.callG("h_set", t, r.pool.L(*s.K), r.pool.L(*s.V)); err != nil {
			r.failf("t[k]=v raised: %v", err)
		}
		coq = fmt.Sprintf("LAssignK %s %s", s.K.CoqKey(), s.V.CoqVal())
		r.nmut++
	case "assign":
		if _, err := r.callG("h_set", t, lua.LNumber(*s.I), r.pool.L(*s.V)); err != nil {
			r.failf("t[i]=v raised: %v", err)
		}
		coq = fmt.Sprintf("LAssign %s %s", lib.CoqZ(*s.I), s.V.CoqVal())
		r.nmut++
	case "concat":
		sep, _ := hex.DecodeString(s.Sep)
		args := []lua.LValue{t, lua.LString(string(sep))}
		if s.SepNum != nil {
			sep = []byte(fmt.Sprint(*s.SepNum))
			args = []lua.LValue{t, lua.LNumber(*s.SepNum)}
		}
		if s.I != nil {
			args = append(args, lua.LNumber(*s.I))
			if s.J != nil {
				args = append(args, lua.LNumber(*s.J))
			}
		}
		res, err := r.callT("concat", args...)
		o := "None"
		if err == nil {
			if len(res) != 1 {
				r.failf("table.concat returned %d values", len(res))
			} else if str, ok := res[0].(lua.LString); ok {
				o = "(Some " + lib.CoqBytes([]byte(string(str))) + ")"
				obs = hex.EncodeToString([]byte(string(str)))
			} else {
				r.failf("table.concat returned a non-string")
			}
		} else {
			obs = "error"
		}
		coq = fmt.Sprintf("LConcat %s %s %s %s", lib.CoqBytes(sep), optZ(s.I), optZ(s.J), o)
	case "unpack":
		args := []lua.LValue{t}
		if s.I != nil {
			args = append(args, lua.LNumber(*s.I))
			if s.J != nil {
				args = append(args, lua.LNumber(*s.J))
			}
		}
		if s.JHuge {
			// int(+Inf) is the most negative int on the platforms this runs on
			args = append(args[:2:2], lua.LNumber(math.Inf(1)))
			s.J = zp(math.MinInt64)
		}
		res, err := r.callCo(r.L.GetGlobal("unpack"), args...)
		if err != nil {
			r.failf("unpack raised: %v", err)
		}
		vs := make([]tv.V, len(res))
		for i, x := range res {
			vs[i] = r.of(x)
		}
		obs = vs
		coq = fmt.Sprintf("LUnpack %s %s %s", optZ(s.I), optZ(s.J), tv.CoqVals(vs))
	case "getn":
		res, err := r.callT("getn", t)
		n := r.num1(res, err, "getn")
		obs = n
		coq = "LGetn " + lib.CoqZ(n)
	case "maxn":
		res, err := r.callT("maxn", t)
		k := tv.Int(0)
		if err != nil || len(res) != 1 {
			r.failf("maxn: err=%v results=%d", err, len(res))
		} else if n, ok := res[0].(lua.LNumber); ok && float64(n) == float64(n) {
			k = tv.Num(float64(n))
		} else {
			r.failf("maxn: not a number")
		}
		obs = k
		coq = "LMaxn " + k.CoqKey()
	case "len":
		n := r.length()
		obs = n
		coq = "LLen " + lib.CoqZ(n)
	case "read":
		n := r.length()
		vs := make([]tv.V, 0, n+1)
		for i := int64(1); i <= n+1; i++ {
			vs = append(vs, r.rawget(i))
		}
		obs = vs
		coq = "LRead " + tv.CoqVals(vs)
	case "sort":
		n := r.length()
		c := s.Cmp
		var calls []call
		r.inner = nil
		rec := r.cmpFn(r.L, c, s.Nest, &calls, 0)
		sortfn := r.L.GetField(r.L.GetGlobal("table"), "sort")
		args := []lua.LValue{t}
		switch c.Kind {
		case "default":
		case "nil":
			args = append(args, lua.LNil)
		case "meta", "metalt":
			// the objects get one metatable whose __lt is the recording function
			mt := r.L.NewTable()
			mt.RawSetString("__lt", rec)
			for _, o := range r.pool.Objs {
				r.L.SetMetatable(o, mt)
			}
			if c.Kind == "metalt" {
				args = append(args, r.L.GetGlobal("c_lt"))
			}
		default:
			args = append(args, rec)
		}
		_, err := r.callCo(sortfn, args...)
		if c.Kind == "meta" || c.Kind == "metalt" {
			for _, o := range r.pool.Objs {
				r.L.SetMetatable(o, lua.LNil)
			}
		}
		raised := err != nil
		if err != nil && strings.Contains(err.Error(), "runtime error") {
			r.failf("table.sort ended in a Go runtime error: %v", err)
		}
		final := make([]tv.V, 0, n)
		for i := int64(1); i <= n; i++ {
			final = append(final, r.rawget(i))
		}
		for _, ir := range r.inner {
			r.coq = append(r.coq, fmt.Sprintf("(LSortAt %s %s %s %s %s)", tv.CoqVals(ir.List), ir.Cmp.coq(), coqCalls(ir.Calls), lib.CoqBool(ir.Raised), tv.CoqVals(ir.Final)))
			r.obs = append(r.obs, map[string]any{"nested": true, "raised": ir.Raised, "final": ir.Final, "ncalls": len(ir.Calls)})
		}
		obs = map[string]any{"raised": raised, "final": final, "ncalls": len(calls), "nested": len(r.inner)}
		if c.Kind == "meta" || c.Kind == "metalt" {
			coq = fmt.Sprintf("LSortMeta %s %s %s %s", lib.CoqBool(c.B), coqCalls(calls), lib.CoqBool(raised), tv.CoqVals(final))
		} else {
			coq = fmt.Sprintf("LSort %s %s %s %s", c.coq(), coqCalls(calls), lib.CoqBool(raised), tv.CoqVals(final))
		}
		r.inner = nil
		r.nsort++
	default:
		r.failf("unknown op %s", s.Op)
	}
	r.coq = append(r.coq, "("+coq+")")
	r.obs = append(r.obs, obs)
}

func coqCalls(calls []call) string {
	cs := make([]string, len(calls))
	for i, x := range calls {
		cs[i] = "(" + x.A.CoqVal() + ", " + x.B.CoqVal() + ")"
	}
	return lib.CoqList(cs)
}

// cmpFn builds the comparator for c as a Go function of state L0: it records its two arguments,
// performs the nested acts of nest (if any) at the calls nest selects, then answers as c says.
// Everything it does goes through the state it is called with (a coroutine's, when it runs in one).
func (r *runner) cmpFn(L0 *lua.LState, c *Cmp, nest *Nest, calls *[]call, depth int) *lua.LFunction {
	ncall := int64(0)
	nact := 0
	var yielder lua.LValue
	return L0.NewFunction(func(L *lua.LState) int {
		a, b := L.Get(1), L.Get(2)
		*calls = append(*calls, call{r.of(a), r.of(b)})
		k := ncall
		ncall++
		if nest != nil && len(nest.Acts) > 0 && len(r.inner) < maxInner &&
			(ncall == nest.At || (ncall > nest.At && nest.Every > 0 && (ncall-nest.At)%nest.Every == 0)) {
			act := &nest.Acts[nact%len(nest.Acts)]
			nact++
			r.nestedSort(L, act, depth+1)
		}
		switch c.Kind {
		case "const":
			L.Push(lua.LBool(c.B))
		case "bits":
			v := false
			if int(k) < len(c.Bits) {
				v = c.Bits[k]
			}
			L.Push(lua.LBool(v))
		case "failat":
			if k+1 == c.K {
				switch c.M {
				case 1:
					L.Error(L.NewTable(), 1)
				case 2:
					L.Error(lua.LNil, 1)
				}
				L.RaiseError("comparator failure")
			}
			L.Push(lua.LBool(lessOrRaise(L, a, b)))
		case "yieldat":
			// a Lua comparator that calls coroutine.yield at its K-th call: table.sort cannot be
			// suspended, the yield is an error (whether or not the sort runs inside a coroutine)
			if yielder == nil {
				L.Push(L.GetGlobal("c_yieldat"))
				L.Push(lua.LNumber(c.K))
				L.Call(1, 1)
				yielder = L.Get(-1)
				L.Pop(1)
			}
			L.Push(yielder)
			L.Push(a)
			L.Push(b)
			L.Call(2, 1)
		case "meta", "metalt":
			// __lt of two pool objects: by identity number
			va, vb := r.of(a), r.of(b)
			if va.T != "o" || vb.T != "o" {
				L.RaiseError("__lt called with a non-object")
			}
			if c.B {
				L.Push(lua.LBool(vb.O < va.O))
			} else {
				L.Push(lua.LBool(va.O < vb.O))
			}
		default:
			var inner lua.LValue
			switch c.Kind {
			case "gt":
				inner = L.GetGlobal("c_gt")
			case "lt_truthy":
				inner = L.GetGlobal("c_lt_truthy")
			case "gt_truthy":
				inner = L.GetGlobal("c_gt_truthy")
			case "mod":
				L.Push(L.GetGlobal("c_mod"))
				L.Push(lua.LNumber(c.M))
				L.Call(1, 1)
				inner = L.Get(-1)
				L.Pop(1)
			default:
				inner = L.GetGlobal("c_lt")
			}
			L.Push(inner)
			L.Push(a)
			L.Push(b)
			L.Call(2, 1)
		}
		return 1
	})
}

// nestedSort: table.sort(u, cmp) on a fresh table u, from inside a running comparator on L.
func (r *runner) nestedSort(L *lua.LState, act *NestAct, depth int) {
	LL := L
	if act.Kind == "state2" {
		LL = state2()
	}
	u := LL.NewTable()
	for _, v := range act.List {
		u.Append(r.pool.L(v))
	}
	rec := &sortRec{List: act.List, Cmp: act.Cmp}
	var nest *Nest
	if depth < 4 {
		nest = act.Nest
	}
	sortfn := LL.GetField(LL.GetGlobal("table"), "sort")
	args := []lua.LValue{u}
	switch act.Cmp.Kind {
	case "default":
	case "nil":
		args = append(args, lua.LNil)
	default:
		args = append(args, r.cmpFn(LL, act.Cmp, nest, &rec.Calls, depth))
	}
	var err error
	switch act.Kind {
	case "pcall":
		L.Push(sortfn)
		for _, x := range args {
			L.Push(x)
		}
		err = L.PCall(len(args), 0, nil)
	case "co":
		L.Push(L.GetGlobal("h_co"))
		L.Push(sortfn)
		for _, x := range args {
			L.Push(x)
		}
		L.Call(len(args)+1, 0)
	case "state2":
		top := LL.GetTop()
		err = LL.CallByParam(lua.P{Fn: sortfn, NRet: 0, Protect: true}, args...)
		LL.SetTop(top)
	default:
		L.Push(sortfn)
		for _, x := range args {
			L.Push(x)
		}
		L.Call(len(args), 0)
	}
	if err != nil && strings.Contains(err.Error(), "runtime error") {
		r.failf("nested table.sort ended in a Go runtime error: %v", err)
	}
	rec.Raised = err != nil
	for i := 1; i <= len(act.List); i++ {
		rec.Final = append(rec.Final, r.of(u.RawGetInt(i)))
	}
	r.inner = append(r.inner, rec)
}

// lessOrRaise: a < b through the VM's comparison (raises the Lua error for incomparable values).
func lessOrRaise(L *lua.LState, a, b lua.LValue) bool {
	L.Push(L.GetGlobal("c_lt"))
	L.Push(a)
	L.Push(b)
	L.Call(2, 1)
	v := L.Get(-1)
	L.Pop(1)
	return lua.LVAsBool(v)
}

func runCase(w *lib.Writer, in *Input, class string, plan func(r *runner) *Step) {
	r := newRunner()
	if plan != nil {
		for {
			s := plan(r)
			if s == nil || r.fail != "" || r.stop {
				break
			}
			r.exec(s)
			in.Steps = append(in.Steps, *s)
		}
	} else {
		for i := range in.Steps {
			r.exec(&in.Steps[i])
			if r.fail != "" || r.stop {
				break
			}
		}
	}
	if class == "sort" {
		for i := range in.Steps {
			if in.Steps[i].Nest != nil {
				class = "sortnest"
				break
			}
			if c := in.Steps[i].Cmp; c != nil && (c.Kind == "meta" || c.Kind == "metalt") {
				class = "sortmeta"
			}
		}
	}
	id := w.NextID()
	c := lib.Case{Input: in, Observed: r.obs, Class: class,
		Nontrivial: r.nmut >= 5 || r.nsort >= 1,
		Coq:        fmt.Sprintf("mkCase %d %s", defaultMai, lib.CoqList(r.coq))}
	w.Add(c)
	if r.fail != "" {
		w.GoFail(id, r.fail)
	}
}

func replay(w *lib.Writer, file string) {
	b, err := os.ReadFile(file)
	if err != nil {
		panic(err)
	}
	var rp struct {
		Input Input `json:"input"`
	}
	if err := json.Unmarshal(b, &rp); err != nil {
		panic(err)
	}
	runCase(w, &rp.Input, "replay", nil)
}

func main() {
	a := lib.ParseArgs()
	if a.Cmd != "run" {
		fmt.Fprintln(os.Stderr, "unknown command", a.Cmd)
		os.Exit(2)
	}
	w, err := lib.NewWriter(a.Out, "C18", a.Tier, a.Seed, header, "case", 100)
	if err != nil {
		panic(err)
	}
	w.Meta.Rule = "one case = one history of table.insert (2/3 args), table.remove (1/2 args), t[i]=v, table.concat, unpack, table.getn/maxn, # and table.sort " +
		"(comparators: none, <, >, a%m<b%m, constant, scripted answers, failing at the k-th call) called as Lua functions on one table, positions drawn around #t, " +
		"with rawget(t,1..#t+1) read back after every mutation; sorts also ordered through an __lt metamethod, run inside a coroutine, with comparators that yield or raise non-string errors, " +
		"and re-entered from their own comparator/__lt (nested table.sort on another list: same thread, under pcall, in a coroutine, in a second Lua state, up to four levels; every nested sort is a checked LSortAt step); " +
		"long lists (40-400 elements) sorted, re-sorted and sorted in reverse; any library call may run inside a coroutine of its own; list and sort histories, trailing holes by t[#t]=nil, a few steps outside the property's domain (then only the implementation model is compared); " +
		"non-trivial = at least 5 mutations or at least one sort; distinct by Gallina term"
	r := lib.NewRand(a.Seed)
	if a.Replay != "" {
		replay(w, a.Replay)
	} else {
		corpus(w)
		generate(w, r, a.Tier)
	}
	if err := w.Close(); err != nil {
		panic(err)
	}
}
