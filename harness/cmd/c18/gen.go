package main

import (
	"encoding/hex"
	"math"

	"verifh/cmd/c09/tv"
	"verifh/lib"
)

var strs = []string{"", "a", "b", "ab", "B", "10", "9", "z\x00", "\xff", "abc", "a "}

func zp(i int64) *int64 { return &i }
func vp(v tv.V) *tv.V   { return &v }

// flavour: 0 numbers, 1 strings, 2 numbers+strings (concat works, < fails), 3 anything,
// 4 objects only (ordered through an __lt metamethod), 5 numbers from a wide range (few duplicates)
func genVal(g *lib.Rand, flavour int) tv.V {
	switch flavour {
	case 4:
		return tv.Obj(g.Intn(6))
	case 5:
		return tv.Int(int64(g.Range(-400, 400)))
	case 0:
		return tv.Int(int64(g.Range(-5, 12)))
	case 1:
		return tv.Str(strs[g.Intn(len(strs))])
	case 2:
		if g.Bool() {
			return tv.Int(int64(g.Range(-5, 12)))
		}
		return tv.Str(strs[g.Intn(len(strs))])
	}
	switch g.Pick(4, 3, 2, 1) {
	case 0:
		return tv.Int(int64(g.Range(-5, 12)))
	case 1:
		return tv.Str(strs[g.Intn(len(strs))])
	case 2:
		return tv.Bool(g.Bool())
	}
	return tv.Obj(g.Intn(3))
}

func genCmp(g *lib.Rand, flavour int) *Cmp {
	if flavour == 4 && g.Chance(85) || g.Chance(2) {
		// no comparator function (or a < b): the elements are ordered by their __lt metamethod
		k := "meta"
		if g.Chance(30) {
			k = "metalt"
		}
		return &Cmp{Kind: k, B: g.Bool()}
	}
	if flavour == 5 {
		flavour = 0
	}
	switch g.Pick(22, 18, 14, 12, 8, 14, 12) {
	case 0:
		if g.Chance(30) {
			return &Cmp{Kind: "nil"}
		}
		return &Cmp{Kind: "default"}
	case 1:
		if g.Chance(45) {
			return &Cmp{Kind: "lt_truthy"}
		}
		return &Cmp{Kind: "lt"}
	case 2:
		if g.Chance(45) {
			return &Cmp{Kind: "gt_truthy"}
		}
		return &Cmp{Kind: "gt"}
	case 3:
		if flavour == 0 || g.Chance(10) {
			return &Cmp{Kind: "mod", M: int64(g.Range(1, 5))}
		}
		return &Cmp{Kind: "lt"}
	case 4:
		return &Cmp{Kind: "const", B: g.Chance(70)}
	case 5:
		bits := make([]bool, g.Range(0, 60))
		for i := range bits {
			bits[i] = g.Bool()
		}
		return &Cmp{Kind: "bits", Bits: bits}
	}
	if g.Chance(20) {
		return &Cmp{Kind: "yieldat", K: int64(g.Range(1, 8))}
	}
	return &Cmp{Kind: "failat", K: int64(g.Range(1, 12)), M: int64(g.Pick(70, 20, 10))}
}

// genInnerCmp: comparator of a nested sort. safe = it cannot raise on a list of the given flavour
// (0 numbers, 1 strings) - a nested sort that is not under pcall must not fail, or the failure
// would (legitimately) end the outer sort.
func genInnerCmp(g *lib.Rand, flavour int, safe bool) *Cmp {
	for {
		c := genCmp(g, flavour)
		switch c.Kind {
		case "meta", "metalt":
			continue
		case "failat", "yieldat":
			if safe {
				continue
			}
		case "mod":
			if flavour != 0 {
				continue
			}
		}
		return c
	}
}

// genNest: what a comparator does besides answering (see Nest). depth 1 = acts of the outer
// comparator; their comparators may re-enter in turn (up to four levels).
func genNest(g *lib.Rand, depth int) *Nest {
	n := &Nest{At: int64(g.Range(1, 4)), Every: int64([]int{0, 1, 1, 2, 3, 5}[g.Intn(6)])}
	for i, k := 0, g.Range(1, 3); i < k; i++ {
		a := NestAct{Kind: []string{"sort", "sort", "sort", "pcall", "pcall", "co", "state2"}[g.Intn(7)]}
		fl := g.Intn(2)
		safe := a.Kind != "pcall" && a.Kind != "state2"
		if !safe && g.Chance(35) {
			fl = 2 // numbers and strings mixed: a < b raises
		}
		for j, m := 0, g.Pick(3, 6, 25, 25, 15, 10, 8, 5, 3); j < m; j++ {
			a.List = append(a.List, genVal(g, fl))
		}
		if depth == 1 && g.Chance(4) {
			// long enough for the sorting routine to leave its insertion-sort range
			for j := 0; j < 14; j++ {
				a.List = append(a.List, genVal(g, fl))
			}
		}
		a.Cmp = genInnerCmp(g, fl%2, safe)
		if fl == 2 && (a.Cmp.Kind == "mod" || a.Cmp.Kind == "const" || a.Cmp.Kind == "bits") {
			a.Cmp = &Cmp{Kind: "lt"}
		}
		if depth < 4 && a.Cmp.Kind != "default" && a.Cmp.Kind != "nil" && g.Chance(30) {
			a.Nest = genNest(g, depth+1)
		}
		n.Acts = append(n.Acts, a)
	}
	return n
}

type planner struct {
	g       *lib.Rand
	left    int
	flavour int
	sortPct int
	nestPct int
	offPct  int
	pending []Step
	isOff   bool
}

func (p *planner) next(r *runner) *Step {
	if len(p.pending) > 0 {
		s := p.pending[0]
		p.pending = p.pending[1:]
		return &s
	}
	if st := p.next1(r); st != nil {
		switch st.Op {
		case "ins2", "ins3", "rem1", "rem2", "remnil", "concat", "unpack", "getn", "maxn":
			// the same call from inside a coroutine of its own: nothing may change
			if p.g.Chance(4) {
				st.Co = true
			}
		}
		return st
	}
	return nil
}

func (p *planner) next1(r *runner) *Step {
	if p.left <= 0 {
		return nil
	}
	p.left--
	g := p.g
	n := int64(r.t.Len())
	read := Step{Op: "read"}
	mut := func(s Step) *Step {
		p.pending = append(p.pending, read)
		return &s
	}
	val := func() tv.V { return genVal(g, p.flavour) }
	if g.Chance(p.offPct) {
		p.isOff = true
		switch g.Intn(6) {
		case 0:
			return mut(Step{Op: "ins3", I: zp([]int64{0, -1, n + 2, n + 3}[g.Intn(4)]), V: vp(val())})
		case 1:
			return mut(Step{Op: "rem2", I: zp([]int64{0, -1, n + 1, n + 2}[g.Intn(4)])})
		case 2:
			return mut(Step{Op: "assign", I: zp(int64(g.Range(1, int(n)+1))), V: vp(tv.Nil())})
		case 3:
			return mut(Step{Op: "assign", I: zp(n + int64(g.Range(2, 4))), V: vp(val())})
		case 4:
			return mut(Step{Op: "ins3", I: zp(int64(g.Range(1, int(n)+1))), V: vp(tv.Nil())})
		}
		return mut(Step{Op: "assign", I: zp([]int64{0, -2}[g.Intn(2)]), V: vp(val())})
	}
	if g.Chance(p.sortPct) {
		if g.Chance(8) && n >= 3 {
			c := &Cmp{Kind: "lt"}
			if g.Bool() {
				c = &Cmp{Kind: "const", B: true}
			}
			return &Step{Op: "sortmut", I: zp(int64(g.Range(1, 6))), Cmp: c, Act: []string{"", "", "sortself", "sortself", "insert"}[g.Intn(5)]}
		}
		st := Step{Op: "sort", Cmp: genCmp(g, p.flavour)}
		if k := st.Cmp.Kind; k != "default" && k != "nil" && n >= 2 && g.Chance(p.nestPct) {
			st.Nest = genNest(g, 1)
		}
		st.Co = g.Chance(6)
		return mut(st)
	}
	if g.Chance(5) {
		if g.Chance(20) {
			return &Step{Op: "insbad"}
		}
		// keys that are not positive integers: fractions, +-inf, 0, negatives, strings; rarely a huge
		// integer (leaves the list domain: only the implementation model is compared from there on)
		ks := []tv.V{tv.Num(0.5), tv.Num(2.5), tv.Num(7.25), tv.Num(-1.5), tv.Num(math.Inf(1)), tv.Num(math.Inf(-1)), tv.Int(0), tv.Int(-3),
			tv.Str("x"), tv.Str("1"), tv.Num(float64(n) + 1.5), tv.Bool(true)}
		k := ks[g.Intn(len(ks))]
		if g.Chance(10) {
			k = []tv.V{tv.Int(100000000), tv.Int(67108864), tv.Num(1e300)}[g.Intn(3)]
		}
		v := val()
		if g.Chance(25) {
			v = tv.Nil()
		}
		return mut(Step{Op: "assignk", K: vp(k), V: vp(v)})
	}
	switch g.Pick(26, 14, 8, 10, 6, 6, 6, 6, 5, 3, 5, 3, 2) {
	case 0:
		return mut(Step{Op: "ins2", V: vp(val())})
	case 1:
		return mut(Step{Op: "ins3", I: zp(int64(g.Range(1, int(n)+1))), V: vp(val())})
	case 2:
		if g.Chance(30) {
			return mut(Step{Op: "remnil"})
		}
		return mut(Step{Op: "rem1"})
	case 3:
		if n == 0 {
			return mut(Step{Op: "rem1"})
		}
		if g.Chance(15) {
			return mut(Step{Op: "rem2", I: zp([]int64{0, -1, n + 1, n + 2}[g.Intn(4)])})
		}
		return mut(Step{Op: "rem2", I: zp(int64(g.Range(1, int(n))))})
	case 4:
		return mut(Step{Op: "assign", I: zp(n + 1), V: vp(val())})
	case 5:
		if n == 0 {
			return mut(Step{Op: "ins2", V: vp(val())})
		}
		return mut(Step{Op: "assign", I: zp(int64(g.Range(1, int(n)))), V: vp(val())})
	case 6:
		if n == 0 {
			return mut(Step{Op: "assign", I: zp(1), V: vp(tv.Nil())})
		}
		return mut(Step{Op: "assign", I: zp(n), V: vp(tv.Nil())})
	case 7:
		s := Step{Op: "concat", Sep: hex.EncodeToString([]byte([]string{"", ",", ", ", "\x00"}[g.Intn(4)]))}
		if g.Chance(15) {
			s.SepNum = zp(int64(g.Range(-2, 12)))
		}
		switch g.Pick(30, 25, 45) {
		case 1:
			s.I = zp(int64(g.Range(1, int(n)+1)))
		case 2:
			i := int64(g.Range(1, int(n)+1))
			s.I = zp(i)
			j := int64(g.Range(int(i)-1, int(n)))
			if g.Chance(8) {
				j = n + int64(g.Range(1, 2))
			}
			if g.Chance(6) {
				s.I = zp(int64(g.Range(-1, 0)))
			}
			s.J = zp(j)
		}
		return &s
	case 8:
		s := Step{Op: "unpack"}
		if g.Chance(8) {
			// empty ranges whose length does not fit an int (end - start + 1 wraps)
			switch g.Intn(3) {
			case 0:
				return &Step{Op: "unpack", I: zp(math.MaxInt64 - 1023), J: zp(math.MinInt64)}
			case 1:
				return &Step{Op: "unpack", I: zp(int64(g.Range(1, 3))), JHuge: true}
			}
			return &Step{Op: "unpack", I: zp(n + int64(g.Range(1, 5))), J: zp(n)}
		}
		switch g.Pick(30, 25, 45) {
		case 1:
			s.I = zp(int64(g.Range(-1, int(n)+2)))
		case 2:
			i := int64(g.Range(-1, int(n)+1))
			s.I = zp(i)
			s.J = zp(int64(g.Range(int(i)-1, int(n)+2)))
		}
		return &s
	case 9:
		return &Step{Op: "getn"}
	case 10:
		return &Step{Op: "maxn"}
	case 11:
		return &Step{Op: "len"}
	}
	return &read
}

func generate(w *lib.Writer, r *lib.Rand, tier string) {
	nl, ns, lo, hi := 900, 600, 15, 60
	if tier == "thorough" {
		nl, ns, lo, hi = 12000, 8000, 15, 150
	}
	for i := 0; i < nl+ns; i++ {
		g := r.Fork()
		p := &planner{g: g, left: g.Range(lo, hi), flavour: g.Pick(35, 25, 25, 15)}
		class := "list"
		if i >= nl {
			class = "sort"
			p.sortPct = 12
			p.nestPct = 35
			p.flavour = g.Pick(40, 27, 13, 9, 11)
			p.left = g.Range(12, 45)
		}
		if i >= nl && i%100 == 13 {
			// a long list: sort.Sort leaves its insertion-sort range (12), samples pivots (50), may fall
			// back to heap sort; then sorted again (already ordered input) and in the reverse order
			class = "sortlong"
			fl := []int{5, 5, 1, 0}[g.Intn(4)]
			withFn := g.Chance(60)
			k := g.Range(150, 400)
			if withFn {
				k = g.Range(13, 110)
			}
			var steps []Step
			for q := 0; q < k; q++ {
				steps = append(steps, Step{Op: "ins2", V: vp(genVal(g, fl))})
			}
			c1, c2 := &Cmp{Kind: "default"}, &Cmp{Kind: "nil"}
			if withFn {
				c1 = &Cmp{Kind: []string{"lt", "gt", "lt_truthy"}[g.Intn(3)]}
				c2 = &Cmp{Kind: "gt"}
				if fl != 1 && g.Bool() {
					c1 = &Cmp{Kind: "mod", M: int64(g.Range(2, 7))}
				}
			}
			s1 := Step{Op: "sort", Cmp: c1, Co: g.Chance(10)}
			if withFn && g.Chance(50) {
				s1.Nest = genNest(g, 1)
				s1.Nest.Every = int64(g.Range(20, 90))
			}
			steps = append(steps, Step{Op: "read"}, s1, Step{Op: "read"}, Step{Op: "sort", Cmp: c1}, Step{Op: "sort", Cmp: c2}, Step{Op: "read"},
				Step{Op: "rem2", I: zp(int64(g.Range(1, k)))}, Step{Op: "ins3", I: zp(int64(g.Range(1, k))), V: vp(genVal(g, fl))}, Step{Op: "sort", Cmp: c1}, Step{Op: "read"})
			runCase(w, &Input{Steps: steps}, class, nil)
			continue
		}
		if g.Chance(12) {
			p.offPct = 4
		}
		in := &Input{}
		if i%250 == 7 {
			// a long list (beyond any fixed-size buffer): fill, concat, unpack of a window, remove, concat
			class = "long"
			k := int64(g.Range(2600, 3400))
			steps := []Step{{Op: "fill", N: k, V: vp(genVal(g, p.flavour%3))}, {Op: "len"}, {Op: "concat", Sep: "2c"},
				{Op: "unpack", I: zp(k - 2), J: zp(k + 1)}, {Op: "rem1"}, {Op: "concat", Sep: "", I: zp(k - 5)}, {Op: "getn"}, {Op: "maxn"}}
			runCase(w, &Input{Steps: steps}, class, nil)
			continue
		}
		cl := class
		runCase(w, in, cl, func(rr *runner) *Step {
			s := p.next(rr)
			return s
		})
		_ = cl
	}
}
