package main

import (
	"math"

	"verifh/cmd/c09/tv"
	"verifh/lib"
)

// corpus: witnesses of the defects recorded for C18 (all fixed: they stay as regression cases)
// and hand-written histories for the situations the property text names.
func corpus(w *lib.Writer) {
	I := tv.Int
	S := tv.Str
	rd := Step{Op: "read"}
	ins := func(v tv.V) Step { return Step{Op: "ins2", V: &v} }
	asg := func(i int64, v tv.V) Step { return Step{Op: "assign", I: zp(i), V: &v} }
	add := func(steps ...Step) { runCase(w, &Input{Steps: steps}, "corpus", nil) }
	// C18-1 (fixed 5ada882): t={1,2,3}; t[3]=nil; table.remove(t) must return 2 and leave #t == 1
	add(ins(I(1)), ins(I(2)), ins(I(3)), asg(3, tv.Nil()), rd, Step{Op: "rem1"}, rd, Step{Op: "len"})
	// C18-2 (fixed 94216bd): t={3,1,2,5}; t[4]=nil; table.sort(t) sorts 1..#t
	add(ins(I(3)), ins(I(1)), ins(I(2)), ins(I(5)), asg(4, tv.Nil()), Step{Op: "sort", Cmp: &Cmp{Kind: "default"}}, rd)
	// C18-3 (fixed c76dbd8): table.concat(t, "", #t+1, #t) is ""
	add(ins(I(1)), ins(I(2)), ins(I(3)), Step{Op: "concat", Sep: "", I: zp(4), J: zp(3)}, Step{Op: "concat", Sep: "2c", I: zp(2), J: zp(3)},
		Step{Op: "concat", Sep: "2c"}, Step{Op: "concat", Sep: "2c", I: zp(3)}, Step{Op: "concat", Sep: "2c", I: zp(1), J: zp(0)})
	// C18-4 (fixed e2b0a5a): a range holding a single number still yields a string
	add(ins(I(5)), Step{Op: "concat", Sep: ""}, ins(I(6)), Step{Op: "concat", Sep: "2c", I: zp(2), J: zp(2)})
	// round-2 observations (all fixed): maxn over the hash part (ef2c8e3), concat without clamping (b7c8280),
	// remove outside 1..#t returns nothing (5e1cfe4), sort(t, nil) (c5aee85), insert with 4 arguments (1acc103)
	askK := func(k, v tv.V) Step { return Step{Op: "assignk", K: &k, V: &v} }
	add(askK(tv.Num(2.5), I(1)), Step{Op: "maxn"}, ins(I(1)), ins(I(2)), Step{Op: "maxn"}, askK(tv.Num(2.5), tv.Nil()), Step{Op: "maxn"},
		askK(tv.Num(-1.5), I(1)), Step{Op: "maxn"}, askK(I(100000000), I(1)), Step{Op: "maxn"})
	add(ins(I(1)), ins(I(2)), ins(I(3)), Step{Op: "concat", Sep: "2c", I: zp(5), J: zp(7)}, Step{Op: "concat", Sep: "2c", I: zp(0), J: zp(2)},
		Step{Op: "concat", Sep: "2c", I: zp(2), J: zp(5)}, Step{Op: "concat", Sep: "2c", I: zp(4)}, Step{Op: "concat", Sep: "2c", I: zp(0)},
		asg(0, S("z")), Step{Op: "concat", Sep: "2c", I: zp(0), J: zp(2)})
	add(Step{Op: "rem1"}, Step{Op: "rem2", I: zp(1)}, ins(I(1)), ins(I(2)), ins(I(3)), Step{Op: "rem2", I: zp(5)}, rd, Step{Op: "rem2", I: zp(0)}, rd,
		Step{Op: "rem2", I: zp(-1)}, rd, Step{Op: "rem2", I: zp(4)}, rd, Step{Op: "rem1"}, rd)
	add(ins(I(3)), ins(I(1)), ins(I(2)), Step{Op: "sort", Cmp: &Cmp{Kind: "nil"}}, rd, Step{Op: "insbad"}, rd,
		Step{Op: "sort", Cmp: &Cmp{Kind: "gt_truthy"}}, rd, Step{Op: "sort", Cmp: &Cmp{Kind: "lt_truthy"}}, rd)
	// hunt round (all fixed): long concat (a4b99ac), number separator (bee55df), remove(t, nil) (b436cf8),
	// comparator removing an element during the sort (cc364f6)
	add(Step{Op: "fill", N: 2600, V: vp(I(7))}, Step{Op: "concat", Sep: "2c"}, Step{Op: "len"})
	add(ins(I(1)), ins(I(2)), ins(I(3)), Step{Op: "concat", SepNum: zp(0)}, Step{Op: "remnil"}, rd, Step{Op: "remnil"}, Step{Op: "remnil"}, Step{Op: "remnil"})
	add(ins(I(5)), ins(I(3)), ins(I(8)), ins(I(1)), ins(I(9)), ins(I(2)), ins(I(7)), Step{Op: "sortmut", I: zp(1), Cmp: &Cmp{Kind: "lt"}})
	add(Step{Op: "fill", N: 20, V: vp(I(4))}, Step{Op: "sortmut", I: zp(1), Cmp: &Cmp{Kind: "const", B: true}})
	// hunt2 C18 obs-3 (fixed): empty ranges whose length wraps in an int must yield nothing
	add(Step{Op: "unpack", I: zp(math.MaxInt64 - 1023), J: zp(math.MinInt64)}, ins(I(1)), ins(I(2)), ins(I(3)),
		Step{Op: "unpack", I: zp(2), JHuge: true}, Step{Op: "unpack", I: zp(math.MaxInt64 - 1023), J: zp(math.MinInt64)}, Step{Op: "unpack", I: zp(4), J: zp(3)})
	// C09-1 at the library level (fixed 875f0ec): unpack(t, 0, 1) sees t[0]
	add(asg(0, S("z")), ins(S("a")), Step{Op: "unpack", I: zp(0), J: zp(1)})
	// empty and one-element lists
	add(Step{Op: "rem1"}, rd, Step{Op: "concat", Sep: "2c"}, Step{Op: "unpack"}, Step{Op: "sort", Cmp: &Cmp{Kind: "default"}},
		ins(S("x")), rd, Step{Op: "sort", Cmp: &Cmp{Kind: "gt"}}, Step{Op: "rem2", I: zp(1)}, rd, Step{Op: "ins3", I: zp(1), V: vp(I(7))}, rd)
	// remove then insert at the end across trailing holes
	add(ins(I(1)), ins(I(2)), ins(I(3)), ins(I(4)), asg(4, tv.Nil()), asg(3, tv.Nil()), rd, ins(I(9)), rd,
		Step{Op: "ins3", I: zp(3), V: vp(I(8))}, rd, Step{Op: "rem2", I: zp(1)}, rd, Step{Op: "rem1"}, rd, Step{Op: "getn"}, Step{Op: "maxn"})
	// sorts: duplicates, strings, failing comparator, inconsistent comparator, mixed types
	add(ins(I(3)), ins(I(1)), ins(I(3)), ins(I(-2)), ins(I(1)), Step{Op: "sort", Cmp: &Cmp{Kind: "lt"}}, rd,
		Step{Op: "sort", Cmp: &Cmp{Kind: "gt"}}, rd, Step{Op: "sort", Cmp: &Cmp{Kind: "mod", M: 3}}, rd,
		Step{Op: "sort", Cmp: &Cmp{Kind: "const", B: true}}, rd, Step{Op: "sort", Cmp: &Cmp{Kind: "failat", K: 3}}, rd,
		ins(S("a")), Step{Op: "sort", Cmp: &Cmp{Kind: "default"}}, rd)
	add(ins(S("b")), ins(S("")), ins(S("ab")), ins(S("B")), ins(S("\xff")), Step{Op: "sort", Cmp: &Cmp{Kind: "default"}}, rd,
		Step{Op: "sort", Cmp: &Cmp{Kind: "bits", Bits: []bool{true, false, true, true, false}}}, rd)
	// wave 5: table.sort re-entered from its own comparator / __lt metamethod (same thread, under
	// pcall with a failing inner comparator, in a coroutine, in a second state, two levels deep),
	// the outer sort inside a coroutine, the comparator sorting the very table being sorted
	vs := func(xs ...int64) []tv.V {
		l := make([]tv.V, len(xs))
		for i, x := range xs {
			l[i] = I(x)
		}
		return l
	}
	fill := func(xs ...int64) []Step {
		var st []Step
		for _, x := range xs {
			st = append(st, ins(I(x)))
		}
		return st
	}
	O := func(i int) Step { return ins(tv.Obj(i)) }
	nsort := func(kind string, l []tv.V, c string) NestAct { return NestAct{Kind: kind, List: l, Cmp: &Cmp{Kind: c}} }
	add(append(fill(5, 3, 8, 1, 9, 2, 7, 3), Step{Op: "sort", Cmp: &Cmp{Kind: "lt"}, Nest: &Nest{At: 1, Every: 1,
		Acts: []NestAct{nsort("sort", vs(3, 1, 2), "default"), nsort("sort", vs(2, 9, 4, 1), "gt")}}}, rd)...)
	add(append(fill(4, 6, 1, 1, 0, 7), Step{Op: "sort", Cmp: &Cmp{Kind: "gt"}, Nest: &Nest{At: 2, Every: 2,
		Acts: []NestAct{{Kind: "pcall", List: vs(3, 1, 2, 0), Cmp: &Cmp{Kind: "failat", K: 2}}, nsort("co", vs(2, 1), "lt"),
			nsort("state2", vs(6, 5, 4), "lt"), {Kind: "pcall", List: []tv.V{I(1), S("a"), I(0)}, Cmp: &Cmp{Kind: "default"}}}}}, rd,
		Step{Op: "sort", Cmp: &Cmp{Kind: "default"}}, rd)...)
	add(append(fill(2, 1, 3, 0, 5), Step{Op: "sort", Cmp: &Cmp{Kind: "lt_truthy"}, Co: true, Nest: &Nest{At: 1, Every: 3,
		Acts: []NestAct{{Kind: "sort", List: vs(9, 8, 7, 6), Cmp: &Cmp{Kind: "lt"}, Nest: &Nest{At: 1, Every: 1, Acts: []NestAct{nsort("sort", vs(1, 0), "nil")}}}}}}, rd)...)
	add(O(3), O(0), O(2), O(0), O(5), O(1), Step{Op: "sort", Cmp: &Cmp{Kind: "meta"}}, rd,
		Step{Op: "sort", Cmp: &Cmp{Kind: "metalt", B: true}, Nest: &Nest{At: 1, Every: 1, Acts: []NestAct{nsort("sort", vs(2, 1, 3), "default")}}}, rd,
		Step{Op: "sort", Cmp: &Cmp{Kind: "default"}}, rd, ins(I(1)), Step{Op: "sort", Cmp: &Cmp{Kind: "meta"}}, rd)
	add(append(fill(5, 3, 8, 1, 9, 2, 7), Step{Op: "sortmut", I: zp(2), Cmp: &Cmp{Kind: "lt"}, Act: "sortself"})...)
	add(append(fill(5, 3, 8, 1, 9, 2, 7), Step{Op: "sortmut", I: zp(3), Cmp: &Cmp{Kind: "const", B: true}, Act: "insert"})...)
}
