package main

import (
	"fmt"
	"strings"

	"verifh/lib"
	"verifh/luagen"
)

// boundaryCases: coroutine behaviour the reference evaluator does not express (it lets a yield pass
// through pcall as Lua 5.2 does), checked Go-side against what Lua 5.1 prescribes: a yield under
// pcall, a metamethod, a generic-for iterator or a library callback raises "attempt to yield across
// metamethod/C-call boundary" in the coroutine (which a pcall inside it may catch), the resumer
// gets (false, message) otherwise; coroutine.resume on a thread made by wrap returns the leading
// boolean; a Go function used as a body that yields returns the values of the next resume.
// Each expected row is matched by substring, rows are the emitted rows in order.
var boundaryProgs = []struct {
	name string
	src  string
	want []string
}{
	{"resume-of-wrap-thread", `local th; local w = coroutine.wrap(function(...) th = coroutine.running(); local a = coroutine.yield(1); return a end); emit(w()); emit(coroutine.resume(th, 5)); emit(coroutine.status(th))`,
		[]string{"1", "true 5", `"dead"`}},
	{"yield-under-pcall", `local co = coroutine.create(function() emit("r", pcall(function() emit("in"); local v = coroutine.yield(1); emit("back", v); return 7 end)); return 9 end); emit(coroutine.resume(co)); emit(coroutine.status(co)); emit(coroutine.resume(co, 2))`,
		[]string{`"in"`, "false", "true 9", `"dead"`, "false"}},
	{"pcall-of-yield", `local co = coroutine.create(function() emit(pcall(coroutine.yield, 1)); return 9 end); emit(coroutine.resume(co)); emit(coroutine.status(co))`,
		[]string{"attempt to yield across", "true 9", `"dead"`}},
	{"yield-in-index-handler", `local co = coroutine.create(function() local t = setmetatable({}, {__index = function(t, k) return coroutine.yield(k) end}); emit("got", t.x); return 9 end); emit(coroutine.resume(co)); emit(coroutine.status(co)); emit(coroutine.resume(co, 2))`,
		[]string{"attempt to yield across", `"dead"`, "false"}},
	{"yield-in-iterator", `local co = coroutine.create(function() for k in function() return coroutine.yield(5) end do emit("k", k); break end; return 9 end); emit(coroutine.resume(co)); emit(coroutine.resume(co, 2)); emit(coroutine.status(co))`,
		[]string{"attempt to yield across", "false", `"dead"`}},
	{"yield-in-sort-comparator", `local co = coroutine.create(function() table.sort({3, 2, 1}, function(a, b) coroutine.yield(a) return a < b end); return 9 end); emit(coroutine.resume(co)); emit(coroutine.resume(co, 2)); emit(coroutine.status(co))`,
		[]string{"attempt to yield across", "false", `"dead"`}},
	{"yield-in-gsub-callback", `local co = coroutine.wrap(function() return (string.gsub("ab", "%w", function(c) coroutine.yield(c) return c end)) end); emit(pcall(co)); emit(pcall(co))`,
		[]string{"attempt to yield across", "false"}},
	{"yield-legal-around-pcall", `local co = coroutine.wrap(function() local ok = pcall(error, "x"); local v = coroutine.yield(ok); local ok2, e = pcall(function() error("y", 0) end); coroutine.yield(v, ok2, e); return "end" end); emit(co()); emit(co(4)); emit(co())`,
		[]string{"false", `4 false "y"`, `"end"`}},
	{"nested-resume-limit", `local depth = 0; local function f() depth = depth + 1; return coroutine.wrap(f)() end; local ok, e = pcall(f); emit(ok, depth >= 100 and depth <= 100000, (tostring(e):gsub("^.*: ", "")))
local function g(n) if n == 0 then return "bottom" end return coroutine.wrap(g)(n - 1) end; emit(g(150))`,
		[]string{"false true \"C stack overflow\"", `"bottom"`}},
	{"go-body-yields", `local w = coroutine.wrap(coroutine.yield); emit(w(1)); emit(pcall(w, 2, 3)); emit(pcall(w, 3)); local co = coroutine.create(coroutine.yield); emit(coroutine.resume(co, 1, 2)); emit(coroutine.status(co)); emit(coroutine.resume(co, 7, 8)); emit(coroutine.status(co))`,
		[]string{"1", "true 2 3", "false", "true 1 2", `"suspended"`, "true 7 8", `"dead"`}},
}

func boundaryCases(w *lib.Writer, tier string, seed uint64) {
	for _, p := range boundaryProgs {
		out := luagen.RunIsolated(p.src, 20e9, nil)
		rows := traceRows(out)
		ok := out.Ok && out.GoFail == "" && len(rows) == len(p.want)
		if ok {
			for i := range rows {
				if !strings.Contains(rows[i], p.want[i]) {
					ok = false
				}
			}
		}
		id := w.Add(lib.Case{Input: map[string]any{"boundary": p.name, "src": p.src}, Observed: out.Summary(), Class: "boundary-" + p.name,
			Nontrivial: true, Coq: "CProg [] (Outcome [] (OOk []))"})
		w.Meta.GoOnlyChecked++
		if !ok {
			w.GoFail(id, fmt.Sprintf("coroutine boundary program %q: expected rows %q, got %q (ok=%v err=%s %s)", p.name, p.want, rows, out.Ok, out.Err.String(), out.GoFail))
		}
	}
}
