package main

import (
	"fmt"

	lua "github.com/yuin/gopher-lua"
	"verifh/lib"
)

// apiResume: the Go-side face of the property (LState.NewThread / LState.Resume): the values given
// to Resume arrive as the body's arguments or as the results of the pending yield, the values
// yielded or returned arrive in order AND NUMBER (none is none, not one nil), the state is
// ResumeYield / ResumeOK / ResumeError accordingly, a finished or failed thread is refused every
// time without being touched, and a thread made by coroutine.create is started with its own body.
func apiResume(w *lib.Writer, tier string, seed uint64) {
	type step struct {
		args  []lua.LValue
		state lua.ResumeState
		vals  string // fmt of the returned values
	}
	n := func(xs ...float64) []lua.LValue {
		r := make([]lua.LValue, len(xs))
		for i, x := range xs {
			r[i] = lua.LNumber(x)
		}
		return r
	}
	cases := []struct {
		name, body string
		steps      []step
		viaCreate  bool
	}{
		{"yield-counts", `return function(a, b) local c = coroutine.yield(); local d, e = coroutine.yield(a); coroutine.yield(a, b, c); return end`,
			[]step{{n(1, 2), lua.ResumeYield, "[]"}, {n(3), lua.ResumeYield, "[1]"}, {n(4, 5), lua.ResumeYield, "[1 2 3]"}, {nil, lua.ResumeOK, "[]"}, {nil, lua.ResumeError, ""}}, false},
		{"return-counts", `return function(...) return select('#', ...), ... end`,
			[]step{{n(7, 8, 9), lua.ResumeOK, "[3 7 8 9]"}, {nil, lua.ResumeError, ""}, {n(1), lua.ResumeError, ""}}, false},
		{"error-kills", `return function() coroutine.yield(1); error({}) end`,
			[]step{{nil, lua.ResumeYield, "[1]"}, {nil, lua.ResumeError, ""}, {nil, lua.ResumeError, ""}}, false},
		{"created-by-lua", `return coroutine.create(function(a, b) local c = coroutine.yield(a + b); return "fin", c end)`,
			[]step{{n(1, 2), lua.ResumeYield, "[3]"}, {[]lua.LValue{lua.LString("x")}, lua.ResumeOK, "[fin x]"}, {nil, lua.ResumeError, ""}}, true},
	}
	firstCallInsideCoroutine(w)
	awaitOnWrapThread(w)
	for _, c := range cases {
		func() {
			what := ""
			defer func() {
				if r := recover(); r != nil {
					what = fmt.Sprintf("Go panic escaped: %v", r)
				}
				id := w.Add(lib.Case{Input: map[string]any{"api-resume": c.name, "body": c.body}, Observed: map[string]any{"failed": what != "", "what": what},
					Class: "api-resume-" + c.name, Nontrivial: true, Coq: "CProg [] (Outcome [] (OOk []))"})
				w.Meta.GoOnlyChecked++
				if what != "" {
					w.GoFail(id, fmt.Sprintf("Go API coroutine case %q: %s", c.name, what))
				}
			}()
			L := lua.NewState()
			defer L.Close()
			if err := L.DoString(c.body); err != nil {
				what = "setup: " + err.Error()
				return
			}
			v := L.Get(-1)
			L.Pop(1)
			var co *lua.LState
			var fn *lua.LFunction
			if c.viaCreate {
				co = v.(*lua.LState)
			} else {
				co, _ = L.NewThread()
				fn = v.(*lua.LFunction)
			}
			top := L.GetTop()
			for i, s := range c.steps {
				st, err, vals := L.Resume(co, fn, s.args...)
				got := fmt.Sprint(vals)
				if st != s.state || (st != lua.ResumeError && got != s.vals) || (st == lua.ResumeError) != (err != nil) {
					what = fmt.Sprintf("step %d: Resume gave state=%v err=%v values=%s, expected state=%v values=%s", i, st, err, got, s.state, s.vals)
					return
				}
				if L.GetTop() != top {
					what = fmt.Sprintf("step %d: the resumer's value stack changed from %d to %d", i, top, L.GetTop())
					return
				}
			}
			// a dead thread is refused every time, without being touched
			for i := 0; i < 400; i++ {
				if st, err, _ := L.Resume(co, fn); st != lua.ResumeError || err == nil {
					what = fmt.Sprintf("resume %d of the dead thread was not refused", i)
					return
				}
			}
			if s := L.Status(co); s != "dead" {
				what = "status of the finished thread is " + s
				return
			}
			if err := L.DoString(`local co = coroutine.wrap(function() coroutine.yield(1) return 2 end); assert(co() == 1 and co() == 2)`); err != nil {
				what = "follow-up chunk: " + err.Error()
			}
		}()
	}
}

// firstCallInsideCoroutine: the first Lua execution of a state may be a coroutine resumed from Go
// (libraries opened without running anything): calls made from inside it (iterator of a generic
// for, a metamethod) must not mistake the coroutine for the main thread.
func firstCallInsideCoroutine(w *lib.Writer) {
	what := ""
	func() {
		defer func() {
			if r := recover(); r != nil {
				what = fmt.Sprintf("Go panic escaped: %v", r)
			}
		}()
		L := lua.NewState(lua.Options{SkipOpenLibs: true})
		defer L.Close()
		lua.OpenBase(L)
		lua.OpenCoroutine(L)
		fn, err := L.LoadString(`local log = {}
local function it(s, c) if c < 3 then return c + 1 end end
for i in it, nil, 0 do log[#log + 1] = i end
local t = setmetatable({}, {__index = function(t, k) return k .. "!" end})
log[#log + 1] = t.x
local y = coroutine.yield(#log)
return table and "lib" or (log[1] .. log[2] .. log[3] .. log[4] .. tostring(y))`)
		if err != nil {
			what = "load: " + err.Error()
			return
		}
		co, _ := L.NewThread()
		st, rerr, vals := L.Resume(co, fn)
		if st != lua.ResumeYield || rerr != nil || fmt.Sprint(vals) != "[4]" {
			what = fmt.Sprintf("first resume: state=%v err=%v values=%v, expected ResumeYield [4]", st, rerr, vals)
			return
		}
		st, rerr, vals = L.Resume(co, fn, lua.LString("Y"))
		if st != lua.ResumeOK || rerr != nil || fmt.Sprint(vals) != "[123x!Y]" {
			what = fmt.Sprintf("second resume: state=%v err=%v values=%v, expected ResumeOK [123x!Y]", st, rerr, vals)
		}
	}()
	id := w.Add(lib.Case{Input: map[string]any{"api-resume": "first-call-inside-coroutine"}, Observed: map[string]any{"failed": what != "", "what": what},
		Class: "api-resume-first-call", Nontrivial: true, Coq: "CProg [] (Outcome [] (OOk []))"})
	w.Meta.GoOnlyChecked++
	if what != "" {
		w.GoFail(id, "first call of a state inside a coroutine resumed from Go: "+what)
	}
}

// awaitOnWrapThread: the host "await" pattern: a Go function parks the running coroutine with
// L.Yield and the host continues it with LState.Resume -- also when the coroutine was created by
// coroutine.wrap: values in order and number (a false first value is a value), errors as ResumeError.
func awaitOnWrapThread(w *lib.Writer) {
	what := ""
	for _, maker := range []string{"wrap", "create"} {
		func() {
			defer func() {
				if r := recover(); r != nil && what == "" {
					what = fmt.Sprintf("%s: Go panic escaped: %v", maker, r)
				}
			}()
			L := lua.NewState()
			defer L.Close()
			var parked *lua.LState
			L.SetGlobal("await", L.NewFunction(func(L *lua.LState) int {
				parked = L
				return L.Yield(L.Get(1))
			}))
			body := `function(mode) local a = await("pending"); local b = await("p2"); if mode == "err" then error("boom", 0) end; return false, a, b end`
			start := `local co = coroutine.wrap(` + body + `); co(MODE)`
			if maker == "create" {
				start = `local co = coroutine.create(` + body + `); coroutine.resume(co, MODE)`
			}
			for _, mode := range []string{"ok", "err"} {
				L.SetGlobal("MODE", lua.LString(mode))
				parked = nil
				if err := L.DoString(start); err != nil || parked == nil {
					what = fmt.Sprintf("%s/%s: start failed: %v", maker, mode, err)
					return
				}
				st, err, vals := L.Resume(parked, nil, lua.LNumber(10))
				if st != lua.ResumeYield || err != nil || fmt.Sprint(vals) != "[p2]" {
					what = fmt.Sprintf("%s/%s: first continue: state=%v err=%v values=%v, expected ResumeYield [p2]", maker, mode, st, err, vals)
					return
				}
				st, err, vals = L.Resume(parked, nil, lua.LNumber(20))
				if mode == "ok" && (st != lua.ResumeOK || err != nil || fmt.Sprint(vals) != "[false 10 20]") {
					what = fmt.Sprintf("%s/%s: second continue: state=%v err=%v values=%v, expected ResumeOK [false 10 20]", maker, mode, st, err, vals)
					return
				}
				if mode == "err" && (st != lua.ResumeError || err == nil) {
					what = fmt.Sprintf("%s/%s: failing body: state=%v err=%v values=%v, expected ResumeError", maker, mode, st, err, vals)
					return
				}
			}
		}()
		if what != "" {
			break
		}
	}
	id := w.Add(lib.Case{Input: map[string]any{"api-resume": "await-pattern-on-wrap-and-create-threads"}, Observed: map[string]any{"failed": what != "", "what": what},
		Class: "api-resume-await", Nontrivial: true, Coq: "CProg [] (Outcome [] (OOk []))"})
	w.Meta.GoOnlyChecked++
	if what != "" {
		w.GoFail(id, "host continues a parked coroutine with LState.Resume: "+what)
	}
}
