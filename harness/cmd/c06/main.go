// c06: coroutines transfer values and control exactly as Lua 5.1 coroutines.
package main

import (
	"encoding/json"
	"os"

	"verifh/lib"
	"verifh/luagen"
	"verifh/luaprop"
)

// replayExtra re-runs a case of the wave-5 extras (histlimits.go) from a replay file written by the driver.
func replayExtra() bool {
	if len(os.Args) < 2 || os.Args[1] != "run" {
		return false
	}
	a := lib.ParseArgs()
	if a.Replay == "" {
		return false
	}
	b, err := os.ReadFile(a.Replay)
	if err != nil {
		return false
	}
	var rp struct {
		Input struct {
			W5   string  `json:"w5"`
			Spec *hlSpec `json:"spec"`
			Name string  `json:"name"`
		} `json:"input"`
	}
	if json.Unmarshal(b, &rp) != nil || rp.Input.W5 == "" {
		return false
	}
	w, err := lib.NewWriter(a.Out, "C06", a.Tier, a.Seed, luaprop.VMHeader, "vcase", 20)
	if err != nil {
		panic(err)
	}
	w.HasSkip = true
	w.Meta.Rule = "replay of one Go-side case"
	switch {
	case rp.Input.W5 == "hist-limit" && rp.Input.Spec != nil:
		histLimitCase(w, *rp.Input.Spec)
	case rp.Input.W5 == "history":
		historyCases(w, rp.Input.Name)
	}
	if err := w.Close(); err != nil {
		panic(err)
	}
	return true
}

func main() {
	if replayExtra() {
		return
	}
	f := luagen.CoreFeatures()
	f.Coroutines, f.Errors, f.Funcs, f.Closures, f.Goto, f.Varargs, f.MultiAssign = 16, 3, 3, 2, 0, 2, 1
	luaprop.Main(&luaprop.Config{
		Prop: "C06",
		Rule: "generated programs dominated by coroutine shapes: create/resume/yield ping-pong with 0..2 payload values each way, wrap generators driving for-in, errors inside coroutines, nested resumes, " +
			"status/running queried from inside and outside, resuming dead/running/normal coroutines; traces compared with the reference evaluator; non-trivial = at least 5 emitted rows or an error outcome; distinct by Gallina term",
		// the second mode runs the same kind of program with per-thread call stacks that grow and shrink in
		// pooled segments (every coroutine has its own; segments freed by one are reused by the next)
		Modes: []luaprop.Mode{{Name: "coroutines", Features: f, Weight: 3},
			{Name: "coroutines-autostack", Features: f, Weight: 1, Run: &luagen.RunOptions{MinimizeStack: true, CallStackSize: 64}}},
		NQuick:    220,
		NThorough: 2500,
		Corpus:    corpus,
		VM:        true,
		Isolate:   true,
		Extra: func(w *lib.Writer, tier string, seed uint64) {
			boundaryCases(w, tier, seed)
			coLimits(w, tier, seed)
			apiResume(w, tier, seed)
			histLimits(w, tier, seed)
		},
	})
}

var corpus = []string{
	`local co = coroutine.create(math.max); emit(coroutine.resume(co, 1, 5, 3)); emit(coroutine.status(co), coroutine.running()); emit(coroutine.wrap(string.rep)("ab", 2)); emit(coroutine.resume(co))`,
	`local co = coroutine.create(function(a, b) emit("start", a, b); local c, d = coroutine.yield(a + b); emit("got", c, d); local e = coroutine.yield(); emit("got2", e); return "fin", 9 end); emit(coroutine.resume(co, 1, 2)); emit(coroutine.status(co)); emit(coroutine.resume(co, 3)); emit(coroutine.resume(co)); emit(coroutine.status(co)); emit(coroutine.resume(co))`,
	`local A, B; A = coroutine.create(function() emit("A status of B", coroutine.status(B)); return coroutine.resume(B) end); B = coroutine.create(function() emit("B sees A", coroutine.status(A)); return coroutine.resume(A) end); emit(coroutine.resume(A))`,
	`local co; co = coroutine.create(function() emit(coroutine.status(co), coroutine.running() == co); emit(coroutine.resume(co)) end); emit(coroutine.resume(co)); emit(coroutine.running())`,
	`local w = coroutine.wrap(function() error({code = 1}) end); local ok, e = pcall(w); emit(ok, type(e), e.code); emit(pcall(w))`,
	`local co = coroutine.create(function() local e = coroutine.yield(1); emit(e == nil, tostring(e)); local a, b, c = coroutine.yield(2); emit(a, b, c) end); coroutine.resume(co); coroutine.resume(co); coroutine.resume(co, 7)`,
	`local co = coroutine.create(function(...) return coroutine.yield(...) end); emit(coroutine.resume(co, 1, 2, 3)); emit(coroutine.resume(co, 4, 5)); emit(coroutine.status(co))`,
	`local gen = coroutine.wrap(function() for i = 1, 3 do coroutine.yield(i, i * i) end end); for i, sq in gen do emit(i, sq) end`,
	`emit(pcall(coroutine.yield, 1)); emit(coroutine.status(coroutine.create(function() end)))`,
	`local inner = coroutine.wrap(function() coroutine.yield("i1"); coroutine.yield("i2") end); local outer = coroutine.wrap(function() coroutine.yield(inner()); coroutine.yield(inner()); coroutine.yield("o3") end); emit(outer(), outer(), outer())`,
	`local co = coroutine.create(function() local x = 0; while true do x = x + 1; coroutine.yield(x) end end); for i = 1, 4 do emit(coroutine.resume(co)) end; local co2 = coroutine.create(function() local y = 100; coroutine.yield(y); y = y + 1; coroutine.yield(y) end); emit(coroutine.resume(co2)); emit(coroutine.resume(co)); emit(coroutine.resume(co2))`,
	// resume of a thread made by coroutine.wrap; a Go function as a body that yields (also Go-side in boundary.go)
	`local th; local w = coroutine.wrap(function(...) th = coroutine.running(); local a = coroutine.yield(1); return a end); emit(w()); emit(coroutine.resume(th, 5)); emit(coroutine.status(th))`,
	`local w = coroutine.wrap(coroutine.yield); emit(w(1)); emit(pcall(w, 2, 3)); emit(pcall(w, 3)); local co = coroutine.create(coroutine.yield); emit(coroutine.resume(co, 1, 2)); emit(coroutine.status(co)); emit(coroutine.resume(co, 7, 8)); emit(coroutine.status(co))`,
}
