package main

import (
	"fmt"
	"strings"

	lua "github.com/yuin/gopher-lua"
	"verifh/lib"
	"verifh/luagen"
)

// coLimits: an error that belongs to one coroutine (its own register stack overflows at the moment
// it dies), or to the resumer (the values yielded to it do not fit), must leave every OTHER thread's
// bookkeeping intact: resume returns (false, message) for the first, raises in the resumer for the
// second; no coroutine that is not running is left with status "running"; the thread that continues
// is the running one; a suspended coroutine stays resumable. Swept over sizes around the registry
// capacity, because the failing push happens at a different place for each size.
func coLimits(w *lib.Writer, tier string, seed uint64) {
	const regsize = 600
	step := 7
	if tier == "thorough" {
		step = 1
	}
	opt := lua.Options{RegistrySize: regsize, RegistryMaxSize: 0}
	// 1. the coroutine dies of a registry overflow while its registry is (nearly) full
	die := `local big = {}; for i = 1, 900 do big[i] = i end
local function cnt(...) return select('#', ...) end
local co = coroutine.create(function() local a, b, c = 1, 2, 3; return cnt(unpack(big, 1, %d)) end)
local r = {pcall(coroutine.resume, co)}
emit(r[1], r[2], type(r[3]), coroutine.status(co), coroutine.running() == nil)
emit(pcall(coroutine.resume, co))
emit(coroutine.resume(coroutine.create(function() return coroutine.status(co), coroutine.running() ~= nil end)))`
	for n := regsize - 140; n <= regsize+20; n += step {
		src := fmt.Sprintf(die, n)
		o := opt
		out := luagen.Run(src, &luagen.RunOptions{Options: &o, Timeout: 20e9})
		rows := traceRows(out)
		ok := out.Ok && out.GoFail == "" && len(rows) == 3
		if ok {
			// resume itself never raises: pcall true; then either (true, n) or (false, message); dead either way
			f := strings.Fields(rows[0])
			ok = len(f) >= 5 && f[0] == "true" && (f[1] == "true" || f[1] == "false") && f[len(f)-2] == `"dead"` && f[len(f)-1] == "true" &&
				strings.HasPrefix(rows[1], "true false") && strings.HasPrefix(rows[2], `true "dead" true`)
		}
		id := w.Add(lib.Case{Input: map[string]any{"limit": "die-full", "n": n, "src": src, "registry": regsize}, Observed: out.Summary(), Class: "limit-die-full",
			Nontrivial: true, Coq: "CProg [] (Outcome [] (OOk []))"})
		w.Meta.GoOnlyChecked++
		if !ok {
			w.GoFail(id, fmt.Sprintf("coroutine dying with n=%d values on a registry of %d: rows %q (ok=%v err=%s %s)", n, regsize, rows, out.Ok, out.Err.String(), out.GoFail))
		}
	}
	// 2. the resumer cannot take the yielded values: the failure is the resumer's; the coroutine is
	// suspended in its yield either way and the NEXT resume's arguments are what that yield returns
	// (lua_resume: the results of the pending yield are the arguments of the resume that continues it)
	hand := `local big = {}; for i = 1, 900 do big[i] = i end
local co = coroutine.create(function(a) local x = coroutine.yield(unpack(big, 1, 60)); local y = coroutine.yield("second", x, a); return "done", y end)
local function crowded(...) local pok, rok, v1 = pcall(coroutine.resume, co, "arg"); return pok, rok, v1 end
local pok, rok, v1 = crowded(unpack(big, 1, %d))
emit(pok, type(rok), coroutine.running() == nil, coroutine.status(co))
emit(coroutine.resume(coroutine.create(function() return coroutine.status(co) end)))
local r = {coroutine.resume(co, "X")}; emit(r[1], #r, r[2], r[3], r[4])
emit(coroutine.resume(co, "Y"))
emit(coroutine.status(co)); emit(coroutine.resume(co))`
	for m := regsize - 160; m <= regsize-20; m += step {
		src := fmt.Sprintf(hand, m)
		o := opt
		out := luagen.Run(src, &luagen.RunOptions{Options: &o, Timeout: 20e9})
		rows := traceRows(out)
		ok := out.GoFail == ""
		if ok && !out.Ok {
			// the main chunk itself may run out of registers while unpacking for `crowded`: a clean error of the resumer
			ok = strings.Contains(out.Err.String(), "overflow") && len(rows) == 0
		} else if ok {
			ok = len(rows) == 6 && (strings.HasPrefix(rows[0], `true "boolean" true "suspended"`) || strings.HasPrefix(rows[0], `false "string" true "suspended"`)) &&
				rows[1] == `true "suspended"` && rows[2] == `true 4 "second" "X" "arg"` && rows[3] == `true "done" "Y"` && rows[4] == `"dead"` && strings.HasPrefix(rows[5], "false")
		}
		id := w.Add(lib.Case{Input: map[string]any{"limit": "hand-over", "m": m, "src": src, "registry": regsize}, Observed: out.Summary(), Class: "limit-hand-over",
			Nontrivial: true, Coq: "CProg [] (Outcome [] (OOk []))"})
		w.Meta.GoOnlyChecked++
		if !ok {
			w.GoFail(id, fmt.Sprintf("yield of 60 values to a resumer holding m=%d arguments on a registry of %d: rows %q (ok=%v err=%s %s)", m, regsize, rows, out.Ok, out.Err.String(), out.GoFail))
		}
	}
	// 2b. a body RETURNING k values needs room for them once: every k that fits into the coroutine's and
	// the resumer's registry arrives (the values already sit in place; a copy above the top would need 2k)
	retMany := `local big = {}; for i = 1, 900 do big[i] = i end
local co = coroutine.create(function() local x = 7; return x, unpack(big, 1, %d) end)
local r = {coroutine.resume(co)}; emit(r[1], #r, r[2], r[#r], coroutine.status(co))
local w = coroutine.wrap(function() return coroutine.yield() end); w(); local q = {w(unpack(big, 1, %d))}; emit(#q, q[#q])`
	for k := regsize/2 - 60; k <= regsize-120; k += 3 * step {
		src := fmt.Sprintf(retMany, k, k)
		o := opt
		out := luagen.Run(src, &luagen.RunOptions{Options: &o, Timeout: 20e9})
		rows := traceRows(out)
		ok := out.Ok && out.GoFail == "" && len(rows) == 2 && rows[0] == fmt.Sprintf(`true %d 7 %d "dead"`, k+2, k) && rows[1] == fmt.Sprintf("%d %d", k, k)
		id := w.Add(lib.Case{Input: map[string]any{"limit": "return-many", "k": k, "src": src, "registry": regsize}, Observed: out.Summary(), Class: "limit-return-many",
			Nontrivial: true, Coq: "CProg [] (Outcome [] (OOk []))"})
		w.Meta.GoOnlyChecked++
		if !ok {
			w.GoFail(id, fmt.Sprintf("coroutine body returning %d values on a registry of %d: rows %q (ok=%v err=%s %s)", k+1, regsize, rows, out.Ok, out.Err.String(), out.GoFail))
		}
	}
	// 3. the coroutine fails with a runtime error (or returns) while its resumer has hardly any room left for (false, message): whatever the
	// resumer gets, the coroutine is dead and can never run again
	crowdedDie := `local big = {}; for i = 1, 900 do big[i] = i end
local log = {}
local co = coroutine.create(function() log[#log + 1] = "before"; %s; log[#log + 1] = "AFTER"; return "finished" end)
local function resumer(...) return coroutine.resume(co) end
local ok, a = pcall(resumer, unpack(big, 1, %d))
emit(ok, a == true, coroutine.status(co), coroutine.running() == nil, #log)
emit(coroutine.resume(co)); emit(#log, coroutine.status(co))`
	for _, body := range []string{`local t = nil; local x = t.field`, `error({})`, `do return 1, 2, 3 end`} {
		for n := regsize - 40; n <= regsize-2; n += 1 + step/4 {
			src := fmt.Sprintf(crowdedDie, body, n)
			o := opt
			out := luagen.Run(src, &luagen.RunOptions{Options: &o, Timeout: 20e9})
			rows := traceRows(out)
			ok := out.GoFail == ""
			if ok && !out.Ok {
				ok = strings.Contains(out.Err.String(), "overflow") && len(rows) == 0
			} else if ok {
				ok = len(rows) == 3 && strings.Contains(rows[0], `"dead" true 1`) && strings.HasPrefix(rows[1], "false") && rows[2] == `1 "dead"`
			}
			id := w.Add(lib.Case{Input: map[string]any{"limit": "die-crowded", "n": n, "body": body, "src": src, "registry": regsize}, Observed: out.Summary(), Class: "limit-die-crowded",
				Nontrivial: true, Coq: "CProg [] (Outcome [] (OOk []))"})
			w.Meta.GoOnlyChecked++
			if !ok {
				w.GoFail(id, fmt.Sprintf("coroutine ending (%s) under a resumer holding n=%d arguments on a registry of %d: rows %q (ok=%v err=%s %s)", body, n, regsize, rows, out.Ok, out.Err.String(), out.GoFail))
			}
		}
	}
}

func traceRows(out *luagen.Outcome) []string {
	rows := []string{}
	for _, t := range out.Trace {
		parts := make([]string, len(t))
		for j, v := range t {
			parts[j] = v.String()
		}
		rows = append(rows, strings.Join(parts, " "))
	}
	return rows
}
