package main

import (
	"fmt"
	"strings"

	lua "github.com/yuin/gopher-lua"
	"verifh/lib"
	"verifh/luagen"
)

// histLimits (wave 5): the hand-over of values between a coroutine and its resumer at the EXACT
// limits of the registers of either side, after a HISTORY of earlier caught errors in the thread
// concerned. coLimits sweeps fresh states with a coarse step; here every program is one Lua state
// in which
//   - the resumer (the main thread, or a coroutine that resumes others) first goes through a history:
//     an error raised while its registers are exactly full, argument errors raised at every fill
//     level up to the limit, a caught runaway recursion, an earlier complete sweep (second round);
//     optionally the coroutine under test does the same before it hands anything over;
//   - then one parameter (the number of values handed over, or the number of values the resumer
//     already holds) is swept in steps of ONE from "everything fits" until three attempts in a row
//     range have failed for lack of room, with a fresh coroutine per step;
//   - after each attempt the clauses of the property are evaluated in Lua: either every value
//     arrived (count, order, content), or the failure is an overflow error of one side and then: the
//     running thread is the one that ran before; a coroutine whose body has returned or failed is
//     dead and refuses to be resumed; a coroutine that is suspended is suspended in the yield its
//     body reached, and the values of the next resume arrive as the results of THAT yield (never a
//     replay of an earlier hand-over), after which the body runs to its end.
//
// The position of the limit is found by the sweep, nothing about the registry layout is assumed.
type hlSpec struct {
	Kind      string   `json:"kind"`  // yield | tailyield | return | error | args | depth
	Wrap      bool     `json:"wrap"`  // coroutine.wrap instead of create/resume
	Sweep     string   `json:"sweep"` // payload | crowd
	Shape     string   `json:"shape"` // how the loaded side holds registers: deep | crowded
	Load      int      `json:"load"`  // depth / number of held values of the fixed load
	K0        int      `json:"k0"`    // payload of a crowd sweep
	Hist      []string `json:"hist"`  // full, levels, deep (the resumer); cofull, codeep (the coroutine under test)
	Rounds    int      `json:"rounds"`
	Nested    bool     `json:"nested"` // the resumer is itself a coroutine
	ErrKind   string   `json:"errkind,omitempty"`
	Reg       int      `json:"registry"`
	RegMax    int      `json:"registry_max"`
	RegGrow   int      `json:"registry_grow"`
	CallStack int      `json:"callstack"`
	Minimize  bool     `json:"minimize_stack,omitempty"` // per-thread call stacks that grow and shrink in pooled segments
}

func (s hlSpec) name() string {
	m := "plain"
	if s.Wrap {
		m = "wrap"
	}
	return fmt.Sprintf("%s-%s-%s", s.Kind, m, s.Sweep)
}

func (s hlSpec) has(h string) bool {
	for _, x := range s.Hist {
		if x == h {
			return true
		}
	}
	return false
}

func (s hlSpec) lua() string {
	n := s.Reg
	if s.RegMax > n {
		n = s.RegMax
	}
	n += 40
	var b strings.Builder
	p := func(f string, a ...any) { fmt.Fprintf(&b, f+"\n", a...) }
	p(`local N = %d`, n)
	p(`local big = {}; for i = 1, N do big[i] = i end`)
	p(`local stage, th = 0, nil`)
	p(`local errv = {}`)
	p(`local function isovf(e) return type(e) == "string" and string.find(e, "overflow", 1, true) ~= nil end`)
	p(`local function fail(v, what) error("v=" .. tostring(v) .. ": " .. what, 0) end`)
	p(`local function show(r) local t = {}; for i = 1, math.min(#r, 6) do t[i] = tostring(r[i]) end; return "#" .. #r .. " {" .. table.concat(t, ", ") .. "}" end`)
	p(`local function deep(n, f, a, b)`)
	p(`  if n == 0 then return f(a, b) end`)
	p(`  local r = deep(n - 1, f, a, b)`)
	p(`  return r`)
	p(`end`)
	p(`local function crowded(f, a, b, ...)`)
	p(`  local r = f(a, b)`)
	p(`  return r`)
	p(`end`)
	// histories
	p(`local function hist_full()`)
	p(`  local ok, e = pcall(unpack, big)`)
	p(`  if ok or not isovf(e) then fail("history", "unpack of N values: " .. tostring(e)) end`)
	p(`end`)
	p(`local function hist_levels()`)
	p(`  local seen = 0`)
	p(`  for m = 0, N do`)
	p(`    local ok, ok2, e = pcall(function() return pcall(setmetatable, unpack(big, 1, m)) end)`)
	p(`    if ok and ok2 then fail("history", "setmetatable(1, 2, ..) succeeded") end`)
	p(`    if not ok then seen = seen + 1; if seen >= 2 then return end end`)
	p(`  end`)
	p(`  fail("history", "argument errors at rising fill levels never reached the limit")`)
	p(`end`)
	p(`local function hist_deep()`)
	p(`  local function rec(n) return 1 + rec(n + 1) end`)
	p(`  if pcall(rec, 1) then fail("history", "unbounded recursion returned") end`)
	p(`end`)
	cohist := ""
	if s.has("cofull") {
		cohist += "hist_full(); "
	}
	if s.has("codeep") {
		cohist += "hist_deep(); "
	}
	// the loaded call made inside the coroutine (args kind) or by the resumer (all others)
	load := func(f, a, b, v string) string {
		if s.Sweep == "crowd" {
			return fmt.Sprintf("crowded(%s, %s, %s, unpack(big, 1, %s))", f, a, b, v)
		}
		if s.Shape == "deep" {
			return fmt.Sprintf("deep(%d, %s, %s, %s)", s.Load, f, a, b)
		}
		return fmt.Sprintf("crowded(%s, %s, %s, unpack(big, 1, %d))", f, a, b, s.Load)
	}
	// body of the coroutine under test
	switch s.Kind {
	case "yield":
		p(`local function body(k) th = coroutine.running(); %sstage = 1`, cohist)
		p(`  local a, b = coroutine.yield("first", unpack(big, 1, k)); stage = 2`)
		p(`  local c = coroutine.yield("second", a, b); stage = 3`)
		p(`  return "done", c`)
		p(`end`)
	case "tailyield":
		p(`local function body(k) th = coroutine.running(); %sstage = 1`, cohist)
		p(`  return coroutine.yield("first", unpack(big, 1, k))`)
		p(`end`)
	case "return":
		p(`local function body(k) th = coroutine.running(); %sstage = 1`, cohist)
		p(`  return "first", unpack(big, 1, k)`)
		p(`end`)
	case "error":
		raise := `error(errv)`
		switch s.ErrKind {
		case "runtime":
			raise = `local z = nil; z.x = 1`
		case "string":
			raise = `error("boom", 0)`
		}
		p(`local function body(k) th = coroutine.running(); %sstage = 1`, cohist)
		p(`  %s`, raise)
		p(`  stage = 9`)
		p(`end`)
	case "depth":
		// the payload is a DEPTH: the body yields k non-tail calls down, is resumed, and returns through all of them
		p(`local function body(k) th = coroutine.running(); %sstage = 1`, cohist)
		p(`  local function down(n)`)
		p(`    if n == 0 then local a = coroutine.yield("first", k); stage = 2; return a end`)
		p(`    local r = down(n - 1)`)
		p(`    return r`)
		p(`  end`)
		p(`  local r = down(k); stage = 3`)
		p(`  return "done", r`)
		p(`end`)
	case "args":
		p(`local function inner(k) stage = 1`)
		p(`  local r = {coroutine.yield("ready")}; stage = 2`)
		p(`  local c = coroutine.yield("got", #r, r[1], r[#r]); stage = 3`)
		p(`  return c`)
		p(`end`)
		p(`local function body(k) th = coroutine.running(); %slocal c = %s; return "done", c end`, cohist, load("inner", "k", "nil", "k"))
	}
	// the attempt: one resume under protection, results collected without copying them
	target := "coroutine.resume, co"
	if s.Wrap {
		target = "co"
	}
	if s.Kind == "args" {
		p(`local function attempt(co, k) local r = {pcall(%s, unpack(big, 1, k))}; return r end`, target)
	} else {
		p(`local function attempt(co, k) local r = {pcall(%s, k)}; return r end`, target)
	}
	p(`local function sweep(round)`)
	p(`  local me = coroutine.running()`)
	p(`  local arrived, over, v = 0, 0, 0`)
	p(`  while over < 3 do`)
	p(`    if v > N then fail(v, "the sweep never reached the limit") end`)
	p(`    stage, th = 0, nil`)
	k := "v"
	if s.Sweep == "crowd" {
		k = fmt.Sprint(s.K0)
	}
	p(`    local k = %s`, k)
	if s.Wrap {
		p(`    local co = coroutine.wrap(body)`)
		p(`    local function again(...) return pcall(co, ...) end`)
	} else {
		p(`    local co = coroutine.create(body); th = co`)
		p(`    local function again(...) return coroutine.resume(co, ...) end`)
	}
	p(`    local function refused() local f = {again()}; if not (#f == 2 and f[1] == false and type(f[2]) == "string" and string.find(f[2], "dead", 1, true)) then fail(v, "a dead coroutine was not refused: " .. show(f)) end end`)
	if s.Kind == "args" {
		p(`    do local f = {again(k)}; if not (#f == 2 and f[1] == true and f[2] == "ready" and stage == 1) then fail(v, "first resume: " .. show(f)) end end`)
		p(`    local pok, r = pcall(attempt, co, k)`)
	} else {
		p(`    local pok, r = pcall(function() return %s end)`, load("attempt", "co", "k", "v"))
	}
	// classification
	p(`    local class, e, off`)
	p(`    if not pok then class, e = "raised", r; r = {}`)
	if s.Wrap {
		p(`    elseif r[1] == true then class, off = "arrived", 1`)
		p(`    elseif r[1] == false then class, e = "raised", r[2]`)
	} else {
		p(`    elseif r[1] == false then class, e = "raised", r[2]`)
		p(`    elseif r[1] == true and r[2] == true then class, off = "arrived", 2`)
		p(`    elseif r[1] == true and r[2] == false then class, e = "failed", r[3]`)
	}
	p(`    else fail(v, "unexpected shape of the results: " .. show(r)) end`)
	p(`    if coroutine.running() ~= me then fail(v, "the running thread changed") end`)
	p(`    local st = th and coroutine.status(th) or "unstarted"`)
	p(`    if st ~= "suspended" and st ~= "dead" and st ~= "unstarted" then fail(v, "status after the attempt: " .. st) end`)
	if s.Kind == "error" {
		// the error value itself is the payload
		want := `e == errv`
		switch s.ErrKind {
		case "runtime":
			want = `type(e) == "string" and string.find(e, "index", 1, true)`
		case "string":
			want = `type(e) == "string" and string.find(e, "boom", 1, true)`
		}
		delivered := `class == "failed" and #r == 3`
		if s.Wrap {
			delivered = `class == "raised" and #r == 2`
		}
		p(`    if %s and (%s) then class = "arrived"`, delivered, want)
		p(`    elseif class == "arrived" or not isovf(e) then fail(v, "the error of the body did not reach the resumer: " .. class .. " " .. tostring(e) .. " " .. show(r)) end`)
		p(`    if stage == 9 then fail(v, "the body went on after its error") end`)
		p(`    if stage >= 1 and st ~= "dead" then fail(v, "the body failed but the coroutine is " .. st) end`)
		p(`    if st == "dead" then refused() end`)
	} else {
		p(`    if class ~= "arrived" and not isovf(e) then fail(v, class .. " with " .. tostring(e)) end`)
		p(`    if class == "failed" and st ~= "dead" then fail(v, "resume reported the coroutine's failure but it is " .. st) end`)
	}
	switch s.Kind {
	case "yield", "tailyield", "return":
		p(`    if class == "arrived" then`)
		p(`      if #r ~= off + 1 + k or r[off + 1] ~= "first" then fail(v, "handed over " .. (k + 1) .. " values, got " .. show(r)) end`)
		p(`      for i = 1, k do if r[off + 1 + i] ~= i then fail(v, "value " .. i .. " arrived as " .. tostring(r[off + 1 + i])) end end`)
		p(`      if stage ~= 1 then fail(v, "stage " .. stage) end`)
		p(`    end`)
	case "depth":
		p(`    if class == "arrived" and not (#r == off + 2 and r[off + 1] == "first" and r[off + 2] == k and stage == 1) then fail(v, "yield at depth " .. k .. " handed over " .. show(r)) end`)
	case "args":
		p(`    if class == "arrived" then`)
		p(`      local first, last = nil, nil; if k > 0 then first, last = 1, k end`)
		p(`      if not (#r >= off + 2 and r[off + 1] == "got" and r[off + 2] == k and r[off + 3] == first and r[off + 4] == last and stage == 2) then fail(v, "resumed with " .. k .. " values, the yield returned " .. show(r)) end`)
		p(`    end`)
	}
	switch s.Kind {
	case "yield":
		p(`    if class == "arrived" and st ~= "suspended" then fail(v, "values arrived but the coroutine is " .. st) end`)
		if !s.Wrap {
			p(`    if class == "raised" and stage == 1 and st ~= "suspended" then fail(v, "the resumer had no room; the coroutine is " .. st) end`)
		}
		p(`    if st == "suspended" and stage == 1 then`)
		p(`      local f = {again("A", k)}`)
		p(`      if not (#f == 4 and f[1] == true and f[2] == "second" and f[3] == "A" and f[4] == k and stage == 2) then fail(v, "after " .. class .. ": the values of the next resume did not arrive as the results of the pending yield: " .. show(f)) end`)
		p(`      f = {again("B")}`)
		p(`      if not (#f == 3 and f[1] == true and f[2] == "done" and f[3] == "B" and stage == 3) then fail(v, "results of the body: " .. show(f)) end`)
		p(`      if coroutine.status(th) ~= "dead" then fail(v, "finished body, status " .. coroutine.status(th)) end`)
		p(`      refused()`)
		p(`    elseif st == "suspended" and stage ~= 0 then fail(v, "suspended at stage " .. stage)`)
		p(`    elseif st == "dead" then refused() end`)
	case "tailyield":
		p(`    if class == "arrived" and st ~= "suspended" then fail(v, "values arrived but the coroutine is " .. st) end`)
		if !s.Wrap {
			p(`    if class == "raised" and stage == 1 and st ~= "suspended" then fail(v, "the resumer had no room; the coroutine is " .. st) end`)
		}
		p(`    if st == "suspended" and stage == 1 then`)
		p(`      local f = {again("A", k)}`)
		p(`      if not (#f == 3 and f[1] == true and f[2] == "A" and f[3] == k) then fail(v, "after " .. class .. ": the values of the next resume are the results of the tail-called yield, i.e. of the body: " .. show(f)) end`)
		p(`      if coroutine.status(th) ~= "dead" then fail(v, "finished body, status " .. coroutine.status(th)) end`)
		p(`      refused()`)
		p(`    elseif st == "suspended" and stage ~= 0 then fail(v, "suspended at stage " .. stage)`)
		p(`    elseif st == "dead" then refused() end`)
	case "depth":
		p(`    if class == "arrived" and st ~= "suspended" then fail(v, "values arrived but the coroutine is " .. st) end`)
		p(`    if class ~= "arrived" and stage >= 1 and st ~= "dead" then fail(v, class .. ": the descent failed but the coroutine is " .. st) end`)
		p(`    if st == "suspended" and stage == 1 then`)
		p(`      local f = {again("A")}`)
		p(`      if not (#f == 3 and f[1] == true and f[2] == "done" and f[3] == "A" and stage == 3) then fail(v, "resumed at depth " .. k .. ": " .. show(f)) end`)
		p(`      if coroutine.status(th) ~= "dead" then fail(v, "finished body, status " .. coroutine.status(th)) end`)
		p(`    end`)
		p(`    if st == "dead" or stage == 3 then refused() end`)
	case "return":
		p(`    if stage >= 1 and st ~= "dead" then fail(v, class .. ": the body has returned but the coroutine is " .. st) end`)
		p(`    if st == "dead" then refused() end`)
	case "args":
		p(`    if class == "arrived" and st ~= "suspended" then fail(v, "values arrived but the coroutine is " .. st) end`)
		p(`    if st == "suspended" then`)
		p(`      if class ~= "arrived" then`)
		p(`        -- the resumer failed before anything was handed over: the coroutine still waits in its first yield`)
		p(`        local f = {again("x")}`)
		p(`        if not (#f == 5 and f[1] == true and f[2] == "got" and f[3] == 1 and f[4] == "x" and f[5] == "x" and stage == 2) then fail(v, "after " .. class .. ": the pending yield got " .. show(f)) end`)
		p(`      end`)
		p(`      local f = {again("C")}`)
		p(`      if not (#f == 3 and f[1] == true and f[2] == "done" and f[3] == "C" and stage == 3) then fail(v, "results of the body: " .. show(f)) end`)
		p(`      if coroutine.status(th) ~= "dead" then fail(v, "finished body, status " .. coroutine.status(th)) end`)
		p(`    end`)
		p(`    refused()`)
	}
	p(`    if class == "arrived" then arrived = arrived + 1; if over > 0 then over = 0 end else over = over + 1 end`)
	p(`    v = v + 1`)
	p(`  end`)
	p(`  if arrived == 0 then fail(v, "nothing ever fitted") end`)
	p(`  return arrived, v`)
	p(`end`)
	p(`local function resumer()`)
	for _, h := range s.Hist {
		if h != "cofull" && h != "codeep" {
			p(`  hist_%s()`, h)
		}
	}
	p(`  local a, n = 0, 0`)
	p(`  for round = 1, %d do local x, y = sweep(round); a = a + x; n = n + y end`, s.Rounds)
	p(`  return a, n`)
	p(`end`)
	if s.Nested {
		p(`local ok, a, n = coroutine.resume(coroutine.create(resumer))`)
		p(`if not ok then error(a, 0) end`)
		p(`if coroutine.running() ~= nil then error("the main thread is not the running one at the end", 0) end`)
		p(`emit("swept", a > 0, n > a)`)
	} else {
		p(`local a, n = resumer()`)
		p(`emit("swept", a > 0, n > a)`)
	}
	return b.String()
}

func (s hlSpec) run() (bool, string, *luagen.Outcome) {
	o := lua.Options{RegistrySize: s.Reg, RegistryMaxSize: s.RegMax, RegistryGrowStep: s.RegGrow, CallStackSize: s.CallStack, MinimizeStackMemory: s.Minimize}
	out := luagen.Run(s.lua(), &luagen.RunOptions{Options: &o, Timeout: 60e9})
	rows := traceRows(out)
	if out.GoFail != "" {
		return false, out.GoFail, out
	}
	if !out.Ok {
		return false, out.Err.String(), out
	}
	if len(rows) != 1 || rows[0] != `"swept" true true` {
		return false, fmt.Sprintf("rows %q", rows), out
	}
	return true, "", out
}

func hlSpecs(tier string, seed uint64) []hlSpec {
	r := lib.NewRand(seed ^ 0xc06a5)
	specs := []hlSpec{}
	hists := [][]string{{}, {"full"}, {"levels"}, {"deep"}, {"cofull"}, {"full", "cofull"}, {"deep", "full"}}
	finish := func(s hlSpec) hlSpec {
		if s.Reg == 0 {
			s.Reg = r.Range(130, 260)
		}
		if s.CallStack == 0 {
			s.CallStack = 96
		}
		if s.Rounds == 0 {
			s.Rounds = 1
		}
		if s.Kind == "error" {
			s.Sweep = "crowd"
			if s.ErrKind == "" {
				s.ErrKind = []string{"table", "runtime", "string"}[r.Intn(3)]
			}
		}
		if s.Kind == "args" {
			s.Sweep = "payload"
		}
		if s.Kind == "depth" {
			// the call stack is the limit that is reached first
			s.Sweep, s.Shape = "payload", "deep"
			s.Reg, s.RegMax, s.RegGrow = r.Range(600, 700), 0, 0
			s.CallStack = []int{33, 64, 96}[r.Intn(3)]
		}
		if s.Sweep == "crowd" {
			s.Shape = "crowded"
			s.K0 = r.Range(0, 9)
			s.Load = 0
		} else if s.Shape == "deep" {
			s.Load = r.Range(1, 9)
		} else {
			s.Shape = "crowded"
			s.Load = r.Range(1, 60)
		}
		return s
	}
	// core: every kind and mode after every history, resumed from the main thread, fixed registry
	for _, kind := range []string{"yield", "tailyield", "return", "error", "args"} {
		for _, wrap := range []bool{false, true} {
			for i, h := range hists {
				s := hlSpec{Kind: kind, Wrap: wrap, Hist: h, Sweep: "payload", Shape: "deep"}
				if (i+len(kind))%2 == 1 {
					s.Sweep = "crowd"
				}
				if i%3 == 2 {
					s.Shape = "crowded"
				}
				if i == 1 {
					s.Rounds = 2
				}
				specs = append(specs, finish(s))
			}
		}
	}
	for _, wrap := range []bool{false, true} {
		for _, h := range [][]string{{}, {"codeep"}, {"deep", "codeep"}, {"full"}} {
			for _, mini := range []bool{false, true} {
				specs = append(specs, finish(hlSpec{Kind: "depth", Wrap: wrap, Hist: h, Minimize: mini, Rounds: 1 + b2i(mini)}))
			}
		}
	}
	// random: nested resumers, growing registries (the limit is the maximal size then), two rounds
	n := 30
	if tier == "thorough" {
		n = 400
	}
	for i := 0; i < n; i++ {
		s := hlSpec{Kind: []string{"yield", "yield", "tailyield", "return", "error", "args", "depth"}[r.Intn(7)], Wrap: r.Chance(40), Nested: r.Chance(50), Rounds: 1 + r.Intn(2)}
		s.Hist = append([]string{}, hists[r.Intn(len(hists))]...)
		if r.Chance(30) {
			s.Hist = append(s.Hist, "levels")
		}
		if r.Chance(25) {
			s.Hist = append(s.Hist, "codeep")
		}
		if r.Chance(40) {
			s.CallStack = []int{40, 64}[r.Intn(2)]
		}
		s.Sweep = []string{"payload", "crowd"}[r.Intn(2)]
		s.Minimize = r.Chance(30)
		s.Shape = []string{"deep", "crowded"}[r.Intn(2)]
		if r.Chance(50) {
			s.Reg = r.Range(128, 160)
			s.RegMax = s.Reg + r.Range(1, 200)
			s.RegGrow = r.Range(1, 40)
		}
		specs = append(specs, finish(s))
	}
	return specs
}

// historyProgs: bookkeeping that is counted up on the way into a resume or a protected call and
// down on the way out (nesting depth of resumes, depth of Go calls that forbid a yield) must come
// back to where it was on EVERY way out: after several hundred coroutines that ended by an error
// through wrap, by a runtime fault, by a refused yield, by a refused resume, or whose resumer had no
// room, the depth at which nested resumes are refused is the one of a fresh state, a yield that is
// legal is still legal, and a coroutine that lived through all of it still gets its values.
var historyProgs = []struct {
	name string
	src  string
	want []string
}{
	{"resume-depth-after-history", `local function maxdepth()
  local depth = 0
  local function f() depth = depth + 1; return coroutine.wrap(f)() end
  local ok, e = pcall(f)
  return depth, (tostring(e):gsub("^.*: ", ""))
end
local d0, e0 = maxdepth()
local survivor = coroutine.wrap(function(a) while true do a = coroutine.yield(a * 2) end end)
local big = {}; for i = 1, 7000 do big[i] = i end
local acc = 0
for i = 1, 300 do
  pcall(coroutine.wrap(function() error("x") end))
  pcall(coroutine.wrap(function() error({}) end))
  coroutine.resume(coroutine.create(function() local z = nil; return z.f end))
  local co = coroutine.create(function() pcall(coroutine.yield, 1); local t = setmetatable({}, {__index = function() return coroutine.yield(2) end}); return t.x end); coroutine.resume(co)
  local w = coroutine.wrap(function() coroutine.yield(1) end); w(); w(); pcall(w)
  local me = coroutine.wrap(function() local self = coroutine.running(); return coroutine.resume(self) end); me()
  if i % 60 == 0 then pcall(coroutine.resume, coroutine.create(function() return unpack(big) end)); pcall(coroutine.wrap(function() coroutine.yield(unpack(big)) end)) end
  acc = acc + survivor(i)
end
local d1, e1 = maxdepth()
emit(d0 == d1, e0 == e1, e1, acc)
local inner = coroutine.wrap(function() local d2 = maxdepth(); coroutine.yield(d2); for i = 1, 300 do pcall(error, "x"); pcall(coroutine.wrap(function() error("y") end)) end; coroutine.yield(maxdepth()); return "end" end)
local d2 = inner(); local d3 = inner(); emit(d2 == d0 - 1, d3 == d2, inner(), survivor(1))`,
		[]string{`true true "C stack overflow" 90300`, `true true "end" 2`}},
}

func historyCases(w *lib.Writer, only string) {
	for _, p := range historyProgs {
		if only != "" && p.name != only {
			continue
		}
		out := luagen.RunIsolated(p.src, 60e9, nil)
		rows := traceRows(out)
		ok := out.Ok && out.GoFail == "" && len(rows) == len(p.want)
		if ok {
			for i := range rows {
				if rows[i] != p.want[i] {
					ok = false
				}
			}
		}
		id := w.Add(lib.Case{Input: map[string]any{"w5": "history", "name": p.name, "src": p.src}, Observed: out.Summary(), Class: "history-" + p.name,
			Nontrivial: true, Coq: "CProg [] (Outcome [] (OOk []))"})
		w.Meta.GoOnlyChecked++
		if !ok {
			w.GoFail(id, fmt.Sprintf("coroutine bookkeeping after a history of failed coroutines %q: expected rows %q, got %q (ok=%v err=%s %s)", p.name, p.want, rows, out.Ok, out.Err.String(), out.GoFail))
		}
	}
}

func histLimits(w *lib.Writer, tier string, seed uint64) {
	historyCases(w, "")
	for _, s := range hlSpecs(tier, seed) {
		histLimitCase(w, s)
	}
}

func histLimitCase(w *lib.Writer, s hlSpec) {
	ok, what, out := s.run()
	id := w.Add(lib.Case{Input: map[string]any{"w5": "hist-limit", "spec": s, "src": s.lua()}, Observed: out.Summary(), Class: "histlimit-" + s.name(),
		Nontrivial: true, Coq: "CProg [] (Outcome [] (OOk []))"})
	w.Meta.GoOnlyChecked++
	if !ok {
		w.GoFail(id, fmt.Sprintf("coroutine hand-over at the register limit after a history (%s, history %v, nested=%v, registry %d/%d): %s", s.name(), s.Hist, s.Nested, s.Reg, s.RegMax, what))
	}
}

func b2i(b bool) int {
	if b {
		return 1
	}
	return 0
}
