package luagen

// Shrinking by statement deletion and block unwrapping. The oracle decides whether a candidate
// still shows the failure (it re-runs the real code and the model).

// blockSlots collects pointers to every statement list in the program, outermost first.
func blockSlots(body *[]Stmt, out *[]*[]Stmt) {
	*out = append(*out, body)
	for _, s := range *body {
		stmtSlots(s, out)
	}
}

func stmtSlots(s Stmt, out *[]*[]Stmt) {
	switch s := s.(type) {
	case *Local:
		exprsSlots(s.Es, out)
	case *Assign:
		exprsSlots(s.LHS, out)
		exprsSlots(s.Es, out)
	case *CallS:
		exprSlots(s.E, out)
	case *Do:
		blockSlots(&s.Body, out)
	case *While:
		exprSlots(s.C, out)
		blockSlots(&s.Body, out)
	case *Repeat:
		blockSlots(&s.Body, out)
		exprSlots(s.C, out)
	case *If:
		exprSlots(s.C, out)
		blockSlots(&s.Then, out)
		blockSlots(&s.Else, out)
	case *NumFor:
		exprSlots(s.A, out)
		exprSlots(s.B, out)
		if s.C != nil {
			exprSlots(s.C, out)
		}
		blockSlots(&s.Body, out)
	case *GenFor:
		exprsSlots(s.Es, out)
		blockSlots(&s.Body, out)
	case *LocalFunc:
		blockSlots(&s.F.Body, out)
	case *FuncStmt:
		blockSlots(&s.F.Body, out)
	case *Return:
		exprsSlots(s.Es, out)
	}
}

func exprsSlots(es []Expr, out *[]*[]Stmt) {
	for _, e := range es {
		exprSlots(e, out)
	}
}

func exprSlots(e Expr, out *[]*[]Stmt) {
	switch e := e.(type) {
	case *Index:
		exprSlots(e.E, out)
		exprSlots(e.K, out)
	case *Call:
		exprSlots(e.F, out)
		exprsSlots(e.Args, out)
	case *Meth:
		exprSlots(e.O, out)
		exprsSlots(e.Args, out)
	case *Func:
		blockSlots(&e.Body, out)
	case *Bin:
		exprSlots(e.A, out)
		exprSlots(e.B, out)
	case *Un:
		exprSlots(e.A, out)
	case *And:
		exprSlots(e.A, out)
		exprSlots(e.B, out)
	case *Or:
		exprSlots(e.A, out)
		exprSlots(e.B, out)
	case *Paren:
		exprSlots(e.E, out)
	case *Table:
		for _, it := range e.Items {
			if it.K != nil {
				exprSlots(it.K, out)
			}
			exprSlots(it.E, out)
		}
	}
}

// Shrink returns a smaller program on which fails() is still true. budget bounds oracle calls.
func Shrink(prog []Stmt, fails func([]Stmt) bool, budget int) []Stmt {
	calls := 0
	try := func() bool {
		calls++
		return fails(prog)
	}
	changed := true
	for changed && calls < budget {
		changed = false
		var slots []*[]Stmt
		blockSlots(&prog, &slots)
		// larger chunks first: drop halves of the top-level list
		for _, sl := range slots {
			for size := len(*sl) / 2; size >= 1 && calls < budget; size /= 2 {
				for i := 0; i+size <= len(*sl) && calls < budget; {
					old := append([]Stmt{}, (*sl)...)
					*sl = append(append([]Stmt{}, old[:i]...), old[i+size:]...)
					if try() {
						changed = true
					} else {
						*sl = old
						i += size
					}
				}
			}
		}
		// unwrap: replace a compound statement by its body
		slots = slots[:0]
		blockSlots(&prog, &slots)
		for _, sl := range slots {
			for i := 0; i < len(*sl) && calls < budget; i++ {
				var inner []Stmt
				switch s := (*sl)[i].(type) {
				case *Do:
					inner = s.Body
				case *If:
					inner = s.Then
				case *While:
					inner = s.Body
				default:
					continue
				}
				old := append([]Stmt{}, (*sl)...)
				*sl = append(append(append([]Stmt{}, old[:i]...), inner...), old[i+1:]...)
				if try() {
					changed = true
				} else {
					*sl = old
				}
			}
		}
	}
	return prog
}
