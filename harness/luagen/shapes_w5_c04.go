package luagen

import "verifh/lib"

// Wave-5 shapes of C04 (metamethod selection). Three families:
//
//   rawOpsMatrix     rawequal / rawget / rawset next to the handler-honouring operators on pairs of
//                    host-created userdata and tables whose metatables share a metatable, share only
//                    the handler, or differ; with a history (the handler has already run, has
//                    already failed inside a pcall) and a nested handler call inside the handler.
//   chainBoundary    __index / __newindex chains whose length straddles the documented depth
//                    (100 objects are walked completely, the 101st is an error), for every way a
//                    key reaches the interpreter (number, run-time string, constant string, method
//                    call, global of a function environment), every ending (key absent, key in the
//                    last object, handler function on the last object, userdata as last object)
//                    and optionally a userdata link or a key held by an inner table of the chain.
//   udEventMatrix    every operator with a userdata on the left, on the right and on both sides,
//                    and mixed with a table that shares the metatable.

func (g *Gen) w5MetaC04(d int) []Stmt {
	switch g.R.Pick(35, 35*b2i(g.Uses["meta-chain-depth-boundary"] == 0), 30) {
	case 0:
		return g.rawOpsMatrix(d)
	case 1:
		return g.chainBoundary(d)
	}
	return g.udEventMatrix(d)
}

// W5MetaC04Program: a small stand-alone program made only of wave-5 C04 shapes (used by cmd/c04 as a
// generation mode of its own, so that every run holds a fixed share of them whatever the mix does).
func W5MetaC04Program(r *lib.Rand) []Stmt {
	g := NewGen(r, CoreFeatures())
	g.push()
	var out []Stmt
	switch r.Pick(30, 40, 30) {
	case 0:
		out = g.rawOpsMatrix(2)
		if r.Bool() {
			out = append(out, g.rawOpsMatrix(2)...)
		}
	case 1:
		out = g.chainBoundary(2)
	default:
		out = g.udEventMatrix(2)
	}
	g.pop()
	return out
}

func pcallOf(body ...Stmt) Expr { return call("pcall", &Func{Body: body}) }

// rawOpsMatrix: see above.
func (g *Gen) rawOpsMatrix(d int) []Stmt {
	g.use("meta-raw-ops-matrix")
	h, h2, cnt, a, b, m := g.fresh("rh"), g.fresh("rh"), g.fresh("rc"), g.fresh("ra"), g.fresh("rb"), g.fresh("rm")
	res := []Expr{&True{}, &False{}, &Nil{}, num(1), str("yes")}[g.R.Intn(5)]
	failFirst := g.R.Chance(25) // history: the first handler run fails inside a protected call
	nested := g.R.Chance(35)    // the handler itself indexes its operands (nested __index handler)
	hbody := []Stmt{set(v(cnt), bin("+", v(cnt), num(1))), emit(str("eq-handler"), call("type", v("x")), call("type", v("y")), v(cnt))}
	if failFirst {
		hbody = append(hbody, &If{C: bin("==", v(cnt), num(1)), Then: []Stmt{&CallS{E: call("error", str("first-run-fails"), num(0))}}})
	}
	if nested {
		hbody = append(hbody, emit(str("ids"), idx(v("x"), "id"), idx(v("y"), "id")))
	}
	hbody = append(hbody, ret(res))
	mk := func(kind int, mt Expr) Expr {
		if kind == 0 {
			return call("newud", mt)
		}
		return call("setmetatable", &Table{}, mt)
	}
	mtOf := func(hv string) Expr {
		items := []TItem{{Kind: 1, Name: "__eq", E: v(hv)}}
		if nested {
			items = append(items, TItem{Kind: 1, Name: "__index", E: &Func{Params: []string{"o", "k"}, Body: []Stmt{ret(bin("..", call("type", v("o")), bin("..", str("."), v("k"))))}}})
		}
		return &Table{Items: items}
	}
	ka, kb := 0, 0 // 0 userdata, 1 table
	switch g.R.Pick(55, 25, 20) {
	case 1:
		ka, kb = 1, 1
	case 2:
		ka, kb = g.R.Intn(2), 0
		kb = 1 - ka
	}
	out := []Stmt{local1(cnt, num(0)),
		local1(h, &Func{Params: []string{"x", "y"}, Body: hbody}),
		local1(h2, &Func{Params: []string{"x", "y"}, Body: []Stmt{emit(str("other-eq-handler")), ret(&True{})}})}
	switch g.R.Pick(35, 35, 15, 15) {
	case 0: // one common metatable
		out = append(out, local1(m, mtOf(h)), local1(a, mk(ka, v(m))), local1(b, mk(kb, v(m))))
	case 1: // two metatables, the identical handler
		out = append(out, local1(a, mk(ka, mtOf(h))), local1(b, mk(kb, mtOf(h))))
	case 2: // different handlers
		out = append(out, local1(a, mk(ka, mtOf(h))), local1(b, mk(kb, mtOf(h2))))
	default: // only one side has a handler
		if kb == 0 {
			out = append(out, local1(a, mk(ka, mtOf(h))), local1(b, call("newud")))
		} else {
			out = append(out, local1(a, mk(ka, mtOf(h))), local1(b, &Table{}))
		}
	}
	raws := func() Stmt {
		return emit(call("rawequal", v(a), v(b)), call("rawequal", v(b), v(a)), call("rawequal", v(a), v(a)), v(cnt))
	}
	pe := func(e Expr) Stmt { return emit(pcallOf(ret(e))) }
	ops := func() []Stmt {
		return []Stmt{pe(bin("==", v(a), v(b))), pe(bin("~=", v(b), v(a))), emit(bin("==", v(a), v(a)), v(cnt))}
	}
	out = append(out, raws())
	out = append(out, ops()...)
	out = append(out, raws())
	if failFirst {
		out = append(out, ops()...)
		out = append(out, raws())
	}
	// rawget / rawset beside a table whose handlers log: the raw forms never run them, before and
	// after the handler-honouring forms did
	if g.R.Chance(60) {
		t, k := g.fresh("rt"), []Expr{num(float64(g.R.Range(1, 9))), str("rk"), bin("..", str("r"), str("k"))}[g.R.Intn(3)]
		out = append(out,
			local1(t, call("setmetatable", &Table{}, &Table{Items: []TItem{
				{Kind: 1, Name: "__index", E: &Func{Params: []string{"o", "kk"}, Body: []Stmt{emit(str("index-handler"), v("kk")), ret(str("from-index"))}}},
				{Kind: 1, Name: "__newindex", E: &Func{Params: []string{"o", "kk", "x"}, Body: []Stmt{emit(str("newindex-handler"), v("kk"), v("x"))}}}}})),
			emit(call("rawget", v(t), k), &Index{E: v(t), K: k}, call("rawget", v(t), k)),
			set(&Index{E: v(t), K: k}, g.litInt()), emit(call("rawget", v(t), k)),
			emit(bin("==", call("rawset", v(t), k, g.litInt()), v(t)), call("rawget", v(t), k), &Index{E: v(t), K: k}),
			set(&Index{E: v(t), K: k}, g.litInt()), emit(call("rawget", v(t), k)),
			emit(call("rawequal", bin("..", str("a"), str("b")), str("ab")), call("rawequal", num(1), num(1)), call("rawequal", str("1"), num(1)), call("rawequal", v(t), v(t))))
	}
	return out
}

// chainBoundary: see above. Emitted per probe: success of the protected access and the value (the
// wording of the over-long-chain error is the interpreter's own and is not compared).
func (g *Gen) chainBoundary(d int) []Stmt {
	g.use("meta-chain-depth-boundary")
	set_ := g.R.Chance(40)
	ev := "__index"
	if set_ {
		ev = "__newindex"
	}
	n0 := []int{99, 100, 100, 100, 99, 98, 101, 2, 50}[g.R.Intn(9)]
	base, cur, mk, dyn, okv, val := g.fresh("cb"), g.fresh("cc"), g.fresh("cmk"), g.fresh("cd"), g.fresh("cok"), g.fresh("cv")
	udLink := g.R.Chance(30) && n0 >= 4
	ending := g.R.Pick(30, 25, 30, 15) // 0 absent, 1 key in last object, 2 handler function on the last object, 3 userdata last
	if set_ && ending == 1 {
		ending = 0
	}
	keyKinds := []int{0, 1, 2}
	if !set_ {
		keyKinds = append(keyKinds, 3)
	}
	keyKinds = append(keyKinds, 4)
	// chain maker: mk(n, base[, udAt]) -> head of a chain of n objects ending in base; object number
	// udAt (counted from the base, which is number 1) is a userdata link when udLink
	udAt := 0
	link := func(next Expr) Expr {
		return call("setmetatable", &Table{}, &Table{Items: []TItem{{Kind: 1, Name: ev, E: next}}})
	}
	loopBody := []Stmt{set(v("c"), link(v("c")))}
	if udLink {
		udAt = g.R.Range(2, 60)
		// the head of a chain (object number n) is always a table
		loopBody = []Stmt{&If{C: &And{A: bin("==", v("i"), num(float64(udAt))), B: bin("<", v("i"), v("n"))}, HasElse: true,
			Then: []Stmt{set(v("c"), call("newud", &Table{Items: []TItem{{Kind: 1, Name: ev, E: v("c")}}}))},
			Else: []Stmt{set(v("c"), link(v("c")))}}}
	}
	out := []Stmt{&LocalFunc{X: mk, F: &Func{Params: []string{"n", "c"}, Body: []Stmt{
		&NumFor{X: "i", A: num(2), B: v("n"), Body: loopBody}, ret(v("c"))}}},
		local1(dyn, bin("..", str("dy"), str("n"))),
		&Local{Names: []string{okv, val}}}
	for _, n := range []int{n0, n0 + 1} {
		// the base object
		var bs []Stmt
		switch ending {
		case 0:
			bs = []Stmt{local1(base, &Table{})}
		case 1:
			bs = []Stmt{local1(base, &Table{Items: []TItem{{Kind: 2, K: num(7), E: str("seven")}, {Kind: 1, Name: "dyn", E: str("dv")}, {Kind: 1, Name: "ck", E: str("cv")},
				{Kind: 1, Name: "wk5g", E: str("gv")}, {Kind: 1, Name: "meth", E: &Func{Params: []string{"self"}, Body: []Stmt{ret(str("mv"))}}}}})}
		case 2, 3:
			var hf Expr
			if set_ {
				hf = &Func{Params: []string{"o", "k", "x"}, Body: []Stmt{emit(str("last-handler"), bin("==", v("o"), v(base)), v("k"), v("x"))}}
			} else {
				hf = &Func{Params: []string{"o", "k"}, Body: []Stmt{emit(str("last-handler"), bin("==", v("o"), v(base)), v("k")),
					ret(&Func{Params: []string{"self"}, Body: []Stmt{ret(str("hv"))}})}}
			}
			mt := &Table{Items: []TItem{{Kind: 1, Name: ev, E: hf}}}
			if ending == 2 {
				bs = []Stmt{&Local{Names: []string{base}}, set(v(base), call("setmetatable", &Table{}, mt))}
			} else {
				bs = []Stmt{&Local{Names: []string{base}}, set(v(base), call("newud", mt))}
			}
		}
		body := append(bs, local1(cur, call(mk, num(float64(n)), v(base))))
		// a key held by an inner table of a __newindex chain is raw-assigned there
		inner := ""
		if set_ && g.R.Chance(35) && n > 3 {
			inner = g.fresh("ci")
			holdAt := g.R.Range(2, n-1) // objects below the inner table
			body = append(bs, local1(inner, call("setmetatable", &Table{Items: []TItem{{Kind: 2, K: num(7), E: str("held")}, {Kind: 1, Name: "dyn", E: str("held")}, {Kind: 1, Name: "ck", E: str("held")}, {Kind: 1, Name: "wk5g", E: str("held")}}},
				&Table{Items: []TItem{{Kind: 1, Name: ev, E: call(mk, num(float64(holdAt)), v(base))}}})),
				local1(cur, call(mk, num(float64(n-holdAt)), v(inner))))
		}
		body = append(body, emit(str(ev), num(float64(n))))
		for _, kk := range keyKinds {
			if g.R.Chance(30) && kk != 0 {
				continue
			}
			var probe Expr
			var key Expr
			switch kk {
			case 0:
				key = num(7)
			case 1:
				key = v(dyn)
			case 2:
				key = str("ck")
			case 4:
				key = str("wk5g")
			}
			switch {
			case kk == 3:
				probe = pcallOf(ret(&Meth{O: v(cur), M: "meth"}))
			case kk == 4 && !set_:
				probe = call("pcall", call("setfenv", &Func{Body: []Stmt{ret(v("wk5g"))}}, v(cur)))
			case kk == 4:
				probe = call("pcall", call("setfenv", &Func{Body: []Stmt{set(v("wk5g"), str("stored"))}}, v(cur)))
			case set_ && kk == 2:
				probe = pcallOf(set(idx(v(cur), "ck"), str("stored")))
			case set_:
				probe = pcallOf(set(&Index{E: v(cur), K: key}, str("stored")))
			case kk == 2:
				probe = pcallOf(ret(idx(v(cur), "ck")))
			default:
				probe = pcallOf(ret(&Index{E: v(cur), K: key}))
			}
			body = append(body, &Assign{LHS: []Expr{v(okv), v(val)}, Es: []Expr{probe}})
			if set_ {
				row := []Expr{v(okv), call("rawget", v(cur), key)}
				if ending != 3 {
					row = append(row, call("rawget", v(base), key))
				}
				if inner != "" {
					row = append(row, call("rawget", v(inner), key))
				}
				body = append(body, emit(row...))
			} else {
				body = append(body, emit(v(okv), &And{A: v(okv), B: &Or{A: &And{A: bin("==", call("type", v(val)), str("function")), B: str("fn")}, B: v(val)}}))
			}
		}
		out = append(out, &Do{Body: body})
	}
	return out
}

// udEventMatrix: see above.
func (g *Gen) udEventMatrix(d int) []Stmt {
	g.use("meta-userdata-event-matrix")
	mt, u, w, t := g.fresh("um"), g.fresh("uu"), g.fresh("uw"), g.fresh("ut")
	log := func(tag string, np int, r Expr) Expr {
		ps := []string{"x", "y", "z"}[:np]
		row := []Expr{str(tag)}
		for _, p := range ps[:min(np, 2)] {
			row = append(row, call("type", v(p)))
		}
		return &Func{Params: ps, Body: []Stmt{emit(row...), ret(r)}}
	}
	evs := []struct {
		name string
		f    Expr
	}{
		{"__add", log("add", 2, g.litInt())}, {"__sub", log("sub", 2, g.litInt())}, {"__mul", log("mul", 2, str("prod"))},
		{"__div", log("div", 2, g.litInt())}, {"__mod", log("mod", 2, g.litInt())}, {"__pow", log("pow", 2, g.litInt())},
		{"__concat", log("concat", 2, str("cc"))}, {"__unm", log("unm", 1, str("neg"))}, {"__len", log("len", 1, g.litInt())},
		{"__eq", log("eq", 2, []Expr{&True{}, &False{}, &Nil{}, num(0)}[g.R.Intn(4)])},
		{"__lt", log("lt", 2, []Expr{&True{}, &False{}, &Nil{}, num(0)}[g.R.Intn(4)])},
		{"__le", log("le", 2, []Expr{&True{}, &False{}, &Nil{}, str("s")}[g.R.Intn(4)])},
		{"__call", &Func{Params: []string{"self"}, Vararg: true, Body: []Stmt{emit(str("call"), call("type", v("self")), call("select", str("#"), &Varargs{})), ret(&Varargs{})}}},
		{"__index", []Expr{log("index", 2, str("iv")), &Table{Items: []TItem{{Kind: 1, Name: "fld", E: str("from-table")}}}}[g.R.Intn(2)]},
		{"__newindex", log("newindex", 3, &Nil{})},
		{"__tostring", log("tostring", 1, str("ud!"))},
		{"__metatable", []Expr{str("locked"), &False{}}[g.R.Intn(2)]},
	}
	items := []TItem{}
	has := map[string]bool{}
	for _, e := range evs {
		if g.R.Intn(10) < 7 {
			items = append(items, TItem{Kind: 1, Name: e.name, E: e.f})
			has[e.name] = true
		}
	}
	p := func(es ...Expr) Stmt {
		row := make([]Expr, len(es))
		for i, e := range es {
			row[i] = &Paren{E: pcallOf(ret(e))}
		}
		// first results only (success flags); the values follow in a second row through select
		return emit(row...)
	}
	pv := func(e Expr) Stmt { return emit(pcallOf(ret(e))) }
	ops := []string{"+", "-", "*", "/", "%", "^", ".."}
	op := ops[g.R.Intn(len(ops))]
	cmp := []string{"<", "<=", ">", ">="}
	c1, c2 := cmp[g.R.Intn(4)], cmp[g.R.Intn(4)]
	out := []Stmt{local1(mt, &Table{Items: items}), local1(u, call("newud", v(mt))), local1(w, call("newud", v(mt))), local1(t, call("setmetatable", &Table{}, v(mt)))}
	probes := []Stmt{
		pv(bin(op, v(u), g.litInt())), pv(bin(op, g.litInt(), v(u))), pv(bin(op, v(u), v(w))), pv(bin(op, v(t), v(u))), pv(bin(op, v(u), str("s"))),
		pv(&Un{Op: "-", A: v(u)}), pv(&Un{Op: "#", A: v(u)}),
		pv(bin("==", v(u), v(w))), pv(bin("~=", v(u), v(t))), p(bin("==", v(u), v(u)), bin("==", v(u), num(1)), call("rawequal", v(u), v(w))),
		pv(bin(c1, v(u), v(w))), pv(bin(c2, v(w), v(u))), pv(bin(c1, v(u), v(t))), pv(bin(c2, v(u), num(1))), pv(bin(c1, v(u), v(u))),
		pv(&Call{F: v(u), Args: []Expr{num(1), num(2)}}), pv(&Call{F: &Paren{E: &Func{Body: []Stmt{ret(&Call{F: v(u), Args: []Expr{str("tail")}})}}}}),
		pv(idx(v(u), "fld")), pv(&Index{E: v(u), K: num(3)}), p(&Meth{O: v(u), M: "fld"}),
		emit(pcallOf(set(idx(v(u), "fld"), num(1))), pcallOf(set(&Index{E: v(u), K: num(3)}, num(2)))),
		pv(call("getmetatable", v(u))), p(call("setmetatable", v(u), &Table{}), call("rawget", v(u), str("fld"))),
		pv(call("type", v(u)))}
	if has["__tostring"] { // the default text of a userdata holds its address: not compared
		probes = append(probes, pv(call("tostring", v(u))))
	}
	// a random dozen of the probes, in order (every probe is a closure: program size)
	keep := 12
	for i, st := range probes {
		if g.R.Intn(len(probes)-i) < keep {
			out = append(out, st)
			keep--
		}
	}
	return out
}
