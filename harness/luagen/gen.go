package luagen

import (
	"fmt"

	"verifh/lib"
)

// Ty is the generator's static type of an expression/variable; programs are typed by construction
// so that they mostly run to completion, with faults injected on purpose.
type Ty int

const (
	TInt  Ty = iota // integral number
	TNum            // any number (may be fractional, inf, nan)
	TStr            // string
	TBool           // boolean
	TSeq            // table used as a sequence of ints (no holes)
	TRec            // table used as a record {x=int, y=int, s=str}
	TFn             // function (see fnInfo)
	TAny            // anything incl. nil: only emitted, tested, compared with ==, type()
)

type fnInfo struct {
	NParams int
	Vararg  bool
	Rets    []Ty // types of returned values (fixed part)
	RetsVA  bool // additionally returns ... at the end
	Pure    bool
	Method  bool
}

type varInfo struct {
	Name   string
	Ty     Ty
	Fn     *fnInfo
	Global bool
	Field  *Index // if the "variable" is a table field l-value
	FnLvl  int    // function nesting level at which it was declared (for upvalue statistics)
}

// Features are generation weights (0 = never).
type Features struct {
	Funcs, Closures, Meta, Errors, Coroutines, Goto, Strings, Tables, Varargs, MultiAssign, Fenv int
	FaultPct                                                                                     int // chance (percent) that a pcall body gets a deliberate fault
	MaxStmts, MaxDepth                                                                           int
	// BigK: the chunk starts with 260 distinct constants, so every later constant has an index
	// above 255 and cannot be an RK operand (the compiler must load it into a register)
	BigK bool
}

func CoreFeatures() Features {
	return Features{Funcs: 6, Closures: 3, Meta: 1, Errors: 2, Coroutines: 0, Goto: 3, Strings: 5, Tables: 6,
		Varargs: 3, MultiAssign: 6, Fenv: 0, FaultPct: 40, MaxStmts: 40, MaxDepth: 3}
}

type Gen struct {
	R       *lib.Rand
	F       Features
	scopes  [][]*varInfo
	fnLevel int
	nameCtr int
	budget  int
	loops   int // enclosing loops in the current function
	vararg  []bool
	lblCtr  int
	Uses    map[string]int
	noYield int
	inCo    int
	frozen  map[string]int // sequences being iterated: not to be resized
}

func NewGen(r *lib.Rand, f Features) *Gen {
	return &Gen{R: r, F: f, Uses: map[string]int{}, frozen: map[string]int{}}
}

func (g *Gen) use(s string) { g.Uses[s]++ }

func (g *Gen) fresh(p string) string {
	g.nameCtr++
	return fmt.Sprintf("%s%d", p, g.nameCtr)
}

func (g *Gen) push() { g.scopes = append(g.scopes, nil) }
func (g *Gen) pop()  { g.scopes = g.scopes[:len(g.scopes)-1] }
func (g *Gen) declare(v *varInfo) {
	v.FnLvl = g.fnLevel
	g.scopes[len(g.scopes)-1] = append(g.scopes[len(g.scopes)-1], v)
}

// vars returns visible variables of a type (innermost last).
func (g *Gen) vars(t Ty) []*varInfo {
	var out []*varInfo
	seen := map[string]bool{}
	for i := len(g.scopes) - 1; i >= 0; i-- {
		sc := g.scopes[i]
		for j := len(sc) - 1; j >= 0; j-- {
			v := sc[j]
			if seen[v.Name] {
				continue
			}
			seen[v.Name] = true
			if v.Ty == t || (t == TNum && v.Ty == TInt) {
				out = append(out, v)
			}
		}
	}
	return out
}

func (g *Gen) pickVar(t Ty) *varInfo {
	vs := g.vars(t)
	if len(vs) == 0 {
		return nil
	}
	// prefer recent ones but reach outer scopes/upvalues too
	if g.R.Chance(60) {
		return vs[g.R.Intn((len(vs)+1)/2)]
	}
	return vs[g.R.Intn(len(vs))]
}

func (g *Gen) ref(v *varInfo) Expr {
	if v.Field != nil {
		return v.Field
	}
	if v.FnLvl < g.fnLevel && !v.Global {
		g.use("upvalue-ref")
	}
	return &Var{Name: v.Name}
}

func num(v float64) Expr {
	if v < 0 {
		return &Un{Op: "-", A: &Num{V: -v}}
	}
	return &Num{V: v}
}

func str(s string) Expr { return &Str{V: []byte(s)} }

// single truncates a possibly multi-valued expression to one value where the argument count matters.
func single(e Expr) Expr {
	switch e.(type) {
	case *Call, *Meth, *Varargs:
		return &Paren{E: e}
	}
	return e
}

func call(f string, args ...Expr) Expr {
	for i := 0; i < len(f); i++ {
		if f[i] == '.' {
			return &Call{F: &Index{E: &Var{Name: f[:i]}, K: &Str{V: []byte(f[i+1:])}}, Args: args}
		}
	}
	return &Call{F: &Var{Name: f}, Args: args}
}

func emit(args ...Expr) Stmt { return &CallS{E: call("emit", args...)} }

var intPool = []float64{0, 1, 2, 3, 4, 5, 7, 10, 16, 100, 255, 256, 1000, -1, -2, -3, -7, 65536, 9007199254740992}
var fracPool = []float64{0.5, 1.5, 2.25, -0.5, 0.125, 1e15, 3.75}
var words = []string{"", "a", "b", "ab", "abc", "x", "key", "10", "2", "0x10", " 7 ", "hello", "Z", "1e", "-3"}

func (g *Gen) litInt() Expr {
	if g.R.Chance(70) {
		return num(float64(g.R.Range(-4, 12)))
	}
	return num(intPool[g.R.Intn(len(intPool))])
}

// exprInt: integral-valued numeric expression of bounded depth.
func (g *Gen) exprInt(d int) Expr {
	if d <= 0 || g.R.Chance(30) {
		if v := g.pickVar(TInt); v != nil && g.R.Chance(65) {
			return g.ref(v)
		}
		return g.litInt()
	}
	switch g.R.Pick(30, 18, 18, 8, 4, 6, 5, 6, 4, 4, 3) {
	case 0:
		return &Bin{Op: "+", A: g.exprInt(d - 1), B: g.exprInt(d - 1)}
	case 1:
		return &Bin{Op: "-", A: g.exprInt(d - 1), B: g.exprInt(d - 1)}
	case 2:
		return &Bin{Op: "*", A: g.exprInt(d - 1), B: g.smallInt(d - 1)}
	case 3: // modulo by a non-zero constant or guarded variable
		g.use("mod")
		return &Bin{Op: "%", A: g.exprInt(d - 1), B: num(float64([]int{2, 3, 5, 7, -3, 10, 256}[g.R.Intn(7)]))}
	case 4:
		g.use("pow")
		if v := g.pickVar(TInt); v != nil && g.R.Bool() {
			// a run-time power (not folded): small exponent, base reduced so the result stays exact
			g.use("pow-runtime")
			return &Bin{Op: "^", A: &Bin{Op: "%", A: g.ref(v), B: num(7)}, B: num(float64(g.R.Range(0, 3)))}
		}
		return &Bin{Op: "^", A: num(float64(g.R.Range(-3, 4))), B: num(float64(g.R.Range(0, 5)))}
	case 5:
		return &Un{Op: "-", A: g.exprInt(d - 1)}
	case 6:
		if s := g.exprSeqOpt(); s != nil {
			g.use("len-seq")
			return &Un{Op: "#", A: s}
		}
		g.use("len-str")
		return &Un{Op: "#", A: g.exprStr(d - 1)}
	case 7:
		if g.F.Tables > 0 {
			if s := g.pickVar(TRec); s != nil {
				return &Index{E: g.ref(s), K: str([]string{"x", "y"}[g.R.Intn(2)])}
			}
		}
		return g.exprInt(d - 1)
	case 8: // (a and b or c) on ints
		g.use("andor-value")
		return &Or{A: &And{A: g.exprBool(d - 1), B: g.exprInt(d - 1)}, B: g.exprInt(d - 1)}
	case 9:
		if f := g.pickFn(func(fi *fnInfo) bool { return len(fi.Rets) > 0 && fi.Rets[0] == TInt }); f != nil && g.F.Funcs > 0 {
			return g.callExpr(f, d-1)
		}
		return call("math.floor", &Bin{Op: "/", A: g.exprInt(d - 1), B: num(float64([]int{2, 4, 3, 7}[g.R.Intn(4)]))})
	default:
		// string coerced to number in arithmetic (left, right, unary minus; literal and variable)
		g.use("str-arith-coercion")
		lit := str([]string{"10", "2", " 7 ", "0x10", "-3"}[g.R.Intn(5)])
		switch g.R.Intn(4) {
		case 0:
			return &Bin{Op: "+", A: lit, B: g.exprInt(d - 1)}
		case 1:
			return &Bin{Op: []string{"+", "-", "*"}[g.R.Intn(3)], A: g.exprInt(d - 1), B: lit}
		case 2:
			return &Un{Op: "-", A: lit}
		default:
			return &Bin{Op: "*", A: &Paren{E: &Bin{Op: "..", A: num(float64(g.R.Range(1, 9))), B: str("0")}}, B: g.exprInt(d - 1)}
		}
	}
}

func (g *Gen) smallInt(d int) Expr {
	if g.R.Chance(60) {
		return num(float64(g.R.Range(-3, 5)))
	}
	return g.exprInt(d)
}

func (g *Gen) exprNum(d int) Expr {
	if d <= 0 || g.R.Chance(35) {
		if g.R.Chance(50) {
			return g.exprInt(d)
		}
		if v := g.pickVar(TNum); v != nil && g.R.Chance(50) {
			return g.ref(v)
		}
		return num(fracPool[g.R.Intn(len(fracPool))])
	}
	switch g.R.Pick(20, 15, 15, 20, 8, 8) {
	case 0:
		return &Bin{Op: "+", A: g.exprNum(d - 1), B: g.exprNum(d - 1)}
	case 1:
		return &Bin{Op: "-", A: g.exprNum(d - 1), B: g.exprNum(d - 1)}
	case 2:
		return &Bin{Op: "*", A: g.exprNum(d - 1), B: g.exprNum(d - 1)}
	case 3:
		g.use("div")
		return &Bin{Op: "/", A: g.exprNum(d - 1), B: g.exprNum(d - 1)}
	case 4:
		return &Un{Op: "-", A: g.exprNum(d - 1)}
	default:
		return call("math.max", g.exprNum(d-1), g.exprNum(d-1))
	}
}

func (g *Gen) exprStr(d int) Expr {
	if d <= 0 || g.R.Chance(35) {
		if v := g.pickVar(TStr); v != nil && g.R.Chance(60) {
			return g.ref(v)
		}
		if g.R.Chance(8) {
			return &Str{V: g.R.Bytes(g.R.Range(1, 4), nil)}
		}
		return str(words[g.R.Intn(len(words))])
	}
	switch g.R.Pick(30, 15, 10, 10, 10, 10, 8) {
	case 0:
		g.use("concat")
		return &Bin{Op: "..", A: g.exprStr(d - 1), B: g.exprStr(d - 1)}
	case 1:
		g.use("concat-num")
		if g.R.Bool() {
			return &Bin{Op: "..", A: g.exprStr(d - 1), B: g.exprInt(d - 1)}
		}
		return &Bin{Op: "..", A: g.exprInt(d - 1), B: g.exprStr(d - 1)}
	case 2: // three-way concat (right assoc, one CONCAT instruction)
		g.use("concat3")
		return &Bin{Op: "..", A: g.exprStr(d - 1), B: &Bin{Op: "..", A: g.exprInt(d - 1), B: g.exprStr(d - 1)}}
	case 3:
		return call("tostring", g.exprInt(d-1))
	case 4:
		return call("type", g.exprAny(d-1))
	case 5:
		if g.F.Strings > 0 {
			g.use("str-method")
			return &Meth{O: g.strPrefix(d - 1), M: "sub", Args: []Expr{g.smallInt(0), g.smallInt(0)}}
		}
		return g.exprStr(d - 1)
	default:
		if g.F.Strings > 0 {
			return &Meth{O: g.strPrefix(d - 1), M: []string{"upper", "lower"}[g.R.Intn(2)]}
		}
		return g.exprStr(d - 1)
	}
}

func (g *Gen) strPrefix(d int) Expr {
	e := g.exprStr(d)
	switch e.(type) {
	case *Var, *Call, *Meth, *Index:
		return e
	}
	return &Paren{E: e}
}

func (g *Gen) exprBool(d int) Expr {
	if d <= 0 || g.R.Chance(20) {
		if v := g.pickVar(TBool); v != nil && g.R.Chance(60) {
			return g.ref(v)
		}
		if g.R.Chance(30) {
			return []Expr{&True{}, &False{}}[g.R.Intn(2)]
		}
		return &Bin{Op: []string{"<", "<=", ">", ">=", "==", "~="}[g.R.Intn(6)], A: g.exprInt(0), B: g.exprInt(0)}
	}
	switch g.R.Pick(35, 10, 10, 10, 10, 8, 8) {
	case 0:
		g.use("compare-num")
		return &Bin{Op: []string{"<", "<=", ">", ">=", "==", "~="}[g.R.Intn(6)], A: g.exprNum(d - 1), B: g.exprNum(d - 1)}
	case 1:
		g.use("compare-str")
		return &Bin{Op: []string{"<", "<=", ">", ">=", "==", "~="}[g.R.Intn(6)], A: g.exprStr(d - 1), B: g.exprStr(d - 1)}
	case 2:
		return &Un{Op: "not", A: g.exprAny(d - 1)}
	case 3:
		return &And{A: g.exprBool(d - 1), B: g.exprBool(d - 1)}
	case 4:
		return &Or{A: g.exprBool(d - 1), B: g.exprBool(d - 1)}
	case 5: // equality across types is never an error
		g.use("eq-mixed")
		return &Bin{Op: []string{"==", "~="}[g.R.Intn(2)], A: g.exprAny(d - 1), B: g.exprAny(d - 1)}
	default:
		return &Bin{Op: "==", A: call("type", g.exprAny(d-1)), B: str([]string{"number", "string", "nil", "table", "boolean", "function"}[g.R.Intn(6)])}
	}
}

// pickSeqMutable: a sequence variable that is not being iterated right now.
func (g *Gen) pickSeqMutable() *varInfo {
	var c []*varInfo
	for _, v := range g.vars(TSeq) {
		if g.frozen[v.Name] == 0 {
			c = append(c, v)
		}
	}
	if len(c) == 0 {
		return nil
	}
	return c[g.R.Intn(len(c))]
}

func (g *Gen) exprSeqOpt() Expr {
	if v := g.pickVar(TSeq); v != nil {
		return g.ref(v)
	}
	return nil
}

func (g *Gen) exprAny(d int) Expr {
	switch g.R.Pick(20, 15, 10, 8, 8, 12, 10, 6) {
	case 0:
		return g.exprInt(d)
	case 1:
		return g.exprStr(d)
	case 2:
		return g.exprBool(d)
	case 3:
		return &Nil{}
	case 4:
		return g.exprNum(d)
	case 5:
		if v := g.pickVar(TAny); v != nil {
			return g.ref(v)
		}
		return g.exprInt(d)
	case 6: // value-context logical operators over mixed types
		if d > 0 {
			g.use("andor-mixed")
			if g.R.Bool() {
				return &And{A: g.exprAny(d - 1), B: g.exprAny(d - 1)}
			}
			return &Or{A: g.exprAny(d - 1), B: g.exprAny(d - 1)}
		}
		return &Nil{}
	default:
		if s := g.exprSeqOpt(); s != nil { // may be nil when out of range
			return &Index{E: s, K: g.smallInt(0)}
		}
		return &False{}
	}
}

func (g *Gen) exprOf(t Ty, d int) Expr {
	switch t {
	case TInt:
		return g.exprInt(d)
	case TNum:
		return g.exprNum(d)
	case TStr:
		return g.exprStr(d)
	case TBool:
		return g.exprBool(d)
	case TSeq:
		return g.seqCtor(d)
	case TRec:
		return g.recCtor(d)
	}
	return g.exprAny(d)
}

func (g *Gen) seqCtor(d int) Expr {
	g.use("table-ctor-seq")
	n := g.R.Range(0, 5)
	t := &Table{}
	for i := 0; i < n; i++ {
		t.Items = append(t.Items, TItem{Kind: 0, E: g.exprInt(d - 1)})
	}
	if g.R.Chance(20) { // explicit numeric keys continuing the sequence
		t.Items = append(t.Items, TItem{Kind: 2, K: num(float64(n + 1)), E: g.exprInt(0)})
	} else if g.R.Chance(25) && g.F.Funcs > 0 {
		if f := g.pickFn(func(fi *fnInfo) bool { return allInt(fi.Rets) && !fi.RetsVA && len(fi.Rets) > 0 }); f != nil {
			g.use("table-ctor-multi")
			t.Items = append(t.Items, TItem{Kind: 0, E: g.callExpr(f, d-1)})
		}
	} else if len(g.vararg) > 0 && g.vararg[len(g.vararg)-1] && g.R.Chance(0) {
		t.Items = append(t.Items, TItem{Kind: 0, E: &Varargs{}})
	}
	return t
}

func allInt(ts []Ty) bool {
	for _, t := range ts {
		if t != TInt {
			return false
		}
	}
	return true
}

func (g *Gen) recCtor(d int) Expr {
	g.use("table-ctor-rec")
	t := &Table{}
	items := []TItem{{Kind: 1, Name: "x", E: g.exprInt(d - 1)}, {Kind: 1, Name: "y", E: g.exprInt(d - 1)}}
	if g.R.Bool() {
		items[1] = TItem{Kind: 2, K: str("y"), E: g.exprInt(d - 1)}
	}
	items = append(items, TItem{Kind: 1, Name: "s", E: g.exprStr(d - 1)})
	if g.R.Bool() {
		items[0], items[2] = items[2], items[0]
	}
	t.Items = items
	return t
}

func (g *Gen) pickFn(ok func(*fnInfo) bool) *varInfo {
	var c []*varInfo
	for _, v := range g.vars(TFn) {
		if v.Fn != nil && ok(v.Fn) {
			c = append(c, v)
		}
	}
	if len(c) == 0 {
		return nil
	}
	return c[g.R.Intn(len(c))]
}

// callExpr builds a call with an argument count around the parameter count.
func (g *Gen) callExpr(f *varInfo, d int) Expr {
	g.use("call")
	n := f.Fn.NParams
	k := n
	switch g.R.Pick(60, 15, 15, 10) {
	case 1:
		k = n - 1
		g.use("call-fewer-args")
	case 2:
		k = n + 1
		g.use("call-more-args")
	case 3:
		k = n + 2
	}
	if k < 0 {
		k = 0
	}
	args := make([]Expr, k)
	for i := range args {
		args[i] = g.exprInt(d)
	}
	// last argument a multi-value call
	if k > 0 && g.R.Chance(15) {
		if h := g.pickFn(func(fi *fnInfo) bool { return allInt(fi.Rets) && !fi.RetsVA && fi != f.Fn }); h != nil {
			g.use("call-arg-multi")
			args[k-1] = g.callExpr(h, 0)
		}
	}
	if f.Fn.Method && f.Field != nil {
		return &Meth{O: f.Field.E, M: string(f.Field.K.(*Str).V), Args: args}
	}
	return &Call{F: g.ref(f), Args: args}
}

// ---------------------------------------------------------------- statements

func (g *Gen) Program() []Stmt {
	g.budget = g.F.MaxStmts
	g.push()
	g.vararg = append(g.vararg, true)
	body := g.stmts(g.R.Range(g.F.MaxStmts/2, g.F.MaxStmts), 0, true)
	if g.F.BigK {
		g.use("bigk-preamble")
		pad := &Table{}
		npad := g.R.Range(247, 262) // constants of the body then land on both sides of index 255/256
		for i := 0; i < npad; i++ {
			pad.Items = append(pad.Items, TItem{Kind: 0, E: num(float64(100001 + i))})
		}
		body = append([]Stmt{&Local{Names: []string{"pad_"}, Es: []Expr{pad}}, emit(&Un{Op: "#", A: &Var{Name: "pad_"}}, &Index{E: &Var{Name: "pad_"}, K: num(float64(npad - 3))})}, body...)
	}
	// final observation of live variables
	body = append(body, g.dumpVars()...)
	if g.R.Chance(50) {
		body = append(body, &Return{Es: []Expr{g.exprInt(1), g.exprStr(1)}})
	}
	g.pop()
	return body
}

func (g *Gen) dumpVars() []Stmt {
	var out []Stmt
	var args []Expr
	for _, t := range []Ty{TInt, TNum, TStr, TBool, TAny} {
		for _, v := range g.vars(t) {
			args = append(args, g.ref(v))
			if len(args) == 6 {
				out = append(out, emit(args...))
				args = nil
			}
		}
	}
	if len(args) > 0 {
		out = append(out, emit(args...))
	}
	for _, v := range g.vars(TSeq) {
		out = append(out, emit(&Un{Op: "#", A: g.ref(v)}, call("unpack", g.ref(v))))
	}
	for _, v := range g.vars(TRec) {
		out = append(out, emit(&Index{E: g.ref(v), K: str("x")}, &Index{E: g.ref(v), K: str("y")}, &Index{E: g.ref(v), K: str("s")}))
	}
	return out
}

func (g *Gen) stmts(n, depth int, top bool) []Stmt {
	var out []Stmt
	for i := 0; i < n && g.budget > 0; i++ {
		out = append(out, g.stmt(depth)...)
	}
	return out
}

func (g *Gen) block(n, depth int) []Stmt {
	g.push()
	b := g.stmts(n, depth, false)
	g.pop()
	return b
}

func (g *Gen) newLocal(t Ty, d int) []Stmt {
	name := g.fresh([]string{"a", "n", "s", "b", "t", "r", "f", "v"}[int(t)])
	e := g.exprOf(t, d)
	st := &Local{Names: []string{name}, Es: []Expr{e}}
	g.declare(&varInfo{Name: name, Ty: t})
	return []Stmt{st}
}

func (g *Gen) stmt(depth int) []Stmt {
	g.budget--
	d := 2
	if g.R.Chance(25) {
		d = 3
	}
	f := g.F
	deep := depth < f.MaxDepth
	w := []int{
		14,                     // 0 local
		14,                     // 1 assignment
		12,                     // 2 emit
		b2i(deep) * 8,          // 3 if
		b2i(deep) * 5,          // 4 while
		b2i(deep) * 3,          // 5 repeat
		b2i(deep) * 6,          // 6 numeric for
		b2i(deep) * 4 * sgn(f.Tables), // 7 generic for
		b2i(deep) * 2,          // 8 do block
		f.MultiAssign,          // 9 multiple assignment
		f.Tables,               // 10 table ops
		b2i(deep) * f.Funcs,    // 11 function definition
		f.Funcs,                // 12 call statement
		b2i(g.loops > 0) * 3,   // 13 break
		b2i(deep) * f.Goto,     // 14 goto shapes
		b2i(deep) * f.Errors,   // 15 pcall/error
		b2i(deep) * f.Closures, // 16 closure factory
		b2i(deep) * f.Meta,     // 17 metatables
		b2i(deep) * f.Coroutines, // 18 coroutines
		f.Fenv,                 // 19 fenv
		f.Varargs * b2i(deep),  // 20 vararg function
		3,                         // 21 constant folding
		3,                         // 22 comparison contexts
		sgn(f.Tables),             // 23 big table constructor
		b2i(deep) * (1 + f.Closures/3), // 24 deep upvalue / repeat closure
		b2i(deep) * (1 + f.Funcs/4),    // 25 method chain
		b2i(deep) * f.Fenv,        // 26 setfenv level
		b2i(deep) * (f.Errors/2),  // 27 error levels
		2,                         // 28 float for
		b2i(deep) * f.Meta,        // 29 index chain / concat-eq
		b2i(deep) * f.Coroutines,  // 30 coroutine transfer matrix
		b2i(deep) * (f.Closures / 2), // 31 closure scope edge cases
		b2i(deep) * (f.Meta / 3),     // 32 protected metatable with nil
		b2i(depth == 0 && g.loops == 0 && g.fnLevel == 0) * (f.Errors / 3), // 33 pcall at depth (top level only: quadratic)
		b2i(deep) * (f.Coroutines / 3), // 34 go-function coroutine body
		b2i(deep) * (f.Varargs / 3),  // 35 tail calls to vararg functions
		b2i(depth == 0) * 4,          // 36 operand matrix
		b2i(deep) * (1 + f.Funcs/4),  // 37 return (go call)
		b2i(deep) * (f.Varargs / 3),  // 38 arg captured
		b2i(deep) * (f.Closures / 3), // 39 closure identity / nested-block closure
		b2i(deep) * (f.Meta / 3),     // 40 host __call handler / nil-result comparison handlers
		b2i(deep) * (f.Coroutines / 3), // 41 wrap error inside coroutine / dead by fault
		b2i(depth == 0 && g.Uses["constant-index-boundary"] == 0) * 1, // 42 constant index boundary (once per program)
		b2i(deep && g.Uses["w5-c02"] < 2) * (f.Varargs / 3), // 43 (C02 wave 5) table history before unpack / arg table freshness
		b2i(deep && g.loops == 0 && g.Uses["w5-value-list-matrix"]+g.Uses["w5-for-matrix"] == 0) * 1, // 44 (C01 wave 5) value-list contexts / numeric-for operand matrix (once per program)
	}
	switch g.R.Pick(w...) {
	case 0:
		g.use("local")
		if g.R.Chance(20) { // multiple names, possibly fewer/more expressions
			return g.localMulti(d)
		}
		return g.newLocal([]Ty{TInt, TInt, TNum, TStr, TBool, TAny, TSeq, TRec}[g.R.Pick(30, 10, 10, 15, 8, 8, 10*sgn(f.Tables), 6*sgn(f.Tables))], d)
	case 1:
		return g.assign(d)
	case 2:
		g.use("emit")
		n := g.R.Range(1, 4)
		args := make([]Expr, n)
		for i := range args {
			args[i] = g.exprAny(d)
		}
		return []Stmt{emit(args...)}
	case 3:
		g.use("if")
		st := &If{C: g.cond(d), Then: g.block(g.R.Range(1, 3), depth+1)}
		if g.R.Chance(60) {
			st.HasElse = true
			if g.R.Chance(30) { // elseif chain as nested if in else
				g.push()
				st.Else = []Stmt{&If{C: g.cond(d), Then: g.block(g.R.Range(1, 2), depth+2), Else: g.block(1, depth+2), HasElse: true}}
				g.pop()
			} else {
				st.Else = g.block(g.R.Range(1, 3), depth+1)
			}
		}
		return []Stmt{st}
	case 4:
		return g.whileLoop(depth, d)
	case 5:
		return g.repeatLoop(depth, d)
	case 6:
		return g.numFor(depth, d)
	case 7:
		if g.R.Chance(12) {
			return g.genforFalse(d)
		}
		if g.R.Chance(12) {
			return g.genforCompound(d)
		}
		return g.genFor(depth, d)
	case 8:
		g.use("do")
		return []Stmt{&Do{Body: g.block(g.R.Range(1, 3), depth+1)}}
	case 9:
		return g.multiAssign(d)
	case 10:
		return g.tableOp(d)
	case 11:
		return g.funcDef(depth)
	case 12:
		if fv := g.pickFn(func(*fnInfo) bool { return true }); fv != nil {
			g.use("call-stmt")
			return []Stmt{&CallS{E: g.callExpr(fv, 1)}}
		}
		return g.funcDef(depth)
	case 13:
		g.use("break")
		// break must be the last statement of its block: wrap in `if c then break end`
		return []Stmt{&If{C: g.cond(1), Then: []Stmt{&Break{}}}}
	case 14:
		if g.R.Chance(25) {
			return g.gotoBackwardCaptured(d)
		}
		if g.R.Chance(20) {
			return g.lateClosureJump(d)
		}
		return g.gotoShape(depth, d)
	case 15:
		return g.pcallShape(depth, d)
	case 16:
		if g.Uses["w5-c03"] < 2 && g.R.Chance(12) { return g.nestedScopeExit(d) } // wave 5, C03: shapes_w5_c03.go
		return g.closureShape(depth, d)
	case 17:
		return g.metaShape(depth, d)
	case 18:
		return g.coroutineShape(depth, d)
	case 19:
		return g.fenvShape(depth, d)
	case 20:
		return g.varargShape(depth, d)
	case 21:
		return g.foldShape(d)
	case 22:
		return g.compareShape(d)
	case 23:
		return g.bigTable(d)
	case 24:
		if g.R.Bool() {
			return g.deepUpvalue(d)
		}
		return g.repeatClosure(d)
	case 25:
		return g.methodChain(d)
	case 26:
		return g.fenvLevel(d)
	case 27:
		return g.errorLevels(d)
	case 28:
		return g.floatFor(d)
	case 29:
		if g.R.Chance(12) { return g.w5MetaC04(d) } // wave 5, C04: shapes_w5_c04.go
		if g.R.Bool() {
			return g.indexChain(d)
		}
		return g.concatEqMeta(d)
	case 30:
		if g.Uses["w5-co-history"]+g.Uses["w5-co-chain-status"] < 2 && g.R.Chance(40) { return g.coHistory(d) } // wave 5, C06: shapes_w5_c06.go
		return g.coTransfer(d)
	case 31:
		if g.R.Bool() {
			return g.closeBeforeReturn(d)
		}
		return g.untilClosure(d)
	case 32:
		return g.protectNil(d)
	case 33:
		return g.pcallAtDepth(d)
	case 34:
		return g.goBodyCoroutine(d)
	case 35:
		return g.tailVararg(d)
	case 36:
		return g.operandMatrix(d)
	case 37:
		if g.R.Chance(25) {
			return g.goCallHandler(d)
		}
		return g.parenGoCall(d)
	case 38:
		return g.argCaptured(d)
	case 39:
		switch g.R.Intn(3) {
		case 0:
			return g.closureIdentity(d)
		case 1:
			return g.localFuncScope(d)
		}
		return g.nestedBlockClosure(d)
	case 40:
		switch g.R.Intn(7) {
		case 6:
			return g.callableHandlers(d)
		case 4:
			return g.rawsetChain(d)
		case 5:
			return g.xpcallCallable(d)
		case 0:
			return g.goCallHandler(d)
		case 1:
			return g.handlerReinstall(d)
		case 2:
			return g.mixedTypeCompare(d)
		}
		return g.nilCompareHandlers(d)
	case 41:
		if g.R.Bool() {
			return g.wrapErrorInsideCoroutine(d)
		}
		return g.deadByFaultClosure(d)
	case 43:
		return g.w5c02(d)
	case 42:
		return g.constBoundary(d)
	case 44:
		return g.w5c01Shape(d)
	default:
		return g.constBoundary(d)
	}
}

func b2i(b bool) int {
	if b {
		return 1
	}
	return 0
}
func sgn(x int) int {
	if x > 0 {
		return 1
	}
	return 0
}

// cond: a condition in branch context: comparisons, logical operators with constants, truthiness.
func (g *Gen) cond(d int) Expr {
	switch g.R.Pick(50, 15, 10, 10, 8, 7) {
	case 0:
		return g.exprBool(d)
	case 1:
		g.use("cond-truthy-any")
		return g.exprAny(d - 1)
	case 2:
		g.use("cond-and-const")
		return &And{A: g.exprBool(d - 1), B: []Expr{&True{}, &Nil{}, num(0), str("")}[g.R.Intn(4)]}
	case 3:
		g.use("cond-or-const")
		return &Or{A: []Expr{&False{}, &Nil{}}[g.R.Intn(2)], B: g.exprBool(d - 1)}
	case 4:
		return &Un{Op: "not", A: &Paren{E: g.exprBool(d - 1)}}
	default: // comparison chain mixing and/or
		return &Or{A: &And{A: g.exprBool(d - 1), B: g.exprBool(d - 1)}, B: &And{A: g.exprBool(d - 1), B: &Un{Op: "not", A: g.exprBool(d - 1)}}}
	}
}

func (g *Gen) localMulti(d int) []Stmt {
	g.use("local-multi")
	n := g.R.Range(2, 3)
	names := make([]string, n)
	es := []Expr{}
	k := n + g.R.Range(-1, 1)
	for i := 0; i < k; i++ {
		es = append(es, g.exprInt(d-1))
	}
	var lastFn *varInfo
	if g.F.Funcs > 0 && g.R.Chance(30) {
		if f := g.pickFn(func(fi *fnInfo) bool { return allInt(fi.Rets) && !fi.RetsVA }); f != nil && len(es) > 0 {
			es[len(es)-1] = g.callExpr(f, 0)
			lastFn = f
			g.use("local-multi-call")
		}
	}
	for i := range names {
		names[i] = g.fresh("m")
	}
	st := &Local{Names: names, Es: es}
	for i, nm := range names {
		ty := TInt
		// names not covered by an expression (or by call results) may be nil
		covered := i < len(es)
		if lastFn != nil && i >= len(es)-1 {
			covered = i-(len(es)-1) < len(lastFn.Fn.Rets)
		}
		if !covered {
			ty = TAny
		}
		g.declare(&varInfo{Name: nm, Ty: ty})
	}
	return []Stmt{st}
}

// lvalue of a type: local, upvalue, global, record field or sequence element
func (g *Gen) assign(d int) []Stmt {
	g.use("assign")
	t := []Ty{TInt, TInt, TStr, TBool, TNum, TAny}[g.R.Pick(40, 10, 15, 10, 10, 10)]
	switch g.R.Pick(50, 20, 15, 15) {
	case 0:
		if v := g.pickVar(t); v != nil {
			if v.Ty == TInt && t == TNum { // keep ints integral
				t = TInt
			}
			if t == TStr && (g.loops > 0 || g.fnLevel > 0) {
				// no s = s .. s inside loops or functions called from loops: lengths would explode
				return []Stmt{&Assign{LHS: []Expr{g.ref(v)}, Es: []Expr{&Bin{Op: "..", A: str(words[g.R.Intn(len(words))]), B: g.exprInt(1)}}}}
			}
			return []Stmt{&Assign{LHS: []Expr{g.ref(v)}, Es: []Expr{g.exprOf(t, d)}}}
		}
		return g.newLocal(t, d)
	case 1: // global
		g.use("assign-global")
		name := fmt.Sprintf("G%d_%d", int(t), g.R.Intn(3))
		var found *varInfo
		for _, v := range g.vars(t) {
			if v.Name == name {
				found = v
			}
		}
		st := &Assign{LHS: []Expr{&Var{Name: name}}, Es: []Expr{g.exprOf(t, d)}}
		if found == nil {
			// globals live in the outermost scope
			v := &varInfo{Name: name, Ty: t, Global: true}
			g.scopes[0] = append(g.scopes[0], v)
		}
		return []Stmt{st}
	case 2:
		if r := g.pickVar(TRec); r != nil && g.F.Tables > 0 {
			g.use("assign-field")
			if g.R.Bool() {
				return []Stmt{&Assign{LHS: []Expr{&Index{E: g.ref(r), K: str([]string{"x", "y"}[g.R.Intn(2)])}}, Es: []Expr{g.exprInt(d)}}}
			}
			return []Stmt{&Assign{LHS: []Expr{&Index{E: g.ref(r), K: str("s")}}, Es: []Expr{g.exprStr(d)}}}
		}
		return g.newLocal(TRec, d)
	default:
		if s := g.pickSeqMutable(); s != nil && g.F.Tables > 0 {
			g.use("assign-append")
			// append at #s+1 keeps it a sequence
			return []Stmt{&Assign{LHS: []Expr{&Index{E: g.ref(s), K: &Bin{Op: "+", A: &Un{Op: "#", A: g.ref(s)}, B: num(1)}}}, Es: []Expr{g.exprInt(d)}}}
		}
		return g.newLocal(TSeq, d)
	}
}

func (g *Gen) multiAssign(d int) []Stmt {
	vs := g.vars(TInt)
	// distinct non-global-duplicated targets
	var locals []*varInfo
	for _, v := range vs {
		if v.Field == nil {
			locals = append(locals, v)
		}
	}
	if len(locals) < 2 {
		return append(g.newLocal(TInt, 1), g.newLocal(TInt, 1)...)
	}
	a := locals[g.R.Intn(len(locals))]
	b := locals[g.R.Intn(len(locals))]
	for b == a {
		b = locals[g.R.Intn(len(locals))]
	}
	switch g.R.Pick(30, 20, 20, 15, 15, 10, 30) {
	case 6:
		return g.mixedAssign(d)
	case 0:
		g.use("multiassign-swap")
		return []Stmt{&Assign{LHS: []Expr{g.ref(a), g.ref(b)}, Es: []Expr{g.ref(b), g.ref(a)}}, emit(g.ref(a), g.ref(b))}
	case 1:
		g.use("multiassign-rotate-expr")
		return []Stmt{&Assign{LHS: []Expr{g.ref(a), g.ref(b)}, Es: []Expr{&Bin{Op: "+", A: g.ref(b), B: num(1)}, &Bin{Op: "*", A: g.ref(a), B: num(2)}}}, emit(g.ref(a), g.ref(b))}
	case 2:
		if s := g.pickSeqMutable(); s != nil && g.R.Bool() {
			// t[k], k = v, k+1 : the key is evaluated before k is overwritten
			g.use("multiassign-index-then-var")
			tmp := g.fresh("k")
			return []Stmt{
				&Local{Names: []string{tmp}, Es: []Expr{&Bin{Op: "+", A: &Un{Op: "#", A: g.ref(s)}, B: num(1)}}},
				&Assign{LHS: []Expr{&Index{E: g.ref(s), K: &Var{Name: tmp}}, &Var{Name: tmp}}, Es: []Expr{g.exprInt(1), &Bin{Op: "+", A: &Var{Name: tmp}, B: num(1)}}},
				emit(&Var{Name: tmp}, &Un{Op: "#", A: g.ref(s)}),
			}
		}
		if s := g.pickSeqMutable(); s != nil {
			g.use("multiassign-index-and-var")
			// i, t[i] = i+1, v  : the key uses the old i
			tmp := g.fresh("i")
			return []Stmt{
				&Local{Names: []string{tmp}, Es: []Expr{&Bin{Op: "+", A: &Un{Op: "#", A: g.ref(s)}, B: num(1)}}},
				&Assign{LHS: []Expr{&Var{Name: tmp}, &Index{E: g.ref(s), K: &Var{Name: tmp}}}, Es: []Expr{&Bin{Op: "+", A: &Var{Name: tmp}, B: num(1)}, g.exprInt(1)}},
				emit(&Var{Name: tmp}, &Un{Op: "#", A: g.ref(s)}),
			}
		}
		fallthrough
	case 3:
		if r := g.pickVar(TRec); r != nil {
			g.use("multiassign-fields-swap")
			x := &Index{E: g.ref(r), K: str("x")}
			y := &Index{E: g.ref(r), K: str("y")}
			return []Stmt{&Assign{LHS: []Expr{x, y}, Es: []Expr{y, x}}, emit(x, y)}
		}
		fallthrough
	case 5:
		g.use("multiassign-fewer-values")
		t1, t2, t3 := g.fresh("mv"), g.fresh("mv"), g.fresh("mv")
		return []Stmt{&Local{Names: []string{t1, t2, t3}, Es: []Expr{num(1), num(2), num(3)}},
			&Assign{LHS: []Expr{&Var{Name: t1}, &Var{Name: t2}, &Var{Name: t3}}, Es: []Expr{g.exprInt(1)}}, emit(&Var{Name: t1}, &Var{Name: t2}, &Var{Name: t3}),
			&Assign{LHS: []Expr{&Var{Name: t1}}, Es: []Expr{g.exprInt(1), call("emit", str("extra-rhs-evaluated")), g.exprInt(0)}}, emit(&Var{Name: t1})}
	default:
		g.use("multiassign-adjust")
		// more targets than values (nil fill would break int typing): use 3 values for 2 targets or call expansion
		if f := g.pickFn(func(fi *fnInfo) bool { return allInt(fi.Rets) && len(fi.Rets) >= 2 && !fi.RetsVA }); f != nil {
			return []Stmt{&Assign{LHS: []Expr{g.ref(a), g.ref(b)}, Es: []Expr{g.callExpr(f, 0)}}, emit(g.ref(a), g.ref(b))}
		}
		return []Stmt{&Assign{LHS: []Expr{g.ref(a), g.ref(b)}, Es: []Expr{g.exprInt(d), g.exprInt(d), g.exprInt(d)}}}
	}
}

// mixedAssign: one assignment with table-field and local targets whose right-hand sides are the
// same locals (read before any store), a local that is both the table of one target and a target
// itself, and a call on the right that changes a local read earlier in the same list.
func (g *Gen) mixedAssign(d int) []Stmt {
	ma, mb, mt, mu := g.fresh("ma"), g.fresh("mb"), g.fresh("mt"), g.fresh("mu")
	va, vb, vt, vu := &Var{Name: ma}, &Var{Name: mb}, &Var{Name: mt}, &Var{Name: mu}
	pre := []Stmt{&Local{Names: []string{ma, mb}, Es: []Expr{num(float64(1 + g.R.Intn(9))), num(float64(11 + g.R.Intn(9)))}},
		&Local{Names: []string{mt}, Es: []Expr{&Table{}}}, &Local{Names: []string{mu}, Es: []Expr{vt}}}
	fx, fy := &Index{E: vt, K: str("x")}, &Index{E: vt, K: str("y")}
	ux, uy := &Index{E: vu, K: str("x")}, &Index{E: vu, K: str("y")}
	switch g.R.Pick(40, 25, 20, 15) {
	case 0:
		g.use("multiassign-mixed")
		// a random interleaving of field and local targets, each value one of the locals
		targets := []Expr{fx, va, fy, vb}
		if g.R.Bool() {
			targets = []Expr{va, fx, vb, fy}
		}
		n := 2 + g.R.Intn(3)
		for i := len(targets) - 1; i > 0; i-- {
			j := g.R.Intn(i + 1)
			targets[i], targets[j] = targets[j], targets[i]
		}
		targets = targets[:n]
		vals := make([]Expr, n)
		for i := range vals {
			switch g.R.Intn(4) {
			case 0:
				vals[i] = va
			case 1:
				vals[i] = vb
			case 2:
				vals[i] = &Bin{Op: "+", A: []Expr{va, vb}[g.R.Intn(2)], B: num(1)}
			default:
				vals[i] = num(float64(100 + g.R.Intn(9)))
			}
		}
		if g.R.Intn(3) == 0 {
			vals = append(vals, va) // an extra value, evaluated and dropped
		}
		return append(pre, &Assign{LHS: targets, Es: vals}, emit(ux, va, uy, vb))
	case 1:
		g.use("multiassign-table-retargeted")
		// the table of one target is itself assigned by the statement
		var nv Expr = &Nil{}
		if g.R.Bool() {
			nv = &Table{}
		}
		lhs, es := []Expr{fx, vt}, []Expr{va, nv}
		if g.R.Bool() {
			lhs, es = []Expr{vt, fy}, []Expr{nv, vb}
		}
		if g.R.Bool() {
			lhs, es = []Expr{fx, vt, fy}, []Expr{va, nv, vb}
		}
		return append(pre, &Assign{LHS: lhs, Es: es}, emit(ux, uy, &Bin{Op: "==", A: vt, B: vu}))
	case 2:
		g.use("multiassign-call-changes-local")
		mg := g.fresh("mg")
		fn := &LocalFunc{X: mg, F: &Func{Body: []Stmt{
			&Assign{LHS: []Expr{va}, Es: []Expr{&Bin{Op: "+", A: va, B: num(100)}}}, &Return{Es: []Expr{num(2)}}}}}
		lhs := []Expr{fx, fy}
		es := []Expr{va, &Call{F: &Var{Name: mg}}}
		if g.R.Bool() {
			lhs, es = []Expr{fx, vb, fy}, []Expr{va, va, &Call{F: &Var{Name: mg}}}
		}
		return append(pre, fn, &Assign{LHS: lhs, Es: es}, emit(ux, uy, va, vb))
	default:
		g.use("multiassign-key-and-value-local")
		// t[a], a = a, k : key and value are the local the statement overwrites
		return append(pre, &Assign{LHS: []Expr{&Index{E: vt, K: va}, va}, Es: []Expr{va, vb}},
			emit(&Index{E: vu, K: num(1)}, &Un{Op: "#", A: vu}, va))
	}
}

func (g *Gen) tableOp(d int) []Stmt {
	s := g.pickSeqMutable()
	if s == nil {
		if s = g.pickVar(TSeq); s == nil {
			return g.newLocal(TSeq, d)
		}
		g.use("index-read")
		return []Stmt{emit(&Index{E: g.ref(s), K: g.smallInt(0)}, &Un{Op: "#", A: g.ref(s)})}
	}
	switch g.R.Pick(25, 20, 15, 20, 20) {
	case 0:
		g.use("table.insert")
		return []Stmt{&CallS{E: call("table.insert", g.ref(s), single(g.exprInt(d)))}}
	case 1:
		g.use("table.remove")
		return []Stmt{emit(call("table.remove", g.ref(s)))}
	case 2:
		g.use("table.concat")
		return []Stmt{emit(call("table.concat", g.ref(s), str([]string{",", "", "-"}[g.R.Intn(3)])))}
	case 3:
		g.use("unpack")
		return []Stmt{emit(call("unpack", g.ref(s)))}
	default:
		g.use("index-read")
		return []Stmt{emit(&Index{E: g.ref(s), K: g.smallInt(0)}, &Un{Op: "#", A: g.ref(s)})}
	}
}

// bounded loops: every loop carries its own counter
func (g *Gen) whileLoop(depth, d int) []Stmt {
	g.use("while")
	c := g.fresh("w")
	lim := g.R.Range(0, 6)
	g.push()
	g.loops++
	body := []Stmt{&Assign{LHS: []Expr{&Var{Name: c}}, Es: []Expr{&Bin{Op: "+", A: &Var{Name: c}, B: num(1)}}}}
	body = append(body, g.stmts(g.R.Range(1, 3), depth+1, false)...)
	g.loops--
	g.pop()
	var cnd Expr = &Bin{Op: "<", A: &Var{Name: c}, B: num(float64(lim))}
	if g.R.Chance(30) {
		cnd = &And{A: cnd, B: g.exprBool(1)}
	}
	return []Stmt{&Local{Names: []string{c}, Es: []Expr{num(0)}}, &While{C: cnd, Body: body}, emit(&Var{Name: c})}
}

func (g *Gen) repeatLoop(depth, d int) []Stmt {
	g.use("repeat")
	c := g.fresh("q")
	lim := g.R.Range(1, 5)
	g.push()
	g.loops++
	body := []Stmt{&Assign{LHS: []Expr{&Var{Name: c}}, Es: []Expr{&Bin{Op: "+", A: &Var{Name: c}, B: num(1)}}}}
	body = append(body, g.stmts(g.R.Range(1, 2), depth+1, false)...)
	// a local declared in the body is visible in the until condition
	loc := g.fresh("u")
	body = append(body, &Local{Names: []string{loc}, Es: []Expr{&Bin{Op: ">=", A: &Var{Name: c}, B: num(float64(lim))}}})
	g.loops--
	g.pop()
	return []Stmt{&Local{Names: []string{c}, Es: []Expr{num(0)}}, &Repeat{Body: body, C: &Var{Name: loc}}, emit(&Var{Name: c})}
}

func (g *Gen) numFor(depth, d int) []Stmt {
	g.use("numfor")
	x := g.fresh("i")
	st := &NumFor{X: x}
	needGuard := false
	switch g.R.Pick(40, 20, 15, 15, 10, 4) {
	case 5: // a zero step runs the body zero times when init < limit (the test is limit <= index)
		st.A, st.B, st.C = num(float64(g.R.Range(0, 2))), num(float64(g.R.Range(3, 5))), num(0)
		g.use("numfor-zero-step")
	case 0:
		st.A, st.B = num(1), num(float64(g.R.Range(0, 5)))
	case 1:
		st.A, st.B, st.C = num(float64(g.R.Range(3, 6))), num(float64(g.R.Range(0, 2))), num(-1)
		g.use("numfor-negstep")
	case 2:
		st.A, st.B, st.C = num(0), num(2), num(0.5)
		g.use("numfor-fracstep")
	case 3:
		// init reduced to [-500, 499]: with |init| >= 2^53 the interpreter's first index (init-step)+step
		// (as lvm.c) differs from the manual's `var = init` by one ulp (notes/C01.md, wave 5)
		st.A, st.B = bin("-", bin("%", g.exprInt(1), num(1000)), num(500)), &Bin{Op: "+", A: g.exprInt(0), B: num(3)}
		st.C = num(float64([]int{1, 2, 3}[g.R.Intn(3)]))
		needGuard = true
		// bound: loop at most ~ (range) iterations — operands small by construction; guard with break counter
	default:
		st.A, st.B = str("1"), num(3) // 5.1 coerces strings in for
		g.use("numfor-string-operand")
	}
	g.push()
	g.loops++
	ty := TInt
	if st.C != nil {
		if n, ok := st.C.(*Num); ok && n.V != float64(int(n.V)) {
			ty = TNum
		}
	}
	g.declare(&varInfo{Name: x, Ty: ty})
	guard := g.fresh("k")
	body := []Stmt{}
	body = append(body, g.stmts(g.R.Range(1, 3), depth+1, false)...)
	g.loops--
	g.pop()
	_ = guard
	// limit iteration count for the expression-bounded form
	if needGuard {
		cnt := g.fresh("k")
		body = append([]Stmt{&Assign{LHS: []Expr{&Var{Name: cnt}}, Es: []Expr{&Bin{Op: "+", A: &Var{Name: cnt}, B: num(1)}}},
			&If{C: &Bin{Op: ">", A: &Var{Name: cnt}, B: num(8)}, Then: []Stmt{&Break{}}}}, body...)
		st.Body = body
		return []Stmt{&Local{Names: []string{cnt}, Es: []Expr{num(0)}}, st}
	}
	st.Body = body
	return []Stmt{st}
}

func (g *Gen) genFor(depth, d int) []Stmt {
	s := g.pickVar(TSeq)
	if s == nil {
		return g.newLocal(TSeq, d)
	}
	switch g.R.Pick(50, 30, 20) {
	case 0:
		g.use("genfor-ipairs")
		i, v := g.fresh("i"), g.fresh("e")
		g.push()
		g.loops++
		g.frozen[s.Name]++
		g.declare(&varInfo{Name: i, Ty: TInt})
		g.declare(&varInfo{Name: v, Ty: TInt})
		body := g.stmts(g.R.Range(1, 3), depth+1, false)
		g.frozen[s.Name]--
		g.loops--
		g.pop()
		// a function called from the body may grow the table: bound the iteration count
		body = append([]Stmt{&If{C: &Bin{Op: ">", A: &Var{Name: i}, B: num(12)}, Then: []Stmt{&Break{}}}}, body...)
		return []Stmt{&GenFor{Xs: []string{i, v}, Es: []Expr{call("ipairs", g.ref(s))}, Body: body}}
	case 1:
		g.use("genfor-pairs-commutative")
		k, v, acc := g.fresh("k"), g.fresh("e"), g.fresh("acc")
		body := []Stmt{&Assign{LHS: []Expr{&Var{Name: acc}}, Es: []Expr{&Bin{Op: "+", A: &Var{Name: acc}, B: &Bin{Op: "*", A: &Var{Name: k}, B: &Var{Name: v}}}}}}
		return []Stmt{&Local{Names: []string{acc}, Es: []Expr{num(0)}},
			&GenFor{Xs: []string{k, v}, Es: []Expr{call("pairs", g.ref(s))}, Body: body}, emit(&Var{Name: acc})}
	default:
		// custom stateless iterator closure: for i, sq in iter, limit, 0
		g.use("genfor-custom-iterator")
		it, i, v := g.fresh("it"), g.fresh("i"), g.fresh("e")
		itf := &Func{Params: []string{"lim", "c"}, Body: []Stmt{
			&If{C: &Bin{Op: "<", A: &Var{Name: "c"}, B: &Var{Name: "lim"}}, Then: []Stmt{
				&Return{Es: []Expr{&Bin{Op: "+", A: &Var{Name: "c"}, B: num(1)}, &Bin{Op: "*", A: &Var{Name: "c"}, B: &Var{Name: "c"}}}}}}}}
		g.push()
		g.loops++
		g.declare(&varInfo{Name: i, Ty: TInt})
		g.declare(&varInfo{Name: v, Ty: TInt})
		body := g.stmts(g.R.Range(1, 2), depth+1, false)
		g.loops--
		g.pop()
		return []Stmt{&LocalFunc{X: it, F: itf},
			&GenFor{Xs: []string{i, v}, Es: []Expr{&Var{Name: it}, num(float64(g.R.Range(0, 4))), num(0)}, Body: body}}
	}
}
