package luagen

import "verifh/lib"

// Wave-5 shapes of C02 (calls pass/return exactly the prescribed values).
//
// Both shapes attack the same family: what a call passes or receives must depend on the LOGICAL
// content of the objects involved, never on their physical history or on an object shared between
// calls.
//   * tableHistoryCalls — a sequence goes through a history of growth and shrinking (append,
//     table.insert, pop by `t[#t] = nil`, pop by table.remove, far store + delete, clear and refill,
//     growth past the first allocation) and is then spread by unpack in every multi-value position
//     (argument list of Lua / vararg / arg-table / host callees, return list incl. the tail call to the
//     host function, constructor, multiple assignment, pcall) next to the explicit-range forms.
//   * argFreshness — the compatibility `arg` table of every call is a NEW table holding exactly the
//     surplus arguments: callees mutate their own arg table, later calls (same function, other
//     functions, through pcall, a tail call, __call, a method, a coroutine, re-entrantly) with zero
//     and non-zero surplus read theirs, and the identity of the table of two calls is compared.

func lenOf(t string) Expr { return &Un{Op: "#", A: v(t)} }

func at(t string, k Expr) Expr { return &Index{E: v(t), K: k} }

// seqHistory appends to out a random history of t (statically tracked length n) and returns the new
// length. The table is a proper sequence (unique border) whenever it is observed.
func (g *Gen) seqHistory(t string, n int, steps int, forcePop bool) ([]Stmt, int) {
	var out []Stmt
	val := func() Expr { return num(float64(g.R.Range(1, 60))) }
	for i := 0; i < steps; i++ {
		op := g.R.Pick(16, 10, 22, 10, 6, 6, 8, 8, 6, 8)
		if forcePop && i == steps-1 {
			op = 2
		}
		switch op {
		case 0: // append through the length operator
			out = append(out, set(at(t, bin("+", lenOf(t), num(1))), val()))
			n++
		case 1:
			out = append(out, &CallS{E: call("table.insert", v(t), val())})
			n++
		case 2: // the stack-pop idiom: the last element is removed by assignment
			if n == 0 {
				out = append(out, set(at(t, num(1)), val()))
				n = 1
			}
			if g.R.Chance(70) {
				out = append(out, set(at(t, lenOf(t)), &Nil{}))
			} else {
				out = append(out, set(at(t, num(float64(n))), &Nil{}))
			}
			n--
		case 3:
			out = append(out, emit(call("table.remove", v(t))))
			if n > 0 {
				n--
			}
		case 4: // remove the first element (the rest moves down)
			out = append(out, emit(call("table.remove", v(t), num(1))))
			if n > 0 {
				n--
			}
		case 5: // insert at the front
			out = append(out, &CallS{E: call("table.insert", v(t), num(1), val())})
			n++
		case 6: // several pops in a loop
			k := g.R.Range(1, 3)
			if k > n {
				k = n
			}
			if k > 0 {
				x := g.fresh("pi")
				out = append(out, &NumFor{X: x, A: num(1), B: num(float64(k)), Body: []Stmt{set(at(t, lenOf(t)), &Nil{})}})
				n -= k
			}
		case 7: // a store beyond the end and its deletion: cells beyond the border come and go
			far := float64(n + g.R.Range(2, 4))
			out = append(out, set(at(t, num(far)), val()), set(at(t, num(far)), &Nil{}))
		case 8: // growth past the first allocation, then most of it popped again
			k := g.R.Range(30, 40)
			x, y := g.fresh("gi"), g.fresh("gj")
			out = append(out, &NumFor{X: x, A: num(1), B: num(float64(k)), Body: []Stmt{set(at(t, bin("+", lenOf(t), num(1))), bin("*", v(x), num(3)))}},
				&NumFor{X: y, A: num(1), B: num(float64(k - 1)), Body: []Stmt{set(at(t, lenOf(t)), &Nil{})}})
			n++
		default: // emptied completely by assignment
			out = append(out, &While{C: bin(">", lenOf(t), num(0)), Body: []Stmt{set(at(t, lenOf(t)), &Nil{})}})
			n = 0
		}
	}
	return out, n
}

// tableHistoryCalls: see the file comment.
func (g *Gen) tableHistoryCalls(d int) []Stmt {
	g.use("w5-table-history-unpack")
	t := g.fresh("w5h")
	cnt, f3, an, rt, rt2, o := g.fresh("hc"), g.fresh("hf"), g.fresh("ha"), g.fresh("hr"), g.fresh("hq"), g.fresh("ho")
	n := g.R.Range(0, 5)
	ctor := &Table{}
	for i := 0; i < n; i++ {
		ctor.Items = append(ctor.Items, TItem{Kind: 0, E: num(float64(10 * (i + 1)))})
	}
	if n > 0 && g.R.Chance(25) { // a constructor ending in nil: the array part is longer than the sequence
		ctor.Items = append(ctor.Items, TItem{Kind: 0, E: &Nil{}})
	}
	out := []Stmt{local1(t, ctor),
		&LocalFunc{X: cnt, F: &Func{Vararg: true, Body: []Stmt{ret(call("select", str("#"), &Varargs{}), &Paren{E: call("select", num(-1), num(0), &Varargs{})})}}},
		&LocalFunc{X: f3, F: &Func{Params: []string{"a", "b", "c"}, Body: []Stmt{ret(v("c"), v("b"), v("a"))}}},
		&LocalFunc{X: an, F: &Func{Params: []string{"a"}, Vararg: true, Body: []Stmt{ret(idx(v("arg"), "n"), at("arg", idx(v("arg"), "n")))}}},
		&LocalFunc{X: rt, F: &Func{Body: []Stmt{ret(call("unpack", v(t)))}}},
		&LocalFunc{X: rt2, F: &Func{Body: []Stmt{ret(num(7), call("unpack", v(t)))}}},
		local1(o, &Table{}),
		&FuncStmt{Target: v(o), Method: "m", F: &Func{Vararg: true, Body: []Stmt{ret(bin("==", v("self"), v(o)), call("select", str("#"), &Varargs{}))}}},
	}
	up := func() Expr { return call("unpack", v(t)) }
	observe := func() {
		k := g.R.Range(3, 5)
		seen := map[int]bool{}
		for len(seen) < k {
			c := g.R.Intn(16)
			if seen[c] {
				continue
			}
			seen[c] = true
			switch c {
			case 0:
				out = append(out, emit(up()))
			case 1:
				out = append(out, emit(call("select", str("#"), up()), lenOf(t)))
			case 2:
				out = append(out, emit(call(cnt, up())))
			case 3:
				out = append(out, emit(lenOf(t), &Un{Op: "#", A: &Table{Items: []TItem{{Kind: 0, E: up()}}}}, call("select", str("#"), num(0), up())))
			case 4:
				out = append(out, emit(num(0), up()), emit(up(), num(0)))
			case 5:
				out = append(out, emit(call(rt)), emit(call("select", str("#"), call(rt))))
			case 6:
				out = append(out, emit(call("select", str("#"), call(rt2))), emit(call(cnt, call(rt2))))
			case 7:
				out = append(out, emit(call("pcall", v("unpack"), v(t))), emit(call("select", str("#"), call("pcall", v("unpack"), v(t)))))
			case 8: // a host callee that rejects nil arguments
				out = append(out, emit(call("pcall", idx(v("math"), "max"), num(0), up())), emit(call("pcall", idx(v("math"), "min"), num(0), up())))
			case 9:
				out = append(out, &Local{Names: []string{"u1", "u2", "u3", "u4"}, Es: []Expr{up()}}, emit(v("u1"), v("u2"), v("u3"), v("u4")))
			case 10: // the explicit ranges must agree with the short form
				out = append(out, emit(call("select", str("#"), call("unpack", v(t), num(1))), call("select", str("#"), call("unpack", v(t), num(1), lenOf(t))), call("select", str("#"), up())),
					emit(call("unpack", v(t), num(2))))
			case 11:
				out = append(out, emit(call("table.concat", v(t), str(","))))
			case 12:
				x := g.fresh("hn")
				out = append(out, local1(x, num(0)), &GenFor{Xs: []string{"i_", "x_"}, Es: []Expr{call("ipairs", v(t))}, Body: []Stmt{set(v(x), bin("+", v(x), v("x_")))}}, emit(v(x)))
			case 13:
				out = append(out, emit(call(f3, up())), emit(call(an, up())), emit(call(an, num(1), up())))
			case 14:
				out = append(out, emit(&Meth{O: v(o), M: "m", Args: []Expr{up()}}), emit(&Meth{O: v(o), M: "m", Args: []Expr{num(1), up()}}))
			default: // the spread values collected again, and the collected table spread
				x := g.fresh("hk")
				out = append(out, local1(x, &Table{Items: []TItem{{Kind: 0, E: up()}}}), emit(lenOf(x), call("select", str("#"), call("unpack", v(x)))),
					local1(x+"b", &Table{Items: []TItem{{Kind: 0, E: num(5)}, {Kind: 0, E: up()}}}), emit(lenOf(x+"b")))
			}
		}
	}
	h, n2 := g.seqHistory(t, n, g.R.Range(2, 5), g.R.Chance(65))
	out = append(out, h...)
	observe()
	if g.R.Chance(60) { // a second round on the same object
		h, _ = g.seqHistory(t, n2, g.R.Range(1, 4), g.R.Chance(50))
		out = append(out, h...)
		observe()
	}
	return out
}

// argFreshness: see the file comment.
func (g *Gen) argFreshness(d int) []Stmt {
	g.use("w5-arg-table-fresh")
	np := g.R.Intn(3)
	params := []string{"a", "b"}[:np]
	mu, rd, idf, ga := g.fresh("w5a"), g.fresh("w5r"), g.fresh("w5i"), "GA"+g.fresh("")
	n := func() Expr { return idx(v("arg"), "n") }
	var mut []Stmt
	switch g.R.Intn(6) {
	case 0: // the default-argument idiom
		mut = []Stmt{set(at("arg", bin("+", n(), num(1))), str("dflt")), set(n(), bin("+", n(), num(1)))}
	case 1:
		mut = []Stmt{&CallS{E: call("table.insert", v("arg"), num(55))}}
	case 2:
		mut = []Stmt{set(n(), num(99))}
	case 3:
		mut = []Stmt{set(at("arg", num(1)), str("x")), set(at("arg", num(2)), str("y"))}
	case 4:
		mut = []Stmt{set(idx(v("arg"), "extra"), &True{})}
	default: // mutation only on the zero-surplus path
		mut = []Stmt{&If{C: bin("==", n(), num(0)), Then: []Stmt{set(at("arg", num(1)), num(-1)), set(n(), num(1))}}}
	}
	pe := []Expr{}
	for _, p := range params {
		pe = append(pe, v(p))
	}
	body := append([]Stmt{emit(append(pe, n(), at("arg", num(1)), at("arg", num(2)), lenOf("arg"), idx(v("arg"), "extra"))...)}, mut...)
	body = append(body, ret(n(), at("arg", num(1))))
	out := []Stmt{
		&LocalFunc{X: mu, F: &Func{Params: params, Vararg: true, Body: body}},
		&LocalFunc{X: rd, F: &Func{Params: params, Vararg: true, Body: []Stmt{ret(n(), at("arg", num(1)), lenOf("arg"), idx(v("arg"), "extra"))}}},
		// identity: the arg table of a call is none of the tables of earlier calls
		&LocalFunc{X: idf, F: &Func{Vararg: true, Body: []Stmt{local1("same", bin("==", v(ga), v("arg"))), set(v(ga), v("arg")), ret(v("same"), n())}}},
	}
	fixed := func(k int) []Expr { // k arguments for the named parameters only (k <= np: zero surplus)
		as := []Expr{}
		for i := 0; i < k; i++ {
			as = append(as, num(float64(i+1)))
		}
		return as
	}
	withSurplus := func(k int) []Expr {
		as := fixed(np)
		for i := 0; i < k; i++ {
			as = append(as, []Expr{str("s1"), num(8), &True{}, &False{}}[g.R.Intn(4)])
		}
		return as
	}
	args := func() []Expr { // mostly zero surplus (possibly fewer arguments than parameters)
		if g.R.Chance(65) {
			return fixed(g.R.Range(0, np))
		}
		return withSurplus(g.R.Range(1, 3))
	}
	callVia := func(f string, as []Expr) Stmt {
		switch g.R.Pick(30, 14, 12, 10, 10, 8, 8, 8) {
		case 1:
			return emit(call("pcall", append([]Expr{v(f)}, as...)...))
		case 2: // tail call
			return emit(&Call{F: &Paren{E: &Func{Body: []Stmt{ret(&Call{F: v(f), Args: as})}}}})
		case 3: // through __call: the callee's first argument is the called object
			if np > 0 {
				return emit(&Call{F: &Paren{E: call("setmetatable", &Table{}, &Table{Items: []TItem{{Kind: 1, Name: "__call", E: v(f)}}})}, Args: as[:max(0, len(as)-1)]})
			}
		case 4: // method sugar: self is the first named parameter
			if np > 0 {
				return emit(&Meth{O: &Paren{E: &Table{Items: []TItem{{Kind: 1, Name: "m", E: v(f)}}}}, M: "m", Args: as[:max(0, len(as)-1)]})
			}
		case 5: // a coroutine body: its first activation
			return emit(&Call{F: call("coroutine.wrap", v(f)), Args: as})
		case 6: // in the middle of an expression list
			return emit(&Call{F: v(f), Args: as}, num(0))
		case 7: // through unpack of an argument table
			return emit(&Call{F: v(f), Args: []Expr{call("unpack", &Table{Items: func() []TItem {
				it := []TItem{}
				for _, a := range as {
					if _, isNil := a.(*Nil); isNil {
						a = num(0)
					}
					it = append(it, TItem{Kind: 0, E: a})
				}
				return it
			}()})}})
		}
		return emit(&Call{F: v(f), Args: as})
	}
	// step 1: a zero-surplus call that mutates; then a mixed history
	out = append(out, callVia(mu, fixed(g.R.Range(0, np))), callVia(rd, fixed(g.R.Range(0, np))))
	for i, k := 0, g.R.Range(3, 6); i < k; i++ {
		switch g.R.Pick(32, 42, 18, 8) {
		case 0:
			out = append(out, callVia(mu, args()))
		case 1:
			out = append(out, callVia(rd, args()))
		case 3: // the owner fails after writing to its table; the error is caught
			out = append(out, emit(call("pcall", &Func{Vararg: true, Body: []Stmt{set(at("arg", num(1)), str("pe")), set(n(), num(7)), &CallS{E: call("error", &Table{})}}})))
		default:
			out = append(out, emit(call(idf)), emit(call(idf, num(1))), emit(call(idf)))
		}
	}
	if g.R.Chance(40) { // re-entrant: the outer activation's table survives an inner zero-surplus call that mutates its own
		re := g.fresh("ae")
		out = append(out, &LocalFunc{X: re, F: &Func{Params: []string{"k"}, Vararg: true, Body: []Stmt{
			&If{C: bin(">", v("k"), num(0)), Then: []Stmt{emit(call(re, bin("-", v("k"), num(1)))), emit(call(mu))}},
			set(at("arg", bin("+", n(), num(1))), v("k")), ret(v("k"), n(), at("arg", num(1)), lenOf("arg"))}}},
			emit(call(re, num(2))), emit(call(re, num(1), str("s"))), emit(call(re, num(0))))
	}
	out = append(out, emit(call(rd)), emit(call(idf)))
	return out
}

// w5c02 is the entry registered in gen.go (stmt case 43).
func (g *Gen) w5c02(d int) []Stmt {
	g.use("w5-c02")
	if g.R.Chance(55) {
		return g.tableHistoryCalls(d)
	}
	return g.argFreshness(d)
}

// W5C02Program: a program made of the two wave-5 shapes only (a dedicated generation mode of C02, so
// that these histories are not lost when an unrelated construct of a big program leaves the fragment).
func W5C02Program(r *lib.Rand) []Stmt {
	g := NewGen(r, CoreFeatures())
	g.push()
	g.vararg = append(g.vararg, true)
	var body []Stmt
	for i, k := 0, r.Range(2, 3); i < k; i++ {
		if r.Bool() {
			body = append(body, g.tableHistoryCalls(2)...)
		} else {
			body = append(body, g.argFreshness(2)...)
		}
	}
	g.pop()
	return body
}
