package luagen

// Wave-5 shape of C06.
//
// coHistory: ONE long-lived coroutine (made by create or by wrap) whose transfers are interleaved
// with a history on both sides. Its body is a generated sequence of steps: a direct yield of 0..4
// values, a yield tail-called through a vararg helper, a yield some non-tail calls deep, a caught
// error between two yields (pcall inside the coroutine, not across a yield), an inner coroutine
// that is created, sees the outer one as "normal" and dies of an error, an inner wrapped generator
// driven to its end. The resumer's side is a generated sequence too: a direct resume with 0..4
// values, a resume made some non-tail calls deep, and — between the resumes — a caught error of its
// own, another coroutine that dies of an error or of a runtime fault, a wrapped one whose error is
// raised through pcall, a resume of a dead coroutine, status queries. Every result row is emitted
// with its count, and the sequence goes on past the end of the body (return values, then refusals).
// A slip that shows only after an earlier caught error, after a failed resume of another thread or
// at a particular (depth, count) pair changes a row.
func (g *Gen) coHistory(d int) []Stmt {
	if g.R.Chance(30) {
		return g.coChainStatus(d)
	}
	g.use("w5-co-history")
	p := g.fresh("h")
	co, help, dive, rdive, cnt := p+"co", p+"tail", p+"dive", p+"rdive", p+"cnt"
	wrap := g.R.Chance(40)
	vals := func(tag int) []Expr {
		n := g.R.Pick(15, 30, 25, 15, 15)
		out := make([]Expr, n)
		for i := range out {
			switch g.R.Intn(4) {
			case 0:
				out[i] = str("s" + itoa(tag) + itoa(i))
			case 1:
				out[i] = &Nil{}
			default:
				out[i] = num(float64(tag*10 + i))
			}
		}
		return out
	}
	errTable := func(code int) Expr {
		return &Table{Items: []TItem{{Kind: 1, Name: "code", E: num(float64(code))}}}
	}
	// a caught error / a thread that dies, usable on either side
	history := func(tag int, inside bool) []Stmt {
		switch g.R.Intn(6) {
		case 0:
			return []Stmt{&Local{Names: []string{"ok", "e"}, Es: []Expr{call("pcall", v("error"), errTable(tag))}}, emit(str("caught"), v("ok"), idx(v("e"), "code"))}
		case 1:
			return []Stmt{&Local{Names: []string{"ok", "e"}, Es: []Expr{call("coroutine.resume", call("coroutine.create", &Func{Params: []string{"x"}, Body: []Stmt{
				&CallS{E: call("coroutine.yield", v("x"))}, &CallS{E: call("error", errTable(tag))}}}), num(float64(tag)))}},
				emit(str("other-yielded"), v("ok"), v("e"))}
		case 2:
			o := g.fresh("ho")
			var sees Expr = call("coroutine.status", v(co))
			if wrap {
				sees = call("type", v(co))
			}
			return []Stmt{local1(o, call("coroutine.create", &Func{Body: []Stmt{emit(str("other sees"), sees), &CallS{E: call("error", errTable(tag))}}})),
				&Local{Names: []string{"ok", "e"}, Es: []Expr{call("coroutine.resume", v(o))}}, emit(str("other-died"), v("ok"), idx(v("e"), "code"), call("coroutine.status", v(o))),
				emit(call("coroutine.resume", v(o)))}
		case 3:
			return []Stmt{&Local{Names: []string{"ok", "e"}, Es: []Expr{call("pcall", call("coroutine.wrap", &Func{Body: []Stmt{&CallS{E: call("error", errTable(tag))}}}))}},
				emit(str("wrap-died"), v("ok"), idx(v("e"), "code"))}
		case 4:
			return []Stmt{emit(str("fault"), call("coroutine.resume", call("coroutine.create", &Func{Body: []Stmt{local1("z", &Nil{}), ret(idx(v("z"), "f"))}})))}
		default:
			gn := g.fresh("hg")
			return []Stmt{local1(gn, call("coroutine.wrap", &Func{Body: []Stmt{&NumFor{X: "k", A: num(1), B: num(float64(g.R.Range(1, 3))), Body: []Stmt{&CallS{E: call("coroutine.yield", v("k"), str("g"+itoa(tag)))}}}}})),
				&GenFor{Xs: []string{"a", "b"}, Es: []Expr{v(gn)}, Body: []Stmt{emit(str("gen"), v("a"), v("b"))}}, emit(call("pcall", v(gn)))}
		}
	}
	// body of the long-lived coroutine
	nsteps := g.R.Range(2, 5)
	yields := 0
	body := []Stmt{emit(str("start"), call("select", str("#"), &Varargs{}), &Varargs{})}
	for i := 0; i < nsteps; i++ {
		tag := i + 1
		switch g.R.Pick(30, 20, 20, 30) {
		case 0:
			body = append(body, emit(str("y"), call(cnt, call("coroutine.yield", vals(tag)...))))
			yields++
		case 1:
			body = append(body, emit(str("ty"), call(cnt, call(help, vals(tag)...))))
			yields++
		case 2:
			body = append(body, emit(str("dy"), call(cnt, call(dive, append([]Expr{num(float64(g.R.Range(1, 6)))}, vals(tag)...)...))))
			yields++
		default:
			body = append(body, history(tag, true)...)
		}
	}
	if yields == 0 {
		body = append(body, emit(str("y"), call(cnt, call("coroutine.yield", vals(9)...))))
		yields++
	}
	if g.R.Chance(25) {
		body = append(body, &CallS{E: call("error", errTable(77))})
	} else if g.R.Chance(30) {
		body = append(body, ret(call("coroutine.yield", vals(8)...)))
		yields++
	} else {
		body = append(body, ret(append([]Expr{str("fin")}, vals(7)...)...))
	}
	mk := "coroutine.create"
	if wrap {
		mk = "coroutine.wrap"
	}
	// resume expression: plain resume, or a protected call of the wrap function
	resume := func(args []Expr) Expr {
		if wrap {
			return call("pcall", append([]Expr{v(co)}, args...)...)
		}
		return call("coroutine.resume", append([]Expr{v(co)}, args...)...)
	}
	out := []Stmt{
		// cnt: number of values followed by the values
		&LocalFunc{X: cnt, F: &Func{Vararg: true, Body: []Stmt{ret(call("select", str("#"), &Varargs{}), &Varargs{})}}},
		&LocalFunc{X: help, F: &Func{Vararg: true, Body: []Stmt{ret(call("coroutine.yield", &Varargs{}))}}},
		&LocalFunc{X: dive, F: &Func{Params: []string{"n"}, Vararg: true, Body: []Stmt{
			&If{C: bin("==", v("n"), num(0)), Then: []Stmt{ret(call("coroutine.yield", &Varargs{}))}},
			&Local{Names: []string{"a", "b", "c"}, Es: []Expr{call(dive, bin("-", v("n"), num(1)), &Varargs{})}},
			ret(v("a"), v("b"), v("c"))}}},
		&Local{Names: []string{co}},
		&LocalFunc{X: rdive, F: &Func{Params: []string{"n"}, Vararg: true, Body: []Stmt{
			&If{C: bin("==", v("n"), num(0)), Then: []Stmt{ret(resume([]Expr{&Varargs{}}))}},
			&Local{Names: []string{"a", "b", "c", "e"}, Es: []Expr{call(rdive, bin("-", v("n"), num(1)), &Varargs{})}},
			ret(v("a"), v("b"), v("c"), v("e"))}}},
		set(v(co), call(mk, &Func{Vararg: true, Body: body})),
	}
	for i := 0; i < yields+3; i++ {
		tag := 20 + i
		if g.R.Chance(45) {
			out = append(out, history(tag, false)...)
		}
		if g.R.Chance(35) {
			out = append(out, emit(str("rd"), call(cnt, call(rdive, append([]Expr{num(float64(g.R.Range(1, 6)))}, vals(tag)...)...))))
		} else {
			out = append(out, emit(str("r"), call(cnt, resume(vals(tag)))))
		}
		if !wrap && g.R.Chance(40) {
			out = append(out, emit(call("coroutine.status", v(co)), call("coroutine.running")))
		}
	}
	// a block of its own: the helpers and the history locals do not add to the locals of the enclosing function
	return []Stmt{&Do{Body: out}}
}

// coChainStatus: a chain of three or four coroutines nested by resume (main -> c1 -> c2 -> ...);
// every level reports the status of EVERY coroutine of the chain (itself: running, every ancestor,
// direct or not: normal, the ones below: suspended or dead) each time it gains control: on entry,
// after the level below has yielded or returned, after it has been resumed again itself; the
// innermost one also tries to resume its ancestors (refused). The main thread reports between its
// own resumes. A status that is computed from the direct resumer only, or a resume guard that looks
// one level up only, changes a row.
func (g *Gen) coChainStatus(d int) []Stmt {
	g.use("w5-co-chain-status")
	n := g.R.Range(3, 4)
	p := g.fresh("k")
	cs := make([]string, n+1)
	for i := 1; i <= n; i++ {
		cs[i] = p + "c" + itoa(i)
	}
	rep := p + "rep"
	sts := []Expr{v("tag")}
	for i := 1; i <= n; i++ {
		sts = append(sts, call("coroutine.status", v(cs[i])))
	}
	out := []Stmt{&Local{Names: cs[1:]}, &LocalFunc{X: rep, F: &Func{Params: []string{"tag"}, Body: []Stmt{emit(sts...)}}}}
	for i := n; i >= 1; i-- {
		body := []Stmt{&CallS{E: call(rep, str("in"+itoa(i)))}}
		if i < n {
			body = append(body, emit(str("down"+itoa(i)), call("coroutine.resume", v(cs[i+1]), bin("+", v("x"), num(1)))), &CallS{E: call(rep, str("mid"+itoa(i)))})
			if g.R.Chance(60) {
				body = append(body, local1("z", call("coroutine.yield", str("y"+itoa(i)), v("x"))), &CallS{E: call(rep, str("back"+itoa(i)))},
					emit(str("again"+itoa(i)), call("coroutine.resume", v(cs[i+1]), v("z"))), &CallS{E: call(rep, str("end"+itoa(i)))})
			}
		} else {
			for j := 1; j < n; j++ {
				if g.R.Chance(70) {
					body = append(body, emit(str("up"+itoa(j)), call("coroutine.resume", v(cs[j]))))
				}
			}
			body = append(body, emit(str("self"), bin("==", call("coroutine.running"), v(cs[n]))))
			if g.R.Chance(60) {
				body = append(body, local1("z", call("coroutine.yield", str("leaf"), v("x"))), &CallS{E: call(rep, str("leafback"))}, emit(str("leaf got"), v("z")))
			}
		}
		if g.R.Chance(20) {
			body = append(body, &CallS{E: call("error", &Table{Items: []TItem{{Kind: 1, Name: "code", E: num(float64(i))}}})})
		} else {
			body = append(body, ret(str("ret"+itoa(i)), v("x")))
		}
		out = append(out, set(v(cs[i]), call("coroutine.create", &Func{Params: []string{"x"}, Body: body})))
	}
	out = append(out, &CallS{E: call(rep, str("main0"))})
	for t := 1; t <= 3; t++ {
		out = append(out, emit(str("main"), call("coroutine.resume", v(cs[1]), num(float64(10*t)))), &CallS{E: call(rep, str("main"+itoa(t)))})
	}
	return []Stmt{&Do{Body: out}}
}
