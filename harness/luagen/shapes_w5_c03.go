package luagen

import "verifh/lib"

// Wave-5 shapes of C03 (closures keep their captured variables on every exit path).
//
// nestedScopeExit — ONE exit statement leaves SEVERAL nested blocks at once, and more than one of
// the blocks it leaves owns a captured local. The compiler decides what such a jump has to close in
// pieces: a forward goto is revisited every time one of the blocks around it ends
// (ResolveCurrentBlockGotosWithParentBlock lowers the CLOSE register block by block), a break is
// revisited when the blocks it leaves end (resolvePendingBreaks), a backward goto is patched when
// its label is found, return and errors close at run time. The shape therefore draws
//   - the outer loop (numeric for / while with a counter), optionally inside a local function;
//   - 2..4 nested levels (do / if / one-pass numeric for / repeat ... until true), each with or
//     without a captured local (sometimes two) and with or without uncaptured padding locals that
//     shift the registers; the closures of a level increment the captured locals of their own AND of
//     enclosing levels (shared cells);
//   - the exit, taken in one chosen iteration from the innermost level: forward goto to a label
//     after the loop, forward goto to a label at the end of an intermediate level (a multi-level
//     `continue`: the next iteration reuses the registers while the old closures are alive), break,
//     return, error (caught by pcall around the function), or a backward goto to a label in front of
//     the captured local of an intermediate level;
//   - optionally the `late` layout: the closures follow the exit in the text and run before it
//     (reached through a backward goto), so at the exit statement no block is known to be captured;
//   - afterwards fresh locals and a clobber call reuse the registers, every closure is called twice
//     (reads and writes through the cells) and the fresh locals are emitted (a stale open upvalue
//     would overwrite them / read them).
func (g *Gen) nestedScopeExit(d int) []Stmt {
	g.use("w5-c03")
	g.use("w5-nested-scope-exit")
	fs, i, lim := g.fresh("xf"), g.fresh("xi"), float64(g.R.Range(1, 3))
	nlev := g.R.Range(2, 4)
	exit := g.R.Pick(30, 16, 18, 10, 10, 16) // goto out, goto mid (continue), break, return, error, backward goto
	// late: at the exit statement no block is known to be captured yet (decided when the blocks end)
	late := g.R.Chance([]int{35, 35, 45, 15, 15, 30}[exit])
	inFn := exit == 3 || exit == 4 || g.R.Chance(35)
	names := []string{"goto-out", "goto-mid", "break", "return", "error", "goto-back"}
	g.use("w5-nested-exit-" + names[exit])
	if late {
		g.use("w5-nested-exit-late-closure")
	}

	type level struct {
		kind     int // 0 do, 1 if, 2 one-pass for, 3 repeat-until-true
		caps     []string
		padFirst bool
		pad      string
	}
	levels := make([]*level, nlev)
	ncap := 0
	for k := range levels {
		lv := &level{kind: g.R.Pick(35, 30, 20, 15)}
		if exit == 2 && g.R.Chance(70) { // a break is caught by the nearest loop: mostly plain blocks around it
			lv.kind = g.R.Intn(2)
		}
		if g.R.Chance(78) || (k == nlev-1 && ncap < 2) || (k == nlev-2 && ncap < 1) {
			lv.caps = append(lv.caps, g.fresh("xc"))
			if g.R.Chance(20) {
				lv.caps = append(lv.caps, g.fresh("xc"))
			}
			ncap++
		}
		if g.R.Chance(40) {
			lv.pad, lv.padFirst = g.fresh("xp"), g.R.Bool()
		}
		levels[k] = lv
	}
	// the label of a multi-level continue / backward goto sits in the loop body itself (mid = 0) or in
	// the block of levels[mid-1]; the jump leaves levels[mid:] (small mid = many levels left)
	mid := g.R.Pick(40, 30, 20, 10)
	if mid > nlev-1 {
		mid = nlev - 1
	}
	for mid > 0 && levels[mid-1].kind == 3 { // not at the end of a repeat block (the until expression follows)
		mid--
	}
	lOut, lMid, lAgain := g.label(), g.label(), g.label()

	var allCaps []string
	closure := func(vars []string) Stmt {
		body := []Stmt{}
		var sum Expr
		for n, x := range vars {
			body = append(body, set(v(x), bin("+", v(x), num(float64(1+n)))))
			if sum == nil {
				sum = v(x)
			} else {
				sum = bin("+", sum, v(x))
			}
		}
		body = append(body, ret(sum))
		return set(&Index{E: v(fs), K: bin("+", &Un{Op: "#", A: v(fs)}, num(1))}, &Func{Body: body})
	}
	var exitStmt Stmt
	switch exit {
	case 0:
		exitStmt = &Goto{L: lOut}
	case 1, 5:
		exitStmt = &Goto{L: lMid}
	case 2:
		exitStmt = &Break{}
	case 3:
		exitStmt = ret(str("returned"), v(i))
	default:
		exitStmt = &CallS{E: call("error", str("left"))}
	}
	// a backward goto must not spin: it is taken once (the guard is a captured-free flag of the function)
	once := g.fresh("xo")

	// build the levels from the innermost outwards
	var build func(k int) []Stmt
	build = func(k int) []Stmt {
		if k == nlev {
			cond := bin("==", v(i), num(lim))
			if exit == 5 {
				cond = &And{A: cond, B: &Un{Op: "not", A: v(once)}}
			}
			taken := []Stmt{exitStmt}
			if exit == 5 {
				taken = []Stmt{set(v(once), &True{}), exitStmt}
			}
			if late {
				// ::again:: if <closures exist for this pass> then exit end; closures...; goto again
				mark := g.fresh("xm")
				return []Stmt{local1(mark, &False{}), &Label{L: lAgain},
					&If{C: &And{A: v(mark), B: cond}, Then: taken},
					&If{C: &Un{Op: "not", A: v(mark)}, Then: []Stmt{set(v(mark), &True{}), closure(allCaps), &Goto{L: lAgain}}},
					emit(str("passed"), v(i))}
			}
			return []Stmt{&If{C: cond, Then: taken}, emit(str("passed"), v(i))}
		}
		lv := levels[k]
		var b []Stmt
		if lv.pad != "" && lv.padFirst {
			b = append(b, local1(lv.pad, bin("+", v(i), num(float64(7*(k+1))))))
		}
		if exit == 5 && mid == k+1 {
			b = append(b, &Label{L: lMid})
		}
		for n, x := range lv.caps {
			b = append(b, local1(x, bin("+", bin("*", v(i), num(100)), num(float64(10*(k+1)+n)))))
			allCaps = append(allCaps, x)
		}
		if lv.pad != "" && !lv.padFirst {
			b = append(b, local1(lv.pad, bin("+", v(i), num(float64(7*(k+1))))))
		}
		if len(lv.caps) > 0 && !late {
			if g.R.Chance(60) {
				b = append(b, closure(append([]string{}, allCaps...)))
			} else {
				b = append(b, closure(lv.caps))
			}
		}
		saved := len(allCaps)
		b = append(b, build(k+1)...)
		allCaps = allCaps[:saved]
		if lv.pad != "" {
			b = append(b, emit(str("pad"), v(lv.pad)))
		}
		if exit == 1 && mid == k+1 {
			b = append(b, &Label{L: lMid})
		}
		switch lv.kind {
		case 0:
			return []Stmt{&Do{Body: b}}
		case 1:
			return []Stmt{&If{C: bin(">", v(i), num(0)), Then: b}}
		case 2:
			return []Stmt{&NumFor{X: g.fresh("xq"), A: num(1), B: num(1), Body: b}}
		default:
			return []Stmt{&Repeat{Body: b, C: &True{}}}
		}
	}
	body := build(0)
	if exit == 5 && mid == 0 {
		body = append([]Stmt{&Label{L: lMid}}, body...)
	}
	if exit == 1 && mid == 0 {
		body = append(body, &Label{L: lMid})
	}
	var loop []Stmt
	n := float64(g.R.Range(3, 4))
	if g.R.Chance(60) {
		loop = []Stmt{&NumFor{X: i, A: num(1), B: num(n), Body: body}}
	} else {
		c := g.fresh("xw")
		loop = []Stmt{local1(c, num(0)), &While{C: bin("<", v(c), num(n)),
			Body: append([]Stmt{set(v(c), bin("+", v(c), num(1))), local1(i, v(c))}, body...)}}
	}
	r := []string{g.fresh("xr"), g.fresh("xr"), g.fresh("xr"), g.fresh("xr")}
	q := g.fresh("xk")
	reuse := &Local{Names: r, Es: []Expr{num(901), num(902), num(903), num(904)}}
	// fresh nodes for every occurrence (the printer records lines in the nodes)
	readAll := func() Stmt {
		return &NumFor{X: q, A: num(1), B: &Un{Op: "#", A: v(fs)}, Body: []Stmt{emit(v(q), &Call{F: &Index{E: v(fs), K: v(q)}}, &Call{F: &Index{E: v(fs), K: v(q)}})}}
	}
	showReuse := func() Stmt { return emit(v(r[0]), v(r[1]), v(r[2]), v(r[3])) }
	core := append([]Stmt{local1(once, &False{})}, loop...)
	if exit == 0 {
		core = append(core, &Label{L: lOut})
	}
	if !inFn {
		out := []Stmt{local1(fs, &Table{})}
		out = append(out, core...)
		out = append(out, reuse, readAll(), showReuse(), g.clobber(), readAll(), showReuse())
		return []Stmt{&Do{Body: out}}
	}
	fn := g.fresh("xs")
	// inside the function: the registers are reused by fresh locals before it returns, then the
	// frame is gone and a clobber call runs over the same registers
	fbody := append([]Stmt{}, core...)
	if exit != 3 && exit != 4 && g.R.Bool() {
		fbody = append(fbody, reuse, readAll(), showReuse())
	}
	fbody = append(fbody, ret(str("end")))
	prot := exit == 4 || g.R.Chance(25)
	callIt := func() Stmt {
		if prot {
			return emit(call("pcall", v(fn)))
		}
		return emit(call(fn))
	}
	return []Stmt{&Do{Body: []Stmt{local1(fs, &Table{}), &LocalFunc{X: fn, F: &Func{Body: fbody}}, callIt(), g.clobber(), readAll(), callIt(), readAll()}}}
}

// W5C03Program is the generator of cmd/c03's dedicated mode: a small program (a few locals that
// shift the registers, one or two nestedScopeExit instances, the final dump of the locals).
func W5C03Program(r *lib.Rand) []Stmt {
	g := NewGen(r, CoreFeatures())
	g.budget = 8
	g.push()
	g.vararg = append(g.vararg, true)
	var body []Stmt
	for n := r.Intn(3); n > 0; n-- {
		body = append(body, g.newLocal(TInt, 2)...)
	}
	body = append(body, g.nestedScopeExit(2)...)
	if r.Chance(35) {
		body = append(body, g.nestedScopeExit(2)...)
	}
	body = append(body, g.dumpVars()...)
	g.pop()
	return body
}
