package luagen

// Statement shapes that exercise functions, varargs, goto, protected calls, closures,
// metatables, coroutines and environments. Each returns a small self-observing fragment.

func v(n string) Expr { return &Var{Name: n} }

func bin(op string, a, b Expr) Expr { return &Bin{Op: op, A: a, B: b} }

func idx(e Expr, k string) Expr { return &Index{E: e, K: str(k)} }

func local1(n string, e Expr) Stmt { return &Local{Names: []string{n}, Es: []Expr{e}} }

func set(l, e Expr) Stmt { return &Assign{LHS: []Expr{l}, Es: []Expr{e}} }

func ret(es ...Expr) Stmt { return &Return{Es: es} }

// enterFn/leaveFn bracket the generation of a function body.
func (g *Gen) enterFn(vararg bool) (savedLoops int) {
	g.push()
	g.fnLevel++
	savedLoops = g.loops
	g.loops = 0
	g.vararg = append(g.vararg, vararg)
	return
}

func (g *Gen) leaveFn(savedLoops int) {
	g.vararg = g.vararg[:len(g.vararg)-1]
	g.loops = savedLoops
	g.fnLevel--
	g.pop()
}

// funcDef: a function with np parameters observed on entry, defaulted, used, returning k ints.
func (g *Gen) funcDef(depth int) []Stmt {
	g.use("funcdef")
	np := g.R.Range(0, 3)
	nret := g.R.Pick(15, 40, 30, 15)
	params := make([]string, np)
	for i := range params {
		params[i] = g.fresh("p")
	}
	fi := &fnInfo{NParams: np}
	for i := 0; i < nret; i++ {
		fi.Rets = append(fi.Rets, TInt)
	}
	sl := g.enterFn(false)
	body := []Stmt{}
	if np > 0 {
		args := make([]Expr, np)
		for i, p := range params {
			args[i] = v(p)
		}
		body = append(body, emit(args...))
	}
	for _, p := range params {
		q := g.fresh("q")
		body = append(body, local1(q, &Or{A: v(p), B: g.litInt()}))
		g.declare(&varInfo{Name: q, Ty: TInt})
	}
	saveBudget := g.budget
	if g.budget > 6 {
		g.budget = 6
	}
	body = append(body, g.stmts(g.R.Range(1, 4), depth+1, false)...)
	g.budget = saveBudget - 3
	if nret > 0 && g.R.Chance(30) { // early return
		early := make([]Expr, nret)
		for i := range early {
			early[i] = g.exprInt(1)
		}
		body = append(body, &If{C: g.cond(1), Then: []Stmt{&Return{Es: early}}})
	}
	rets := make([]Expr, nret)
	for i := range rets {
		rets[i] = g.exprInt(2)
	}
	if nret > 0 && g.R.Chance(35) {
		// return bare locals that have live neighbours in the following registers: a caller asking
		// for more values than returned must get nil, not the neighbour
		g.use("return-bare-locals")
		names := make([]string, nret+1)
		vals := make([]Expr, nret+1)
		for i := range names {
			names[i] = g.fresh("rv")
			vals[i] = g.exprInt(1)
		}
		body = append(body, &Local{Names: names, Es: vals})
		for i := range rets {
			rets[i] = v(names[i])
		}
	}
	if nret > 0 || g.R.Bool() {
		body = append(body, &Return{Es: rets})
	}
	g.leaveFn(sl)
	f := &Func{Params: params, Body: body}
	name := g.fresh("f")
	vi := &varInfo{Name: name, Ty: TFn, Fn: fi}
	switch g.R.Pick(40, 25, 15, 20) {
	case 0:
		g.declare(vi)
		return []Stmt{&LocalFunc{X: name, F: f}}
	case 1:
		g.use("funcdef-local-assign")
		g.declare(vi)
		return []Stmt{&Local{Names: []string{name}, Es: []Expr{f}}}
	case 2:
		g.use("funcdef-global")
		vi.Global = true
		vi.Name = "F" + name
		g.scopes[0] = append(g.scopes[0], vi)
		return []Stmt{&FuncStmt{Target: v(vi.Name), F: f}}
	default:
		// method on a fresh object: function T:m(p...) ; called as T:m(args)
		g.use("funcdef-method")
		tn := g.fresh("o")
		vi.Fn.Method = true
		vi.Field = &Index{E: v(tn), K: str("m")}
		vi.Name = tn + ".m"
		// the body may use self.k
		f.Body = append([]Stmt{emit(bin("==", v("self"), v(tn)))}, f.Body...)
		g.declare(&varInfo{Name: tn, Ty: TAny})
		g.declare(vi)
		return []Stmt{local1(tn, &Table{Items: []TItem{{Kind: 1, Name: "k", E: g.litInt()}}}),
			&FuncStmt{Target: v(tn), Method: "m", F: f}}
	}
}

// varargShape: functions using `...` in every position.
func (g *Gen) varargShape(depth, d int) []Stmt {
	g.use("vararg")
	name := g.fresh("va")
	var body []Stmt
	fi := &fnInfo{NParams: g.R.Range(0, 2), Vararg: true}
	params := make([]string, fi.NParams)
	for i := range params {
		params[i] = g.fresh("p")
	}
	noNil := false
	pe := make([]Expr, 0, 4)
	for _, p := range params {
		pe = append(pe, v(p))
	}
	switch g.R.Pick(20, 15, 15, 15, 10, 15, 10) {
	case 0: // count and forward
		body = []Stmt{emit(append(pe, call("select", str("#"), &Varargs{}), &Varargs{})...), ret(call("select", str("#"), &Varargs{}))}
		fi.Rets = []Ty{TInt}
	case 1: // local a, b = ...
		body = []Stmt{&Local{Names: []string{"x1", "x2"}, Es: []Expr{&Varargs{}}}, emit(v("x1"), v("x2")), ret(&Varargs{})}
		fi.RetsVA = true
	case 2: // table from varargs, middle position truncation
		noNil = true // #t of a table with holes has no unique value
		body = []Stmt{local1("t", &Table{Items: []TItem{{Kind: 0, E: &Varargs{}}, {Kind: 0, E: num(99)}}}),
			local1("u", &Table{Items: []TItem{{Kind: 0, E: num(98)}, {Kind: 0, E: &Varargs{}}}}),
			emit(&Un{Op: "#", A: v("t")}, &Un{Op: "#", A: v("u")}), ret(&Paren{E: &Varargs{}})}
		fi.Rets = []Ty{TAny}
	case 3: // select with index, negative index
		body = []Stmt{emit(call("select", num(2), &Varargs{})), emit(call("select", num(-1), &Varargs{})), ret(call("select", num(1), &Varargs{}))}
		fi.RetsVA = true
	case 4: // compat arg table (function does not use ...)
		g.use("vararg-arg-table")
		body = []Stmt{emit(idx(v("arg"), "n"), &Index{E: v("arg"), K: num(1)}, &Index{E: v("arg"), K: num(2)}), ret(idx(v("arg"), "n"))}
		fi.Rets = []Ty{TInt}
	case 5: // pass through to another function, with and without trailing value
		body = []Stmt{emit(call("select", str("#"), &Varargs{}, num(1))), emit(call("select", str("#"), num(1), &Varargs{})),
			ret(call("unpack", &Table{Items: []TItem{{Kind: 0, E: &Varargs{}}}}))}
		fi.RetsVA = true
	default: // vararg in binary expression (first value) and as call argument list
		body = []Stmt{local1("s", bin("+", &Paren{E: &Or{A: &Paren{E: &Varargs{}}, B: num(0)}}, num(1))), emit(v("s")), ret(v("s"), &Varargs{})}
		fi.Rets = []Ty{TInt}
		fi.RetsVA = true
	}
	f := &Func{Params: params, Vararg: true, Body: body}
	vi := &varInfo{Name: name, Ty: TFn, Fn: fi}
	g.declare(vi)
	out := []Stmt{&LocalFunc{X: name, F: f}}
	// a few calls with 0..4 arguments in different result contexts
	for i := 0; i < g.R.Range(1, 3); i++ {
		k := g.R.Range(0, 4)
		args := make([]Expr, k)
		for j := range args {
			args[j] = g.exprInt(1)
		}
		if k > 0 && g.R.Chance(25) && !noNil {
			args[k-1] = &Nil{}
		}
		c := &Call{F: v(name), Args: args}
		switch g.R.Pick(30, 20, 20, 15, 15) {
		case 0:
			out = append(out, emit(c))
		case 1:
			out = append(out, emit(c, num(7))) // middle: one value
		case 2:
			out = append(out, emit(&Paren{E: c}))
		case 3:
			out = append(out, emit(&Un{Op: "#", A: &Table{Items: []TItem{{Kind: 0, E: c}}}}))
		default:
			out = append(out, &CallS{E: c})
		}
	}
	return out
}

func (g *Gen) label() string {
	g.lblCtr++
	return "L" + string(rune('a'+g.lblCtr%26)) + itoa(g.lblCtr)
}

func itoa(i int) string {
	if i == 0 {
		return "0"
	}
	s := ""
	for i > 0 {
		s = string(rune('0'+i%10)) + s
		i /= 10
	}
	return s
}

func (g *Gen) gotoShape(depth, d int) []Stmt {
	g.use("goto")
	switch g.R.Pick(30, 25, 25, 20) {
	case 0: // continue idiom
		g.use("goto-continue")
		i, l := g.fresh("i"), g.label()
		g.push()
		g.loops++
		g.declare(&varInfo{Name: i, Ty: TInt})
		inner := g.stmts(g.R.Range(1, 2), depth+1, false)
		g.loops--
		g.pop()
		body := []Stmt{&If{C: bin("==", bin("%", v(i), num(2)), num(float64(g.R.Intn(2)))), Then: []Stmt{&Goto{L: l}}}}
		// statements after a goto-skipped region must not declare locals at this level: wrap
		body = append(body, &Do{Body: inner}, &Label{L: l})
		return []Stmt{&NumFor{X: i, A: num(1), B: num(float64(g.R.Range(2, 5))), Body: body}}
	case 1: // backward goto loop
		g.use("goto-backward")
		c, l := g.fresh("c"), g.label()
		g.push()
		inner := g.stmts(g.R.Range(1, 2), depth+1, false)
		g.pop()
		return []Stmt{local1(c, num(0)), &Label{L: l}, set(v(c), bin("+", v(c), num(1))), &Do{Body: inner},
			&If{C: bin("<", v(c), num(float64(g.R.Range(1, 4)))), Then: []Stmt{&Goto{L: l}}}, emit(v(c))}
	case 2: // forward goto out of nested loops
		g.use("goto-out-of-loops")
		i, j, l, acc := g.fresh("i"), g.fresh("j"), g.label(), g.fresh("acc")
		return []Stmt{local1(acc, num(0)),
			&Do{Body: []Stmt{
				&NumFor{X: i, A: num(1), B: num(3), Body: []Stmt{
					&NumFor{X: j, A: num(1), B: num(3), Body: []Stmt{
						set(v(acc), bin("+", v(acc), bin("*", v(i), v(j)))),
						&If{C: bin(">", v(acc), num(float64(g.R.Range(1, 12)))), Then: []Stmt{&Goto{L: l}}}}}}},
				&Label{L: l}}},
			emit(v(acc))}
	default: // forward skip in the same block
		g.use("goto-skip")
		l := g.label()
		g.push()
		inner := g.stmts(g.R.Range(1, 2), depth+1, false)
		g.pop()
		return []Stmt{&Do{Body: []Stmt{&If{C: g.cond(1), Then: []Stmt{&Goto{L: l}}}, &Do{Body: inner}, emit(str("not skipped")), &Label{L: l}}}}
	}
}

// faultStmt: a statement that raises when executed.
func (g *Gen) faultStmt() []Stmt {
	z := g.fresh("z")
	switch g.R.Pick(20, 8, 8, 8, 10, 8, 8, 8, 6, 6, 5, 5, 6, 5, 5) {
	case 14: // numeric for with a non-numeric operand
		g.use("fault-for-operand")
		ops := []Expr{num(1), num(2), num(1)}
		ops[g.R.Intn(3)] = []Expr{&Table{}, str("x"), &Nil{}, &True{}}[g.R.Intn(4)]
		return []Stmt{&NumFor{X: z, A: ops[0], B: ops[1], C: ops[2], Body: []Stmt{emit(v(z))}}}
	case 12: // the failing host function is reached through an unnamed callee (t[i](...))
		g.use("fault-indexed-builtin")
		if g.R.Bool() {
			return []Stmt{local1(z, &Table{Items: []TItem{{Kind: 0, E: v("error")}, {Kind: 0, E: v("setmetatable")}}}), &CallS{E: &Call{F: &Index{E: v(z), K: num(1)}, Args: []Expr{&Table{Items: []TItem{{Kind: 1, Name: "code", E: g.litInt()}}}}}}}
		}
		return []Stmt{local1(z, &Table{Items: []TItem{{Kind: 0, E: v("error")}, {Kind: 0, E: v("setmetatable")}}}), &CallS{E: &Call{F: &Index{E: v(z), K: num(2)}, Args: []Expr{num(1), &Table{}}}}}
	case 13: // error inside a wrapped coroutine called anonymously
		g.use("fault-in-wrap-call")
		return []Stmt{&CallS{E: &Call{F: call("coroutine.wrap", &Func{Body: []Stmt{&CallS{E: call("error", &Table{Items: []TItem{{Kind: 1, Name: "code", E: g.litInt()}}})}}})}}}
	case 0:
		g.use("fault-error-string")
		return []Stmt{&CallS{E: call("error", str([]string{"boom", "bad", "", "50% off", "%d%s %x", "100%"}[g.R.Intn(6)]))}}
	case 1:
		g.use("fault-error-level0")
		return []Stmt{&CallS{E: call("error", str("lvl0"), num(0))}}
	case 2:
		g.use("fault-error-table")
		return []Stmt{&CallS{E: call("error", &Table{Items: []TItem{{Kind: 1, Name: "code", E: g.litInt()}}})}}
	case 3:
		g.use("fault-error-nil")
		return []Stmt{&CallS{E: call("error")}}
	case 4:
		g.use("fault-index-nil")
		return []Stmt{local1(z, &Nil{}), emit(idx(v(z), "x"))}
	case 5:
		g.use("fault-newindex-nil")
		return []Stmt{local1(z, &Nil{}), set(idx(v(z), "x"), num(1))}
	case 6:
		g.use("fault-call-nil")
		return []Stmt{local1(z, &Nil{}), &CallS{E: &Call{F: v(z)}}}
	case 7:
		g.use("fault-arith")
		return []Stmt{local1(z, []Expr{&Nil{}, &Table{}, str("abc"), &True{}}[g.R.Intn(4)]), emit(bin([]string{"+", "-", "*", "/"}[g.R.Intn(4)], v(z), num(1)))}
	case 8:
		g.use("fault-compare")
		return []Stmt{local1(z, []Expr{&Nil{}, &Table{}, str("abc")}[g.R.Intn(3)]), emit(bin([]string{"<", "<=", ">"}[g.R.Intn(3)], v(z), num(1)))}
	case 9:
		g.use("fault-concat")
		return []Stmt{local1(z, []Expr{&Nil{}, &Table{}, &True{}}[g.R.Intn(3)]), emit(bin("..", str("a"), v(z)))}
	case 10:
		g.use("fault-assert")
		if g.R.Bool() {
			return []Stmt{&CallS{E: call("assert", &False{}, str("assert msg"))}}
		}
		return []Stmt{&CallS{E: call("assert", &Nil{})}}
	default:
		g.use("fault-error-bool")
		return []Stmt{&CallS{E: call("error", &True{})}}
	}
}

func (g *Gen) pcallShape(depth, d int) []Stmt {
	g.use("pcall")
	sl := g.enterFn(false)
	saveBudget := g.budget
	if g.budget > 5 {
		g.budget = 5
	}
	body := g.stmts(g.R.Range(0, 2), depth+1, false)
	faulted := false
	if g.R.Chance(g.F.FaultPct) {
		faulted = true
		if g.R.Chance(30) { // fault inside a nested call
			in := g.fresh("inner")
			body = append(body, &LocalFunc{X: in, F: &Func{Body: g.faultStmt()}}, &CallS{E: &Call{F: v(in)}})
			g.use("fault-in-nested-call")
		} else {
			body = append(body, g.faultStmt()...)
		}
		body = append(body, emit(str("unreachable")))
	} else {
		body = append(body, g.stmts(g.R.Range(0, 1), depth+1, false)...)
		body = append(body, ret(g.exprInt(1), g.exprStr(1)))
	}
	g.budget = saveBudget - 2
	g.leaveFn(sl)
	_ = faulted
	ok, e, e2 := g.fresh("ok"), g.fresh("e"), g.fresh("r")
	f := &Func{Body: body}
	obs := []Stmt{emit(v(ok), call("type", v(e))),
		&If{C: bin("==", call("type", v(e)), str("table")), Then: []Stmt{emit(idx(v(e), "code"))}, Else: []Stmt{emit(v(e), v(e2))}, HasElse: true}}
	g.declare(&varInfo{Name: ok, Ty: TBool})
	switch g.R.Pick(55, 30, 15, 10) {
	case 0:
		return append([]Stmt{&Local{Names: []string{ok, e, e2}, Es: []Expr{call("pcall", f)}}}, obs...)
	case 1:
		g.use("xpcall")
		h := &Func{Params: []string{"m"}, Body: []Stmt{emit(str("handler"), call("type", v("m"))), ret(v("m"))}}
		return append([]Stmt{&Local{Names: []string{ok, e, e2}, Es: []Expr{call("xpcall", f, h)}}}, obs...)
	case 3: // host-side call of a vararg function with fewer arguments than named parameters
		g.use("pcall-vararg-callee")
		// a fresh AST node per use: the printer records line numbers in the nodes
		vf := func() Expr {
			return &Func{Params: []string{"pa", "pb", "pc"}, Vararg: true, Body: []Stmt{emit(v("pa"), v("pb"), v("pc"), call("select", str("#"), &Varargs{})), ret(v("pc"), &Varargs{})}}
		}
		return []Stmt{emit(call("pcall", vf())), emit(call("pcall", vf(), num(1))), emit(call("pcall", vf(), num(1), num(2), num(3), num(4), num(5))),
			emit(call("xpcall", &Func{Vararg: true, Body: []Stmt{ret(call("select", str("#"), &Varargs{}))}}, v("type"))),
			emit(call("coroutine.resume", call("coroutine.create", vf()), num(9)))}
	default: // nested pcall: inner catches, outer sees success
		g.use("pcall-nested")
		outer := &Func{Body: []Stmt{&Local{Names: []string{"iok", "ie"}, Es: []Expr{call("pcall", f)}}, emit(str("inner"), v("iok")), ret(v("iok"), v("ie"))}}
		return append([]Stmt{&Local{Names: []string{ok, e, e2}, Es: []Expr{call("pcall", outer)}}}, emit(v(ok), call("type", v(e)), call("type", v(e2))))
	}
}

func (g *Gen) closureShape(depth, d int) []Stmt {
	g.use("closure")
	switch g.R.Pick(20, 20, 15, 15, 15, 15, 8) {
	case 0: // counter factory, two independent instances
		g.use("closure-counter")
		mk, c1, c2 := g.fresh("mk"), g.fresh("c"), g.fresh("c")
		f := &Func{Params: []string{"st"}, Body: []Stmt{local1("cnt", &Or{A: v("st"), B: num(0)}),
			ret(&Func{Body: []Stmt{set(v("cnt"), bin("+", v("cnt"), num(1))), ret(v("cnt"))}})}}
		return []Stmt{&LocalFunc{X: mk, F: f}, &Local{Names: []string{c1, c2}, Es: []Expr{call(mk, g.litInt()), call(mk)}},
			emit(call(c1), call(c1), call(c2), call(c1))}
	case 1: // closures in a numeric for capturing the loop variable and a per-iteration local
		g.use("closure-in-for")
		fs, i, j := g.fresh("fs"), g.fresh("i"), g.fresh("j")
		body := []Stmt{local1(j, bin("*", v(i), num(10))),
			set(&Index{E: v(fs), K: v(i)}, &Func{Body: []Stmt{set(v(j), bin("+", v(j), num(1))), ret(bin("+", v(i), v(j)))}})}
		if g.R.Chance(40) {
			body = append(body, &If{C: bin("==", v(i), num(2)), Then: []Stmt{&Break{}}})
			g.use("closure-for-break")
		}
		return []Stmt{local1(fs, &Table{}), &NumFor{X: i, A: num(1), B: num(3), Body: body},
			emit(&Call{F: &Index{E: v(fs), K: num(1)}}, &Call{F: &Index{E: v(fs), K: num(2)}}, &Call{F: &Index{E: v(fs), K: num(1)}})}
	case 2: // getter/setter sharing one upvalue; block exit by fall-through
		g.use("closure-shared")
		get, st := g.fresh("get"), g.fresh("set")
		return []Stmt{&Local{Names: []string{get, st}},
			&Do{Body: []Stmt{local1("shared", g.litInt()),
				set(v(get), &Func{Body: []Stmt{ret(v("shared"))}}),
				set(v(st), &Func{Params: []string{"x"}, Body: []Stmt{set(v("shared"), v("x"))}})}},
			g.clobber(), emit(call(get)), &CallS{E: call(st, g.litInt())}, emit(call(get))}
	case 3: // closure created in while loop, scope left by break; then registers are reused
		g.use("closure-while-break")
		f, k := g.fresh("fn"), g.fresh("k")
		return []Stmt{&Local{Names: []string{f}}, local1(k, num(0)),
			&While{C: &True{}, Body: []Stmt{set(v(k), bin("+", v(k), num(1))), local1("cap", bin("*", v(k), num(100))),
				set(v(f), &Func{Body: []Stmt{set(v("cap"), bin("+", v("cap"), num(1))), ret(v("cap"))}}),
				&If{C: bin(">=", v(k), num(float64(g.R.Range(1, 3)))), Then: []Stmt{&Break{}}}}},
			g.clobber(), emit(call(f), call(f))}
	case 4: // upvalue through two function levels, scope left by return
		g.use("closure-two-level")
		outer, h := g.fresh("outer"), g.fresh("h")
		return []Stmt{&LocalFunc{X: outer, F: &Func{Params: []string{"a"}, Body: []Stmt{
			local1("b", bin("+", v("a"), num(1))),
			ret(&Func{Body: []Stmt{ret(&Func{Body: []Stmt{set(v("a"), bin("+", v("a"), num(1))), set(v("b"), bin("*", v("b"), num(2))), ret(v("a"), v("b"))}})}})}}},
			local1(h, &Call{F: call(outer, g.litInt())}), g.clobber(), emit(call(h)), emit(call(h))}
	case 6: // the message handler itself fails: still contained, captured locals still closed
		g.use("closure-after-failing-handler")
		up, mk := g.fresh("up"), g.fresh("mk")
		return []Stmt{&Local{Names: []string{up}},
			&LocalFunc{X: mk, F: &Func{Body: []Stmt{local1("x", g.litInt()),
				set(v(up), &Func{Body: []Stmt{set(v("x"), bin("+", v("x"), num(1))), ret(v("x"))}}),
				&CallS{E: call("error", str("boom"))}}}},
			emit(&Paren{E: call("xpcall", v(mk), &Func{Params: []string{"m"}, Body: []Stmt{&CallS{E: call("error", str("again"))}}})}),
			g.clobber(), emit(call(up), call(up))}
	default: // closure survives an error caught by pcall
		g.use("closure-after-error")
		up, mk := g.fresh("up"), g.fresh("mk")
		pc := "pcall"
		args := []Expr{v(mk)}
		if g.R.Bool() {
			pc = "xpcall"
			args = append(args, &Func{Params: []string{"m"}, Body: []Stmt{ret(v("m"))}})
			g.use("closure-after-xpcall-error")
		}
		return []Stmt{&Local{Names: []string{up}},
			&LocalFunc{X: mk, F: &Func{Body: []Stmt{local1("x", g.litInt()),
				set(v(up), &Func{Body: []Stmt{set(v("x"), bin("+", v("x"), num(1))), ret(v("x"))}}),
				&CallS{E: call("error", str("boom"))}}}},
			emit(&Call{F: v(pc), Args: args}), g.clobber(), emit(call(up), call(up))}
	}
}

// clobber: a call with many arguments and locals that reuses freed registers.
func (g *Gen) clobber() Stmt {
	args := make([]Expr, 8)
	for i := range args {
		args[i] = num(float64(10 * (i + 1)))
	}
	// wrapped in emit(...) so that the statement does not start with '(' (call/new-statement ambiguity)
	return emit(&Call{F: &Paren{E: &Func{Params: []string{"c1", "c2", "c3", "c4", "c5", "c6", "c7", "c8"},
		Body: []Stmt{&Local{Names: []string{"d1", "d2", "d3", "d4"}, Es: []Expr{num(61), num(62), num(63), num(64)}}, ret(bin("+", v("c1"), v("d4")))}}}, Args: args})
}

func (g *Gen) metaShape(depth, d int) []Stmt {
	g.use("meta")
	o, mt := g.fresh("o"), g.fresh("mt")
	switch g.R.Pick(25, 25, 20, 15, 15, 12, 12, 10) {
	case 0: // __index function/table and __newindex
		g.use("meta-index")
		base := g.fresh("base")
		return []Stmt{local1(base, &Table{Items: []TItem{{Kind: 1, Name: "inherited", E: g.litInt()}}}),
			local1(mt, &Table{Items: []TItem{{Kind: 1, Name: "__index", E: []Expr{v(base), &Func{Params: []string{"t", "k"}, Body: []Stmt{emit(str("idx"), v("k")), ret(bin("..", v("k"), str("!")))}}}[g.R.Intn(2)]},
				{Kind: 1, Name: "__newindex", E: &Func{Params: []string{"t", "k", "x"}, Body: []Stmt{emit(str("newidx"), v("k"), v("x")), &CallS{E: call("rawset", v("t"), v("k"), bin("*", v("x"), num(2)))}}}}}}),
			local1(o, call("setmetatable", &Table{Items: []TItem{{Kind: 1, Name: "own", E: num(1)}}}, v(mt))),
			emit(idx(v(o), "own"), idx(v(o), "inherited"), idx(v(o), "missing")),
			set(idx(v(o), "own"), num(5)), set(idx(v(o), "fresh"), num(6)), emit(idx(v(o), "own"), call("rawget", v(o), str("fresh"))),
			// the same through run-time keys (non-constant key path of the VM)
			local1("dynk", bin("..", str("dy"), str("n"))), set(&Index{E: v(o), K: v("dynk")}, num(7)), set(&Index{E: v(o), K: num(3)}, num(8)),
			emit(&Index{E: v(o), K: v("dynk")}, &Index{E: v(o), K: num(3)}, &Index{E: v(o), K: bin("..", str("miss"), str("ing"))}, call("rawget", v(o), v("dynk")))}
	case 1: // arithmetic and concat handlers, left/right operand
		g.use("meta-arith")
		op := []string{"+", "-", "*", "/", "%", "^", ".."}[g.R.Intn(7)]
		ev := map[string]string{"+": "__add", "-": "__sub", "*": "__mul", "/": "__div", "%": "__mod", "^": "__pow", "..": "__concat"}[op]
		h := &Func{Params: []string{"a", "b"}, Body: []Stmt{emit(str(ev), call("type", v("a")), call("type", v("b"))), ret(g.litInt())}}
		return []Stmt{local1(mt, &Table{Items: []TItem{{Kind: 1, Name: ev, E: h}}}), local1(o, call("setmetatable", &Table{}, v(mt))),
			emit(bin(op, v(o), num(1))), emit(bin(op, num(2), v(o))), emit(bin(op, v(o), v(o)))}
	case 2: // comparison handlers
		g.use("meta-compare")
		o2 := g.fresh("o")
		items := []TItem{{Kind: 1, Name: "__lt", E: &Func{Params: []string{"a", "b"}, Body: []Stmt{emit(str("lt")), ret(bin("<", idx(v("a"), "v"), idx(v("b"), "v")))}}},
			{Kind: 1, Name: "__eq", E: &Func{Params: []string{"a", "b"}, Body: []Stmt{emit(str("eq")), ret(bin("==", idx(v("a"), "v"), idx(v("b"), "v")))}}}}
		if g.R.Bool() {
			items = append(items, TItem{Kind: 1, Name: "__le", E: &Func{Params: []string{"a", "b"}, Body: []Stmt{emit(str("le")), ret(bin("<=", idx(v("a"), "v"), idx(v("b"), "v")))}}})
		}
		return []Stmt{local1(mt, &Table{Items: items}),
			local1(o, call("setmetatable", &Table{Items: []TItem{{Kind: 1, Name: "v", E: g.litInt()}}}, v(mt))),
			local1(o2, call("setmetatable", &Table{Items: []TItem{{Kind: 1, Name: "v", E: g.litInt()}}}, v(mt))),
			emit(bin("<", v(o), v(o2)), bin("<=", v(o), v(o2)), bin(">", v(o), v(o2)), bin(">=", v(o), v(o2))),
			emit(bin("==", v(o), v(o2)), bin("~=", v(o), v(o2)), bin("==", v(o), v(o)), call("rawequal", v(o), v(o2)))}
	case 3: // __call, __unm, __tostring
		g.use("meta-call-unm-tostring")
		return []Stmt{local1(mt, &Table{Items: []TItem{
			{Kind: 1, Name: "__call", E: &Func{Params: []string{"self", "a", "b"}, Body: []Stmt{emit(str("call"), v("a"), v("b")), ret(v("b"), v("a"))}}},
			{Kind: 1, Name: "__unm", E: &Func{Params: []string{"a"}, Body: []Stmt{ret(str("neg"))}}},
			{Kind: 1, Name: "__tostring", E: &Func{Params: []string{"a"}, Body: []Stmt{ret(str("obj!"))}}}}}),
			local1(o, call("setmetatable", &Table{}, v(mt))),
			emit(&Call{F: v(o), Args: []Expr{num(1), num(2)}}), emit(&Un{Op: "-", A: v(o)}, call("tostring", v(o))),
			local1("ud", call("newud", &Table{Items: []TItem{{Kind: 1, Name: "__len", E: &Func{Params: []string{"u"}, Body: []Stmt{ret(num(7))}}}, {Kind: 1, Name: "__unm", E: &Func{Params: []string{"u"}, Body: []Stmt{ret(str("udneg"))}}}}})),
			emit(&Un{Op: "#", A: v("ud")}, &Un{Op: "-", A: v("ud")}, call("type", v("ud")))}
	case 5: // __newindex chain through tables: a key present in an intermediate table is raw-assigned there
		g.use("meta-newindex-chain")
		mid, last := g.fresh("mid"), g.fresh("last")
		return []Stmt{local1(last, &Table{}),
			local1(mid, call("setmetatable", &Table{Items: []TItem{{Kind: 1, Name: "held", E: g.litInt()}}},
				&Table{Items: []TItem{{Kind: 1, Name: "__newindex", E: []Expr{v(last), &Func{Params: []string{"t", "k", "x"}, Body: []Stmt{emit(str("mid-newindex"), v("k"), v("x"))}}}[g.R.Intn(2)]}}})),
			local1(o, call("setmetatable", &Table{}, &Table{Items: []TItem{{Kind: 1, Name: "__newindex", E: v(mid)}}})),
			set(idx(v(o), "held"), g.litInt()), set(idx(v(o), "fresh"), g.litInt()),
			emit(call("rawget", v(o), str("held")), call("rawget", v(mid), str("held")), call("rawget", v(mid), str("fresh")), call("rawget", v(last), str("fresh")), call("rawget", v(last), str("held")))}
	case 6: // the same object on both sides of a comparison still dispatches
		g.use("meta-compare-same-object")
		items := []TItem{{Kind: 1, Name: "__lt", E: &Func{Params: []string{"a", "b"}, Body: []Stmt{emit(str("lt")), ret(&False{})}}}}
		if g.R.Bool() {
			items = append(items, TItem{Kind: 1, Name: "__le", E: &Func{Params: []string{"a", "b"}, Body: []Stmt{emit(str("le")), ret(&False{})}}})
		}
		return []Stmt{local1(mt, &Table{Items: items}), local1(o, call("setmetatable", &Table{}, v(mt))),
			emit(bin("<=", v(o), v(o)), bin(">=", v(o), v(o)), bin("<", v(o), v(o)), bin("==", v(o), v(o))),
			emit(call("pcall", &Func{Body: []Stmt{local1("plain", &Table{}), ret(bin("<=", v("plain"), v("plain")))}}))}
	default: // __metatable protection, getmetatable
		g.use("meta-protect")
		return []Stmt{local1(mt, &Table{Items: []TItem{{Kind: 1, Name: "__metatable", E: str("locked")}}}),
			local1(o, call("setmetatable", &Table{}, v(mt))), emit(call("getmetatable", v(o))),
			emit(call("pcall", &Func{Body: []Stmt{ret(call("setmetatable", v(o), &Table{}))}})), emit(bin("==", call("getmetatable", &Table{}), &Nil{}))}
	}
}

func (g *Gen) coroutineShape(depth, d int) []Stmt {
	g.use("coroutine")
	co := g.fresh("co")
	switch g.R.Pick(30, 25, 25, 20) {
	case 0: // generator with payloads in both directions
		g.use("co-pingpong")
		n := g.R.Range(1, 3)
		body := []Stmt{emit(str("start"), v("a"), v("b"))}
		for i := 0; i < n; i++ {
			body = append(body, &Local{Names: []string{"r1", "r2"}, Es: []Expr{call("coroutine.yield", num(float64(i)), bin("+", v("a"), num(float64(i))))}}, emit(str("resumed"), v("r1"), v("r2")))
		}
		body = append(body, ret(str("done"), v("a")))
		out := []Stmt{local1(co, call("coroutine.create", &Func{Params: []string{"a", "b"}, Body: body}))}
		for i := 0; i < n+2; i++ {
			out = append(out, emit(call("coroutine.status", v(co))), emit(call("coroutine.resume", v(co), g.litInt(), g.litInt())))
		}
		return out
	case 1: // wrap as a for-in generator
		g.use("co-wrap-generator")
		i := g.fresh("i")
		gen := call("coroutine.wrap", &Func{Body: []Stmt{&NumFor{X: "k", A: num(1), B: num(float64(g.R.Range(1, 4))), Body: []Stmt{&CallS{E: call("coroutine.yield", v("k"), bin("*", v("k"), v("k")))}}}}})
		return []Stmt{&GenFor{Xs: []string{i, "sq"}, Es: []Expr{gen}, Body: []Stmt{emit(v(i), v("sq"))}}}
	case 2: // error inside a coroutine
		g.use("co-error")
		return []Stmt{local1(co, call("coroutine.create", &Func{Body: []Stmt{&CallS{E: call("coroutine.yield", num(1))}, &CallS{E: call("error", &Table{Items: []TItem{{Kind: 1, Name: "code", E: num(7)}}})}}})),
			emit(call("coroutine.resume", v(co))), &Local{Names: []string{"ok", "e"}, Es: []Expr{call("coroutine.resume", v(co))}},
			emit(v("ok"), call("type", v("e")), call("coroutine.status", v(co))), emit(call("coroutine.resume", v(co)))}
	default: // running/status from inside, nested resume
		g.use("co-nested")
		in := g.fresh("inner")
		return []Stmt{local1(in, call("coroutine.create", &Func{Body: []Stmt{emit(str("in"), call("coroutine.status", v(co))), &CallS{E: call("coroutine.yield", num(5))}}})),
			local1(co, call("coroutine.create", &Func{Body: []Stmt{emit(call("coroutine.status", v(co)), bin("==", call("coroutine.running"), v(co))),
				emit(call("coroutine.resume", v(in))), emit(call("coroutine.status", v(in))), &CallS{E: call("coroutine.yield", num(6))}}})),
			emit(call("coroutine.resume", v(co))), emit(call("coroutine.status", v(co)), call("coroutine.running"))}
	}
}

func (g *Gen) fenvShape(depth, d int) []Stmt {
	g.use("fenv")
	f, env := g.fresh("fe"), g.fresh("env")
	return []Stmt{local1(env, &Table{Items: []TItem{{Kind: 1, Name: "gx", E: g.litInt()}, {Kind: 1, Name: "emit", E: v("emit")}}}),
		&LocalFunc{X: f, F: &Func{Body: []Stmt{set(v("gy"), bin("+", &Or{A: v("gx"), B: num(0)}, num(1))), emit(v("gx"), v("gy")),
			ret(&Func{Body: []Stmt{ret(v("gy"))}})}}},
		&CallS{E: call("setfenv", v(f), v(env))},
		emit(bin("==", call("getfenv", v(f)), v(env))),
		local1("inner_"+f, call(f)), emit(idx(v(env), "gy"), v("gy"), &Call{F: v("inner_" + f)})}
}
