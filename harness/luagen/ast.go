// Package luagen: Lua ASTs that can be printed both as Lua source and as a Gallina term of
// GL.Lua.Syntax, a random program generator over them, and a runner against the real gopher-lua.
package luagen

type Expr interface{}
type Stmt interface{}

type (
	Nil     struct{}
	True    struct{}
	False   struct{}
	Num     struct{ V float64 }
	Str     struct{ V []byte }
	Varargs struct{}
	Var     struct{ Name string }
	Index   struct {
		E, K Expr
	}
	Call struct {
		F    Expr
		Args []Expr
	}
	Meth struct {
		O    Expr
		M    string
		Args []Expr
	}
	Func struct {
		Params         []string
		Vararg         bool
		Body           []Stmt
		Line, LastLine int
	}
	Bin struct {
		Op   string // + - * / % ^ .. == ~= < <= > >=
		A, B Expr
	}
	Un struct {
		Op string // - not #
		A  Expr
	}
	And   struct{ A, B Expr }
	Or    struct{ A, B Expr }
	Paren struct{ E Expr }
	Table struct{ Items []TItem }
)

// TItem kinds: 0 positional, 1 named (Name = e), 2 [K] = E
type TItem struct {
	Kind int
	Name string
	K, E Expr
}

type (
	Local struct {
		Names []string
		Es    []Expr
		Line  int
	}
	Assign struct {
		LHS  []Expr
		Es   []Expr
		Line int
	}
	CallS struct {
		E    Expr
		Line int
	}
	Do    struct{ Body []Stmt }
	While struct {
		C    Expr
		Body []Stmt
		Line int
	}
	Repeat struct {
		Body []Stmt
		C    Expr
		Line int
	}
	If struct {
		C          Expr
		Then, Else []Stmt
		Line       int
		HasElse    bool
	}
	NumFor struct {
		X       string
		A, B, C Expr // C may be nil
		Body    []Stmt
		Line    int
	}
	GenFor struct {
		Xs   []string
		Es   []Expr
		Body []Stmt
		Line int
	}
	LocalFunc struct {
		X    string
		F    *Func
		Line int
	}
	// FuncStmt is `function a.b.c:m(...) end` / `function f(...) end`: printed as sugar in Lua,
	// as the equivalent assignment in Gallina (method: extra first parameter self).
	FuncStmt struct {
		Target Expr   // Var or Index chain
		Method string // "" if none
		F      *Func
		Line   int
	}
	Return struct {
		Es   []Expr
		Line int
	}
	Break struct{}
	Goto  struct{ L string }
	Label struct{ L string }
)
