package luagen

import (
	"bytes"
	"context"
	"encoding/json"
	"fmt"
	"math"
	"os"
	"os/exec"
	"sync"
	"regexp"
	"strconv"
	"strings"
	"time"

	lua "github.com/yuin/gopher-lua"
	"verifh/lib"
)

// OVal is the canonical observable form of a Lua value (mirrors GL.Lua.Run.oval).
type OVal struct {
	Kind string  `json:"k"` // nil bool num str ref fault
	B    bool    `json:"b,omitempty"`
	N    float64 `json:"-"`
	Bits uint64  `json:"n,omitempty"` // N as IEEE bits (JSON cannot carry NaN/Inf)
	S    []byte  `json:"s,omitempty"`
	K    int     `json:"rk,omitempty"` // ref kind / fault kind
	I    int     `json:"ri,omitempty"` // ref id / fault line
}

// Pack/Unpack move N through Bits for JSON transport between the child and the parent process.
func (o *Outcome) Pack() {
	f := func(vs []OVal) {
		for i := range vs {
			vs[i].Bits = math.Float64bits(vs[i].N)
		}
	}
	for _, r := range o.Trace {
		f(r)
	}
	f(o.Results)
	o.Err.Bits = math.Float64bits(o.Err.N)
}

func (o *Outcome) Unpack() {
	f := func(vs []OVal) {
		for i := range vs {
			vs[i].N = math.Float64frombits(vs[i].Bits)
		}
	}
	for _, r := range o.Trace {
		f(r)
	}
	f(o.Results)
	o.Err.N = math.Float64frombits(o.Err.Bits)
}

func (o OVal) Coq() string {
	switch o.Kind {
	case "nil":
		return "ONil"
	case "bool":
		return "OBool " + lib.CoqBool(o.B)
	case "num":
		return "ONum " + CoqFloat(o.N)
	case "str":
		return "OStr " + lib.CoqBytes(o.S)
	case "ref":
		return fmt.Sprintf("ORef %d %d", o.K, o.I)
	case "fault":
		return fmt.Sprintf("OFault %d %d", o.K, o.I)
	}
	return "ONil"
}

func (o OVal) String() string {
	switch o.Kind {
	case "nil":
		return "nil"
	case "bool":
		return strconv.FormatBool(o.B)
	case "num":
		return strconv.FormatFloat(o.N, 'g', -1, 64)
	case "str":
		return strconv.Quote(string(o.S))
	case "ref":
		return fmt.Sprintf("%s#%d", []string{"?", "table", "function", "thread", "userdata"}[o.K], o.I)
	case "fault":
		return fmt.Sprintf("fault(kind=%d,line=%d)", o.K, o.I)
	}
	return "?"
}

// Outcome of running a chunk.
type Outcome struct {
	Lines   []string // debugging aid: position of each emit call (not compared)
	Trace   [][]OVal
	Ok      bool
	Results []OVal
	Err     OVal
	GoFail  string // escaped panic / hang / interpreter-internal Go panic: a failure by itself
	Polls   int    // dispatch polls seen by the one-shot fault context (InstrFault runs)
}

func covals(vs []OVal) string {
	it := make([]string, len(vs))
	for i, v := range vs {
		it[i] = v.Coq()
	}
	return lib.CoqList(it)
}

func (o *Outcome) Coq() string {
	tr := make([]string, len(o.Trace))
	for i, t := range o.Trace {
		tr[i] = covals(t)
	}
	fin := "OOk " + covals(o.Results)
	if !o.Ok {
		fin = "OErr (" + o.Err.Coq() + ")"
	}
	return "(Outcome " + lib.CoqList(tr) + " (" + fin + "))"
}

func (o *Outcome) Summary() map[string]any {
	tr := make([]string, 0, len(o.Trace))
	for i, t := range o.Trace {
		if i >= 300 {
			tr = append(tr, "…")
			break
		}
		parts := make([]string, len(t))
		for j, v := range t {
			parts[j] = v.String()
		}
		ln := ""
		if i < len(o.Lines) {
			ln = "@" + strings.TrimSuffix(strings.TrimPrefix(o.Lines[i], "<string>:"), ":") + " "
		}
		tr = append(tr, ln+strings.Join(parts, " "))
	}
	m := map[string]any{"trace": tr, "ok": o.Ok}
	if o.Ok {
		parts := make([]string, len(o.Results))
		for j, v := range o.Results {
			parts[j] = v.String()
		}
		m["results"] = parts
	} else {
		m["error"] = o.Err.String()
	}
	if o.GoFail != "" {
		m["go_fail"] = o.GoFail
	}
	return m
}

var posRe = regexp.MustCompile(`^<string>:(\d+): (.*)$`)

var faultPats = []struct {
	re   *regexp.Regexp
	kind int
}{
	{regexp.MustCompile(`^attempt to index a non-table object`), 1},
	{regexp.MustCompile(`^cannot perform (add|sub|mul|div|mod|pow|unm|arith\w*) operation`), 2},
	{regexp.MustCompile(`^__unm undefined`), 2},
	{regexp.MustCompile(`^attempt to call a non-function object`), 3},
	{regexp.MustCompile(`^attempt to compare`), 4},
	{regexp.MustCompile(`^cannot perform concat operation`), 5},
	{regexp.MustCompile(`^for statement (init|limit|step) must be a number`), 6},
	{regexp.MustCompile(`^table index is (nil|NaN)`), 6},
	{regexp.MustCompile(`^bad argument`), 6},
	{regexp.MustCompile(`^cannot set metatable to a nil object`), 6},
	{regexp.MustCompile(`^__len undefined`), 7},
	{regexp.MustCompile(`^can not resume a dead thread`), 8},
	{regexp.MustCompile(`^can not resume a running thread`), 9},
	{regexp.MustCompile(`^can not yield from outside of a coroutine`), 10},
	{regexp.MustCompile(`^injected instruction fault`), 98},
}

// classifyString maps interpreter-generated messages to fault classes; other strings stay strings.
func classifyString(s string) OVal {
	line := 0
	body := s
	if m := posRe.FindStringSubmatch(s); m != nil {
		line, _ = strconv.Atoi(m[1])
		body = m[2]
	}
	for _, p := range faultPats {
		if p.re.MatchString(body) {
			return OVal{Kind: "fault", K: p.kind, I: line}
		}
	}
	return OVal{Kind: "str", S: []byte(s)}
}

type canon struct {
	ids [5]map[any]int
}

func newCanon() *canon {
	c := &canon{}
	for i := range c.ids {
		c.ids[i] = map[any]int{}
	}
	return c
}

func (c *canon) ref(kind int, p any) OVal {
	id, ok := c.ids[kind][p]
	if !ok {
		id = len(c.ids[kind])
		c.ids[kind][p] = id
	}
	return OVal{Kind: "ref", K: kind, I: id}
}

func (c *canon) val(v lua.LValue) OVal {
	switch x := v.(type) {
	case *lua.LNilType:
		return OVal{Kind: "nil"}
	case lua.LBool:
		return OVal{Kind: "bool", B: bool(x)}
	case lua.LNumber:
		return OVal{Kind: "num", N: float64(x)}
	case lua.LString:
		return classifyString(string(x))
	case *lua.LTable:
		return c.ref(1, x)
	case *lua.LFunction:
		return c.ref(2, x)
	case *lua.LState:
		return c.ref(3, x)
	case *lua.LUserData:
		return c.ref(4, x)
	}
	if v == nil {
		return OVal{Kind: "str", S: []byte("<Go nil value>")}
	}
	return OVal{Kind: "str", S: []byte("<" + v.Type().String() + ">")}
}

// RunOptions lets a property harness vary the state configuration.
type RunOptions struct {
	Options *lua.Options          `json:"-"`
	Timeout time.Duration         `json:"timeout,omitempty"`
	Setup   func(L *lua.LState)   `json:"-"` // extra host functions
	// fault injection (C05): the EmitFault-th call of emit raises (number -777 at level 0, or the
	// string "inj" through RaiseError); InstrFault: the main thread's InstrFault-th dispatch poll
	// finds the context done exactly once (a one-shot runtime fault at an instruction boundary).
	EmitFault   int  `json:"emit_fault,omitempty"`
	FaultString bool `json:"fault_string,omitempty"`
	InstrFault  int  `json:"instr_fault,omitempty"`
	// Epilogue: after the chunk, the same state must have an empty stack and run a fixed program.
	Epilogue bool `json:"epilogue,omitempty"`
	// state configuration that survives the trip to a child process
	MinimizeStack bool `json:"minimize_stack,omitempty"`
	CallStackSize int  `json:"call_stack_size,omitempty"`
}

// oneShot is a context whose Done() is closed for exactly one poll.
type oneShot struct {
	context.Context
	mu     sync.Mutex
	fired  bool
	k, n   int
	closed chan struct{}
	open   chan struct{}
}

func newOneShot(parent context.Context, k int) *oneShot {
	c := make(chan struct{})
	close(c)
	return &oneShot{Context: parent, k: k, closed: c, open: make(chan struct{})}
}

func (o *oneShot) Done() <-chan struct{} {
	// Done is also called from the goroutines context.WithCancel starts for coroutine threads:
	// count under a lock and fire exactly once
	o.mu.Lock()
	defer o.mu.Unlock()
	o.n++
	if !o.fired && o.k > 0 && o.n >= o.k {
		o.fired = true
		return o.closed
	}
	return o.open
}

func (o *oneShot) Err() error { return fmt.Errorf("injected instruction fault") }

// Run executes src on a fresh state of the real interpreter and returns its observable outcome.
func Run(src string, ro *RunOptions) (out *Outcome) {
	out = &Outcome{}
	var L *lua.LState
	if ro != nil && ro.Options != nil {
		L = lua.NewState(*ro.Options)
	} else if ro != nil && (ro.MinimizeStack || ro.CallStackSize > 0) {
		L = lua.NewState(lua.Options{MinimizeStackMemory: ro.MinimizeStack, CallStackSize: ro.CallStackSize})
	} else {
		L = lua.NewState()
	}
	defer L.Close()
	to := 5 * time.Second
	if ro != nil && ro.Timeout > 0 {
		to = ro.Timeout
	}
	ctx, cancel := context.WithTimeout(context.Background(), to)
	defer cancel()
	var shot *oneShot
	if ro != nil && ro.InstrFault > 0 {
		shot = newOneShot(context.Background(), ro.InstrFault)
		L.SetContext(shot)
		// the wall-clock guard cannot ride on the context here: watchdog closes the state's hope
		go func() {
			<-ctx.Done()
			if ctx.Err() == context.DeadlineExceeded {
				os.Exit(97) // only ever used inside a child process
			}
		}()
	} else {
		L.SetContext(ctx)
	}
	emitCalls := 0
	c := newCanon()
	L.SetGlobal("emit", L.NewFunction(func(L *lua.LState) int {
		emitCalls++
		if ro != nil && ro.EmitFault > 0 && emitCalls == ro.EmitFault {
			out.Trace = append(out.Trace, []OVal{{Kind: "fault", K: 99, I: 0}})
			out.Lines = append(out.Lines, L.Where(1))
			if ro.FaultString {
				L.RaiseError("inj")
			} else {
				L.Error(lua.LNumber(-777), 0)
			}
			return 0
		}
		n := L.GetTop()
		row := make([]OVal, n)
		for i := 1; i <= n; i++ {
			row[i-1] = c.val(L.Get(i))
		}
		out.Trace = append(out.Trace, row)
		out.Lines = append(out.Lines, L.Where(1))
		return 0
	}))
	L.SetGlobal("newud", L.NewFunction(func(L *lua.LState) int {
		ud := L.NewUserData()
		if mt, ok := L.Get(1).(*lua.LTable); ok {
			ud.Metatable = mt
		}
		L.Push(ud)
		return 1
	}))
	if ro != nil && ro.Setup != nil {
		ro.Setup(L)
	}
	defer func() {
		if r := recover(); r != nil {
			out.GoFail = fmt.Sprintf("Go panic escaped DoString: %v", r)
			out.Ok = false
			out.Err = OVal{Kind: "str", S: []byte("<escaped Go panic>")}
		}
	}()
	fn, err := L.LoadString(src)
	if err != nil {
		out.GoFail = "generated program does not load: " + trunc(err.Error(), 300)
		out.Err = OVal{Kind: "str", S: []byte("<load error>")}
		return out
	}
	top := L.GetTop()
	L.Push(fn)
	err = L.PCall(0, lua.MultRet, nil)
	if err != nil {
		out.Ok = false
		if ctx.Err() != nil {
			out.GoFail = "program did not finish within the time limit"
			out.Err = OVal{Kind: "str", S: []byte("<timeout>")}
			return out
		}
		if ae, ok := err.(*lua.ApiError); ok {
			if ae.Type == lua.ApiErrorPanic {
				out.GoFail = "Go panic inside the interpreter: " + trunc(err.Error(), 300)
				out.Err = OVal{Kind: "str", S: []byte("<go panic>")}
				return out
			}
			if ae.Object != nil && ae.Object != lua.LNil {
				out.Err = c.val(ae.Object)
			} else if ae.Object == lua.LNil {
				out.Err = OVal{Kind: "nil"}
			} else {
				out.Err = classifyString(ae.Error())
			}
			if shot != nil {
				out.Polls = shot.n
			}
			if ro != nil && ro.Epilogue {
				if shot != nil {
					shot.k = -1
				}
				epilogue(L, top, out)
			}
			return out
		}
		out.Err = OVal{Kind: "str", S: []byte(err.Error())}
		return out
	}
	out.Ok = true
	n := L.GetTop() - top
	for i := 1; i <= n; i++ {
		out.Results = append(out.Results, c.val(L.Get(top+i)))
	}
	if shot != nil {
		out.Polls = shot.n
	}
	if ro != nil && ro.Epilogue {
		if shot != nil {
			shot.k = -1 // the fault belongs to the chunk, not to the epilogue
		}
		epilogue(L, top, out)
	}
	return out
}

// epilogue: the state must be as if nothing had happened — empty value stack, working interpreter.
func epilogue(L *lua.LState, top int, out *Outcome) {
	L.SetTop(top)
	if err := L.DoString(`local t = {} for i = 1, 5 do t[i] = i * i end local function f(...) return select('#', ...), ... end local ok, e = pcall(error, "x") return t[5], f(1, 2), ok, e`); err != nil {
		out.GoFail = "epilogue failed on the same state: " + trunc(err.Error(), 200)
		return
	}
	want := []string{"25", "2", "false", "x"}
	if L.GetTop()-top != len(want) {
		out.GoFail = fmt.Sprintf("epilogue returned %d values", L.GetTop()-top)
		return
	}
	for i, w := range want {
		if L.Get(top+1+i).String() != w {
			out.GoFail = fmt.Sprintf("epilogue value %d = %s, want %s", i+1, L.Get(top+1+i).String(), w)
		}
	}
}

func trunc(s string, n int) string {
	if len(s) > n {
		return s[:n] + "…"
	}
	return s
}


// ChildMain is the body of `<bin> child`: read a program from stdin, run it, print the outcome.
type childReq struct {
	Src string      `json:"src"`
	Opt *RunOptions `json:"opt"`
}

func ChildMain(ro *RunOptions) {
	var buf bytes.Buffer
	buf.ReadFrom(os.Stdin)
	var req childReq
	if err := json.Unmarshal(buf.Bytes(), &req); err != nil {
		os.Exit(3)
	}
	if req.Opt != nil {
		if ro != nil {
			req.Opt.Options, req.Opt.Setup = ro.Options, ro.Setup
		}
		ro = req.Opt
	}
	out := Run(req.Src, ro)
	out.Pack()
	b, _ := json.Marshal(out)
	os.Stdout.Write(b)
}

// RunIsolated runs the program in a child process (`os.Args[0] child`): the interpreter can take
// the whole process down (Go fatal stack overflow) or hang in ways a context cannot stop.
func RunIsolated(src string, timeout time.Duration, opt *RunOptions) *Outcome {
	ctx, cancel := context.WithTimeout(context.Background(), timeout)
	defer cancel()
	cmd := exec.CommandContext(ctx, os.Args[0], "child")
	rb, _ := json.Marshal(childReq{Src: src, Opt: opt})
	cmd.Stdin = bytes.NewReader(rb)
	var so, se bytes.Buffer
	cmd.Stdout = &so
	cmd.Stderr = &se
	err := cmd.Run()
	out := &Outcome{}
	if err == nil && json.Unmarshal(so.Bytes(), out) == nil {
		out.Unpack()
		return out
	}
	msg := "child process failed"
	if ctx.Err() != nil {
		msg = "child process did not finish within the time limit"
	} else if err != nil {
		msg = "child process died: " + err.Error() + ": " + trunc(se.String(), 200)
	}
	return &Outcome{GoFail: msg, Err: OVal{Kind: "str", S: []byte("<crash>")}}
}
