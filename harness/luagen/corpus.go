package luagen

import (
	"fmt"
	"strconv"
	"strings"

	"github.com/yuin/gopher-lua/ast"
	"github.com/yuin/gopher-lua/parse"
)

// ParseCorpus turns hand-written Lua text (corpus witnesses) into the generator's AST, using the
// interpreter's own parser for the syntax only (`local function f` is the LocalAssignStmt marked
// IsFunction).
func ParseCorpus(src string) (prog []Stmt, err error) {
	defer func() {
		if r := recover(); r != nil {
			err = fmt.Errorf("%v", r)
		}
	}()
	chunk, perr := parse.Parse(strings.NewReader(src), "<corpus>")
	if perr != nil {
		return nil, perr
	}
	return cvStmts(chunk), nil
}

func cvStmts(ss []ast.Stmt) []Stmt {
	out := make([]Stmt, 0, len(ss))
	for _, s := range ss {
		out = append(out, cvStmt(s))
	}
	return out
}

func cvExprs(es []ast.Expr) []Expr {
	out := make([]Expr, 0, len(es))
	for _, e := range es {
		out = append(out, cvExpr(e))
	}
	return out
}

func cvFunc(f *ast.FunctionExpr) *Func {
	return &Func{Params: append([]string{}, f.ParList.Names...), Vararg: f.ParList.HasVargs, Body: cvStmts(f.Stmts)}
}

func cvStmt(s ast.Stmt) Stmt {
	switch s := s.(type) {
	case *ast.AssignStmt:
		return &Assign{LHS: cvExprs(s.Lhs), Es: cvExprs(s.Rhs)}
	case *ast.LocalAssignStmt:
		if s.IsFunction {
			return &LocalFunc{X: s.Names[0], F: cvFunc(s.Exprs[0].(*ast.FunctionExpr))}
		}
		return &Local{Names: append([]string{}, s.Names...), Es: cvExprs(s.Exprs)}
	case *ast.FuncCallStmt:
		return &CallS{E: cvExpr(s.Expr)}
	case *ast.DoBlockStmt:
		return &Do{Body: cvStmts(s.Stmts)}
	case *ast.WhileStmt:
		return &While{C: cvExpr(s.Condition), Body: cvStmts(s.Stmts)}
	case *ast.RepeatStmt:
		return &Repeat{Body: cvStmts(s.Stmts), C: cvExpr(s.Condition)}
	case *ast.IfStmt:
		return &If{C: cvExpr(s.Condition), Then: cvStmts(s.Then), Else: cvStmts(s.Else), HasElse: len(s.Else) > 0}
	case *ast.NumberForStmt:
		n := &NumFor{X: s.Name, A: cvExpr(s.Init), B: cvExpr(s.Limit), Body: cvStmts(s.Stmts)}
		if s.Step != nil {
			n.C = cvExpr(s.Step)
		}
		return n
	case *ast.GenericForStmt:
		return &GenFor{Xs: append([]string{}, s.Names...), Es: cvExprs(s.Exprs), Body: cvStmts(s.Stmts)}
	case *ast.FuncDefStmt:
		if s.Name.Func != nil {
			return &FuncStmt{Target: cvExpr(s.Name.Func), F: cvFunc(s.Func)}
		}
		return &FuncStmt{Target: cvExpr(s.Name.Receiver), Method: s.Name.Method, F: cvFunc(s.Func)}
	case *ast.ReturnStmt:
		return &Return{Es: cvExprs(s.Exprs)}
	case *ast.BreakStmt:
		return &Break{}
	case *ast.LabelStmt:
		return &Label{L: s.Name}
	case *ast.GotoStmt:
		return &Goto{L: s.Label}
	}
	panic(fmt.Sprintf("corpus: unsupported statement %T", s))
}

func cvExpr(e ast.Expr) Expr {
	switch e := e.(type) {
	case *ast.TrueExpr:
		return &True{}
	case *ast.FalseExpr:
		return &False{}
	case *ast.NilExpr:
		return &Nil{}
	case *ast.NumberExpr:
		v, err := strconv.ParseFloat(e.Value, 64)
		if err != nil {
			if h, err2 := strconv.ParseInt(e.Value, 0, 64); err2 == nil {
				v = float64(h)
			} else {
				panic("corpus: numeral " + e.Value)
			}
		}
		return &Num{V: v}
	case *ast.StringExpr:
		return &Str{V: []byte(e.Value)}
	case *ast.Comma3Expr:
		if e.AdjustRet {
			return &Paren{E: &Varargs{}}
		}
		return &Varargs{}
	case *ast.IdentExpr:
		return &Var{Name: e.Value}
	case *ast.AttrGetExpr:
		return &Index{E: cvExpr(e.Object), K: cvExpr(e.Key)}
	case *ast.TableExpr:
		t := &Table{}
		for _, f := range e.Fields {
			switch {
			case f.Key == nil:
				t.Items = append(t.Items, TItem{Kind: 0, E: cvExpr(f.Value)})
			default:
				if k, ok := f.Key.(*ast.StringExpr); ok && isIdent(k.Value) {
					t.Items = append(t.Items, TItem{Kind: 1, Name: k.Value, E: cvExpr(f.Value)})
				} else {
					t.Items = append(t.Items, TItem{Kind: 2, K: cvExpr(f.Key), E: cvExpr(f.Value)})
				}
			}
		}
		return t
	case *ast.FuncCallExpr:
		var c Expr
		if e.Func != nil {
			c = &Call{F: cvExpr(e.Func), Args: cvExprs(e.Args)}
		} else {
			c = &Meth{O: cvExpr(e.Receiver), M: e.Method, Args: cvExprs(e.Args)}
		}
		if e.AdjustRet {
			return &Paren{E: c}
		}
		return c
	case *ast.LogicalOpExpr:
		if e.Operator == "and" {
			return &And{A: cvExpr(e.Lhs), B: cvExpr(e.Rhs)}
		}
		return &Or{A: cvExpr(e.Lhs), B: cvExpr(e.Rhs)}
	case *ast.RelationalOpExpr:
		return &Bin{Op: e.Operator, A: cvExpr(e.Lhs), B: cvExpr(e.Rhs)}
	case *ast.StringConcatOpExpr:
		return &Bin{Op: "..", A: cvExpr(e.Lhs), B: cvExpr(e.Rhs)}
	case *ast.ArithmeticOpExpr:
		return &Bin{Op: e.Operator, A: cvExpr(e.Lhs), B: cvExpr(e.Rhs)}
	case *ast.UnaryMinusOpExpr:
		return &Un{Op: "-", A: cvExpr(e.Expr)}
	case *ast.UnaryNotOpExpr:
		return &Un{Op: "not", A: cvExpr(e.Expr)}
	case *ast.UnaryLenOpExpr:
		return &Un{Op: "#", A: cvExpr(e.Expr)}
	case *ast.FunctionExpr:
		return cvFunc(e)
	}
	panic(fmt.Sprintf("corpus: unsupported expression %T", e))
}
