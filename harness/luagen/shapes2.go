package luagen

// Further shapes aimed at compiler special cases: constant folding, comparison lowering in value
// and branch context, larger and mixed table constructors, deep upvalue chains, method
// definitions on nested tables, repeat-until scoping, setfenv by level, error levels.

var foldOps = []string{"+", "-", "*", "/", "%", "^"}

// constExpr: an expression over literals only (the compiler may fold it); integral operands for % ^.
func (g *Gen) constExpr(d int) Expr {
	if d <= 0 {
		return num(float64(g.R.Range(-6, 9)))
	}
	switch g.R.Pick(40, 15, 15, 10, 10, 10) {
	case 0:
		op := foldOps[g.R.Intn(4)]
		return bin(op, g.constExpr(d-1), g.constExpr(d-1))
	case 1:
		return bin("%", g.constExpr(d-1), num(float64([]int{2, 3, 5, -4, 7}[g.R.Intn(5)])))
	case 2:
		return bin("^", num(float64(g.R.Range(-3, 3))), num(float64(g.R.Range(0, 4))))
	case 3:
		return &Un{Op: "-", A: g.constExpr(d - 1)}
	case 4:
		return &Paren{E: g.constExpr(d - 1)}
	default:
		return &Un{Op: "#", A: str(words[g.R.Intn(len(words))])}
	}
}

func (g *Gen) foldShape(d int) []Stmt {
	g.use("constant-folding")
	a := g.pickVar(TInt)
	var ae Expr = num(3)
	if a != nil {
		ae = g.ref(a)
	}
	c := g.constExpr(2)
	return []Stmt{
		// the same expression folded, and with one operand in a variable: equal results
		emit(c, g.constExpr(3), bin("+", ae, g.constExpr(2)), bin("*", g.constExpr(2), ae)),
		emit(bin("..", g.constExpr(1), str("s")), bin("..", str("n="), bin("+", num(1), num(2)))),
		emit(bin("==", g.constExpr(2), g.constExpr(2)), bin("<", g.constExpr(2), g.constExpr(2)), &Un{Op: "not", A: bin("<=", g.constExpr(1), g.constExpr(1))}),
	}
}

// compareShape: comparisons and logical operators as values, as conditions and as arguments.
func (g *Gen) compareShape(d int) []Stmt {
	g.use("compare-contexts")
	x, y := g.exprInt(1), g.exprInt(1)
	r := g.fresh("cv")
	ops := []string{"<", "<=", ">", ">=", "==", "~="}
	op := ops[g.R.Intn(6)]
	cmp := bin(op, x, y)
	return []Stmt{
		local1(r, cmp),
		&If{C: cmp, Then: []Stmt{emit(str("then"), v(r))}, Else: []Stmt{emit(str("else"), v(r))}, HasElse: true},
		emit(&And{A: cmp, B: x}, &Or{A: cmp, B: y}, &Un{Op: "not", A: cmp}, &And{A: &Un{Op: "not", A: cmp}, B: str("n")}),
		emit(&Or{A: &And{A: cmp, B: &Nil{}}, B: str("d")}, &And{A: &Or{A: &False{}, B: cmp}, B: &Or{A: &Nil{}, B: x}}),
		&While{C: &And{A: cmp, B: &False{}}, Body: []Stmt{emit(str("never"))}},
	}
}

// bigTable: constructors longer than one SETLIST block, mixed with keyed fields and open calls.
func (g *Gen) bigTable(d int) []Stmt {
	g.use("table-ctor-big")
	n := []int{49, 50, 51, 99, 100, 101, 120}[g.R.Intn(7)]
	t := &Table{}
	for i := 0; i < n; i++ {
		if g.R.Chance(5) {
			t.Items = append(t.Items, TItem{Kind: 1, Name: "k" + itoa(i), E: num(float64(i))})
		}
		t.Items = append(t.Items, TItem{Kind: 0, E: num(float64(i + 1))})
	}
	name := g.fresh("bt")
	probe := []Expr{&Un{Op: "#", A: v(name)}, &Index{E: v(name), K: num(1)}, &Index{E: v(name), K: num(50)}, &Index{E: v(name), K: num(51)}, &Index{E: v(name), K: num(float64(n))}, &Index{E: v(name), K: num(float64(n + 1))}, &Index{E: v(name), K: num(float64(n + 2))}}
	switch g.R.Pick(30, 30, 20, 20) {
	case 0:
		t.Items = append(t.Items, TItem{Kind: 0, E: &Call{F: &Paren{E: &Func{Body: []Stmt{ret(num(7001), num(7002))}}}}})
	case 1:
		t.Items = append(t.Items, TItem{Kind: 1, Name: "x", E: &Call{F: &Paren{E: &Func{Body: []Stmt{ret(num(9))}}}}})
		probe = append(probe, idx(v(name), "x"))
	case 2:
		t.Items = append(t.Items, TItem{Kind: 2, K: num(float64(n + 1)), E: num(5)})
	}
	return []Stmt{local1(name, t), emit(probe...)}
}

// deepUpvalue: a variable captured through three function levels, written at the innermost.
func (g *Gen) deepUpvalue(d int) []Stmt {
	g.use("upvalue-three-levels")
	l1, r := g.fresh("lvl"), g.fresh("dr")
	inner := &Func{Body: []Stmt{set(v("a0"), bin("+", v("a0"), v("b1"))), set(v("b1"), bin("+", v("b1"), v("c2"))), ret(v("a0"), v("b1"), v("c2"))}}
	mid := &Func{Params: []string{"c2"}, Body: []Stmt{ret(inner)}}
	out := &Func{Params: []string{"b1"}, Body: []Stmt{local1("a0", g.litInt()), ret(&Call{F: &Paren{E: mid}, Args: []Expr{g.litInt()}}, &Func{Body: []Stmt{ret(v("a0"), v("b1"))}})}}
	return []Stmt{&LocalFunc{X: l1, F: out},
		&Local{Names: []string{r, r + "g"}, Es: []Expr{call(l1, g.litInt())}},
		emit(call(r)), g.clobber(), emit(call(r)), emit(call(r + "g"))}
}

// repeatClosure: the until condition sees the body's locals; closures capture per-iteration locals.
func (g *Gen) repeatClosure(d int) []Stmt {
	g.use("repeat-until-scope")
	fs, k := g.fresh("rf"), g.fresh("rk")
	return []Stmt{local1(fs, &Table{}), local1(k, num(0)),
		&Repeat{Body: []Stmt{set(v(k), bin("+", v(k), num(1))), local1("cap", bin("*", v(k), num(7))),
			set(&Index{E: v(fs), K: v(k)}, &Func{Body: []Stmt{set(v("cap"), bin("+", v("cap"), num(1))), ret(v("cap"))}}),
			local1("done", bin(">=", v("cap"), num(float64(7*g.R.Range(1, 3)))))}, C: v("done")},
		g.clobber(), emit(v(k), &Call{F: &Index{E: v(fs), K: num(1)}}, &Call{F: &Index{E: v(fs), K: v(k)}}, &Call{F: &Index{E: v(fs), K: num(1)}})}
}

// methodChain: function a.b.c:m(...) on nested tables, called with : and with .
func (g *Gen) methodChain(d int) []Stmt {
	g.use("method-on-nested-table")
	a := g.fresh("ns")
	tgt := &Index{E: &Index{E: v(a), K: str("b")}, K: str("c")}
	f := &Func{Params: []string{"p", "q"}, Vararg: g.R.Bool(), Body: []Stmt{emit(bin("==", v("self"), tgt), v("p"), v("q")), ret(&Or{A: v("p"), B: num(0)}, idx(v("self"), "tag"))}}
	return []Stmt{local1(a, &Table{Items: []TItem{{Kind: 1, Name: "b", E: &Table{Items: []TItem{{Kind: 1, Name: "c", E: &Table{Items: []TItem{{Kind: 1, Name: "tag", E: str("T")}}}}}}}}}),
		&FuncStmt{Target: tgt, Method: "m", F: f},
		&FuncStmt{Target: &Index{E: &Index{E: v(a), K: str("b")}, K: str("plain")}, F: &Func{Params: []string{"x"}, Body: []Stmt{ret(bin("*", &Or{A: v("x"), B: num(1)}, num(2)))}}},
		emit(&Meth{O: tgt, M: "m", Args: []Expr{g.litInt()}}), emit(&Call{F: idx(tgt, "m"), Args: []Expr{tgt, num(1), num(2), num(3)}}),
		emit(&Call{F: &Index{E: &Index{E: v(a), K: str("b")}, K: str("plain")}, Args: []Expr{g.litInt()}})}
}

// fenvLevel: setfenv(1, t) changes the running function only; callers keep their globals.
func (g *Gen) fenvLevel(d int) []Stmt {
	g.use("setfenv-level")
	f := g.fresh("fl")
	return []Stmt{set(v("GZ"), g.litInt()),
		&LocalFunc{X: f, F: &Func{Body: []Stmt{local1("before", v("GZ")),
			&CallS{E: call("setfenv", num(1), &Table{Items: []TItem{{Kind: 1, Name: "GZ", E: str("inner")}, {Kind: 1, Name: "emit", E: v("emit")}}})},
			emit(v("before"), v("GZ")), set(v("GNEW"), num(1)), ret(v("GZ"))}}},
		emit(call(f)), emit(v("GZ"), v("GNEW"), bin("==", call("getfenv", v(f)), call("getfenv", num(1))))}
}

// errorLevels: error with level 1 and 2 from nested Lua functions, level 0, non-string values.
func (g *Gen) errorLevels(d int) []Stmt {
	g.use("error-levels")
	in, out := g.fresh("ein"), g.fresh("eout")
	lvl := g.R.Range(0, 2)
	return []Stmt{&LocalFunc{X: in, F: &Func{Params: []string{"m"}, Body: []Stmt{&CallS{E: call("error", v("m"), num(float64(lvl)))}}}},
		&LocalFunc{X: out, F: &Func{Params: []string{"m"}, Body: []Stmt{&CallS{E: call(in, v("m"))}, emit(str("unreachable"))}}},
		emit(call("pcall", v(out), str("msg"))), emit(call("pcall", v(out), &Table{})), emit(call("pcall", v(out), num(12))), emit(call("pcall", v(out)))}
}

// floatFor: numeric for with fractional and negative fractional steps (accumulated floats).
func (g *Gen) floatFor(d int) []Stmt {
	g.use("numfor-float")
	i, acc := g.fresh("fi"), g.fresh("facc")
	step := []float64{0.25, 0.5, -0.5, 0.1, -0.75, 1.5}[g.R.Intn(6)]
	a, b := 0.0, 2.0
	if step < 0 {
		a, b = 2.0, 0.0
	}
	return []Stmt{local1(acc, num(0)), &NumFor{X: i, A: num(a), B: num(b), C: num(step), Body: []Stmt{set(v(acc), bin("+", v(acc), v(i))), emit(bin("*", v(i), num(8)))}}, emit(bin("*", v(acc), num(8)))}
}

// indexChain: __index through several tables and a final function; rawget sees only own keys.
func (g *Gen) indexChain(d int) []Stmt {
	g.use("meta-index-chain")
	depth := g.R.Range(2, 4)
	base := g.fresh("ic")
	stm := []Stmt{local1(base+"0", &Table{Items: []TItem{{Kind: 1, Name: "lvl0", E: num(0)}}})}
	last := base + "0"
	if g.R.Bool() {
		stm = append(stm, &CallS{E: call("setmetatable", v(last), &Table{Items: []TItem{{Kind: 1, Name: "__index", E: &Func{Params: []string{"t", "k"}, Body: []Stmt{emit(str("fn-index"), v("k")), ret(bin("..", str("f:"), v("k")))}}}}})})
	}
	for i := 1; i <= depth; i++ {
		cur := base + itoa(i)
		stm = append(stm, local1(cur, call("setmetatable", &Table{Items: []TItem{{Kind: 1, Name: "lvl" + itoa(i), E: num(float64(i))}}}, &Table{Items: []TItem{{Kind: 1, Name: "__index", E: v(last)}}})))
		last = cur
	}
	return append(stm, emit(idx(v(last), "lvl0"), idx(v(last), "lvl1"), idx(v(last), "lvl"+itoa(depth)), idx(v(last), "nope"), call("rawget", v(last), str("lvl0"))))
}

// concatEqMeta: __concat with numbers and strings on either side, __eq with different handlers.
func (g *Gen) concatEqMeta(d int) []Stmt {
	g.use("meta-concat-eq")
	o, p := g.fresh("mo"), g.fresh("mp")
	h := func(tag string) Expr {
		return &Func{Params: []string{"a", "b"}, Body: []Stmt{emit(str(tag), call("type", v("a")), call("type", v("b"))), ret(str(tag))}}
	}
	eq1 := &Func{Params: []string{"a", "b"}, Body: []Stmt{emit(str("eq1")), ret(&True{})}}
	return []Stmt{local1("sharedeq", eq1),
		local1(o, call("setmetatable", &Table{}, &Table{Items: []TItem{{Kind: 1, Name: "__concat", E: h("cc-o")}, {Kind: 1, Name: "__eq", E: v("sharedeq")}}})),
		local1(p, call("setmetatable", &Table{}, &Table{Items: []TItem{{Kind: 1, Name: "__concat", E: h("cc-p")}, {Kind: 1, Name: "__eq", E: []Expr{v("sharedeq"), &Func{Params: []string{"a", "b"}, Body: []Stmt{emit(str("eq2")), ret(&True{})}}}[g.R.Intn(2)]}}})),
		emit(bin("..", v(o), num(1)), bin("..", num(2), v(o)), bin("..", v(o), v(p)), bin("..", v(p), v(o)), bin("..", str("s"), bin("..", v(o), str("t")))),
		emit(bin("==", v(o), v(p)), bin("~=", v(o), v(p)), bin("==", v(o), v(o)), bin("==", v(o), num(1)))}
}

// coTransfer: value counts in both directions, yield inside nested calls, resume of finished ones.
func (g *Gen) coTransfer(d int) []Stmt {
	g.use("co-transfer-matrix")
	co := g.fresh("ct")
	ny, nr := g.R.Range(0, 3), g.R.Range(0, 3)
	yv := make([]Expr, ny)
	for i := range yv {
		yv[i] = num(float64(10 + i))
	}
	rv := make([]Expr, nr)
	for i := range rv {
		rv[i] = num(float64(20 + i))
	}
	helper := &Func{Vararg: true, Body: []Stmt{ret(call("coroutine.yield", &Varargs{}))}}
	body := []Stmt{&LocalFunc{X: "deep", F: helper},
		emit(str("y1"), call("deep", yv...)),
		&Local{Names: []string{"a", "b"}, Es: []Expr{call("coroutine.yield", yv...)}}, emit(str("y2"), v("a"), v("b")),
		emit(str("y3"), &Paren{E: call("coroutine.yield")}), ret(call("select", str("#"), &Varargs{}), &Varargs{})}
	out := []Stmt{local1(co, call("coroutine.create", &Func{Vararg: true, Body: body}))}
	for i := 0; i < 5; i++ {
		out = append(out, emit(call("coroutine.resume", append([]Expr{v(co)}, rv...)...)), emit(call("coroutine.status", v(co))))
	}
	return out
}
