package luagen

// Further shapes aimed at compiler special cases: constant folding, comparison lowering in value
// and branch context, larger and mixed table constructors, deep upvalue chains, method
// definitions on nested tables, repeat-until scoping, setfenv by level, error levels.

var foldOps = []string{"+", "-", "*", "/", "%", "^"}

// constExpr: an expression over literals only (the compiler may fold it); integral operands for % ^.
func (g *Gen) constExpr(d int) Expr {
	if d <= 0 {
		return num(float64(g.R.Range(-6, 9)))
	}
	switch g.R.Pick(40, 15, 15, 10, 10, 10) {
	case 0:
		op := foldOps[g.R.Intn(4)]
		return bin(op, g.constExpr(d-1), g.constExpr(d-1))
	case 1:
		return bin("%", g.constExpr(d-1), num(float64([]int{2, 3, 5, -4, 7}[g.R.Intn(5)])))
	case 2:
		return bin("^", num(float64(g.R.Range(-3, 3))), num(float64(g.R.Range(0, 4))))
	case 3:
		return &Un{Op: "-", A: g.constExpr(d - 1)}
	case 4:
		return &Paren{E: g.constExpr(d - 1)}
	default:
		return &Un{Op: "#", A: str(words[g.R.Intn(len(words))])}
	}
}

func (g *Gen) foldShape(d int) []Stmt {
	g.use("constant-folding")
	a := g.pickVar(TInt)
	var ae Expr = num(3)
	if a != nil {
		ae = g.ref(a)
	}
	c := g.constExpr(2)
	return []Stmt{
		// the same expression folded, and with one operand in a variable: equal results
		emit(c, g.constExpr(3), bin("+", ae, g.constExpr(2)), bin("*", g.constExpr(2), ae)),
		emit(bin("..", g.constExpr(1), str("s")), bin("..", str("n="), bin("+", num(1), num(2)))),
		emit(bin("==", g.constExpr(2), g.constExpr(2)), bin("<", g.constExpr(2), g.constExpr(2)), &Un{Op: "not", A: bin("<=", g.constExpr(1), g.constExpr(1))}),
	}
}

// compareShape: comparisons and logical operators as values, as conditions and as arguments.
func (g *Gen) compareShape(d int) []Stmt {
	g.use("compare-contexts")
	x, y := g.exprInt(1), g.exprInt(1)
	r := g.fresh("cv")
	ops := []string{"<", "<=", ">", ">=", "==", "~="}
	op := ops[g.R.Intn(6)]
	cmp := bin(op, x, y)
	return []Stmt{
		local1(r, cmp),
		&If{C: cmp, Then: []Stmt{emit(str("then"), v(r))}, Else: []Stmt{emit(str("else"), v(r))}, HasElse: true},
		emit(&And{A: cmp, B: x}, &Or{A: cmp, B: y}, &Un{Op: "not", A: cmp}, &And{A: &Un{Op: "not", A: cmp}, B: str("n")}),
		emit(&Or{A: &And{A: cmp, B: &Nil{}}, B: str("d")}, &And{A: &Or{A: &False{}, B: cmp}, B: &Or{A: &Nil{}, B: x}}),
		&While{C: &And{A: cmp, B: &False{}}, Body: []Stmt{emit(str("never"))}},
	}
}

// bigTable: constructors longer than one SETLIST block, mixed with keyed fields and open calls.
func (g *Gen) bigTable(d int) []Stmt {
	g.use("table-ctor-big")
	n := []int{49, 50, 51, 99, 100, 101, 120}[g.R.Intn(7)]
	t := &Table{}
	for i := 0; i < n; i++ {
		if g.R.Chance(5) {
			t.Items = append(t.Items, TItem{Kind: 1, Name: "k" + itoa(i), E: num(float64(i))})
		}
		t.Items = append(t.Items, TItem{Kind: 0, E: num(float64(i + 1))})
	}
	name := g.fresh("bt")
	probe := []Expr{&Un{Op: "#", A: v(name)}, &Index{E: v(name), K: num(1)}, &Index{E: v(name), K: num(50)}, &Index{E: v(name), K: num(51)}, &Index{E: v(name), K: num(float64(n))}, &Index{E: v(name), K: num(float64(n + 1))}, &Index{E: v(name), K: num(float64(n + 2))}}
	switch g.R.Pick(30, 30, 20, 20) {
	case 0:
		t.Items = append(t.Items, TItem{Kind: 0, E: &Call{F: &Paren{E: &Func{Body: []Stmt{ret(num(7001), num(7002))}}}}})
	case 1:
		t.Items = append(t.Items, TItem{Kind: 1, Name: "x", E: &Call{F: &Paren{E: &Func{Body: []Stmt{ret(num(9))}}}}})
		probe = append(probe, idx(v(name), "x"))
	case 2:
		t.Items = append(t.Items, TItem{Kind: 2, K: num(float64(n + 1)), E: num(5)})
	}
	return []Stmt{local1(name, t), emit(probe...)}
}

// deepUpvalue: a variable captured through three function levels, written at the innermost.
func (g *Gen) deepUpvalue(d int) []Stmt {
	g.use("upvalue-three-levels")
	l1, r := g.fresh("lvl"), g.fresh("dr")
	inner := &Func{Body: []Stmt{set(v("a0"), bin("+", v("a0"), v("b1"))), set(v("b1"), bin("+", v("b1"), v("c2"))), ret(v("a0"), v("b1"), v("c2"))}}
	mid := &Func{Params: []string{"c2"}, Body: []Stmt{ret(inner)}}
	out := &Func{Params: []string{"b1"}, Body: []Stmt{local1("a0", g.litInt()), ret(&Call{F: &Paren{E: mid}, Args: []Expr{g.litInt()}}, &Func{Body: []Stmt{ret(v("a0"), v("b1"))}})}}
	return []Stmt{&LocalFunc{X: l1, F: out},
		&Local{Names: []string{r, r + "g"}, Es: []Expr{call(l1, g.litInt())}},
		emit(call(r)), g.clobber(), emit(call(r)), emit(call(r + "g"))}
}

// repeatClosure: the until condition sees the body's locals; closures capture per-iteration locals.
func (g *Gen) repeatClosure(d int) []Stmt {
	g.use("repeat-until-scope")
	fs, k := g.fresh("rf"), g.fresh("rk")
	return []Stmt{local1(fs, &Table{}), local1(k, num(0)),
		&Repeat{Body: []Stmt{set(v(k), bin("+", v(k), num(1))), local1("cap", bin("*", v(k), num(7))),
			set(&Index{E: v(fs), K: v(k)}, &Func{Body: []Stmt{set(v("cap"), bin("+", v("cap"), num(1))), ret(v("cap"))}}),
			local1("done", bin(">=", v("cap"), num(float64(7*g.R.Range(1, 3)))))}, C: v("done")},
		g.clobber(), emit(v(k), &Call{F: &Index{E: v(fs), K: num(1)}}, &Call{F: &Index{E: v(fs), K: v(k)}}, &Call{F: &Index{E: v(fs), K: num(1)}})}
}

// methodChain: function a.b.c:m(...) on nested tables, called with : and with .
func (g *Gen) methodChain(d int) []Stmt {
	g.use("method-on-nested-table")
	a := g.fresh("ns")
	tgt := &Index{E: &Index{E: v(a), K: str("b")}, K: str("c")}
	f := &Func{Params: []string{"p", "q"}, Vararg: g.R.Bool(), Body: []Stmt{emit(bin("==", v("self"), tgt), v("p"), v("q")), ret(&Or{A: v("p"), B: num(0)}, idx(v("self"), "tag"))}}
	return []Stmt{local1(a, &Table{Items: []TItem{{Kind: 1, Name: "b", E: &Table{Items: []TItem{{Kind: 1, Name: "c", E: &Table{Items: []TItem{{Kind: 1, Name: "tag", E: str("T")}}}}}}}}}),
		&FuncStmt{Target: tgt, Method: "m", F: f},
		&FuncStmt{Target: &Index{E: &Index{E: v(a), K: str("b")}, K: str("plain")}, F: &Func{Params: []string{"x"}, Body: []Stmt{ret(bin("*", &Or{A: v("x"), B: num(1)}, num(2)))}}},
		emit(&Meth{O: tgt, M: "m", Args: []Expr{g.litInt()}}), emit(&Call{F: idx(tgt, "m"), Args: []Expr{tgt, num(1), num(2), num(3)}}),
		emit(&Call{F: &Index{E: &Index{E: v(a), K: str("b")}, K: str("plain")}, Args: []Expr{g.litInt()}})}
}

// fenvLevel: setfenv(1, t) changes the running function only; callers keep their globals.
func (g *Gen) fenvLevel(d int) []Stmt {
	g.use("setfenv-level")
	f := g.fresh("fl")
	return []Stmt{set(v("GZ"), g.litInt()),
		&LocalFunc{X: f, F: &Func{Body: []Stmt{local1("before", v("GZ")),
			&CallS{E: call("setfenv", num(1), &Table{Items: []TItem{{Kind: 1, Name: "GZ", E: str("inner")}, {Kind: 1, Name: "emit", E: v("emit")}}})},
			emit(v("before"), v("GZ")), set(v("GNEW"), num(1)), ret(v("GZ"))}}},
		emit(call(f)), emit(v("GZ"), v("GNEW"), bin("==", call("getfenv", v(f)), call("getfenv", num(1))))}
}

// errorLevels: error with level 1 and 2 from nested Lua functions, level 0, non-string values.
func (g *Gen) errorLevels(d int) []Stmt {
	g.use("error-levels")
	in, out := g.fresh("ein"), g.fresh("eout")
	lvl := g.R.Range(0, 2)
	return []Stmt{&LocalFunc{X: in, F: &Func{Params: []string{"m"}, Body: []Stmt{&CallS{E: call("error", v("m"), num(float64(lvl)))}}}},
		&LocalFunc{X: out, F: &Func{Params: []string{"m"}, Body: []Stmt{&CallS{E: call(in, v("m"))}, emit(str("unreachable"))}}},
		emit(call("pcall", v(out), str("msg"))), emit(call("pcall", v(out), &Table{})), emit(call("pcall", v(out), num(12))), emit(call("pcall", v(out)))}
}

// floatFor: numeric for with fractional and negative fractional steps (accumulated floats).
func (g *Gen) floatFor(d int) []Stmt {
	g.use("numfor-float")
	i, acc := g.fresh("fi"), g.fresh("facc")
	step := []float64{0.25, 0.5, -0.5, 0.1, -0.75, 1.5}[g.R.Intn(6)]
	a, b := 0.0, 2.0
	if step < 0 {
		a, b = 2.0, 0.0
	}
	return []Stmt{local1(acc, num(0)), &NumFor{X: i, A: num(a), B: num(b), C: num(step), Body: []Stmt{set(v(acc), bin("+", v(acc), v(i))), emit(bin("*", v(i), num(8)))}}, emit(bin("*", v(acc), num(8)))}
}

// indexChain: __index through several tables and a final function; rawget sees only own keys.
func (g *Gen) indexChain(d int) []Stmt {
	g.use("meta-index-chain")
	depth := g.R.Range(2, 4)
	base := g.fresh("ic")
	stm := []Stmt{local1(base+"0", &Table{Items: []TItem{{Kind: 1, Name: "lvl0", E: num(0)}}})}
	last := base + "0"
	if g.R.Bool() {
		stm = append(stm, &CallS{E: call("setmetatable", v(last), &Table{Items: []TItem{{Kind: 1, Name: "__index", E: &Func{Params: []string{"t", "k"}, Body: []Stmt{emit(str("fn-index"), v("k"), bin("==", v("t"), v(base+"0")), call("rawget", v("t"), str("lvl0"))), ret(bin("..", str("f:"), v("k")))}}}}})})
	}
	for i := 1; i <= depth; i++ {
		cur := base + itoa(i)
		stm = append(stm, local1(cur, call("setmetatable", &Table{Items: []TItem{{Kind: 1, Name: "lvl" + itoa(i), E: num(float64(i))}}}, &Table{Items: []TItem{{Kind: 1, Name: "__index", E: v(last)}}})))
		last = cur
	}
	dyn := g.fresh("dk")
	return append(stm, emit(idx(v(last), "lvl0"), idx(v(last), "lvl1"), idx(v(last), "lvl"+itoa(depth)), idx(v(last), "nope"), call("rawget", v(last), str("lvl0"))),
		local1(dyn, str("dynkey")), emit(&Index{E: v(last), K: v(dyn)}))
}

// concatEqMeta: __concat with numbers and strings on either side, __eq with different handlers.
func (g *Gen) concatEqMeta(d int) []Stmt {
	g.use("meta-concat-eq")
	o, p := g.fresh("mo"), g.fresh("mp")
	h := func(tag string) Expr {
		return &Func{Params: []string{"a", "b"}, Body: []Stmt{emit(str(tag), call("type", v("a")), call("type", v("b"))), ret(str(tag))}}
	}
	eq1 := &Func{Params: []string{"a", "b"}, Body: []Stmt{emit(str("eq1")), ret(&True{})}}
	return []Stmt{local1("sharedeq", eq1),
		local1(o, call("setmetatable", &Table{}, &Table{Items: []TItem{{Kind: 1, Name: "__concat", E: h("cc-o")}, {Kind: 1, Name: "__eq", E: v("sharedeq")}}})),
		local1(p, call("setmetatable", &Table{}, &Table{Items: []TItem{{Kind: 1, Name: "__concat", E: h("cc-p")}, {Kind: 1, Name: "__eq", E: []Expr{v("sharedeq"), &Func{Params: []string{"a", "b"}, Body: []Stmt{emit(str("eq2")), ret(&True{})}}}[g.R.Intn(2)]}}})),
		emit(bin("..", v(o), num(1)), bin("..", num(2), v(o)), bin("..", v(o), v(p)), bin("..", v(p), v(o)), bin("..", str("s"), bin("..", v(o), str("t")))),
		emit(bin("==", v(o), v(p)), bin("~=", v(o), v(p)), bin("==", v(o), v(o)), bin("==", v(o), num(1)))}
}

// coTransfer: value counts in both directions, yield inside nested calls, resume of finished ones.
func (g *Gen) coTransfer(d int) []Stmt {
	g.use("co-transfer-matrix")
	co := g.fresh("ct")
	ny, nr := g.R.Range(0, 3), g.R.Range(0, 3)
	yv := make([]Expr, ny)
	for i := range yv {
		yv[i] = num(float64(10 + i))
	}
	rv := make([]Expr, nr)
	for i := range rv {
		rv[i] = num(float64(20 + i))
	}
	helper := &Func{Vararg: true, Body: []Stmt{ret(call("coroutine.yield", &Varargs{}))}}
	body := []Stmt{&LocalFunc{X: "deep", F: helper},
		emit(str("y1"), call("deep", yv...)),
		&Local{Names: []string{"a", "b"}, Es: []Expr{call("coroutine.yield", yv...)}}, emit(str("y2"), v("a"), v("b")),
		emit(str("y3"), &Paren{E: call("coroutine.yield")}), ret(call("select", str("#"), &Varargs{}), &Varargs{})}
	out := []Stmt{local1(co, call("coroutine.create", &Func{Vararg: true, Body: body}))}
	for i := 0; i < 5; i++ {
		out = append(out, emit(call("coroutine.resume", append([]Expr{v(co)}, rv...)...)), emit(call("coroutine.status", v(co))))
	}
	return out
}


// closeBeforeReturn: a loop body that ends in `if c then return end` (not taken) must still close
// the locals its closures captured; the loop lives in a function so that return is legal.
func (g *Gen) closeBeforeReturn(d int) []Stmt {
	g.use("closure-loop-ending-in-return")
	col, fs := g.fresh("collect"), g.fresh("cfs")
	body := []Stmt{local1("x", bin("*", v("i"), num(10))),
		set(&Index{E: v("out"), K: v("i")}, &Func{Body: []Stmt{set(v("x"), bin("+", v("x"), num(1))), ret(v("x"))}}),
		&If{C: bin(">", v("i"), num(100)), Then: []Stmt{ret(v("out"))}}}
	var loop Stmt = &NumFor{X: "i", A: num(1), B: num(3), Body: body}
	if g.R.Bool() {
		loop = &Do{Body: []Stmt{local1("i", num(0)), &While{C: bin("<", v("i"), num(3)), Body: append([]Stmt{set(v("i"), bin("+", v("i"), num(1)))}, body...)}}}
	}
	return []Stmt{&LocalFunc{X: col, F: &Func{Body: []Stmt{local1("out", &Table{}), loop, ret(v("out"))}}},
		local1(fs, call(col)), g.clobber(),
		emit(&Call{F: &Index{E: v(fs), K: num(1)}}, &Call{F: &Index{E: v(fs), K: num(2)}}, &Call{F: &Index{E: v(fs), K: num(3)}}, &Call{F: &Index{E: v(fs), K: num(1)}})}
}

// untilClosure: a closure that appears only in the until-condition captures a body local; every
// iteration has its own instance.
func (g *Gen) untilClosure(d int) []Stmt {
	g.use("closure-only-in-until")
	keep, ks, k := g.fresh("keep"), g.fresh("ks"), g.fresh("uk")
	return []Stmt{local1(ks, &Table{}), local1(k, num(0)),
		&LocalFunc{X: keep, F: &Func{Params: []string{"f"}, Body: []Stmt{set(&Index{E: v(ks), K: bin("+", &Un{Op: "#", A: v(ks)}, num(1))}, v("f")), ret(call("f"))}}},
		&Repeat{Body: []Stmt{set(v(k), bin("+", v(k), num(1))), local1("x", bin("*", v(k), num(10)))},
			C: bin(">=", call(keep, &Func{Body: []Stmt{ret(v("x"))}}), num(float64(10*g.R.Range(2, 3))))},
		g.clobber(), emit(v(k), &Call{F: &Index{E: v(ks), K: num(1)}}, &Call{F: &Index{E: v(ks), K: num(2)}})}
}

// protectNil: setmetatable(o, nil) on a protected metatable must raise too.
func (g *Gen) protectNil(d int) []Stmt {
	g.use("meta-protect-nil")
	o := g.fresh("po")
	return []Stmt{local1(o, call("setmetatable", &Table{}, &Table{Items: []TItem{{Kind: 1, Name: "__metatable", E: str("locked")}, {Kind: 1, Name: "__index", E: &Func{Params: []string{"t", "k"}, Body: []Stmt{ret(str("dflt"))}}}}})),
		emit(call("pcall", &Func{Body: []Stmt{ret(call("setmetatable", v(o), &Nil{}))}})), emit(call("getmetatable", v(o)), idx(v(o), "anything")),
		local1(o+"u", call("setmetatable", &Table{}, &Table{Items: []TItem{{Kind: 1, Name: "__index", E: &Func{Params: []string{"t", "k"}, Body: []Stmt{ret(str("u"))}}}}})),
		emit(idx(v(o+"u"), "a")), &CallS{E: call("setmetatable", v(o+"u"), &Nil{})}, emit(idx(v(o+"u"), "a"), call("getmetatable", v(o+"u")))}
}

// pcallAtDepth: a protected call that fails at every call depth 0..n (non-tail recursion), then
// the state keeps working — exercises frame-stack segment boundaries.
func (g *Gen) pcallAtDepth(d int) []Stmt {
	g.use("pcall-at-depth")
	dive := g.fresh("dive")
	n := g.R.Range(8, 17)
	return []Stmt{&LocalFunc{X: dive, F: &Func{Params: []string{"n"}, Body: []Stmt{
		&If{C: bin("==", v("n"), num(0)), Then: []Stmt{&Local{Names: []string{"ok", "e"}, Es: []Expr{call("pcall", v("error"), &Table{Items: []TItem{{Kind: 1, Name: "code", E: num(1)}}})}}, ret(v("ok"), idx(v("e"), "code"))}},
		&Local{Names: []string{"a", "b"}, Es: []Expr{call(dive, bin("-", v("n"), num(1)))}}, ret(v("a"), bin("+", v("b"), num(1)))}}},
		&NumFor{X: "dd", A: num(0), B: num(float64(n)), Body: []Stmt{emit(v("dd"), call(dive, v("dd")))}}}
}

// goBodyCoroutine: coroutines whose body is a host function.
func (g *Gen) goBodyCoroutine(d int) []Stmt {
	g.use("co-go-function-body")
	co := g.fresh("gc")
	return []Stmt{local1(co, call("coroutine.create", idx(v("math"), "max"))),
		emit(call("coroutine.resume", v(co), g.litInt(), g.litInt(), g.litInt())), emit(call("coroutine.status", v(co)), call("coroutine.running")),
		emit(call("coroutine.resume", v(co))),
		emit(&Call{F: call("coroutine.wrap", idx(v("string"), "rep")), Args: []Expr{str("ab"), num(2)}}),
		emit(call("coroutine.resume", call("coroutine.create", &Func{Body: []Stmt{emit(call("coroutine.resume", call("coroutine.create", idx(v("math"), "abs")), num(-3))), ret(call("coroutine.running") /* inside */)}})))}
}

// tailVararg: vararg functions with named parameters reached by tail calls with few arguments.
func (g *Gen) tailVararg(d int) []Stmt {
	g.use("tailcall-vararg")
	tv, c1, o := g.fresh("tv"), g.fresh("tc"), g.fresh("to")
	return []Stmt{&LocalFunc{X: tv, F: &Func{Params: []string{"a", "b"}, Vararg: true, Body: []Stmt{ret(v("a"), v("b"), call("select", str("#"), &Varargs{}), &Varargs{})}}},
		&LocalFunc{X: c1, F: &Func{Vararg: true, Body: []Stmt{ret(call(tv, &Varargs{}))}}},
		emit(call(c1)), emit(call(c1, num(1))), emit(call(c1, num(1), num(2), num(3))),
		&LocalFunc{X: tv + "a", F: &Func{Params: []string{"a"}, Vararg: true, Body: []Stmt{ret(idx(v("arg"), "n"), &Index{E: v("arg"), K: num(1)})}}},
		emit(&Call{F: &Paren{E: &Func{Body: []Stmt{ret(call(tv+"a", num(1), num(2), num(3)))}}}}),
		local1(o, &Table{}), &FuncStmt{Target: v(o), Method: "m", F: &Func{Params: []string{"p"}, Vararg: true, Body: []Stmt{ret(bin("==", v("self"), v(o)), v("p"), call("select", str("#"), &Varargs{}))}}},
		emit(&Call{F: &Paren{E: &Func{Body: []Stmt{ret(&Meth{O: v(o), M: "m"})}}}}), emit(&Call{F: &Paren{E: &Func{Body: []Stmt{ret(&Meth{O: v(o), M: "m", Args: []Expr{num(7), num(8)}})}}}})}
}

// operandMatrix: every operator with operands of every storage kind (constant, local, upvalue,
// global, table field, call result) on either side, in value, condition and argument context.
func (g *Gen) operandMatrix(d int) []Stmt {
	g.use("operand-matrix")
	la, ua, ga, tb, fn := g.fresh("la"), g.fresh("ua"), "GOM"+itoa(g.R.Intn(3)), g.fresh("tf"), g.fresh("om")
	val := func() float64 { return float64(g.R.Range(-3, 9)) }
	kinds := func(isStr bool) []Expr {
		if isStr {
			return []Expr{str(words[1+g.R.Intn(5)]), v(la + "s"), v(ua + "s"), idx(v(tb), "s"), &Call{F: v(fn + "s")}}
		}
		return []Expr{num(val()), v(la), v(ua), v(ga), idx(v(tb), "f"), &Index{E: v(tb), K: num(1)}, &Call{F: v(fn)}, &Paren{E: &Call{F: v(fn)}}}
	}
	pick := func(isStr bool) Expr { k := kinds(isStr); return k[g.R.Intn(len(k))] }
	var rows []Stmt
	ar := []string{"+", "-", "*", "/", "%", "^"}
	cm := []string{"<", "<=", ">", ">=", "==", "~="}
	for i := 0; i < 3; i++ {
		op := ar[g.R.Intn(4)]
		rows = append(rows, emit(bin(op, pick(false), pick(false)), bin(ar[g.R.Intn(4)], pick(false), num(val())), bin(op, num(val()), pick(false)), &Un{Op: "-", A: pick(false)}))
		c := cm[g.R.Intn(6)]
		rows = append(rows, emit(bin(c, pick(false), pick(false)), bin(c, num(val()), pick(false)), bin(c, pick(false), num(val())), bin(cm[4+g.R.Intn(2)], pick(false), &Nil{}), bin("==", pick(true), str("a")), bin(cm[g.R.Intn(4)], pick(true), pick(true))))
		rows = append(rows, emit(bin("..", pick(true), pick(false)), bin("..", pick(false), bin("..", pick(true), pick(true))), &Un{Op: "#", A: pick(true)}, &Un{Op: "not", A: pick(false)}))
		r := g.fresh("tr")
		rows = append(rows, local1(r, &And{A: pick(false), B: pick(true)}), set(v(r), &Or{A: &And{A: bin(c, pick(false), pick(false)), B: pick(false)}, B: pick(true)}), emit(v(r), &Or{A: &Nil{}, B: pick(false)}, &And{A: &False{}, B: pick(false)}, &Or{A: pick(false), B: &Call{F: v(fn)}}))
		rows = append(rows, &If{C: &And{A: bin(c, pick(false), pick(false)), B: &Un{Op: "not", A: bin("==", pick(true), pick(true))}}, Then: []Stmt{emit(str("T"))}, Else: []Stmt{emit(str("F"))}, HasElse: true})
	}
	// stores into every kind from a multi-valued call
	rows = append(rows, &Assign{LHS: []Expr{v(la), v(ua), v(ga), idx(v(tb), "f")}, Es: []Expr{&Call{F: v(fn + "m")}}}, emit(v(la), v(ua), v(ga), idx(v(tb), "f")),
		&Local{Names: []string{"n1", "n2", "n3"}}, local1("n4", &Nil{}), emit(v("n1"), v("n2"), v("n3"), v("n4")))
	inner := &Func{Body: rows}
	return []Stmt{local1(ua, num(val())), local1(ua+"s", str("up")), set(v(ga), num(val())),
		local1(tb, &Table{Items: []TItem{{Kind: 0, E: num(val())}, {Kind: 1, Name: "f", E: num(val())}, {Kind: 1, Name: "s", E: str("fs")}}}),
		&LocalFunc{X: fn, F: &Func{Body: []Stmt{ret(num(val()), num(99))}}}, &LocalFunc{X: fn + "s", F: &Func{Body: []Stmt{ret(str("cs"), str("x"))}}},
		&LocalFunc{X: fn + "m", F: &Func{Body: []Stmt{ret(num(val()), num(val()), num(val()))}}},
		&CallS{E: &Call{F: &Paren{E: &Func{Body: []Stmt{local1(la, num(val())), local1(la+"s", str("lo")), &CallS{E: &Call{F: &Paren{E: inner}}}}}}}}}
}

// parenGoCall: `return (g(x))` with host callees: exactly one value comes back.
func (g *Gen) parenGoCall(d int) []Stmt {
	g.use("return-paren-go-call")
	w1, w2, w3 := g.fresh("pw"), g.fresh("pw"), g.fresh("pw")
	return []Stmt{
		&LocalFunc{X: w1, F: &Func{Params: []string{"s"}, Body: []Stmt{ret(&Paren{E: &Call{F: idx(v("string"), "len"), Args: []Expr{v("s")}}})}}},
		&LocalFunc{X: w2, F: &Func{Params: []string{"x"}, Body: []Stmt{ret(&Paren{E: &Call{F: idx(v("math"), "floor"), Args: []Expr{v("x")}}})}}},
		&LocalFunc{X: w3, F: &Func{Vararg: true, Body: []Stmt{ret(&Paren{E: call("select", num(2), &Varargs{})})}}},
		&Local{Names: []string{"a", "b"}, Es: []Expr{call(w1, str(words[1+g.R.Intn(6)]))}}, emit(v("a"), v("b")),
		emit(call(w2, num(2.5)), num(9)), emit(call(w2, num(7.75))), emit(call("select", str("#"), call(w1, str("abc")))),
		emit(call(w3, num(1), num(2), num(3))), emit(call("select", str("#"), call(w3, num(1), num(2), num(3))))}
}

// argCaptured: the compatibility arg table read through a closure and through `arg or x`.
func (g *Gen) argCaptured(d int) []Stmt {
	g.use("vararg-arg-captured")
	mk, df := g.fresh("am"), g.fresh("ad")
	return []Stmt{
		&LocalFunc{X: mk, F: &Func{Vararg: true, Body: []Stmt{ret(&Func{Body: []Stmt{ret(idx(v("arg"), "n"), &Index{E: v("arg"), K: num(1)})}})}}},
		emit(&Call{F: call(mk, num(1), num(2), num(3))}), emit(&Call{F: call(mk)}),
		&LocalFunc{X: df, F: &Func{Vararg: true, Body: []Stmt{local1("t", &Or{A: v("arg"), B: &Table{Items: []TItem{{Kind: 1, Name: "n", E: num(-1)}}}}), ret(idx(v("t"), "n"))}}},
		emit(call(df, num(5), num(6)), call(df))}
}

// closureIdentity: every evaluation of a function expression yields a new closure, also an
// upvalue-free one; setfenv on one instance leaves the other alone.
func (g *Gen) closureIdentity(d int) []Stmt {
	g.use("closure-fresh-instance")
	mk, f1, f2 := g.fresh("ci"), g.fresh("cf"), g.fresh("cf")
	return []Stmt{set(v("GCI"), g.litInt()),
		&LocalFunc{X: mk, F: &Func{Body: []Stmt{ret(&Func{Body: []Stmt{ret(v("GCI"))}})}}},
		&Local{Names: []string{f1, f2}, Es: []Expr{call(mk), call(mk)}}, emit(bin("==", v(f1), v(f2)), bin("==", v(f1), v(f1))),
		&CallS{E: call("setfenv", v(f1), &Table{Items: []TItem{{Kind: 1, Name: "GCI", E: str("env1")}}})},
		emit(call(f1), call(f2), bin("==", call("getfenv", v(f1)), call("getfenv", v(f2)))),
		local1("fs", &Table{}), &NumFor{X: "i", A: num(1), B: num(3), Body: []Stmt{set(&Index{E: v("fs"), K: v("i")}, &Func{Body: []Stmt{ret(num(1))}})}},
		emit(bin("==", &Index{E: v("fs"), K: num(1)}, &Index{E: v("fs"), K: num(2)}))}
}

// localFuncScope: in `local f = function ... f ... end` the body's f is the f in scope BEFORE the
// statement (a global or an outer local); only `local function f` refers to itself.
func (g *Gen) localFuncScope(d int) []Stmt {
	g.use("local-function-expression-scope")
	f, h := g.fresh("lfs"), g.fresh("lfr")
	var pre Stmt = set(v(f), str("outer-global"))
	if g.R.Bool() {
		pre = local1(f, g.litInt())
	}
	var fe Expr = &Func{Body: []Stmt{ret(v(f))}}
	if g.R.Intn(3) == 0 {
		fe = &Paren{E: fe}
	}
	return []Stmt{pre, &Local{Names: []string{f}, Es: []Expr{fe}}, emit(call("type", call(f)), call(f)),
		&LocalFunc{X: h, F: &Func{Params: []string{"n"}, Body: []Stmt{
			&If{C: bin("==", v("n"), num(0)), Then: []Stmt{ret(call("type", v(h)))}}, ret(call(h, bin("-", v("n"), num(1))))}}},
		emit(call(h, num(2)))}
}

// nestedBlockClosure: the closure is created in a nested if/do/loop of the loop body and captures
// a local of the loop body: each iteration still has its own instance.
func (g *Gen) nestedBlockClosure(d int) []Stmt {
	g.use("closure-in-nested-block-of-loop")
	fs := g.fresh("nb")
	mk := func(inner []Stmt) []Stmt {
		switch g.R.Intn(3) {
		case 0:
			return []Stmt{&If{C: bin(">", v("i"), num(0)), Then: inner}}
		case 1:
			return []Stmt{&Do{Body: inner}}
		default:
			return []Stmt{&NumFor{X: "once", A: num(1), B: num(1), Body: inner}}
		}
	}
	body := append([]Stmt{local1("x", bin("*", v("i"), num(10)))},
		mk([]Stmt{set(&Index{E: v(fs), K: v("i")}, &Func{Body: []Stmt{set(v("x"), bin("+", v("x"), num(1))), ret(v("x"))}})})...)
	var loop Stmt = &NumFor{X: "i", A: num(1), B: num(3), Body: body}
	if g.R.Bool() {
		loop = &Do{Body: []Stmt{local1("i", num(0)), &While{C: bin("<", v("i"), num(3)), Body: append([]Stmt{set(v("i"), bin("+", v("i"), num(1)))}, body...)}}}
	}
	return []Stmt{local1(fs, &Table{}), loop, g.clobber(),
		emit(&Call{F: &Index{E: v(fs), K: num(1)}}, &Call{F: &Index{E: v(fs), K: num(2)}}, &Call{F: &Index{E: v(fs), K: num(3)}}, &Call{F: &Index{E: v(fs), K: num(1)}})}
}

// goCallHandler: __call handlers that are host functions, called normally and in tail position.
func (g *Gen) goCallHandler(d int) []Stmt {
	g.use("meta-call-host-handler")
	o, p := g.fresh("gh"), g.fresh("gh")
	return []Stmt{local1(o, call("setmetatable", &Table{Items: []TItem{{Kind: 1, Name: "x", E: g.litInt()}}}, &Table{Items: []TItem{{Kind: 1, Name: "__call", E: v("rawget")}}})),
		local1(p, call("setmetatable", &Table{}, &Table{Items: []TItem{{Kind: 1, Name: "__call", E: v("select")}}})),
		emit(&Call{F: v(o), Args: []Expr{str("x")}}), emit(&Call{F: &Paren{E: &Func{Body: []Stmt{ret(&Call{F: v(o), Args: []Expr{str("x")}})}}}}),
		emit(call("pcall", v(o), str("x"))), emit(call("type", &Call{F: &Paren{E: &Func{Body: []Stmt{ret(&Call{F: v(p), Args: []Expr{num(1), num(7)}})}}}}))}
}

// nilCompareHandlers: comparison handlers whose first result is nil / nothing / a non-boolean.
func (g *Gen) nilCompareHandlers(d int) []Stmt {
	g.use("meta-compare-nil-result")
	mt, a, b := g.fresh("nm"), g.fresh("na"), g.fresh("nb")
	res := []Stmt{ret(&Nil{})}
	switch g.R.Intn(3) {
	case 1:
		res = []Stmt{emit(str("h"))}
	case 2:
		res = []Stmt{ret(num(0))} // 0 is true in Lua
	}
	h := func(tag string) Expr {
		return &Func{Params: []string{"x", "y"}, Body: append([]Stmt{emit(str(tag))}, res...)}
	}
	return []Stmt{local1(mt, &Table{Items: []TItem{{Kind: 1, Name: "__eq", E: h("eq")}, {Kind: 1, Name: "__lt", E: h("lt")}, {Kind: 1, Name: "__le", E: h("le")}}}),
		local1(a, call("setmetatable", &Table{}, v(mt))), local1(b, call("setmetatable", &Table{}, v(mt))),
		emit(bin("==", v(a), v(b)), bin("~=", v(a), v(b)), bin("<", v(a), v(b)), bin("<=", v(a), v(b)), bin(">", v(a), v(b)), bin(">=", v(a), v(b))),
		&If{C: bin("<", v(a), v(b)), Then: []Stmt{emit(str("lt-true"))}, Else: []Stmt{emit(str("lt-false"))}, HasElse: true}}
}

// mixedTypeCompare: operands of DIFFERENT types are never compared through a handler, even when both
// carry the identical __lt/__le function (table vs string with a handler on the string metatable):
// "attempt to compare"; same-type operands with the same handler do call it.
func (g *Gen) mixedTypeCompare(d int) []Stmt {
	g.use("meta-compare-different-types-same-handler")
	h, mt, t, u := g.fresh("ch"), g.fresh("cm"), g.fresh("ct"), g.fresh("cu")
	smt := call("getmetatable", str(""))
	cmp := func(op string, a, b Expr) Stmt { return emit(call("pcall", &Func{Body: []Stmt{ret(bin(op, a, b))}})) }
	ops := []string{"<", "<=", ">", ">="}
	op1, op2 := ops[g.R.Intn(4)], ops[g.R.Intn(4)]
	return []Stmt{local1(h, &Func{Params: []string{"a", "b"}, Body: []Stmt{emit(str("cmp-handler"), call("type", v("a")), call("type", v("b"))), ret(&True{})}}),
		local1(mt, &Table{Items: []TItem{{Kind: 1, Name: "__lt", E: v(h)}, {Kind: 1, Name: "__le", E: v(h)}}}),
		local1(t, call("setmetatable", &Table{}, v(mt))), local1(u, call("setmetatable", &Table{}, v(mt))),
		set(&Index{E: smt, K: str("__lt")}, v(h)), set(&Index{E: smt, K: str("__le")}, v(h)),
		cmp(op1, v(t), str("a")), cmp(op2, str("a"), v(t)), cmp(op1, v(t), num(1)), cmp(op2, num(1), v(t)), cmp(op1, v(t), v(u)), cmp(op2, str("a"), str("b")),
		set(&Index{E: smt, K: str("__lt")}, &Nil{}), set(&Index{E: smt, K: str("__le")}, &Nil{})}
}

// gotoBackwardCaptured: a backward goto written inside a nested block that captures nothing, to a
// label of the enclosing block followed by a captured local: every pass has its own variable.
func (g *Gen) gotoBackwardCaptured(d int) []Stmt {
	g.use("goto-backward-over-captured-local")
	fs, c, l := g.fresh("gf"), g.fresh("gc"), g.label()
	jump := []Stmt{&Goto{L: l}}
	var nest Stmt
	switch g.R.Intn(3) {
	case 0:
		nest = &If{C: bin("<", v(c), num(3)), Then: jump}
	case 1:
		nest = &Do{Body: []Stmt{&If{C: bin("<", v(c), num(3)), Then: []Stmt{&Do{Body: jump}}}}}
	default:
		nest = &While{C: bin("<", v(c), num(3)), Body: jump}
	}
	return []Stmt{&Do{Body: []Stmt{&Local{Names: []string{fs, c}, Es: []Expr{&Table{}, num(0)}}, &Label{L: l},
		local1("x", bin("*", v(c), num(10))),
		set(&Index{E: v(fs), K: bin("+", &Un{Op: "#", A: v(fs)}, num(1))}, &Func{Body: []Stmt{set(v("x"), bin("+", v("x"), num(1))), ret(v("x"))}}),
		set(v(c), bin("+", v(c), num(1))), nest,
		emit(&Call{F: &Index{E: v(fs), K: num(1)}}, &Call{F: &Index{E: v(fs), K: num(1)}}, &Call{F: &Index{E: v(fs), K: num(2)}}, &Call{F: &Index{E: v(fs), K: num(3)}})}}}
}

// lateClosureJump: the closure that captures a local comes AFTER the goto/break in the text but
// runs before it (reached by another backward goto): the jump must still close the variable.
func (g *Gen) lateClosureJump(d int) []Stmt {
	g.use("jump-before-capturing-closure-in-text")
	a, b := float64(g.R.Intn(5)), float64(1+g.R.Intn(5))
	if g.R.Bool() {
		fns, i, l, m := g.fresh("lf"), g.fresh("li"), g.label(), g.label()
		return []Stmt{&Local{Names: []string{fns, i}, Es: []Expr{&Table{}, num(a)}},
			&Do{Body: []Stmt{&Label{L: l}, local1("x", bin("*", v(i), num(b))), &Label{L: m}, set(v(i), bin("+", v(i), num(1))),
				&If{C: bin("==", v(i), num(a+2)), Then: []Stmt{&Goto{L: l}}},
				set(&Index{E: v(fns), K: bin("+", &Un{Op: "#", A: v(fns)}, num(1))}, &Func{Body: []Stmt{ret(v("x"))}}),
				&If{C: bin("==", v(i), num(a+1)), Then: []Stmt{&Goto{L: m}}}}},
			g.clobber(), emit(&Call{F: &Index{E: v(fns), K: num(1)}}, &Call{F: &Index{E: v(fns), K: num(2)}}, &Un{Op: "#", A: v(fns)})}
	}
	f, l, y := g.fresh("lb"), g.label(), g.fresh("ly")
	var loop Stmt = &While{C: &True{}, Body: []Stmt{local1("x", num(a)), &Label{L: l}, &If{C: v(f), Then: []Stmt{&Break{}}},
		set(v(f), &Func{Body: []Stmt{set(v("x"), bin("+", v("x"), num(1))), ret(v("x"))}}), &Goto{L: l}}}
	if g.R.Bool() {
		loop = &NumFor{X: "k", A: num(1), B: num(3), Body: []Stmt{local1("x", bin("+", v("k"), num(a))), &Label{L: l},
			&If{C: v(f), Then: []Stmt{&Do{Body: []Stmt{&Break{}}}}}, set(v(f), &Func{Body: []Stmt{set(v("x"), bin("+", v("x"), num(1))), ret(v("x"))}}), &Goto{L: l}}}
	}
	return []Stmt{&Do{Body: []Stmt{&Local{Names: []string{f}}, loop, local1(y, num(b+100)), g.clobber(), emit(call(f), v(y), call(f))}}}
}

// handlerReinstall: a handler removed from a metatable, missed once, and installed again must be
// honoured again (no stale "this metatable has no such handler" knowledge), for __index,
// __newindex and __call.
func (g *Gen) handlerReinstall(d int) []Stmt {
	g.use("meta-handler-removed-and-reinstalled")
	mt, o := g.fresh("hm"), g.fresh("ho")
	ix := func(tag string) Expr { return &Func{Params: []string{"t", "k"}, Body: []Stmt{ret(str(tag))}} }
	ni := func(tag string) Expr {
		return &Func{Params: []string{"t", "k", "x"}, Body: []Stmt{emit(str(tag), v("k"), v("x"))}}
	}
	cl := func(tag string) Expr { return &Func{Params: []string{"self", "a"}, Body: []Stmt{ret(str(tag), v("a"))}} }
	fld := func(n string) Expr { return &Index{E: v(mt), K: str(n)} }
	probe := func() []Stmt {
		return []Stmt{emit(&Index{E: v(o), K: str("x")}), set(&Index{E: v(o), K: str("y")}, num(1)), emit(call("rawget", v(o), str("y"))),
			set(&Index{E: v(o), K: str("y")}, &Nil{}), emit(call("pcall", &Func{Body: []Stmt{ret(&Call{F: v(o), Args: []Expr{num(5)}})}}))}
	}
	st := []Stmt{local1(mt, &Table{Items: []TItem{{Kind: 1, Name: "__index", E: ix("i1")}, {Kind: 1, Name: "__newindex", E: ni("n1")}, {Kind: 1, Name: "__call", E: cl("c1")}}}),
		local1(o, call("setmetatable", &Table{}, v(mt)))}
	st = append(st, probe()...)
	st = append(st, set(fld("__index"), &Nil{}), set(fld("__newindex"), &Nil{}), set(fld("__call"), &Nil{}))
	for k := g.R.Intn(3); k >= 0; k-- { // missed once or several times
		st = append(st, probe()...)
	}
	if g.R.Bool() {
		st = append(st, set(fld("other"), num(1))) // a brand-new key in between
	}
	st = append(st, set(fld("__index"), ix("i2")), set(fld("__newindex"), ni("n2")), set(fld("__call"), cl("c2")))
	st = append(st, probe()...)
	if g.R.Bool() { // handlers given as tables the second time
		st = append(st, set(fld("__index"), &Table{Items: []TItem{{Kind: 1, Name: "x", E: str("from-table")}}}), local1("sink", &Table{}), set(fld("__newindex"), v("sink")))
		st = append(st, emit(&Index{E: v(o), K: str("x")}), set(&Index{E: v(o), K: str("z")}, num(2)), emit(call("rawget", v(o), str("z")), &Index{E: v("sink"), K: str("z")}))
	}
	return st
}

// genforCompound: the expression list of a generic for contains calls that are operands of
// something else (call of a call result, index of a call result by a call result, concatenation).
func (g *Gen) genforCompound(d int) []Stmt {
	g.use("genfor-compound-iterator-expression")
	mk, ft, key := g.fresh("gm"), g.fresh("gt"), g.fresh("gk")
	n := float64(1 + g.R.Intn(3))
	pre := []Stmt{
		&LocalFunc{X: mk, F: &Func{Body: []Stmt{ret(&Func{Params: []string{"n"}, Body: []Stmt{local1("i", num(0)),
			ret(&Func{Body: []Stmt{set(v("i"), bin("+", v("i"), num(1))), &If{C: bin("<=", v("i"), v("n")), Then: []Stmt{ret(v("i"), bin("*", v("i"), num(10)))}}}})}})}}},
		&LocalFunc{X: ft, F: &Func{Body: []Stmt{ret(&Table{Items: []TItem{{Kind: 1, Name: "k", E: &Table{Items: []TItem{{E: num(10)}, {E: num(20)}}}}}})}}},
		&LocalFunc{X: key, F: &Func{Body: []Stmt{ret(str("k"))}}},
	}
	body := func(xs ...string) []Stmt {
		args := make([]Expr, len(xs))
		for i, x := range xs {
			args[i] = v(x)
		}
		return []Stmt{emit(args...)}
	}
	idx := &Index{E: call(ft), K: call(key)}
	loops := []Stmt{
		&GenFor{Xs: []string{"i", "x"}, Es: []Expr{&Call{F: call(mk), Args: []Expr{num(n)}}}, Body: body("i", "x")},
		&GenFor{Xs: []string{"i", "x"}, Es: []Expr{call("ipairs", idx)}, Body: body("i", "x")},
		&GenFor{Xs: []string{"i", "x"}, Es: []Expr{v("next"), idx}, Body: body("i", "x")},
		&GenFor{Xs: []string{"i"}, Es: []Expr{&Call{F: &Paren{E: call(mk)}, Args: []Expr{bin("+", &Un{Op: "#", A: bin("..", call(key), str("z"))}, num(0))}}}, Body: body("i")},
	}
	k := g.R.Intn(len(loops))
	return append(pre, loops[k], loops[(k+1+g.R.Intn(len(loops)-1))%len(loops)])
}

// genforFalse: a generic for continues while the first value is not nil; false is not nil.
func (g *Gen) genforFalse(d int) []Stmt {
	g.use("genfor-first-value-false")
	n := g.fresh("gn")
	lim := 2 + g.R.Intn(3)
	var first Expr = bin("==", bin("%", v(n), num(2)), num(0))
	if g.R.Bool() {
		first = &False{}
	}
	it := &Func{Params: []string{"s", "c"}, Body: []Stmt{set(v(n), bin("+", v(n), num(1))),
		&If{C: bin(">", v(n), num(float64(lim))), Then: []Stmt{ret(&Nil{})}}, ret(first, v(n), v("c"))}}
	return []Stmt{local1(n, num(0)), &GenFor{Xs: []string{"k", "x", "pc"}, Es: []Expr{it, str("state"), &False{}}, Body: []Stmt{emit(v("k"), v("x"), v("pc"))}}, emit(v(n))}
}

// wrapErrorInsideCoroutine: a wrapped coroutine dies by error while its resumer is itself a
// coroutine, which then inspects running()/status; and closures escaped from the dead one.
func (g *Gen) wrapErrorInsideCoroutine(d int) []Stmt {
	g.use("co-wrap-error-inside-coroutine")
	outer, f := g.fresh("wo"), g.fresh("wf")
	return []Stmt{&Local{Names: []string{outer, f}},
		set(v(outer), call("coroutine.create", &Func{Body: []Stmt{
			emit(call("pcall", call("coroutine.wrap", &Func{Body: []Stmt{local1("x", g.litInt()), set(v(f), &Func{Body: []Stmt{set(v("x"), bin("+", v("x"), num(1))), ret(v("x"))}}),
				&CallS{E: call("error", &Table{Items: []TItem{{Kind: 1, Name: "code", E: num(3)}}})}}}))),
			emit(bin("==", call("coroutine.running"), v(outer)), call("coroutine.status", v(outer))),
			&CallS{E: call("coroutine.yield", num(1))}, emit(call("coroutine.status", v(outer))), ret(str("end"))}})),
		emit(call("coroutine.resume", v(outer))), emit(call("coroutine.status", v(outer)), call("coroutine.running")),
		emit(call("coroutine.resume", v(outer))), emit(call(f), call(f))}
}

// deadByFaultClosure: a coroutine dies by a runtime fault in the frame that owns a captured local.
func (g *Gen) deadByFaultClosure(d int) []Stmt {
	g.use("co-dead-by-fault-closure")
	co, f := g.fresh("df"), g.fresh("dg")
	return []Stmt{&Local{Names: []string{f}},
		local1(co, call("coroutine.create", &Func{Body: []Stmt{local1("x", g.litInt()), set(v(f), &Func{Body: []Stmt{set(v("x"), bin("+", v("x"), num(1))), ret(v("x"))}}),
			&CallS{E: call("coroutine.yield", call(f))}, local1("z", &Nil{}), ret(idx(v("z"), "y"))}})),
		emit(call("coroutine.resume", v(co))), emit(call("coroutine.resume", v(co))), emit(call("coroutine.status", v(co))), g.clobber(), emit(call(f), call(f))}
}

// constBoundary: functions whose own constant tables put the constants used as method names, field
// names, string/number operands exactly at and around index 255/256 (the RK operand limit).
func (g *Gen) constBoundary(d int) []Stmt {
	g.use("constant-index-boundary")
	var out []Stmt
	for _, n := range []int{253 + g.R.Intn(2), 255, 256, 257 + g.R.Intn(2)}[g.R.Intn(2):][:3] {
		fn := g.fresh("kb")
		pad := &Table{}
		for i := 0; i < n; i++ {
			pad.Items = append(pad.Items, TItem{Kind: 0, E: num(float64(500000 + i))})
		}
		body := []Stmt{local1("pad", pad), local1("o", &Table{Items: []TItem{{Kind: 1, Name: "tag", E: num(1)}}}),
			&FuncStmt{Target: v("o"), Method: "mb" + itoa(n), F: &Func{Params: []string{"x"}, Body: []Stmt{ret(bin("+", idx(v("self"), "tag"), &Or{A: v("x"), B: num(0)}))}}},
			set(idx(v("o"), "fb"+itoa(n)), str("field")),
			ret(&Un{Op: "#", A: v("pad")}, &Meth{O: v("o"), M: "mb" + itoa(n), Args: []Expr{num(4)}}, idx(v("o"), "fb"+itoa(n)),
				bin("==", idx(v("o"), "fb"+itoa(n)), str("field")), bin("+", v("p"), num(777001)), bin("..", str("kz"), v("p")), bin("<", v("p"), num(777002)))}
		out = append(out, &LocalFunc{X: fn, F: &Func{Params: []string{"p"}, Body: body}}, emit(call(fn, g.litInt())))
	}
	return out
}

// rawsetChain: rawset returns its table (chaining, `return rawset(self, k, v)[k]` in a memoizing
// __index handler whose raw store bypasses __newindex); setmetatable with the second argument
// missing is an error that leaves the metatable in place.
func (g *Gen) rawsetChain(d int) []Stmt {
	g.use("meta-rawset-result")
	t, m := g.fresh("rs"), g.fresh("rm")
	k1, k2 := g.litInt(), g.litInt()
	memo := &Func{Params: []string{"self", "k"}, Body: []Stmt{emit(str("miss"), v("k")),
		ret(&Index{E: call("rawset", v("self"), v("k"), bin("..", str("v"), v("k"))), K: v("k")})}}
	ni := &Func{Params: []string{"self", "k", "x"}, Body: []Stmt{emit(str("newindex-must-not-run"))}}
	return []Stmt{
		local1(t, &Table{}),
		emit(call("select", str("#"), call("rawset", v(t), k1, g.litInt())), bin("==", call("rawset", v(t), k2, g.litInt()), v(t))),
		emit(&Index{E: call("rawset", call("rawset", &Table{}, num(1), str("a")), num(2), str("b")), K: num(1 + float64(g.R.Intn(2)))}),
		local1(m, call("setmetatable", &Table{}, &Table{Items: []TItem{{Kind: 1, Name: "__index", E: memo}, {Kind: 1, Name: "__newindex", E: ni}}})),
		emit(&Index{E: v(m), K: k1}, &Index{E: v(m), K: k1}, call("rawget", v(m), k1)),
		emit(bin("==", call("pcall", v("setmetatable"), v(m)), &False{}), &Index{E: v(m), K: k2}),
	}
}

// xpcallCallable: xpcall does not type-check its first argument: a callable table is called through
// __call inside the protected call, a non-callable value is an error the handler receives.
func (g *Gen) xpcallCallable(d int) []Stmt {
	g.use("meta-xpcall-callable")
	c := g.fresh("xc")
	h := &Func{Params: []string{"e"}, Body: []Stmt{emit(str("handler"), call("type", v("e"))), ret(str("h"))}}
	bad := []Expr{num(42), &Table{}, &Nil{}, str("s")}[g.R.Intn(4)]
	return []Stmt{
		local1(c, call("setmetatable", &Table{}, &Table{Items: []TItem{{Kind: 1, Name: "__call",
			E: &Func{Params: []string{"self"}, Vararg: true, Body: []Stmt{emit(str("called"), call("type", v("self")), call("select", str("#"), &Varargs{})), ret(g.litInt(), g.litInt())}}}}})),
		emit(call("xpcall", v(c), h)),
		emit(call("xpcall", bad, h)),
	}
}

// callableHandlers: a metamethod handler that is a callable table (has __call) is called like any
// non-nil handler (Lua 5.1 call_binTM/call_orderTM/luaL_callmeta go through luaD_call); an
// __index/__newindex that is a callable table is indexed/assigned, not called.
func (g *Gen) callableHandlers(d int) []Stmt {
	g.use("meta-callable-table-handler")
	h, mt, x, y := g.fresh("kh"), g.fresh("km"), g.fresh("kx"), g.fresh("ky")
	ri := g.R.Intn(4)
	res := []Expr{str("handled"), num(1), &False{}, &Nil{}}[ri]
	// the second operand is not logged: for __unm lvm.c passes the operand twice, the manual's
	// unm_event once (gopher-lua follows the manual, the reference evaluator lvm.c)
	hbody := &Func{Params: []string{"self", "a"}, Body: []Stmt{emit(str("H"), call("type", v("self")), call("type", v("a"))), ret(res)}}
	evs := []string{"__add", "__sub", "__mul", "__concat", "__unm", "__eq", "__lt", "__le", "__tostring"}
	items := []TItem{}
	for _, e := range evs {
		if e == "__tostring" && ri != 0 {
			continue // a non-string result of __tostring is an error in 5.1's tostring
		}
		if g.R.Intn(4) != 0 {
			items = append(items, TItem{Kind: 1, Name: e, E: v(h)})
		}
	}
	p := func(e Expr) Stmt { return emit(call("pcall", &Func{Body: []Stmt{ret(e)}})) }
	return []Stmt{
		local1(h, call("setmetatable", &Table{Items: []TItem{{Kind: 1, Name: "k", E: str("field")}}}, &Table{Items: []TItem{{Kind: 1, Name: "__call", E: hbody}}})),
		local1(mt, &Table{Items: items}),
		local1(x, call("setmetatable", &Table{}, v(mt))), local1(y, call("setmetatable", &Table{}, v(mt))),
		p(bin("+", v(x), g.litInt())), p(bin("-", g.litInt(), v(x))), p(bin("*", v(x), v(y))), p(bin("..", v(x), str("s"))),
		p(&Un{Op: "-", A: v(x)}), p(bin("==", v(x), v(y))), p(bin("<", v(x), v(y))), p(bin("<=", v(x), v(y))), p(bin(">", v(x), v(y))),
		p(call("type", call("tostring", v(x)))),
		emit(idx(call("setmetatable", &Table{}, &Table{Items: []TItem{{Kind: 1, Name: "__index", E: v(h)}}}), "k")),
	}
}
