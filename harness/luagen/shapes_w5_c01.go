package luagen

import "verifh/lib"

// Wave-5 shapes of C01.
//
// valueListMatrix: one LIST of value expressions — every value kind the compiler treats specially
// (constant, local, upvalue, global, field, arithmetic, and/or in value context, comparison, not,
// concatenation, length, closed and open calls, method calls, `...`, parenthesised multi-values,
// a call that changes a variable read elsewhere in the list) — placed in every context that
// allocates one temporary per value and consumes them afterwards: a multiple assignment to a mix
// of local / upvalue / global / field / computed-index targets (fewer, equal and more values than
// targets, open call or `...` last), `local` with several names, call arguments, table constructors
// (positional, named, keyed), `return` lists, method-call arguments. Each value of the list is
// distinguishable, every target is observed afterwards (through an alias of the table), so a
// temporary that is overwritten by the evaluation of a LATER value of the same list, or a store
// that happens before a later value is read, changes the trace.
//
// forOperandMatrix: numeric for whose init / limit / step come, independently, from a number or
// a numeral string held in every storage kind (literal, local, upvalue, global, field, call
// result, concatenation result, and/or value), positive, negative, fractional and omitted steps,
// zero to five iterations, bodies that assign the loop variable or the variables the operands
// came from, capture the loop variable, break; the same loop inside a function called several
// times with operands of changing types (also after a caught 'for' operand error); arithmetic,
// unary minus and concatenation on the same numeral strings from the same storage kinds.

// w5env: the names one instance of a shape works with.
type w5env struct {
	la, lb, ls, ln, lf string // locals of the innermost function
	ua, ub, us         string // locals of the enclosing function when nested (upvalues), else locals
	ga                 string // a global
	t, u               string // a table and an alias of it
	two, id, bump      string // local functions: two values, identity on ..., side effect on ua
	nested             bool
	freshFn            bool // the rounds are the body of a function of the shape's own
	va                 bool // `...` may be used here
	k                  int  // counter for distinguishable constants
}

func (g *Gen) w5newEnv() *w5env {
	p := g.fresh("w")
	return &w5env{la: p + "la", lb: p + "lb", ls: p + "ls", ln: p + "ln", lf: p + "lf", ua: p + "ua", ub: p + "ub", us: p + "us",
		ga: "GW5" + itoa(g.R.Intn(3)), t: p + "t", u: p + "u", two: p + "two", id: p + "id", bump: p + "bump"}
}

// w5outer: declarations shared by all rounds (they are upvalues of the rounds when nested).
func (g *Gen) w5outer(e *w5env) []Stmt {
	return []Stmt{
		&Local{Names: []string{e.ua, e.ub, e.us}, Es: []Expr{num(6), num(8), str("u")}},
		&Local{Names: []string{e.t, e.u}},
		&LocalFunc{X: e.two, F: &Func{Body: []Stmt{ret(num(21), num(22))}}},
		&LocalFunc{X: e.id, F: &Func{Vararg: true, Body: []Stmt{ret(&Varargs{})}}},
		&LocalFunc{X: e.bump, F: &Func{Body: []Stmt{set(v(e.ua), bin("+", v(e.ua), num(100))), ret(num(23))}}},
	}
}

// w5reset: state every round starts from (so that a round never sees the stores of an earlier one).
func (g *Gen) w5reset(e *w5env) []Stmt {
	a, b := float64(2+g.R.Intn(2)), float64(4+g.R.Intn(2))
	out := []Stmt{}
	// a varying number of unrelated locals first: the temporaries of the statement under test land
	// on different registers
	// (many of them only at the top of a function of the shape's own: the enclosing generated
	// function may already be close to the compiler's limit of 200 locals)
	big := 0
	if e.freshFn {
		big = 1
	}
	if n := g.R.Pick(50, 30, 13, 5*big, 2*big); n > 0 {
		cnt := []int{0, 1, 3, 40, 150}[n] + g.R.Intn(3)
		names := make([]string, cnt)
		for i := range names {
			names[i] = g.fresh("pd")
		}
		out = append(out, &Local{Names: names, Es: []Expr{num(float64(g.R.Intn(9)))}})
	}
	out = append(out,
		&Local{Names: []string{e.la, e.lb}, Es: []Expr{num(a), num(b)}},
		&Local{Names: []string{e.ls, e.ln, e.lf}, Es: []Expr{str("s"), &Nil{}, &False{}}},
		&Assign{LHS: []Expr{v(e.ua), v(e.ub), v(e.ga)}, Es: []Expr{num(6), num(8), num(5)}},
		set(v(e.t), &Table{Items: []TItem{{Kind: 1, Name: "x", E: num(40)}, {Kind: 2, K: num(1), E: num(41)}, {Kind: 1, Name: "n", E: &Table{}}}}),
		set(v(e.u), v(e.t)))
	return out
}

// w5observe: every variable and every table slot a round may have stored into.
func (g *Gen) w5observe(e *w5env) []Stmt {
	u := v(e.u)
	at := func(k float64) Expr { return &Index{E: u, K: num(k)} }
	return []Stmt{
		emit(v(e.la), v(e.lb), v(e.ua), v(e.ub), v(e.ga), v(e.ls)),
		emit(idx(u, "x"), idx(u, "y"), idx(u, "z"), idx(idx(u, "n"), "w"), at(1), at(2), at(3)),
		emit(at(5), at(6), at(9), idx(u, "k2"), idx(u, "k3"), bin("==", v(e.t), u)),
	}
}

func (e *w5env) konst() Expr { e.k++; return num(float64(100 + e.k)) }

// w5andor: and/or in value context, every result kind (first operand, second operand, nil,
// false, a call truncated to one value).
func (g *Gen) w5andor(e *w5env) Expr {
	la, lb, ln, lf := v(e.la), v(e.lb), v(e.ln), v(e.lf)
	switch g.R.Intn(12) {
	case 0:
		return &And{A: la, B: lb}
	case 1:
		return &Or{A: ln, B: lb}
	case 2:
		return &Or{A: lf, B: str("d")}
	case 3:
		return &Or{A: &And{A: bin(">", la, num(2)), B: str("y")}, B: str("n")}
	case 4:
		return &And{A: ln, B: num(1)}
	case 5:
		return &Or{A: ln, B: &Call{F: v(e.two)}}
	case 6:
		return &Or{A: lf, B: ln}
	case 7:
		return &Or{A: v(e.ua), B: e.konst()}
	case 8:
		return &And{A: idx(v(e.t), "x"), B: bin("+", la, v(e.ub))}
	case 9:
		return &Paren{E: &Or{A: &And{A: lf, B: la}, B: &And{A: lb, B: e.konst()}}}
	case 10:
		return &And{A: bin("==", v(e.ls), str("s")), B: &Or{A: ln, B: v(e.ga)}}
	default:
		return &Or{A: &Un{Op: "not", A: la}, B: &And{A: lb, B: &Call{F: v(e.id), Args: []Expr{e.konst()}}}}
	}
}

// w5value: one value of a list (never multi-valued: open forms are truncated).
func (g *Gen) w5value(e *w5env) Expr {
	la, lb := v(e.la), v(e.lb)
	switch g.R.Pick(8, 5, 10, 7, 6, 7, 10, 24, 7, 6, 3, 12, 4, 4, 4, 4, 3) {
	case 0:
		return e.konst()
	case 1:
		return str([]string{"c", "k", "10", ""}[g.R.Intn(4)])
	case 2:
		return []Expr{la, lb, v(e.ls)}[g.R.Intn(3)]
	case 3:
		return []Expr{v(e.ua), v(e.ub), v(e.us)}[g.R.Intn(3)]
	case 4:
		return v(e.ga)
	case 5:
		return []Expr{idx(v(e.t), "x"), &Index{E: v(e.t), K: num(1)}, &Index{E: v(e.u), K: bin("-", la, bin("-", la, num(1)))}, idx(v(e.t), "absent")}[g.R.Intn(4)]
	case 6:
		return []Expr{bin("+", la, num(1)), bin("*", v(e.ua), num(2)), &Un{Op: "-", A: lb}, bin("+", la, bin("*", lb, num(2))), bin("-", v(e.ga), idx(v(e.t), "x"))}[g.R.Intn(5)]
	case 7:
		return g.w5andor(e)
	case 8:
		return []Expr{bin("<", la, lb), bin("==", la, v(e.ua)), bin("~=", v(e.ls), str("s")), &Un{Op: "not", A: v(e.ln)}, &Un{Op: "not", A: la}, bin(">=", lb, num(4))}[g.R.Intn(6)]
	case 9:
		return []Expr{bin("..", str("p"), la), bin("..", la, bin("..", str("-"), lb)), bin("..", v(e.ls), v(e.us))}[g.R.Intn(3)]
	case 10:
		return &Un{Op: "#", A: []Expr{v(e.ls), str("abc")}[g.R.Intn(2)]}
	case 11:
		return []Expr{&Call{F: v(e.id), Args: []Expr{la}}, &Paren{E: &Call{F: v(e.two)}}, &Call{F: v(e.two)}, &Call{F: v(e.id), Args: []Expr{lb, e.konst()}},
			&Call{F: v(e.id)}, &Call{F: v("type"), Args: []Expr{v(e.ln)}}}[g.R.Intn(6)]
	case 12:
		return []Expr{&Meth{O: v(e.ls), M: "upper"}, &Meth{O: v(e.ls), M: "rep", Args: []Expr{num(2)}}}[g.R.Intn(2)]
	case 13:
		if e.va {
			return []Expr{&Varargs{}, &Paren{E: &Varargs{}}}[g.R.Intn(2)]
		}
		return &Paren{E: &Call{F: v(e.id), Args: []Expr{la, lb}}}
	case 14:
		return &Call{F: v(e.bump)}
	case 15:
		return []Expr{&Nil{}, &True{}, &False{}}[g.R.Intn(3)]
	default:
		return &Index{E: &Paren{E: &Table{Items: []TItem{{Kind: 0, E: la}, {Kind: 0, E: lb}}}}, K: num(2)}
	}
}

// w5values: a list of n values; with open the last one may deliver 0, 2 or 3 values.
func (g *Gen) w5values(e *w5env, n int, open bool) []Expr {
	vals := make([]Expr, n)
	for i := range vals {
		vals[i] = g.w5value(e)
	}
	if open && n > 0 && g.R.Chance(35) {
		opens := []Expr{&Call{F: v(e.two)}, &Call{F: v(e.id), Args: []Expr{v(e.la), v(e.lb), num(7)}}, &Call{F: v(e.id)},
			&Call{F: v(e.id), Args: []Expr{g.w5andor(e), &Call{F: v(e.two)}}}}
		if e.va {
			opens = append(opens, &Varargs{})
		}
		vals[n-1] = opens[g.R.Intn(len(opens))]
	}
	return vals
}

// w5targets: n distinct assignment targets (distinct variables, distinct keys of the one table).
func (g *Gen) w5targets(e *w5env, n int) []Expr {
	t, u, la, lb := v(e.t), v(e.u), v(e.la), v(e.lb)
	pool := []Expr{
		la, lb, v(e.ua), v(e.ub), v(e.ga), v(e.ls),
		idx(t, "x"), idx(t, "y"), idx(u, "z"), idx(idx(t, "n"), "w"),
		&Index{E: t, K: num(1)}, &Index{E: t, K: la}, &Index{E: u, K: bin("+", lb, num(1))},
		&Index{E: t, K: &Call{F: v(e.id), Args: []Expr{num(9)}}}, &Index{E: t, K: bin("..", str("k"), la)},
	}
	// prefixes that are not plain names: a parenthesised and/or, a call
	switch g.R.Intn(4) {
	case 0:
		pool[7] = idx(&Paren{E: &Or{A: v(e.lf), B: t}}, "y")
	case 1:
		pool[8] = idx(&Call{F: v(e.id), Args: []Expr{u}}, "z")
	}
	// table targets twice as likely as variables
	w := make([]int, len(pool))
	for i := range w {
		w[i] = 2
		if i < 6 {
			w[i] = 1
		}
	}
	out := []Expr{}
	for len(out) < n {
		i := g.R.Pick(w...)
		out = append(out, pool[i])
		w[i] = 0
	}
	// a statement must not begin with a parenthesis (it would continue the previous line as a call)
	if ix, ok := out[0].(*Index); ok && n > 1 {
		if _, par := ix.E.(*Paren); par {
			out[0], out[1] = out[1], out[0]
		}
	}
	return out
}

// w5round: one statement under test with its reset and its observation.
func (g *Gen) w5round(e *w5env) []Stmt {
	out := g.w5reset(e)
	switch g.R.Pick(50, 10, 10, 12, 10, 8, 10) {
	case 6:
		// two operands that both need a temporary (the first one is alive while the second is
		// evaluated): operators, comparisons, concatenation, table and key of an index
		g.use("w5-operand-pairs")
		nv := func() Expr {
			la, lb := v(e.la), v(e.lb)
			// (nested: ua is an upvalue; `ua + bump()` is not generated there: the interpreter, like
			// lcode.c, copies an upvalue operand before the right operand runs, while the reference
			// evaluator's late-read rule of Eval.v EBin treats every variable in scope as a register
			// local - a slip of the reference found by this shape in C02's thorough tier, see notes)
			var bump Expr = &Call{F: v(e.bump)}
			if e.nested {
				bump = &Call{F: v(e.id), Args: []Expr{num(23)}}
			}
			return []Expr{la, v(e.ua), v(e.ga), idx(v(e.t), "x"), &Paren{E: &Or{A: v(e.ln), B: lb}}, &Paren{E: &And{A: la, B: v(e.ub)}},
				&Call{F: v(e.id), Args: []Expr{la}}, &Paren{E: &Call{F: v(e.two)}}, bin("+", la, num(1)), bump,
				&Paren{E: &Or{A: &And{A: v(e.lf), B: la}, B: &Call{F: v(e.two)}}}, e.konst()}[g.R.Intn(12)]
		}
		tv := func() Expr {
			return []Expr{v(e.t), &Paren{E: &Or{A: v(e.lf), B: v(e.t)}}, &Call{F: v(e.id), Args: []Expr{v(e.u)}}, &Paren{E: &And{A: v(e.ls), B: v(e.u)}}}[g.R.Intn(4)]
		}
		kv := func() Expr {
			return []Expr{str("x"), num(1), &Paren{E: &Or{A: v(e.ln), B: num(1)}}, &Paren{E: &And{A: v(e.la), B: str("x")}}, &Call{F: v(e.id), Args: []Expr{str("x")}},
				bin("-", v(e.la), bin("-", v(e.la), num(1)))}[g.R.Intn(6)]
		}
		ar := []string{"+", "-", "*", "/", "%"}
		cm := []string{"<", "<=", ">", ">=", "==", "~="}
		out = append(out,
			emit(bin(ar[g.R.Intn(5)], nv(), nv()), bin(cm[g.R.Intn(6)], nv(), nv()), bin("..", nv(), nv()), bin("..", nv(), bin("..", nv(), nv()))),
			emit(&Index{E: tv(), K: kv()}, &Index{E: tv(), K: kv()}, bin(ar[g.R.Intn(3)], &Index{E: tv(), K: kv()}, nv()), &Un{Op: "-", A: nv()}, &Un{Op: "not", A: nv()}))
	case 0:
		g.use("w5-assign-matrix")
		n := g.R.Range(2, 4)
		nv := n
		switch g.R.Pick(60, 20, 20) {
		case 1:
			nv = n + g.R.Range(1, 2)
			g.use("w5-assign-extra-values")
		case 2:
			nv = n - 1
			g.use("w5-assign-fewer-values")
		}
		out = append(out, &Assign{LHS: g.w5targets(e, n), Es: g.w5values(e, nv, true)})
	case 1:
		g.use("w5-local-list")
		n := g.R.Range(2, 4)
		names := make([]string, n)
		refs := make([]Expr, n)
		for i := range names {
			names[i] = g.fresh("wr")
			refs[i] = v(names[i])
		}
		out = append(out, &Local{Names: names, Es: g.w5values(e, n+g.R.Range(-1, 1), true)}, emit(refs...))
	case 2:
		g.use("w5-call-args")
		out = append(out, emit(g.w5values(e, g.R.Range(2, 5), true)...))
	case 3:
		g.use("w5-table-ctor")
		tt := g.fresh("wc")
		vals := g.w5values(e, g.R.Range(3, 5), true)
		items := make([]TItem, len(vals))
		named := 0
		for i, x := range vals {
			switch {
			case i < len(vals)-1 && g.R.Chance(25):
				named++
				items[i] = TItem{Kind: 1, Name: "f" + itoa(named), E: x}
			case i < len(vals)-1 && g.R.Chance(20):
				named++
				items[i] = TItem{Kind: 2, K: bin("..", str("f"), num(float64(named))), E: x}
			default:
				items[i] = TItem{Kind: 0, E: x}
			}
		}
		w := v(tt)
		at := func(k float64) Expr { return &Index{E: w, K: num(k)} }
		out = append(out, local1(tt, &Table{Items: items}), emit(at(1), at(2), at(3), at(4), at(5), at(6)), emit(idx(w, "f1"), idx(w, "f2"), idx(w, "f3"), idx(w, "f4")))
	case 4:
		g.use("w5-return-list")
		rf := g.fresh("wf")
		save := e.va
		e.va = true
		body := []Stmt{ret(g.w5values(e, g.R.Range(2, 4), true)...)}
		e.va = save
		out = append(out, &LocalFunc{X: rf, F: &Func{Vararg: true, Body: body}}, emit(call(rf, num(31), num(32))))
	default:
		g.use("w5-method-args")
		o := g.fresh("wo")
		out = append(out, local1(o, &Table{}),
			&FuncStmt{Target: v(o), Method: "m", F: &Func{Vararg: true, Body: []Stmt{ret(call("select", str("#"), &Varargs{}), &Varargs{})}}},
			emit(&Meth{O: v(o), M: "m", Args: g.w5values(e, g.R.Range(2, 4), true)}))
	}
	out = append(out, g.w5observe(e)...)
	return []Stmt{&Do{Body: out}}
}

// valueListMatrix: the shape (see the head of the file).
func (g *Gen) valueListMatrix(d int) []Stmt {
	g.use("w5-value-list-matrix")
	e := g.w5newEnv()
	e.nested = g.R.Chance(55)
	e.freshFn = e.nested
	out := g.w5outer(e)
	rounds := g.R.Range(2, 3)
	if e.nested {
		e.va = true
		var body []Stmt
		for i := 0; i < rounds; i++ {
			body = append(body, g.w5round(e)...)
		}
		out = append(out, &CallS{E: &Call{F: &Paren{E: &Func{Vararg: true, Body: body}}, Args: []Expr{num(31), num(32)}}})
	} else {
		e.va = len(g.vararg) > 0 && g.vararg[len(g.vararg)-1]
		for i := 0; i < rounds; i++ {
			out = append(out, g.w5round(e)...)
		}
	}
	return []Stmt{&Do{Body: out}}
}

// ---------------------------------------------------------------- numeric for operands

// w5numText: numerals of the reference model's exact fragment for the value x (a multiple of 0.5
// of small magnitude): decimal, blanks around, a trailing ".0"/fraction, hexadecimal.
func (g *Gen) w5numText(x float64) string {
	neg := x < 0
	ax := x
	if neg {
		ax = -x
	}
	whole := ax == float64(int(ax))
	s := itoa(int(ax))
	if !whole {
		s += ".5"
	}
	switch g.R.Pick(50, 20, 15, 15) {
	case 1:
		if neg {
			return " -" + s + " "
		}
		return " " + s + " "
	case 2:
		if whole {
			s += ".0"
		}
	case 3:
		if whole && !neg && ax < 16 {
			return "0x" + []string{"0", "1", "2", "3", "4", "5", "6", "7", "8", "9", "a", "B", "c", "D", "e", "F"}[int(ax)%16]
		}
	}
	if neg {
		return "-" + s
	}
	return s
}

// w5operand: an expression whose value is the number x or a numeral string denoting x, taken from
// a random storage kind, with the statements that prepare it. name is the variable (or "") that
// holds the operand and can be inspected / overwritten by the loop body; slot identifies the shared
// storage it occupies ("" = none), so that two operands of one statement never share one.
func (g *Gen) w5operand(e *w5env, x float64, forceStr bool, taken map[string]bool) (ex Expr, pre []Stmt, name string) {
	asStr := forceStr || g.R.Chance(55)
	var lit Expr = num(x)
	if asStr {
		lit = str(g.w5numText(x))
	}
	small := x >= 0 && x < 16 && x == float64(int(x))
	k := g.R.Pick(22, 16, 12, 8, 8, 10, 8, 8, 8)
	slot := map[int]string{2: "ua", 3: "ga", 4: "fo"}[k]
	if slot != "" && taken[slot] {
		k = 1
	} else if slot != "" {
		taken[slot] = true
	}
	switch k {
	case 0:
		return lit, nil, ""
	case 1:
		n := g.fresh("fo")
		return v(n), []Stmt{local1(n, lit)}, n
	case 2: // a local of the enclosing function
		return v(e.ua), []Stmt{set(v(e.ua), lit)}, e.ua
	case 3:
		return v(e.ga), []Stmt{set(v(e.ga), lit)}, e.ga
	case 4:
		return idx(v(e.t), "fo"), []Stmt{set(idx(v(e.t), "fo"), lit)}, ""
	case 5:
		return &Call{F: v(e.id), Args: []Expr{lit, num(77)}}, nil, ""
	case 6: // number -> string by concatenation / tostring (always a string operand)
		if g.R.Bool() {
			return bin("..", num(x), str("")), nil, ""
		}
		return call("tostring", num(x)), nil, ""
	case 7:
		if g.R.Bool() {
			return &Or{A: v(e.ln), B: lit}, nil, ""
		}
		return &And{A: v(e.ls), B: lit}, nil, ""
	default:
		if small && asStr {
			return bin("..", str(""), num(x)), nil, ""
		}
		return bin("-", bin("+", lit, num(3)), num(3)), nil, "" // arithmetic: always a number
	}
}

// w5forLoop: one numeric for with operands from the matrix.
func (g *Gen) w5forLoop(e *w5env) []Stmt {
	g.use("w5-for-operand-matrix")
	init := float64(g.R.Range(0, 3))
	step := []float64{1, 1, 2, 3, 0.5, -1, -2, -0.5, 1.5}[g.R.Intn(9)]
	count := g.R.Pick(10, 15, 20, 25, 15, 15) // iterations
	limit := init + step*float64(count-1)
	if count > 0 && step == float64(int(step)) && g.R.Chance(30) { // a limit that is not hit exactly
		limit += step / 2
	}
	var pre []Stmt
	taken := map[string]bool{}
	which := g.R.Intn(8) // bit i set: operand i is forced to be a string
	a, pa, an := g.w5operand(e, init, which&1 != 0, taken)
	b, pb, bn := g.w5operand(e, limit, which&2 != 0, taken)
	pre = append(append(pre, pa...), pb...)
	var c Expr
	cn := ""
	if !(step == 1 && g.R.Chance(50)) {
		var pc []Stmt
		c, pc, cn = g.w5operand(e, step, which&4 != 0, taken)
		pre = append(pre, pc...)
		g.use("w5-for-step-given")
	}
	i, acc := g.fresh("fi"), g.fresh("fa")
	body := []Stmt{emit(v(i), call("type", v(i))), set(v(acc), bin("+", v(acc), v(i)))}
	switch g.R.Intn(6) {
	case 0: // assigning the loop variable does not change the iteration
		body = append(body, set(v(i), bin("+", v(i), num(10))))
	case 1: // neither does overwriting the variables the operands were read from
		for _, n := range []string{an, bn, cn} {
			if n != "" {
				body = append(body, set(v(n), str("x")))
			}
		}
	case 2: // a fresh loop variable per iteration
		body = append(body, set(idx(v(e.t), "cl"), &Func{Body: []Stmt{ret(v(i))}}), set(v(i), num(-1)), emit(&Call{F: idx(v(e.t), "cl")}))
	case 3:
		body = append(body, &If{C: bin(">=", v(acc), num(4)), Then: []Stmt{&Break{}}})
	}
	obs := []Expr{v(acc)}
	for _, n := range []string{an, bn, cn} {
		if n != "" { // the variable still holds what it held (a string stays a string)
			obs = append(obs, v(n), call("type", v(n)))
		}
	}
	out := append([]Stmt{}, pre...)
	out = append(out, local1(acc, num(0)), &NumFor{X: i, A: a, B: b, C: c, Body: body}, emit(obs...))
	return []Stmt{&Do{Body: out}}
}

// w5forFunction: the same for inside a function whose parameters are the operands, called with a
// sequence of operand types (numbers, numeral strings, a non-numeral inside pcall, numbers again).
func (g *Gen) w5forFunction(e *w5env) []Stmt {
	g.use("w5-for-function-history")
	f := g.fresh("ff")
	withStep := g.R.Chance(70)
	params := []string{"pa", "pb"}
	var c Expr
	if withStep {
		params = append(params, "pc")
		c = v("pc")
	}
	fn := &Func{Params: params, Body: []Stmt{local1("r", str("")),
		&NumFor{X: "i", A: v("pa"), B: v("pb"), C: c, Body: []Stmt{set(v("r"), bin("..", v("r"), bin("..", v("i"), str(","))))}},
		ret(v("r"), call("type", v("pa")), call("type", v("pb")))}}
	out := []Stmt{&LocalFunc{X: f, F: fn}}
	ncalls := g.R.Range(3, 5)
	for k := 0; k < ncalls; k++ {
		init := float64(g.R.Range(0, 2))
		step := []float64{1, 2, -1, 0.5}[g.R.Intn(4)]
		limit := init + step*float64(g.R.Range(0, 3))
		mk := func(x float64) Expr {
			if g.R.Chance(55) {
				return str(g.w5numText(x))
			}
			return num(x)
		}
		args := []Expr{mk(init), mk(limit)}
		if withStep {
			args = append(args, mk(step))
		}
		if g.R.Chance(20) { // a non-numeral operand: caught, then the function is used again
			g.use("w5-for-bad-operand-then-again")
			args[g.R.Intn(len(args))] = []Expr{str("x"), str(""), str("1 2"), str("1x"), &Table{}, &True{}}[g.R.Intn(6)]
			out = append(out, emit(call("pcall", append([]Expr{v(f)}, args...)...)))
			continue
		}
		out = append(out, emit(call(f, args...)))
	}
	return []Stmt{&Do{Body: out}}
}

// w5coerce: the other consumers of numeral strings (arithmetic on either side, unary minus,
// concatenation of numbers) with operands from the same storage kinds.
func (g *Gen) w5coerce(e *w5env) []Stmt {
	g.use("w5-coercion-matrix")
	var out []Stmt
	for k := 0; k < 4; k++ {
		x, y := float64(g.R.Range(0, 9)), float64(g.R.Range(1, 5))
		taken := map[string]bool{}
		a, pa, _ := g.w5operand(e, x, g.R.Bool(), taken)
		b, pb, _ := g.w5operand(e, y, g.R.Bool(), taken)
		var r Expr
		switch g.R.Intn(5) {
		case 0:
			r = &Un{Op: "-", A: []Expr{a, b}[k%2]}
		case 1:
			r = bin("..", a, b)
		default:
			r = bin([]string{"+", "-", "*", "/", "%"}[g.R.Intn(5)], a, b)
		}
		out = append(append(append(out, pa...), pb...), emit(r, bin("..", b, a)))
	}
	return []Stmt{&Do{Body: out}}
}

// forOperandMatrix: the shape (see the head of the file).
func (g *Gen) forOperandMatrix(d int) []Stmt {
	g.use("w5-for-matrix")
	e := g.w5newEnv()
	e.freshFn = g.R.Chance(50) // the operands kept in the enclosing function's locals are upvalues
	out := g.w5outer(e)
	inner := append(g.w5reset(e), []Stmt{}...)
	for k, n := 0, g.R.Range(2, 3); k < n; k++ {
		switch g.R.Pick(60, 25, 15) {
		case 0:
			inner = append(inner, g.w5forLoop(e)...)
		case 1:
			inner = append(inner, g.w5forFunction(e)...)
		default:
			inner = append(inner, g.w5coerce(e)...)
		}
	}
	if e.freshFn {
		out = append(out, &CallS{E: &Call{F: &Paren{E: &Func{Body: inner}}}})
	} else {
		out = append(out, &Do{Body: inner})
	}
	return []Stmt{&Do{Body: out}}
}

// w5c01Shape: entry used by the shared statement mix.
func (g *Gen) w5c01Shape(d int) []Stmt {
	if g.R.Chance(60) {
		return g.valueListMatrix(d)
	}
	return g.forOperandMatrix(d)
}

// W5C01Program: a chunk made of a few unrelated locals and two or three of the wave-5 shapes
// (the dedicated mode of cmd/c01).
func W5C01Program(r *lib.Rand) []Stmt {
	g := NewGen(r, CoreFeatures())
	g.budget = 10
	g.push()
	g.vararg = append(g.vararg, true)
	var body []Stmt
	for i, n := 0, r.Range(0, 3); i < n; i++ {
		body = append(body, g.newLocal([]Ty{TInt, TStr, TBool, TNum}[r.Intn(4)], 1)...)
	}
	for i, n := 0, r.Range(1, 2); i < n; i++ {
		body = append(body, g.w5c01Shape(2)...)
	}
	body = append(body, g.dumpVars()...)
	g.pop()
	return body
}
