package luagen

import (
	"fmt"
	"math"
	"strconv"
	"strings"
)

// LuaPrinter prints a chunk one statement (or block header) per line and records the line
// of every statement in the AST nodes, so the Gallina term carries the same lines.
type LuaPrinter struct {
	sb        strings.Builder
	line      int
	indent    int
	pendingNL int // newlines inside function bodies rendered into text not yet written
}

func PrintLua(body []Stmt) string {
	p := &LuaPrinter{line: 1}
	p.block(body)
	return p.sb.String()
}

func (p *LuaPrinter) nl() {
	p.sb.WriteByte('\n')
	p.line += 1 + p.pendingNL
	p.pendingNL = 0
}

func (p *LuaPrinter) emitLine(s string) int {
	l := p.line
	p.sb.WriteString(strings.Repeat(" ", p.indent))
	p.sb.WriteString(s)
	p.nl()
	return l
}

func (p *LuaPrinter) block(body []Stmt) {
	p.indent += 2
	for _, s := range body {
		p.stmt(s)
	}
	p.indent -= 2
}

func (p *LuaPrinter) exprs(es []Expr) string {
	parts := make([]string, len(es))
	for i, e := range es {
		parts[i] = p.expr(e, 0)
	}
	return strings.Join(parts, ", ")
}

// open writes the start of a statement whose expressions may contain multi-line function
// bodies: text is written incrementally so that nested function bodies get correct lines.
func (p *LuaPrinter) stmt(s Stmt) {
	ind := strings.Repeat(" ", p.indent)
	switch s := s.(type) {
	case *Local:
		s.Line = p.line
		p.sb.WriteString(ind + "local " + strings.Join(s.Names, ", "))
		if len(s.Es) > 0 {
			p.sb.WriteString(" = ")
			p.sb.WriteString(p.exprs(s.Es))
		}
		p.nl()
	case *Assign:
		s.Line = p.line
		p.sb.WriteString(ind + p.exprs(s.LHS) + " = ")
		p.sb.WriteString(p.exprs(s.Es))
		p.nl()
	case *CallS:
		s.Line = p.line
		p.sb.WriteString(ind + p.expr(s.E, 0))
		p.nl()
	case *Do:
		p.emitLine("do")
		p.block(s.Body)
		p.emitLine("end")
	case *While:
		s.Line = p.line
		p.sb.WriteString(ind + "while " + p.expr(s.C, 0) + " do")
		p.nl()
		p.block(s.Body)
		p.emitLine("end")
	case *Repeat:
		p.emitLine("repeat")
		p.block(s.Body)
		s.Line = p.line
		p.sb.WriteString(ind + "until " + p.expr(s.C, 0))
		p.nl()
	case *If:
		s.Line = p.line
		p.sb.WriteString(ind + "if " + p.expr(s.C, 0) + " then")
		p.nl()
		p.block(s.Then)
		if s.HasElse || len(s.Else) > 0 {
			p.emitLine("else")
			p.block(s.Else)
		}
		p.emitLine("end")
	case *NumFor:
		s.Line = p.line
		p.sb.WriteString(ind + "for " + s.X + " = " + p.expr(s.A, 0) + ", " + p.expr(s.B, 0))
		if s.C != nil {
			p.sb.WriteString(", " + p.expr(s.C, 0))
		}
		p.sb.WriteString(" do")
		p.nl()
		p.block(s.Body)
		p.emitLine("end")
	case *GenFor:
		s.Line = p.line
		p.sb.WriteString(ind + "for " + strings.Join(s.Xs, ", ") + " in " + p.exprs(s.Es) + " do")
		p.nl()
		p.block(s.Body)
		p.emitLine("end")
	case *LocalFunc:
		s.Line = p.line
		p.sb.WriteString(ind + "local function " + s.X)
		p.funcBody(s.F)
		p.nl()
	case *FuncStmt:
		s.Line = p.line
		name := p.expr(s.Target, 0)
		if s.Method != "" {
			name += ":" + s.Method
		}
		p.sb.WriteString(ind + "function " + name)
		p.funcBody(s.F)
		p.nl()
	case *Return:
		s.Line = p.line
		p.sb.WriteString(ind + "return")
		if len(s.Es) > 0 {
			p.sb.WriteString(" " + p.exprs(s.Es))
		}
		p.nl()
	case *Break:
		p.emitLine("break")
	case *Goto:
		p.emitLine("goto " + s.L)
	case *Label:
		p.emitLine("::" + s.L + "::")
	default:
		panic(fmt.Sprintf("printlua: unknown stmt %T", s))
	}
}

// funcBody writes "(params)\n body end" directly to the builder (lines advance).
func (p *LuaPrinter) funcBody(f *Func) {
	f.Line = p.line
	ps := append([]string{}, f.Params...)
	if f.Vararg {
		ps = append(ps, "...")
	}
	p.sb.WriteString("(" + strings.Join(ps, ", ") + ")")
	p.nl()
	p.block(f.Body)
	p.sb.WriteString(strings.Repeat(" ", p.indent) + "end")
	f.LastLine = p.line
}

var prec = map[string][2]int{ // left, right binding powers
	"or": {1, 1}, "and": {2, 2},
	"<": {3, 3}, ">": {3, 3}, "<=": {3, 3}, ">=": {3, 3}, "~=": {3, 3}, "==": {3, 3},
	"..": {5, 4}, "+": {6, 6}, "-": {6, 6}, "*": {7, 7}, "/": {7, 7}, "%": {7, 7},
	"^": {10, 9},
}

const unaryPrec = 8

// expr returns the text of e; because function bodies are multi-line, text that contains
// a function expression is flushed through the builder: we build strings but track lines by
// counting newlines inside funcText.
func (p *LuaPrinter) expr(e Expr, limit int) string {
	switch e := e.(type) {
	case *Nil:
		return "nil"
	case *True:
		return "true"
	case *False:
		return "false"
	case *Num:
		return numLit(e.V)
	case *Str:
		return strLit(e.V)
	case *Varargs:
		return "..."
	case *Var:
		return e.Name
	case *Index:
		if k, ok := e.K.(*Str); ok && isIdent(string(k.V)) {
			return p.prefix(e.E) + "." + string(k.V)
		}
		return p.prefix(e.E) + "[" + p.expr(e.K, 0) + "]"
	case *Call:
		return p.prefix(e.F) + "(" + p.exprs(e.Args) + ")"
	case *Meth:
		return p.prefix(e.O) + ":" + e.M + "(" + p.exprs(e.Args) + ")"
	case *Func:
		return p.funcText(e)
	case *Bin:
		pr := prec[e.Op]
		s := p.binText(e.Op, e.A, e.B, pr)
		if pr[0] <= limit {
			return "(" + s + ")"
		}
		return s
	case *And:
		pr := prec["and"]
		s := p.binText("and", e.A, e.B, pr)
		if pr[0] <= limit {
			return "(" + s + ")"
		}
		return s
	case *Or:
		pr := prec["or"]
		s := p.binText("or", e.A, e.B, pr)
		if pr[0] <= limit {
			return "(" + s + ")"
		}
		return s
	case *Un:
		op := e.Op
		if op == "not" {
			op = "not "
		}
		inner := p.expr(e.A, unaryPrec-1)
		if op == "-" && strings.HasPrefix(inner, "-") {
			inner = " " + inner
		}
		s := op + inner
		if unaryPrec <= limit {
			return "(" + s + ")"
		}
		return s
	case *Paren:
		return "(" + p.expr(e.E, 0) + ")"
	case *Table:
		parts := make([]string, len(e.Items))
		for i, it := range e.Items {
			switch it.Kind {
			case 0:
				parts[i] = p.expr(it.E, 0)
			case 1:
				parts[i] = it.Name + " = " + p.expr(it.E, 0)
			default:
				parts[i] = "[" + p.expr(it.K, 0) + "] = " + p.expr(it.E, 0)
			}
		}
		return "{" + strings.Join(parts, ", ") + "}"
	}
	panic(fmt.Sprintf("printlua: unknown expr %T", e))
}

func (p *LuaPrinter) binText(op string, a, b Expr, pr [2]int) string {
	// left operand must bind tighter than pr[0]-ish; for left-assoc ops the right side needs +1
	var l, r string
	if pr[0] > pr[1] { // right associative
		l = p.expr(a, pr[0])
		r = p.expr(b, pr[1])
	} else {
		l = p.expr(a, pr[0]-1)
		r = p.expr(b, pr[1])
	}
	if op == ".." {
		return l + " .. " + r
	}
	if op == "-" && strings.HasPrefix(r, "-") {
		r = " " + r
	}
	return l + " " + op + " " + r
}

// prefix prints an expression in prefix position (callee / indexed object).
func (p *LuaPrinter) prefix(e Expr) string {
	switch e.(type) {
	case *Var, *Index, *Call, *Meth, *Paren:
		return p.expr(e, 0)
	}
	return "(" + p.expr(e, 0) + ")"
}

// funcText renders a function expression; its body occupies following lines. Since the
// enclosing statement's text is still being assembled as a string, lines are assigned by
// counting the newlines already inside the pending text: the caller writes pending text only
// after expr returns, so we render bodies with a sub-printer starting at the right line.
// To keep this exact we require: at most the text returned so far on this line has no newline
// before this function — guaranteed because every function body starts a new line and the
// sub-printer is seeded with the current line plus newlines accumulated in pendingNL.
func (p *LuaPrinter) funcText(f *Func) string {
	sub := &LuaPrinter{line: p.line + p.pendingNL, indent: p.indent}
	f.Line = sub.line
	ps := append([]string{}, f.Params...)
	if f.Vararg {
		ps = append(ps, "...")
	}
	sub.sb.WriteString("function(" + strings.Join(ps, ", ") + ")")
	sub.nl()
	sub.block(f.Body)
	sub.sb.WriteString(strings.Repeat(" ", sub.indent) + "end")
	f.LastLine = sub.line
	p.pendingNL += sub.line - (p.line + p.pendingNL)
	return sub.sb.String()
}

func isIdent(s string) bool {
	if s == "" {
		return false
	}
	for i, c := range []byte(s) {
		if !(c == '_' || (c >= 'a' && c <= 'z') || (c >= 'A' && c <= 'Z') || (i > 0 && c >= '0' && c <= '9')) {
			return false
		}
	}
	switch s {
	case "and", "break", "do", "else", "elseif", "end", "false", "for", "function", "goto", "if", "in",
		"local", "nil", "not", "or", "repeat", "return", "then", "true", "until", "while":
		return false
	}
	return true
}

func numLit(v float64) string {
	if math.IsInf(v, 0) || math.IsNaN(v) {
		panic("numLit: not a literal")
	}
	if v < 0 || (v == 0 && math.Signbit(v)) {
		panic("numLit: negative literal (use Un{-})")
	}
	if v == math.Trunc(v) && v < 1e15 {
		return strconv.FormatFloat(v, 'f', 0, 64)
	}
	return strconv.FormatFloat(v, 'f', -1, 64)
}

func strLit(b []byte) string {
	var sb strings.Builder
	sb.WriteByte('"')
	for _, c := range b {
		switch {
		case c == '"':
			sb.WriteString("\\\"")
		case c == '\\':
			sb.WriteString("\\\\")
		case c == '\n':
			sb.WriteString("\\n")
		case c >= 32 && c < 127:
			sb.WriteByte(c)
		default:
			fmt.Fprintf(&sb, "\\%03d", c)
		}
	}
	sb.WriteByte('"')
	return sb.String()
}
