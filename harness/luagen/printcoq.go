package luagen

import (
	"fmt"
	"math"
	"strconv"
	"strings"

	"verifh/lib"
)

// CoqFloat prints a float64 as a Gallina primitive-float term (exact: hexadecimal literal).
func CoqFloat(f float64) string {
	switch {
	case math.IsNaN(f):
		return "nan"
	case math.IsInf(f, 1):
		return "infinity"
	case math.IsInf(f, -1):
		return "neg_infinity"
	case f == 0 && math.Signbit(f):
		return "(-0)%float"
	case f == 0:
		return "0%float"
	}
	s := strconv.FormatFloat(math.Abs(f), 'x', -1, 64) // 0x1.8p+01
	// Coq wants no '+' padding issues: 0x1.8p+1 is accepted; strip leading zeros of the exponent
	i := strings.IndexByte(s, 'p')
	mant, exp := s[:i], s[i+1:]
	sign := exp[0]
	e := strings.TrimLeft(exp[1:], "0")
	if e == "" {
		e = "0"
	}
	lit := mant + "p" + string(sign) + e
	if f < 0 {
		return "(-" + lit + ")%float"
	}
	return lit + "%float"
}

func coqName(s string) string { return lib.CoqBytes([]byte(s)) }

func coqNames(ns []string) string {
	it := make([]string, len(ns))
	for i, n := range ns {
		it[i] = coqName(n)
	}
	return lib.CoqList(it)
}

func CoqExprs(es []Expr) string {
	it := make([]string, len(es))
	for i, e := range es {
		it[i] = CoqExpr(e)
	}
	return lib.CoqList(it)
}

var binCtor = map[string]string{"+": "OAdd", "-": "OSub", "*": "OMul", "/": "ODiv", "%": "OMod", "^": "OPow",
	"..": "OConcat", "==": "OEq", "~=": "ONe", "<": "OLt", "<=": "OLe", ">": "OGt", ">=": "OGe"}
var unCtor = map[string]string{"-": "ONeg", "not": "ONot", "#": "OLen"}

func CoqExpr(e Expr) string {
	switch e := e.(type) {
	case *Nil:
		return "ENil"
	case *True:
		return "ETrue"
	case *False:
		return "EFalse"
	case *Num:
		return "(ENum " + CoqFloat(e.V) + ")"
	case *Str:
		return "(EStr " + lib.CoqBytes(e.V) + ")"
	case *Varargs:
		return "EVarargs"
	case *Var:
		return "(EVar " + coqName(e.Name) + ")"
	case *Index:
		return "(EIndex " + CoqExpr(e.E) + " " + CoqExpr(e.K) + ")"
	case *Call:
		return "(ECall " + CoqExpr(e.F) + " " + CoqExprs(e.Args) + ")"
	case *Meth:
		return "(EMeth " + CoqExpr(e.O) + " " + coqName(e.M) + " " + CoqExprs(e.Args) + ")"
	case *Func:
		return coqFunc(e, nil)
	case *Bin:
		return "(EBin " + binCtor[e.Op] + " " + CoqExpr(e.A) + " " + CoqExpr(e.B) + ")"
	case *Un:
		return "(EUn " + unCtor[e.Op] + " " + CoqExpr(e.A) + ")"
	case *And:
		return "(EAnd " + CoqExpr(e.A) + " " + CoqExpr(e.B) + ")"
	case *Or:
		return "(EOr " + CoqExpr(e.A) + " " + CoqExpr(e.B) + ")"
	case *Paren:
		return "(EParen " + CoqExpr(e.E) + ")"
	case *Table:
		it := make([]string, len(e.Items))
		for i, t := range e.Items {
			switch t.Kind {
			case 0:
				it[i] = "TPos " + CoqExpr(t.E)
			case 1:
				it[i] = "TNamed " + coqName(t.Name) + " " + CoqExpr(t.E)
			default:
				it[i] = "TKey " + CoqExpr(t.K) + " " + CoqExpr(t.E)
			}
		}
		return "(ETable " + lib.CoqList(it) + ")"
	}
	panic(fmt.Sprintf("printcoq: unknown expr %T", e))
}

func coqFunc(f *Func, extraFirst []string) string {
	ps := append(append([]string{}, extraFirst...), f.Params...)
	return fmt.Sprintf("(EFunc %s %s %s %d %d)", coqNames(ps), lib.CoqBool(f.Vararg), CoqBlock(f.Body), f.Line, f.LastLine)
}

func CoqBlock(b []Stmt) string {
	it := make([]string, len(b))
	for i, s := range b {
		it[i] = CoqStmt(s)
	}
	return lib.CoqList(it)
}

func CoqStmt(s Stmt) string {
	switch s := s.(type) {
	case *Local:
		return fmt.Sprintf("SLocal %d %s %s", s.Line, coqNames(s.Names), CoqExprs(s.Es))
	case *Assign:
		return fmt.Sprintf("SAssign %d %s %s", s.Line, CoqExprs(s.LHS), CoqExprs(s.Es))
	case *CallS:
		return fmt.Sprintf("SCall %d %s", s.Line, CoqExpr(s.E))
	case *Do:
		return "SDo " + CoqBlock(s.Body)
	case *While:
		return fmt.Sprintf("SWhile %d %s %s", s.Line, CoqExpr(s.C), CoqBlock(s.Body))
	case *Repeat:
		return fmt.Sprintf("SRepeat %s %d %s", CoqBlock(s.Body), s.Line, CoqExpr(s.C))
	case *If:
		return fmt.Sprintf("SIf %d %s %s %s", s.Line, CoqExpr(s.C), CoqBlock(s.Then), CoqBlock(s.Else))
	case *NumFor:
		c := "None"
		if s.C != nil {
			c = "(Some " + CoqExpr(s.C) + ")"
		}
		return fmt.Sprintf("SNumFor %d %s %s %s %s %s", s.Line, coqName(s.X), CoqExpr(s.A), CoqExpr(s.B), c, CoqBlock(s.Body))
	case *GenFor:
		return fmt.Sprintf("SGenFor %d %s %s %s", s.Line, coqNames(s.Xs), CoqExprs(s.Es), CoqBlock(s.Body))
	case *LocalFunc:
		return fmt.Sprintf("SLocalFunc %d %s %s", s.Line, coqName(s.X), coqFunc(s.F, nil))
	case *FuncStmt:
		var extra []string
		target := s.Target
		if s.Method != "" {
			extra = []string{"self"}
			target = &Index{E: s.Target, K: &Str{V: []byte(s.Method)}}
		}
		return fmt.Sprintf("SAssign %d [%s] [%s]", s.Line, CoqExpr(target), coqFunc(s.F, extra))
	case *Return:
		return fmt.Sprintf("SReturn %d %s", s.Line, CoqExprs(s.Es))
	case *Break:
		return "SBreak"
	case *Goto:
		return "SGoto " + coqName(s.L)
	case *Label:
		return "SLabel " + coqName(s.L)
	}
	panic(fmt.Sprintf("printcoq: unknown stmt %T", s))
}
