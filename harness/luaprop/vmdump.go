package luaprop

// vmdump: compile a generated program with the real front end (parse.Parse + lua.Compile) and print
// the resulting prototype tree as a Gallina term of type GL.VMX.Machine.xproto, so that the Coq
// model of the bytecode VM (coq/VMX) can run exactly what the real VM runs.

import (
	"fmt"
	"strconv"
	"strings"

	lua "github.com/yuin/gopher-lua"
	"github.com/yuin/gopher-lua/parse"
	"verifh/lib"
	"verifh/luagen"
)

// VMHeader is the shard header of the VM-validated properties.
const VMHeader = "From Coq Require Import Uint63 Floats.\nFrom GL Require Import Common.Bytes Lua.Syntax Lua.Values Lua.Run Lua.LuaCases VMX.Machine VMX.VRun VMX.VmCases.\nOpen Scope float_scope."

// CompileProto compiles src exactly as LState.LoadString does (chunk name "<string>").
func CompileProto(src string) (*lua.FunctionProto, error) {
	chunk, err := parse.Parse(strings.NewReader(src), "<string>")
	if err != nil {
		return nil, err
	}
	return lua.Compile(chunk, "<string>")
}

func zlist(sb *strings.Builder, n int, at func(i int) int64) {
	sb.WriteByte('[')
	for i := 0; i < n; i++ {
		if i > 0 {
			sb.WriteByte(';')
		}
		sb.WriteString(strconv.FormatInt(at(i), 10))
	}
	sb.WriteByte(']')
}

// protoCoq prints one prototype; it fails when the string-constant table the VM indexes for
// GETGLOBAL/SETGLOBAL/GETTABLEKS/SETTABLEKS/SELF disagrees with Constants (the model has one table).
func protoCoq(sb *strings.Builder, fp *lua.FunctionProto) error {
	sc := lua.VerifStringConstants(fp)
	sb.WriteString("(XProto (w63 ")
	zlist(sb, len(fp.Code), func(i int) int64 { return int64(fp.Code[i]) })
	sb.WriteString("%uint63) [")
	for i, c := range fp.Constants {
		if i > 0 {
			sb.WriteString("; ")
		}
		switch v := c.(type) {
		case lua.LNumber:
			sb.WriteString("VNum " + luagen.CoqFloat(float64(v)))
		case lua.LString:
			if i >= len(sc) || sc[i] != string(v) {
				return fmt.Errorf("stringConstants[%d] differs from Constants[%d]", i, i)
			}
			sb.WriteString("VStr " + lib.CoqBytes([]byte(v)))
		default:
			return fmt.Errorf("constant %d of unexpected type %T", i, c)
		}
	}
	sb.WriteString("] [")
	for i, s := range fp.FunctionPrototypes {
		if i > 0 {
			sb.WriteString("; ")
		}
		if err := protoCoq(sb, s); err != nil {
			return err
		}
	}
	sb.WriteString("] ")
	fmt.Fprintf(sb, "%d %d %d %d ", fp.NumUpvalues, fp.NumParameters, fp.IsVarArg, fp.NumUsedRegisters)
	zlist(sb, len(fp.DbgSourcePositions), func(i int) int64 { return int64(fp.DbgSourcePositions[i]) })
	fmt.Fprintf(sb, " %d)", fp.LineDefined)
	return nil
}

// ProtoCoq compiles src and returns the Gallina term of its prototype tree.
func ProtoCoq(src string) (string, error) {
	fp, err := CompileProto(src)
	if err != nil {
		return "", err
	}
	var sb strings.Builder
	if err := protoCoq(&sb, fp); err != nil {
		return "", err
	}
	return sb.String(), nil
}

// vmCase turns the reference-only case term into a VProg/VLua term of VMX.VmCases.vcase. A program
// the interpreter ran but whose prototype cannot be dumped is reported as a Go-side failure.
func vmCase(prog []luagen.Stmt, src string, out *luagen.Outcome, plain string) (string, string) {
	if out.GoFail != "" {
		return "VLua (" + plain + ")", ""
	}
	p, err := ProtoCoq(src)
	if err != nil {
		return "VLua (" + plain + ")", "prototype dump failed: " + err.Error()
	}
	return fmt.Sprintf("VProg %s %s %s", luagen.CoqBlock(prog), p, out.Coq()), ""
}
