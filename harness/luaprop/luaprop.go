// Package luaprop is the common main of the program-level property harnesses (C01–C06): generate
// programs with a feature mix, run them on the real interpreter, emit cases for the Coq evaluator.
package luaprop

import (
	"encoding/json"
	"fmt"
	"os"
	"os/exec"
	"path/filepath"
	"strings"
	"time"

	"verifh/lib"
	"verifh/luagen"
)

const Header = "From Coq Require Import Floats.\nFrom GL Require Import Common.Bytes Lua.Syntax Lua.Run Lua.LuaCases.\nOpen Scope float_scope."

type Input struct {
	Src  string `json:"src"`
	Seed uint64 `json:"seed"`
	Idx  int    `json:"idx"`
	Mode string `json:"mode"`
}

// Mode is one generation regime of a property harness.
type Mode struct {
	Name     string
	Features luagen.Features
	Weight   int
	// Run overrides the config's RunOptions for programs of this mode (e.g. another stack configuration)
	Run *luagen.RunOptions
	// Gen, when set, replaces the feature-driven generator for this mode
	Gen func(r *lib.Rand) []luagen.Stmt
}

type Config struct {
	Prop      string
	Rule      string
	Modes     []Mode
	NQuick    int
	NThorough int
	// Corpus: fixed programs (witnesses of repaired defects, minimised earlier failures) run first.
	Corpus []string
	// KF tags a case with known-finding ids from the features the program used.
	KF func(uses map[string]int, src string) []string
	// Extra runs property-specific Go-side checks (e.g. tail-call depth); failures via w.GoFail.
	Extra func(w *lib.Writer, tier string, seed uint64)
	RunOptions *luagen.RunOptions
	// Isolate runs every program in a child process (needed where the interpreter can crash or hang).
	Isolate bool
	// VM: every program is also compiled with the real compiler and its prototype tree is dumped into
	// the case (VProg, case module VMX/VmCases.v), where the Coq model of the bytecode VM runs it.
	VM bool
	// CaseHeader / CaseType (optional) replace the shard header and the Coq case type: a property whose
	// case module wraps vcase/case (coercions) and adds case kinds of its own for its Extra runs.
	CaseHeader, CaseType string
	// ReplayExtra (optional) replays the input object of a replay file that came from Extra; it
	// returns false when the input is not one of its own.
	ReplayExtra func(w *lib.Writer, replayFile []byte) bool
}

func run(cfg *Config, src string) *luagen.Outcome { return runWith(cfg, src, cfg.RunOptions) }

func runWith(cfg *Config, src string, ro *luagen.RunOptions) *luagen.Outcome {
	if cfg.Isolate {
		out := luagen.RunIsolated(src, 20*time.Second, ro)
		if strings.Contains(out.GoFail, "within the time limit") {
			// on a loaded machine starting the child, or milliseconds of Lua, can take many seconds:
			// once more, patiently (a program that really hangs still fails, later)
			var ro2 luagen.RunOptions
			if ro != nil {
				ro2 = *ro
			}
			ro2.Timeout = 60 * time.Second
			out = luagen.RunIsolated(src, 120*time.Second, &ro2)
		}
		return out
	}
	return luagen.Run(src, ro)
}

var uses = map[string]int{}

func modeOf(cfg *Config, r *lib.Rand) Mode {
	ws := make([]int, len(cfg.Modes))
	for i, m := range cfg.Modes {
		ws[i] = m.Weight
	}
	return cfg.Modes[r.Pick(ws...)]
}

func gen(cfg *Config, seed uint64, idx int) ([]luagen.Stmt, Mode, *luagen.Gen) {
	r := lib.NewRand(seed*1000003 + uint64(idx))
	m := modeOf(cfg, r)
	g := luagen.NewGen(r, m.Features)
	if m.Gen != nil {
		return m.Gen(r), m, g
	}
	return g.Program(), m, g
}

// Gen exposes the generator to property-specific Extra functions.
func Gen(cfg *Config, seed uint64, idx int) ([]luagen.Stmt, string) {
	prog, m, _ := gen(cfg, seed, idx)
	return prog, m.Name
}

func runOne(cfg *Config, w *lib.Writer, seed uint64, idx int) {
	prog, m, g := gen(cfg, seed, idx)
	src := luagen.PrintLua(prog)
	ro := cfg.RunOptions
	if m.Run != nil {
		ro = m.Run
	}
	out := runWith(cfg, src, ro)
	for k, v := range g.Uses {
		uses[k] += v
	}
	coq := fmt.Sprintf("CProg %s %s", luagen.CoqBlock(prog), out.Coq())
	if out.GoFail != "" {
		coq = "CProg [] (Outcome [] (OOk []))" // a hang/escaped panic is a failure by itself
	}
	dumpErr := ""
	if cfg.VM {
		coq, dumpErr = vmCase(prog, src, out, coq)
	}
	c := lib.Case{
		Input:      Input{Src: src, Seed: seed, Idx: idx, Mode: m.Name},
		Observed:   out.Summary(),
		Class:      caseClass(m.Name, prog),
		Nontrivial: len(out.Trace) >= 5 || !out.Ok || m.Gen != nil,
		Coq:        coq,
	}
	if cfg.KF != nil {
		c.KF = cfg.KF(g.Uses, src)
	}
	id := w.Add(c)
	if out.GoFail != "" {
		w.GoFail(id, out.GoFail)
	} else if dumpErr != "" {
		w.GoFail(id, dumpErr)
	}
}

// runSource runs a fixed Lua source (corpus / replay of a shrunk program): it is parsed back by
// the harness' own tiny reader only if it came from the generator, so corpus entries are given
// as generator coordinates or as ASTs; plain sources are compared Go-side only.
func runCorpus(cfg *Config, w *lib.Writer) {
	for i, src := range cfg.Corpus {
		prog, err := luagen.ParseCorpus(src)
		if err != nil {
			panic(fmt.Sprintf("corpus entry %d does not parse: %v", i, err))
		}
		text := luagen.PrintLua(prog)
		out := run(cfg, text)
		c := lib.Case{Input: Input{Src: text, Mode: "corpus", Idx: i}, Observed: out.Summary(), Class: "corpus",
			Nontrivial: true, Coq: fmt.Sprintf("CProg %s %s", luagen.CoqBlock(prog), out.Coq())}
		if out.GoFail != "" {
			c.Coq = "CProg [] (Outcome [] (OOk []))"
		}
		dumpErr := ""
		if cfg.VM {
			c.Coq, dumpErr = vmCase(prog, text, out, c.Coq)
		}
		if cfg.KF != nil {
			c.KF = cfg.KF(map[string]int{}, text)
		}
		id := w.Add(c)
		if out.GoFail != "" {
			w.GoFail(id, out.GoFail)
		} else if dumpErr != "" {
			w.GoFail(id, dumpErr)
		}
	}
}

func shrinkCmd(cfg *Config, seed uint64, idx int) {
	prog, _, _ := gen(cfg, seed, idx)
	dir, _ := os.MkdirTemp("", "luashr")
	defer os.RemoveAll(dir)
	fails := func(p []luagen.Stmt) bool {
		src := luagen.PrintLua(p)
		out := run(cfg, src)
		if out.GoFail != "" {
			return false
		}
		v := Header + "\nOpen Scope Z_scope.\nDefinition cc : case := CProg " + luagen.CoqBlock(p) + " " + out.Coq() + ".\n" +
			"Definition rr := Eval vm_compute in (check_spec cc).\nPrint rr.\n"
		os.WriteFile(filepath.Join(dir, "cand.v"), []byte(v), 0o644)
		cmd := exec.Command("timeout", "120", "coqc", "-R", "/verif/coq", "GL", "cand.v")
		cmd.Dir = dir
		o, _ := cmd.CombinedOutput()
		if !strings.Contains(string(o), "rr = ") {
			fmt.Println("oracle error:", string(o)[:min(len(o), 600)])
		}
		return strings.Contains(string(o), "rr = false")
	}
	if !fails(prog) {
		fmt.Println("does not fail")
		return
	}
	small := luagen.Shrink(prog, fails, 400)
	src := luagen.PrintLua(small)
	fmt.Println(src)
	out := run(cfg, src)
	b, _ := json.Marshal(out.Summary())
	fmt.Println("OBSERVED:", string(b))
}

func Main(cfg *Config) {
	if len(os.Args) > 1 && os.Args[1] == "child" {
		luagen.ChildMain(cfg.RunOptions)
		return
	}
	if len(os.Args) > 3 && os.Args[1] == "shrink" {
		var seed uint64
		var idx int
		fmt.Sscan(os.Args[2], &seed)
		fmt.Sscan(os.Args[3], &idx)
		shrinkCmd(cfg, seed, idx)
		return
	}
	a := lib.ParseArgs()
	header, caseType := Header, "case"
	if cfg.VM {
		header, caseType = VMHeader, "vcase"
	}
	if cfg.CaseHeader != "" {
		header, caseType = cfg.CaseHeader, cfg.CaseType
	}
	w, err := lib.NewWriter(a.Out, cfg.Prop, a.Tier, a.Seed, header, caseType, 20)
	if err != nil {
		panic(err)
	}
	w.HasSkip = true
	w.Meta.Rule = cfg.Rule
	if a.Replay != "" {
		b, _ := os.ReadFile(a.Replay)
		var rp struct {
			Input Input `json:"input"`
		}
		json.Unmarshal(b, &rp)
		if cfg.ReplayExtra != nil && cfg.ReplayExtra(w, b) {
			// replayed by the property's own Extra
		} else if rp.Input.Mode == "corpus" {
			save := cfg.Corpus
			cfg.Corpus = []string{save[rp.Input.Idx]}
			runCorpus(cfg, w)
			cfg.Corpus = save
		} else {
			runOne(cfg, w, rp.Input.Seed, rp.Input.Idx)
		}
	} else {
		runCorpus(cfg, w)
		n := cfg.NQuick
		if a.Tier == "thorough" {
			n = cfg.NThorough
		}
		for i := 0; i < n; i++ {
			runOne(cfg, w, a.Seed, i)
		}
		if cfg.Extra != nil {
			cfg.Extra(w, a.Tier, a.Seed)
		}
	}
	w.Meta.Extra = map[string]any{"feature_uses": uses}
	if err := w.Close(); err != nil {
		panic(err)
	}
}

// caseClass: the mode name; programs of mode `fragment` also say which proved fragment of the
// fragment-compiler theorems they are in (fragclass.go)
func caseClass(mode string, prog []luagen.Stmt) string {
	if mode == "fragment" {
		return mode + "/" + FragClass(prog)
	}
	return mode
}
