package luaprop

// fraggen: generator of programs inside the fragment of the verified fragment compiler (coq/CC):
// straight-line chunks of local declarations, assignments to locals and a final return, over
// literals, locals, (undefined) globals, arithmetic, unary minus, not and parentheses. The prototype
// the real compiler produces for them is compared with coq/CC/CompModel.v's compile_frag (frag_tie).

import (
	"fmt"

	"verifh/lib"
	"verifh/luagen"
)

type fragGen struct {
	r      *lib.Rand
	locals []string
	// per-program switches, so that a good share of the programs lies inside the PROVED fragments
	// F0/F1/F2 of coq/CC (fragclass.go), the rest only inside the tied one:
	noGlobals bool // no reads of undefined globals
	strMode   int  // 0: no strings; 1: numeral strings anywhere (arithmetic coerces them);
	// 2: strings only as whole right-hand sides / return values / under not
	tainted map[string]bool // strMode 2: names that received a string (kept out of arithmetic)
}

func (g *fragGen) num() luagen.Expr {
	switch g.r.Intn(10) {
	case 0:
		return &luagen.Num{V: 0}
	case 1:
		return &luagen.Num{V: float64(g.r.Intn(8)) + 0.5}
	case 2:
		return &luagen.Num{V: float64(g.r.Range(100000, 4000000000))}
	case 3:
		return &luagen.Num{V: 0.25 * float64(g.r.Intn(40))}
	default:
		return &luagen.Num{V: float64(g.r.Intn(12))}
	}
}

func (g *fragGen) leaf(inArith bool) luagen.Expr {
	switch k := g.r.Intn(100); {
	case k < 45 && len(g.locals) > 0:
		x := g.locals[g.r.Intn(len(g.locals))]
		if g.strMode == 2 && inArith && g.tainted[x] {
			return g.num()
		}
		return &luagen.Var{Name: x}
	case k < 85:
		return g.num()
	case k < 88:
		return &luagen.Nil{}
	case k < 91:
		return &luagen.True{}
	case k < 93:
		return &luagen.False{}
	case k < 96:
		if g.noGlobals {
			return g.num()
		}
		return &luagen.Var{Name: fmt.Sprintf("G%d", g.r.Intn(2))} // an undefined global: nil
	default:
		if g.strMode != 1 {
			return g.num()
		}
		return &luagen.Str{V: []byte(fmt.Sprint(g.r.Intn(30)))} // a numeral: arithmetic coerces it
	}
}

// a string-valued expression used as a whole right-hand side / return value (strMode 2)
func (g *fragGen) strExpr() luagen.Expr {
	s := &luagen.Str{V: []byte(fmt.Sprint(g.r.Intn(30)))}
	if g.r.Chance(30) {
		s = &luagen.Str{V: []byte([]string{"x", "yz", ""}[g.r.Intn(3)])}
	}
	switch k := g.r.Intn(10); {
	case k < 5:
		return s
	case k < 7:
		return &luagen.Un{Op: "not", A: s}
	case k < 8:
		return &luagen.Paren{E: s}
	default:
		var ts []string
		for _, x := range g.locals {
			if g.tainted[x] {
				ts = append(ts, x)
			}
		}
		if len(ts) == 0 {
			return s
		}
		return &luagen.Var{Name: ts[g.r.Intn(len(ts))]}
	}
}

func (g *fragGen) expr(depth int, inArith bool) luagen.Expr {
	if depth <= 0 || g.r.Chance(30) {
		return g.leaf(inArith)
	}
	switch k := g.r.Intn(100); {
	case k < 62:
		ops := []string{"+", "-", "*", "/", "+", "-", "*"}
		return &luagen.Bin{Op: ops[g.r.Intn(len(ops))], A: g.expr(depth-1, true), B: g.expr(depth-1, true)}
	case k < 68: // % and ^ on small integers: exact in both models
		if g.r.Bool() {
			return &luagen.Bin{Op: "%", A: g.expr(depth-1, true), B: &luagen.Num{V: float64(g.r.Range(1, 9))}}
		}
		return &luagen.Bin{Op: "^", A: &luagen.Num{V: float64(g.r.Intn(6))}, B: &luagen.Num{V: float64(g.r.Intn(4))}}
	case k < 80:
		return &luagen.Un{Op: "-", A: g.expr(depth-1, true)}
	case k < 86:
		return &luagen.Un{Op: "not", A: g.expr(depth-1, false)}
	default:
		return &luagen.Paren{E: g.expr(depth-1, inArith)}
	}
}

func (g *fragGen) exprs(n int) []luagen.Expr {
	es := make([]luagen.Expr, n)
	for i := range es {
		if g.strMode == 2 && g.r.Chance(25) {
			es[i] = g.strExpr()
		} else {
			es[i] = g.expr(g.r.Intn(4), false)
		}
	}
	return es
}

// strMode 2: the targets that receive an expression that may be a string become tainted
func (g *fragGen) taint(names []string, es []luagen.Expr) {
	if g.strMode != 2 {
		return
	}
	for j := 0; j < len(names) && j < len(es); j++ {
		e := es[j]
		for {
			p, ok := e.(*luagen.Paren)
			if !ok {
				break
			}
			e = p.E
		}
		switch x := e.(type) {
		case *luagen.Str:
			g.tainted[names[j]] = true
		case *luagen.Var:
			if g.tainted[x.Name] {
				g.tainted[names[j]] = true
			}
		}
	}
}

var fragNames = []string{"a", "b", "c", "d", "e"}

// FragmentProgram generates one program of the fragment.
func FragmentProgram(r *lib.Rand) []luagen.Stmt {
	g := &fragGen{r: r, tainted: map[string]bool{}}
	g.noGlobals = r.Chance(65)
	switch k := r.Intn(10); {
	case k < 4:
		g.strMode = 0
	case k < 7:
		g.strMode = 1
	default:
		g.strMode = 2
	}
	var prog []luagen.Stmt
	if r.Intn(12) == 0 { // more than 256 constants: later constants cannot be RK operands
		prog = append(prog, &luagen.Local{Names: []string{"z"}, Es: []luagen.Expr{&luagen.Num{V: 1000}}})
		g.locals = append(g.locals, "z")
		for i := 1; i < 260; i++ {
			// z = z + k: the constant is an RK operand up to index 255, a LOADK into a temporary above
			prog = append(prog, &luagen.Assign{LHS: []luagen.Expr{&luagen.Var{Name: "z"}},
				Es: []luagen.Expr{&luagen.Bin{Op: "+", A: &luagen.Var{Name: "z"}, B: &luagen.Num{V: float64(1000 + i)}}}})
		}
	}
	n := r.Range(2, 12)
	for i := 0; i < n; i++ {
		if len(g.locals) == 0 || r.Chance(45) {
			k := 1
			if r.Chance(25) {
				k = r.Range(2, 3)
			}
			names := make([]string, k)
			for j := range names {
				names[j] = fragNames[r.Intn(len(fragNames))]
			}
			ne := k
			if r.Chance(20) {
				ne = r.Intn(k + 2)
			}
			es := g.exprs(ne)
			prog = append(prog, &luagen.Local{Names: names, Es: es})
			g.locals = append(g.locals, names...)
			g.taint(names, es)
		} else {
			k := 1
			if r.Chance(25) {
				k = r.Range(2, 3)
			}
			lhs := make([]luagen.Expr, k)
			tnames := make([]string, k)
			for j := range lhs {
				tnames[j] = g.locals[r.Intn(len(g.locals))]
				lhs[j] = &luagen.Var{Name: tnames[j]}
			}
			ne := k
			if r.Chance(20) {
				ne = r.Range(1, k+1)
			}
			es := g.exprs(ne)
			prog = append(prog, &luagen.Assign{LHS: lhs, Es: es})
			g.taint(tnames, es)
		}
	}
	if r.Chance(85) {
		prog = append(prog, &luagen.Return{Es: g.exprs(r.Intn(4))})
	}
	return prog
}
