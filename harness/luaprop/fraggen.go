package luaprop

// fraggen: generator of programs inside the fragment of the verified fragment compiler (coq/CC):
// straight-line chunks of local declarations, assignments to locals and a final return, over
// literals, locals, (undefined) globals, arithmetic, unary minus, not and parentheses. The prototype
// the real compiler produces for them is compared with coq/CC/CompModel.v's compile_frag (frag_tie).

import (
	"fmt"

	"verifh/lib"
	"verifh/luagen"
)

type fragGen struct {
	r      *lib.Rand
	locals []string
}

func (g *fragGen) num() luagen.Expr {
	switch g.r.Intn(10) {
	case 0:
		return &luagen.Num{V: 0}
	case 1:
		return &luagen.Num{V: float64(g.r.Intn(8)) + 0.5}
	case 2:
		return &luagen.Num{V: float64(g.r.Range(100000, 4000000000))}
	case 3:
		return &luagen.Num{V: 0.25 * float64(g.r.Intn(40))}
	default:
		return &luagen.Num{V: float64(g.r.Intn(12))}
	}
}

func (g *fragGen) leaf() luagen.Expr {
	switch k := g.r.Intn(100); {
	case k < 45 && len(g.locals) > 0:
		return &luagen.Var{Name: g.locals[g.r.Intn(len(g.locals))]}
	case k < 85:
		return g.num()
	case k < 88:
		return &luagen.Nil{}
	case k < 91:
		return &luagen.True{}
	case k < 93:
		return &luagen.False{}
	case k < 96:
		return &luagen.Var{Name: fmt.Sprintf("G%d", g.r.Intn(2))} // an undefined global: nil
	default:
		return &luagen.Str{V: []byte(fmt.Sprint(g.r.Intn(30)))} // a numeral: arithmetic coerces it
	}
}

func (g *fragGen) expr(depth int) luagen.Expr {
	if depth <= 0 || g.r.Chance(30) {
		return g.leaf()
	}
	switch k := g.r.Intn(100); {
	case k < 62:
		ops := []string{"+", "-", "*", "/", "+", "-", "*"}
		return &luagen.Bin{Op: ops[g.r.Intn(len(ops))], A: g.expr(depth - 1), B: g.expr(depth - 1)}
	case k < 68: // % and ^ on small integers: exact in both models
		if g.r.Bool() {
			return &luagen.Bin{Op: "%", A: g.expr(depth - 1), B: &luagen.Num{V: float64(g.r.Range(1, 9))}}
		}
		return &luagen.Bin{Op: "^", A: &luagen.Num{V: float64(g.r.Intn(6))}, B: &luagen.Num{V: float64(g.r.Intn(4))}}
	case k < 80:
		return &luagen.Un{Op: "-", A: g.expr(depth - 1)}
	case k < 86:
		return &luagen.Un{Op: "not", A: g.expr(depth - 1)}
	default:
		return &luagen.Paren{E: g.expr(depth - 1)}
	}
}

func (g *fragGen) exprs(n int) []luagen.Expr {
	es := make([]luagen.Expr, n)
	for i := range es {
		es[i] = g.expr(g.r.Intn(4))
	}
	return es
}

var fragNames = []string{"a", "b", "c", "d", "e"}

// FragmentProgram generates one program of the fragment.
func FragmentProgram(r *lib.Rand) []luagen.Stmt {
	g := &fragGen{r: r}
	var prog []luagen.Stmt
	if r.Intn(12) == 0 { // more than 256 constants: later constants cannot be RK operands
		prog = append(prog, &luagen.Local{Names: []string{"z"}, Es: []luagen.Expr{&luagen.Num{V: 1000}}})
		g.locals = append(g.locals, "z")
		for i := 1; i < 260; i++ {
			// z = z + k: the constant is an RK operand up to index 255, a LOADK into a temporary above
			prog = append(prog, &luagen.Assign{LHS: []luagen.Expr{&luagen.Var{Name: "z"}},
				Es: []luagen.Expr{&luagen.Bin{Op: "+", A: &luagen.Var{Name: "z"}, B: &luagen.Num{V: float64(1000 + i)}}}})
		}
	}
	n := r.Range(2, 12)
	for i := 0; i < n; i++ {
		if len(g.locals) == 0 || r.Chance(45) {
			k := 1
			if r.Chance(25) {
				k = r.Range(2, 3)
			}
			names := make([]string, k)
			for j := range names {
				names[j] = fragNames[r.Intn(len(fragNames))]
			}
			ne := k
			if r.Chance(20) {
				ne = r.Intn(k + 2)
			}
			prog = append(prog, &luagen.Local{Names: names, Es: g.exprs(ne)})
			g.locals = append(g.locals, names...)
		} else {
			k := 1
			if r.Chance(25) {
				k = r.Range(2, 3)
			}
			lhs := make([]luagen.Expr, k)
			for j := range lhs {
				lhs[j] = &luagen.Var{Name: g.locals[r.Intn(len(g.locals))]}
			}
			ne := k
			if r.Chance(20) {
				ne = r.Range(1, k+1)
			}
			prog = append(prog, &luagen.Assign{LHS: lhs, Es: g.exprs(ne)})
		}
	}
	if r.Chance(85) {
		prog = append(prog, &luagen.Return{Es: g.exprs(r.Intn(4))})
	}
	return prog
}
