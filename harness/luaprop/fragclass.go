package luaprop

// fragclass: which of the PROVED fragments of the fragment-compiler theorems (coq/CC) a generated
// fragment program falls in. A Go mirror of FragSem.in_frag (F0), Frag1Sem.in_frag1 (F1),
// Frag2Sem.in_frag2 (F2), Frag3Sem.in_frag3 (F3) and Frag4Sem.in_frag4 (F4; its lit_ok condition on string
// literals is not mirrored: the generator's strings are short numerals and words) without their
// register-budget side conditions (never reached by the generator's programs). Statistics only (the Class of the case): nothing is decided from it, the
// Coq predicates are the definitions.

import "verifh/luagen"

func fcHas(l []string, x string) bool {
	for _, y := range l {
		if y == x {
			return true
		}
	}
	return false
}

func fcArith(op string) bool {
	switch op {
	case "+", "-", "*", "/", "%", "^":
		return true
	}
	return false
}

// estr: the expression may evaluate to a string (Frag2Sem.estr)
func fcEstr(T []string, e luagen.Expr) bool {
	switch x := e.(type) {
	case *luagen.Str:
		return true
	case *luagen.Var:
		return fcHas(T, x.Name)
	case *luagen.Paren:
		return fcEstr(T, x.E)
	}
	return false
}

// the keys of the initial global table of the Coq models (Lua/Run.v g_globals)
var fcGlobalKeys = []string{"emit", "type", "tostring", "tonumber", "select", "unpack", "next", "pairs", "ipairs",
	"rawget", "rawset", "rawequal", "setmetatable", "getmetatable", "getfenv", "setfenv", "pcall", "xpcall",
	"error", "assert", "newud", "coroutine", "table", "string", "math", "_G"}

// fcGlobals: reads of undefined globals are allowed (F3, F4)
var fcGlobals bool

// fcNoTaint: no taint restriction (F4: arithmetic coerces numeric strings)
var fcNoTaint bool

// expression of F2/F3 relative to T; with strs=false: expression of F0/F1 (no string literal)
func fcExpr(T, locals []string, e luagen.Expr, strs bool) bool {
	switch x := e.(type) {
	case *luagen.Nil, *luagen.True, *luagen.False, *luagen.Num:
		return true
	case *luagen.Str:
		return strs
	case *luagen.Var:
		return fcHas(locals, x.Name) || (fcGlobals && !fcHas(fcGlobalKeys, x.Name))
	case *luagen.Paren:
		return fcExpr(T, locals, x.E, strs)
	case *luagen.Bin:
		return fcArith(x.Op) && fcExpr(T, locals, x.A, strs) && fcExpr(T, locals, x.B, strs) &&
			(fcNoTaint || (!fcEstr(T, x.A) && !fcEstr(T, x.B)))
	case *luagen.Un:
		switch x.Op {
		case "-":
			return fcExpr(T, locals, x.A, strs) && (fcNoTaint || !fcEstr(T, x.A))
		case "not":
			return fcExpr(T, locals, x.A, strs)
		}
	}
	return false
}

func fcTargets(s luagen.Stmt) (names []string, es []luagen.Expr, isLocal, ok bool) {
	switch x := s.(type) {
	case *luagen.Local:
		return x.Names, x.Es, true, true
	case *luagen.Assign:
		for _, l := range x.LHS {
			v, isVar := l.(*luagen.Var)
			if !isVar {
				return nil, nil, false, false
			}
			names = append(names, v.Name)
		}
		return names, x.Es, false, true
	}
	return nil, nil, false, false
}

// one forward pass of Frag2Sem.taint_pass
func fcTaintPass(T []string, prog []luagen.Stmt) []string {
	for _, s := range prog {
		names, es, _, ok := fcTargets(s)
		if !ok {
			continue
		}
		for i := 0; i < len(names) && i < len(es); i++ {
			if fcEstr(T, es[i]) && !fcHas(T, names[i]) {
				T = append(T, names[i])
			}
		}
	}
	return T
}

func fcStmts(T []string, prog []luagen.Stmt, strs, multi bool) bool {
	var locals []string
	for i, s := range prog {
		if r, isRet := s.(*luagen.Return); isRet {
			if i != len(prog)-1 {
				return false
			}
			for _, e := range r.Es {
				if !fcExpr(T, locals, e, strs) {
					return false
				}
			}
			continue
		}
		names, es, isLocal, ok := fcTargets(s)
		if !ok || len(names) < 1 {
			return false
		}
		if !multi && (len(names) != 1 || len(es) != 1) {
			return false
		}
		if !isLocal {
			if len(es) < 1 {
				return false
			}
			for _, x := range names {
				if !fcHas(locals, x) {
					return false
				}
			}
		}
		for _, e := range es {
			if !fcExpr(T, locals, e, strs) {
				return false
			}
		}
		for j := 0; j < len(names) && j < len(es); j++ {
			if !fcNoTaint && fcEstr(T, es[j]) && !fcHas(T, names[j]) {
				return false
			}
		}
		if isLocal {
			locals = append(locals, names...)
		}
	}
	return true
}

// FragClass returns "F0", "F1", "F2", "F3", "F4" (the smallest proved fragment the program is in)
// or "tie" (only the per-run tie of compile_frag with the real compiler covers it).
func FragClass(prog []luagen.Stmt) string {
	fcGlobals, fcNoTaint = false, false
	if fcStmts(nil, prog, false, false) {
		return "F0"
	}
	if fcStmts(nil, prog, false, true) {
		return "F1"
	}
	var T []string
	for i := 0; i <= len(prog); i++ {
		T2 := fcTaintPass(T, prog)
		if len(T2) == len(T) {
			break
		}
		T = T2
	}
	if fcStmts(T, prog, true, true) {
		return "F2"
	}
	fcGlobals = true
	defer func() { fcGlobals, fcNoTaint = false, false }()
	if fcStmts(T, prog, true, true) {
		return "F3"
	}
	fcNoTaint = true
	if fcStmts(nil, prog, true, true) {
		return "F4"
	}
	return "tie"
}
