#!/bin/sh
# Build everything the checks need from files on disk only (offline).
set -e
cd "$(dirname "$0")"
export GOFLAGS=-mod=mod GOPROXY=off GOSUMDB=off GOTOOLCHAIN=local
mkdir -p cases evidence replays harness/bin
cp /repo/go.sum harness/go.sum
( cd coq && (echo "-R . GL"; find . -name '*.v' | sed 's|^\./||' | sort) > _CoqProject \
  && coq_makefile -f _CoqProject -o Makefile && ( timeout 14000 make -k -j16 || echo "setup: some Coq targets failed; the checks that need them will report it" ) )
( cd harness && for d in cmd/*/; do b=$(basename "$d"); go build -tags verif -o bin/$b ./cmd/$b; done )
echo setup done
