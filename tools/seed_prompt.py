#!/usr/bin/env python3
"""Print the prompt for an independent bug-seeding agent for one property (no /verif knowledge)."""
import json, sys
pid = sys.argv[1]
for l in open('/verif/properties.jsonl'):
    p = json.loads(l)
    if p['id'] == pid: break
wt = "/tmp/seed-%s" % pid
print(f"""You are testing how well a semantic property of the Go project yuin/gopher-lua (a Lua 5.1 VM and compiler written in Go; the git repository is at /repo) is protected against realistic regressions. You work ONLY in your own scratch git worktree and scratch directories; you must NOT read, list or use anything under /verif (that directory holds somebody else's checking machinery and your work must be independent of it), and you must NOT modify /repo's own working tree or commit anything anywhere in /repo.

THE PROPERTY ({p['id']}: {p['title']}):
{p['statement']}
It quantifies over: {p['quantifier']['text']}
Code anchors (where the mechanism lives): {', '.join(p['anchors']['files'])}

YOUR JOB: produce TWO different source changes to gopher-lua (different mechanisms / different code sites), each of which
 1. BREAKS the property above on some inputs,
 2. still COMPILES (`go build ./...`) and still PASSES the existing test suite unchanged (`go test -vet=off -count=1 ./...` in the worktree; ~15 s),
 3. needs something SPECIFIC to manifest — a particular multi-step sequence of operations, an unusual or boundary input, a particular nesting/size/configuration, a fault at a particular point, or two cooperating code sites that each look fine alone — NOT something ordinary use or a trivial smoke test would expose at once. Prefer the kind of subtle slip a real maintainer could commit (a dropped guard, an off-by-one at a boundary, a wrong operand order in a rarely used path, a missing state restore on an error path, an optimisation that is unsound in one case), in the code anchored above.
 For each change also write a DEMONSTRATION: a small Go test file or small Go program (using the public API of github.com/yuin/gopher-lua, e.g. lua.NewState / L.DoString / L.CallByParam, or a package-internal _test.go file if necessary) that FAILS (non-zero exit / test failure) with the change applied and PASSES without it.

HOW TO WORK
 * Environment for every shell command: `export GOFLAGS=-mod=mod GOPROXY=off GOSUMDB=off GOTOOLCHAIN=local` (no network; nothing can be installed).
 * Create your worktree: `git -C /repo worktree add {wt}-a HEAD` for the first change and `{wt}-b` for the second (or reuse one and `git checkout -- .` between). Edit there. Note vm.go and state.go are GENERATED from _vm.go and _state.go by `./_tools/go-inline *.go && go fmt .` — if you change one of those four files keep template and generated file consistent (edit the template and regenerate, or hand-patch both identically).
 * For a stand-alone demo program use a scratch module outside the worktree, e.g. {wt}-demo/go.mod with `module demo`, `go 1.23`, `require github.com/yuin/gopher-lua v0.0.0`, `replace github.com/yuin/gopher-lua => <path of worktree or /repo>`, plus `cp /repo/go.sum .`; run it once against /repo (must pass) and once against your worktree (must fail). Keep outputs short (pipe through `head -c 2000`); run everything under `timeout`.
 * Verify all three conditions yourself for each change before reporting.

DELIVERABLE: directory /tmp/seeded-out/{pid}-1/ and /tmp/seeded-out/{pid}-2/ each containing: `patch.diff` (output of `git diff` in the worktree, applies with `git apply` to /repo HEAD), the demonstration (`demo_test.go` or `demo/main.go` + how to run it in `RUN.txt`), and `meta.json` = {{"property": "{pid}", "what_breaks": "...", "needs_to_manifest": "...", "files": [...], "suite_passes": true, "demo_fails_with_patch": true, "demo_passes_without": true, "commands_run": ["..."]}}. Then remove your worktrees (`git -C /repo worktree remove --force <dir>`) and scratch module directories. Your final message: 10 lines max — the two changes in one sentence each and the paths.""")
