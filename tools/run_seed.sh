#!/bin/bash
# run_seed.sh <seed-dir-name e.g. C04-1> : confirm a seeded change (applies, builds, suite passes,
# demo passes on /repo and fails with the patch) and run the property's check against it.
# Writes /verif/seeded/<name>/{patch.diff,demo*,meta.json,result.json}.
set -u
name=$1
prop=${name%%-*}
src=/tmp/seeded-out/$name
[ -d $src ] || src=/verif/seeded/$name      # the kept copy is the source once the scratch one is gone
wt=/tmp/seedwt-$name
demo=/tmp/seeddemo-$name
export GOFLAGS=-mod=mod GOPROXY=off GOSUMDB=off GOTOOLCHAIN=local
out=/verif/seeded/$name
mkdir -p $out
[ $src = $out ] || cp -r $src/* $out/ 2>/dev/null
git -C /repo worktree remove --force $wt >/dev/null 2>&1
git -C /repo worktree add -q $wt HEAD || exit 2
applies=true
patch=$src/patch.diff
# a seed whose context was moved by later fix: commits may carry the same change re-based on the
# current tree (kept next to the original)
[ -f $out/patch.rebased.diff ] && patch=$out/patch.rebased.diff
[ -f $src/patch.rebased.diff ] && patch=$src/patch.rebased.diff
( cd $wt && git apply $patch ) || ( cd $wt && git apply -3 $patch ) || applies=false
builds=false; suite=false; demo_clean=unknown; demo_patched=unknown
if $applies; then
  ( cd $wt && go build ./... ) && builds=true
  if $builds; then
    ( cd $wt && timeout 900 go test -vet=off -count=1 ./... >/tmp/seedtest-$name.log 2>&1 ) && suite=true
  fi
  # demo: stand-alone program in demo/ (main.go) or a _test.go file
  if [ -f $src/demo/main.go ]; then
    for tree in /repo $wt; do
      rm -rf $demo; mkdir -p $demo/demo; cp $src/demo/*.go $demo/demo/; cp /repo/go.sum $demo/
      printf 'module demo\n\ngo 1.23\n\nrequire github.com/yuin/gopher-lua v0.0.0\n\nreplace github.com/yuin/gopher-lua => %s\n' $tree > $demo/go.mod
      if ( cd $demo && timeout 300 go run ./demo >/tmp/seeddemo-$name.log 2>&1 ); then r=pass; else r=fail; fi
      if [ $tree = /repo ]; then demo_clean=$r; else demo_patched=$r; fi
    done
  elif ls $src/*_test.go >/dev/null 2>&1 && ! grep -q '^package lua' $src/*_test.go; then
    # a test file of its own module (package demo) using the public API
    for tree in /repo $wt; do
      rm -rf $demo; mkdir -p $demo; cp $src/*_test.go $demo/; cp /repo/go.sum $demo/
      printf 'module demo\n\ngo 1.23\n\nrequire github.com/yuin/gopher-lua v0.0.0\n\nreplace github.com/yuin/gopher-lua => %s\n' $tree > $demo/go.mod
      race=""; grep -qs -- "-race" $src/RUN.txt && race="-race"
      if ( cd $demo && timeout 600 go test $race -vet=off -count=1 ./... >/tmp/seeddemo-$name.log 2>&1 ); then r=pass; else r=fail; fi
      if [ $tree = /repo ]; then demo_clean=$r; else demo_patched=$r; fi
    done
  elif ls $src/*_test.go >/dev/null 2>&1; then
    for tree in clean patched; do
      t=/tmp/seedwt2-$name; git -C /repo worktree remove --force $t >/dev/null 2>&1; git -C /repo worktree add -q $t HEAD
      [ $tree = patched ] && ( cd $t && git apply $src/patch.diff 2>/dev/null || git apply -3 $src/patch.diff )
      cp $src/*_test.go $t/
      tn=$(grep -ho 'func Test[A-Za-z0-9_]*' $src/*_test.go | head -1 | sed 's/func //')
      if ( cd $t && timeout 300 go test -vet=off -count=1 -run "^$tn\$" . >/tmp/seeddemo-$name.log 2>&1 ); then r=pass; else r=fail; fi
      [ $tree = clean ] && demo_clean=$r || demo_patched=$r
      git -C /repo worktree remove --force $t >/dev/null 2>&1
    done
  fi
fi
check_exit=-1; check_out=""
if $builds; then
  check_out=$(cd /verif && VERIF_REPO=$wt timeout 3000 ./check $prop 2>&1 | tail -8)
  if echo "$check_out" | grep -q "^VIOLATION"; then check_exit=1; else check_exit=0; fi
fi
python3 - <<PY
import json, os, sys
old = None
if os.path.exists("$out/result.json"):
    try: old = json.load(open("$out/result.json"))
    except Exception: old = None
if "$applies" != "true" and old and old.get("applies"):
    # the patch was confirmed against an earlier HEAD and no longer applies (later fix: commits moved
    # its context): keep the confirmed result, note the HEAD at which re-application failed
    old["reapply_failed_at"] = "$(git -C /repo rev-parse --short HEAD)"
    json.dump(old, open("$out/result.json", "w"), indent=1)
    sys.exit(0)
json.dump({"seed": "$name", "property": "$prop", "repo_head": "$(git -C /repo rev-parse --short HEAD)", "applies": "$applies" == "true", "builds": "$builds" == "true",
  "suite_passes": "$suite" == "true", "demo_on_clean_repo": "$demo_clean", "demo_with_patch": "$demo_patched",
  "check_cmd": "VERIF_REPO=<worktree with patch> ./check $prop", "check_detects": $check_exit == 1,
  "check_output_tail": """$check_out"""[-1500:]}, open("$out/result.json", "w"), indent=1)
PY
git -C /repo worktree remove --force $wt >/dev/null 2>&1
rm -rf $demo /verif/cases/$prop.alt
cat $out/result.json | python3 -c "import json,sys; d=json.load(sys.stdin); print(d['seed'], 'applies',d['applies'],'builds',d['builds'],'suite',d['suite_passes'],'demo',d['demo_on_clean_repo'],d['demo_with_patch'],'DETECTED' if d['check_detects'] else 'MISSED')"
