#!/usr/bin/env python3
"""luadbg.py <prop> <caseid>: print source, observed outcome and the reference evaluator's outcome."""
import sys, json, re, subprocess, os
prop, cid = sys.argv[1], int(sys.argv[2])
brief = len(sys.argv) > 3
cdir = "/verif/cases/%s" % prop
case = None
for line in open(cdir + "/cases.jsonl"):
    c = json.loads(line)
    if c["id"] == cid: case = c
if not brief:
    print(case["input"]["src"])
    print("OBSERVED:", json.dumps(case["observed"])[:3000])
for f in sorted(os.listdir(cdir)):
    if f.startswith("shard_") and f.endswith(".v"):
        txt = open(cdir + "/" + f).read()
        m = re.search(r"^Definition c%d : (v?case) := (.*)\.$" % cid, txt, re.M)
        if m:
            hdr = txt.split("Definition c")[0]
            if m.group(1) == "vcase":
                v = hdr + "\nDefinition cv : vcase := %s.\nDefinition cc : LuaCases.case := match cv with VLua c => c | VProg b _ o => CProg b o | VVm _ _ => CProg [] (Outcome [] (OOk [])) end.\n" % m.group(2)
            else:
                v = hdr + "\nDefinition cc : case := %s.\n" % m.group(2)
            v += "Fixpoint fd {A} (eq : A -> A -> bool) (a b : list A) (i : Z) : Z := match a, b with x :: a', y :: b' => if eq x y then fd eq a' b' (i+1)%Z else i | [], [] => (-1)%Z | _, _ => i end.\n"
            v += "Definition dd := Eval vm_compute in (match run_case no_devs cc with (Outcome t' f', Outcome t f) => (fd (list_eqb oval_eqb) t t' 0%Z, ofin_eqb f f') | (_, Outcome _ _) => ((-2)%Z, false) | _ => ((-3)%Z, false) end).\nPrint dd.\n"
            v += "Definition oo := Eval vm_compute in (fst (run_case no_devs cc)).\nPrint oo.\n"
            open("/tmp/luadbg.v", "w").write(v)
            out = subprocess.run(["coqc", "-R", "/verif/coq", "GL", "/tmp/luadbg.v"], capture_output=True, text=True, cwd="/tmp")
            o = (out.stdout + out.stderr)
            o = re.sub(r"%Z|%float", "", o)
            o = re.sub(r"\s+", " ", o)
            # decode OStr byte lists
            def dec(m):
                try:
                    bs = [int(x) for x in m.group(1).split(";") if x.strip()]
                    return 'OStr "%s"' % "".join(chr(b) if 32 <= b < 127 else "\\%03d" % b for b in bs)
                except Exception:
                    return m.group(0)
            o = re.sub(r"OStr \[([0-9; ]*)\]", dec, o)
            m2 = re.search(r"dd = \(([-0-9]+), (\w+)\)", o)
            print("FIRST DIFFERING TRACE ROW (Coq):", m2.group(1) if m2 else "?", " final equal:", m2.group(2) if m2 else "?")
            if m2 and int(m2.group(1)) >= 0:
                k = int(m2.group(1)); ob = case["observed"]["trace"]
                rows = re.findall(r"\[([^\[\]]*)\]", o.split("oo = Outcome",1)[1] if "oo = Outcome" in o else "")
                print("   OBS  row:", ob[k] if k < len(ob) else "<end>"); print("   MODEL row:", rows[k] if k < len(rows) else "<end>")
            if brief: sys.exit(0)
            if not brief:
                print("MODEL:", o[:4000])
            else:
                rows = re.findall(r"\[([^\[\]]*)\]", o.split("Outcome",1)[1] if "Outcome" in o else "")
                ob = case["observed"]["trace"]
                k = 0
                def norm(r):
                    r = re.sub(r"OFault (\d+) (\d+)", r"fault(kind=\1,line=\2)", r)
                    r = re.sub(r"ORef (\d+) (\d+)", lambda m: ["?","table","function","thread","userdata"][int(m.group(1))]+"#"+m.group(2), r)
                    r = r.replace("-0","0")
                    return re.sub(r"[()\s]", "", r.replace("ONum","").replace("OStr","").replace("OBool","").replace("ONil","nil").replace(";"," "))
                while k < len(ob) and k < len(rows) and norm(rows[k]) == norm(ob[k]).replace('\\"','"'): k += 1
                print("case", cid, "obs rows", len(ob), "model rows", len(rows)-1, "first diff at", k)
                print("   OBS  :", ob[k] if k < len(ob) else "<end>", "| fin:", case["observed"].get("error", case["observed"].get("results")))
                print("   MODEL:", rows[k] if k < len(rows) else "<end>", "| tail:", o[-200:])
