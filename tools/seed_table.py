#!/usr/bin/env python3
"""Merge each seeded/<id>/result.json into meta.json (what I ran) and print a markdown table."""
import json, glob, os
rows = []
for d in sorted(glob.glob('/verif/seeded/C*-*')):
    try:
        meta = json.load(open(d + '/meta.json')); res = json.load(open(d + '/result.json'))
    except Exception as e:
        continue
    meta['confirmed_by_coordinator'] = {k: res[k] for k in ('repo_head', 'applies', 'builds', 'suite_passes', 'demo_on_clean_repo', 'demo_with_patch', 'check_cmd', 'check_detects')}
    meta['what_i_ran'] = ["git worktree add <wt> HEAD; git apply patch.diff", "go build ./... && go test -vet=off -count=1 ./... (in <wt>)",
                          "go run ./demo with replace => /repo and => <wt>", res['check_cmd']]
    json.dump(meta, open(d + '/meta.json', 'w'), indent=1)
    ok = res['applies'] and res['builds'] and res['suite_passes'] and res['demo_on_clean_repo'] == 'pass' and res['demo_with_patch'] == 'fail'
    rows.append((os.path.basename(d), meta.get('what_breaks', '')[:150].replace('|', '/').replace('\n', ' '), 'yes' if ok else 'NO', 'caught' if res['check_detects'] else 'MISSED'))
print("| seed | change (short) | confirmed | ./check |\n|---|---|---|---|")
for r in rows: print("| %s | %s | %s | %s |" % r)
