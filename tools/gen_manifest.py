#!/usr/bin/env python3
"""Assemble MANIFEST.json from props/*.json and tools/manifest_base.json."""
import json, glob, os
ROOT = os.path.dirname(os.path.dirname(os.path.abspath(__file__)))
base = json.load(open(os.path.join(ROOT, "tools", "manifest_base.json")))
checks = []
for f in sorted(glob.glob(os.path.join(ROOT, "props", "C*.json"))):
    p = json.load(open(f))
    if p.get("not_applicable"):
        continue
    checks.append({
        "property_id": p["id"],
        "quick_cmd": "./check %s --tier quick" % p["id"],
        "thorough_cmd": "./check %s --tier thorough" % p["id"],
        "evidence_file": "/verif/evidence/%s.json" % p["id"],
        "replay_cmd_template": "./check %s --replay {path}" % p["id"],
        "engine": "coq-models+vh-harness",
        "level_claimed": {"category": p["level"], "text": p["level_text"], "design_ref": p.get("design_ref", "")},
        "level_note": p["level_note"],
        "technique": p["technique"],
    })
base["checks"] = checks
claimed = {c["property_id"] for c in checks}
base["not_applicable"] = [n for n in base.get("not_applicable", []) if n["property_id"] not in claimed]
json.dump(base, open(os.path.join(ROOT, "MANIFEST.json"), "w"), indent=1)
print("MANIFEST.json:", len(checks), "checks,", len(base["not_applicable"]), "not_applicable")
