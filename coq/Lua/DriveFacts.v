(* M-Lua meta-theory for C06: the coroutine driver. Status automaton invariant [co_wf] preserved
   by every driver step; resume of a non-suspended coroutine has no effect; values are
   transferred unchanged in both directions; an error kills only the failing coroutine. *)
From Coq Require Import Floats Lia.
From GL Require Import Common.Bytes Lua.Syntax Lua.Num Lua.Values Lua.Names Lua.Eval Lua.Run
  Lua.ValuesFacts Lua.MonadFacts Lua.EvalStepFacts.

Definition status (s : state) (i : nat) : costatus := nth i (cos s) CoDead.

Definition whos (stack : list (option nat * K * bool)) : list (option nat) :=
  map (fun e => fst (fst e)) stack.

(* The resumption chain: the running coroutine, then who resumed it, ..., ending in the main
   thread (None). Exactly the head is CoRun, exactly the other coroutines of the chain are CoNorm;
   every other coroutine is initial, suspended or dead. *)
Definition co_wf (s : state) (ws : list (option nat)) : Prop :=
  exists cs, cur s :: ws = map Some cs ++ [None] /\ NoDup cs /\
    (forall i, In i cs -> (i < length (cos s))%nat) /\
    (forall i, status s i = CoRun <-> cur s = Some i) /\
    (forall i, status s i = CoNorm <-> In (Some i) ws).

(* ---------- set_status ---------- *)
Lemma status_set_lemma s c st j :
  status (set_status s (Some c) st) j =
  if Nat.eqb c j && Nat.ltb c (length (cos s)) then st else status s j.
Proof.
  unfold status, set_status; simpl. destruct (Nat.eqb c j) eqn:E; simpl.
  - apply Nat.eqb_eq in E; subst j. destruct (Nat.ltb c (length (cos s))) eqn:L.
    + apply Nat.ltb_lt in L. apply set_nth_same_lemma; auto.
    + apply Nat.ltb_ge in L. rewrite set_nth_out_lemma; auto.
  - apply Nat.eqb_neq in E. apply set_nth_other_lemma; auto.
Qed.

Lemma status_set_none_lemma s st j : status (set_status s None st) j = status s j.
Proof. reflexivity. Qed.

Lemma cos_length_set_lemma s c st : length (cos (set_status s c st)) = length (cos s).
Proof. destruct c; simpl; auto. apply set_nth_length_lemma. Qed.

Lemma status_with_cur_lemma s c j : status (with_cur s c) j = status s j.
Proof. reflexivity. Qed.

Lemma set_status_other_fields_lemma s c st :
  cells (set_status s c st) = cells s /\ tabs (set_status s c st) = tabs s /\
  clos (set_status s c st) = clos s /\ uds (set_status s c st) = uds s /\
  trace (set_status s c st) = trace s /\ cur (set_status s c st) = cur s /\
  strmt (set_status s c st) = strmt s /\ dv (set_status s c st) = dv s.
Proof. destruct c; simpl; repeat split. Qed.

Lemma status_lt_lemma s i : status s i <> CoDead -> (i < length (cos s))%nat.
Proof.
  intros H. destruct (Nat.lt_ge_cases i (length (cos s))); auto.
  exfalso. apply H. unfold status. apply nth_overflow. auto.
Qed.

(* ---------- chain helpers ---------- *)
Lemma chain_head_lemma (c : option nat) (ws : list (option nat)) (cs : list nat) :
  c :: ws = map Some cs ++ [None] -> ws <> [] -> exists c0 cs', cs = c0 :: cs' /\ c = Some c0 /\ ws = map Some cs' ++ [None].
Proof.
  intros H Hne. destruct cs as [|c0 cs']; simpl in H.
  - inversion H; subst. contradiction.
  - inversion H; subst. eauto.
Qed.

Lemma chain_in_lemma (ws : list (option nat)) (cs : list nat) (i : nat) : ws = map Some cs ++ [None] -> (In (Some i) ws <-> In i cs).
Proof.
  intros ->. rewrite in_app_iff, in_map_iff. split.
  - intros [[x [Hx Hin]]|[H|[]]]; [inversion Hx; subst; auto|discriminate].
  - intros H. left. eauto.
Qed.

(* ---------- the three driver transitions on states ---------- *)
Definition st_resume (s : state) (co : nat) : state :=
  with_cur (set_status (set_status s (cur s) CoNorm) (Some co) CoRun) (Some co).
Definition st_finish (s : state) (who : option nat) : state :=
  with_cur (set_status (set_status s (cur s) CoDead) who CoRun) who.
Definition st_yield (s : state) (c : nat) (who : option nat) : state :=
  with_cur (set_status (set_status s (Some c) CoSusp) who CoRun) who.

Definition resumable (s : state) (co : nat) : Prop :=
  (exists f, status s co = CoInit f) \/ status s co = CoSusp.

Definition opt_eqb (o : option nat) (i : nat) : bool := match o with Some m => Nat.eqb m i | None => false end.

Lemma opt_eqb_true_lemma o i : opt_eqb o i = true <-> o = Some i.
Proof.
  destruct o as [m|]; simpl; [|split; discriminate]. rewrite Nat.eqb_eq. split; [intros ->; auto|intros H; inversion H; auto].
Qed.

Lemma opt_eqb_false_lemma o i : opt_eqb o i = false <-> o <> Some i.
Proof.
  rewrite <- opt_eqb_true_lemma. destruct (opt_eqb o i); split; intros H; try discriminate; auto. exfalso; apply H; auto.
Qed.

Lemma in_chain_lemma (l : list nat) x : In (Some x) (map Some l ++ [None]) -> In x l.
Proof.
  intros H. apply in_app_or in H. destruct H as [H|[H|[]]]; [|discriminate].
  apply in_map_iff in H. destruct H as [y [Hy Hin]]. inversion Hy; subst; auto.
Qed.

(* closed forms of the statuses after a driver transition *)
Lemma two_sets_status_lemma s a sta b stb i :
  (a < length (cos s))%nat -> (forall w, b = Some w -> (w < length (cos s))%nat /\ w <> a) ->
  status (set_status (set_status s (Some a) sta) b stb) i =
  if Nat.eqb a i then sta else if opt_eqb b i then stb else status s i.
Proof.
  intros Ha Hb. destruct b as [w|].
  - destruct (Hb w eq_refl) as [Hw Hwa]. rewrite !status_set_lemma, cos_length_set_lemma. simpl.
    destruct (Nat.eqb a i) eqn:E1; destruct (Nat.eqb w i) eqn:E2; simpl;
      try apply Nat.eqb_eq in E1; try apply Nat.eqb_eq in E2; try congruence.
    + apply Nat.ltb_lt in Ha. rewrite Ha. reflexivity.
    + apply Nat.ltb_lt in Hw. rewrite Hw. reflexivity.
  - rewrite status_set_none_lemma, status_set_lemma. simpl.
    destruct (Nat.eqb a i) eqn:E1; simpl; auto. apply Nat.ltb_lt in Ha. rewrite Ha. reflexivity.
Qed.

Lemma st_resume_status_lemma s co i :
  (co < length (cos s))%nat -> (forall m, cur s = Some m -> (m < length (cos s))%nat /\ m <> co) ->
  status (st_resume s co) i =
  if Nat.eqb co i then CoRun else if opt_eqb (cur s) i then CoNorm else status s i.
Proof.
  intros Hco Hm. unfold st_resume. rewrite status_with_cur_lemma. destruct (cur s) as [m|] eqn:Ecur.
  - destruct (Hm m eq_refl) as [Hml Hmc]. rewrite !status_set_lemma, cos_length_set_lemma. simpl.
    destruct (Nat.eqb co i) eqn:E1; destruct (Nat.eqb m i) eqn:E2; simpl;
      try apply Nat.eqb_eq in E1; try apply Nat.eqb_eq in E2; try congruence.
    + apply Nat.ltb_lt in Hco. rewrite Hco. reflexivity.
    + apply Nat.ltb_lt in Hml. rewrite Hml. reflexivity.
  - rewrite status_set_lemma. unfold set_status at 1 2. simpl opt_eqb.
    destruct (Nat.eqb co i) eqn:E1; simpl; auto. apply Nat.ltb_lt in Hco. rewrite Hco. reflexivity.
Qed.

(* resume: the resumer becomes normal, the resumed coroutine runs *)
Lemma co_wf_resume_lemma s ws co :
  co_wf s ws -> resumable s co -> co_wf (st_resume s co) (cur s :: ws).
Proof.
  intros [cs [Hch [Hnd [Hb [Hrun Hnorm]]]]] Hres.
  assert (Hco : (co < length (cos s))%nat).
  { apply status_lt_lemma. destruct Hres as [[f H]|H]; rewrite H; discriminate. }
  assert (Hnotrun : status s co <> CoRun) by (destruct Hres as [[f H]|H]; rewrite H; discriminate).
  assert (Hnotnorm : status s co <> CoNorm) by (destruct Hres as [[f H]|H]; rewrite H; discriminate).
  assert (Hnin : ~ In co cs).
  { intros Hin. assert (Hin' : In (Some co) (cur s :: ws)) by (rewrite Hch, in_app_iff; left; apply in_map; auto).
    destruct Hin' as [Hc|Hw]; [apply Hnotrun, Hrun; auto|apply Hnotnorm, Hnorm; auto]. }
  assert (Hm : forall m, cur s = Some m -> (m < length (cos s))%nat /\ m <> co).
  { intros m Hm. split.
    - apply status_lt_lemma. rewrite (proj2 (Hrun m)) by auto. discriminate.
    - intros ->. apply Hnotrun, Hrun. auto. }
  exists (co :: cs). split; [|split; [|split; [|split]]].
  - unfold st_resume. cbn [cur with_cur]. simpl. rewrite Hch. reflexivity.
  - constructor; auto.
  - intros i Hi. unfold st_resume. cbn [cos with_cur]. rewrite !cos_length_set_lemma.
    destruct Hi as [<-|Hi]; auto.
  - intros i. rewrite st_resume_status_lemma by auto. unfold st_resume at 1. cbn [cur with_cur].
    destruct (Nat.eqb co i) eqn:E1.
    + apply Nat.eqb_eq in E1. subst. split; reflexivity.
    + apply Nat.eqb_neq in E1. destruct (opt_eqb (cur s) i) eqn:E2.
      * split; [discriminate|]. intros H; inversion H; congruence.
      * apply opt_eqb_false_lemma in E2. split.
        -- intros H. apply Hrun in H. contradiction.
        -- intros H; inversion H; congruence.
  - intros i. rewrite st_resume_status_lemma by auto.
    destruct (Nat.eqb co i) eqn:E1.
    + apply Nat.eqb_eq in E1. subst. split; [discriminate|].
      intros [H|H]; exfalso; [apply Hnotrun, Hrun; auto|apply Hnotnorm, Hnorm; auto].
    + destruct (opt_eqb (cur s) i) eqn:E2.
      * apply opt_eqb_true_lemma in E2. split; auto. intros _. left. auto.
      * apply opt_eqb_false_lemma in E2. split.
        -- intros H. right. apply Hnorm. auto.
        -- intros [H|H]; [contradiction|apply Hnorm; auto].
Qed.

(* common part of return / error / yield: control goes back to the resumer [who], the coroutine
   that was running gets status [st] (dead or suspended) *)
Lemma co_wf_back_lemma s who ws st :
  st <> CoRun -> st <> CoNorm ->
  co_wf s (who :: ws) ->
  exists c, cur s = Some c /\
    (forall i, status (with_cur (set_status (set_status s (Some c) st) who CoRun) who) i =
               if Nat.eqb c i then st else if opt_eqb who i then CoRun else status s i) /\
    co_wf (with_cur (set_status (set_status s (Some c) st) who CoRun) who) ws.
Proof.
  intros Hst1 Hst2 [cs [Hch [Hnd [Hb [Hrun Hnorm]]]]].
  destruct (chain_head_lemma _ _ _ Hch) as [c [cs' [-> [Hc Hws]]]]; [discriminate|].
  exists c. split; auto.
  inversion Hnd as [|? ? Hcnin Hnd']; subst.
  assert (Hclt : (c < length (cos s))%nat) by (apply Hb; left; auto).
  assert (Hwho : forall w, who = Some w -> (w < length (cos s))%nat /\ w <> c).
  { intros w ->. assert (Hin : In w cs') by (apply in_chain_lemma; rewrite <- Hws; left; auto).
    split; [apply Hb; right; auto|intros ->; contradiction]. }
  assert (Hstat : forall i, status (with_cur (set_status (set_status s (Some c) st) who CoRun) who) i =
               if Nat.eqb c i then st else if opt_eqb who i then CoRun else status s i).
  { intros i. rewrite status_with_cur_lemma. apply two_sets_status_lemma; auto. }
  split; [exact Hstat|].
  assert (Hws' : forall x, In (Some x) ws -> In x cs' /\ who <> Some x).
  { intros x Hx. destruct cs' as [|w cs'']; simpl in Hws; inversion Hws; subst.
    - destruct Hx.
    - apply in_chain_lemma in Hx. split; [right; auto|]. intros H; inversion H; subst.
      inversion Hnd'; subst. contradiction. }
  exists cs'.
  cbn [cur with_cur]. split; [|split; [|split; [|split]]].
  - exact Hws.
  - exact Hnd'.
  - intros i Hi. cbn [cos with_cur]. rewrite !cos_length_set_lemma. apply Hb. right. auto.
  - intros i. rewrite Hstat. destruct (Nat.eqb c i) eqn:E1.
    + apply Nat.eqb_eq in E1. subst i. split; [intros; contradiction|].
      intros H. destruct (Hwho c H). congruence.
    + apply Nat.eqb_neq in E1. destruct (opt_eqb who i) eqn:E2.
      * apply opt_eqb_true_lemma in E2. split; auto.
      * apply opt_eqb_false_lemma in E2. split; [|intros; contradiction].
        intros H. apply Hrun in H. inversion H; congruence.
  - intros i. rewrite Hstat. destruct (Nat.eqb c i) eqn:E1.
    + apply Nat.eqb_eq in E1. subst i. split; [intros; contradiction|].
      intros H. destruct (Hws' c H). contradiction.
    + destruct (opt_eqb who i) eqn:E2.
      * apply opt_eqb_true_lemma in E2. split; [discriminate|]. intros H. destruct (Hws' i H). contradiction.
      * apply opt_eqb_false_lemma in E2. split.
        -- intros H. apply Hnorm in H. destruct H as [H|H]; [contradiction|auto].
        -- intros H. apply Hnorm. right; auto.
Qed.

Lemma co_wf_finish_lemma s who ws : co_wf s (who :: ws) -> co_wf (st_finish s who) ws.
Proof.
  intros H. destruct (co_wf_back_lemma s who ws CoDead) as [c [Hc [_ Hwf]]]; try discriminate; auto.
  unfold st_finish. rewrite Hc. exact Hwf.
Qed.

Lemma co_wf_yield_lemma s c who ws : co_wf s (who :: ws) -> cur s = Some c -> co_wf (st_yield s c who) ws.
Proof.
  intros H Hc. destruct (co_wf_back_lemma s who ws CoSusp) as [c' [Hc' [_ Hwf]]]; try discriminate; auto.
  rewrite Hc in Hc'. inversion Hc'; subst c'. exact Hwf.
Qed.

(* the status of the coroutine that finished / yielded, and of all the others *)
Lemma st_finish_status_lemma s c who ws i :
  co_wf s (who :: ws) -> cur s = Some c ->
  status (st_finish s who) i =
    if Nat.eqb c i then CoDead else if opt_eqb who i then CoRun else status s i.
Proof.
  intros Hwf Hc. destruct (co_wf_back_lemma s who ws CoDead) as [c' [Hc' [Hst _]]]; try discriminate; auto.
  rewrite Hc in Hc'. inversion Hc'; subst c'. unfold st_finish. rewrite Hc. apply Hst.
Qed.

Lemma st_yield_status_lemma s c who ws i :
  co_wf s (who :: ws) -> cur s = Some c ->
  status (st_yield s c who) i =
    if Nat.eqb c i then CoSusp else if opt_eqb who i then CoRun else status s i.
Proof.
  intros Hwf Hc. destruct (co_wf_back_lemma s who ws CoSusp) as [c' [Hc' [Hst _]]]; try discriminate; auto.
  rewrite Hc in Hc'. inversion Hc'; subst c'. apply Hst.
Qed.

(* ---------- driver steps (definitional) ---------- *)
Lemma drive_ret_step n conts who k w rest vs s :
  drive (S n) conts ((who, k, w) :: rest) (Ret vs s) =
  drive n conts rest (k (RVals (if w then vs else VBool true :: vs)) (st_finish s who)).
Proof. reflexivity. Qed.

Lemma drive_err_step n conts who k w rest v s :
  drive (S n) conts ((who, k, w) :: rest) (Err v s) =
  drive n conts rest (k (if w then RErr v else RVals [VBool false; v]) (st_finish s who)).
Proof. reflexivity. Qed.

Lemma drive_ret_top n conts vs s : drive (S n) conts [] (Ret vs s) = FinOk vs s.
Proof. reflexivity. Qed.

Lemma drive_err_top n conts v s : drive (S n) conts [] (Err v s) = FinErr v s.
Proof. reflexivity. Qed.

Lemma drive_resume_init_step n conts stack co args w s k f :
  status s co = CoInit f ->
  drive (S n) conts stack (Eff (EResume co args w) s k) =
  drive n conts ((cur s, k, w) :: stack) (call n [(None, None)] f args (st_resume s co)).
Proof. unfold status. intros H. cbn [drive]. rewrite H. reflexivity. Qed.

Lemma drive_resume_susp_step n conts stack co args w s k kc :
  status s co = CoSusp -> kfind conts co = Some kc ->
  drive (S n) conts stack (Eff (EResume co args w) s k) =
  drive n conts ((cur s, k, w) :: stack) (kc (RVals args) (st_resume s co)).
Proof. unfold status. intros H Hk. cbn [drive]. rewrite H, Hk. reflexivity. Qed.

Lemma drive_yield_step n conts who kr w rest vs s k c :
  cur s = Some c ->
  drive (S n) conts ((who, kr, w) :: rest) (Eff (EYield vs) s k) =
  drive n ((c, k) :: conts) rest (kr (RVals (if w then vs else VBool true :: vs)) (st_yield s c who)).
Proof. intros H. cbn [drive]. rewrite H. reflexivity. Qed.

(* ---------- resume of a coroutine that is not suspended ---------- *)
(* C06 resume_dead_no_effect / resume_nonsuspended_no_effect: (false, msg), state unchanged, no
   effect emitted, whatever the arguments *)
Lemma resume_dead_no_effect_lemma n fr r rest s :
  status s r = CoDead -> builtin_call (S n) fr BCoResume (VCo r :: rest) s = Ret [VBool false; VFault 8 0] s.
Proof. unfold status. intros H. rewrite bi_coresume, H. reflexivity. Qed.

Lemma resume_nonsuspended_no_effect_lemma n fr r rest s :
  status s r = CoRun \/ status s r = CoNorm ->
  builtin_call (S n) fr BCoResume (VCo r :: rest) s = Ret [VBool false; VFault 9 0] s.
Proof. unfold status. intros [H|H]; rewrite bi_coresume, H; reflexivity. Qed.

(* under the invariant: resuming oneself or any coroutine of the resumption chain fails so *)
Lemma resume_chain_no_effect_lemma n fr r rest s ws :
  co_wf s ws -> In (Some r) (cur s :: ws) ->
  builtin_call (S n) fr BCoResume (VCo r :: rest) s = Ret [VBool false; VFault 9 0] s.
Proof.
  intros [cs [Hch [Hnd [Hb [Hrun Hnorm]]]]] [Hc|Hw]; apply resume_nonsuspended_no_effect_lemma.
  - left. apply Hrun. auto.
  - right. apply Hnorm. auto.
Qed.

(* the wrap form raises instead, state unchanged *)
Lemma wrapped_dead_no_effect_lemma n fr r args s :
  status s r = CoDead -> builtin_call (S n) fr (BWrapped r) args s = Err (VFault 8 0) s.
Proof. unfold status. intros H. cbn [builtin_call]. rewrite H. reflexivity. Qed.

Lemma wrapped_nonsuspended_no_effect_lemma n fr r args s :
  status s r = CoRun \/ status s r = CoNorm -> builtin_call (S n) fr (BWrapped r) args s = Err (VFault 9 0) s.
Proof. unfold status. intros [H|H]; cbn [builtin_call]; rewrite H; reflexivity. Qed.

(* a resumable coroutine: resume emits exactly one effect carrying exactly the arguments *)
Definition resume_k : K := fun rp s' => match rp with RVals vs => Ret vs s' | RErr e => Err e s' end.

Lemma resume_emits_lemma n fr r rest s :
  resumable s r -> builtin_call (S n) fr BCoResume (VCo r :: rest) s = Eff (EResume r rest false) s resume_k.
Proof. unfold resumable, status. intros [[f H]|H]; rewrite bi_coresume, H; reflexivity. Qed.

Lemma yield_emits_lemma n fr args s c :
  cur s = Some c -> builtin_call (S n) fr BCoYield args s = Eff (EYield args) s resume_k.
Proof. intros H. rewrite bi_coyield, H. reflexivity. Qed.

Lemma yield_outside_lemma n fr args s :
  cur s = None -> builtin_call (S n) fr BCoYield args s = Err (VFault 10 0) s.
Proof. intros H. rewrite bi_coyield, H. reflexivity. Qed.

(* ---------- C06 transfer_values ---------- *)
(* first resume: the body is called with exactly resume's arguments *)
Lemma transfer_first_resume_lemma n m fr conts stack r rest s f :
  status s r = CoInit f ->
  drive (S n) conts stack (builtin_call (S m) fr BCoResume (VCo r :: rest) s) =
  drive n conts ((cur s, resume_k, false) :: stack) (call n [(None, None)] f rest (st_resume s r)).
Proof.
  intros H. rewrite resume_emits_lemma by (left; eauto). apply drive_resume_init_step. exact H.
Qed.

(* later resumes: the pending yield returns exactly resume's arguments *)
Lemma transfer_resume_to_yield_lemma n m fr conts stack r rest s rest_conts :
  status s r = CoSusp -> conts = (r, resume_k) :: rest_conts ->
  drive (S n) conts stack (builtin_call (S m) fr BCoResume (VCo r :: rest) s) =
  drive n conts ((cur s, resume_k, false) :: stack) (Ret rest (st_resume s r)).
Proof.
  intros H ->. rewrite resume_emits_lemma by (right; auto).
  assert (Hk : kfind ((r, resume_k) :: rest_conts) r = Some resume_k) by (simpl; rewrite Nat.eqb_refl; reflexivity).
  rewrite (drive_resume_susp_step _ _ _ _ _ _ _ _ _ H Hk). reflexivity.
Qed.

(* yield: the resumer's resume returns true followed by exactly the yielded values *)
Lemma transfer_yield_to_resume_lemma n m fr conts who rest vs s c :
  cur s = Some c ->
  drive (S n) conts ((who, resume_k, false) :: rest) (builtin_call (S m) fr BCoYield vs s) =
  drive n ((c, resume_k) :: conts) rest (Ret (VBool true :: vs) (st_yield s c who)).
Proof. intros H. erewrite yield_emits_lemma by eauto. erewrite drive_yield_step by eauto. reflexivity. Qed.

(* return from the body: resume returns true followed by exactly the returned values *)
Lemma transfer_return_to_resume_lemma n conts who rest vs s :
  drive (S n) conts ((who, resume_k, false) :: rest) (Ret vs s) =
  drive n conts rest (Ret (VBool true :: vs) (st_finish s who)).
Proof. reflexivity. Qed.

(* through wrap: the values arrive without the leading true *)
Lemma transfer_return_to_wrap_lemma n conts who k rest vs s :
  drive (S n) conts ((who, k, true) :: rest) (Ret vs s) = drive n conts rest (k (RVals vs) (st_finish s who)).
Proof. reflexivity. Qed.

(* ---------- C06 error_kills_only_that ---------- *)
Lemma error_kills_only_that_lemma n conts who rest v s c ws :
  co_wf s (who :: ws) -> cur s = Some c ->
  drive (S n) conts ((who, resume_k, false) :: rest) (Err v s) =
    drive n conts rest (Ret [VBool false; v] (st_finish s who)) /\
  (forall k, drive (S n) conts ((who, k, true) :: rest) (Err v s) = drive n conts rest (k (RErr v) (st_finish s who))) /\
  status (st_finish s who) c = CoDead /\
  (forall i, i <> c -> Some i <> who -> status (st_finish s who) i = status s i) /\
  (forall w, who = Some w -> status (st_finish s who) w = CoRun /\ status s w = CoNorm) /\
  cur (st_finish s who) = who /\
  cells (st_finish s who) = cells s /\ tabs (st_finish s who) = tabs s /\ clos (st_finish s who) = clos s /\
  uds (st_finish s who) = uds s /\ trace (st_finish s who) = trace s /\
  strmt (st_finish s who) = strmt s /\ dv (st_finish s who) = dv s /\
  co_wf (st_finish s who) ws.
Proof.
  intros Hwf Hc. split; [reflexivity|]. split; [reflexivity|].
  assert (Hst : forall i, status (st_finish s who) i =
                 if Nat.eqb c i then CoDead else if opt_eqb who i then CoRun else status s i).
  { intros i. eapply st_finish_status_lemma; eauto. }
  split; [rewrite Hst, Nat.eqb_refl; reflexivity|].
  split.
  { intros i Hi Hw. rewrite Hst. destruct (Nat.eqb c i) eqn:E; [apply Nat.eqb_eq in E; congruence|].
    destruct (opt_eqb who i) eqn:E2; auto. apply opt_eqb_true_lemma in E2. congruence. }
  split.
  { intros w ->. destruct Hwf as [cs [Hch [Hnd [Hb [Hrun Hnorm]]]]].
    assert (Hn : status s w = CoNorm) by (apply Hnorm; left; auto).
    split; auto. rewrite Hst.
    destruct (Nat.eqb c w) eqn:E.
    - apply Nat.eqb_eq in E; subst w. assert (status s c = CoRun) by (apply Hrun; auto). congruence.
    - simpl. rewrite Nat.eqb_refl. reflexivity. }
  split; [reflexivity|].
  unfold st_finish. cbn [cells tabs clos uds trace strmt dv with_cur].
  destruct (set_status_other_fields_lemma (set_status s (cur s) CoDead) who CoRun) as [H1 [H2 [H3 [H4 [H5 [H6 [H7 H8]]]]]]].
  destruct (set_status_other_fields_lemma s (cur s) CoDead) as [G1 [G2 [G3 [G4 [G5 [G6 [G7 G8]]]]]]].
  split; [congruence|]. split; [congruence|]. split; [congruence|]. split; [congruence|].
  split; [congruence|]. split; [congruence|]. split; [congruence|].
  apply (co_wf_finish_lemma s who ws). exact Hwf.
Qed.

(* ---------- the invariant is stable under what the evaluator does between driver steps ---------- *)
(* the evaluator never changes [cur] and only appends fresh (initial) coroutines *)
Definition co_frame (s s' : state) : Prop :=
  cur s' = cur s /\ (length (cos s) <= length (cos s'))%nat /\
  (forall i, (i < length (cos s))%nat -> status s' i = status s i) /\
  (forall i, (length (cos s) <= i)%nat -> (i < length (cos s'))%nat -> exists f, status s' i = CoInit f).

Lemma co_frame_refl_lemma s : co_frame s s.
Proof. repeat split; auto. intros; lia. Qed.

Lemma co_frame_trans_lemma s1 s2 s3 : co_frame s1 s2 -> co_frame s2 s3 -> co_frame s1 s3.
Proof.
  intros [A1 [A2 [A3 A4]]] [B1 [B2 [B3 B4]]]. repeat split; try congruence; try lia.
  - intros i Hi. rewrite B3 by lia. apply A3; auto.
  - intros i Hi Hi'. destruct (Nat.lt_ge_cases i (length (cos s2))).
    + rewrite B3 by auto. apply A4; auto.
    + apply B4; auto.
Qed.

Lemma status_out_lemma s i : (length (cos s) <= i)%nat -> status s i = CoDead.
Proof. intros H. unfold status. apply nth_overflow. auto. Qed.

Lemma co_wf_frame_lemma s s' ws : co_wf s ws -> co_frame s s' -> co_wf s' ws.
Proof.
  intros [cs [Hch [Hnd [Hb [Hrun Hnorm]]]]] [A1 [A2 [A3 A4]]].
  exists cs. rewrite A1. split; auto. split; auto. split; [intros i Hi; specialize (Hb i Hi); lia|].
  split; intros i.
  - destruct (Nat.lt_ge_cases i (length (cos s))) as [Hi|Hi].
    + rewrite A3 by auto. apply Hrun.
    + split; intros H.
      * destruct (Nat.lt_ge_cases i (length (cos s'))) as [Hi'|Hi'].
        -- destruct (A4 i Hi Hi') as [f Hf]. congruence.
        -- rewrite status_out_lemma in H by auto. discriminate.
      * assert (Hlt : (i < length (cos s))%nat) by (apply status_lt_lemma; rewrite (proj2 (Hrun i) H); discriminate). lia.
  - destruct (Nat.lt_ge_cases i (length (cos s))) as [Hi|Hi].
    + rewrite A3 by auto. apply Hnorm.
    + split; intros H.
      * destruct (Nat.lt_ge_cases i (length (cos s'))) as [Hi'|Hi'].
        -- destruct (A4 i Hi Hi') as [f Hf]. congruence.
        -- rewrite status_out_lemma in H by auto. discriminate.
      * assert (Hlt : (i < length (cos s))%nat) by (apply status_lt_lemma; rewrite (proj2 (Hnorm i) H); discriminate). lia.
Qed.

(* coroutine.create / wrap are such steps *)
Lemma cocreate_frame_lemma n fr f rest s : is_fun_or_builtin f = true ->
  exists s', builtin_call (S n) fr BCoCreate (f :: rest) s = Ret [VCo (length (cos s))] s' /\
             co_frame s s' /\ status s' (length (cos s)) = CoInit f.
Proof.
  intros Hf. exists (with_cos s (cos s ++ [CoInit f])). split; [destruct f; try discriminate; reflexivity|].
  unfold co_frame, status; simpl. rewrite app_length; simpl. repeat split; try lia.
  - intros i Hi. apply app_nth1; auto.
  - intros i Hi Hi'. assert (i = length (cos s)) by lia. subst. exists f.
    rewrite app_nth2 by lia. rewrite Nat.sub_diag. reflexivity.
  - rewrite app_nth2 by lia. rewrite Nat.sub_diag. reflexivity.
Qed.

(* the initial configuration satisfies the invariant *)
Lemma co_wf_init_lemma d body : co_wf (init_state d body) [].
Proof.
  exists []. simpl. split; auto. split; [constructor|]. split; [intros i []|].
  split; intros i; unfold status; simpl; destruct i; split; intros H; try discriminate; try contradiction.
Qed.

(* ---------- whole runs: the invariant holds at every driver step and the driver never gets
   stuck (codes 30/31/32), provided the computations being driven are guarded: they respect
   [co_frame] and emit resume/yield only when legal — which is how the builtins emit them. ---------- *)
Inductive guarded (s0 : state) : res (list value) -> Prop :=
| g_ret a s : co_frame s0 s -> guarded s0 (Ret a s)
| g_err v s : co_frame s0 s -> guarded s0 (Err v s)
| g_fuel : guarded s0 OutOfFuel
| g_unsup c : ~ (30 <= c <= 32) -> guarded s0 (Unsup c)
| g_resume co args w s k : co_frame s0 s -> resumable s co ->
    (forall rp s', guarded s' (k rp s')) -> guarded s0 (Eff (EResume co args w) s k)
| g_yield vs s k : co_frame s0 s -> cur s <> None ->
    (forall rp s', guarded s' (k rp s')) -> guarded s0 (Eff (EYield vs) s k).

Definition conts_ok (s : state) (conts : list (nat * K)) : Prop :=
  (forall i, status s i = CoSusp -> kfind conts i <> None) /\
  (forall i k, kfind conts i = Some k -> forall rp s', guarded s' (k rp s')).

Definition stack_ok (stack : list (option nat * K * bool)) : Prop :=
  forall e, In e stack -> forall rp s', guarded s' (snd (fst e) rp s').

Definition stuck (f : fin) : Prop := match f with FinUnsup c => 30 <= c <= 32 | _ => False end.

Lemma conts_ok_frame_lemma s s' conts : conts_ok s conts -> co_frame s s' -> conts_ok s' conts.
Proof.
  intros [H1 H2] [A1 [A2 [A3 A4]]]. split; auto. intros i Hi.
  destruct (Nat.lt_ge_cases i (length (cos s))) as [Hl|Hl].
  - rewrite A3 in Hi by auto. auto.
  - destruct (Nat.lt_ge_cases i (length (cos s'))) as [Hi'|Hi'].
    + destruct (A4 i Hl Hi') as [f Hf]. congruence.
    + rewrite status_out_lemma in Hi by auto. discriminate.
Qed.

Lemma susp_set_lemma s c st i : status (set_status s c st) i = CoSusp -> st <> CoSusp -> status s i = CoSusp.
Proof.
  destruct c as [c|]; [|auto]. rewrite status_set_lemma.
  destruct (Nat.eqb c i && Nat.ltb c (length (cos s))); intros H Hst; congruence.
Qed.

Lemma conts_ok_finish_lemma s who conts : conts_ok s conts -> conts_ok (st_finish s who) conts.
Proof.
  intros [H1 H2]. split; auto. intros i Hi. apply H1. unfold st_finish in Hi. rewrite status_with_cur_lemma in Hi.
  apply susp_set_lemma in Hi; [|discriminate]. apply susp_set_lemma in Hi; [|discriminate]. exact Hi.
Qed.

Lemma conts_ok_resume_lemma s co conts : conts_ok s conts -> conts_ok (st_resume s co) conts.
Proof.
  intros [H1 H2]. split; auto. intros i Hi. apply H1. unfold st_resume in Hi. rewrite status_with_cur_lemma in Hi.
  apply susp_set_lemma in Hi; [|discriminate]. apply susp_set_lemma in Hi; [|discriminate]. exact Hi.
Qed.

Lemma conts_ok_yield_lemma s c who conts k :
  conts_ok s conts -> (forall rp s', guarded s' (k rp s')) -> conts_ok (st_yield s c who) ((c, k) :: conts).
Proof.
  intros [H1 H2] Hk. split.
  - intros i Hi. simpl. destruct (Nat.eqb i c) eqn:E; [discriminate|]. apply Nat.eqb_neq in E.
    apply H1. unfold st_yield in Hi. rewrite status_with_cur_lemma in Hi.
    apply susp_set_lemma in Hi; [|discriminate]. rewrite status_set_lemma in Hi.
    destruct (Nat.eqb c i) eqn:E2; [apply Nat.eqb_eq in E2; congruence|]. exact Hi.
  - intros i k0. simpl. destruct (Nat.eqb i c); [intros H; inversion H; subst; auto|apply H2].
Qed.

Section DriveRuns.
(* bodies of new coroutines are started with [call]; hypothesis: the evaluator's calls are guarded
   (see EvalInvFacts.v for its proof by induction over the evaluator) *)
Variable call_guarded : forall m fr f args s, guarded s (call m fr f args s).

(* C06 status_automaton, whole-run form: from a well-formed configuration the driver never
   reaches a stuck configuration (resume of a non-suspended coroutine reaching the driver, a
   suspended coroutine without continuation, a yield with nobody to return to) *)
Lemma drive_never_stuck_lemma n : forall conts stack r s0,
  co_wf s0 (whos stack) -> conts_ok s0 conts -> stack_ok stack -> guarded s0 r ->
  ~ stuck (drive n conts stack r).
Proof.
  induction n as [|n IH]; intros conts stack r s0 Hwf Hc Hs Hg; [simpl; tauto|].
  destruct Hg as [a s Hf|v s Hf| |c Hc'|co args w s k Hf Hres Hk|vs s k Hf Hcur Hk].
  - (* Ret *)
    destruct stack as [|[[who k] w] rest]; [simpl; tauto|]. rewrite drive_ret_step.
    pose proof (co_wf_frame_lemma _ _ _ Hwf Hf) as Hwf'. simpl whos in Hwf'.
    apply (IH conts rest _ (st_finish s who)).
    + apply co_wf_finish_lemma. exact Hwf'.
    + apply conts_ok_finish_lemma. exact (conts_ok_frame_lemma _ _ _ Hc Hf).
    + intros e He. apply Hs. right; auto.
    + apply (Hs (who, k, w)). left; auto.
  - (* Err *)
    destruct stack as [|[[who k] w] rest]; [simpl; tauto|]. rewrite drive_err_step.
    pose proof (co_wf_frame_lemma _ _ _ Hwf Hf) as Hwf'. simpl whos in Hwf'.
    apply (IH conts rest _ (st_finish s who)).
    + apply co_wf_finish_lemma. exact Hwf'.
    + apply conts_ok_finish_lemma. exact (conts_ok_frame_lemma _ _ _ Hc Hf).
    + intros e He. apply Hs. right; auto.
    + apply (Hs (who, k, w)). left; auto.
  - simpl; tauto.
  - simpl. exact Hc'.
  - (* resume *)
    pose proof (co_wf_frame_lemma _ _ _ Hwf Hf) as Hwf'.
    pose proof (conts_ok_frame_lemma _ _ _ Hc Hf) as Hc2.
    assert (Hs' : stack_ok ((cur s, k, w) :: stack)).
    { intros e [<-|He]; [exact Hk|apply Hs; auto]. }
    destruct Hres as [[f Hst]|Hst].
    + rewrite (drive_resume_init_step _ _ _ _ _ _ _ _ _ Hst).
      apply (IH conts _ _ (st_resume s co)); auto.
      * simpl whos. apply co_wf_resume_lemma; auto. left; eauto.
      * apply conts_ok_resume_lemma; auto.
    + destruct (kfind conts co) as [kc|] eqn:Ek; [|exfalso; eapply (proj1 Hc2); eauto].
      rewrite (drive_resume_susp_step _ _ _ _ _ _ _ _ _ Hst Ek).
      apply (IH conts _ _ (st_resume s co)); auto.
      * simpl whos. apply co_wf_resume_lemma; auto. right; auto.
      * apply conts_ok_resume_lemma; auto.
      * eapply (proj2 Hc2); eauto.
  - (* yield *)
    pose proof (co_wf_frame_lemma _ _ _ Hwf Hf) as Hwf'.
    pose proof (conts_ok_frame_lemma _ _ _ Hc Hf) as Hc2.
    destruct (cur s) as [c|] eqn:Ecur; [|congruence].
    destruct stack as [|[[who kr] w] rest].
    { exfalso. destruct Hwf' as [cs [Hch _]]. rewrite Ecur in Hch. simpl in Hch.
      destruct cs as [|x [|y cs]]; simpl in Hch; inversion Hch. }
    rewrite (drive_yield_step _ _ _ _ _ _ _ _ _ _ Ecur).
    apply (IH _ rest _ (st_yield s c who)).
    + apply co_wf_yield_lemma; auto.
    + apply conts_ok_yield_lemma; auto.
    + intros e He. apply Hs. right; auto.
    + apply (Hs (who, kr, w)). left; auto.
Qed.

Lemma run_never_stuck_lemma fuel d body : ~ stuck (run_program fuel d body).
Proof.
  unfold run_program. apply (drive_never_stuck_lemma fuel [] [] _ (init_state d body)).
  - apply co_wf_init_lemma.
  - split; [|intros i k H; discriminate]. intros i. unfold status; simpl. destruct i; discriminate.
  - intros e [].
  - apply call_guarded.
Qed.
End DriveRuns.
