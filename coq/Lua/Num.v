(* M-Lua numbers: IEEE binary64 through Coq's primitive floats, with the exact views the
   evaluator needs (integrality, floor, floored modulo on integers, exact small powers,
   number<->text on the fragment where Lua 5.1's "%.14g" is exact). *)
From Coq Require Import Floats SpecFloat.
From GL Require Import Common.Bytes.

Definition prec := 53%Z.
Definition emax := 1024%Z.

Definition f_of_Z (z : Z) : float := SF2Prim (binary_normalize prec emax z 0 false).

(* exact integer value of a finite integral float *)
Definition f_to_Z (f : float) : option Z :=
  match Prim2SF f with
  | S754_zero _ => Some 0
  | S754_finite s m e =>
      let mz := Zpos m in
      if 0 <=? e then Some ((if s then -1 else 1) * (mz * 2 ^ e))
      else let d := 2 ^ (- e) in
           if mz mod d =? 0 then Some ((if s then -1 else 1) * (mz / d)) else None
  | _ => None
  end.

Definition f_floor (f : float) : float :=
  match Prim2SF f with
  | S754_finite s m e =>
      if 0 <=? e then f
      else let d := 2 ^ (- e) in
           let q := Zpos m / d in
           let exact := Zpos m mod d =? 0 in
           if s then f_of_Z (- (if exact then q else q + 1)) else f_of_Z q
  | _ => f
  end.

(* same bits (NaNs identified): the equality used on traces *)
Definition f_same (a b : float) : bool :=
  match Prim2SF a, Prim2SF b with
  | S754_zero s, S754_zero t => true   (* the sign of a zero is not compared *)
  | S754_infinity s, S754_infinity t => Bool.eqb s t
  | S754_nan, S754_nan => true
  | S754_finite s m e, S754_finite t n g => Bool.eqb s t && Pos.eqb m n && (e =? g)
  | _, _ => false
  end.

(* a % b on integral operands where Lua 5.1's a - floor(a/b)*b, computed in doubles, is the exact
   floored remainder: with |a| < 2^53 the rounded quotient has the floor of the true one (the error
   is below 1/|b|, the least distance of a non-integral a/b from an integer), and with
   |a| + |b| <= 2^53 the product floor(a/b)*b (an integer of magnitude below |a| + |b|) and the
   subtraction are exact. Beyond that the formula rounds: (-(2^53-1)) % 7 is 5 in Lua 5.1, not 4. *)
Definition f_mod_int (a b : float) : option float :=
  match f_to_Z a, f_to_Z b with
  | Some x, Some y => if y =? 0 then None else
      if (Z.abs x <? 2 ^ 53) && (Z.abs y <? 2 ^ 53) && (Z.abs x + Z.abs y <=? 2 ^ 53) then Some (f_of_Z (x mod y)) else None
  | _, _ => None
  end.

(* a ^ b for integral a and small non-negative integral b with an exactly representable result *)
Definition f_pow_int (a b : float) : option float :=
  match f_to_Z a, f_to_Z b with
  | Some x, Some y =>
      if (0 <=? y) && (y <=? 64) && (Z.abs x <=? 1024) then
        let r := x ^ y in if Z.abs r <? 2 ^ 53 then Some (f_of_Z r) else None
      else None
  | _, _ => None
  end.

(* ---- number -> text ---- *)
Fixpoint dec_digits (fuel : nat) (z : Z) (acc : bytes) : bytes :=
  match fuel with
  | O => acc
  | S k => if z <? 10 then (48 + z) :: acc else dec_digits k (z / 10) ((48 + z mod 10) :: acc)
  end.

Definition nat_dec (z : Z) : bytes := dec_digits (S (Z.to_nat (Z.log2 (Z.max 1 z)))) z [].

Definition Z_dec (z : Z) : bytes := if z <? 0 then 45 :: nat_dec (- z) else nat_dec z.

Fixpoint strip_trailing_zeros_rev (r : bytes) : bytes :=
  match r with 48 :: r' => strip_trailing_zeros_rev r' | _ => r end.

(* "%.14g" where it is exact: integral |x| < 10^14 (no exponent form needed below 10^14... Lua
   switches to exponent at 10^15 for precision 14 only when digits exceed; we stay below 10^14),
   or a dyadic fraction with at most 14 significant digits and |x| >= 1e-4. None = outside. *)
Fixpoint reduce_dyadic (fuel : nat) (m e : Z) : Z * Z :=
  match fuel with
  | O => (m, e)
  | S k => if (e <? 0) && (m mod 2 =? 0) then reduce_dyadic k (m / 2) (e + 1) else (m, e)
  end.

Definition f_to_text (f : float) : option bytes :=
  match Prim2SF f with
  | S754_zero false => Some [48]
  | S754_finite s m0 e0 =>
      let '(mz, e) := reduce_dyadic 64 (Zpos m0) e0 in
      let m := Z.to_pos mz in
      let sign := if s then [45] else [] in
      if 0 <=? e then
        let v := Zpos m * 2 ^ e in
        if v <? 10 ^ 14 then Some (sign ++ nat_dec v) else None
      else
        let k := - e in                       (* value = m / 2^k = (m * 5^k) / 10^k *)
        if k >? 60 then None else
        let d := 2 ^ k in
        let ip := Zpos m / d in
        let fp := (Zpos m mod d) * 5 ^ k in   (* fractional digits: fp padded to k digits *)
        if fp =? 0 then (if ip <? 10 ^ 14 then Some (sign ++ nat_dec ip) else None) else
        let fd := nat_dec fp in
        let pad := repeat 48 (Z.to_nat (k - len fd)) in
        let frac := rev (strip_trailing_zeros_rev (rev (pad ++ fd))) in
        let idig := nat_dec ip in
        let sig := if ip =? 0 then len (rev (strip_trailing_zeros_rev (rev fd))) else len idig + len frac in
        if (sig <=? 14) && ((ip >? 0) || (len pad <=? 3)) then Some (sign ++ idig ++ [46] ++ frac) else None
  | _ => None
  end.

(* ---- text -> number (the fragment the generators use: optional blanks, optional '-',
        decimal digits with optional fraction; 0x hex integers). None = not in the fragment. *)
Definition is_digit (c : Z) := (48 <=? c) && (c <=? 57).
Definition is_space (c : Z) := (c =? 32) || ((9 <=? c) && (c <=? 13)).

Fixpoint drop_spaces (s : bytes) : bytes :=
  match s with c :: s' => if is_space c then drop_spaces s' else s | [] => [] end.

Fixpoint take_digits (s : bytes) (acc : Z) (n : Z) : Z * Z * bytes :=
  match s with
  | c :: s' => if is_digit c then take_digits s' (acc * 10 + (c - 48)) (n + 1) else (acc, n, s)
  | [] => (acc, n, [])
  end.

Definition hex_val (c : Z) : option Z :=
  if is_digit c then Some (c - 48)
  else if (97 <=? c) && (c <=? 102) then Some (c - 87)
  else if (65 <=? c) && (c <=? 70) then Some (c - 55) else None.

Fixpoint take_hex (s : bytes) (acc n : Z) : Z * Z * bytes :=
  match s with
  | c :: s' => match hex_val c with Some v => take_hex s' (acc * 16 + v) (n + 1) | None => (acc, n, s) end
  | [] => (acc, n, [])
  end.

Inductive parsed := PNum (f : float) | PNotNumber | POutside.

Definition text_to_f (s0 : bytes) : parsed :=
  let s := drop_spaces s0 in
  let '(neg, s1) := match s with 45 :: r => (true, r) | _ => (false, s) end in
  match s1 with
  | 48 :: (120 :: r | 88 :: r) =>
      let '(v, n, rest) := take_hex r 0 0 in
      if (n >? 0) && (n <=? 12) then
        match drop_spaces rest with [] => PNum (f_of_Z (if neg then - v else v)) | _ => PNotNumber end
      else POutside
  | _ =>
      let '(ip, n1, r1) := take_digits s1 0 0 in
      match r1 with
      | 46 :: r2 =>
          let '(fp, n2, r3) := take_digits r2 0 0 in
          if (n1 + n2 =? 0) then PNotNumber else
          match drop_spaces r3 with
          | [] => if (n1 + n2 <=? 15) && (n2 <=? 15) then
                    (* exactly rounded: one IEEE division of two exactly representable integers *)
                    let num := f_of_Z (ip * 10 ^ n2 + fp) in
                    let q := PrimFloat.div num (f_of_Z (10 ^ n2)) in
                    PNum (if neg then PrimFloat.opp q else q)
                  else POutside
          | _ => match r3 with (101 :: _ | 69 :: _) => POutside | _ => PNotNumber end
          end
      | _ =>
          if n1 =? 0 then (match s1 with [] => PNotNumber | c :: _ => if (c =? 46) then POutside else PNotNumber end) else
          match drop_spaces r1 with
          | [] => if n1 <=? 15 then PNum (let v := f_of_Z ip in if neg then PrimFloat.opp v else v) else POutside
          | c :: _ => if (c =? 101) || (c =? 69) then POutside else PNotNumber
          end
      end
  end.
