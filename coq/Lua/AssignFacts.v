(* M-Lua meta-theory for C01 (wave 5): a multiple assignment whose targets are fields of one table.
   `t.k1, ..., t.kn = e1, ..., em` (distinct names, a table without metatable): after the statement
   field ki holds the i-th adjusted right value, all of them computed in the pre-statement state;
   the other fields, the other tables, the cells and the trace are what the evaluation of the
   right-hand sides left. Companion of assign_locals_lemma (Lua/CoreFacts.v) for table targets. *)
From Coq Require Import Floats Lia List.
Import ListNotations.
From GL Require Import Common.Bytes Lua.Syntax Lua.Num Lua.Values Lua.Names Lua.Eval
  Lua.ValuesFacts Lua.TableFacts Lua.MonadFacts Lua.EvalStepFacts Lua.CallFacts Lua.CoreFacts.

Definition store_fields (l : list (bytes * value)) (kv : list (value * value)) : list (value * value) :=
  fold_left (fun acc p => kv_set acc (VStr (fst p)) (snd p)) l kv.

Definition field_ref (r : nat) (k : bytes) : nat + value * value := inr (VTab r, VStr k).

(* what a sequence of raw field stores does to the state *)
Definition fields_stored (r : nat) (l : list (bytes * value)) (s s' : state) : Prop :=
  t_kv (nth r (tabs s') empty_tab) = store_fields l (t_kv (nth r (tabs s) empty_tab)) /\
  t_meta (nth r (tabs s') empty_tab) = None /\
  length (tabs s') = length (tabs s) /\
  (forall j, j <> r -> nth j (tabs s') empty_tab = nth j (tabs s) empty_tab) /\
  cells s' = cells s /\ clos s' = clos s /\ trace s' = trace s.

Lemma setindex_field_raw_lemma n fr r k x s :
  t_meta (nth r (tabs s) empty_tab) = None ->
  setindex (S n) fr (VTab r) (VStr k) x 100 s =
  Ret tt (with_tabs s (set_nth (tabs s) r (mkTab (kv_set (t_kv (nth r (tabs s) empty_tab)) (VStr k) x) None))).
Proof.
  intros Hm. change 100%nat with (S 99). rewrite setindex_tab.
  unfold bindM at 1. unfold read_tab at 1. cbn [bind].
  assert (Hh : (if negb (is_nil (kv_get (t_kv (nth r (tabs s) empty_tab)) (VStr k))) then ret VNil
                else getmeta (VTab r) s_mm_newindex) s = Ret VNil s).
  { destruct (negb _); [reflexivity|]. unfold getmeta, metafield. cbn [metatable_of]. rewrite Hm. reflexivity. }
  unfold bindM at 1. rewrite Hh. cbn [bind]. unfold write_tab. rewrite Hm. reflexivity.
Qed.

Lemma assign_store_fields_lemma n cx ln r (l : list (bytes * value)) : forall s,
  (r < length (tabs s))%nat -> t_meta (nth r (tabs s) empty_tab) = None ->
  exists s', mapM (assign_store (S n) cx ln) (map (fun p => (field_ref r (fst p), snd p)) l) s = Ret (map (fun _ => tt) l) s' /\
             fields_stored r l s s'.
Proof.
  induction l as [|[k x] l IH]; intros s Hr Hm.
  - exists s. split; [reflexivity|]. unfold fields_stored. cbn [store_fields fold_left]. repeat split; auto.
  - cbn [map mapM fst snd]. unfold bindM at 1. unfold assign_store at 1, field_ref at 1. cbn [fst snd].
    rewrite (setindex_field_raw_lemma n (here cx ln) r k x s Hm). cbn [bind].
    set (s1 := with_tabs s (set_nth (tabs s) r (mkTab (kv_set (t_kv (nth r (tabs s) empty_tab)) (VStr k) x) None))).
    assert (Ht1 : nth r (tabs s1) empty_tab = mkTab (kv_set (t_kv (nth r (tabs s) empty_tab)) (VStr k) x) None).
    { unfold s1. cbn [tabs with_tabs]. apply set_nth_same_lemma. exact Hr. }
    assert (Hl1 : length (tabs s1) = length (tabs s)).
    { unfold s1. cbn [tabs with_tabs]. apply set_nth_length_lemma. }
    destruct (IH s1) as [s' [E [F1 [F2 [F3 [F4 [F5 [F6 F7]]]]]]]]; [lia|rewrite Ht1; reflexivity|].
    exists s'. split.
    + unfold bindM at 1. rewrite E. reflexivity.
    + unfold fields_stored. cbn [store_fields fold_left fst snd]. rewrite Ht1 in F1. cbn [t_kv] in F1.
      repeat split; auto.
      * lia.
      * intros j Hj. rewrite (F4 j Hj). unfold s1. cbn [tabs with_tabs]. apply set_nth_other_lemma. auto.
Qed.

(* right-to-left stores under distinct names: name i gets value i (non-nil), other names keep theirs *)
Lemma store_fields_rev_lemma ks : forall vals kv,
  NoDup ks -> length vals = length ks -> Forall (fun v => is_nil v = false) vals ->
  let kv' := store_fields (rev (combine ks vals)) kv in
  (forall i, (i < length ks)%nat -> kv_get kv' (VStr (nth i ks [])) = nth i vals VNil) /\
  (forall k, ~ In k ks -> kv_get kv' (VStr k) = kv_get kv (VStr k)).
Proof.
  induction ks as [|k ks IH]; intros vals kv Hnd Hlen Hnn; cbv zeta.
  - simpl. split; [intros; lia|auto].
  - destruct vals as [|v vals]; [discriminate|]. simpl in Hlen. inversion Hnd as [|? ? Hnin Hnd']; subst.
    inversion Hnn as [|? ? Hv Hnn']; subst.
    cbn [combine rev]. unfold store_fields. rewrite fold_left_app. cbn [fold_left fst snd].
    fold (store_fields (rev (combine ks vals)) kv).
    destruct (IH vals kv Hnd') as [H1 H2]; [lia|exact Hnn'|]. cbv zeta in H1, H2.
    split.
    + intros i Hi. destruct i as [|i]; cbn [nth].
      * apply kv_get_set_same_lemma; [|exact Hv]. apply raweq_refl_nofloat_lemma. exact I.
      * rewrite kv_get_set_other_nofloat_lemma.
        -- apply H1. simpl in Hi. lia.
        -- exact I.
        -- exact I.
        -- intros E. inversion E as [E']. apply Hnin. rewrite E'. apply nth_In. simpl in Hi. lia.
    + intros k2 Hk2. rewrite kv_get_set_other_nofloat_lemma.
      * apply H2. intros Hin. apply Hk2. right; auto.
      * exact I.
      * exact I.
      * intros E. inversion E. apply Hk2. left; auto.
Qed.

(* C01 (wave 5) assign_fields_simultaneous *)
Lemma assign_fields_lemma n cx en ln lhs r ks es s s1 vs s2 :
  mapM (assign_ref (S n) cx ln en) lhs s = Ret (map (field_ref r) ks) s1 ->
  eval_list_with (eval_e (S n) cx ln en) (eval_multi (S n) cx ln en) es s1 = Ret vs s2 ->
  NoDup ks -> (r < length (tabs s2))%nat -> t_meta (nth r (tabs s2) empty_tab) = None ->
  Forall (fun v => is_nil v = false) (adjust (length ks) vs) ->
  exists s3, exec (S (S n)) cx en (SAssign ln lhs es) s = Ret (SigNormal, en) s3 /\
    (forall i, (i < length ks)%nat ->
       kv_get (t_kv (nth r (tabs s3) empty_tab)) (VStr (nth i ks [])) = nth i vs VNil) /\
    (forall k, ~ In k ks ->
       kv_get (t_kv (nth r (tabs s3) empty_tab)) (VStr k) = kv_get (t_kv (nth r (tabs s2) empty_tab)) (VStr k)) /\
    (forall j, j <> r -> nth j (tabs s3) empty_tab = nth j (tabs s2) empty_tab) /\
    cells s3 = cells s2 /\ clos s3 = clos s2 /\ trace s3 = trace s2.
Proof.
  intros Hrefs He Hnd Hr Hm Hnn.
  rewrite (assign_eval_order_lemma _ _ _ _ _ _ _ _ _ _ _ Hrefs He).
  rewrite map_length.
  assert (Hcomb : rev (combine (map (field_ref r) ks) (adjust (length ks) vs)) =
                  map (fun p : bytes * value => (field_ref r (fst p), snd p)) (rev (combine ks (adjust (length ks) vs)))).
  { rewrite map_rev. f_equal. generalize (adjust (length ks) vs). clear.
    induction ks as [|k ks IH]; intros l; simpl; auto. destruct l; simpl; auto. rewrite IH. reflexivity. }
  rewrite Hcomb.
  destruct (assign_store_fields_lemma n cx ln r (rev (combine ks (adjust (length ks) vs))) s2 Hr Hm)
    as [s3 [E [F1 [F2 [F3 [F4 [F5 [F6 F7]]]]]]]].
  rewrite E. cbn [bind]. exists s3. split; [reflexivity|].
  destruct (store_fields_rev_lemma ks (adjust (length ks) vs) (t_kv (nth r (tabs s2) empty_tab)) Hnd) as [H1 H2];
    [apply adjust_length_lemma|exact Hnn|]. cbv zeta in H1, H2.
  rewrite F1. split; [|split; [exact H2|repeat split; auto]].
  intros i Hi. rewrite H1 by auto. apply adjust_nth_lemma; auto.
Qed.
