(* M-Lua: the reference evaluator. A definitional interpreter for Lua 5.1 + goto written from the
   reference manual (§2.2–2.11) and lvm.c's documented behaviour — not from gopher-lua.
   Fuelled (recursion on [n] only); OutOfFuel and Unsup are distinguished results. *)
From Coq Require Import Floats.
From GL Require Import Common.Bytes Lua.Syntax Lua.Num Lua.Values Lua.Names Str.StrModel.

Inductive signal := SigNormal | SigBreak | SigReturn (vs : list value) | SigGoto (l : name).

(* a frame of the call chain as error positions and fenv levels see it:
   (current line if it is a Lua function, its closure); builtins are (None, None) *)
Definition frame := (option Z * option nat)%type.

Record ctx := mkCtx { cx_va : list value; cx_frames : list frame; cx_clo : nat }.

Definition fault {A} (kind ln : Z) : M A := raise (VFault kind ln).

Definition frames_line (fr : list frame) : Z :=
  match fr with (Some l, _) :: _ => l | _ => 0 end.

Definition here (cx : ctx) (ln : Z) : list frame := (Some ln, Some (cx_clo cx)) :: cx_frames cx.

Fixpoint lookup (e : env) (x : name) : option nat :=
  match e with
  | [] => None
  | (y, c) :: r => if beqb x y then Some c else lookup r x
  end.

Fixpoint mapM {A B} (f : A -> M B) (l : list A) : M (list B) :=
  match l with
  | [] => ret []
  | a :: r => do b <- f a; do bs <- mapM f r; ret (b :: bs)
  end.

Fixpoint eval_list_with (one : expr -> M value) (multi : expr -> M (list value)) (es : list expr)
  : M (list value) :=
  match es with
  | [] => ret []
  | [e] => multi e
  | e :: r => do v <- one e; do vs <- eval_list_with one multi r; ret (v :: vs)
  end.

Fixpoint find_label (all : list stmt) (l : name) (pos : nat) : option nat :=
  match all with
  | [] => None
  | SLabel l' :: r => if beqb l l' then Some pos else find_label r l (S pos)
  | _ :: r => find_label r l (S pos)
  end.

Definition metatable_of (s : state) (v : value) : option nat :=
  match v with
  | VTab r => t_meta (nth r (tabs s) empty_tab)
  | VUd r => nth r (uds s) None
  | VStr _ => strmt s
  | _ => None
  end.

Definition metafield (s : state) (v : value) (ev : bytes) : value :=
  match metatable_of s v with
  | Some m => kv_get (t_kv (nth m (tabs s) empty_tab)) (VStr ev)
  | None => VNil
  end.

Definition getmeta (v : value) (ev : bytes) : M value := fun s => Ret (metafield s v ev) s.

Definition is_callable_raw (v : value) := match v with VFun _ | VBuiltin _ => true | _ => false end.

(* string -> number coercion of arithmetic operands *)
Inductive coerced := CNum (f : float) | CNo | COut.
Definition tonum (v : value) : coerced :=
  match v with
  | VNum f => CNum f
  | VStr s => match text_to_f s with PNum f => CNum f | PNotNumber => CNo | POutside => COut end
  | _ => CNo
  end.

Definition arith_op (o : binop) (a b : float) : option float :=
  match o with
  | OAdd => Some (a + b)%float | OSub => Some (a - b)%float | OMul => Some (a * b)%float
  | ODiv => Some (a / b)%float
  | OMod => f_mod_int a b
  | OPow => f_pow_int a b
  | _ => None
  end.

Definition arith_event (o : binop) : bytes :=
  match o with
  | OAdd => s_mm_add | OSub => s_mm_sub | OMul => s_mm_mul | ODiv => s_mm_div
  | OMod => s_mm_mod | OPow => s_mm_pow | _ => s_mm_concat
  end.

Fixpoint bytes_ltb (a b : bytes) : bool :=
  match a, b with
  | _, [] => false
  | [], _ :: _ => true
  | x :: a', y :: b' => if x <? y then true else if y <? x then false else bytes_ltb a' b'
  end.

Definition pos_prefix (ln : Z) : bytes := s_chunkpfx ++ Z_dec ln ++ s_colonsp.

(* text of a value for `..` and tostring (None = not convertible; Unsup separately) *)
Definition num_text (f : float) : M bytes :=
  match f_to_text f with Some t => ret t | None => unsup 11 end.

Definition co_status_name (c : costatus) : bytes :=
  match c with CoInit _ | CoSusp => s_suspended | CoRun => s_running | CoNorm => s_normal | CoDead => s_dead end.

Definition opt_int (v : value) (d : Z) : M Z :=
  match v with
  | VNil => ret d
  | VNum f => match f_to_Z f with Some z => ret z | None => unsup 12 end
  | _ => unsup 12
  end.

Fixpoint seq_get (kv : list (value * value)) (i : Z) (cnt : nat) : list value :=
  match cnt with O => [] | S k => kv_get kv (vint i) :: seq_get kv (i + 1) k end.

Fixpoint set_seq (kv : list (value * value)) (i : Z) (vs : list value) : list (value * value) :=
  match vs with [] => kv | v :: r => set_seq (kv_set kv (vint i) v) (i + 1) r end.

(* keys in traversal order: 1..border first, then the rest in insertion order *)
Definition key_order (kv : list (value * value)) : list value :=
  let n := border kv in
  map vint (map (fun i => Z.of_nat i + 1) (seq 0 (Z.to_nat n))) ++
  map fst (filter (fun p => match fst p with
                            | VNum f => match f_to_Z f with Some z => negb ((1 <=? z) && (z <=? n)) | None => true end
                            | _ => true end) kv).

Fixpoint next_key (ks : list value) (k : value) : option value :=
  match ks with
  | [] => None
  | a :: r => if raweq a k then Some (match r with b :: _ => b | [] => VNil end) else next_key r k
  end.

Fixpoint join_bytes (sep : bytes) (l : list bytes) : bytes :=
  match l with [] => [] | [a] => a | a :: r => a ++ sep ++ join_bytes sep r end.

Definition f_max (a b : float) := if PrimFloat.ltb a b then b else a.
Definition f_min (a b : float) := if PrimFloat.ltb b a then b else a.

Section Eval.

Fixpoint eval_e (n : nat) (cx : ctx) (ln : Z) (en : env) (e : expr) {struct n} : M value :=
  match n with O => fun _ => OutOfFuel | S n' =>
  match e with
  | ENil => ret VNil | ETrue => ret (VBool true) | EFalse => ret (VBool false)
  | ENum f => ret (VNum f)
  | EStr s => ret (VStr s)
  | EVarargs => ret (first (cx_va cx))
  | EVar x =>
      match lookup en x with
      | Some c => read_cell c
      | None => do c <- read_clo (cx_clo cx); index n' (here cx ln) (VTab (c_fenv c)) (VStr x) 100
      end
  | EIndex a k => do av <- eval_e n' cx ln en a; do kv <- eval_e n' cx ln en k; index n' (here cx ln) av kv 100
  | ECall _ _ | EMeth _ _ _ => do vs <- eval_multi n' cx ln en e; ret (first vs)
  | EFunc ps va body l1 l2 =>
      do c <- read_clo (cx_clo cx);
      do r <- alloc_clo (mkClo ps va body en (c_fenv c) l1 false); ret (VFun r)
  | EBin o a b =>
      (* The manual leaves operand evaluation order open. As in lcode.c, a local variable that is
         the left operand of an arithmetic or comparison operator is not copied: it is read when
         the operation executes, i.e. after the right operand has been evaluated. *)
      let late := match o, a with
                  | OConcat, _ => None
                  | _, EVar x => lookup en x
                  | _, _ => None
                  end in
      match late with
      | Some c => do bv <- eval_e n' cx ln en b; do av <- read_cell c; binop_v n' (here cx ln) o av bv
      | None => do av <- eval_e n' cx ln en a; do bv <- eval_e n' cx ln en b; binop_v n' (here cx ln) o av bv
      end
  | EUn o a => do av <- eval_e n' cx ln en a; unop_v n' (here cx ln) o av
  | EAnd a b => do av <- eval_e n' cx ln en a; if truthy av then eval_e n' cx ln en b else ret av
  | EOr a b => do av <- eval_e n' cx ln en a; if truthy av then ret av else eval_e n' cx ln en b
  | EParen a => eval_e n' cx ln en a
  | ETable items =>
      do r <- alloc_tab empty_tab;
      (fix go (its : list titem) (i : Z) : M unit :=
         match its with
         | [] => ret tt
         | [TPos a] => do vs <- eval_multi n' cx ln en a;
                       do t <- read_tab r; write_tab r (mkTab (set_seq (t_kv t) i vs) (t_meta t))
         | TPos a :: rest => do v <- eval_e n' cx ln en a;
                       do t <- read_tab r; write_tab r (mkTab (kv_set (t_kv t) (vint i) v) (t_meta t)) ;; go rest (i + 1)
         | TNamed k a :: rest => do v <- eval_e n' cx ln en a;
                       do t <- read_tab r; write_tab r (mkTab (kv_set (t_kv t) (VStr k) v) (t_meta t)) ;; go rest i
         | TKey k a :: rest => do kv <- eval_e n' cx ln en k; do v <- eval_e n' cx ln en a;
                       match kv with
                       | VNil => fault 6 ln
                       | VNum f => if PrimFloat.eqb f f then
                              do t <- read_tab r; write_tab r (mkTab (kv_set (t_kv t) kv v) (t_meta t)) ;; go rest i
                            else fault 6 ln
                       | _ => do t <- read_tab r; write_tab r (mkTab (kv_set (t_kv t) kv v) (t_meta t)) ;; go rest i
                       end
         end) items 1 ;;
      ret (VTab r)
  end end

with eval_multi (n : nat) (cx : ctx) (ln : Z) (en : env) (e : expr) {struct n} : M (list value) :=
  match n with O => fun _ => OutOfFuel | S n' =>
  match e with
  | ECall f args =>
      do fv <- eval_e n' cx ln en f;
      do avs <- eval_list_with (eval_e n' cx ln en) (eval_multi n' cx ln en) args;
      call n' (here cx ln) fv avs
  | EMeth o m args =>
      do ov <- eval_e n' cx ln en o;
      do fv <- index n' (here cx ln) ov (VStr m) 100;
      do avs <- eval_list_with (eval_e n' cx ln en) (eval_multi n' cx ln en) args;
      call n' (here cx ln) fv (ov :: avs)
  | EVarargs => ret (cx_va cx)
  | _ => do v <- eval_e n' cx ln en e; ret [v]
  end end

(* gettable event, §2.8 *)
with index (n : nat) (fr : list frame) (v k : value) (depth : nat) {struct n} : M value :=
  match n with O => fun _ => OutOfFuel | S n' =>
  match depth with O => fault 1 (frames_line fr) | S d =>
  match v with
  | VTab r =>
      do t <- read_tab r;
      let raw := kv_get (t_kv t) k in
      if negb (is_nil raw) then ret raw else
      do h <- getmeta v s_mm_index;
      match h with
      | VNil => ret VNil
      | VFun _ | VBuiltin _ => do vs <- call n' fr h [v; k]; ret (first vs)
      | _ => index n' fr h k d
      end
  | _ =>
      do h <- getmeta v s_mm_index;
      match h with
      | VNil => fault 1 (frames_line fr)
      | VFun _ | VBuiltin _ => do vs <- call n' fr h [v; k]; ret (first vs)
      | _ => index n' fr h k d
      end
  end end end

(* settable event *)
with setindex (n : nat) (fr : list frame) (v k x : value) (depth : nat) {struct n} : M unit :=
  match n with O => fun _ => OutOfFuel | S n' =>
  match depth with O => fault 1 (frames_line fr) | S d =>
  match v with
  | VTab r =>
      do t <- read_tab r;
      let raw := kv_get (t_kv t) k in
      do h <- (if negb (is_nil raw) then ret VNil else getmeta v s_mm_newindex);
      match h with
      | VNil =>
          match k with
          | VNil => fault 6 (frames_line fr)
          | VNum f => if PrimFloat.eqb f f then write_tab r (mkTab (kv_set (t_kv t) k x) (t_meta t))
                      else fault 6 (frames_line fr)
          | _ => write_tab r (mkTab (kv_set (t_kv t) k x) (t_meta t))
          end
      | VFun _ | VBuiltin _ => do _ <- call n' fr h [v; k; x]; ret tt
      | _ => setindex n' fr h k x d
      end
  | _ =>
      do h <- getmeta v s_mm_newindex;
      match h with
      | VNil => fault 1 (frames_line fr)
      | VFun _ | VBuiltin _ => do _ <- call n' fr h [v; k; x]; ret tt
      | _ => setindex n' fr h k x d
      end
  end end end

with binop_v (n : nat) (fr : list frame) (o : binop) (a b : value) {struct n} : M value :=
  match n with O => fun _ => OutOfFuel | S n' =>
  match o with
  | OAdd | OSub | OMul | ODiv | OMod | OPow =>
      match tonum a, tonum b with
      | CNum x, CNum y => match arith_op o x y with Some r => ret (VNum r) | None => unsup 1 end
      | COut, _ | _, COut => unsup 2
      | _, _ =>
          do h1 <- getmeta a (arith_event o);
          do h <- (if is_nil h1 then getmeta b (arith_event o) else ret h1);
          if is_nil h then fault 2 (frames_line fr)
          else do vs <- call n' fr h [a; b]; ret (first vs)
      end
  | OConcat =>
      let strnum v := match v with VStr _ | VNum _ => true | _ => false end in
      if strnum a && strnum b then
        do x <- (match a with VStr s => ret s | VNum f => num_text f | _ => ret [] end);
        do y <- (match b with VStr s => ret s | VNum f => num_text f | _ => ret [] end);
        ret (VStr (x ++ y))
      else
        match a, b with
        | VFault _ _, _ | _, VFault _ _ => unsup 3
        | _, _ =>
          do h1 <- getmeta a s_mm_concat;
          do h <- (if is_nil h1 then getmeta b s_mm_concat else ret h1);
          if is_nil h then fault 5 (frames_line fr)
          else do vs <- call n' fr h [a; b]; ret (first vs)
        end
  | OEq => do r <- eq_v n' fr a b; ret (VBool r)
  | ONe => do r <- eq_v n' fr a b; ret (VBool (negb r))
  | OLt => do r <- lt_v n' fr a b; ret (VBool r)
  | OLe => do r <- le_v n' fr a b; ret (VBool r)
  | OGt => do r <- lt_v n' fr b a; ret (VBool r)
  | OGe => do r <- le_v n' fr b a; ret (VBool r)
  end end

with eq_v (n : nat) (fr : list frame) (a b : value) {struct n} : M bool :=
  match n with O => fun _ => OutOfFuel | S n' =>
  if raweq a b then ret true else
  match a, b with
  | VTab _, VTab _ | VUd _, VUd _ =>
      do h1 <- getmeta a s_mm_eq; do h2 <- getmeta b s_mm_eq;
      if negb (is_nil h1) && raweq h1 h2 then do vs <- call n' fr h1 [a; b]; ret (truthy (first vs))
      else ret false
  | _, _ => ret false
  end end

(* comparison handler: both operands must offer the same handler (lvm.c call_orderTM) *)
with order_tm (n : nat) (fr : list frame) (ev : bytes) (a b : value) {struct n} : M (option bool) :=
  match n with O => fun _ => OutOfFuel | S n' =>
  do h1 <- getmeta a ev;
  if is_nil h1 then ret None else
  do h2 <- getmeta b ev;
  if raweq h1 h2 then do vs <- call n' fr h1 [a; b]; ret (Some (truthy (first vs))) else ret None
  end

with lt_v (n : nat) (fr : list frame) (a b : value) {struct n} : M bool :=
  match n with O => fun _ => OutOfFuel | S n' =>
  match a, b with
  | VNum x, VNum y => ret (PrimFloat.ltb x y)
  | VStr x, VStr y => ret (bytes_ltb x y)
  | VFault _ _, _ | _, VFault _ _ => unsup 4
  | _, _ =>
      if negb (beqb (tyname a) (tyname b)) then fault 4 (frames_line fr) else
      do r <- order_tm n' fr s_mm_lt a b;
      match r with Some t => ret t | None => fault 4 (frames_line fr) end
  end end

with le_v (n : nat) (fr : list frame) (a b : value) {struct n} : M bool :=
  match n with O => fun _ => OutOfFuel | S n' =>
  match a, b with
  | VNum x, VNum y => ret (PrimFloat.leb x y)
  | VStr x, VStr y => ret (negb (bytes_ltb y x))
  | VFault _ _, _ | _, VFault _ _ => unsup 4
  | _, _ =>
      if negb (beqb (tyname a) (tyname b)) then fault 4 (frames_line fr) else
      do r <- order_tm n' fr s_mm_le a b;
      match r with
      | Some t => ret t
      | None => do r2 <- order_tm n' fr s_mm_lt b a;
                match r2 with Some t => ret (negb t) | None => fault 4 (frames_line fr) end
      end
  end end

with unop_v (n : nat) (fr : list frame) (o : unop) (a : value) {struct n} : M value :=
  match n with O => fun _ => OutOfFuel | S n' =>
  match o with
  | ONot => ret (VBool (negb (truthy a)))
  | ONeg =>
      match tonum a with
      | CNum x => ret (VNum (- x)%float)
      | COut => unsup 2
      | CNo => do h <- getmeta a s_mm_unm;
               if is_nil h then fault 2 (frames_line fr) else do vs <- call n' fr h [a; a]; ret (first vs)
      end
  | OLen =>
      match a with
      | VStr s => ret (vint (len s))
      | VTab r => do t <- read_tab r;
                  if border_unique (t_kv t) then ret (vint (border (t_kv t))) else unsup 5
      | VFault _ _ => unsup 3
      | _ => do h <- getmeta a s_mm_len;
             if is_nil h then fault 7 (frames_line fr) else do vs <- call n' fr h [a]; ret (first vs)
      end
  end end

(* function call: fr = frames of the caller chain, head = the call site *)
with call (n : nat) (fr : list frame) (f : value) (args : list value) {struct n} : M (list value) :=
  match n with O => fun _ => OutOfFuel | S n' =>
  match f with
  | VFun r =>
      do c <- read_clo r;
      let np := length (c_params c) in
      do cs <- mapM alloc_cell (adjust np args);
      let va := if c_vararg c then skipn np args else [] in
      do en0 <- (if c_vararg c && negb (c_main c) then
                   do tr <- alloc_tab (mkTab (kv_set (set_seq [] 1 va) (VStr s_n) (vint (len va))) None);
                   do ac <- alloc_cell (VTab tr); ret ((s_arg, ac) :: c_env c)
                 else ret (c_env c));
      let en := rev (combine (c_params c) cs) ++ en0 in
      do r <- block n' (mkCtx va fr r) en (c_body c) [] 0;
      match fst r with
      | SigReturn vs => ret vs
      | SigNormal => ret []
      | _ => unsup 6
      end
  | VBuiltin b => builtin_call n' fr b args
  | _ =>
      do h <- getmeta f s_mm_call;
      if is_nil h then fault 3 (frames_line fr) else call n' fr h (f :: args)
  end end

(* block execution with goto: [hist] holds the environment before each statement already passed *)
with block (n : nat) (cx : ctx) (en0 : env) (all : list stmt) (hist0 : list env) (start : nat)
     {struct n} : M (signal * env) :=
  match n with O => fun _ => OutOfFuel | S n' =>
  (fix go (rest : list stmt) (pos : nat) (en : env) (hist : list env) : M (signal * env) :=
     match rest with
     | [] => ret (SigNormal, en)
     | st :: rest' =>
         do r <- exec n' cx en st;
         let hist' := hist ++ [en] in
         match fst r with
         | SigNormal => go rest' (S pos) (snd r) hist'
         | SigGoto l =>
             match find_label all l 0 with
             | Some p => if Nat.leb p pos then block n' cx (nth p hist' en) all (firstn p hist') p
                         else block n' cx en all (hist' ++ repeat en (p - pos - 1)) p
             | None => ret (SigGoto l, en)
             end
         | sg => ret (sg, snd r)
         end
     end) (skipn start all) start en0 hist0
  end

with exec (n : nat) (cx : ctx) (en : env) (st : stmt) {struct n} : M (signal * env) :=
  match n with O => fun _ => OutOfFuel | S n' =>
  match st with
  | SLocal ln [x] [EFunc ps va body l1 l2] =>
      (* `local f = function ... end`: f is not in scope inside the function (5.1); the
         dv_localfunc switch reproduces gopher-lua, which treats it as `local function f` *)
      do dvs <- (fun s => Ret (dv s) s);
      if dv_localfunc dvs then
        do c <- alloc_cell VNil;
        let en' := (x, c) :: en in
        do v <- eval_e n' cx ln en' (EFunc ps va body l1 l2);
        write_cell c v ;; ret (SigNormal, en')
      else
        do v <- eval_e n' cx ln en (EFunc ps va body l1 l2);
        do c <- alloc_cell v; ret (SigNormal, (x, c) :: en)
  | SLocal ln xs es =>
      do vs <- eval_list_with (eval_e n' cx ln en) (eval_multi n' cx ln en) es;
      do cs <- mapM alloc_cell (adjust (length xs) vs);
      ret (SigNormal, rev (combine xs cs) ++ en)
  | SLocalFunc ln x f =>
      do c <- alloc_cell VNil;
      let en' := (x, c) :: en in
      do v <- eval_e n' cx ln en' f;
      write_cell c v ;; ret (SigNormal, en')
  | SAssign ln lhs es =>
      do refs <- mapM (fun l : expr =>
                  match l with
                  | EVar x => match lookup en x with
                              | Some c => ret (inl c)
                              | None => do cl <- read_clo (cx_clo cx); ret (inr (VTab (c_fenv cl), VStr x))
                              end
                  | EIndex a k => do av <- eval_e n' cx ln en a; do kv <- eval_e n' cx ln en k; ret (inr (av, kv))
                  | _ => unsup 7
                  end) lhs;
      do vs <- eval_list_with (eval_e n' cx ln en) (eval_multi n' cx ln en) es;
      do _ <- mapM (fun p : (nat + value * value) * value =>
                  match fst p with
                  | inl c => write_cell c (snd p)
                  | inr (t, k) => setindex n' (here cx ln) t k (snd p) 100
                  end) (rev (combine refs (adjust (length refs) vs)));
      ret (SigNormal, en)
  | SCall ln e => do _ <- eval_multi n' cx ln en e; ret (SigNormal, en)
  | SDo body => do r <- block n' cx en body [] 0; ret (fst r, en)
  | SWhile ln c body => do sg <- while_loop n' cx en ln c body; ret (sg, en)
  | SRepeat body ln c => do sg <- repeat_loop n' cx en body ln c; ret (sg, en)
  | SIf ln c th el =>
      do cv <- eval_e n' cx ln en c;
      do r <- block n' cx en (if truthy cv then th else el) [] 0; ret (fst r, en)
  | SNumFor ln x a b c body =>
      do av <- eval_e n' cx ln en a; do bv <- eval_e n' cx ln en b;
      do cv <- (match c with Some ce => eval_e n' cx ln en ce | None => ret (VNum 1%float) end);
      match tonum av, tonum bv, tonum cv with
      | CNum i, CNum lim, CNum step => do sg <- numfor_loop n' cx en x i lim step body; ret (sg, en)
      | COut, _, _ | _, COut, _ | _, _, COut => unsup 2
      | _, _, _ => fault 6 ln
      end
  | SGenFor ln xs es body =>
      do vs <- eval_list_with (eval_e n' cx ln en) (eval_multi n' cx ln en) es;
      match adjust 3 vs with
      | [f; s; ctl] => do sg <- genfor_loop n' cx en ln xs f s ctl body; ret (sg, en)
      | _ => unsup 8
      end
  | SReturn ln es =>
      match es with
      | [ECall f args] =>        (* proper tail call: the caller's frame is gone *)
          do fv <- eval_e n' cx ln en f;
          do avs <- eval_list_with (eval_e n' cx ln en) (eval_multi n' cx ln en) args;
          (* a host function called in tail position still runs on top of the caller's frame *)
          do vs <- call n' (match fv with VBuiltin _ => here cx ln | _ => (None, None) :: cx_frames cx end) fv avs;
          ret (SigReturn vs, en)
      | _ => do vs <- eval_list_with (eval_e n' cx ln en) (eval_multi n' cx ln en) es; ret (SigReturn vs, en)
      end
  | SBreak => ret (SigBreak, en)
  | SGoto l => ret (SigGoto l, en)
  | SLabel _ => ret (SigNormal, en)
  end end

with while_loop (n : nat) (cx : ctx) (en : env) (ln : Z) (c : expr) (body : list stmt) {struct n} : M signal :=
  match n with O => fun _ => OutOfFuel | S n' =>
  do cv <- eval_e n' cx ln en c;
  if truthy cv then
    do r <- block n' cx en body [] 0;
    match fst r with
    | SigNormal => while_loop n' cx en ln c body
    | SigBreak => ret SigNormal
    | sg => ret sg
    end
  else ret SigNormal
  end

with repeat_loop (n : nat) (cx : ctx) (en : env) (body : list stmt) (ln : Z) (c : expr) {struct n} : M signal :=
  match n with O => fun _ => OutOfFuel | S n' =>
  do r <- block n' cx en body [] 0;
  match fst r with
  | SigNormal => do cv <- eval_e n' cx ln (snd r) c;
                 if truthy cv then ret SigNormal else repeat_loop n' cx en body ln c
  | SigBreak => ret SigNormal
  | sg => ret sg
  end end

with numfor_loop (n : nat) (cx : ctx) (en : env) (x : name) (i lim step : float) (body : list stmt)
     {struct n} : M signal :=
  match n with O => fun _ => OutOfFuel | S n' =>
  let go_on := if PrimFloat.ltb 0%float step then PrimFloat.leb i lim else PrimFloat.leb lim i in
  if go_on then
    do c <- alloc_cell (VNum i);
    do r <- block n' cx ((x, c) :: en) body [] 0;
    match fst r with
    | SigNormal => numfor_loop n' cx en x (i + step)%float lim step body
    | SigBreak => ret SigNormal
    | sg => ret sg
    end
  else ret SigNormal
  end

with genfor_loop (n : nat) (cx : ctx) (en : env) (ln : Z) (xs : list name) (f s ctl : value) (body : list stmt)
     {struct n} : M signal :=
  match n with O => fun _ => OutOfFuel | S n' =>
  do vs <- call n' (here cx ln) f [s; ctl];
  if is_nil (first vs) then ret SigNormal else
  do cs <- mapM alloc_cell (adjust (length xs) vs);
  do r <- block n' cx (rev (combine xs cs) ++ en) body [] 0;
  match fst r with
  | SigNormal => genfor_loop n' cx en ln xs f s (first vs) body
  | SigBreak => ret SigNormal
  | sg => ret sg
  end end

with tostring_v (n : nat) (fr : list frame) (v : value) {struct n} : M value :=
  match n with O => fun _ => OutOfFuel | S n' =>
  do h <- getmeta v s_mm_tostring;
  if negb (is_nil h) then do vs <- call n' fr h [v]; ret (first vs) else
  match v with
  | VNil => ret (VStr s_nil)
  | VBool b => ret (VStr (if b then s_true else s_false))
  | VNum f => do t <- num_text f; ret (VStr t)
  | VStr _ => ret v
  | _ => unsup 9
  end end

with builtin_call (n : nat) (fr : list frame) (b : builtin) (args : list value) {struct n} : M (list value) :=
  match n with O => fun _ => OutOfFuel | S n' =>
  let a1 := nth 0 args VNil in let a2 := nth 1 args VNil in let a3 := nth 2 args VNil in
  let badarg := fault 6 (frames_line fr) in
  match b with
  | BEmit => (fun s =>
      let k := dv_emit_fault (dv s) in
      if (0 <? k) && (len (trace s) + 1 =? k) then
        (* injected fault: this call of the host function fails; a marker row keeps it one-shot *)
        let s' := with_trace s (trace s ++ [[VFault 99 0]]) in
        if dv_fault_string (dv s) then Err (VStr (pos_prefix (frames_line fr) ++ s_inj)) s'
        else Err (VNum (-777)%float) s'
      else Ret [] (with_trace s (trace s ++ [args])))
  | BType => match args with [] => badarg | _ => ret [VStr (tyname a1)] end
  | BToString => match args with [] => badarg | _ => do v <- tostring_v n' fr a1; ret [v] end
  | BToNumber =>
      match a2 with
      | VNil => match a1 with
                | VNum _ => ret [a1]
                | VStr s => match text_to_f s with PNum f => ret [VNum f] | PNotNumber => ret [VNil] | POutside => unsup 2 end
                | _ => match args with [] => badarg | _ => ret [VNil] end
                end
      | _ => unsup 10
      end
  | BSelect =>
      match a1 with
      | VStr s => if beqb s s_hash then ret [vint (len (tl args))] else badarg
      | VNum f => match f_to_Z f with
                  | Some z => let rest := tl args in
                      if z <? 0 then (if len rest + z <? 0 then badarg else ret (skipn (Z.to_nat (len rest + z)) rest))
                      else if z =? 0 then badarg else ret (skipn (Z.to_nat (z - 1)) rest)
                  | None => unsup 12 end
      | _ => badarg
      end
  | BUnpack =>
      match a1 with
      | VTab r => do t <- read_tab r;
          do i <- opt_int a2 1;
          do j <- (match a3 with VNil => if border_unique (t_kv t) then ret (border (t_kv t)) else unsup 5 | _ => opt_int a3 0 end);
          if j - i >? 100000 then unsup 13 else
          ret (seq_get (t_kv t) i (Z.to_nat (j - i + 1)))
      | _ => badarg
      end
  | BNext =>
      match a1 with
      | VTab r => do t <- read_tab r;
          let ks := key_order (t_kv t) in
          match a2 with
          | VNil => match ks with [] => ret [VNil] | k :: _ => ret [k; kv_get (t_kv t) k] end
          | _ => match next_key ks a2 with
                 | Some VNil => ret [VNil]
                 | Some k => ret [k; kv_get (t_kv t) k]
                 | None => unsup 14
                 end
          end
      | _ => badarg
      end
  | BPairs => match a1 with VTab _ => ret [VBuiltin BNext; a1; VNil] | _ => badarg end
  | BIpairs => match a1 with VTab _ => ret [VBuiltin BIpairsAux; a1; vint 0] | _ => badarg end
  | BIpairsAux =>
      match a1, a2 with
      | VTab r, VNum f => do t <- read_tab r;
          let i := (f + 1)%float in
          let v := kv_get (t_kv t) (VNum i) in
          if is_nil v then ret [VNil] else ret [VNum i; v]
      | _, _ => badarg
      end
  | BRawGet => match a1 with VTab r => do t <- read_tab r; ret [kv_get (t_kv t) a2] | _ => badarg end
  | BRawSet =>
      match a1 with
      | VTab r => do t <- read_tab r;
          match a2 with
          | VNil => badarg
          | VNum f => if PrimFloat.eqb f f then write_tab r (mkTab (kv_set (t_kv t) a2 a3) (t_meta t)) ;; ret [a1] else badarg
          | _ => write_tab r (mkTab (kv_set (t_kv t) a2 a3) (t_meta t)) ;; ret [a1]
          end
      | _ => badarg
      end
  | BRawEqual => ret [VBool (raweq a1 a2)]
  | BSetMt =>
      match a1 with
      | VTab r =>
          (* a missing second argument is not nil: "bad argument #2 (nil or table expected)" *)
          match tl args with [] => badarg | _ :: _ =>
          do prot <- getmeta a1 s_mm_metatable;
          if negb (is_nil prot) then raise (VStr ((match fr with (Some l, _) :: _ => pos_prefix l | _ => [] end) ++ s_cannot_change_a_protected_metatable)) else
          do t <- read_tab r;
          match a2 with
          | VNil => write_tab r (mkTab (t_kv t) None) ;; ret [a1]
          | VTab m => write_tab r (mkTab (t_kv t) (Some m)) ;; ret [a1]
          | _ => badarg
          end
          end
      | _ => badarg
      end
  | BGetMt =>
      do prot <- getmeta a1 s_mm_metatable;
      if negb (is_nil prot) then ret [prot] else
      (fun s => match metatable_of s a1 with Some m => Ret [VTab m] s | None => Ret [VNil] s end)
  | BGetFenv =>
      match a1 with
      | VFun r => do c <- read_clo r; ret [VTab (c_fenv c)]
      | VNil | VNum _ =>
          do lv <- opt_int a1 1;
          if lv <=? 0 then unsup 15 else
          match nth_error fr (Z.to_nat (lv - 1)) with
          | Some (_, Some r) => do c <- read_clo r; ret [VTab (c_fenv c)]
          | _ => unsup 15
          end
      | _ => unsup 15
      end
  | BSetFenv =>
      match a2 with
      | VTab t =>
          match a1 with
          | VFun r => do c <- read_clo r;
              write_clo r (mkClo (c_params c) (c_vararg c) (c_body c) (c_env c) t (c_line c) (c_main c)) ;; ret [a1]
          | VNum _ =>
              do lv <- opt_int a1 1;
              if lv <=? 0 then unsup 15 else
              match nth_error fr (Z.to_nat (lv - 1)) with
              | Some (_, Some r) => do c <- read_clo r;
                  write_clo r (mkClo (c_params c) (c_vararg c) (c_body c) (c_env c) t (c_line c) (c_main c)) ;; ret [VFun r]
              | _ => unsup 15
              end
          | _ => unsup 15
          end
      | _ => badarg
      end
  | BPcall =>
      match args with
      | [] => badarg
      | f :: rest =>
          fun s => catch (bind (call n' ((None, None) :: fr) f rest s) (fun vs s' => Ret (VBool true :: vs) s'))
                         (fun e s' => Ret [VBool false; e] s')
      end
  | BXpcall =>
      fun s => catch (bind (call n' ((None, None) :: fr) a1 [] s) (fun vs s' => Ret (VBool true :: vs) s'))
                     (fun e s' => catch (bind (call n' ((None, None) :: fr) a2 [e] s') (fun hv s'' => Ret [VBool false; first hv] s''))
                                       (fun e2 s2 => (* an error inside the message handler *)
                                          if dv_handler_err (dv s2) then Ret [VBool false; e2] s2
                                          else Ret [VBool false; VStr s_error_in_error_handling] s2))
  | BError =>
      do lv <- opt_int a2 1;
      do dvs <- (fun s => Ret (dv s) s);
      match a1 with
      | VStr m =>
          if lv <=? 0 then raise a1 else
          let idx := lv - 1 in
          match nth_error fr (Z.to_nat idx) with
          | Some (Some l, _) => raise (VStr (pos_prefix l ++ m))
          | _ => raise a1
          end
      | VFault _ _ => if lv <=? 0 then raise a1 else unsup 3
      | VNum f =>
          if lv <=? 0 then raise a1 else
          do t <- num_text f;
          let idx := lv - 1 in
          match nth_error fr (Z.to_nat idx) with
          | Some (Some l, _) => raise (VStr (pos_prefix l ++ t))
          | _ => raise a1
          end
      | _ => raise a1
      end
  | BAssert =>
      match args with
      | [] => badarg
      | _ => if truthy a1 then ret args
             else (* luaL_error: the message gains the position of assert's caller *)
                  let pfx := match fr with (Some l, _) :: _ => pos_prefix l | _ => [] end in
                  match args with
                  | [_] => raise (VStr (pfx ++ s_assertion_failed))
                  | _ => match a2 with
                         | VStr m => raise (VStr (pfx ++ m))
                         | VNil => raise (VStr (pfx ++ s_assertion_failed))
                         | _ => unsup 20
                         end
                  end
      end
  | BCoCreate =>
      match a1 with
      | VFun _ | VBuiltin _ => fun s => Ret [VCo (length (cos s))] (with_cos s (cos s ++ [CoInit a1]))
      | _ => badarg
      end
  | BCoWrap =>
      match a1 with
      | VFun _ | VBuiltin _ => fun s => Ret [VBuiltin (BWrapped (length (cos s)))] (with_cos s (cos s ++ [CoInit a1]))
      | _ => badarg
      end
  | BCoResume =>
      match a1 with
      | VCo r => fun s =>
          match nth r (cos s) CoDead with
          | CoInit _ | CoSusp => Eff (EResume r (tl args) false) s
                                     (fun rp s' => match rp with RVals vs => Ret vs s' | RErr e => Err e s' end)
          | CoDead => Ret [VBool false; VFault 8 0] s
          | _ => Ret [VBool false; VFault 9 0] s
          end
      | _ => badarg
      end
  | BWrapped r => fun s =>
      match nth r (cos s) CoDead with
      | CoInit _ | CoSusp =>
          Eff (EResume r args true) s
              (fun rp s' => match rp with
                            | RVals vs => Ret vs s'
                            | RErr (VStr m) => if dv_wrap_noprefix (dv s') then Err (VStr m) s'
                                               else match fr with
                                                    | (Some l, _) :: _ => Err (VStr (pos_prefix l ++ m)) s'
                                                    | _ => Err (VStr m) s'   (* called directly by a host function: luaL_where of a C function is empty *)
                                                    end
                            | RErr (VNum _) => if dv_wrap_noprefix (dv s') then Unsup 16 else Unsup 16
                            | RErr e => Err e s'
                            end)
      | CoDead => Err (VFault 8 0) s
      | _ => Err (VFault 9 0) s
      end
  | BCoYield => fun s =>
      match cur s with
      | Some _ => Eff (EYield args) s (fun rp s' => match rp with RVals vs => Ret vs s' | RErr e => Err e s' end)
      | None => Err (VFault 10 0) s
      end
  | BCoStatus =>
      match a1 with
      | VCo r => fun s => Ret [VStr (co_status_name (nth r (cos s) CoDead))] s
      | _ => badarg
      end
  | BCoRunning => fun s => match cur s with Some r => Ret [VCo r] s | None => Ret [VNil] s end  (* manual: nil on the main thread *)
  | BTInsert =>
      match a1 with
      | VTab r => do t <- read_tab r;
          if negb (border_unique (t_kv t)) then unsup 5 else
          let e := border (t_kv t) + 1 in
          match args with
          | [_; v] => write_tab r (mkTab (kv_set (t_kv t) (vint e) v) (t_meta t)) ;; ret []
          | [_; p; v] => do pos <- opt_int p e;
              if (pos <? 1) || (pos >? e) then unsup 17 else
              let moved := seq_get (t_kv t) pos (Z.to_nat (e - pos)) in
              write_tab r (mkTab (set_seq (t_kv t) pos (v :: moved)) (t_meta t)) ;; ret []
          | _ => badarg
          end
      | _ => badarg
      end
  | BTRemove =>
      match a1 with
      | VTab r => do t <- read_tab r;
          if negb (border_unique (t_kv t)) then unsup 5 else
          let e := border (t_kv t) in
          do pos <- opt_int a2 e;
          if (pos <? 1) || (pos >? e) then ret [] else   (* outside 1..#t, empty list included: no value *)
          let v := kv_get (t_kv t) (vint pos) in
          let moved := seq_get (t_kv t) (pos + 1) (Z.to_nat (e - pos)) in
          write_tab r (mkTab (set_seq (t_kv t) pos (moved ++ [VNil])) (t_meta t)) ;; ret [v]
      | _ => badarg
      end
  | BTConcat =>
      match a1 with
      | VTab r => do t <- read_tab r;
          do sep <- (match a2 with VNil => ret [] | VStr s => ret s | VNum f => num_text f | _ => unsup 18 end);
          do i <- opt_int a3 1;
          do j <- (match nth 3 args VNil with VNil => if border_unique (t_kv t) then ret (border (t_kv t)) else unsup 5 | v => opt_int v 0 end);
          if j - i >? 100000 then unsup 13 else
          do parts <- mapM (fun v => match v with VStr s => ret s | VNum f => num_text f | _ => fault 6 (frames_line fr) end)
                           (seq_get (t_kv t) i (Z.to_nat (j - i + 1)));
          ret [VStr (join_bytes sep parts)]
      | _ => badarg
      end
  | BStrLen => match a1 with VStr s => ret [vint (len s)] | _ => unsup 19 end
  | BStrSub => match a1, a2 with
               | VStr s, VNum _ => do i <- opt_int a2 1; do j <- opt_int a3 (-1); ret [VStr (sub_spec s i j)]
               | VStr _, VNil => badarg
               | _, _ => unsup 19 end
  | BStrRep => match a1, a2 with VStr _, VNil => fault 6 (frames_line fr) | _, _ => ret tt end ;;
               match a1 with VStr s => do k <- opt_int a2 0; if k >? 1000 then unsup 13 else ret [VStr (rep_spec s k)] | _ => unsup 19 end
  | BStrUpper => match a1 with VStr s => ret [VStr (map toupper_c s)] | _ => unsup 19 end
  | BStrLower => match a1 with VStr s => ret [VStr (map tolower_c s)] | _ => unsup 19 end
  | BStrByte => match a1 with
                | VStr s => let oi := match a2 with VNum f => f_to_Z f | _ => None end in
                            let oj := match a3 with VNum f => f_to_Z f | _ => None end in
                            ret (map vint (byte_spec s oi oj))
                | _ => unsup 19 end
  | BMathFloor => match a1 with VNum f => ret [VNum (f_floor f)] | _ => unsup 19 end
  | BMathAbs => match a1 with VNum f => ret [VNum (PrimFloat.abs f)] | _ => unsup 19 end
  | BMathMax =>
      match a1 with
      | VNum f => do r <- (fix go (l : list value) (acc : float) : M float :=
                      match l with [] => ret acc | VNum g :: r => go r (f_max acc g) | _ => unsup 19 end) (tl args) f; ret [VNum r]
      | _ => unsup 19 end
  | BMathMin =>
      match a1 with
      | VNum f => do r <- (fix go (l : list value) (acc : float) : M float :=
                      match l with [] => ret acc | VNum g :: r => go r (f_min acc g) | _ => unsup 19 end) (tl args) f; ret [VNum r]
      | _ => unsup 19 end
  | BNewUd =>
      fun s => Ret [VUd (length (uds s))]
                   (with_uds s (uds s ++ [match a1 with VTab m => Some m | _ => None end]))
  end end.

End Eval.
