(* M-Lua meta-theory for C05 (two-run law), part 3: the simulation lifted through the coroutine
   driver and [run_program]; the law itself. *)
From Coq Require Import Floats Lia.
From GL Require Import Common.Bytes Lua.Syntax Lua.Num Lua.Values Lua.Names Lua.Eval Lua.Run Str.StrModel
  Lua.ValuesFacts Lua.MonadFacts Lua.EvalStepFacts Lua.EvalInvFacts Lua.DriveFacts Lua.DriveRunFacts
  Lua.FaultFacts Lua.FaultStepFacts.

(* ---------- the driver only extends the trace (unary) ---------- *)
Definition ku (kk : K) : Prop := forall rp s', invg s' (kk rp s').
Definition conts_u (conts : list (nat * K)) : Prop := Forall (fun p => ku (snd p)) conts.
Definition stack_u (stack : list (option nat * K * bool)) : Prop := Forall (fun e => ku (snd (fst e))) stack.

Lemma trace_set_status s c st : trace (set_status s c st) = trace s.
Proof. destruct c; reflexivity. Qed.
Lemma dv_set_status s c st : dv (set_status s c st) = dv s.
Proof. destruct c; reflexivity. Qed.

Lemma trace_st_finish s who : trace (st_finish s who) = trace s.
Proof. unfold st_finish. cbn [trace with_cur]. rewrite !trace_set_status. reflexivity. Qed.
Lemma trace_st_resume s co : trace (st_resume s co) = trace s.
Proof. unfold st_resume. cbn [trace with_cur]. rewrite !trace_set_status. reflexivity. Qed.
Lemma trace_st_yield s c who : trace (st_yield s c who) = trace s.
Proof. unfold st_yield. cbn [trace with_cur]. rewrite !trace_set_status. reflexivity. Qed.

Lemma kfind_u conts co kc : conts_u conts -> kfind conts co = Some kc -> ku kc.
Proof.
  induction 1 as [|[d kk] l Hk Hl IH]; simpl; [discriminate|].
  destruct (Nat.eqb co d); [intros H; inversion H; subst; exact Hk|exact IH].
Qed.

Lemma text_step sa s0 s1 s : text sa s0 -> trace s1 = trace s0 -> text s1 s -> text sa s.
Proof. intros H1 H2 H3. eapply text_trans; [|exact H3]. eapply text_same; eauto. Qed.

Lemma drive_text n : forall conts stack r sa s,
  invg sa r -> conts_u conts -> stack_u stack ->
  fin_state (drive n conts stack r) = Some s -> text sa s.
Proof.
  induction n as [|n IH]; intros conts stack r sa s Hr Hc Hs Hfin; [discriminate|].
  inversion Hr as [a s0 Hg|v s0 Hg| |c Hc'|e s0 kk Hg _ Hk]; subst.
  - (* Ret *)
    destruct stack as [|[[who kr] w] rest].
    + cbn in Hfin. inversion Hfin; subst. apply sg_text; exact Hg.
    + rewrite drive_ret_step in Hfin. inversion Hs as [|? ? Hkr Hrest]; subst.
      eapply text_step; [apply sg_text; exact Hg|apply trace_st_finish|].
      eapply IH; [apply Hkr|exact Hc|exact Hrest|exact Hfin].
  - destruct stack as [|[[who kr] w] rest].
    + cbn in Hfin. inversion Hfin; subst. apply sg_text; exact Hg.
    + rewrite drive_err_step in Hfin. inversion Hs as [|? ? Hkr Hrest]; subst.
      eapply text_step; [apply sg_text; exact Hg|apply trace_st_finish|].
      eapply IH; [apply Hkr|exact Hc|exact Hrest|exact Hfin].
  - discriminate.
  - discriminate.
  - destruct e as [co args w|vs].
    + destruct (status s0 co) eqn:Est; try (unfold status in Est; cbn [drive] in Hfin; rewrite Est in Hfin; discriminate).
      * rewrite (drive_resume_init_step _ _ _ _ _ _ _ _ _ Est) in Hfin.
        eapply text_step; [apply sg_text; exact Hg|apply (trace_st_resume s0 co)|].
        eapply IH; [apply ig_call|exact Hc| |exact Hfin]. constructor; auto.
      * destruct (kfind conts co) as [kc|] eqn:Ek;
          [|unfold status in Est; cbn [drive] in Hfin; rewrite Est, Ek in Hfin; discriminate].
        rewrite (drive_resume_susp_step _ _ _ _ _ _ _ _ _ Est Ek) in Hfin.
        eapply text_step; [apply sg_text; exact Hg|apply (trace_st_resume s0 co)|].
        eapply IH; [apply (kfind_u _ _ _ Hc Ek)|exact Hc| |exact Hfin]. constructor; auto.
    + destruct stack as [|[[who kr] w] rest]; [cbn [drive] in Hfin; discriminate|].
      destruct (cur s0) as [c|] eqn:Ec; [|cbn [drive] in Hfin; rewrite Ec in Hfin; discriminate].
      rewrite (drive_yield_step _ _ _ _ _ _ _ _ _ _ Ec) in Hfin. inversion Hs as [|? ? Hkr Hrest]; subst.
      eapply text_step; [apply sg_text; exact Hg|apply (trace_st_yield s0 c who)|].
      eapply IH; [apply Hkr| |exact Hrest|exact Hfin]. constructor; auto.
Qed.

Section FaultRun.
Variable k : Z.
Hypothesis kpos : 0 < k.

Notation ag := (agree k).
Notation fl := (fl k).
Notation KK := (KK k).

Definition krel (k1 k2 : K) : Prop :=
  (forall rp s', ok s' -> ag (k1 rp s') (k2 rp (fl s'))) /\ ku k1 /\ ku k2.

Definition conts_rel (c1 c2 : list (nat * K)) : Prop :=
  Forall2 (fun p1 p2 => fst p1 = fst p2 /\ krel (snd p1) (snd p2)) c1 c2.
Definition stack_rel (s1 s2 : list (option nat * K * bool)) : Prop :=
  Forall2 (fun e1 e2 => fst (fst e1) = fst (fst e2) /\ snd e1 = snd e2 /\ krel (snd (fst e1)) (snd (fst e2))) s1 s2.

Lemma conts_rel_u c1 c2 : conts_rel c1 c2 -> conts_u c1 /\ conts_u c2.
Proof. induction 1 as [|p1 p2 l1 l2 [_ [_ [H1 H2]]] _ [IH1 IH2]]; split; constructor; auto. Qed.
Lemma stack_rel_u s1 s2 : stack_rel s1 s2 -> stack_u s1 /\ stack_u s2.
Proof. induction 1 as [|p1 p2 l1 l2 [_ [_ [_ [H1 H2]]]] _ [IH1 IH2]]; split; constructor; auto. Qed.

Lemma kfind_rel c1 c2 co : conts_rel c1 c2 ->
  match kfind c1 co, kfind c2 co with
  | Some k1, Some k2 => krel k1 k2
  | None, None => True
  | _, _ => False
  end.
Proof.
  induction 1 as [|[d1 k1] [d2 k2] l1 l2 [Hd Hk] _ IH]; simpl; auto.
  simpl in Hd, Hk. subst d2. destruct (Nat.eqb co d1); auto.
Qed.

(* the flip commutes with the driver's own state changes *)
Lemma fl_set_status s c st : set_status (fl s) c st = fl (set_status s c st).
Proof. destruct c; reflexivity. Qed.
Lemma fl_st_finish s who : st_finish (fl s) who = fl (st_finish s who).
Proof. unfold st_finish. cbn [cur FaultFacts.fl with_dv]. rewrite !fl_set_status. reflexivity. Qed.
Lemma fl_st_resume s co : st_resume (fl s) co = fl (st_resume s co).
Proof. unfold st_resume. cbn [cur FaultFacts.fl with_dv]. rewrite !fl_set_status. reflexivity. Qed.
Lemma fl_st_yield s c who : st_yield (fl s) c who = fl (st_yield s c who).
Proof. unfold st_yield. rewrite !fl_set_status. reflexivity. Qed.

Lemma ok_st_finish s who : ok s -> ok (st_finish s who).
Proof. unfold ok, st_finish. cbn [dv with_cur]. rewrite !dv_set_status. auto. Qed.
Lemma ok_st_resume s co : ok s -> ok (st_resume s co).
Proof. unfold ok, st_resume. cbn [dv with_cur]. rewrite !dv_set_status. auto. Qed.
Lemma ok_st_yield s c who : ok s -> ok (st_yield s c who).
Proof. unfold ok, st_yield. cbn [dv with_cur]. rewrite !dv_set_status. auto. Qed.

Definition fin_pref (f1 f2 : fin) : Prop :=
  forall s1 s2, fin_state f1 = Some s1 -> fin_state f2 = Some s2 -> firstn KK (trace s1) = firstn KK (trace s2).

Lemma drive_agree n : forall c1 c2 st1 st2 r1 r2,
  ag r1 r2 -> conts_rel c1 c2 -> stack_rel st1 st2 ->
  fin_pref (drive n c1 st1 r1) (drive n c2 st2 r2).
Proof.
  induction n as [|n IH]; intros c1 c2 st1 st2 r1 r2 Hag Hc Hs; [intros s1 s2 H; discriminate|].
  destruct Hag as [a s Hok|v s Hok| |c|e s k1 k2 Hok Hk Hu1 Hu2|r1 r2 sa sb Hpa Hpb Heq Hia Hib].
  - (* Ret *)
    destruct Hs as [|[[who kr1] w] [[who2 kr2] w2] rest1 rest2 [Hw [Hww [Hkr _]]] Hrest].
    + intros s1 s2 H1 H2. cbn in H1, H2. inversion H1; inversion H2; subst. reflexivity.
    + simpl in Hw, Hww. subst who2 w2. rewrite !drive_ret_step, fl_st_finish.
      apply IH; auto. apply Hkr. apply ok_st_finish; exact Hok.
  - destruct Hs as [|[[who kr1] w] [[who2 kr2] w2] rest1 rest2 [Hw [Hww [Hkr _]]] Hrest].
    + intros s1 s2 H1 H2. cbn in H1, H2. inversion H1; inversion H2; subst. reflexivity.
    + simpl in Hw, Hww. subst who2 w2. rewrite !drive_err_step, fl_st_finish.
      apply IH; auto. apply Hkr. apply ok_st_finish; exact Hok.
  - intros s1 s2 H; discriminate.
  - intros s1 s2 H; discriminate.
  - (* Eff *)
    assert (Hkrel : krel k1 k2) by (split; [exact Hk|split; [exact Hu1|exact Hu2]]).
    destruct e as [co args w|vs].
    + assert (Est2 : status (fl s) co = status s co) by reflexivity.
      destruct (status s co) eqn:Est;
        try (intros s1 s2 H1; unfold status in Est; cbn [drive] in H1; rewrite Est in H1; discriminate).
      * rewrite (drive_resume_init_step _ _ _ _ _ _ _ _ _ Est), (drive_resume_init_step _ _ _ _ _ _ _ _ _ Est2), fl_st_resume.
        apply IH; auto.
        -- apply (all_agree_all k kpos n). apply ok_st_resume; exact Hok.
        -- constructor; auto.
      * pose proof (kfind_rel c1 c2 co Hc) as Hf.
        destruct (kfind c1 co) as [kc1|] eqn:E1; destruct (kfind c2 co) as [kc2|] eqn:E2; try contradiction.
        -- rewrite (drive_resume_susp_step _ _ _ _ _ _ _ _ _ Est E1), (drive_resume_susp_step _ _ _ _ _ _ _ _ _ Est2 E2), fl_st_resume.
           apply IH; auto.
           ++ apply Hf. apply ok_st_resume; exact Hok.
           ++ constructor; auto.
        -- intros s1 s2 H1. unfold status in Est. cbn [drive] in H1. rewrite Est, E1 in H1. discriminate.
    + destruct Hs as [|[[who kr1] w] [[who2 kr2] w2] rest1 rest2 [Hw [Hww [Hkr _]]] Hrest];
        [intros s1 s2 H1; discriminate|].
      simpl in Hw, Hww. subst who2 w2.
      assert (Ec2 : cur (fl s) = cur s) by reflexivity.
      destruct (cur s) as [c|] eqn:Ec; [|intros s1 s2 H1; cbn [drive] in H1; rewrite Ec in H1; discriminate].
      rewrite (drive_yield_step _ _ _ _ _ _ _ _ _ _ Ec), (drive_yield_step _ _ _ _ _ _ _ _ _ _ Ec2), fl_st_yield.
      apply IH; auto.
      * apply Hkr. apply ok_st_yield; exact Hok.
      * constructor; auto.
  - (* diverged: each side only extends its trace *)
    destruct (conts_rel_u _ _ Hc) as [Hc1 Hc2]. destruct (stack_rel_u _ _ Hs) as [Hs1 Hs2].
    intros s1 s2 H1 H2.
    pose proof (drive_text _ _ _ _ _ _ Hia Hc1 Hs1 H1) as T1.
    pose proof (drive_text _ _ _ _ _ _ Hib Hc2 Hs2 H2) as T2.
    rewrite (text_firstn _ _ _ Hpa T1), (text_firstn _ _ _ Hpb T2). exact Heq.
Qed.

End FaultRun.

(* ---------- C05 fault_prefix: the two-run law ---------- *)
Theorem fault_prefix_lemma : forall n d k body s1 s2,
  dv_emit_fault d = 0 -> 0 < k ->
  fin_state (run_program n d body) = Some s1 ->
  fin_state (run_program n (with_fault d k) body) = Some s2 ->
  firstn (Z.to_nat (k - 1)) (trace s2) = firstn (Z.to_nat (k - 1)) (trace s1).
Proof.
  intros n d k body s1 s2 Hd Hk H1 H2. symmetry.
  unfold run_program in H1, H2.
  change (init_state (with_fault d k) body) with (fl k (init_state d body)) in H2.
  assert (Hag : agree k (call n [] (VFun 0) [] (init_state d body)) (call n [] (VFun 0) [] (fl k (init_state d body)))).
  { destruct (all_agree_all k Hk n) as [_ [_ [_ [_ [_ [_ [_ [_ [_ [_ [Hc _]]]]]]]]]]]. apply Hc. exact Hd. }
  exact (drive_agree k Hk n [] [] [] [] _ _ Hag (Forall2_nil _) (Forall2_nil _) s1 s2 H1 H2).
Qed.

(* corollaries: a run in which the fault never fires (fewer than k emits) is the fault-free run *)

(* the same law for any single call (in particular a protected call), "up to its return":
   whatever state the call ends in — normally or by an error — under the two switches, the first
   k-1 rows agree; and each run only extended the trace it started from *)
Definition res_state {A} (r : res A) : option state :=
  match r with Ret _ s | Err _ s => Some s | _ => None end.

Lemma agree_state_pref {A} k (r1 r2 : res A) s1 s2 :
  agree k r1 r2 -> res_state r1 = Some s1 -> res_state r2 = Some s2 ->
  firstn (KK k) (trace s1) = firstn (KK k) (trace s2).
Proof.
  intros H H1 H2. destruct H as [a s Hok|v s Hok| |c|e s k1 k2 Hok Hk Hu1 Hu2|r1 r2 sa sb Hpa Hpb Heq Hia Hib];
    simpl in H1, H2; try discriminate.
  - inversion H1; inversion H2; subst. reflexivity.
  - inversion H1; inversion H2; subst. reflexivity.
  - assert (T1 : text sa s1).
    { destruct Hia; simpl in H1; try discriminate; inversion H1; subst; apply sg_text; assumption. }
    assert (T2 : text sb s2).
    { destruct Hib; simpl in H2; try discriminate; inversion H2; subst; apply sg_text; assumption. }
    rewrite (text_firstn _ _ _ Hpa T1), (text_firstn _ _ _ Hpb T2). exact Heq.
Qed.

Theorem call_fault_prefix_lemma : forall n k fr f args s s1 s2,
  dv_emit_fault (dv s) = 0 -> 0 < k ->
  res_state (call n fr f args s) = Some s1 ->
  res_state (call n fr f args (fl k s)) = Some s2 ->
  firstn (Z.to_nat (k - 1)) (trace s2) = firstn (Z.to_nat (k - 1)) (trace s1).
Proof.
  intros n k fr f args s s1 s2 Hd Hk H1 H2. symmetry.
  apply (agree_state_pref k (call n fr f args s) (call n fr f args (fl k s))); auto.
  destruct (all_agree_all k Hk n) as [_ [_ [_ [_ [_ [_ [_ [_ [_ [_ [Hc _]]]]]]]]]]]. apply Hc. exact Hd.
Qed.

(* the simulation itself, for clients: any call from switch-related states yields agree-related
   result trees (lock-step, or diverged inside emit with k-1 common rows) *)
Theorem call_agree_lemma : forall n k fr f args s,
  dv_emit_fault (dv s) = 0 -> 0 < k -> agree k (call n fr f args s) (call n fr f args (fl k s)).
Proof.
  intros n k fr f args s Hd Hk.
  destruct (all_agree_all k Hk n) as [_ [_ [_ [_ [_ [_ [_ [_ [_ [_ [Hc _]]]]]]]]]]]. apply Hc. exact Hd.
Qed.

(* before the k-th emit nothing differs: while the trace is shorter than k-1 rows, emit behaves
   identically under both switches *)
Lemma emit_before_fault_lemma n k fr args s :
  dv_emit_fault (dv s) = 0 -> 0 < k -> len (trace s) + 1 <> k ->
  builtin_call (S n) fr BEmit args s = Ret [] (with_trace s (trace s ++ [args])) /\
  builtin_call (S n) fr BEmit args (fl k s) = Ret [] (fl k (with_trace s (trace s ++ [args]))).
Proof.
  intros Hd Hk Hne. cbn [builtin_call]. cbv beta zeta.
  cbn [fl with_dv with_fault dv dv_emit_fault dv_fault_string trace]. rewrite Hd.
  assert (E : (len (trace s) + 1 =? k) = false) by (apply Z.eqb_neq; exact Hne).
  rewrite E. cbn [Z.ltb Z.compare andb]. rewrite Bool.andb_false_r. split; reflexivity.
Qed.
