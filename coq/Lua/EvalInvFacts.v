(* M-Lua meta-theory: a generic invariant principle for the whole evaluator.
   For any preorder R on states that every primitive store update respects, and any guard GE on
   effects that the three emission sites establish, every result of every evaluator function is
   [inv]: all states it exposes are R-related to the start state, all effects are guarded, and
   the same holds for every continuation from any reply state. Proved by induction on fuel over
   the 20 mutually recursive functions. Instances: coroutine frame (C06), store growth (C03). *)
From Coq Require Import Floats Lia.
From GL Require Import Common.Bytes Lua.Syntax Lua.Num Lua.Values Lua.Names Lua.Eval Str.StrModel
  Lua.ValuesFacts Lua.MonadFacts Lua.EvalStepFacts.

Section Inv.
Variable R : state -> state -> Prop.
Variable GE : effect -> state -> Prop.
Hypothesis R_refl : forall s, R s s.
Hypothesis R_trans : forall s1 s2 s3, R s1 s2 -> R s2 s3 -> R s1 s3.
Hypothesis R_alloc_cell : forall s v, R s (with_cells s (cells s ++ [v])).
Hypothesis R_write_cell : forall s i v, R s (with_cells s (set_nth (cells s) i v)).
Hypothesis R_alloc_tab : forall s t, R s (with_tabs s (tabs s ++ [t])).
Hypothesis R_write_tab : forall s i t, R s (with_tabs s (set_nth (tabs s) i t)).
Hypothesis R_alloc_clo : forall s c, R s (with_clos s (clos s ++ [c])).
Hypothesis R_write_clo : forall s i c, R s (with_clos s (set_nth (clos s) i c)).
Hypothesis R_trace : forall s x, R s (with_trace s (trace s ++ [x])).
Hypothesis R_new_co : forall s f, R s (with_cos s (cos s ++ [CoInit f])).
Hypothesis R_new_ud : forall s u, R s (with_uds s (uds s ++ [u])).
Hypothesis GE_resume : forall s r args w,
  (exists f, nth r (cos s) CoDead = CoInit f) \/ nth r (cos s) CoDead = CoSusp -> GE (EResume r args w) s.
Hypothesis GE_yield : forall s args, cur s <> None -> GE (EYield args) s.

Definition UC (c : Z) : Prop := 0 <= c < 30.

Inductive inv {A} (s0 : state) : res A -> Prop :=
| i_ret a s : R s0 s -> inv s0 (Ret a s)
| i_err v s : R s0 s -> inv s0 (Err v s)
| i_fuel : inv s0 OutOfFuel
| i_unsup c : UC c -> inv s0 (Unsup c)
| i_eff e s k : R s0 s -> GE e s -> (forall rp s', inv s' (k rp s')) -> inv s0 (Eff e s k).

Lemma inv_weaken {A} s0 s1 (r : res A) : R s0 s1 -> inv s1 r -> inv s0 r.
Proof. intros H Hi. destruct Hi; constructor; eauto. Qed.

Lemma inv_bind {A B} s (r : res A) (f : A -> state -> res B) :
  inv s r -> (forall a s', inv s' (f a s')) -> inv s (bind r f).
Proof.
  intros Hr Hf. revert s Hr. induction r; intros s0 Hr; inversion Hr; subst; simpl.
  - eapply inv_weaken; eauto.
  - constructor; auto.
  - constructor.
  - constructor; auto.
  - constructor; auto.
Qed.

Lemma inv_catch {A} s (r : res A) (h : value -> state -> res A) :
  inv s r -> (forall v s', inv s' (h v s')) -> inv s (catch r h).
Proof.
  intros Hr Hh. revert s Hr. induction r; intros s0 Hr; inversion Hr; subst; simpl.
  - constructor; auto.
  - eapply inv_weaken; eauto.
  - constructor.
  - constructor; auto.
  - constructor; auto.
Qed.

Lemma inv_ret_refl {A} (a : A) s : inv s (Ret a s).
Proof. constructor; auto. Qed.
Lemma inv_err_refl {A} v s : inv s (@Err A v s).
Proof. constructor; auto. Qed.

Lemma inv_mapM {A B} (f : A -> M B) (l : list A) :
  (forall a s, inv s (f a s)) -> forall s, inv s (mapM f l s).
Proof.
  intros Hf. induction l as [|a l IH]; intros s; simpl.
  - apply inv_ret_refl.
  - unfold bindM. apply inv_bind; auto. intros b s1. apply inv_bind; auto. intros bs s2. apply inv_ret_refl.
Qed.

Lemma inv_mapM_in {A B} (f : A -> M B) (l : list A) :
  (forall a s, In a l -> inv s (f a s)) -> forall s, inv s (mapM f l s).
Proof.
  induction l as [|a l IH]; intros Hf s; simpl.
  - apply inv_ret_refl.
  - unfold bindM. apply inv_bind; [apply Hf; left; auto|]. intros b s1.
    apply inv_bind; [apply IH; intros; apply Hf; right; auto|]. intros bs s2. apply inv_ret_refl.
Qed.

Lemma inv_eval_list_with one multi es :
  (forall e s, inv s (one e s)) -> (forall e s, inv s (multi e s)) ->
  forall s, inv s (eval_list_with one multi es s).
Proof.
  intros H1 H2. induction es as [|e r IH]; intros s.
  - apply inv_ret_refl.
  - destruct r as [|e' r']; [apply H2|].
    change (eval_list_with one multi (e :: e' :: r') s) with
      (bind (one e s) (fun v => do vs <- eval_list_with one multi (e' :: r'); ret (v :: vs))).
    apply inv_bind; auto. intros v s1. unfold bindM. apply inv_bind; auto. intros vs s2. apply inv_ret_refl.
Qed.

Hint Resolve R_refl R_alloc_cell R_write_cell R_alloc_tab R_write_tab R_alloc_clo R_write_clo R_trace
  R_new_co R_new_ud : invdb.

Lemma UC_lit c : (0 <=? c) && (c <? 30) = true -> UC c.
Proof. unfold UC. intros H. apply andb_prop in H. destruct H as [H1 H2]. apply Z.leb_le in H1. apply Z.ltb_lt in H2. lia. Qed.

(* the work-horse: decompose a goal [inv s (TERM s)] along the monadic structure of TERM *)
Ltac inv_leaf :=
  first [ apply inv_ret_refl | apply inv_err_refl | apply i_fuel
        | apply i_unsup; apply UC_lit; reflexivity
        | apply i_ret; solve [auto with invdb]
        | apply i_err; solve [auto with invdb]
        | solve [auto] ].

Ltac inv_ge :=
  first [ apply GE_resume; first [ left; eexists; eassumption | right; assumption ]
        | apply GE_yield; congruence ].

Ltac inv_tac :=
  repeat (cbv beta zeta;
    lazymatch goal with
    | |- inv _ (bindM _ _ _) => unfold bindM at 1; apply inv_bind; [|intros ? ?]
    | |- inv _ (bind _ _) => apply inv_bind; [|intros ? ?]
    | |- inv _ (catch _ _) => apply inv_catch; [|intros ? ?]
    | |- inv _ (mapM _ _ _) => apply inv_mapM; intros ? ?
    | |- inv _ (eval_list_with _ _ _ _) => apply inv_eval_list_with; intros ? ?
    | |- inv _ (Eff _ _ _) => apply i_eff; [solve [auto with invdb] | inv_ge | intros ? ?]
    | |- inv _ (match ?x with _ => _ end) => destruct x eqn:?
    | |- inv _ (match ?x with _ => _ end _) => destruct x eqn:?
    | |- inv _ (if ?x then _ else _) => destruct x eqn:?
    | |- inv _ ((if ?x then _ else _) _) => destruct x eqn:?
    | |- inv _ _ => inv_leaf
    end).

Definition all_inv (n : nat) : Prop :=
  (forall cx ln en e s, inv s (eval_e n cx ln en e s)) /\
  (forall cx ln en e s, inv s (eval_multi n cx ln en e s)) /\
  (forall fr v k d s, inv s (index n fr v k d s)) /\
  (forall fr v k x d s, inv s (setindex n fr v k x d s)) /\
  (forall fr o a b s, inv s (binop_v n fr o a b s)) /\
  (forall fr a b s, inv s (eq_v n fr a b s)) /\
  (forall fr ev a b s, inv s (order_tm n fr ev a b s)) /\
  (forall fr a b s, inv s (lt_v n fr a b s)) /\
  (forall fr a b s, inv s (le_v n fr a b s)) /\
  (forall fr o a s, inv s (unop_v n fr o a s)) /\
  (forall fr f args s, inv s (call n fr f args s)) /\
  (forall cx en all hist start s, inv s (block n cx en all hist start s)) /\
  (forall cx en st s, inv s (exec n cx en st s)) /\
  (forall cx en ln c body s, inv s (while_loop n cx en ln c body s)) /\
  (forall cx en body ln c s, inv s (repeat_loop n cx en body ln c s)) /\
  (forall cx en x i lim step body s, inv s (numfor_loop n cx en x i lim step body s)) /\
  (forall cx en ln xs f st ctl body s, inv s (genfor_loop n cx en ln xs f st ctl body s)) /\
  (forall fr v s, inv s (tostring_v n fr v s)) /\
  (forall fr b args s, inv s (builtin_call n fr b args s)).

Lemma all_inv_0 : all_inv 0.
Proof. repeat split; intros; apply i_fuel. Qed.

Section Step.
Variable n : nat.
Hypothesis IH : all_inv n.

Let IH_e := proj1 IH.
Let IH_m := proj1 (proj2 IH).
Let IH_index := proj1 (proj2 (proj2 IH)).
Let IH_setindex := proj1 (proj2 (proj2 (proj2 IH))).
Let IH_binop := proj1 (proj2 (proj2 (proj2 (proj2 IH)))).
Let IH_eq := proj1 (proj2 (proj2 (proj2 (proj2 (proj2 IH))))).
Let IH_order := proj1 (proj2 (proj2 (proj2 (proj2 (proj2 (proj2 IH)))))).
Let IH_lt := proj1 (proj2 (proj2 (proj2 (proj2 (proj2 (proj2 (proj2 IH))))))).
Let IH_le := proj1 (proj2 (proj2 (proj2 (proj2 (proj2 (proj2 (proj2 (proj2 IH)))))))).
Let IH_unop := proj1 (proj2 (proj2 (proj2 (proj2 (proj2 (proj2 (proj2 (proj2 (proj2 IH))))))))).
Let IH_call := proj1 (proj2 (proj2 (proj2 (proj2 (proj2 (proj2 (proj2 (proj2 (proj2 (proj2 IH)))))))))).
Let IH_block := proj1 (proj2 (proj2 (proj2 (proj2 (proj2 (proj2 (proj2 (proj2 (proj2 (proj2 (proj2 IH))))))))))).
Let IH_exec := proj1 (proj2 (proj2 (proj2 (proj2 (proj2 (proj2 (proj2 (proj2 (proj2 (proj2 (proj2 (proj2 IH)))))))))))).
Let IH_while := proj1 (proj2 (proj2 (proj2 (proj2 (proj2 (proj2 (proj2 (proj2 (proj2 (proj2 (proj2 (proj2 (proj2 IH))))))))))))).
Let IH_repeat := proj1 (proj2 (proj2 (proj2 (proj2 (proj2 (proj2 (proj2 (proj2 (proj2 (proj2 (proj2 (proj2 (proj2 (proj2 IH)))))))))))))).
Let IH_numfor := proj1 (proj2 (proj2 (proj2 (proj2 (proj2 (proj2 (proj2 (proj2 (proj2 (proj2 (proj2 (proj2 (proj2 (proj2 (proj2 IH))))))))))))))).
Let IH_genfor := proj1 (proj2 (proj2 (proj2 (proj2 (proj2 (proj2 (proj2 (proj2 (proj2 (proj2 (proj2 (proj2 (proj2 (proj2 (proj2 (proj2 IH)))))))))))))))).
Let IH_tostring := proj1 (proj2 (proj2 (proj2 (proj2 (proj2 (proj2 (proj2 (proj2 (proj2 (proj2 (proj2 (proj2 (proj2 (proj2 (proj2 (proj2 (proj2 IH))))))))))))))))).
Let IH_builtin := proj2 (proj2 (proj2 (proj2 (proj2 (proj2 (proj2 (proj2 (proj2 (proj2 (proj2 (proj2 (proj2 (proj2 (proj2 (proj2 (proj2 (proj2 IH))))))))))))))))).

Hint Resolve IH_e IH_m IH_index IH_setindex IH_binop IH_eq IH_order IH_lt IH_le IH_unop IH_call IH_block
  IH_exec IH_while IH_repeat IH_numfor IH_genfor IH_tostring IH_builtin : core.

Ltac prims := unfold getmeta, read_tab, write_tab, alloc_tab, read_cell, write_cell, alloc_cell,
  read_clo, write_clo, alloc_clo, fault, raise, unsup, ret, num_text, opt_int in *.

(* one step of an inner list fixpoint *)
Ltac fix_step := lazy beta iota fix.

Lemma step_index fr v k d s : inv s (index (S n) fr v k d s).
Proof. destruct d; destruct v; cbn [index]; prims; inv_tac. Qed.

Lemma step_setindex fr v k x d s : inv s (setindex (S n) fr v k x d s).
Proof. destruct d; destruct v; cbn [setindex]; prims; inv_tac. Qed.

Lemma step_eval_e cx ln en e s : inv s (eval_e (S n) cx ln en e s).
Proof.
  destruct e; cbn [eval_e]; prims; inv_tac.
  (* table constructor: the inner fixpoint over the items *)
  match goal with |- inv ?s0 (?G items ?i ?s0) =>
    cut (forall (sx : state) (zx : Z), inv sx (G items zx sx)); [intros Hc; apply Hc|] end.
  induction items as [|it items IHits]; intros sy zy.
  - fix_step. inv_tac.
  - revert IHits.
    match goal with |- (forall (sx : state) (zx : Z), inv sx (?G items zx sx)) -> _ =>
      intros IHits; destruct it; fix_step; revert IHits; generalize (G items); intros rec IHrec; prims end;
    inv_tac.
Qed.

Lemma step_eval_multi cx ln en e s : inv s (eval_multi (S n) cx ln en e s).
Proof. destruct e; cbn [eval_multi]; prims; inv_tac. Qed.

Lemma step_binop fr o a b s : inv s (binop_v (S n) fr o a b s).
Proof. destruct o; cbn [binop_v]; prims; inv_tac. Qed.

Lemma step_eq fr a b s : inv s (eq_v (S n) fr a b s).
Proof. cbn [eq_v]; prims; inv_tac. Qed.

Lemma step_order fr ev a b s : inv s (order_tm (S n) fr ev a b s).
Proof. cbn [order_tm]; prims; inv_tac. Qed.

Lemma step_lt fr a b s : inv s (lt_v (S n) fr a b s).
Proof. cbn [lt_v]; prims; inv_tac. Qed.

Lemma step_le fr a b s : inv s (le_v (S n) fr a b s).
Proof. cbn [le_v]; prims; inv_tac. Qed.

Lemma step_unop fr o a s : inv s (unop_v (S n) fr o a s).
Proof. destruct o; cbn [unop_v]; prims; inv_tac. Qed.

Lemma step_call fr f args s : inv s (call (S n) fr f args s).
Proof. destruct f; cbn [call]; prims; inv_tac. Qed.

Lemma step_block_go cx all rest : forall pos en hist s, inv s (block_go n cx all rest pos en hist s).
Proof.
  induction rest as [|st rest IHrest]; intros pos en hist s; cbn [block_go]; prims; inv_tac.
Qed.

Lemma step_block cx en all hist start s : inv s (block (S n) cx en all hist start s).
Proof. rewrite block_step. apply step_block_go. Qed.

Lemma step_exec cx en st s : inv s (exec (S n) cx en st s).
Proof. destruct st; cbn [exec]; prims; inv_tac. Qed.

Lemma step_while cx en ln c body s : inv s (while_loop (S n) cx en ln c body s).
Proof. cbn [while_loop]; prims; inv_tac. Qed.

Lemma step_repeat cx en body ln c s : inv s (repeat_loop (S n) cx en body ln c s).
Proof. cbn [repeat_loop]; prims; inv_tac. Qed.

Lemma step_numfor cx en x i lim step body s : inv s (numfor_loop (S n) cx en x i lim step body s).
Proof. cbn [numfor_loop]; prims; inv_tac. Qed.

Lemma step_genfor cx en ln xs f st ctl body s : inv s (genfor_loop (S n) cx en ln xs f st ctl body s).
Proof. cbn [genfor_loop]; prims; inv_tac. Qed.

Lemma step_tostring fr v s : inv s (tostring_v (S n) fr v s).
Proof. cbn [tostring_v]; prims; inv_tac. Qed.

Lemma step_builtin fr b args s : inv s (builtin_call (S n) fr b args s).
Proof.
  destruct b; cbn [builtin_call]; prims; inv_tac.
  (* math.max / math.min: inner fixpoint over the remaining arguments *)
  all: match goal with |- inv ?s0 (?G ?l ?acc ?s0) =>
    cut (forall (lx : list value) (sx : state) (ax : float), inv sx (G lx ax sx)); [intros Hc; apply Hc|] end.
  all: intros lx; induction lx as [|x lx IHlx]; intros sx ax; fix_step; [inv_tac|destruct x; inv_tac].
Qed.

Lemma all_inv_step : all_inv (S n).
Proof.
  unfold all_inv. repeat split; intros.
  - apply step_eval_e. - apply step_eval_multi. - apply step_index. - apply step_setindex.
  - apply step_binop. - apply step_eq. - apply step_order. - apply step_lt. - apply step_le.
  - apply step_unop. - apply step_call. - apply step_block. - apply step_exec. - apply step_while.
  - apply step_repeat. - apply step_numfor. - apply step_genfor. - apply step_tostring. - apply step_builtin.
Qed.

End Step.

Theorem all_inv_all : forall n, all_inv n.
Proof. induction n as [|n IH]; [apply all_inv_0|apply all_inv_step; exact IH]. Qed.

End Inv.

