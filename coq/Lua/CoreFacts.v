(* M-Lua meta-theory for C01: logical operators, parentheses, conditions, evaluation order of
   multiple assignment, coercion rules. Determinism is definitional: the evaluator is a function. *)
From Coq Require Import Floats Lia.
From GL Require Import Common.Bytes Lua.Syntax Lua.Num Lua.Values Lua.Names Lua.Eval
  Lua.ValuesFacts Lua.TableFacts Lua.MonadFacts Lua.EvalStepFacts Lua.CallFacts.

(* eval_deterministic: two runs of the evaluator on the same input are equal — it is a function *)
Lemma eval_deterministic_lemma n cx ln en e s r1 r2 :
  eval_e n cx ln en e s = r1 -> eval_e n cx ln en e s = r2 -> r1 = r2.
Proof. congruence. Qed.

Lemma exec_deterministic_lemma n cx en st s r1 r2 : exec n cx en st s = r1 -> exec n cx en st s = r2 -> r1 = r2.
Proof. congruence. Qed.

(* ---------- C01 logical_value ---------- *)
Lemma and_value_lemma n cx ln en a b s :
  eval_e (S n) cx ln en (EAnd a b) s =
  bind (eval_e n cx ln en a s) (fun av => if truthy av then eval_e n cx ln en b else ret av).
Proof. reflexivity. Qed.

Lemma or_value_lemma n cx ln en a b s :
  eval_e (S n) cx ln en (EOr a b) s =
  bind (eval_e n cx ln en a s) (fun av => if truthy av then ret av else eval_e n cx ln en b).
Proof. reflexivity. Qed.

(* in big-step form *)
Lemma and_true_lemma n cx ln en a b s av s1 :
  eval_e n cx ln en a s = Ret av s1 -> truthy av = true ->
  eval_e (S n) cx ln en (EAnd a b) s = eval_e n cx ln en b s1.
Proof. intros H Ht. rewrite eval_e_and. unfold bindM. rewrite H. cbn [bind]. rewrite Ht. reflexivity. Qed.

Lemma and_false_lemma n cx ln en a b s av s1 :
  eval_e n cx ln en a s = Ret av s1 -> truthy av = false ->
  eval_e (S n) cx ln en (EAnd a b) s = Ret av s1.
Proof. intros H Ht. rewrite eval_e_and. unfold bindM. rewrite H. cbn [bind]. rewrite Ht. reflexivity. Qed.

Lemma or_true_lemma n cx ln en a b s av s1 :
  eval_e n cx ln en a s = Ret av s1 -> truthy av = true ->
  eval_e (S n) cx ln en (EOr a b) s = Ret av s1.
Proof. intros H Ht. rewrite eval_e_or. unfold bindM. rewrite H. cbn [bind]. rewrite Ht. reflexivity. Qed.

Lemma or_false_lemma n cx ln en a b s av s1 :
  eval_e n cx ln en a s = Ret av s1 -> truthy av = false ->
  eval_e (S n) cx ln en (EOr a b) s = eval_e n cx ln en b s1.
Proof. intros H Ht. rewrite eval_e_or. unfold bindM. rewrite H. cbn [bind]. rewrite Ht. reflexivity. Qed.

Lemma not_value_lemma n cx ln en a s :
  eval_e (S (S n)) cx ln en (EUn ONot a) s =
  bind (eval_e (S n) cx ln en a s) (fun av s1 => Ret (VBool (negb (truthy av))) s1).
Proof. rewrite eval_e_un. unfold bindM. reflexivity. Qed.

(* only nil and false are false *)
Lemma truthy_spec_lemma v : truthy v = false <-> v = VNil \/ v = VBool false.
Proof.
  destruct v as [|[|]| | | | | | | |]; simpl; split; intros H; try discriminate; auto;
    destruct H as [H|H]; discriminate.
Qed.

(* ---------- C01 eparen_single ---------- *)
Lemma eparen_value_lemma n cx ln en a : eval_e (S n) cx ln en (EParen a) = eval_e n cx ln en a.
Proof. reflexivity. Qed.

(* ---------- conditions depend only on the truth value ---------- *)
Lemma cond_equiv_lemma n cx en ln c th el s cv s1 :
  eval_e n cx ln en c s = Ret cv s1 ->
  exec (S n) cx en (SIf ln c th el) s =
  bind (block n cx en (if truthy cv then th else el) [] 0 s1) (fun r s2 => Ret (fst r, en) s2).
Proof. intros H. rewrite exec_if. unfold bindM. rewrite H. reflexivity. Qed.

Lemma cond_same_truth_lemma n cx en ln c c' th el s cv cv' s1 :
  eval_e n cx ln en c s = Ret cv s1 -> eval_e n cx ln en c' s = Ret cv' s1 -> truthy cv = truthy cv' ->
  exec (S n) cx en (SIf ln c th el) s = exec (S n) cx en (SIf ln c' th el) s.
Proof.
  intros H H' Ht. rewrite (cond_equiv_lemma _ _ _ _ _ _ _ _ _ _ H), (cond_equiv_lemma _ _ _ _ _ _ _ _ _ _ H'), Ht.
  reflexivity.
Qed.

Lemma while_cond_lemma n cx en ln c body s cv s1 :
  eval_e n cx ln en c s = Ret cv s1 -> truthy cv = false ->
  while_loop (S n) cx en ln c body s = Ret SigNormal s1.
Proof. intros H Ht. rewrite while_loop_step. unfold bindM. rewrite H. cbn [bind]. rewrite Ht. reflexivity. Qed.

(* ---------- C01 assign_eval_order ---------- *)
(* the one-step unfolding: all left prefixes/keys, then all right-hand sides, then the stores
   from right to left, each storing the adjusted right value of its position *)
Lemma assign_eval_order_lemma n cx en ln lhs es s refs s1 vs s2 :
  mapM (assign_ref n cx ln en) lhs s = Ret refs s1 ->
  eval_list_with (eval_e n cx ln en) (eval_multi n cx ln en) es s1 = Ret vs s2 ->
  exec (S n) cx en (SAssign ln lhs es) s =
  bind (mapM (assign_store n cx ln) (rev (combine refs (adjust (length refs) vs))) s2)
       (fun _ s3 => Ret (SigNormal, en) s3).
Proof.
  intros H1 H2. rewrite exec_assign. unfold bindM at 1. rewrite H1. cbn [bind].
  unfold bindM at 1. rewrite H2. cbn [bind]. reflexivity.
Qed.

(* local targets resolve to their cells without evaluating anything *)
Lemma assign_ref_locals_lemma n cx ln en xs cs s :
  Forall2 (fun x c => lookup en x = Some c) xs cs ->
  mapM (assign_ref n cx ln en) (map EVar xs) s = Ret (map inl cs) s.
Proof.
  intros H. induction H as [|x c xs cs Hx Hr IH]; [reflexivity|].
  cbn [map mapM]. unfold bindM at 1. unfold assign_ref at 1. rewrite Hx. cbn [ret bind].
  unfold bindM at 1. rewrite IH. reflexivity.
Qed.

(* storing into cells: fold of set_nth *)
Definition store_cells (l : list (nat * value)) (cl : list value) : list value :=
  fold_left (fun acc p => set_nth acc (fst p) (snd p)) l cl.

Lemma assign_store_cells_lemma n cx ln (l : list (nat * value)) : forall s,
  mapM (assign_store n cx ln) (map (fun p => (inl (fst p), snd p)) l) s =
  Ret (map (fun _ => tt) l) (with_cells s (store_cells l (cells s))).
Proof.
  induction l as [|[c v] l IH]; intros s.
  - simpl. unfold ret. destruct s; reflexivity.
  - cbn [map mapM]. unfold bindM at 1. unfold assign_store at 1. cbn [fst snd]. unfold write_cell at 1. cbn [bind].
    unfold bindM at 1. rewrite IH. cbn [bind ret cells with_cells store_cells fold_left fst snd]. reflexivity.
Qed.

Lemma store_cells_length_lemma l : forall cl, length (store_cells l cl) = length cl.
Proof.
  induction l as [|[c v] l IH]; intros cl; simpl; auto. unfold store_cells in IH. rewrite IH. apply set_nth_length_lemma.
Qed.

Lemma store_cells_app_lemma l1 l2 cl : store_cells (l1 ++ l2) cl = store_cells l2 (store_cells l1 cl).
Proof. unfold store_cells. apply fold_left_app. Qed.

(* right-to-left stores into distinct cells: cell i gets value i, other cells keep theirs *)
Lemma store_cells_rev_lemma cs : forall vals cl,
  NoDup cs -> length vals = length cs -> (forall c, In c cs -> (c < length cl)%nat) ->
  let cl' := store_cells (rev (combine cs vals)) cl in
  (forall i, (i < length cs)%nat -> nth (nth i cs O) cl' VNil = nth i vals VNil) /\
  (forall j, ~ In j cs -> nth j cl' VNil = nth j cl VNil).
Proof.
  induction cs as [|c cs IH]; intros vals cl Hnd Hlen Hb; cbv zeta.
  - simpl. split; [intros; lia|auto].
  - destruct vals as [|v vals]; [discriminate|]. simpl in Hlen. inversion Hnd as [|? ? Hnin Hnd']; subst.
    cbn [combine rev]. rewrite store_cells_app_lemma. cbn [store_cells fold_left fst snd].
    destruct (IH vals cl Hnd') as [H1 H2]; [lia|intros; apply Hb; right; auto|]. cbv zeta in H1, H2.
    split.
    + intros i Hi. destruct i as [|i]; cbn [nth].
      * apply set_nth_same_lemma. fold (store_cells (rev (combine cs vals)) cl).
        rewrite store_cells_length_lemma. apply Hb. left; auto.
      * rewrite set_nth_other_lemma.
        -- apply H1. simpl in Hi. lia.
        -- intros ->. apply Hnin. apply nth_In. simpl in Hi. lia.
    + intros j Hj. rewrite set_nth_other_lemma.
      * apply H2. intros Hin. apply Hj. right; auto.
      * intros ->. apply Hj. left; auto.
Qed.

(* C01 assign_eval_order for local targets: `x1, ..., xk = e1, ..., em` stores into the cell of
   xi the i-th adjusted right value, all right values computed in the pre-statement store —
   in particular `a, b = b, a` swaps *)
Lemma assign_locals_lemma n cx en ln xs cs es s vs s2 :
  Forall2 (fun x c => lookup en x = Some c) xs cs -> NoDup cs ->
  (forall c, In c cs -> (c < length (cells s2))%nat) ->
  eval_list_with (eval_e n cx ln en) (eval_multi n cx ln en) es s = Ret vs s2 ->
  exists s3, exec (S n) cx en (SAssign ln (map EVar xs) es) s = Ret (SigNormal, en) s3 /\
    (forall i, (i < length cs)%nat -> nth (nth i cs O) (cells s3) VNil = nth i vs VNil) /\
    (forall j, ~ In j cs -> nth j (cells s3) VNil = nth j (cells s2) VNil) /\
    tabs s3 = tabs s2 /\ clos s3 = clos s2 /\ trace s3 = trace s2.
Proof.
  intros Hl Hnd Hb He.
  pose proof (assign_ref_locals_lemma n cx ln en xs cs s Hl) as Hrefs.
  rewrite (assign_eval_order_lemma _ _ _ _ _ _ _ _ _ _ _ Hrefs He).
  rewrite map_length.
  assert (Hcomb : rev (combine (map (@inl nat (value * value)) cs) (adjust (length cs) vs)) =
                  map (fun p : nat * value => (inl (fst p), snd p)) (rev (combine cs (adjust (length cs) vs)))).
  { rewrite map_rev. f_equal. generalize (adjust (length cs) vs). clear.
    induction cs as [|c cs IH]; intros l; simpl; auto. destruct l; simpl; auto. rewrite IH. reflexivity. }
  rewrite Hcomb, assign_store_cells_lemma. cbn [bind].
  eexists. split; [reflexivity|].
  destruct (store_cells_rev_lemma cs (adjust (length cs) vs) (cells s2) Hnd) as [H1 H2];
    [apply adjust_length_lemma|exact Hb|]. cbv zeta in H1, H2.
  cbn [cells tabs clos trace with_cells]. split; [|split; [exact H2|repeat split]].
  intros i Hi. rewrite H1 by auto. apply adjust_nth_lemma; auto.
Qed.

(* ---------- coercion rules ---------- *)
(* == never coerces: a string and a number are different *)
Lemma eq_no_coercion_lemma n fr b f s : eq_v (S n) fr (VStr b) (VNum f) s = Ret false s /\
                                        eq_v (S n) fr (VNum f) (VStr b) s = Ret false s.
Proof. split; reflexivity. Qed.

(* < on a number and a string is an error, not a coercion *)
Lemma lt_mixed_error_lemma n fr b f s :
  lt_v (S n) fr (VNum f) (VStr b) s = Err (VFault 4 (frames_line fr)) s /\
  lt_v (S n) fr (VStr b) (VNum f) s = Err (VFault 4 (frames_line fr)) s.
Proof. split; reflexivity. Qed.

(* arithmetic coerces numeric strings *)
Lemma arith_coerces_strings_lemma n fr o b f y s :
  is_arith o = true -> text_to_f b = PNum f ->
  binop_v (S n) fr o (VStr b) (VNum y) s =
  match arith_op o f y with Some r => Ret (VNum r) s | None => Unsup 1 end.
Proof.
  intros Ho Hb. rewrite binop_arith by auto. unfold tonum. rewrite Hb. destruct (arith_op o f y); reflexivity.
Qed.

(* .. accepts numbers and produces a string *)
Lemma concat_accepts_numbers_lemma n fr b f t s :
  f_to_text f = Some t ->
  binop_v (S n) fr OConcat (VStr b) (VNum f) s = Ret (VStr (b ++ t)) s.
Proof. intros H. rewrite binop_concat. cbn. unfold bindM, num_text. rewrite H. reflexivity. Qed.

(* ---------- goto-free blocks run their statements in order ---------- *)
Lemma block_nil_lemma n cx en s : block (S n) cx en [] [] 0 s = Ret (SigNormal, en) s.
Proof. reflexivity. Qed.

Lemma block_cons_normal_lemma n cx en st rest s en1 s1 :
  exec n cx en st s = Ret (SigNormal, en1) s1 ->
  block (S n) cx en (st :: rest) [] 0 s = block_go n cx (st :: rest) rest 1 en1 [en] s1.
Proof. intros H. rewrite block_step. cbn [skipn block_go]. unfold bindM at 1. rewrite H. reflexivity. Qed.

Lemma block_break_lemma n cx en rest s en1 s1 :
  exec n cx en SBreak s = Ret (SigBreak, en1) s1 ->
  block (S n) cx en (SBreak :: rest) [] 0 s = Ret (SigBreak, en1) s1.
Proof. intros H. rewrite block_step. cbn [skipn block_go]. unfold bindM at 1. rewrite H. reflexivity. Qed.

(* ---------- C01 fuel_mono at the level of the combinators (see the rle lemmas of MonadFacts) ---------- *)
(* statement of full fuel monotonicity of the evaluator, kept as a definition; the combinator
   level (bind/catch/handle preserve "more fuel only refines OutOfFuel") is proved *)
Definition fuel_mono_statement : Prop :=
  forall n cx ln en e s, rle (eval_e n cx ln en e s) (eval_e (S n) cx ln en e s).
