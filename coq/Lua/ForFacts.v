(* M-Lua meta-theory for C01 (wave 5): the operands of a numeric for.
   The statement reads init, limit and step once, in this order, and uses them only through
   [tonum]: a string that is a numeral is the number it denotes, whatever expression, variable or
   call delivered it; anything else is the error "'for' ... must be a number" positioned on the
   line of the statement. (That the loop variable is a fresh cell holding the number of the
   iteration is numfor_fresh_cell_lemma of Lua/ClosureFacts.v, a C03 theorem.) *)
From Coq Require Import Floats List.
Import ListNotations.
From GL Require Import Common.Bytes Lua.Syntax Lua.Num Lua.Values Lua.Names Lua.Eval
  Lua.MonadFacts Lua.EvalStepFacts.

(* the value of the optional step *)
Definition numfor_step (n : nat) (cx : ctx) (ln : Z) (en : env) (c : option expr) : M value :=
  match c with Some ce => eval_e n cx ln en ce | None => ret (VNum 1%float) end.

Lemma tonum_numeral_lemma b f : text_to_f b = PNum f -> tonum (VStr b) = tonum (VNum f).
Proof. intros H. cbn [tonum]. rewrite H. reflexivity. Qed.

Lemma tonum_number_lemma f : tonum (VNum f) = CNum f.
Proof. reflexivity. Qed.

(* big-step unfolding: three evaluations, then a decision that looks at the coerced operands only *)
Lemma numfor_operands_lemma n cx en ln x a b c body s av s1 bv s2 cv s3 :
  eval_e n cx ln en a s = Ret av s1 -> eval_e n cx ln en b s1 = Ret bv s2 ->
  numfor_step n cx ln en c s2 = Ret cv s3 ->
  exec (S n) cx en (SNumFor ln x a b c body) s =
  match tonum av, tonum bv, tonum cv with
  | CNum i, CNum lim, CNum step => bind (numfor_loop n cx en x i lim step body s3) (fun sg s4 => Ret (sg, en) s4)
  | COut, _, _ | _, COut, _ | _, _, COut => Unsup 2
  | _, _, _ => Err (VFault 6 ln) s3
  end.
Proof.
  intros Ha Hb Hc. rewrite exec_numfor. unfold bindM at 1. rewrite Ha. cbn [bind].
  unfold bindM at 1. rewrite Hb. cbn [bind]. unfold bindM at 1. unfold numfor_step in Hc. rewrite Hc. cbn [bind].
  destruct (tonum av), (tonum bv), (tonum cv); reflexivity.
Qed.

(* all three coerce: the loop runs on the numbers *)
Lemma numfor_coerced_lemma n cx en ln x a b c body s av s1 bv s2 cv s3 i lim step :
  eval_e n cx ln en a s = Ret av s1 -> eval_e n cx ln en b s1 = Ret bv s2 ->
  numfor_step n cx ln en c s2 = Ret cv s3 ->
  tonum av = CNum i -> tonum bv = CNum lim -> tonum cv = CNum step ->
  exec (S n) cx en (SNumFor ln x a b c body) s =
  bind (numfor_loop n cx en x i lim step body s3) (fun sg s4 => Ret (sg, en) s4).
Proof.
  intros Ha Hb Hc Ta Tb Tc. rewrite (numfor_operands_lemma _ _ _ _ _ _ _ _ _ _ _ _ _ _ _ _ Ha Hb Hc), Ta, Tb, Tc.
  reflexivity.
Qed.

(* two loops whose operands coerce alike (e.g. "2" and 2, in any position, from any source) are
   the same statement *)
Lemma numfor_same_operands_lemma n cx en ln x a a' b b' c c' body s av av' s1 bv bv' s2 cv cv' s3 :
  eval_e n cx ln en a s = Ret av s1 -> eval_e n cx ln en a' s = Ret av' s1 ->
  eval_e n cx ln en b s1 = Ret bv s2 -> eval_e n cx ln en b' s1 = Ret bv' s2 ->
  numfor_step n cx ln en c s2 = Ret cv s3 -> numfor_step n cx ln en c' s2 = Ret cv' s3 ->
  tonum av = tonum av' -> tonum bv = tonum bv' -> tonum cv = tonum cv' ->
  exec (S n) cx en (SNumFor ln x a b c body) s = exec (S n) cx en (SNumFor ln x a' b' c' body) s.
Proof.
  intros Ha Ha' Hb Hb' Hc Hc' Ta Tb Tc.
  rewrite (numfor_operands_lemma _ _ _ _ _ _ _ _ _ _ _ _ _ _ _ _ Ha Hb Hc),
          (numfor_operands_lemma _ _ _ _ _ _ _ _ _ _ _ _ _ _ _ _ Ha' Hb' Hc'), Ta, Tb, Tc.
  reflexivity.
Qed.

(* literal form: a numeral string written in place of the number, in each of the three positions *)
Lemma numfor_string_literal_lemma n cx en ln x sa sb sc fa fb fc body s :
  text_to_f sa = PNum fa -> text_to_f sb = PNum fb -> text_to_f sc = PNum fc ->
  exec (S (S n)) cx en (SNumFor ln x (EStr sa) (EStr sb) (Some (EStr sc)) body) s =
  exec (S (S n)) cx en (SNumFor ln x (ENum fa) (ENum fb) (Some (ENum fc)) body) s.
Proof.
  intros Ta Tb Tc.
  apply (numfor_same_operands_lemma (S n) cx en ln x (EStr sa) (ENum fa) (EStr sb) (ENum fb) (Some (EStr sc)) (Some (ENum fc)) body
           s (VStr sa) (VNum fa) s (VStr sb) (VNum fb) s (VStr sc) (VNum fc) s);
    try reflexivity; apply tonum_numeral_lemma; assumption.
Qed.

(* an operand that is neither a number nor a numeral: the error of class 6 on the statement's
   line, after all three operands have been evaluated, before any iteration *)
Definition not_out (c : coerced) : Prop := match c with COut => False | _ => True end.

Lemma numfor_bad_operand_lemma n cx en ln x a b c body s av s1 bv s2 cv s3 :
  eval_e n cx ln en a s = Ret av s1 -> eval_e n cx ln en b s1 = Ret bv s2 ->
  numfor_step n cx ln en c s2 = Ret cv s3 ->
  not_out (tonum av) -> not_out (tonum bv) -> not_out (tonum cv) ->
  tonum av = CNo \/ tonum bv = CNo \/ tonum cv = CNo ->
  exec (S n) cx en (SNumFor ln x a b c body) s = Err (VFault 6 ln) s3.
Proof.
  intros Ha Hb Hc Oa Ob Oc Hbad. rewrite (numfor_operands_lemma _ _ _ _ _ _ _ _ _ _ _ _ _ _ _ _ Ha Hb Hc).
  destruct (tonum av), (tonum bv), (tonum cv); cbn in Oa, Ob, Oc; try contradiction; try reflexivity.
  destruct Hbad as [H|[H|H]]; discriminate.
Qed.
