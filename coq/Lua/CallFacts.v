(* M-Lua meta-theory for C02: argument/result adjustment, parameter binding, varargs, the `arg`
   table, expression lists, select and unpack. *)
From Coq Require Import Floats Lia.
From GL Require Import Common.Bytes Lua.Syntax Lua.Num Lua.Values Lua.Names Lua.Eval
  Lua.ValuesFacts Lua.TableFacts Lua.MonadFacts Lua.EvalStepFacts.

(* ---------- allocating a list of cells ---------- *)
Lemma mapM_alloc_cell_lemma vs : forall s,
  mapM alloc_cell vs s = Ret (seq (length (cells s)) (length vs)) (with_cells s (cells s ++ vs)).
Proof.
  induction vs as [|v r IH]; intros s.
  - simpl. unfold ret. rewrite app_nil_r. destruct s; reflexivity.
  - cbn [mapM]. unfold bindM at 1. unfold alloc_cell at 1. cbn [bind]. unfold bindM at 1. rewrite IH. cbn [bind].
    unfold ret. cbn [cells with_cells length]. rewrite app_length. cbn [length].
    rewrite <- app_assoc. cbn [app]. f_equal.
    replace (length (cells s) + 1)%nat with (S (length (cells s))) by lia. reflexivity.
Qed.

(* ---------- callee set-up ---------- *)
Definition ret_of_signal (r : signal * env) : M (list value) :=
  match fst r with
  | SigReturn vs => ret vs
  | SigNormal => ret []
  | _ => unsup 6
  end.

Definition arg_table (va : list value) : tab :=
  mkTab (kv_set (set_seq [] 1 va) (VStr s_n) (vint (len va))) None.

Definition has_arg_table (c : clo) : bool := c_vararg c && negb (c_main c).

(* the state, environment and `...` the body of closure c runs with when called with args *)
Definition callee_varargs (c : clo) (args : list value) : list value :=
  if c_vararg c then skipn (length (c_params c)) args else [].

Definition callee_state (s : state) (c : clo) (args : list value) : state :=
  let np := length (c_params c) in
  let s1 := with_cells s (cells s ++ adjust np args) in
  if has_arg_table c then
    with_cells (with_tabs s1 (tabs s ++ [arg_table (callee_varargs c args)]))
               (cells s ++ adjust np args ++ [VTab (length (tabs s))])
  else s1.

Definition callee_env (s : state) (c : clo) : env :=
  let np := length (c_params c) in
  rev (combine (c_params c) (seq (length (cells s)) np)) ++
  (if has_arg_table c then (s_arg, (length (cells s) + np)%nat) :: c_env c else c_env c).

(* C02 bind_params_spec, part 1: the one-step unfolding of a Lua call in closed form *)
Lemma call_fun_setup_lemma n fr r args s :
  let c := nth r (clos s) dummy_clo in
  call (S n) fr (VFun r) args s =
  bind (block n (mkCtx (callee_varargs c args) fr r) (callee_env s c) (c_body c) [] 0 (callee_state s c args))
       ret_of_signal.
Proof.
  cbv zeta. rewrite call_fun. unfold bindM at 1. unfold read_clo at 1. cbn [bind].
  set (c := nth r (clos s) dummy_clo). cbv zeta.
  unfold bindM at 1. rewrite mapM_alloc_cell_lemma. cbn [bind]. rewrite adjust_length_lemma.
  unfold callee_state, callee_env, callee_varargs, has_arg_table.
  destruct (c_vararg c && negb (c_main c)) eqn:E.
  - unfold bindM at 1. unfold bindM at 1. unfold alloc_tab at 1. cbn [bind]. unfold bindM at 1.
    unfold alloc_cell at 1. cbn [bind ret]. unfold bindM. cbn [cells tabs with_cells with_tabs].
    rewrite app_length, adjust_length_lemma. rewrite <- app_assoc. reflexivity.
  - unfold bindM at 1. cbn [bind ret]. unfold bindM. reflexivity.
Qed.

(* C02 bind_params_spec, part 2: what the set-up binds *)
Lemma bind_params_spec_lemma s c args :
  let np := length (c_params c) in
  let s1 := callee_state s c args in
  (* parameter i lives in the fresh cell number |cells s| + i, which holds argument i or nil *)
  (forall i, (i < np)%nat ->
     nth i (seq (length (cells s)) np) O = (length (cells s) + i)%nat /\
     nth (length (cells s) + i) (cells s1) VNil = nth i args VNil) /\
  (* the caller's cells are untouched *)
  (forall j, (j < length (cells s))%nat -> nth j (cells s1) VNil = nth j (cells s) VNil) /\
  (* `...` is exactly the surplus arguments (none for a non-vararg function) *)
  callee_varargs c args = (if c_vararg c then skipn np args else []) /\
  (* the compatibility table: arg.n = number of varargs, arg[i] = i-th vararg source list *)
  (has_arg_table c = true ->
     nth (length (tabs s)) (tabs s1) empty_tab = arg_table (callee_varargs c args) /\
     kv_get (t_kv (arg_table (callee_varargs c args))) (VStr s_n) = vint (len (callee_varargs c args)) /\
     nth (length (cells s) + np) (cells s1) VNil = VTab (length (tabs s))) /\
  clos s1 = clos s /\ cos s1 = cos s /\ cur s1 = cur s /\ trace s1 = trace s.
Proof.
  cbv zeta. unfold callee_state.
  split; [|split; [|split; [reflexivity|split]]].
  - intros i Hi. split; [apply seq_nth; auto|].
    destruct (has_arg_table c); cbn [cells with_cells with_tabs].
    + rewrite app_nth2 by lia. replace (length (cells s) + i - length (cells s))%nat with i by lia.
      rewrite app_nth1 by (rewrite adjust_length_lemma; auto). apply adjust_nth_lemma; auto.
    + rewrite app_nth2 by lia. replace (length (cells s) + i - length (cells s))%nat with i by lia.
      apply adjust_nth_lemma; auto.
  - intros j Hj. destruct (has_arg_table c); cbn [cells with_cells with_tabs]; apply app_nth1; auto.
  - intros H. rewrite H. cbn [cells tabs with_cells with_tabs]. split; [|split].
    + rewrite app_nth2 by lia. rewrite Nat.sub_diag. reflexivity.
    + unfold arg_table. cbn [t_kv]. apply kv_get_set_same_lemma; reflexivity.
    + rewrite app_nth2 by lia. rewrite app_nth2 by (rewrite adjust_length_lemma; lia).
      rewrite adjust_length_lemma.
      replace (length (cells s) + length (c_params c) - length (cells s) - length (c_params c))%nat with O by lia.
      reflexivity.
  - destruct (has_arg_table c); repeat split.
Qed.

(* ---------- expression lists ---------- *)
(* C02 eval_list_with_spec: all but the last expression contribute exactly one value, the last
   all of its values; evaluation is left to right, threading the state *)
Inductive evals_seq (one : expr -> M value) : list expr -> state -> list value -> state -> Prop :=
| es_nil s : evals_seq one [] s [] s
| es_cons e r s v s1 vs s2 : one e s = Ret v s1 -> evals_seq one r s1 vs s2 -> evals_seq one (e :: r) s (v :: vs) s2.

Lemma eval_list_with_nil_lemma one multi s : eval_list_with one multi [] s = Ret [] s.
Proof. reflexivity. Qed.

Lemma eval_list_with_last_lemma one multi e : eval_list_with one multi [e] = multi e.
Proof. reflexivity. Qed.

Lemma eval_list_with_cons_lemma one multi e e' r :
  eval_list_with one multi (e :: e' :: r) =
  (do v <- one e; do vs <- eval_list_with one multi (e' :: r); ret (v :: vs)).
Proof. reflexivity. Qed.

Lemma eval_list_with_spec_lemma one multi init last s vs s1 l s2 :
  evals_seq one init s vs s1 -> multi last s1 = Ret l s2 ->
  eval_list_with one multi (init ++ [last]) s = Ret (vs ++ l) s2.
Proof.
  intros H; revert l s2. induction H as [s|e r s v s1 vs s2 He Hr IH]; intros l s3 Hl.
  - simpl. exact Hl.
  - destruct r as [|e' r'].
    + inversion Hr; subst. simpl. unfold bindM. rewrite He. cbn [bind]. rewrite Hl. reflexivity.
    + change ((e :: e' :: r') ++ [last]) with (e :: e' :: (r' ++ [last])).
      rewrite eval_list_with_cons_lemma. unfold bindM at 1. rewrite He. cbn [bind].
      unfold bindM at 1. change (e' :: r' ++ [last]) with ((e' :: r') ++ [last]). rewrite (IH _ _ Hl). reflexivity.
Qed.

(* an error or suspension in the i-th expression stops the list there: later expressions are not
   evaluated (their evaluators do not occur in the result) *)
Lemma eval_list_with_err_lemma one multi init e rest s vs s1 v s2 :
  evals_seq one init s vs s1 -> rest <> [] -> one e s1 = Err v s2 ->
  eval_list_with one multi (init ++ e :: rest) s = Err v s2.
Proof.
  intros H; revert v s2. induction H as [s|e0 r s v0 s1 vs s2 He Hr IH]; intros v s3 Hne Hl.
  - destruct rest as [|e' r']; [contradiction|]. simpl app. rewrite eval_list_with_cons_lemma.
    unfold bindM. rewrite Hl. reflexivity.
  - assert (Hshape : exists e1 r1, r ++ e :: rest = e1 :: r1).
    { destruct r; simpl; eauto. }
    destruct Hshape as [e1 [r1 Hs]]. simpl app. rewrite Hs. rewrite eval_list_with_cons_lemma. rewrite <- Hs.
    unfold bindM at 1. rewrite He. cbn [bind]. unfold bindM at 1. rewrite (IH _ _ Hne Hl). reflexivity.
Qed.

(* value-count law over arbitrary (also failing/suspending) sub-evaluations, up to [req]:
   eval_list_with = mapM one on the initial segment, then multi on the last *)
Lemma eval_list_with_mapM_lemma one multi init last s :
  req (eval_list_with one multi (init ++ [last]) s)
      (bind (mapM one init s) (fun vs s1 => bind (multi last s1) (fun l s2 => Ret (vs ++ l) s2))).
Proof.
  revert s. induction init as [|e r IH]; intros s.
  - simpl. apply req_sym_lemma. apply bind_ret_r_lemma.
  - assert (Hs : exists e1 r1, r ++ [last] = e1 :: r1) by (destruct r; simpl; eauto).
    destruct Hs as [e1 [r1 Hs]]. simpl app. rewrite Hs, eval_list_with_cons_lemma, <- Hs.
    cbn [mapM]. unfold bindM.
    eapply req_trans_lemma; [|apply req_sym_lemma; apply bind_assoc_lemma].
    apply bind_req_lemma; [apply req_refl_lemma|]. intros v s1.
    eapply req_trans_lemma; [|apply req_sym_lemma; apply bind_assoc_lemma].
    eapply req_trans_lemma; [apply bind_req_lemma; [apply IH|intros; apply req_refl_lemma]|].
    eapply req_trans_lemma; [apply bind_assoc_lemma|].
    apply bind_req_lemma; [apply req_refl_lemma|]. intros vs s2. cbn [bind ret].
    eapply req_trans_lemma; [apply bind_assoc_lemma|].
    apply bind_req_lemma; [apply req_refl_lemma|]. intros l s3. apply req_refl_lemma.
Qed.

(* a parenthesised or non-call expression in last position yields exactly one value *)
Lemma eval_multi_single_value_lemma n cx ln en e s v s1 :
  is_multi e = false -> eval_e n cx ln en e s = Ret v s1 -> eval_multi (S n) cx ln en e s = Ret [v] s1.
Proof. intros H He. rewrite eval_multi_single by auto. unfold bindM. rewrite He. reflexivity. Qed.

Lemma eparen_truncates_lemma n cx ln en e s :
  eval_multi (S (S n)) cx ln en (EParen e) s = bind (eval_e n cx ln en e s) (fun v s1 => Ret [v] s1).
Proof. rewrite eval_multi_single by reflexivity. unfold bindM. rewrite eval_e_paren. reflexivity. Qed.

(* a call in single-value position is truncated to its first value (nil if none) *)
Lemma call_single_value_lemma n cx ln en f args s :
  eval_e (S n) cx ln en (ECall f args) s = bind (eval_multi n cx ln en (ECall f args) s) (fun vs s1 => Ret (first vs) s1).
Proof. reflexivity. Qed.

(* `...` in last position is all varargs, elsewhere the first *)
Lemma varargs_multi_lemma n cx ln en s : eval_multi (S n) cx ln en EVarargs s = Ret (cx_va cx) s.
Proof. reflexivity. Qed.
Lemma varargs_single_lemma n cx ln en s : eval_e (S n) cx ln en EVarargs s = Ret (first (cx_va cx)) s.
Proof. reflexivity. Qed.

(* method call sugar: the receiver is evaluated once and passed as first argument *)
Lemma meth_call_lemma n cx ln en o m args s :
  eval_multi (S n) cx ln en (EMeth o m args) s =
  bind (eval_e n cx ln en o s) (fun ov =>
    do fv <- index n (here cx ln) ov (VStr m) 100;
    do avs <- eval_list_with (eval_e n cx ln en) (eval_multi n cx ln en) args;
    call n (here cx ln) fv (ov :: avs)).
Proof. reflexivity. Qed.

(* ---------- select ---------- *)
Lemma select_hash_lemma n fr rest s :
  builtin_call (S n) fr BSelect (VStr s_hash :: rest) s = Ret [vint (len rest)] s.
Proof. reflexivity. Qed.

(* C02 select_spec *)
Lemma select_pos_lemma n fr f z rest s :
  f_to_Z f = Some z -> 0 < z ->
  builtin_call (S n) fr BSelect (VNum f :: rest) s = Ret (skipn (Z.to_nat (z - 1)) rest) s.
Proof.
  intros Hf Hz. cbn [builtin_call nth tl]. rewrite Hf.
  assert (E1 : (z <? 0) = false) by (apply Z.ltb_ge; lia).
  assert (E2 : (z =? 0) = false) by (apply Z.eqb_neq; lia).
  rewrite E1, E2. reflexivity.
Qed.

Lemma select_neg_lemma n fr f z rest s :
  f_to_Z f = Some z -> z < 0 -> 0 <= len rest + z ->
  builtin_call (S n) fr BSelect (VNum f :: rest) s = Ret (skipn (Z.to_nat (len rest + z)) rest) s.
Proof.
  intros Hf Hz Hl. cbn [builtin_call nth tl]. rewrite Hf.
  assert (E1 : (z <? 0) = true) by (apply Z.ltb_lt; lia).
  assert (E2 : (len rest + z <? 0) = false) by (apply Z.ltb_ge; lia).
  rewrite E1, E2. reflexivity.
Qed.

Lemma select_zero_lemma n fr f rest s :
  f_to_Z f = Some 0 -> builtin_call (S n) fr BSelect (VNum f :: rest) s = Err (VFault 6 (frames_line fr)) s.
Proof. intros Hf. cbn [builtin_call nth tl]. rewrite Hf. reflexivity. Qed.

Lemma skipn_nth_lemma {A} (l : list A) k i d : nth i (skipn k l) d = nth (k + i) l d.
Proof.
  revert l; induction k as [|k IH]; intros l; simpl; auto. destruct l; simpl; auto. destruct i; reflexivity.
Qed.

(* select(k, ...) returns the arguments from the k-th on: result i is argument k+i *)
Lemma select_nth_lemma n fr f z rest s i :
  f_to_Z f = Some z -> 0 < z ->
  exists vs, builtin_call (S n) fr BSelect (VNum f :: rest) s = Ret vs s /\
             nth i vs VNil = nth (Z.to_nat (z - 1) + i) rest VNil /\
             length vs = (length rest - Z.to_nat (z - 1))%nat.
Proof.
  intros Hf Hz. eexists. split; [apply select_pos_lemma; eauto|]. split.
  - apply skipn_nth_lemma.
  - apply skipn_length.
Qed.

(* ---------- unpack ---------- *)
Lemma seq_get_length_lemma kv i cnt : length (seq_get kv i cnt) = cnt.
Proof. revert i; induction cnt as [|c IH]; intros i; simpl; auto. Qed.

Lemma seq_get_nth_lemma kv i cnt j : (j < cnt)%nat -> nth j (seq_get kv i cnt) VNil = kv_get kv (vint (i + Z.of_nat j)).
Proof.
  revert i j; induction cnt as [|c IH]; intros i j Hj; [lia|]. destruct j as [|j]; simpl.
  - rewrite Z.add_0_r. reflexivity.
  - rewrite IH by lia. f_equal. f_equal. lia.
Qed.

(* C02 unpack_spec: unpack(t, i, j) returns exactly t[i], ..., t[j] (raw), j-i+1 values *)
Lemma unpack_spec_lemma n fr r fi fj i j rest s :
  f_to_Z fi = Some i -> f_to_Z fj = Some j -> j - i <= 100000 ->
  let kv := t_kv (nth r (tabs s) empty_tab) in
  builtin_call (S n) fr BUnpack (VTab r :: VNum fi :: VNum fj :: rest) s =
    Ret (seq_get kv i (Z.to_nat (j - i + 1))) s /\
  length (seq_get kv i (Z.to_nat (j - i + 1))) = Z.to_nat (j - i + 1) /\
  (forall k, (k < Z.to_nat (j - i + 1))%nat ->
     nth k (seq_get kv i (Z.to_nat (j - i + 1))) VNil = kv_get kv (vint (i + Z.of_nat k))).
Proof.
  intros Hi Hj Hle. cbv zeta. split; [|split].
  - cbn [builtin_call nth]. unfold bindM at 1. unfold read_tab at 1. cbn [bind].
    unfold bindM at 1. unfold opt_int at 1. rewrite Hi. cbn [ret bind].
    unfold bindM at 1. unfold opt_int at 1. rewrite Hj. cbn [ret bind].
    assert (E : (j - i >? 100000) = false) by (rewrite Z.gtb_ltb; apply Z.ltb_ge; lia).
    rewrite E. reflexivity.
  - apply seq_get_length_lemma.
  - intros k Hk. apply seq_get_nth_lemma. exact Hk.
Qed.

(* defaults: unpack(t) = unpack(t, 1, #t) when the border is unique *)
Lemma unpack_default_lemma n fr r s :
  let kv := t_kv (nth r (tabs s) empty_tab) in
  border_unique kv = true -> border kv - 1 <= 100000 ->
  builtin_call (S n) fr BUnpack [VTab r] s = Ret (seq_get kv 1 (Z.to_nat (border kv))) s.
Proof.
  cbv zeta. intros Hb Hle. cbn [builtin_call nth]. unfold bindM at 1. unfold read_tab at 1. cbn [bind].
  unfold bindM at 1. cbn [opt_int ret bind]. unfold bindM at 1. rewrite Hb. cbn [ret bind].
  assert (E : (border (t_kv (nth r (tabs s) empty_tab)) - 1 >? 100000) = false) by (rewrite Z.gtb_ltb; apply Z.ltb_ge; lia).
  rewrite E. replace (border (t_kv (nth r (tabs s) empty_tab)) - 1 + 1) with (border (t_kv (nth r (tabs s) empty_tab))) by lia.
  reflexivity.
Qed.

(* C02 adjust_spec *)
Lemma adjust_spec_full_lemma : forall n vs,
  length (adjust n vs) = n /\ forall i, (i < n)%nat -> nth i (adjust n vs) VNil = nth i vs VNil.
Proof. intros n vs. split; [apply adjust_length_lemma|intros i Hi; apply adjust_nth_lemma; auto]. Qed.
