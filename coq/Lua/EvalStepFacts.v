(* M-Lua meta-theory: one-step unfolding equations of the big mutual fixpoint of Eval.v.
   Each is the defining clause of the evaluator for one syntactic form, proved by conversion
   ([reflexivity]); everything else about the evaluator is derived from these. The evaluator is a
   Gallina function: determinism ("the reference result is unique") is definitional. *)
From Coq Require Import Floats.
From GL Require Import Common.Bytes Lua.Syntax Lua.Num Lua.Values Lua.Names Lua.Eval.

(* ---------- zero fuel ---------- *)
Lemma eval_e_0 cx ln en e s : eval_e 0 cx ln en e s = OutOfFuel. Proof. reflexivity. Qed.
Lemma eval_multi_0 cx ln en e s : eval_multi 0 cx ln en e s = OutOfFuel. Proof. reflexivity. Qed.
Lemma call_0 fr f args s : call 0 fr f args s = OutOfFuel. Proof. reflexivity. Qed.
Lemma exec_0 cx en st s : exec 0 cx en st s = OutOfFuel. Proof. reflexivity. Qed.
Lemma block_0 cx en all h st s : block 0 cx en all h st s = OutOfFuel. Proof. reflexivity. Qed.
Lemma builtin_call_0 fr b args s : builtin_call 0 fr b args s = OutOfFuel. Proof. reflexivity. Qed.

(* ---------- expressions ---------- *)
Lemma eval_e_nil n cx ln en : eval_e (S n) cx ln en ENil = ret VNil. Proof. reflexivity. Qed.
Lemma eval_e_true n cx ln en : eval_e (S n) cx ln en ETrue = ret (VBool true). Proof. reflexivity. Qed.
Lemma eval_e_false n cx ln en : eval_e (S n) cx ln en EFalse = ret (VBool false). Proof. reflexivity. Qed.
Lemma eval_e_num n cx ln en f : eval_e (S n) cx ln en (ENum f) = ret (VNum f). Proof. reflexivity. Qed.
Lemma eval_e_str n cx ln en b : eval_e (S n) cx ln en (EStr b) = ret (VStr b). Proof. reflexivity. Qed.
Lemma eval_e_varargs n cx ln en : eval_e (S n) cx ln en EVarargs = ret (first (cx_va cx)). Proof. reflexivity. Qed.

Lemma eval_e_var n cx ln en x :
  eval_e (S n) cx ln en (EVar x) =
  match lookup en x with
  | Some c => read_cell c
  | None => do c <- read_clo (cx_clo cx); index n (here cx ln) (VTab (c_fenv c)) (VStr x) 100
  end.
Proof. reflexivity. Qed.

Lemma eval_e_index n cx ln en a k :
  eval_e (S n) cx ln en (EIndex a k) =
  (do av <- eval_e n cx ln en a; do kv <- eval_e n cx ln en k; index n (here cx ln) av kv 100).
Proof. reflexivity. Qed.

Lemma eval_e_call n cx ln en f args :
  eval_e (S n) cx ln en (ECall f args) = (do vs <- eval_multi n cx ln en (ECall f args); ret (first vs)).
Proof. reflexivity. Qed.

Lemma eval_e_meth n cx ln en o m args :
  eval_e (S n) cx ln en (EMeth o m args) = (do vs <- eval_multi n cx ln en (EMeth o m args); ret (first vs)).
Proof. reflexivity. Qed.

Lemma eval_e_func n cx ln en ps va body l1 l2 :
  eval_e (S n) cx ln en (EFunc ps va body l1 l2) =
  (do c <- read_clo (cx_clo cx);
   do r <- alloc_clo (mkClo ps va body en (c_fenv c) l1 false); ret (VFun r)).
Proof. reflexivity. Qed.

(* a local variable that is the left operand of a non-concatenation operator is read late *)
Definition bin_late (en : env) (o : binop) (a : expr) : option nat :=
  match o, a with
  | OConcat, _ => None
  | _, EVar x => lookup en x
  | _, _ => None
  end.

Lemma eval_e_bin n cx ln en o a b :
  eval_e (S n) cx ln en (EBin o a b) =
  match bin_late en o a with
  | Some c => do bv <- eval_e n cx ln en b; do av <- read_cell c; binop_v n (here cx ln) o av bv
  | None => do av <- eval_e n cx ln en a; do bv <- eval_e n cx ln en b; binop_v n (here cx ln) o av bv
  end.
Proof. reflexivity. Qed.

Lemma eval_e_bin_early n cx ln en o a b : bin_late en o a = None ->
  eval_e (S n) cx ln en (EBin o a b) =
  (do av <- eval_e n cx ln en a; do bv <- eval_e n cx ln en b; binop_v n (here cx ln) o av bv).
Proof. intros H. rewrite eval_e_bin, H. reflexivity. Qed.

Lemma eval_e_un n cx ln en o a :
  eval_e (S n) cx ln en (EUn o a) = (do av <- eval_e n cx ln en a; unop_v n (here cx ln) o av).
Proof. reflexivity. Qed.

Lemma eval_e_and n cx ln en a b :
  eval_e (S n) cx ln en (EAnd a b) =
  (do av <- eval_e n cx ln en a; if truthy av then eval_e n cx ln en b else ret av).
Proof. reflexivity. Qed.

Lemma eval_e_or n cx ln en a b :
  eval_e (S n) cx ln en (EOr a b) =
  (do av <- eval_e n cx ln en a; if truthy av then ret av else eval_e n cx ln en b).
Proof. reflexivity. Qed.

Lemma eval_e_paren n cx ln en a : eval_e (S n) cx ln en (EParen a) = eval_e n cx ln en a.
Proof. reflexivity. Qed.

(* ---------- multi-value expressions ---------- *)
Lemma eval_multi_call n cx ln en f args :
  eval_multi (S n) cx ln en (ECall f args) =
  (do fv <- eval_e n cx ln en f;
   do avs <- eval_list_with (eval_e n cx ln en) (eval_multi n cx ln en) args;
   call n (here cx ln) fv avs).
Proof. reflexivity. Qed.

Lemma eval_multi_meth n cx ln en o m args :
  eval_multi (S n) cx ln en (EMeth o m args) =
  (do ov <- eval_e n cx ln en o;
   do fv <- index n (here cx ln) ov (VStr m) 100;
   do avs <- eval_list_with (eval_e n cx ln en) (eval_multi n cx ln en) args;
   call n (here cx ln) fv (ov :: avs)).
Proof. reflexivity. Qed.

Lemma eval_multi_varargs n cx ln en : eval_multi (S n) cx ln en EVarargs = ret (cx_va cx).
Proof. reflexivity. Qed.

Definition is_multi (e : expr) : bool :=
  match e with ECall _ _ | EMeth _ _ _ | EVarargs => true | _ => false end.

Lemma eval_multi_single n cx ln en e : is_multi e = false ->
  eval_multi (S n) cx ln en e = (do v <- eval_e n cx ln en e; ret [v]).
Proof. destruct e; simpl; intros H; try discriminate; reflexivity. Qed.

(* ---------- gettable / settable ---------- *)
Lemma index_depth0 n fr v k : index (S n) fr v k 0 = fault 1 (frames_line fr). Proof. reflexivity. Qed.

Lemma index_tab n fr r k d :
  index (S n) fr (VTab r) k (S d) =
  (do t <- read_tab r;
   let raw := kv_get (t_kv t) k in
   if negb (is_nil raw) then ret raw else
   do h <- getmeta (VTab r) s_mm_index;
   match h with
   | VNil => ret VNil
   | VFun _ | VBuiltin _ => do vs <- call n fr h [VTab r; k]; ret (first vs)
   | _ => index n fr h k d
   end).
Proof. reflexivity. Qed.

Definition is_tab (v : value) : bool := match v with VTab _ => true | _ => false end.

Lemma index_nontab n fr v k d : is_tab v = false ->
  index (S n) fr v k (S d) =
  (do h <- getmeta v s_mm_index;
   match h with
   | VNil => fault 1 (frames_line fr)
   | VFun _ | VBuiltin _ => do vs <- call n fr h [v; k]; ret (first vs)
   | _ => index n fr h k d
   end).
Proof. destruct v; simpl; intros H; try discriminate; reflexivity. Qed.

Lemma setindex_depth0 n fr v k x : setindex (S n) fr v k x 0 = fault 1 (frames_line fr). Proof. reflexivity. Qed.

Lemma setindex_tab n fr r k x d :
  setindex (S n) fr (VTab r) k x (S d) =
  (do t <- read_tab r;
   let raw := kv_get (t_kv t) k in
   do h <- (if negb (is_nil raw) then ret VNil else getmeta (VTab r) s_mm_newindex);
   match h with
   | VNil =>
       match k with
       | VNil => fault 6 (frames_line fr)
       | VNum f => if PrimFloat.eqb f f then write_tab r (mkTab (kv_set (t_kv t) k x) (t_meta t))
                   else fault 6 (frames_line fr)
       | _ => write_tab r (mkTab (kv_set (t_kv t) k x) (t_meta t))
       end
   | VFun _ | VBuiltin _ => do _ <- call n fr h [VTab r; k; x]; ret tt
   | _ => setindex n fr h k x d
   end).
Proof. reflexivity. Qed.

Lemma setindex_nontab n fr v k x d : is_tab v = false ->
  setindex (S n) fr v k x (S d) =
  (do h <- getmeta v s_mm_newindex;
   match h with
   | VNil => fault 1 (frames_line fr)
   | VFun _ | VBuiltin _ => do _ <- call n fr h [v; k; x]; ret tt
   | _ => setindex n fr h k x d
   end).
Proof. destruct v; simpl; intros H; try discriminate; reflexivity. Qed.

(* ---------- operators ---------- *)
Definition is_arith (o : binop) : bool :=
  match o with OAdd | OSub | OMul | ODiv | OMod | OPow => true | _ => false end.

Lemma binop_arith n fr o a b : is_arith o = true ->
  binop_v (S n) fr o a b =
  match tonum a, tonum b with
  | CNum x, CNum y => match arith_op o x y with Some r => ret (VNum r) | None => unsup 1 end
  | COut, _ | _, COut => unsup 2
  | _, _ =>
      do h1 <- getmeta a (arith_event o);
      do h <- (if is_nil h1 then getmeta b (arith_event o) else ret h1);
      if is_nil h then fault 2 (frames_line fr)
      else do vs <- call n fr h [a; b]; ret (first vs)
  end.
Proof. destruct o; simpl; intros H; try discriminate; reflexivity. Qed.

Lemma binop_concat n fr a b :
  binop_v (S n) fr OConcat a b =
  (let strnum v := match v with VStr _ | VNum _ => true | _ => false end in
   if strnum a && strnum b then
     do x <- (match a with VStr s => ret s | VNum f => num_text f | _ => ret [] end);
     do y <- (match b with VStr s => ret s | VNum f => num_text f | _ => ret [] end);
     ret (VStr (x ++ y))
   else
     match a, b with
     | VFault _ _, _ | _, VFault _ _ => unsup 3
     | _, _ =>
       do h1 <- getmeta a s_mm_concat;
       do h <- (if is_nil h1 then getmeta b s_mm_concat else ret h1);
       if is_nil h then fault 5 (frames_line fr)
       else do vs <- call n fr h [a; b]; ret (first vs)
     end).
Proof. reflexivity. Qed.

Lemma binop_eq n fr a b : binop_v (S n) fr OEq a b = (do r <- eq_v n fr a b; ret (VBool r)). Proof. reflexivity. Qed.
Lemma binop_ne n fr a b : binop_v (S n) fr ONe a b = (do r <- eq_v n fr a b; ret (VBool (negb r))). Proof. reflexivity. Qed.
Lemma binop_lt n fr a b : binop_v (S n) fr OLt a b = (do r <- lt_v n fr a b; ret (VBool r)). Proof. reflexivity. Qed.
Lemma binop_le n fr a b : binop_v (S n) fr OLe a b = (do r <- le_v n fr a b; ret (VBool r)). Proof. reflexivity. Qed.
Lemma binop_gt n fr a b : binop_v (S n) fr OGt a b = (do r <- lt_v n fr b a; ret (VBool r)). Proof. reflexivity. Qed.
Lemma binop_ge n fr a b : binop_v (S n) fr OGe a b = (do r <- le_v n fr b a; ret (VBool r)). Proof. reflexivity. Qed.

Lemma eq_v_step n fr a b :
  eq_v (S n) fr a b =
  if raweq a b then ret true else
  match a, b with
  | VTab _, VTab _ | VUd _, VUd _ =>
      do h1 <- getmeta a s_mm_eq; do h2 <- getmeta b s_mm_eq;
      if negb (is_nil h1) && raweq h1 h2 then do vs <- call n fr h1 [a; b]; ret (truthy (first vs))
      else ret false
  | _, _ => ret false
  end.
Proof. reflexivity. Qed.

Lemma order_tm_step n fr ev a b :
  order_tm (S n) fr ev a b =
  (do h1 <- getmeta a ev;
   if is_nil h1 then ret None else
   do h2 <- getmeta b ev;
   if raweq h1 h2 then do vs <- call n fr h1 [a; b]; ret (Some (truthy (first vs))) else ret None).
Proof. reflexivity. Qed.

Lemma lt_v_step n fr a b :
  lt_v (S n) fr a b =
  match a, b with
  | VNum x, VNum y => ret (PrimFloat.ltb x y)
  | VStr x, VStr y => ret (bytes_ltb x y)
  | VFault _ _, _ | _, VFault _ _ => unsup 4
  | _, _ =>
      if negb (beqb (tyname a) (tyname b)) then fault 4 (frames_line fr) else
      do r <- order_tm n fr s_mm_lt a b;
      match r with Some t => ret t | None => fault 4 (frames_line fr) end
  end.
Proof. reflexivity. Qed.

Lemma le_v_step n fr a b :
  le_v (S n) fr a b =
  match a, b with
  | VNum x, VNum y => ret (PrimFloat.leb x y)
  | VStr x, VStr y => ret (negb (bytes_ltb y x))
  | VFault _ _, _ | _, VFault _ _ => unsup 4
  | _, _ =>
      if negb (beqb (tyname a) (tyname b)) then fault 4 (frames_line fr) else
      do r <- order_tm n fr s_mm_le a b;
      match r with
      | Some t => ret t
      | None => do r2 <- order_tm n fr s_mm_lt b a;
                match r2 with Some t => ret (negb t) | None => fault 4 (frames_line fr) end
      end
  end.
Proof. reflexivity. Qed.

Lemma unop_not n fr a : unop_v (S n) fr ONot a = ret (VBool (negb (truthy a))). Proof. reflexivity. Qed.

Lemma unop_neg n fr a :
  unop_v (S n) fr ONeg a =
  match tonum a with
  | CNum x => ret (VNum (- x)%float)
  | COut => unsup 2
  | CNo => do h <- getmeta a s_mm_unm;
           if is_nil h then fault 2 (frames_line fr) else do vs <- call n fr h [a; a]; ret (first vs)
  end.
Proof. reflexivity. Qed.

(* ---------- calls ---------- *)
Lemma call_fun n fr r args :
  call (S n) fr (VFun r) args =
  (do c <- read_clo r;
   let np := length (c_params c) in
   do cs <- mapM alloc_cell (adjust np args);
   let va := if c_vararg c then skipn np args else [] in
   do en0 <- (if c_vararg c && negb (c_main c) then
                do tr <- alloc_tab (mkTab (kv_set (set_seq [] 1 va) (VStr s_n) (vint (len va))) None);
                do ac <- alloc_cell (VTab tr); ret ((s_arg, ac) :: c_env c)
              else ret (c_env c));
   let en := rev (combine (c_params c) cs) ++ en0 in
   do r <- block n (mkCtx va fr r) en (c_body c) [] 0;
   match fst r with
   | SigReturn vs => ret vs
   | SigNormal => ret []
   | _ => unsup 6
   end).
Proof. reflexivity. Qed.

Lemma call_builtin n fr b args : call (S n) fr (VBuiltin b) args = builtin_call n fr b args.
Proof. reflexivity. Qed.

Definition is_fun_or_builtin (v : value) : bool := match v with VFun _ | VBuiltin _ => true | _ => false end.

Lemma call_other n fr f args : is_fun_or_builtin f = false ->
  call (S n) fr f args =
  (do h <- getmeta f s_mm_call;
   if is_nil h then fault 3 (frames_line fr) else call n fr h (f :: args)).
Proof. destruct f; simpl; intros H; try discriminate; reflexivity. Qed.

(* ---------- blocks ---------- *)
Section BlockGo.
Variables (n : nat) (cx : ctx) (all : list stmt).
Fixpoint block_go (rest : list stmt) (pos : nat) (en : env) (hist : list env) {struct rest}
  : M (signal * env) :=
  match rest with
  | [] => ret (SigNormal, en)
  | st :: rest' =>
      do r <- exec n cx en st;
      let hist' := hist ++ [en] in
      match fst r with
      | SigNormal => block_go rest' (S pos) (snd r) hist'
      | SigGoto l =>
          match find_label all l 0 with
          | Some p => if Nat.leb p pos then block n cx (nth p hist' en) all (firstn p hist') p
                      else block n cx en all (hist' ++ repeat en (p - pos - 1)) p
          | None => ret (SigGoto l, en)
          end
      | sg => ret (sg, snd r)
      end
  end.
End BlockGo.

Lemma block_step n cx en0 all hist0 start :
  block (S n) cx en0 all hist0 start = block_go n cx all (skipn start all) start en0 hist0.
Proof. reflexivity. Qed.

(* ---------- statements ---------- *)
Definition assign_ref (n : nat) (cx : ctx) (ln : Z) (en : env) (l : expr) : M (nat + value * value) :=
  match l with
  | EVar x => match lookup en x with
              | Some c => ret (inl c)
              | None => do cl <- read_clo (cx_clo cx); ret (inr (VTab (c_fenv cl), VStr x))
              end
  | EIndex a k => do av <- eval_e n cx ln en a; do kv <- eval_e n cx ln en k; ret (inr (av, kv))
  | _ => unsup 7
  end.

Definition assign_store (n : nat) (cx : ctx) (ln : Z) (p : (nat + value * value) * value) : M unit :=
  match fst p with
  | inl c => write_cell c (snd p)
  | inr (t, k) => setindex n (here cx ln) t k (snd p) 100
  end.

Lemma exec_assign n cx en ln lhs es :
  exec (S n) cx en (SAssign ln lhs es) =
  (do refs <- mapM (assign_ref n cx ln en) lhs;
   do vs <- eval_list_with (eval_e n cx ln en) (eval_multi n cx ln en) es;
   do _ <- mapM (assign_store n cx ln) (rev (combine refs (adjust (length refs) vs)));
   ret (SigNormal, en)).
Proof. reflexivity. Qed.

Lemma exec_call n cx en ln e :
  exec (S n) cx en (SCall ln e) = (do _ <- eval_multi n cx ln en e; ret (SigNormal, en)).
Proof. reflexivity. Qed.

Lemma exec_do n cx en body :
  exec (S n) cx en (SDo body) = (do r <- block n cx en body [] 0; ret (fst r, en)).
Proof. reflexivity. Qed.

Lemma exec_if n cx en ln c th el :
  exec (S n) cx en (SIf ln c th el) =
  (do cv <- eval_e n cx ln en c;
   do r <- block n cx en (if truthy cv then th else el) [] 0; ret (fst r, en)).
Proof. reflexivity. Qed.

Lemma exec_while n cx en ln c body :
  exec (S n) cx en (SWhile ln c body) = (do sg <- while_loop n cx en ln c body; ret (sg, en)).
Proof. reflexivity. Qed.

Lemma exec_localfunc n cx en ln x f :
  exec (S n) cx en (SLocalFunc ln x f) =
  (do c <- alloc_cell VNil;
   let en' := (x, c) :: en in
   do v <- eval_e n cx ln en' f;
   write_cell c v ;; ret (SigNormal, en')).
Proof. reflexivity. Qed.

Lemma exec_numfor n cx en ln x a b c body :
  exec (S n) cx en (SNumFor ln x a b c body) =
  (do av <- eval_e n cx ln en a; do bv <- eval_e n cx ln en b;
   do cv <- (match c with Some ce => eval_e n cx ln en ce | None => ret (VNum 1%float) end);
   match tonum av, tonum bv, tonum cv with
   | CNum i, CNum lim, CNum step => do sg <- numfor_loop n cx en x i lim step body; ret (sg, en)
   | COut, _, _ | _, COut, _ | _, _, COut => unsup 2
   | _, _, _ => fault 6 ln
   end).
Proof. reflexivity. Qed.

Lemma exec_break n cx en : exec (S n) cx en SBreak = ret (SigBreak, en). Proof. reflexivity. Qed.
Lemma exec_goto n cx en l : exec (S n) cx en (SGoto l) = ret (SigGoto l, en). Proof. reflexivity. Qed.
Lemma exec_label n cx en l : exec (S n) cx en (SLabel l) = ret (SigNormal, en). Proof. reflexivity. Qed.

Lemma while_loop_step n cx en ln c body :
  while_loop (S n) cx en ln c body =
  (do cv <- eval_e n cx ln en c;
   if truthy cv then
     do r <- block n cx en body [] 0;
     match fst r with
     | SigNormal => while_loop n cx en ln c body
     | SigBreak => ret SigNormal
     | sg => ret sg
     end
   else ret SigNormal).
Proof. reflexivity. Qed.

Lemma numfor_loop_step n cx en x i lim step body :
  numfor_loop (S n) cx en x i lim step body =
  (let go_on := if PrimFloat.ltb 0%float step then PrimFloat.leb i lim else PrimFloat.leb lim i in
   if go_on then
     do c <- alloc_cell (VNum i);
     do r <- block n cx ((x, c) :: en) body [] 0;
     match fst r with
     | SigNormal => numfor_loop n cx en x (i + step)%float lim step body
     | SigBreak => ret SigNormal
     | sg => ret sg
     end
   else ret SigNormal).
Proof. reflexivity. Qed.

Lemma genfor_loop_step n cx en ln xs f s ctl body :
  genfor_loop (S n) cx en ln xs f s ctl body =
  (do vs <- call n (here cx ln) f [s; ctl];
   if is_nil (first vs) then ret SigNormal else
   do cs <- mapM alloc_cell (adjust (length xs) vs);
   do r <- block n cx (rev (combine xs cs) ++ en) body [] 0;
   match fst r with
   | SigNormal => genfor_loop n cx en ln xs f s (first vs) body
   | SigBreak => ret SigNormal
   | sg => ret sg
   end).
Proof. reflexivity. Qed.

Lemma tostring_v_step n fr v :
  tostring_v (S n) fr v =
  (do h <- getmeta v s_mm_tostring;
   if negb (is_nil h) then do vs <- call n fr h [v]; ret (first vs) else
   match v with
   | VNil => ret (VStr s_nil)
   | VBool b => ret (VStr (if b then s_true else s_false))
   | VNum f => do t <- num_text f; ret (VStr t)
   | VStr _ => ret v
   | _ => unsup 9
   end).
Proof. reflexivity. Qed.

(* ---------- builtins used by the property theorems ---------- *)
Lemma bi_pcall n fr f rest s :
  builtin_call (S n) fr BPcall (f :: rest) s =
  catch (bind (call n ((None, None) :: fr) f rest s) (fun vs s' => Ret (VBool true :: vs) s'))
        (fun e s' => Ret [VBool false; e] s').
Proof. reflexivity. Qed.

Lemma bi_xpcall n fr args s :
  builtin_call (S n) fr BXpcall args s =
  catch (bind (call n ((None, None) :: fr) (nth 0 args VNil) [] s) (fun vs s' => Ret (VBool true :: vs) s'))
        (fun e s' => catch (bind (call n ((None, None) :: fr) (nth 1 args VNil) [e] s')
                                 (fun hv s'' => Ret [VBool false; first hv] s''))
                           (fun e2 s2 => if dv_handler_err (dv s2) then Ret [VBool false; e2] s2
                                         else Ret [VBool false; VStr s_error_in_error_handling] s2)).
Proof. reflexivity. Qed.

Lemma bi_rawequal n fr args s :
  builtin_call (S n) fr BRawEqual args s = Ret [VBool (raweq (nth 0 args VNil) (nth 1 args VNil))] s.
Proof. reflexivity. Qed.

Lemma bi_coresume n fr r rest s :
  builtin_call (S n) fr BCoResume (VCo r :: rest) s =
  match nth r (cos s) CoDead with
  | CoInit _ | CoSusp => Eff (EResume r rest false) s
                             (fun rp s' => match rp with RVals vs => Ret vs s' | RErr e => Err e s' end)
  | CoDead => Ret [VBool false; VFault 8 0] s
  | _ => Ret [VBool false; VFault 9 0] s
  end.
Proof. reflexivity. Qed.

Lemma bi_coyield n fr args s :
  builtin_call (S n) fr BCoYield args s =
  match cur s with
  | Some _ => Eff (EYield args) s (fun rp s' => match rp with RVals vs => Ret vs s' | RErr e => Err e s' end)
  | None => Err (VFault 10 0) s
  end.
Proof. reflexivity. Qed.

Lemma bi_costatus n fr r rest s :
  builtin_call (S n) fr BCoStatus (VCo r :: rest) s = Ret [VStr (co_status_name (nth r (cos s) CoDead))] s.
Proof. reflexivity. Qed.

Lemma bi_corunning n fr args s :
  builtin_call (S n) fr BCoRunning args s = match cur s with Some r => Ret [VCo r] s | None => Ret [VNil] s end.
Proof. reflexivity. Qed.
