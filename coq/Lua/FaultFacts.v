(* M-Lua meta-theory for C05: the TWO-RUN law of fault injection.
   Run A: deviation switches d with dv_emit_fault d = 0 (no fault). Run B: the same program and
   fuel under (with_fault d k): the k-th call of the host function emit fails.
   Law: the first k-1 rows of the two final traces coincide.
   Method: a lock-step simulation [agree] between the two result trees (same shape, states equal
   up to the switch, continuations related from every pair of related reply states) that may end
   in a divergence node [ag_div] — reached only inside BEmit, when the trace holds exactly k-1
   rows — after which each side is only known to extend its trace (the unary whole-evaluator
   invariant of EvalInvFacts/DriveRunFacts). Induction on fuel over the 20 mutually recursive
   functions, then over the coroutine driver. *)
From Coq Require Import Floats Lia.
From GL Require Import Common.Bytes Lua.Syntax Lua.Num Lua.Values Lua.Names Lua.Eval Lua.Run Str.StrModel
  Lua.ValuesFacts Lua.MonadFacts Lua.EvalStepFacts Lua.EvalInvFacts Lua.DriveFacts Lua.DriveRunFacts.

Definition with_dv (s : state) (d : devs) : state :=
  mkState (cells s) (tabs s) (clos s) (cos s) (uds s) (trace s) (cur s) (strmt s) d.

Definition with_fault (d : devs) (k : Z) : devs :=
  mkDevs (dv_handler_err d) (dv_localfunc d) (dv_wrap_noprefix d) (dv_fault_string d) k.

Definition fin_state (f : fin) : option state :=
  match f with FinOk _ s | FinErr _ s => Some s | _ => None end.

(* ---------- the unary invariant, instantiated ---------- *)
Definition gtrue (e : effect) (s : state) : Prop := True.
Notation invg := (inv store_grows gtrue).

Lemma all_invg : forall n, all_inv store_grows gtrue n.
Proof. exact all_inv_grow_lemma. Qed.

Lemma ig_bind {A B} s (r : res A) (f : A -> state -> res B) :
  invg s r -> (forall a s', invg s' (f a s')) -> invg s (bind r f).
Proof. apply inv_bind. exact store_grows_trans_lemma. Qed.

Lemma ig_catch {A} s (r : res A) (h : value -> state -> res A) :
  invg s r -> (forall v s', invg s' (h v s')) -> invg s (catch r h).
Proof. apply inv_catch. exact store_grows_trans_lemma. Qed.

Lemma ig_ret_refl {A} (a : A) s : invg s (Ret a s).
Proof. apply inv_ret_refl. exact store_grows_refl_lemma. Qed.

Lemma ig_err_refl {A} v s : invg s (@Err A v s).
Proof. constructor. apply store_grows_refl_lemma. Qed.

Lemma ig_mapM {A B} (f : A -> M B) (l : list A) :
  (forall a s, invg s (f a s)) -> forall s, invg s (mapM f l s).
Proof. apply inv_mapM. exact store_grows_refl_lemma. exact store_grows_trans_lemma. Qed.

Lemma ig_eval_list_with one multi es :
  (forall e s, invg s (one e s)) -> (forall e s, invg s (multi e s)) ->
  forall s, invg s (eval_list_with one multi es s).
Proof. apply inv_eval_list_with. exact store_grows_refl_lemma. exact store_grows_trans_lemma. Qed.

Lemma sg_cells_app s v : store_grows s (with_cells s (cells s ++ [v])). Proof. grow_prim. Qed.
Lemma sg_cells_set s i v : store_grows s (with_cells s (set_nth (cells s) i v)). Proof. grow_prim. Qed.
Lemma sg_tabs_app s t : store_grows s (with_tabs s (tabs s ++ [t])). Proof. grow_prim. Qed.
Lemma sg_tabs_set s i t : store_grows s (with_tabs s (set_nth (tabs s) i t)). Proof. grow_prim. Qed.
Lemma sg_clos_app s c : store_grows s (with_clos s (clos s ++ [c])). Proof. grow_prim. Qed.
Lemma sg_clos_set s i c : store_grows s (with_clos s (set_nth (clos s) i c)). Proof. grow_prim. Qed.
Lemma sg_trace_app s x : store_grows s (with_trace s (trace s ++ [x])). Proof. grow_prim. Qed.
Lemma sg_cos_app s f : store_grows s (with_cos s (cos s ++ [CoInit f])). Proof. grow_prim. Qed.
Lemma sg_uds_app s u : store_grows s (with_uds s (uds s ++ [u])). Proof. grow_prim. Qed.

Create HintDb sgdb.
#[export] Hint Resolve store_grows_refl_lemma sg_cells_app sg_cells_set sg_tabs_app sg_tabs_set sg_clos_app
  sg_clos_set sg_trace_app sg_cos_app sg_uds_app : sgdb.

(* the whole-function facts, one projection each *)
Lemma ig_e n cx ln en e s : invg s (eval_e n cx ln en e s). Proof. apply (all_invg n). Qed.
Lemma ig_m n cx ln en e s : invg s (eval_multi n cx ln en e s). Proof. apply (all_invg n). Qed.
Lemma ig_index n fr v k d s : invg s (index n fr v k d s). Proof. apply (all_invg n). Qed.
Lemma ig_setindex n fr v k x d s : invg s (setindex n fr v k x d s). Proof. apply (all_invg n). Qed.
Lemma ig_binop n fr o a b s : invg s (binop_v n fr o a b s). Proof. apply (all_invg n). Qed.
Lemma ig_eq n fr a b s : invg s (eq_v n fr a b s). Proof. apply (all_invg n). Qed.
Lemma ig_order n fr ev a b s : invg s (order_tm n fr ev a b s). Proof. apply (all_invg n). Qed.
Lemma ig_lt n fr a b s : invg s (lt_v n fr a b s). Proof. apply (all_invg n). Qed.
Lemma ig_le n fr a b s : invg s (le_v n fr a b s). Proof. apply (all_invg n). Qed.
Lemma ig_unop n fr o a s : invg s (unop_v n fr o a s). Proof. apply (all_invg n). Qed.
Lemma ig_call n fr f args s : invg s (call n fr f args s). Proof. apply (all_invg n). Qed.
Lemma ig_block n cx en all hist start s : invg s (block n cx en all hist start s). Proof. apply (all_invg n). Qed.
Lemma ig_exec n cx en st s : invg s (exec n cx en st s). Proof. apply (all_invg n). Qed.
Lemma ig_while n cx en ln c body s : invg s (while_loop n cx en ln c body s). Proof. apply (all_invg n). Qed.
Lemma ig_repeat n cx en body ln c s : invg s (repeat_loop n cx en body ln c s). Proof. apply (all_invg n). Qed.
Lemma ig_numfor n cx en x i lim step body s : invg s (numfor_loop n cx en x i lim step body s).
Proof. apply (all_invg n). Qed.
Lemma ig_genfor n cx en ln xs f st ctl body s : invg s (genfor_loop n cx en ln xs f st ctl body s).
Proof. apply (all_invg n). Qed.
Lemma ig_tostring n fr v s : invg s (tostring_v n fr v s). Proof. apply (all_invg n). Qed.
Lemma ig_builtin n fr b args s : invg s (builtin_call n fr b args s). Proof. apply (all_invg n). Qed.

Create HintDb igdb.
#[export] Hint Resolve ig_e ig_m ig_index ig_setindex ig_binop ig_eq ig_order ig_lt ig_le ig_unop ig_call ig_block
  ig_exec ig_while ig_repeat ig_numfor ig_genfor ig_tostring ig_builtin : igdb.

Ltac ig_leaf :=
  first [ apply ig_ret_refl | apply ig_err_refl | apply i_fuel
        | apply i_unsup; apply UC_lit; reflexivity
        | apply i_ret; solve [auto with sgdb]
        | apply i_err; solve [auto with sgdb]
        | solve [auto with igdb] ].

Ltac ig_tac :=
  repeat (cbv beta zeta;
    lazymatch goal with
    | |- inv _ _ _ (bindM _ _ _) => unfold bindM at 1; apply ig_bind; [|intros ? ?]
    | |- inv _ _ _ (bind _ _) => apply ig_bind; [|intros ? ?]
    | |- inv _ _ _ (catch _ _) => apply ig_catch; [|intros ? ?]
    | |- inv _ _ _ (mapM _ _ _) => apply ig_mapM; intros ? ?
    | |- inv _ _ _ (eval_list_with _ _ _ _) => apply ig_eval_list_with; intros ? ?
    | |- inv _ _ _ (Eff _ _ _) => apply i_eff; [solve [auto with sgdb] | exact I | intros ? ?]
    | |- inv _ _ _ (match ?x with _ => _ end) => destruct x
    | |- inv _ _ _ (match ?x with _ => _ end _) => destruct x
    | |- inv _ _ _ (if ?x then _ else _) => destruct x
    | |- inv _ _ _ ((if ?x then _ else _) _) => destruct x
    | |- inv _ _ _ _ => ig_leaf
    end).

Ltac prims := unfold getmeta, metafield, metatable_of, read_tab, write_tab, alloc_tab, read_cell, write_cell,
  alloc_cell, read_clo, write_clo, alloc_clo, fault, raise, unsup, ret, num_text, opt_int in *.

(* ---------- trace extension (what survives the driver's own state changes) ---------- *)
Definition text (s s' : state) : Prop := exists ext, trace s' = trace s ++ ext.

Lemma text_refl s : text s s. Proof. exists []. rewrite app_nil_r. reflexivity. Qed.
Lemma text_trans s1 s2 s3 : text s1 s2 -> text s2 s3 -> text s1 s3.
Proof. intros [e1 H1] [e2 H2]. exists (e1 ++ e2). rewrite H2, H1, app_assoc. reflexivity. Qed.
Lemma sg_text s s' : store_grows s s' -> text s s'.
Proof. intros [_ [_ [_ [_ [_ [H _]]]]]]. exact H. Qed.
Lemma text_same s s' s'' : text s s' -> trace s'' = trace s' -> text s s''.
Proof. intros [e H] H2. exists e. congruence. Qed.

Lemma text_firstn K s s' : (K <= length (trace s))%nat -> text s s' -> firstn K (trace s') = firstn K (trace s).
Proof. intros HK [e H]. rewrite H. rewrite firstn_app. replace (K - length (trace s))%nat with O by lia.
  simpl. apply app_nil_r. Qed.

Section Fault.
Variable k : Z.
Hypothesis kpos : 0 < k.

Definition KK : nat := Z.to_nat (k - 1).
Definition fl (s : state) : state := with_dv s (with_fault (dv s) k).
Definition ok (s : state) : Prop := dv_emit_fault (dv s) = 0.
Definition pk (s : state) : Prop := (KK <= length (trace s))%nat.

(* ---------- the simulation relation on results ---------- *)
Inductive agree {A} : res A -> res A -> Prop :=
| ag_ret a s : ok s -> agree (Ret a s) (Ret a (fl s))
| ag_err v s : ok s -> agree (Err v s) (Err v (fl s))
| ag_fuel : agree OutOfFuel OutOfFuel
| ag_unsup c : agree (Unsup c) (Unsup c)
| ag_eff e s k1 k2 : ok s ->
    (forall rp s', ok s' -> agree (k1 rp s') (k2 rp (fl s'))) ->
    (forall rp s', invg s' (k1 rp s')) -> (forall rp s', invg s' (k2 rp s')) ->
    agree (Eff e s k1) (Eff e (fl s) k2)
| ag_div r1 r2 sa sb : pk sa -> pk sb -> firstn KK (trace sa) = firstn KK (trace sb) ->
    invg sa r1 -> invg sb r2 -> agree r1 r2.

Lemma agree_bind {A B} (r1 r2 : res A) (f : A -> state -> res B) :
  agree r1 r2 ->
  (forall a s, ok s -> agree (f a s) (f a (fl s))) -> (forall a s, invg s (f a s)) ->
  agree (bind r1 f) (bind r2 f).
Proof.
  intros H Hf Hu. induction H; simpl; try (constructor; auto; fail).
  - apply Hf; auto.
  - apply ag_eff; auto; intros; apply ig_bind; auto.
  - apply (ag_div _ _ sa sb); auto; apply ig_bind; auto.
Qed.

Lemma agree_bindM {A B} (m : M A) (f : A -> M B) s :
  agree (m s) (m (fl s)) ->
  (forall a s', ok s' -> agree (f a s') (f a (fl s'))) -> (forall a s', invg s' (f a s')) ->
  agree (bindM m f s) (bindM m f (fl s)).
Proof. unfold bindM. apply agree_bind. Qed.

Lemma agree_catch {A} (r1 r2 : res A) (h : value -> state -> res A) :
  agree r1 r2 ->
  (forall v s, ok s -> agree (h v s) (h v (fl s))) -> (forall v s, invg s (h v s)) ->
  agree (catch r1 h) (catch r2 h).
Proof.
  intros H Hf Hu. induction H; simpl; try (constructor; auto; fail).
  - apply Hf; auto.
  - apply ag_eff; auto; intros; apply ig_catch; auto.
  - apply (ag_div _ _ sa sb); auto; apply ig_catch; auto.
Qed.

Lemma agree_mapM {A B} (f : A -> M B) (l : list A) :
  (forall a s, ok s -> agree (f a s) (f a (fl s))) -> (forall a s, invg s (f a s)) ->
  forall s, ok s -> agree (mapM f l s) (mapM f l (fl s)).
Proof.
  intros Hf Hu. induction l as [|a l IH]; intros s Hs; simpl.
  - apply ag_ret; auto.
  - apply agree_bindM; auto.
    + intros b s1 H1. apply agree_bindM; auto.
      * intros bs s2 H2. apply ag_ret; auto.
      * intros bs s2. apply ig_ret_refl.
    + intros b s1. unfold bindM. apply ig_bind; [apply ig_mapM; auto|]. intros; apply ig_ret_refl.
Qed.

Lemma agree_eval_list_with one multi es :
  (forall e s, ok s -> agree (one e s) (one e (fl s))) -> (forall e s, invg s (one e s)) ->
  (forall e s, ok s -> agree (multi e s) (multi e (fl s))) -> (forall e s, invg s (multi e s)) ->
  forall s, ok s -> agree (eval_list_with one multi es s) (eval_list_with one multi es (fl s)).
Proof.
  intros H1 U1 H2 U2. induction es as [|e r IH]; intros s Hs.
  - apply ag_ret; auto.
  - destruct r as [|e' r']; [apply H2; auto|].
    change (eval_list_with one multi (e :: e' :: r')) with
      (bindM (one e) (fun v => do vs <- eval_list_with one multi (e' :: r'); ret (v :: vs))).
    apply agree_bindM; auto.
    + intros v s1 Hs1. apply agree_bindM; auto.
      * intros vs s2 Hs2. apply ag_ret; auto.
      * intros vs s2. apply ig_ret_refl.
    + intros v s1. unfold bindM. apply ig_bind; [apply ig_eval_list_with; auto|]. intros; apply ig_ret_refl.
Qed.

End Fault.
