(* M-Lua: values, store, result monad with resumable effects (coroutines). *)
From Coq Require Import Floats.
From GL Require Import Common.Bytes Lua.Syntax Lua.Num.

Inductive builtin :=
| BEmit | BType | BToString | BToNumber | BSelect | BUnpack | BNext | BPairs | BIpairs | BIpairsAux
| BRawGet | BRawSet | BRawEqual | BSetMt | BGetMt | BGetFenv | BSetFenv
| BPcall | BXpcall | BError | BAssert
| BCoCreate | BCoResume | BCoYield | BCoStatus | BCoWrap | BCoRunning | BWrapped (co : nat)
| BTInsert | BTRemove | BTConcat
| BStrLen | BStrSub | BStrRep | BStrUpper | BStrLower | BStrByte
| BMathFloor | BMathMax | BMathMin | BMathAbs
| BNewUd.

Definition builtin_code (b : builtin) : Z :=
  match b with
  | BEmit => 1 | BType => 2 | BToString => 3 | BToNumber => 4 | BSelect => 5 | BUnpack => 6
  | BNext => 7 | BPairs => 8 | BIpairs => 9 | BIpairsAux => 10 | BRawGet => 11 | BRawSet => 12
  | BRawEqual => 13 | BSetMt => 14 | BGetMt => 15 | BGetFenv => 16 | BSetFenv => 17 | BPcall => 18
  | BXpcall => 19 | BError => 20 | BAssert => 21 | BCoCreate => 22 | BCoResume => 23
  | BCoYield => 24 | BCoStatus => 25 | BCoWrap => 26 | BCoRunning => 27
  | BTInsert => 28 | BTRemove => 29 | BTConcat => 30 | BStrLen => 31 | BStrSub => 32
  | BStrRep => 33 | BStrUpper => 34 | BStrLower => 35 | BStrByte => 36 | BMathFloor => 37
  | BMathMax => 38 | BMathMin => 39 | BMathAbs => 40 | BNewUd => 41
  | BWrapped co => 1000 + Z.of_nat co
  end.

(* fault kinds: 1 index, 2 arithmetic, 3 call, 4 compare, 5 concatenate, 6 other runtime
   error (for-loop operands, nil/NaN table key, bad argument), 7 length,
   8 resume dead coroutine, 9 resume non-suspended coroutine, 10 yield outside coroutine *)
Inductive value :=
| VNil | VBool (b : bool) | VNum (f : float) | VStr (s : bytes)
| VTab (r : nat) | VFun (r : nat) | VBuiltin (b : builtin) | VCo (r : nat) | VUd (r : nat)
| VFault (kind line : Z).

Definition env := list (name * nat).

Record clo := mkClo { c_params : list name; c_vararg : bool; c_body : list stmt;
                      c_env : env; c_fenv : nat; c_line : Z; c_main : bool }.

Record tab := mkTab { t_kv : list (value * value); t_meta : option nat }.

Inductive costatus := CoInit (f : value) | CoSusp | CoRun | CoNorm | CoDead.

(* deviation switches: with all off this is the Lua 5.1 reference; each switch reproduces one
   listed known finding of gopher-lua so that the same evaluator serves as impl model. *)
Record devs := mkDevs {
  dv_handler_err : bool;   (* an error inside xpcall's message handler: its value is delivered (5.1: "error in error handling") *)
  dv_localfunc : bool;     (* local f = function ... f ... end sees itself *)
  dv_wrap_noprefix : bool; (* errors through coroutine.wrap are not re-positioned *)
  dv_fault_string : bool;  (* kind of the injected fault: false = the number -777 raised as is, true = a positioned string *)
  dv_emit_fault : Z        (* k > 0: the k-th call of the host function emit raises (fault injection); 0 = never *) }.

Record state := mkState {
  cells : list value; tabs : list tab; clos : list clo; cos : list costatus;
  uds : list (option nat); trace : list (list value); cur : option nat;
  strmt : option nat; dv : devs }.

Inductive effect := EResume (co : nat) (args : list value) (wrapped : bool) | EYield (vs : list value).
Inductive reply := RVals (vs : list value) | RErr (v : value).

Inductive res (A : Type) :=
| Ret (a : A) (s : state)
| Err (v : value) (s : state)
| OutOfFuel
| Unsup (code : Z)
| Eff (e : effect) (s : state) (k : reply -> state -> res A).
Arguments Ret {A}. Arguments Err {A}. Arguments OutOfFuel {A}. Arguments Unsup {A}. Arguments Eff {A}.

Fixpoint bind {A B} (r : res A) (f : A -> state -> res B) : res B :=
  match r with
  | Ret a s => f a s
  | Err v s => Err v s
  | OutOfFuel => OutOfFuel
  | Unsup c => Unsup c
  | Eff e s k => Eff e s (fun rp s' => bind (k rp s') f)
  end.

(* protected call: errors are handed to h, effects pass through *)
Fixpoint catch {A} (r : res A) (h : value -> state -> res A) : res A :=
  match r with
  | Err v s => h v s
  | Eff e s k => Eff e s (fun rp s' => catch (k rp s') h)
  | other => other
  end.

Definition M (A : Type) := state -> res A.
Definition ret {A} (a : A) : M A := fun s => Ret a s.
Definition bindM {A B} (m : M A) (f : A -> M B) : M B := fun s => bind (m s) f.
Definition raise {A} (v : value) : M A := fun s => Err v s.
Definition unsup {A} (c : Z) : M A := fun _ => Unsup c.
Definition get : M state := fun s => Ret s s.
Definition put (s : state) : M unit := fun _ => Ret tt s.

Notation "'do' x <- m ; f" := (bindM m (fun x => f)) (at level 200, x pattern, m at level 100, f at level 200).
Notation "m ;; f" := (bindM m (fun _ => f)) (at level 199, right associativity).

(* ---------- list store helpers ---------- *)
Fixpoint set_nth {A} (l : list A) (i : nat) (x : A) : list A :=
  match l, i with
  | [], _ => []
  | _ :: t, O => x :: t
  | h :: t, S k => h :: set_nth t k x
  end.

Definition with_cells s c := mkState c (tabs s) (clos s) (cos s) (uds s) (trace s) (cur s) (strmt s) (dv s).
Definition with_tabs s t := mkState (cells s) t (clos s) (cos s) (uds s) (trace s) (cur s) (strmt s) (dv s).
Definition with_clos s c := mkState (cells s) (tabs s) c (cos s) (uds s) (trace s) (cur s) (strmt s) (dv s).
Definition with_cos s c := mkState (cells s) (tabs s) (clos s) c (uds s) (trace s) (cur s) (strmt s) (dv s).
Definition with_uds s u := mkState (cells s) (tabs s) (clos s) (cos s) u (trace s) (cur s) (strmt s) (dv s).
Definition with_trace s t := mkState (cells s) (tabs s) (clos s) (cos s) (uds s) t (cur s) (strmt s) (dv s).
Definition with_cur s c := mkState (cells s) (tabs s) (clos s) (cos s) (uds s) (trace s) c (strmt s) (dv s).
Definition with_strmt s m := mkState (cells s) (tabs s) (clos s) (cos s) (uds s) (trace s) (cur s) m (dv s).

Definition alloc_cell (v : value) : M nat :=
  fun s => Ret (length (cells s)) (with_cells s (cells s ++ [v])).
Definition read_cell (i : nat) : M value := fun s => Ret (nth i (cells s) VNil) s.
Definition write_cell (i : nat) (v : value) : M unit :=
  fun s => Ret tt (with_cells s (set_nth (cells s) i v)).

Definition empty_tab := mkTab [] None.
Definition alloc_tab (t : tab) : M nat :=
  fun s => Ret (length (tabs s)) (with_tabs s (tabs s ++ [t])).
Definition read_tab (r : nat) : M tab := fun s => Ret (nth r (tabs s) empty_tab) s.
Definition write_tab (r : nat) (t : tab) : M unit :=
  fun s => Ret tt (with_tabs s (set_nth (tabs s) r t)).

Definition dummy_clo := mkClo [] false [] [] 0 0 false.
Definition alloc_clo (c : clo) : M nat :=
  fun s => Ret (length (clos s)) (with_clos s (clos s ++ [c])).
Definition read_clo (r : nat) : M clo := fun s => Ret (nth r (clos s) dummy_clo) s.
Definition write_clo (r : nat) (c : clo) : M unit :=
  fun s => Ret tt (with_clos s (set_nth (clos s) r c)).

(* ---------- raw equality and raw table access ---------- *)
Definition builtin_eqb (a b : builtin) := builtin_code a =? builtin_code b.

Definition raweq (a b : value) : bool :=
  match a, b with
  | VNil, VNil => true
  | VBool x, VBool y => Bool.eqb x y
  | VNum x, VNum y => PrimFloat.eqb x y
  | VStr x, VStr y => beqb x y
  | VTab x, VTab y | VFun x, VFun y | VCo x, VCo y | VUd x, VUd y => Nat.eqb x y
  | VBuiltin x, VBuiltin y => builtin_eqb x y
  | VFault k l, VFault k' l' => (k =? k') && (l =? l')
  | _, _ => false
  end.

Fixpoint kv_get (kv : list (value * value)) (k : value) : value :=
  match kv with
  | [] => VNil
  | (k', v) :: r => if raweq k' k then v else kv_get r k
  end.

Fixpoint kv_remove (kv : list (value * value)) (k : value) : list (value * value) :=
  match kv with
  | [] => []
  | (k', v) :: r => if raweq k' k then r else (k', v) :: kv_remove r k
  end.

Fixpoint kv_replace (kv : list (value * value)) (k v : value) : option (list (value * value)) :=
  match kv with
  | [] => None
  | (k', v') :: r => if raweq k' k then Some ((k', v) :: r)
                     else match kv_replace r k v with Some r' => Some ((k', v') :: r') | None => None end
  end.

Definition is_nil (v : value) := match v with VNil => true | _ => false end.

Definition kv_set (kv : list (value * value)) (k v : value) : list (value * value) :=
  if is_nil v then kv_remove kv k
  else match kv_replace kv k v with Some kv' => kv' | None => kv ++ [(k, v)] end.

Definition truthy (v : value) : bool :=
  match v with VNil | VBool false => false | _ => true end.

Definition vint (z : Z) : value := VNum (f_of_Z z).

(* smallest border, and whether it is the only one (no positive integral key above it) *)
Fixpoint border_from (fuel : nat) (kv : list (value * value)) (n : Z) : Z :=
  match fuel with
  | O => n
  | S k => if is_nil (kv_get kv (vint (n + 1))) then n else border_from k kv (n + 1)
  end.

Definition border (kv : list (value * value)) : Z := border_from (length kv) kv 0.

Definition border_unique (kv : list (value * value)) : bool :=
  let n := border kv in
  forallb (fun p => match fst p with
                    | VNum f => match f_to_Z f with Some z => (z <=? n) | None => true end
                    | _ => true end) kv.

Definition tyname (v : value) : bytes :=
  match v with
  | VNil => [110;105;108]
  | VBool _ => [98;111;111;108;101;97;110]
  | VNum _ => [110;117;109;98;101;114]
  | VStr _ | VFault _ _ => [115;116;114;105;110;103]
  | VTab _ => [116;97;98;108;101]
  | VFun _ | VBuiltin _ => [102;117;110;99;116;105;111;110]
  | VCo _ => [116;104;114;101;97;100]
  | VUd _ => [117;115;101;114;100;97;116;97]
  end.

Definition first (vs : list value) : value := match vs with v :: _ => v | [] => VNil end.

Fixpoint adjust (n : nat) (vs : list value) : list value :=
  match n with
  | O => []
  | S k => match vs with v :: r => v :: adjust k r | [] => VNil :: adjust k [] end
  end.
