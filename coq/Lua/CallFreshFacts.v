(* C02 (wave 5): the compatibility `arg` table of a call is a NEW table.
   Call set-up (CallFacts.callee_state) allocates it behind every table of the caller's store and
   leaves all of those untouched; the store only grows while code runs (DriveRunFacts.store_grows),
   so a later call can never be handed the table of an earlier one, and setting the later one up
   does not alter the earlier one. Proofs only; statements are repeated in Properties/C02.v. *)
From Coq Require Import List ZArith Lia Floats.
From GL Require Import Common.Bytes Lua.Syntax Lua.Num Lua.Values Lua.Names Lua.Eval Lua.Run
  Lua.CallFacts Lua.DriveRunFacts.
Import ListNotations.

(* what call set-up does to the table store *)
Lemma arg_table_fresh_lemma s c args :
  let s1 := callee_state s c args in
  (has_arg_table c = true -> length (tabs s1) = S (length (tabs s))) /\
  (has_arg_table c = false -> tabs s1 = tabs s) /\
  (forall j, (j < length (tabs s))%nat -> nth j (tabs s1) empty_tab = nth j (tabs s) empty_tab).
Proof.
  cbv zeta. unfold callee_state. destruct (has_arg_table c); cbn [tabs with_cells with_tabs].
  - split; [|split].
    + intros _. rewrite app_length. simpl. lia.
    + discriminate.
    + intros j Hj. apply app_nth1; auto.
  - split; [discriminate|split; auto].
Qed.

(* two calls: the second one starts from any state the store has grown to since the first was set up *)
Lemma arg_tables_distinct_lemma s c args s2 c2 args2 :
  has_arg_table c = true -> has_arg_table c2 = true ->
  store_grows (callee_state s c args) s2 ->
  let r1 := length (tabs s) in
  let r2 := length (tabs s2) in
  let s3 := callee_state s2 c2 args2 in
  (r1 < r2)%nat /\
  nth (length (cells s2) + length (c_params c2)) (cells s3) VNil = VTab r2 /\
  nth r2 (tabs s3) empty_tab = arg_table (callee_varargs c2 args2) /\
  nth r1 (tabs s3) empty_tab = nth r1 (tabs s2) empty_tab.
Proof.
  intros H1 H2 Hg. cbv zeta.
  destruct (arg_table_fresh_lemma s c args) as [Hlen _]. specialize (Hlen H1).
  destruct Hg as [_ [Ht _]]. rewrite Hlen in Ht.
  destruct (bind_params_spec_lemma s2 c2 args2) as [_ [_ [_ [Harg _]]]]. cbv zeta in Harg.
  destruct (Harg H2) as [Ha [_ Hc]].
  destruct (arg_table_fresh_lemma s2 c2 args2) as [_ [_ Hold]].
  split; [lia|split; [exact Hc|split; [exact Ha|]]].
  apply Hold. lia.
Qed.

(* the same with the history spelled out: the first call's body (or anything else) ran in between *)
Lemma arg_table_not_reused_lemma n fr f a s c args r s2 c2 args2 :
  has_arg_table c = true -> has_arg_table c2 = true ->
  call n fr f a (callee_state s c args) = Ret r s2 ->
  (length (tabs s) < length (tabs s2))%nat /\
  nth (length (tabs s)) (tabs (callee_state s2 c2 args2)) empty_tab = nth (length (tabs s)) (tabs s2) empty_tab.
Proof.
  intros H1 H2 Hc.
  destruct (arg_tables_distinct_lemma s c args s2 c2 args2 H1 H2 (call_store_grows_lemma _ _ _ _ _ _ _ Hc))
    as [A [_ [_ B]]].
  split; assumption.
Qed.

(* the same when what ran in between failed and the error was caught further out *)
Lemma arg_table_not_reused_after_error_lemma n fr f a s c args v s2 c2 args2 :
  has_arg_table c = true -> has_arg_table c2 = true ->
  call n fr f a (callee_state s c args) = Err v s2 ->
  (length (tabs s) < length (tabs s2))%nat /\
  nth (length (tabs s)) (tabs (callee_state s2 c2 args2)) empty_tab = nth (length (tabs s)) (tabs s2) empty_tab.
Proof.
  intros H1 H2 Hc.
  destruct (arg_tables_distinct_lemma s c args s2 c2 args2 H1 H2 (call_err_store_grows_lemma _ _ _ _ _ _ _ Hc))
    as [A [_ [_ B]]].
  split; assumption.
Qed.
