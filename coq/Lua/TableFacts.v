(* M-Lua meta-theory: raw tables as finite maps ([kv_get]/[kv_set]) and the border.
   Keys are compared with [raweq]; for numbers that is IEEE equality of primitive floats whose
   algebraic laws are not available without axioms, so the laws that need "distinct keys do not
   alias" take that as an explicit (decidable, vm_compute-dischargeable) hypothesis, and are
   unconditional for float-free keys. *)
From Coq Require Import Floats Lia.
From GL Require Import Common.Bytes Lua.Syntax Lua.Num Lua.Values Lua.ValuesFacts.

Definition keys (kv : list (value * value)) : list value := map fst kv.

(* number of stored entries whose key matches k *)
Fixpoint kv_count (kv : list (value * value)) (k : value) : nat :=
  match kv with
  | [] => O
  | (k', _) :: r => if raweq k' k then S (kv_count r k) else kv_count r k
  end.

Lemma kv_get_absent_lemma kv k : kv_count kv k = O -> kv_get kv k = VNil.
Proof.
  induction kv as [|[k' v] r IH]; simpl; auto. destruct (raweq k' k); intros H; [discriminate|auto].
Qed.

Lemma kv_replace_none_lemma kv k v : kv_replace kv k v = None <-> kv_count kv k = O.
Proof.
  induction kv as [|[k' v'] r IH]; simpl; [tauto|].
  destruct (raweq k' k); [split; discriminate|].
  destruct (kv_replace r k v); split; intros H; try discriminate; try tauto.
  apply IH in H. discriminate.
Qed.

(* ---- get after set, same key ---- *)
Lemma kv_get_replace_same_lemma kv k v kv' : kv_replace kv k v = Some kv' -> kv_get kv' k = v.
Proof.
  revert kv'; induction kv as [|[k' v'] r IH]; simpl; intros kv' H; [discriminate|].
  destruct (raweq k' k) eqn:E.
  - inversion H; subst. simpl. rewrite E. reflexivity.
  - destruct (kv_replace r k v) eqn:E2; [|discriminate]. inversion H; subst. simpl. rewrite E. apply IH. reflexivity.
Qed.

Lemma kv_get_app_absent_lemma kv k k2 v : kv_count kv k2 = O ->
  kv_get (kv ++ [(k, v)]) k2 = if raweq k k2 then v else VNil.
Proof.
  induction kv as [|[k' v'] r IH]; simpl; auto. destruct (raweq k' k2); intros H; [discriminate|auto].
Qed.

(* C01 kv_get_set_same *)
Lemma kv_get_set_same_lemma kv k v :
  raweq k k = true -> is_nil v = false -> kv_get (kv_set kv k v) k = v.
Proof.
  intros Hk Hv. unfold kv_set. rewrite Hv. destruct (kv_replace kv k v) eqn:E.
  - eapply kv_get_replace_same_lemma; eauto.
  - apply kv_replace_none_lemma in E. rewrite kv_get_app_absent_lemma by auto. rewrite Hk. reflexivity.
Qed.

(* ---- deleting ---- *)
Lemma kv_count_remove_lemma kv k : kv_count (kv_remove kv k) k = pred (kv_count kv k).
Proof.
  induction kv as [|[k' v'] r IH]; simpl; auto. destruct (raweq k' k) eqn:E; simpl; auto. rewrite E. auto.
Qed.

(* C01 kv_set_nil_deletes: storing nil removes the key (given that the key is stored at most once,
   which [kv_set] maintains: see kv_count_set_same_lemma) *)
Lemma kv_set_nil_deletes_lemma kv k : (kv_count kv k <= 1)%nat -> kv_get (kv_set kv k VNil) k = VNil.
Proof.
  intros H. unfold kv_set; simpl. apply kv_get_absent_lemma. rewrite kv_count_remove_lemma. lia.
Qed.

(* ---- get after set, other key ---- *)
Definition sep (kv : list (value * value)) (k k2 : value) : Prop :=
  raweq k k2 = false /\ forall k', In k' (keys kv) -> raweq k' k = true -> raweq k' k2 = false.

Lemma kv_get_remove_other_lemma kv k k2 :
  (forall k', In k' (keys kv) -> raweq k' k = true -> raweq k' k2 = false) ->
  kv_get (kv_remove kv k) k2 = kv_get kv k2.
Proof.
  induction kv as [|[k' v'] r IH]; simpl; intros H; auto.
  destruct (raweq k' k) eqn:E.
  - rewrite (H k') by auto. reflexivity.
  - simpl. destruct (raweq k' k2); auto.
Qed.

Lemma kv_get_replace_other_lemma kv k v k2 kv' :
  (forall k', In k' (keys kv) -> raweq k' k = true -> raweq k' k2 = false) ->
  kv_replace kv k v = Some kv' -> kv_get kv' k2 = kv_get kv k2.
Proof.
  revert kv'; induction kv as [|[k' v'] r IH]; simpl; intros kv' H Hr; [discriminate|].
  destruct (raweq k' k) eqn:E.
  - inversion Hr; subst. simpl. rewrite (H k') by auto. reflexivity.
  - destruct (kv_replace r k v) eqn:E2; [|discriminate]. inversion Hr; subst. simpl.
    destruct (raweq k' k2); auto.
Qed.

Lemma kv_get_app_lemma kv k k2 v : raweq k k2 = false -> kv_get (kv ++ [(k, v)]) k2 = kv_get kv k2.
Proof.
  intros H. induction kv as [|[k' v'] r IH]; simpl. - rewrite H; reflexivity. - destruct (raweq k' k2); auto.
Qed.

(* C01 kv_get_set_other *)
Lemma kv_get_set_other_lemma kv k v k2 : sep kv k k2 -> kv_get (kv_set kv k v) k2 = kv_get kv k2.
Proof.
  intros [H1 H2]. unfold kv_set. destruct (is_nil v).
  - apply kv_get_remove_other_lemma; auto.
  - destruct (kv_replace kv k v) eqn:E.
    + eapply kv_get_replace_other_lemma; eauto.
    + apply kv_get_app_lemma; auto.
Qed.

(* for float-free keys separation is just disequality *)
Lemma sep_nofloat_lemma kv k k2 : no_float k -> no_float k2 -> k <> k2 -> sep kv k k2.
Proof.
  intros Hk Hk2 Hne. split.
  - destruct (raweq k k2) eqn:E; auto. apply raweq_nofloat_lemma in E; auto. contradiction.
  - intros k' _ E. apply raweq_nofloat_lemma in E; auto. subst k'.
    destruct (raweq k k2) eqn:E2; auto. apply raweq_nofloat_lemma in E2; auto. contradiction.
Qed.

Lemma sep_float_nofloat_lemma kv k k2 : no_float k -> tyname k <> tyname k2 -> sep kv k k2.
Proof.
  intros Hk Hne. split.
  - destruct (raweq k k2) eqn:E; auto. apply raweq_type_lemma in E. contradiction.
  - intros k' _ E. apply raweq_nofloat_lemma in E; auto. subst k'.
    destruct (raweq k k2) eqn:E2; auto. apply raweq_type_lemma in E2. contradiction.
Qed.

Lemma kv_get_set_other_nofloat_lemma kv k v k2 :
  no_float k -> no_float k2 -> k <> k2 -> kv_get (kv_set kv k v) k2 = kv_get kv k2.
Proof. intros. apply kv_get_set_other_lemma. apply sep_nofloat_lemma; auto. Qed.

(* ---- the at-most-once invariant is maintained ---- *)
Lemma kv_count_replace_lemma kv k v k2 kv' : kv_replace kv k v = Some kv' -> kv_count kv' k2 = kv_count kv k2.
Proof.
  revert kv'; induction kv as [|[k' v'] r IH]; simpl; intros kv' H; [discriminate|].
  destruct (raweq k' k).
  - inversion H; subst. reflexivity.
  - destruct (kv_replace r k v) eqn:E2; [|discriminate]. inversion H; subst. simpl.
    rewrite (IH l) by reflexivity. reflexivity.
Qed.

Lemma kv_count_app_lemma kv k v k2 : kv_count (kv ++ [(k, v)]) k2 = (kv_count kv k2 + if raweq k k2 then 1 else 0)%nat.
Proof.
  induction kv as [|[k' v'] r IH]; simpl. - destruct (raweq k k2); reflexivity.
  - destruct (raweq k' k2); rewrite IH; reflexivity.
Qed.

Lemma kv_count_remove_le_lemma kv k k2 : (kv_count (kv_remove kv k) k2 <= kv_count kv k2)%nat.
Proof.
  induction kv as [|[k' v'] r IH]; simpl; auto. destruct (raweq k' k); simpl; destruct (raweq k' k2); lia.
Qed.

Lemma kv_count_set_same_lemma kv k v : (kv_count kv k <= 1)%nat -> (kv_count (kv_set kv k v) k <= 1)%nat.
Proof.
  intros H. unfold kv_set. destruct (is_nil v).
  - rewrite kv_count_remove_lemma. lia.
  - destruct (kv_replace kv k v) eqn:E.
    + erewrite kv_count_replace_lemma; eauto.
    + apply kv_replace_none_lemma in E. rewrite kv_count_app_lemma, E. destruct (raweq k k); simpl; lia.
Qed.

Lemma kv_count_set_other_lemma kv k v k2 : raweq k k2 = false ->
  (kv_count kv k2 <= 1)%nat -> (kv_count (kv_set kv k v) k2 <= 1)%nat.
Proof.
  intros Hs H. unfold kv_set. destruct (is_nil v).
  - pose proof (kv_count_remove_le_lemma kv k k2). lia.
  - destruct (kv_replace kv k v) eqn:E.
    + erewrite kv_count_replace_lemma; eauto.
    + rewrite kv_count_app_lemma, Hs. lia.
Qed.

(* a stored value is never nil if only kv_set built the table: kv_set never stores nil *)
Definition no_nil_values (kv : list (value * value)) : Prop := forall p, In p kv -> is_nil (snd p) = false.

Lemma kv_remove_incl_lemma kv k p : In p (kv_remove kv k) -> In p kv.
Proof.
  induction kv as [|[k' v'] r IH]; simpl; auto. destruct (raweq k' k); simpl; intros H; auto. destruct H; auto.
Qed.

Lemma kv_replace_in_lemma kv k v kv' p : kv_replace kv k v = Some kv' -> In p kv' -> In p kv \/ snd p = v.
Proof.
  revert kv'; induction kv as [|[k' v'] r IH]; simpl; intros kv' H Hin; [discriminate|].
  destruct (raweq k' k).
  - inversion H; subst. destruct Hin as [<-|Hin]; auto.
  - destruct (kv_replace r k v) eqn:E2; [|discriminate]. inversion H; subst. destruct Hin as [<-|Hin]; auto.
    destruct (IH _ eq_refl Hin); auto.
Qed.

Lemma kv_set_no_nil_lemma kv k v : no_nil_values kv -> no_nil_values (kv_set kv k v).
Proof.
  intros H p Hin. unfold kv_set in Hin. destruct (is_nil v) eqn:Ev.
  - apply H. eapply kv_remove_incl_lemma; eauto.
  - destruct (kv_replace kv k v) eqn:E.
    + destruct (kv_replace_in_lemma _ _ _ _ _ E Hin) as [Hp| ->]; auto.
    + apply in_app_or in Hin. destruct Hin as [Hp|[<-|[]]]; auto.
Qed.

(* ---- border ---- *)
Lemma border_from_spec_lemma fuel kv n :
  let b := border_from fuel kv n in
  n <= b <= n + Z.of_nat fuel /\
  (forall i, n < i <= b -> is_nil (kv_get kv (vint i)) = false) /\
  (is_nil (kv_get kv (vint (b + 1))) = true \/ b = n + Z.of_nat fuel).
Proof.
  revert n; induction fuel as [|fuel IH]; intros n; cbn [border_from].
  - cbv zeta. split; [lia|]. split; [intros; lia|]. right; lia.
  - destruct (is_nil (kv_get kv (vint (n + 1)))) eqn:E.
    + cbv zeta. split; [lia|]. split; [intros; lia|]. left; auto.
    + specialize (IH (n + 1)). cbv zeta in IH. destruct IH as [H1 [H2 H3]]. cbv zeta.
      split; [lia|]. split.
      * intros i Hi. destruct (Z.eq_dec i (n + 1)) as [->|Hne]; auto. apply H2. lia.
      * destruct H3; [left; auto|right; lia].
Qed.

(* first index of an entry matching k *)
Fixpoint kv_find (kv : list (value * value)) (k : value) : option nat :=
  match kv with
  | [] => None
  | (k', _) :: r => if raweq k' k then Some O else option_map S (kv_find r k)
  end.

Lemma kv_find_some_lemma kv k : is_nil (kv_get kv k) = false -> exists i, kv_find kv k = Some i /\ (i < length kv)%nat /\ raweq (nth i (keys kv) VNil) k = true.
Proof.
  induction kv as [|[k' v'] r IH]; simpl; [discriminate|].
  destruct (raweq k' k) eqn:E; intros H.
  - exists O. repeat split; auto; lia.
  - destruct (IH H) as [i [Hi [Hl Hr]]]. exists (S i). rewrite Hi. repeat split; auto; lia.
Qed.

(* integer keys 1..m do not alias on this table: no stored key matches two of them *)
Definition vint_sep (kv : list (value * value)) (m : Z) : Prop :=
  forall i j k', 1 <= i <= m -> 1 <= j <= m -> i <> j -> In k' (keys kv) ->
    raweq k' (vint i) = true -> raweq k' (vint j) = false.

(* boolean form, so that the hypothesis can be discharged by vm_compute on a concrete table *)
Definition vint_sep_b (kv : list (value * value)) (m : nat) : bool :=
  forallb (fun k' =>
    forallb (fun i => forallb (fun j =>
       Nat.eqb i j || negb (raweq k' (vint (Z.of_nat i))) || negb (raweq k' (vint (Z.of_nat j))))
       (seq 1 m)) (seq 1 m)) (keys kv).

Lemma vint_sep_b_sound_lemma kv m : vint_sep_b kv m = true -> vint_sep kv (Z.of_nat m).
Proof.
  unfold vint_sep_b, vint_sep. intros H i j k' Hi Hj Hne Hin Hr.
  rewrite forallb_forall in H. specialize (H k' Hin).
  rewrite forallb_forall in H. specialize (H (Z.to_nat i)).
  assert (Hi' : In (Z.to_nat i) (seq 1 m)) by (apply in_seq; lia). specialize (H Hi').
  rewrite forallb_forall in H. specialize (H (Z.to_nat j)).
  assert (Hj' : In (Z.to_nat j) (seq 1 m)) by (apply in_seq; lia). specialize (H Hj').
  rewrite !Z2Nat.id in H by lia. rewrite Hr in H. simpl in H.
  destruct (Nat.eqb (Z.to_nat i) (Z.to_nat j)) eqn:E.
  - apply Nat.eqb_eq in E. lia.
  - simpl in H. destruct (raweq k' (vint j)); auto.
Qed.

Lemma NoDup_map_inj_in_lemma {A B} (f : A -> B) (l : list A) :
  (forall a b, In a l -> In b l -> f a = f b -> a = b) -> NoDup l -> NoDup (map f l).
Proof.
  induction l as [|x l IH]; simpl; intros Hinj Hnd; [constructor|].
  inversion Hnd; subst. constructor.
  - intros Hin. apply in_map_iff in Hin. destruct Hin as [y [Hy Hin]].
    assert (y = x) by (apply Hinj; auto). subst. contradiction.
  - apply IH; auto.
Qed.

(* pigeonhole: if 1..m are all present and do not alias, the table has at least m entries *)
Lemma present_count_lemma kv m :
  vint_sep kv (Z.of_nat m) ->
  (forall i, 1 <= i <= Z.of_nat m -> is_nil (kv_get kv (vint i)) = false) ->
  (m <= length kv)%nat.
Proof.
  intros Hsep Hp.
  set (f := fun i : nat => match kv_find kv (vint (Z.of_nat i)) with Some x => x | None => O end).
  assert (Hin : incl (map f (seq 1 m)) (seq 0 (length kv))).
  { intros x Hx. apply in_map_iff in Hx. destruct Hx as [i [<- Hi]]. apply in_seq in Hi.
    unfold f. destruct (kv_find_some_lemma kv (vint (Z.of_nat i))) as [y [Hy [Hl _]]]; [apply Hp; lia|].
    rewrite Hy. apply in_seq. lia. }
  assert (Hnd : NoDup (map f (seq 1 m))).
  { apply NoDup_map_inj_in_lemma; [|apply seq_NoDup].
    intros a b Ha Hb Hab. apply in_seq in Ha, Hb. unfold f in Hab.
    destruct (kv_find_some_lemma kv (vint (Z.of_nat a))) as [y [Hy [Hl Hr]]]; [apply Hp; lia|].
    destruct (kv_find_some_lemma kv (vint (Z.of_nat b))) as [z [Hz [Hl' Hr']]]; [apply Hp; lia|].
    rewrite Hy, Hz in Hab. subst z.
    destruct (Nat.eq_dec a b) as [|Hne]; auto. exfalso.
    assert (In (nth y (keys kv) VNil) (keys kv)) by (apply nth_In; unfold keys; rewrite map_length; auto).
    assert (Hf : raweq (nth y (keys kv) VNil) (vint (Z.of_nat b)) = false).
    { apply (Hsep (Z.of_nat a) (Z.of_nat b)); auto; lia. }
    rewrite Hf in Hr'. discriminate. }
  pose proof (NoDup_incl_length Hnd Hin) as Hlen. rewrite map_length, !seq_length in Hlen. exact Hlen.
Qed.

(* C01 border_is_border *)
Lemma border_is_border_lemma kv n :
  border kv = n ->
  0 <= n /\ (forall i, 1 <= i <= n -> is_nil (kv_get kv (vint i)) = false) /\
  (vint_sep kv (n + 1) -> is_nil (kv_get kv (vint (n + 1))) = true).
Proof.
  unfold border. intros Hb. pose proof (border_from_spec_lemma (length kv) kv 0) as H. cbv zeta in H.
  rewrite Hb in H. destruct H as [H1 [H2 H3]]. split; [lia|]. split.
  - intros i Hi. apply H2. lia.
  - intros Hsep. destruct H3 as [H3|H3]; auto.
    destruct (is_nil (kv_get kv (vint (n + 1)))) eqn:E; auto. exfalso.
    assert (Hm : (S (length kv) <= length kv)%nat).
    { apply present_count_lemma.
      - replace (Z.of_nat (S (length kv))) with (n + 1) by lia. exact Hsep.
      - intros i Hi. destruct (Z.eq_dec i (n + 1)) as [->|Hne]; auto. apply H2. lia. }
    lia.
Qed.

Lemma border_empty_lemma : border [] = 0.
Proof. reflexivity. Qed.

