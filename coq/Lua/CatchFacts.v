(* M-Lua meta-theory for C05: protected calls contain every error; xpcall's handler runs exactly
   once on the error value; error() raises exactly its argument. Quantified over ALL callees,
   arguments, states, fuel and — through the effect tree — all resumption behaviours. *)
From Coq Require Import Floats Lia.
From GL Require Import Common.Bytes Lua.Syntax Lua.Num Lua.Values Lua.Names Lua.Eval
  Lua.MonadFacts Lua.EvalStepFacts.

(* the protected frame pcall/xpcall run their callee in *)
Definition pframes (fr : list frame) : list frame := (None, None) :: fr.

Definition pcall_ok (vs : list value) (s : state) : res (list value) := Ret (VBool true :: vs) s.
Definition pcall_fail (e : value) (s : state) : res (list value) := Ret [VBool false; e] s.

(* pcall is [handle] of the callee's result: at every leaf of its effect tree success is tagged
   with true, an error becomes the pair (false, e); the state is the one at that leaf. *)
Lemma pcall_handle_lemma n fr f rest s :
  req (builtin_call (S n) fr BPcall (f :: rest) s)
      (handle (call n (pframes fr) f rest s) pcall_ok pcall_fail).
Proof.
  rewrite bi_pcall. apply (catch_bind_handle_lemma (call n ((None, None) :: fr) f rest s)).
  intros a s'. exact I.
Qed.

(* C05 pcall_contains *)
Lemma pcall_contains_lemma n fr f rest s : never_err (builtin_call n fr BPcall (f :: rest) s).
Proof.
  destruct n as [|n]; [constructor|].
  rewrite bi_pcall. apply catch_never_err_lemma. intros v s'. constructor.
Qed.

(* the shape of every leaf of a pcall: (true, results...) or (false, e), fuel/unsupported pass *)
Inductive pcall_shape : res (list value) -> Prop :=
| ps_ok vs s : pcall_shape (Ret (VBool true :: vs) s)
| ps_fail e s : pcall_shape (Ret [VBool false; e] s)
| ps_fuel : pcall_shape OutOfFuel
| ps_unsup c : pcall_shape (Unsup c)
| ps_eff e s k : (forall rp s', pcall_shape (k rp s')) -> pcall_shape (Eff e s k).

Lemma pcall_shape_lemma n fr f rest s : pcall_shape (builtin_call n fr BPcall (f :: rest) s).
Proof.
  destruct n as [|n]; [constructor|]. rewrite bi_pcall.
  generalize (call n ((None, None) :: fr) f rest s). intros r.
  induction r; simpl; constructor; auto.
Qed.

(* the callee's own outcome decides pcall's, with the state untouched by the catching itself *)
Lemma pcall_of_ret_lemma n fr f rest s vs s' :
  call n (pframes fr) f rest s = Ret vs s' ->
  builtin_call (S n) fr BPcall (f :: rest) s = Ret (VBool true :: vs) s'.
Proof. intros H. rewrite bi_pcall. unfold pframes in H. rewrite H. reflexivity. Qed.

Lemma pcall_of_err_lemma n fr f rest s e s' :
  call n (pframes fr) f rest s = Err e s' ->
  builtin_call (S n) fr BPcall (f :: rest) s = Ret [VBool false; e] s'.
Proof. intros H. rewrite bi_pcall. unfold pframes in H. rewrite H. reflexivity. Qed.

(* ... and along every reply path when the callee suspends (yield across pcall) *)
Lemma pcall_leaf_err_lemma n fr f rest s p e s' :
  leaf (call n (pframes fr) f rest s) p (Err e s') ->
  exists x, leaf (builtin_call (S n) fr BPcall (f :: rest) s) p x /\ x = Ret [VBool false; e] s'.
Proof.
  intros Hl.
  assert (H2 : leaf (handle (call n (pframes fr) f rest s) pcall_ok pcall_fail) (p ++ []) (pcall_fail e s')).
  { eapply handle_leaf_err_lemma; eauto. constructor. reflexivity. }
  rewrite app_nil_r in H2.
  destruct (leaf_req_lemma _ _ _ _ (req_sym_lemma _ _ (pcall_handle_lemma n fr f rest s)) H2) as [x [Hx Hq]].
  exists x. split; auto. apply req_ret_inv_lemma. apply req_sym_lemma. exact Hq.
Qed.

Lemma pcall_leaf_ret_lemma n fr f rest s p vs s' :
  leaf (call n (pframes fr) f rest s) p (Ret vs s') ->
  exists x, leaf (builtin_call (S n) fr BPcall (f :: rest) s) p x /\ x = Ret (VBool true :: vs) s'.
Proof.
  intros Hl.
  assert (H2 : leaf (handle (call n (pframes fr) f rest s) pcall_ok pcall_fail) (p ++ []) (pcall_ok vs s')).
  { eapply handle_leaf_ret_lemma; eauto. constructor. reflexivity. }
  rewrite app_nil_r in H2.
  destruct (leaf_req_lemma _ _ _ _ (req_sym_lemma _ _ (pcall_handle_lemma n fr f rest s)) H2) as [x [Hx Hq]].
  exists x. split; auto. apply req_ret_inv_lemma. apply req_sym_lemma. exact Hq.
Qed.

(* pcall with no argument is the only way pcall itself raises: bad argument #1 *)
Lemma pcall_noarg_lemma n fr s : builtin_call (S n) fr BPcall [] s = Err (VFault 6 (frames_line fr)) s.
Proof. reflexivity. Qed.

(* ---------- xpcall ---------- *)
(* an error raised by the message handler itself is caught too: Lua 5.1 reports LUA_ERRERR with
   the message "error in error handling" (the deviation switch dv_handler_err delivers the
   handler's own error value instead) *)
Definition xp_handler_failed (e2 : value) (s2 : state) : res (list value) :=
  if dv_handler_err (dv s2) then Ret [VBool false; e2] s2
  else Ret [VBool false; VStr s_error_in_error_handling] s2.

Definition xp_handler (n : nat) (fr : list frame) (h : value) (e : value) (s : state) : res (list value) :=
  catch (bind (call n (pframes fr) h [e] s) (fun hv s'' => Ret [VBool false; first hv] s''))
        xp_handler_failed.

(* C05 xpcall_handler_once: xpcall is [handle] of the callee with the handler applied — once, to
   the error value, in the state at the error point — at each error leaf; the handler's own
   result is not handled again, and its first result is what is delivered after false. *)
Lemma xpcall_handle_lemma n fr args s :
  req (builtin_call (S n) fr BXpcall args s)
      (handle (call n (pframes fr) (nth 0 args VNil) [] s) pcall_ok
              (xp_handler n fr (nth 1 args VNil))).
Proof.
  rewrite bi_xpcall. apply (catch_bind_handle_lemma (call n ((None, None) :: fr) (nth 0 args VNil) [] s)).
  intros a s'. exact I.
Qed.

Lemma xpcall_of_err_lemma n fr args s e s1 :
  call n (pframes fr) (nth 0 args VNil) [] s = Err e s1 ->
  builtin_call (S n) fr BXpcall args s = xp_handler n fr (nth 1 args VNil) e s1.
Proof. intros H. rewrite bi_xpcall. unfold pframes in *. rewrite H. reflexivity. Qed.

Lemma xpcall_of_err_ret_lemma n fr args s e s1 hv s2 :
  call n (pframes fr) (nth 0 args VNil) [] s = Err e s1 ->
  call n (pframes fr) (nth 1 args VNil) [e] s1 = Ret hv s2 ->
  builtin_call (S n) fr BXpcall args s = Ret [VBool false; first hv] s2.
Proof. intros H H2. rewrite (xpcall_of_err_lemma _ _ _ _ _ _ H). unfold xp_handler. rewrite H2. reflexivity. Qed.

Lemma xpcall_of_ret_lemma n fr args s vs s' :
  call n (pframes fr) (nth 0 args VNil) [] s = Ret vs s' ->
  builtin_call (S n) fr BXpcall args s = Ret (VBool true :: vs) s'.
Proof. intros H. rewrite bi_xpcall. unfold pframes in *. rewrite H. reflexivity. Qed.

(* the handler is not consulted when the callee does not fail *)
Lemma xpcall_no_error_no_handler_lemma n fr f h h' s :
  never_err (call n (pframes fr) f [] s) ->
  req (builtin_call (S n) fr BXpcall [f; h] s) (builtin_call (S n) fr BXpcall [f; h'] s).
Proof.
  intros Hn. eapply req_trans_lemma; [apply xpcall_handle_lemma|].
  eapply req_trans_lemma; [|apply req_sym_lemma; apply xpcall_handle_lemma].
  simpl nth. induction Hn; simpl; constructor; auto.
Qed.

(* xpcall contains every error, also those of the handler (which leave the fragment) *)
Lemma xpcall_contains_lemma n fr args s : never_err (builtin_call n fr BXpcall args s).
Proof.
  destruct n as [|n]; [constructor|].
  eapply never_err_req_lemma; [apply req_sym_lemma; apply xpcall_handle_lemma|].
  apply handle_never_err_lemma.
  - intros a s'. constructor.
  - intros v s'. unfold xp_handler. apply catch_never_err_lemma. intros v2 s2. unfold xp_handler_failed.
    destruct (dv_handler_err (dv s2)); constructor.
Qed.

(* as long as the handler does not fail its result is delivered as is *)
Lemma xp_handler_ok_lemma n fr h e s :
  never_err (call n (pframes fr) h [e] s) ->
  req (xp_handler n fr h e s) (bind (call n (pframes fr) h [e] s) (fun hv s'' => Ret [VBool false; first hv] s'')).
Proof.
  intros H. unfold xp_handler. apply catch_of_never_err_lemma. apply bind_never_err_lemma; auto. intros; constructor.
Qed.

(* ---------- error ---------- *)
Definition plain_error_value (v : value) : Prop :=
  match v with VStr _ | VNum _ | VFault _ _ => False | _ => True end.

(* C05 error_value_any_type: a non-string (nil, boolean, table, function, thread, userdata) is
   raised unchanged whatever the level *)
Lemma error_value_any_type_lemma n fr args s lv :
  plain_error_value (nth 0 args VNil) ->
  opt_int (nth 1 args VNil) 1 s = Ret lv s ->
  builtin_call (S n) fr BError args s = Err (nth 0 args VNil) s.
Proof.
  intros Hp Hl. cbn [builtin_call]. unfold bindM at 1. rewrite Hl. cbn [bind]. unfold bindM at 1. cbn [bind].
  destruct (nth 0 args VNil); simpl in Hp; try contradiction; reflexivity.
Qed.

(* level 0: any value, also strings, unchanged *)
Lemma error_level0_lemma n fr args s lv :
  opt_int (nth 1 args VNil) 1 s = Ret lv s -> lv <= 0 ->
  (match nth 0 args VNil with VNum _ => False | _ => True end) ->
  builtin_call (S n) fr BError args s = Err (nth 0 args VNil) s.
Proof.
  intros Hl Hle Hn. cbn [builtin_call]. unfold bindM at 1. rewrite Hl. cbn [bind]. unfold bindM at 1. cbn [bind].
  assert (E : (lv <=? 0) = true) by (apply Z.leb_le; auto).
  destruct (nth 0 args VNil); try contradiction; try reflexivity; rewrite E; reflexivity.
Qed.

(* a string raised at level 1 from a Lua frame gains that frame's position *)
Lemma error_string_level1_lemma n cl l rest m s :
  builtin_call (S n) ((Some l, cl) :: rest) BError [VStr m] s = Err (VStr (pos_prefix l ++ m)) s.
Proof. reflexivity. Qed.

(* error and assert never return normally: `error` has no Ret leaf *)
Inductive never_ret {A} : res A -> Prop :=
| nr_err v s : never_ret (Err v s)
| nr_fuel : never_ret OutOfFuel
| nr_unsup c : never_ret (Unsup c)
| nr_eff e s k : (forall rp s', never_ret (k rp s')) -> never_ret (Eff e s k).

Lemma never_ret_bind_lemma {A B} (r : res A) (f : A -> state -> res B) :
  (forall a s, never_ret (f a s)) -> never_ret (bind r f).
Proof. intros Hf. induction r; simpl; try constructor; auto. Qed.

Ltac nr_tac :=
  repeat (cbv beta zeta;
    lazymatch goal with
    | |- never_ret (bindM _ _ _) => unfold bindM at 1; apply never_ret_bind_lemma; intros ? ?
    | |- never_ret (bind _ _) => apply never_ret_bind_lemma; intros ? ?
    | |- never_ret (match ?x with _ => _ end) => destruct x
    | |- never_ret (match ?x with _ => _ end _) => destruct x
    | |- never_ret (if ?x then _ else _) => destruct x
    | |- never_ret ((if ?x then _ else _) _) => destruct x
    | |- never_ret _ => first [ apply nr_err | apply nr_fuel | apply nr_unsup ]
    end).

Lemma error_never_returns_lemma n fr args s : never_ret (builtin_call n fr BError args s).
Proof.
  destruct n as [|n]; [constructor|]. cbn [builtin_call]. unfold raise, unsup, num_text. nr_tac.
Qed.
