(* M-Lua meta-theory for C04: which metamethod is selected, with which operands, and what becomes
   of its results — for all states (metatable graphs), operands, fuel and handler behaviours
   (the handler call is an arbitrary [call n fr h args s]). *)
From Coq Require Import Floats Lia.
From GL Require Import Common.Bytes Lua.Syntax Lua.Num Lua.Values Lua.Names Lua.Eval
  Lua.MonadFacts Lua.EvalStepFacts.

Definition tab_of (s : state) (r : nat) : tab := nth r (tabs s) empty_tab.
Definition rawget_of (s : state) (r : nat) (k : value) : value := kv_get (t_kv (tab_of s r)) k.

Definition first_of (r : res (list value)) : res value := bind r (fun vs s => Ret (first vs) s).
Definition unit_of (r : res (list value)) : res unit := bind r (fun _ s => Ret tt s).

(* ---------- __index ---------- *)
(* C04 index_raw_first: a present raw key never consults __index, whatever the metatable *)
Lemma index_raw_first_lemma n fr r k d s :
  is_nil (rawget_of s r k) = false ->
  index (S n) fr (VTab r) k (S d) s = Ret (rawget_of s r k) s.
Proof.
  intros H. rewrite index_tab. unfold bindM, read_tab, rawget_of, tab_of in *. cbn [bind]. rewrite H. reflexivity.
Qed.

(* absent key: nil without handler, handler function called with (table, key) and its first
   result taken, handler table indexed in turn with the same key *)
Lemma index_absent_lemma n fr r k d s :
  is_nil (rawget_of s r k) = true ->
  index (S n) fr (VTab r) k (S d) s =
  match metafield s (VTab r) s_mm_index with
  | VNil => Ret VNil s
  | VFun _ | VBuiltin _ => first_of (call n fr (metafield s (VTab r) s_mm_index) [VTab r; k] s)
  | h => index n fr h k d s
  end.
Proof.
  intros H. rewrite index_tab. unfold bindM, read_tab, rawget_of, tab_of, getmeta in *. cbn [bind]. rewrite H.
  cbn [negb bind]. destruct (metafield s (VTab r) s_mm_index); reflexivity.
Qed.

Lemma index_nontable_lemma n fr v k d s : is_tab v = false ->
  index (S n) fr v k (S d) s =
  match metafield s v s_mm_index with
  | VNil => Err (VFault 1 (frames_line fr)) s
  | VFun _ | VBuiltin _ => first_of (call n fr (metafield s v s_mm_index) [v; k] s)
  | h => index n fr h k d s
  end.
Proof.
  intros H. rewrite index_nontab by auto. unfold bindM, getmeta. cbn [bind].
  destruct (metafield s v s_mm_index); reflexivity.
Qed.

(* ---------- __newindex ---------- *)
Definition valid_key (k : value) : bool :=
  match k with VNil => false | VNum f => PrimFloat.eqb f f | _ => true end.

Definition rawset_state (s : state) (r : nat) (k x : value) : state :=
  with_tabs s (set_nth (tabs s) r (mkTab (kv_set (t_kv (tab_of s r)) k x) (t_meta (tab_of s r)))).

(* C04 newindex_only_absent: assignment to a present key is a raw store; __newindex is not
   consulted, whatever the metatable holds *)
Lemma newindex_present_lemma n fr r k x d s :
  is_nil (rawget_of s r k) = false -> valid_key k = true ->
  setindex (S n) fr (VTab r) k x (S d) s = Ret tt (rawset_state s r k x).
Proof.
  intros H Hk. rewrite setindex_tab. unfold bindM, read_tab, rawget_of, tab_of in *. cbn [bind]. rewrite H.
  cbn [negb bind ret]. unfold rawset_state, tab_of. destruct k; simpl in Hk; try discriminate; try reflexivity.
  rewrite Hk. reflexivity.
Qed.

Lemma newindex_absent_lemma n fr r k x d s :
  is_nil (rawget_of s r k) = true ->
  setindex (S n) fr (VTab r) k x (S d) s =
  match metafield s (VTab r) s_mm_newindex with
  | VNil => if valid_key k then Ret tt (rawset_state s r k x) else Err (VFault 6 (frames_line fr)) s
  | VFun _ | VBuiltin _ => unit_of (call n fr (metafield s (VTab r) s_mm_newindex) [VTab r; k; x] s)
  | h => setindex n fr h k x d s
  end.
Proof.
  intros H. rewrite setindex_tab. unfold bindM, read_tab, rawget_of, tab_of, getmeta in *. cbn [bind]. rewrite H.
  cbn [negb bind]. destruct (metafield s (VTab r) s_mm_newindex); try reflexivity.
  unfold rawset_state, tab_of. destruct k; try reflexivity. simpl. destruct (PrimFloat.eqb f f); reflexivity.
Qed.

(* ---------- arithmetic ---------- *)
Definition both_num (a b : value) : bool :=
  match tonum a, tonum b with CNum _, CNum _ => true | _, _ => false end.
Definition some_out (a b : value) : bool :=
  match tonum a, tonum b with COut, _ | _, COut => true | _, _ => false end.

(* C04 arith_left_then_right: the handler is the left operand's if it has one, else the right
   operand's; it is called with (a, b) in source order; its first result is the value *)
Lemma arith_left_then_right_lemma n fr o a b s :
  is_arith o = true -> both_num a b = false -> some_out a b = false ->
  binop_v (S n) fr o a b s =
  let h := if is_nil (metafield s a (arith_event o)) then metafield s b (arith_event o)
           else metafield s a (arith_event o) in
  if is_nil h then Err (VFault 2 (frames_line fr)) s else first_of (call n fr h [a; b] s).
Proof.
  intros Ho Hb Hout. rewrite binop_arith by auto. unfold both_num, some_out in *.
  destruct (tonum a) eqn:Ea; destruct (tonum b) eqn:Eb; try discriminate;
    unfold bindM, getmeta; cbn [bind];
    (destruct (is_nil (metafield s a (arith_event o))) eqn:E1; cbn [bind ret];
     [destruct (is_nil (metafield s b (arith_event o))) eqn:E2; reflexivity| rewrite E1; reflexivity]).
Qed.

(* numbers (and numeric strings) never consult a handler *)
Lemma arith_numbers_lemma n fr o a b x y s :
  is_arith o = true -> tonum a = CNum x -> tonum b = CNum y ->
  binop_v (S n) fr o a b s = match arith_op o x y with Some r => Ret (VNum r) s | None => Unsup 1 end.
Proof. intros Ho Ha Hb. rewrite binop_arith by auto. rewrite Ha, Hb. destruct (arith_op o x y); reflexivity. Qed.

Definition strnum (v : value) : bool := match v with VStr _ | VNum _ => true | _ => false end.
Definition is_fault (v : value) : bool := match v with VFault _ _ => true | _ => false end.

Lemma concat_left_then_right_lemma n fr a b s :
  strnum a && strnum b = false -> is_fault a = false -> is_fault b = false ->
  binop_v (S n) fr OConcat a b s =
  let h := if is_nil (metafield s a s_mm_concat) then metafield s b s_mm_concat else metafield s a s_mm_concat in
  if is_nil h then Err (VFault 5 (frames_line fr)) s else first_of (call n fr h [a; b] s).
Proof.
  intros Hs Ha Hb. rewrite binop_concat. cbv zeta. fold (strnum a) (strnum b). unfold strnum in *. rewrite Hs.
  destruct a; simpl in Ha; try discriminate; destruct b; simpl in Hb; try discriminate; simpl in Hs; try discriminate;
    unfold bindM, getmeta; cbn [bind];
    match goal with |- context [is_nil (metafield s ?x s_mm_concat)] =>
      destruct (is_nil (metafield s x s_mm_concat)) eqn:E1; cbn [bind ret] end;
    try (rewrite E1; reflexivity);
    match goal with |- context [is_nil (metafield s ?x s_mm_concat)] =>
      destruct (is_nil (metafield s x s_mm_concat)) eqn:E2; reflexivity end.
Qed.

Lemma unm_handler_lemma n fr a s : tonum a = CNo ->
  unop_v (S n) fr ONeg a s =
  if is_nil (metafield s a s_mm_unm) then Err (VFault 2 (frames_line fr)) s
  else first_of (call n fr (metafield s a s_mm_unm) [a; a] s).
Proof.
  intros H. rewrite unop_neg, H. unfold bindM, getmeta. cbn [bind].
  destruct (is_nil (metafield s a s_mm_unm)); reflexivity.
Qed.

(* ---------- equality ---------- *)
Definition eq_candidates (a b : value) : bool :=
  match a, b with VTab _, VTab _ | VUd _, VUd _ => true | _, _ => false end.

(* C04 eq_only_same_type_same_handler *)
Lemma eq_raw_equal_lemma n fr a b s : raweq a b = true -> eq_v (S n) fr a b s = Ret true s.
Proof. intros H. rewrite eq_v_step, H. reflexivity. Qed.

Lemma eq_other_types_lemma n fr a b s :
  raweq a b = false -> eq_candidates a b = false -> eq_v (S n) fr a b s = Ret false s.
Proof.
  intros H Hc. rewrite eq_v_step, H. destruct a; destruct b; simpl in Hc; try discriminate; reflexivity.
Qed.

Lemma eq_handler_lemma n fr a b s :
  raweq a b = false -> eq_candidates a b = true ->
  eq_v (S n) fr a b s =
  if negb (is_nil (metafield s a s_mm_eq)) && raweq (metafield s a s_mm_eq) (metafield s b s_mm_eq)
  then bind (call n fr (metafield s a s_mm_eq) [a; b] s) (fun vs s' => Ret (truthy (first vs)) s')
  else Ret false s.
Proof.
  intros H Hc. rewrite eq_v_step, H.
  destruct a; destruct b; simpl in Hc; try discriminate; unfold bindM, getmeta; cbn [bind];
    match goal with |- context [negb ?x && ?y] => destruct (negb x && y); reflexivity end.
Qed.

(* ---------- comparison ---------- *)
(* C04 comparison_result_is_truthiness: a selected handler's first result is reduced to its
   truth value; selection requires the two operands to offer the same handler *)
Lemma order_tm_lemma n fr ev a b s :
  order_tm (S n) fr ev a b s =
  if is_nil (metafield s a ev) then Ret None s
  else if raweq (metafield s a ev) (metafield s b ev)
       then bind (call n fr (metafield s a ev) [a; b] s) (fun vs s' => Ret (Some (truthy (first vs))) s')
       else Ret None s.
Proof.
  rewrite order_tm_step. unfold bindM, getmeta. cbn [bind]. destruct (is_nil (metafield s a ev)); [reflexivity|].
  cbn [bind]. destruct (raweq (metafield s a ev) (metafield s b ev)); reflexivity.
Qed.

Definition order_prim (a b : value) : bool :=
  match a, b with
  | VNum _, VNum _ | VStr _, VStr _ => true
  | VFault _ _, _ | _, VFault _ _ => true
  | _, _ => false
  end.

Lemma lt_handler_lemma n fr a b s :
  order_prim a b = false ->
  lt_v (S n) fr a b s =
  if negb (beqb (tyname a) (tyname b)) then Err (VFault 4 (frames_line fr)) s else
  bind (order_tm n fr s_mm_lt a b s)
       (fun r => match r with Some t => ret t | None => fault 4 (frames_line fr) end).
Proof.
  intros H. rewrite lt_v_step.
  destruct a; destruct b; simpl in H; try discriminate;
    match goal with |- context [negb ?x] => destruct (negb x) end; reflexivity.
Qed.

(* C04 le_fallback_not_lt: without a usable __le, a <= b is  not (b < a)  through __lt with the
   operands swapped; with neither, a comparison error *)
Lemma le_handler_lemma n fr a b s :
  order_prim a b = false ->
  le_v (S n) fr a b s =
  if negb (beqb (tyname a) (tyname b)) then Err (VFault 4 (frames_line fr)) s else
  bind (order_tm n fr s_mm_le a b s)
       (fun r => match r with
                 | Some t => ret t
                 | None => fun s' => bind (order_tm n fr s_mm_lt b a s')
                             (fun r2 => match r2 with Some t => ret (negb t) | None => fault 4 (frames_line fr) end)
                 end).
Proof.
  intros H. rewrite le_v_step.
  destruct a; destruct b; simpl in H; try discriminate;
    match goal with |- context [negb ?x] => destruct (negb x) end; reflexivity.
Qed.

Lemma le_fallback_not_lt_lemma n fr a b s :
  order_prim a b = false -> beqb (tyname a) (tyname b) = true ->
  is_nil (metafield s a s_mm_le) = true ->
  le_v (S (S n)) fr a b s =
  bind (order_tm (S n) fr s_mm_lt b a s)
       (fun r2 => match r2 with Some t => ret (negb t) | None => fault 4 (frames_line fr) end).
Proof.
  intros H Ht Hle. rewrite le_handler_lemma by auto. rewrite Ht. cbn [negb].
  rewrite (order_tm_lemma n fr s_mm_le a b s), Hle. reflexivity.
Qed.

(* numbers and strings compare without handlers *)
Lemma lt_numbers_lemma n fr x y s : lt_v (S n) fr (VNum x) (VNum y) s = Ret (PrimFloat.ltb x y) s.
Proof. reflexivity. Qed.
Lemma lt_strings_lemma n fr x y s : lt_v (S n) fr (VStr x) (VStr y) s = Ret (bytes_ltb x y) s.
Proof. reflexivity. Qed.

(* every relational operator yields a boolean *)
Inductive bool_result : res value -> Prop :=
| br_ret b s : bool_result (Ret (VBool b) s)
| br_err v s : bool_result (Err v s)
| br_fuel : bool_result OutOfFuel
| br_unsup c : bool_result (Unsup c)
| br_eff e s k : (forall rp s', bool_result (k rp s')) -> bool_result (Eff e s k).

Definition is_rel (o : binop) : bool :=
  match o with OEq | ONe | OLt | OLe | OGt | OGe => true | _ => false end.

Lemma bind_bool_result_lemma {A} (r : res A) (f : A -> bool) :
  bool_result (bind r (fun a s => Ret (VBool (f a)) s)).
Proof. induction r; simpl; constructor; auto. Qed.

Lemma rel_result_bool_lemma n fr o a b s : is_rel o = true -> bool_result (binop_v n fr o a b s).
Proof.
  intros H. destruct n as [|n]; [constructor|].
  destruct o; simpl in H; try discriminate;
    [rewrite binop_eq|rewrite binop_ne|rewrite binop_lt|rewrite binop_le|rewrite binop_gt|rewrite binop_ge];
    unfold bindM, ret.
  - apply (bind_bool_result_lemma _ (fun r => r)).
  - apply (bind_bool_result_lemma _ negb).
  - apply (bind_bool_result_lemma _ (fun r => r)).
  - apply (bind_bool_result_lemma _ (fun r => r)).
  - apply (bind_bool_result_lemma _ (fun r => r)).
  - apply (bind_bool_result_lemma _ (fun r => r)).
Qed.

(* ---------- __call ---------- *)
Lemma call_handler_lemma n fr f args s : is_fun_or_builtin f = false ->
  call (S n) fr f args s =
  if is_nil (metafield s f s_mm_call) then Err (VFault 3 (frames_line fr)) s
  else call n fr (metafield s f s_mm_call) (f :: args) s.
Proof.
  intros H. rewrite call_other by auto. unfold bindM, getmeta. cbn [bind].
  destruct (is_nil (metafield s f s_mm_call)); reflexivity.
Qed.

(* ---------- raw operations ---------- *)
(* C04 raw_ops_never_call: closed forms that mention t_kv only — no metatable, no call *)
Lemma rawget_never_calls_lemma n fr r k rest s :
  builtin_call (S n) fr BRawGet (VTab r :: k :: rest) s = Ret [rawget_of s r k] s.
Proof. reflexivity. Qed.

Lemma rawset_never_calls_lemma n fr r k x rest s : valid_key k = true ->
  builtin_call (S n) fr BRawSet (VTab r :: k :: x :: rest) s = Ret [VTab r] (rawset_state s r k x).
Proof.
  intros H. destruct k; simpl in H; try discriminate; try reflexivity.
  cbn [builtin_call nth]. unfold bindM, read_tab. cbn [bind]. rewrite H. reflexivity.
Qed.

Lemma rawequal_never_calls_lemma n fr a b rest s :
  builtin_call (S n) fr BRawEqual (a :: b :: rest) s = Ret [VBool (raweq a b)] s.
Proof. reflexivity. Qed.

(* independence from metatables, stated directly: two states whose tables have the same raw
   contents (but arbitrary metatables) give the same rawget result *)
Lemma rawget_meta_independent_lemma n fr r k rest s s' :
  t_kv (tab_of s r) = t_kv (tab_of s' r) ->
  exists v, builtin_call (S n) fr BRawGet (VTab r :: k :: rest) s = Ret [v] s /\
            builtin_call (S n) fr BRawGet (VTab r :: k :: rest) s' = Ret [v] s'.
Proof.
  intros H. exists (rawget_of s r k). rewrite !rawget_never_calls_lemma. unfold rawget_of. rewrite H. auto.
Qed.

(* ---------- __tostring, __metatable ---------- *)
Lemma tostring_handler_lemma n fr v s :
  is_nil (metafield s v s_mm_tostring) = false ->
  tostring_v (S n) fr v s = first_of (call n fr (metafield s v s_mm_tostring) [v] s).
Proof.
  intros H. rewrite tostring_v_step. unfold bindM, getmeta. cbn [bind]. rewrite H. reflexivity.
Qed.

(* getmetatable: the __metatable field if present, else the metatable itself, else nil *)
Lemma getmetatable_lemma n fr v rest s :
  builtin_call (S n) fr BGetMt (v :: rest) s =
  if negb (is_nil (metafield s v s_mm_metatable)) then Ret [metafield s v s_mm_metatable] s
  else match metatable_of s v with Some m => Ret [VTab m] s | None => Ret [VNil] s end.
Proof.
  cbn [builtin_call nth]. unfold bindM, getmeta. cbn [bind].
  destruct (negb (is_nil (metafield s v s_mm_metatable))); reflexivity.
Qed.

(* setmetatable on a protected table raises and changes nothing *)
Inductive is_err_unchanged (s : state) : res (list value) -> Prop :=
| ieu v : is_err_unchanged s (Err v s).

Lemma setmetatable_protected_lemma n fr r m rest s :
  is_nil (metafield s (VTab r) s_mm_metatable) = false ->
  is_err_unchanged s (builtin_call (S n) fr BSetMt (VTab r :: m :: rest) s).
Proof.
  intros H. cbn [builtin_call nth tl]. unfold bindM, getmeta. cbn [bind]. rewrite H. cbn [negb]. constructor.
Qed.

Lemma setmetatable_sets_lemma n fr r m rest s :
  is_nil (metafield s (VTab r) s_mm_metatable) = true ->
  builtin_call (S n) fr BSetMt (VTab r :: VTab m :: rest) s =
  Ret [VTab r] (with_tabs s (set_nth (tabs s) r (mkTab (t_kv (tab_of s r)) (Some m)))).
Proof.
  intros H. cbn [builtin_call nth tl]. unfold bindM, getmeta. cbn [bind]. rewrite H. reflexivity.
Qed.

(* setmetatable(t) with the second argument missing is an error and changes nothing *)
Lemma setmetatable_missing_lemma n fr r s :
  builtin_call (S n) fr BSetMt [VTab r] s = Err (VFault 6 (frames_line fr)) s.
Proof. reflexivity. Qed.
