(* M-Lua meta-theory: the result monad [res] with resumable effects.
   Equalities between results that contain continuations are stated up to [req] (pointwise
   equality of the continuations) so that no functional-extensionality axiom is needed. *)
From Coq Require Import Floats.
From GL Require Import Common.Bytes Lua.Syntax Lua.Num Lua.Values.

(* ---------- equality of results up to pointwise equal continuations ---------- *)
Inductive req {A} : res A -> res A -> Prop :=
| req_ret a s : req (Ret a s) (Ret a s)
| req_err v s : req (Err v s) (Err v s)
| req_fuel : req OutOfFuel OutOfFuel
| req_unsup c : req (Unsup c) (Unsup c)
| req_eff e s k k' : (forall rp s', req (k rp s') (k' rp s')) -> req (Eff e s k) (Eff e s k').

Lemma req_refl_lemma {A} (r : res A) : req r r.
Proof. induction r; constructor; auto. Qed.

Lemma req_sym_lemma {A} (r r' : res A) : req r r' -> req r' r.
Proof. induction 1; constructor; auto. Qed.

Lemma req_trans_lemma {A} (r1 r2 r3 : res A) : req r1 r2 -> req r2 r3 -> req r1 r3.
Proof.
  intros H; revert r3; induction H; intros r3 H3; inversion H3; subst; constructor; auto.
Qed.

Lemma req_eq_lemma {A} (r r' : res A) : r = r' -> req r r'.
Proof. intros ->; apply req_refl_lemma. Qed.

(* on results without a pending effect [req] is Leibniz equality *)
Definition is_eff {A} (r : res A) : bool := match r with Eff _ _ _ => true | _ => false end.

Lemma req_noeff_eq_lemma {A} (r r' : res A) : req r r' -> is_eff r = false -> r = r'.
Proof. destruct 1; simpl; intros; try reflexivity; discriminate. Qed.

Lemma req_ret_inv_lemma {A} (r : res A) a s : req r (Ret a s) -> r = Ret a s.
Proof. inversion 1; reflexivity. Qed.

Lemma req_err_inv_lemma {A} (r : res A) v s : req r (Err v s) -> r = Err v s.
Proof. inversion 1; reflexivity. Qed.

(* ---------- monad laws ---------- *)
Lemma bind_ret_l_lemma {A B} (a : A) s (f : A -> state -> res B) : bind (Ret a s) f = f a s.
Proof. reflexivity. Qed.

Lemma bind_ret_r_lemma {A} (r : res A) : req (bind r (fun a s => Ret a s)) r.
Proof. induction r; simpl; constructor; auto. Qed.

Lemma bind_assoc_lemma {A B C} (r : res A) (f : A -> state -> res B) (g : B -> state -> res C) :
  req (bind (bind r f) g) (bind r (fun a s => bind (f a s) g)).
Proof. induction r; simpl; try constructor; auto. apply req_refl_lemma. Qed.

Lemma bind_req_lemma {A B} (r r' : res A) (f f' : A -> state -> res B) :
  req r r' -> (forall a s, req (f a s) (f' a s)) -> req (bind r f) (bind r' f').
Proof. induction 1; intros Hf; simpl; try constructor; auto. Qed.

Lemma catch_req_lemma {A} (r r' : res A) (h h' : value -> state -> res A) :
  req r r' -> (forall v s, req (h v s) (h' v s)) -> req (catch r h) (catch r' h').
Proof. induction 1; intros Hh; simpl; try constructor; auto. Qed.

Lemma bind_err_lemma {A B} v s (f : A -> state -> res B) : bind (Err v s) f = Err v s.
Proof. reflexivity. Qed.

(* ---------- catch ---------- *)
Lemma catch_ret_lemma {A} (a : A) s h : catch (Ret a s) h = Ret a s.
Proof. reflexivity. Qed.

Lemma catch_err_lemma {A} v s (h : value -> state -> res A) : catch (Err v s) h = h v s.
Proof. reflexivity. Qed.

Lemma catch_fuel_lemma {A} (h : value -> state -> res A) : catch OutOfFuel h = OutOfFuel.
Proof. reflexivity. Qed.

Lemma catch_unsup_lemma {A} c (h : value -> state -> res A) : catch (Unsup c) h = Unsup c.
Proof. reflexivity. Qed.

(* re-raising handler is the identity *)
Lemma catch_reraise_lemma {A} (r : res A) : req (catch r (fun v s => Err v s)) r.
Proof. induction r; simpl; constructor; auto. Qed.

(* [handle r onret onerr]: the one place a result is consumed: at every leaf of the effect tree
   exactly one of the two continuations is applied, exactly once, and its result is NOT handled
   again. *)
Fixpoint handle {A B} (r : res A) (onret : A -> state -> res B) (onerr : value -> state -> res B) : res B :=
  match r with
  | Ret a s => onret a s
  | Err v s => onerr v s
  | OutOfFuel => OutOfFuel
  | Unsup c => Unsup c
  | Eff e s k => Eff e s (fun rp s' => handle (k rp s') onret onerr)
  end.

Definition no_err1 {A} (r : res A) : Prop := match r with Err _ _ | Eff _ _ _ => False | _ => True end.

(* catch-after-bind is [handle] when the success continuation cannot itself fail or suspend *)
Lemma catch_bind_handle_lemma {A B} (r : res A) (f : A -> state -> res B) (h : value -> state -> res B) :
  (forall a s, no_err1 (f a s)) ->
  req (catch (bind r f) h) (handle r f h).
Proof.
  intros Hf. induction r; simpl; try constructor; auto.
  - specialize (Hf a s). destruct (f a s); simpl in *; try contradiction; constructor.
  - apply req_refl_lemma.
Qed.

Lemma bind_handle_lemma {A B} (r : res A) (f : A -> state -> res B) :
  req (bind r f) (handle r f (fun v s => Err v s)).
Proof. induction r; simpl; try constructor; auto. apply req_refl_lemma. Qed.

Lemma catch_handle_lemma {A} (r : res A) (h : value -> state -> res A) :
  req (catch r h) (handle r (fun a s => Ret a s) h).
Proof. induction r; simpl; try constructor; auto. apply req_refl_lemma. Qed.

(* catch distributes over bind when the bound computation is caught by the same handler only
   on its own errors: the general interaction law *)
Lemma catch_bind_lemma {A B} (r : res A) (f : A -> state -> res B) (h : value -> state -> res B) :
  req (catch (bind r f) h) (handle r (fun a s => catch (f a s) h) h).
Proof. induction r; simpl; try constructor; auto; apply req_refl_lemma. Qed.

(* a computation that cannot raise is unaffected by catch *)
Inductive never_err {A} : res A -> Prop :=
| ne_ret a s : never_err (Ret a s)
| ne_fuel : never_err OutOfFuel
| ne_unsup c : never_err (Unsup c)
| ne_eff e s k : (forall rp s', never_err (k rp s')) -> never_err (Eff e s k).

Lemma never_err_req_lemma {A} (r r' : res A) : req r r' -> never_err r -> never_err r'.
Proof.
  induction 1; intros Hn; try constructor; try (inversion Hn; fail).
  inversion Hn; subst. intros rp s'. apply H0. match goal with H : forall _ _, never_err (k _ _) |- _ => apply H end.
Qed.

Lemma catch_never_err_lemma {A} (r : res A) (h : value -> state -> res A) :
  (forall v s, never_err (h v s)) -> never_err (catch r h).
Proof. intros Hh. induction r; simpl; try constructor; auto. Qed.

Lemma catch_of_never_err_lemma {A} (r : res A) (h : value -> state -> res A) :
  never_err r -> req (catch r h) r.
Proof. induction 1; simpl; constructor; auto. Qed.

Lemma bind_never_err_lemma {A B} (r : res A) (f : A -> state -> res B) :
  never_err r -> (forall a s, never_err (f a s)) -> never_err (bind r f).
Proof. induction 1; intros Hf; simpl; try constructor; auto. Qed.

Lemma handle_never_err_lemma {A B} (r : res A) (f : A -> state -> res B) h :
  (forall a s, never_err (f a s)) -> (forall v s, never_err (h v s)) -> never_err (handle r f h).
Proof. intros Hf Hh. induction r; simpl; try constructor; auto. Qed.

(* never_err is exactly "no Err leaf along any reply path" *)
Inductive leaf {A} : res A -> list (reply * state) -> res A -> Prop :=
| leaf_here r : is_eff r = false -> leaf r [] r
| leaf_eff e s k rp s' p r : leaf (k rp s') p r -> leaf (Eff e s k) ((rp, s') :: p) r.

Lemma never_err_leaf_lemma {A} (r : res A) :
  never_err r <-> (forall p v s, ~ leaf r p (Err v s)).
Proof.
  split.
  - induction 1; intros p v0 s0 Hl; inversion Hl; subst; try discriminate.
    eapply H0; eauto.
  - induction r; intros Hl; try constructor.
    + exfalso. eapply Hl. constructor. reflexivity.
    + intros rp s'. apply H. intros p v0 s0 Hl'. eapply Hl. econstructor. eassumption.
Qed.

(* executable path following (for examples: never normalise a continuation, apply it) *)
Fixpoint follow {A} (r : res A) (p : list (reply * state)) {struct p} : option (res A) :=
  match p with
  | [] => Some r
  | (rp, s') :: p' => match r with Eff _ _ k => follow (k rp s') p' | _ => None end
  end.

Lemma follow_leaf_lemma {A} (r : res A) p x : follow r p = Some x -> is_eff x = false -> leaf r p x.
Proof.
  revert r; induction p as [|[rp s'] p IH]; intros r H Hx; simpl in H.
  - inversion H; subst. constructor; auto.
  - destruct r; try discriminate. constructor. apply IH; auto.
Qed.

(* leaves of a handled computation: a leaf of r, then a leaf of the continuation applied to it *)
Lemma handle_leaf_ret_lemma {A B} (r : res A) (f : A -> state -> res B) h p a s q x :
  leaf r p (Ret a s) -> leaf (f a s) q x -> leaf (handle r f h) (p ++ q) x.
Proof.
  intros Hl; revert q x. remember (Ret a s) as t eqn:Et. induction Hl; intros q x Hq; subst; simpl.
  - exact Hq.
  - constructor. apply IHHl; auto.
Qed.

Lemma handle_leaf_err_lemma {A B} (r : res A) (f : A -> state -> res B) h p v s q x :
  leaf r p (Err v s) -> leaf (h v s) q x -> leaf (handle r f h) (p ++ q) x.
Proof.
  intros Hl; revert q x. remember (Err v s) as t eqn:Et. induction Hl; intros q x Hq; subst; simpl.
  - exact Hq.
  - constructor. apply IHHl; auto.
Qed.

Lemma leaf_req_lemma {A} (r r' : res A) p x : req r r' -> leaf r p x -> exists x', leaf r' p x' /\ req x x'.
Proof.
  intros Hr Hl; revert r' Hr. induction Hl; intros r' Hr.
  - exists r'. split; auto. destruct Hr; try discriminate; constructor; reflexivity.
  - inversion Hr; subst. destruct (IHHl _ (H3 rp s')) as [x' [Hx Hq]]. exists x'. split; auto. constructor; auto.
Qed.

(* ---------- M-level helpers ---------- *)
Lemma bindM_ret_lemma {A B} (a : A) (f : A -> M B) s : bindM (ret a) f s = f a s.
Proof. reflexivity. Qed.

Lemma bindM_unfold_lemma {A B} (m : M A) (f : A -> M B) s : bindM m f s = bind (m s) f.
Proof. reflexivity. Qed.

(* fuel-independence at the level of the combinators: if r' extends r (same result unless r ran
   out of fuel) this is preserved by bind, catch and handle *)
Inductive rle {A} : res A -> res A -> Prop :=
| rle_fuel r : rle OutOfFuel r
| rle_ret a s : rle (Ret a s) (Ret a s)
| rle_err v s : rle (Err v s) (Err v s)
| rle_unsup c : rle (Unsup c) (Unsup c)
| rle_eff e s k k' : (forall rp s', rle (k rp s') (k' rp s')) -> rle (Eff e s k) (Eff e s k').

Lemma rle_refl_lemma {A} (r : res A) : rle r r.
Proof. induction r; constructor; auto. Qed.

Lemma rle_trans_lemma {A} (r1 r2 r3 : res A) : rle r1 r2 -> rle r2 r3 -> rle r1 r3.
Proof.
  intros H; revert r3; induction H; intros r3 H3; try (constructor; fail); inversion H3; subst; constructor; auto.
Qed.

Lemma rle_bind_lemma {A B} (r r' : res A) (f f' : A -> state -> res B) :
  rle r r' -> (forall a s, rle (f a s) (f' a s)) -> rle (bind r f) (bind r' f').
Proof. induction 1; intros Hf; simpl; try constructor; auto. Qed.

Lemma rle_catch_lemma {A} (r r' : res A) (h h' : value -> state -> res A) :
  rle r r' -> (forall v s, rle (h v s) (h' v s)) -> rle (catch r h) (catch r' h').
Proof. induction 1; intros Hh; simpl; try constructor; auto. Qed.

Lemma rle_handle_lemma {A B} (r r' : res A) (f f' : A -> state -> res B) h h' :
  rle r r' -> (forall a s, rle (f a s) (f' a s)) -> (forall v s, rle (h v s) (h' v s)) ->
  rle (handle r f h) (handle r' f' h').
Proof. induction 1; intros Hf Hh; simpl; try constructor; auto. Qed.

(* a result without pending effect that is not OutOfFuel is preserved exactly *)
Lemma rle_done_lemma {A} (r r' : res A) : rle r r' -> is_eff r = false -> r <> OutOfFuel -> r' = r.
Proof. destruct 1; simpl; intros; try reflexivity; try congruence. Qed.
