(* Case evaluator shared by the program-level properties (C01–C06): a generated program, the
   observable outcome of the real interpreter, compared with the reference evaluator (spec) and
   with the evaluator under the switches that reproduce listed known findings (impl). *)
From Coq Require Import Floats.
From GL Require Import Common.Bytes Lua.Syntax Lua.Num Lua.Values Lua.Eval Lua.Run.

Inductive case :=
| CProg (body : list stmt) (obs : outcome)
| CProgF (k : Z) (str : bool) (body : list stmt) (obs : outcome).   (* the k-th emit call fails *)

Definition fuel : nat := Z.to_nat 30000.

(* dv_localfunc is off since fix 1f23970 (only `local function f` sees itself) *)
Definition gopher_devs := mkDevs true false false false 0.
Definition with_fault (d : devs) (k : Z) (str : bool) := mkDevs (dv_handler_err d) (dv_localfunc d) (dv_wrap_noprefix d) str k.

Definition is_skip (o : outcome) := match o with Outcome _ _ => false | _ => true end.

Definition run_case (d : devs) (c : case) : outcome * outcome :=
  match c with
  | CProg b obs => (outcome_of (run_program fuel d b), obs)
  | CProgF k str b obs => (outcome_of (run_program fuel (with_fault d k str) b), obs)
  end.

Definition check_skip (c : case) : bool := is_skip (fst (run_case no_devs c)).

Definition check_spec (c : case) : bool :=
  let '(o, obs) := run_case no_devs c in is_skip o || outcome_eqb o obs.

Definition check_impl (c : case) : bool :=
  let '(o, obs) := run_case gopher_devs c in
  is_skip (fst (run_case no_devs c)) || is_skip o || outcome_eqb o obs.
