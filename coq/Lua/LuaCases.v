(* Case evaluator shared by the program-level properties (C01–C06): a generated program, the
   observable outcome of the real interpreter, compared with the reference evaluator (spec) and
   with the evaluator under the switches that reproduce listed known findings (impl). *)
From Coq Require Import Floats.
From GL Require Import Common.Bytes Lua.Syntax Lua.Num Lua.Values Lua.Eval Lua.Run.

Inductive case := CProg (body : list stmt) (obs : outcome).

Definition fuel : nat := Z.to_nat 30000.

Definition gopher_devs := mkDevs false true false false false.

Definition is_skip (o : outcome) := match o with Outcome _ _ => false | _ => true end.

Definition check_skip (c : case) : bool :=
  match c with CProg b _ => is_skip (outcome_of (run_program fuel no_devs b)) end.

Definition check_spec (c : case) : bool :=
  match c with CProg b obs =>
    let o := outcome_of (run_program fuel no_devs b) in is_skip o || outcome_eqb o obs end.

Definition check_impl (c : case) : bool :=
  match c with CProg b obs =>
    let o := outcome_of (run_program fuel gopher_devs b) in
    is_skip (outcome_of (run_program fuel no_devs b)) || is_skip o || outcome_eqb o obs end.
