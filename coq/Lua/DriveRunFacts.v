(* M-Lua meta-theory: instances of the whole-evaluator invariant (EvalInvFacts).
   (1) every evaluator result is [guarded] (respects the coroutine frame, emits only legal
       resume/yield effects) => the driver never gets stuck on any program;
   (2) the store only grows and the deviation switches / string metatable never change. *)
From Coq Require Import Floats Lia.
From GL Require Import Common.Bytes Lua.Syntax Lua.Num Lua.Values Lua.Names Lua.Eval Lua.Run
  Lua.ValuesFacts Lua.MonadFacts Lua.EvalStepFacts Lua.DriveFacts Lua.EvalInvFacts.

(* ---------- (1) coroutine frame ---------- *)
Definition ge_co (e : effect) (s : state) : Prop :=
  match e with EResume co _ _ => resumable s co | EYield _ => cur s <> None end.

Lemma co_frame_same_cos_lemma s s' : cur s' = cur s -> cos s' = cos s -> co_frame s s'.
Proof.
  intros H1 H2. unfold co_frame, status. rewrite H1, H2. repeat split; auto. intros; lia.
Qed.

Lemma co_frame_new_co_lemma s f : co_frame s (with_cos s (cos s ++ [CoInit f])).
Proof.
  unfold co_frame, status; simpl. rewrite app_length; simpl. repeat split; try lia.
  - intros i Hi. apply app_nth1; auto.
  - intros i Hi Hi'. assert (i = length (cos s)) by lia. subst. exists f.
    rewrite app_nth2 by lia. rewrite Nat.sub_diag. reflexivity.
Qed.

Definition inv_co {A} := @inv co_frame ge_co A.

Lemma all_inv_co_lemma : forall n, all_inv co_frame ge_co n.
Proof.
  apply all_inv_all.
  - apply co_frame_refl_lemma.
  - apply co_frame_trans_lemma.
  - intros; apply co_frame_same_cos_lemma; reflexivity.
  - intros; apply co_frame_same_cos_lemma; reflexivity.
  - intros; apply co_frame_same_cos_lemma; reflexivity.
  - intros; apply co_frame_same_cos_lemma; reflexivity.
  - intros; apply co_frame_same_cos_lemma; reflexivity.
  - intros; apply co_frame_same_cos_lemma; reflexivity.
  - intros; apply co_frame_same_cos_lemma; reflexivity.
  - intros; apply co_frame_new_co_lemma.
  - intros; apply co_frame_same_cos_lemma; reflexivity.
  - intros s r args w H. exact H.
  - intros s args H. exact H.
Qed.

Lemma inv_guarded_lemma s (r : res (list value)) : inv co_frame ge_co s r -> guarded s r.
Proof.
  revert s. induction r; intros s0 Hi; inversion Hi; subst.
  - constructor; auto.
  - constructor; auto.
  - constructor.
  - constructor. unfold UC in *. lia.
  - destruct e; simpl in *.
    + apply g_resume; auto.
    + apply g_yield; auto.
Qed.

(* every call of the evaluator is guarded: the hypothesis of DriveFacts.drive_never_stuck *)
Lemma call_guarded_lemma m fr f args s : guarded s (call m fr f args s).
Proof.
  apply inv_guarded_lemma.
  destruct (all_inv_co_lemma m) as [_ [_ [_ [_ [_ [_ [_ [_ [_ [_ [H _]]]]]]]]]]]. apply H.
Qed.

(* C06 status automaton, closed form: no program, at any fuel, drives the coroutine machinery
   into an impossible configuration (resume of a running/normal/dead coroutine reaching the
   driver, a suspended coroutine without continuation, a yield with nobody to return to) *)
Lemma run_never_stuck_final_lemma fuel d body : ~ stuck (run_program fuel d body).
Proof. apply run_never_stuck_lemma. exact call_guarded_lemma. Qed.

Lemma drive_never_stuck_final_lemma n conts stack r s0 :
  co_wf s0 (whos stack) -> conts_ok s0 conts -> stack_ok stack -> guarded s0 r ->
  ~ stuck (drive n conts stack r).
Proof. apply drive_never_stuck_lemma. exact call_guarded_lemma. Qed.

(* the evaluator never changes who is running and only appends fresh coroutines *)
Lemma eval_co_frame_lemma n cx ln en e s v s' : eval_e n cx ln en e s = Ret v s' -> co_frame s s'.
Proof.
  intros H. destruct (all_inv_co_lemma n) as [He _]. specialize (He cx ln en e s). rewrite H in He.
  inversion He; auto.
Qed.

(* ---------- (2) the store only grows ---------- *)
Definition store_grows (s s' : state) : Prop :=
  (length (cells s) <= length (cells s'))%nat /\ (length (tabs s) <= length (tabs s'))%nat /\
  (length (clos s) <= length (clos s'))%nat /\ (length (cos s) <= length (cos s'))%nat /\
  (length (uds s) <= length (uds s'))%nat /\ (exists ext, trace s' = trace s ++ ext) /\
  dv s' = dv s /\ strmt s' = strmt s /\ cur s' = cur s.

Lemma store_grows_refl_lemma s : store_grows s s.
Proof. unfold store_grows. repeat split; auto. exists []. rewrite app_nil_r. reflexivity. Qed.

Lemma store_grows_trans_lemma s1 s2 s3 : store_grows s1 s2 -> store_grows s2 s3 -> store_grows s1 s3.
Proof.
  intros [A1 [A2 [A3 [A4 [A5 [[e1 A6] [A7 [A8 A9]]]]]]]] [B1 [B2 [B3 [B4 [B5 [[e2 B6] [B7 [B8 B9]]]]]]]].
  unfold store_grows. repeat split; try lia; try congruence.
  exists (e1 ++ e2). rewrite B6, A6, app_assoc. reflexivity.
Qed.

Ltac grow_prim := intros; unfold store_grows; simpl; rewrite ?app_length, ?set_nth_length_lemma; simpl;
  repeat split; try lia; try (exists []; rewrite app_nil_r; reflexivity); try (eexists; reflexivity).

Lemma all_inv_grow_lemma : forall n, all_inv store_grows (fun _ _ => True) n.
Proof.
  apply all_inv_all.
  - apply store_grows_refl_lemma.
  - apply store_grows_trans_lemma.
  - grow_prim. - grow_prim. - grow_prim. - grow_prim. - grow_prim. - grow_prim. - grow_prim. - grow_prim.
  - grow_prim.
  - intros; exact I.
  - intros; exact I.
Qed.

(* C03: a cell allocated at some point keeps a valid index for ever: whatever statement runs,
   the resulting store is at least as long (so "fresh" indices are fresh for all older closures) *)
Lemma exec_store_grows_lemma n cx en st s r s' : exec n cx en st s = Ret r s' -> store_grows s s'.
Proof.
  intros H. destruct (all_inv_grow_lemma n) as [_ [_ [_ [_ [_ [_ [_ [_ [_ [_ [_ [_ [He _]]]]]]]]]]]]].
  specialize (He cx en st s). rewrite H in He. inversion He; auto.
Qed.

Lemma call_store_grows_lemma n fr f args s r s' : call n fr f args s = Ret r s' -> store_grows s s'.
Proof.
  intros H. destruct (all_inv_grow_lemma n) as [_ [_ [_ [_ [_ [_ [_ [_ [_ [_ [He _]]]]]]]]]]].
  specialize (He fr f args s). rewrite H in He. inversion He; auto.
Qed.

Lemma call_err_store_grows_lemma n fr f args s v s' : call n fr f args s = Err v s' -> store_grows s s'.
Proof.
  intros H. destruct (all_inv_grow_lemma n) as [_ [_ [_ [_ [_ [_ [_ [_ [_ [_ [He _]]]]]]]]]]].
  specialize (He fr f args s). rewrite H in He. inversion He; auto.
Qed.

(* C05: what a failed (or successful) call did to the observable trace is an extension: rows
   emitted before the call are never altered or removed, on any exit path *)
Lemma call_trace_extends_lemma n fr f args s v s' :
  call n fr f args s = Err v s' \/ (exists r, call n fr f args s = Ret r s') ->
  exists ext, trace s' = trace s ++ ext.
Proof.
  intros [H|[r H]].
  - destruct (call_err_store_grows_lemma _ _ _ _ _ _ _ H) as [_ [_ [_ [_ [_ [He _]]]]]]. exact He.
  - destruct (call_store_grows_lemma _ _ _ _ _ _ _ H) as [_ [_ [_ [_ [_ [He _]]]]]]. exact He.
Qed.
