(* M-Lua meta-theory for C01: fuel monotonicity of the whole evaluator. With more fuel a result
   can only be refined where it was OutOfFuel (relation [rle] of MonadFacts, which also relates
   the continuations of pending effects pointwise): "the result Lua 5.1 defines" is independent
   of the fuel. Induction on the smaller fuel over the 20 mutually recursive functions. *)
From Coq Require Import Floats Lia.
From GL Require Import Common.Bytes Lua.Syntax Lua.Num Lua.Values Lua.Names Lua.Eval Str.StrModel
  Lua.ValuesFacts Lua.MonadFacts Lua.EvalStepFacts.

Lemma rle_bindM_lemma {A B} (m m' : M A) (f f' : A -> M B) s :
  rle (m s) (m' s) -> (forall a s1, rle (f a s1) (f' a s1)) -> rle (bindM m f s) (bindM m' f' s).
Proof. intros H Hf. unfold bindM. apply rle_bind_lemma; auto. Qed.

Lemma rle_mapM_lemma {A B} (f f' : A -> M B) (l : list A) :
  (forall a s, rle (f a s) (f' a s)) -> forall s, rle (mapM f l s) (mapM f' l s).
Proof.
  intros Hf. induction l as [|a l IH]; intros s; simpl.
  - apply rle_refl_lemma.
  - apply rle_bindM_lemma; auto. intros b s1. apply rle_bindM_lemma; auto. intros bs s2. apply rle_refl_lemma.
Qed.

Lemma rle_eval_list_with_lemma one one' multi multi' es :
  (forall e s, rle (one e s) (one' e s)) -> (forall e s, rle (multi e s) (multi' e s)) ->
  forall s, rle (eval_list_with one multi es s) (eval_list_with one' multi' es s).
Proof.
  intros H1 H2. induction es as [|e r IH]; intros s.
  - apply rle_refl_lemma.
  - destruct r as [|e' r']; [apply H2|].
    change (eval_list_with one multi (e :: e' :: r') s) with
      (bindM (one e) (fun v => do vs <- eval_list_with one multi (e' :: r'); ret (v :: vs)) s).
    change (eval_list_with one' multi' (e :: e' :: r') s) with
      (bindM (one' e) (fun v => do vs <- eval_list_with one' multi' (e' :: r'); ret (v :: vs)) s).
    apply rle_bindM_lemma; auto. intros v s1. apply rle_bindM_lemma; auto. intros vs s2. apply rle_refl_lemma.
Qed.

Ltac le_leaf := first [ apply rle_refl_lemma | apply rle_fuel | solve [auto] ].

Ltac le_tac :=
  repeat (cbv beta zeta;
    lazymatch goal with
    | |- rle ?x ?x => apply rle_refl_lemma
    | |- rle (bindM _ _ _) (bindM _ _ _) => apply rle_bindM_lemma; [|intros ? ?]
    | |- rle (bind _ _) (bind _ _) => apply rle_bind_lemma; [|intros ? ?]
    | |- rle (catch _ _) (catch _ _) => apply rle_catch_lemma; [|intros ? ?]
    | |- rle (mapM _ _ _) (mapM _ _ _) => apply rle_mapM_lemma; intros ? ?
    | |- rle (eval_list_with _ _ _ _) (eval_list_with _ _ _ _) => apply rle_eval_list_with_lemma; intros ? ?
    | |- rle (match ?x with _ => _ end) _ => destruct x
    | |- rle (match ?x with _ => _ end _) _ => destruct x
    | |- rle (if ?x then _ else _) _ => destruct x
    | |- rle ((if ?x then _ else _) _) _ => destruct x
    | |- rle _ _ => le_leaf
    end).

Definition all_le (n m : nat) : Prop :=
  (forall cx ln en e s, rle (eval_e n cx ln en e s) (eval_e m cx ln en e s)) /\
  (forall cx ln en e s, rle (eval_multi n cx ln en e s) (eval_multi m cx ln en e s)) /\
  (forall fr v k d s, rle (index n fr v k d s) (index m fr v k d s)) /\
  (forall fr v k x d s, rle (setindex n fr v k x d s) (setindex m fr v k x d s)) /\
  (forall fr o a b s, rle (binop_v n fr o a b s) (binop_v m fr o a b s)) /\
  (forall fr a b s, rle (eq_v n fr a b s) (eq_v m fr a b s)) /\
  (forall fr ev a b s, rle (order_tm n fr ev a b s) (order_tm m fr ev a b s)) /\
  (forall fr a b s, rle (lt_v n fr a b s) (lt_v m fr a b s)) /\
  (forall fr a b s, rle (le_v n fr a b s) (le_v m fr a b s)) /\
  (forall fr o a s, rle (unop_v n fr o a s) (unop_v m fr o a s)) /\
  (forall fr f args s, rle (call n fr f args s) (call m fr f args s)) /\
  (forall cx en all hist start s, rle (block n cx en all hist start s) (block m cx en all hist start s)) /\
  (forall cx en st s, rle (exec n cx en st s) (exec m cx en st s)) /\
  (forall cx en ln c body s, rle (while_loop n cx en ln c body s) (while_loop m cx en ln c body s)) /\
  (forall cx en body ln c s, rle (repeat_loop n cx en body ln c s) (repeat_loop m cx en body ln c s)) /\
  (forall cx en x i lim step body s,
     rle (numfor_loop n cx en x i lim step body s) (numfor_loop m cx en x i lim step body s)) /\
  (forall cx en ln xs f st ctl body s,
     rle (genfor_loop n cx en ln xs f st ctl body s) (genfor_loop m cx en ln xs f st ctl body s)) /\
  (forall fr v s, rle (tostring_v n fr v s) (tostring_v m fr v s)) /\
  (forall fr b args s, rle (builtin_call n fr b args s) (builtin_call m fr b args s)).

Lemma all_le_0 m : all_le 0 m.
Proof. repeat split; intros; apply rle_fuel. Qed.

Section Step.
Variables n m : nat.
Hypothesis IH : all_le n m.

Let IH_e := proj1 IH.
Let IH_m := proj1 (proj2 IH).
Let IH_index := proj1 (proj2 (proj2 IH)).
Let IH_setindex := proj1 (proj2 (proj2 (proj2 IH))).
Let IH_binop := proj1 (proj2 (proj2 (proj2 (proj2 IH)))).
Let IH_eq := proj1 (proj2 (proj2 (proj2 (proj2 (proj2 IH))))).
Let IH_order := proj1 (proj2 (proj2 (proj2 (proj2 (proj2 (proj2 IH)))))).
Let IH_lt := proj1 (proj2 (proj2 (proj2 (proj2 (proj2 (proj2 (proj2 IH))))))).
Let IH_le := proj1 (proj2 (proj2 (proj2 (proj2 (proj2 (proj2 (proj2 (proj2 IH)))))))).
Let IH_unop := proj1 (proj2 (proj2 (proj2 (proj2 (proj2 (proj2 (proj2 (proj2 (proj2 IH))))))))).
Let IH_call := proj1 (proj2 (proj2 (proj2 (proj2 (proj2 (proj2 (proj2 (proj2 (proj2 (proj2 IH)))))))))).
Let IH_block := proj1 (proj2 (proj2 (proj2 (proj2 (proj2 (proj2 (proj2 (proj2 (proj2 (proj2 (proj2 IH))))))))))).
Let IH_exec := proj1 (proj2 (proj2 (proj2 (proj2 (proj2 (proj2 (proj2 (proj2 (proj2 (proj2 (proj2 (proj2 IH)))))))))))).
Let IH_while := proj1 (proj2 (proj2 (proj2 (proj2 (proj2 (proj2 (proj2 (proj2 (proj2 (proj2 (proj2 (proj2 (proj2 IH))))))))))))).
Let IH_repeat := proj1 (proj2 (proj2 (proj2 (proj2 (proj2 (proj2 (proj2 (proj2 (proj2 (proj2 (proj2 (proj2 (proj2 (proj2 IH)))))))))))))).
Let IH_numfor := proj1 (proj2 (proj2 (proj2 (proj2 (proj2 (proj2 (proj2 (proj2 (proj2 (proj2 (proj2 (proj2 (proj2 (proj2 (proj2 IH))))))))))))))).
Let IH_genfor := proj1 (proj2 (proj2 (proj2 (proj2 (proj2 (proj2 (proj2 (proj2 (proj2 (proj2 (proj2 (proj2 (proj2 (proj2 (proj2 (proj2 IH)))))))))))))))).
Let IH_tostring := proj1 (proj2 (proj2 (proj2 (proj2 (proj2 (proj2 (proj2 (proj2 (proj2 (proj2 (proj2 (proj2 (proj2 (proj2 (proj2 (proj2 (proj2 IH))))))))))))))))).
Let IH_builtin := proj2 (proj2 (proj2 (proj2 (proj2 (proj2 (proj2 (proj2 (proj2 (proj2 (proj2 (proj2 (proj2 (proj2 (proj2 (proj2 (proj2 (proj2 IH))))))))))))))))).

Hint Resolve IH_e IH_m IH_index IH_setindex IH_binop IH_eq IH_order IH_lt IH_le IH_unop IH_call IH_block
  IH_exec IH_while IH_repeat IH_numfor IH_genfor IH_tostring IH_builtin : core.

Ltac fix_step := lazy beta iota fix.

Lemma fstep_index fr v k d s : rle (index (S n) fr v k d s) (index (S m) fr v k d s).
Proof. destruct d; destruct v; cbn [index]; le_tac. Qed.

Lemma fstep_setindex fr v k x d s : rle (setindex (S n) fr v k x d s) (setindex (S m) fr v k x d s).
Proof. destruct d; destruct v; cbn [setindex]; le_tac. Qed.

Lemma fstep_eval_e cx ln en e s : rle (eval_e (S n) cx ln en e s) (eval_e (S m) cx ln en e s).
Proof.
  destruct e; cbn [eval_e]; le_tac.
  match goal with |- rle (?G1 items ?i ?s0) (?G2 items ?i ?s0) =>
    cut (forall (sx : state) (zx : Z), rle (G1 items zx sx) (G2 items zx sx)); [intros Hc; apply Hc|] end.
  induction items as [|it items IHits]; intros sy zy.
  - fix_step. le_tac.
  - revert IHits.
    match goal with |- (forall (sx : state) (zx : Z), rle (?G1 items zx sx) (?G2 items zx sx)) -> _ =>
      intros IHits; destruct it; fix_step; revert IHits; generalize (G1 items) (G2 items); intros rec1 rec2 IHrec end;
    le_tac.
Qed.

Lemma fstep_eval_multi cx ln en e s : rle (eval_multi (S n) cx ln en e s) (eval_multi (S m) cx ln en e s).
Proof. destruct e; cbn [eval_multi]; le_tac. Qed.

Lemma fstep_binop fr o a b s : rle (binop_v (S n) fr o a b s) (binop_v (S m) fr o a b s).
Proof. destruct o; cbn [binop_v]; le_tac. Qed.

Lemma fstep_eq fr a b s : rle (eq_v (S n) fr a b s) (eq_v (S m) fr a b s).
Proof. cbn [eq_v]; le_tac. Qed.

Lemma fstep_order fr ev a b s : rle (order_tm (S n) fr ev a b s) (order_tm (S m) fr ev a b s).
Proof. cbn [order_tm]; le_tac. Qed.

Lemma fstep_lt fr a b s : rle (lt_v (S n) fr a b s) (lt_v (S m) fr a b s).
Proof. cbn [lt_v]; le_tac. Qed.

Lemma fstep_le fr a b s : rle (le_v (S n) fr a b s) (le_v (S m) fr a b s).
Proof. cbn [le_v]; le_tac. Qed.

Lemma fstep_unop fr o a s : rle (unop_v (S n) fr o a s) (unop_v (S m) fr o a s).
Proof. destruct o; cbn [unop_v]; le_tac. Qed.

Lemma fstep_call fr f args s : rle (call (S n) fr f args s) (call (S m) fr f args s).
Proof. destruct f; cbn [call]; le_tac. Qed.

Lemma fstep_block_go cx all rest : forall pos en hist s,
  rle (block_go n cx all rest pos en hist s) (block_go m cx all rest pos en hist s).
Proof. induction rest as [|st rest IHrest]; intros pos en hist s; cbn [block_go]; le_tac. Qed.

Lemma fstep_block cx en all hist start s :
  rle (block (S n) cx en all hist start s) (block (S m) cx en all hist start s).
Proof. rewrite !block_step. apply fstep_block_go. Qed.

Lemma fstep_exec cx en st s : rle (exec (S n) cx en st s) (exec (S m) cx en st s).
Proof. destruct st; cbn [exec]; le_tac. Qed.

Lemma fstep_while cx en ln c body s : rle (while_loop (S n) cx en ln c body s) (while_loop (S m) cx en ln c body s).
Proof. cbn [while_loop]; le_tac. Qed.

Lemma fstep_repeat cx en body ln c s : rle (repeat_loop (S n) cx en body ln c s) (repeat_loop (S m) cx en body ln c s).
Proof. cbn [repeat_loop]; le_tac. Qed.

Lemma fstep_numfor cx en x i lim step body s :
  rle (numfor_loop (S n) cx en x i lim step body s) (numfor_loop (S m) cx en x i lim step body s).
Proof. cbn [numfor_loop]; le_tac. Qed.

Lemma fstep_genfor cx en ln xs f st ctl body s :
  rle (genfor_loop (S n) cx en ln xs f st ctl body s) (genfor_loop (S m) cx en ln xs f st ctl body s).
Proof. cbn [genfor_loop]; le_tac. Qed.

Lemma fstep_tostring fr v s : rle (tostring_v (S n) fr v s) (tostring_v (S m) fr v s).
Proof. cbn [tostring_v]; le_tac. Qed.

Lemma fstep_builtin fr b args s : rle (builtin_call (S n) fr b args s) (builtin_call (S m) fr b args s).
Proof. destruct b; cbn [builtin_call]; le_tac. Qed.

Lemma all_le_step : all_le (S n) (S m).
Proof.
  unfold all_le. repeat split; intros.
  - apply fstep_eval_e. - apply fstep_eval_multi. - apply fstep_index. - apply fstep_setindex.
  - apply fstep_binop. - apply fstep_eq. - apply fstep_order. - apply fstep_lt. - apply fstep_le.
  - apply fstep_unop. - apply fstep_call. - apply fstep_block. - apply fstep_exec. - apply fstep_while.
  - apply fstep_repeat. - apply fstep_numfor. - apply fstep_genfor. - apply fstep_tostring. - apply fstep_builtin.
Qed.
End Step.

Theorem all_le_all : forall n m, (n <= m)%nat -> all_le n m.
Proof.
  induction n as [|n IH]; intros m Hm; [apply all_le_0|].
  destruct m as [|m]; [lia|]. apply all_le_step. apply IH. lia.
Qed.

(* C01 fuel_mono *)
Lemma fuel_mono_eval_lemma n m cx ln en e s : (n <= m)%nat -> rle (eval_e n cx ln en e s) (eval_e m cx ln en e s).
Proof. intros H. apply (all_le_all n m H). Qed.

Lemma fuel_mono_call_lemma n m fr f args s : (n <= m)%nat -> rle (call n fr f args s) (call m fr f args s).
Proof.
  intros H. destruct (all_le_all n m H) as [_ [_ [_ [_ [_ [_ [_ [_ [_ [_ [Hc _]]]]]]]]]]]. apply Hc.
Qed.

Lemma fuel_mono_exec_lemma n m cx en st s : (n <= m)%nat -> rle (exec n cx en st s) (exec m cx en st s).
Proof.
  intros H. destruct (all_le_all n m H) as [_ [_ [_ [_ [_ [_ [_ [_ [_ [_ [_ [_ [Hc _]]]]]]]]]]]]]. apply Hc.
Qed.

(* a finished result (value or error, no pending effect) is the result for every larger fuel *)
Lemma fuel_mono_done_lemma n m fr f args s r :
  (n <= m)%nat -> call n fr f args s = r -> is_eff r = false -> r <> OutOfFuel -> call m fr f args s = r.
Proof.
  intros H Hr He Hf. pose proof (fuel_mono_call_lemma n m fr f args s H) as Hle. rewrite Hr in Hle.
  apply rle_done_lemma; auto.
Qed.

Lemma fuel_mono_eval_done_lemma n m cx ln en e s v s' :
  (n <= m)%nat -> eval_e n cx ln en e s = Ret v s' -> eval_e m cx ln en e s = Ret v s'.
Proof.
  intros H Hr. pose proof (fuel_mono_eval_lemma n m cx ln en e s H) as Hle. rewrite Hr in Hle.
  apply (rle_done_lemma _ _ Hle); [reflexivity|discriminate].
Qed.

(* ---------- the driver and whole programs ---------- *)
From GL Require Import Lua.Run.

Definition fin_le (f f' : fin) : Prop := f = FinFuel \/ f = f'.

Definition k_le (k k' : K) : Prop := forall rp s, rle (k rp s) (k' rp s).

Definition conts_le (c c' : list (nat * K)) : Prop :=
  Forall2 (fun p p' => fst p = fst p' /\ k_le (snd p) (snd p')) c c'.

Definition stack_le (st st' : list (option nat * K * bool)) : Prop :=
  Forall2 (fun e e' => fst (fst e) = fst (fst e') /\ snd e = snd e' /\ k_le (snd (fst e)) (snd (fst e'))) st st'.

Lemma kfind_le_lemma c c' co : conts_le c c' ->
  match kfind c co, kfind c' co with
  | Some k, Some k' => k_le k k'
  | None, None => True
  | _, _ => False
  end.
Proof.
  induction 1 as [|[d k] [d' k'] l l' [Hd Hk] Hl IH]; simpl; auto.
  simpl in Hd, Hk. subst d'. destruct (Nat.eqb co d); auto.
Qed.

Lemma drive_mono_lemma : forall n m, (n <= m)%nat -> forall conts conts' stack stack' r r',
  rle r r' -> conts_le conts conts' -> stack_le stack stack' ->
  fin_le (drive n conts stack r) (drive m conts' stack' r').
Proof.
  induction n as [|n IH]; intros m Hm conts conts' stack stack' r r' Hr Hc Hs; [left; reflexivity|].
  destruct m as [|m]; [lia|]. assert (Hnm : (n <= m)%nat) by lia.
  destruct Hr as [r'|a s|v s|c|e s k k' Hk].
  - left. reflexivity.
  - (* Ret *)
    destruct Hs as [|[[who kk] w] [[who' kk'] w'] rest rest' [H1 [H2 H3]] Hrest]; [right; reflexivity|].
    simpl in H1, H2, H3. subst who' w'. cbn [drive]. apply IH; auto.
  - (* Err *)
    destruct Hs as [|[[who kk] w] [[who' kk'] w'] rest rest' [H1 [H2 H3]] Hrest]; [right; reflexivity|].
    simpl in H1, H2, H3. subst who' w'. cbn [drive]. apply IH; auto.
  - right. reflexivity.
  - destruct e as [co args w|vs].
    + cbn [drive]. destruct (nth co (cos s) CoDead) eqn:E; try (right; reflexivity).
      * apply IH; auto.
        -- apply fuel_mono_call_lemma. auto.
        -- constructor; auto.
      * pose proof (kfind_le_lemma conts conts' co Hc) as Hf.
        destruct (kfind conts co) as [kc|]; destruct (kfind conts' co) as [kc'|]; try contradiction; [|right; reflexivity].
        apply IH; auto. constructor; auto.
    + cbn [drive].
      destruct Hs as [|[[who kk] w] [[who' kk'] w'] rest rest' [H1 [H2 H3]] Hrest]; [right; reflexivity|].
      simpl in H1, H2, H3. subst who' w'. destruct (cur s) as [c|]; [|right; reflexivity].
      apply IH; auto. constructor; auto.
Qed.

(* C01 fuel_mono for whole programs: once a program's outcome is determined (not FinFuel) it is
   the outcome for every larger fuel: the reference trace is well defined *)
Lemma run_program_fuel_mono_lemma n m d body : (n <= m)%nat -> fin_le (run_program n d body) (run_program m d body).
Proof.
  intros H. unfold run_program. apply drive_mono_lemma; auto.
  - apply fuel_mono_call_lemma. auto.
  - constructor.
  - constructor.
Qed.

Lemma run_program_stable_lemma n m d body f :
  (n <= m)%nat -> run_program n d body = f -> f <> FinFuel -> run_program m d body = f.
Proof.
  intros H Hf Hne. destruct (run_program_fuel_mono_lemma n m d body H) as [H1|H1]; congruence.
Qed.

Lemma fuel_mono_succ_lemma : forall n cx ln en e s, rle (eval_e n cx ln en e s) (eval_e (S n) cx ln en e s).
Proof. intros. apply fuel_mono_eval_lemma. lia. Qed.
