(* M-Lua: abstract syntax of the Lua 5.1 (+goto) core as the generators emit it.
   Sugar is removed by the generator's Gallina printer: `function a.b:c() end` is an assignment
   of an EFunc with a `self` parameter, `local function f` is SLocalFunc, `o:m(a)` is EMeth. *)
From Coq Require Import Floats.
From GL Require Import Common.Bytes.

Definition name := bytes.

Inductive binop := OAdd | OSub | OMul | ODiv | OMod | OPow | OConcat
                 | OEq | ONe | OLt | OLe | OGt | OGe.
Inductive unop := ONeg | ONot | OLen.

Inductive expr :=
| ENil | ETrue | EFalse
| ENum (f : float)
| EStr (s : bytes)
| EVarargs
| EVar (x : name)                                   (* local/upvalue if bound, else global *)
| EIndex (e k : expr)
| ECall (f : expr) (args : list expr)
| EMeth (o : expr) (m : bytes) (args : list expr)
| EFunc (params : list name) (vararg : bool) (body : list stmt) (line lastline : Z)
| EBin (o : binop) (a b : expr)
| EUn (o : unop) (a : expr)
| EAnd (a b : expr)
| EOr (a b : expr)
| EParen (e : expr)
| ETable (items : list titem)
with titem :=
| TPos (e : expr)
| TNamed (k : bytes) (e : expr)
| TKey (k e : expr)
with stmt :=                                        (* every statement carries its line *)
| SLocal (ln : Z) (xs : list name) (es : list expr)
| SAssign (ln : Z) (lhs : list expr) (es : list expr)
| SCall (ln : Z) (e : expr)
| SDo (body : list stmt)
| SWhile (ln : Z) (c : expr) (body : list stmt)
| SRepeat (body : list stmt) (ln : Z) (c : expr)
| SIf (ln : Z) (c : expr) (th el : list stmt)
| SNumFor (ln : Z) (x : name) (a b : expr) (c : option expr) (body : list stmt)
| SGenFor (ln : Z) (xs : list name) (es : list expr) (body : list stmt)
| SLocalFunc (ln : Z) (x : name) (f : expr)
| SReturn (ln : Z) (es : list expr)
| SBreak
| SGoto (l : name)
| SLabel (l : name).
