(* M-Lua meta-theory: the store (cells, tables, closures), [adjust], raw equality. *)
From Coq Require Import Floats Lia.
From GL Require Import Common.Bytes Lua.Syntax Lua.Num Lua.Values.

(* ---------- set_nth ---------- *)
Lemma set_nth_length_lemma {A} (l : list A) i x : length (set_nth l i x) = length l.
Proof. revert i; induction l as [|h t IH]; intros [|i]; simpl; auto. Qed.

Lemma set_nth_same_lemma {A} (l : list A) i x d : (i < length l)%nat -> nth i (set_nth l i x) d = x.
Proof. revert i; induction l as [|h t IH]; intros [|i]; simpl; intros; try lia; auto. apply IH; lia. Qed.

Lemma set_nth_other_lemma {A} (l : list A) i j x d : i <> j -> nth j (set_nth l i x) d = nth j l d.
Proof.
  revert i j; induction l as [|h t IH]; intros [|i] [|j]; simpl; intros; try congruence; auto.
Qed.

Lemma set_nth_out_lemma {A} (l : list A) i x : (length l <= i)%nat -> set_nth l i x = l.
Proof. revert i; induction l as [|h t IH]; intros [|i]; simpl; intros; try lia; auto. f_equal. apply IH; lia. Qed.

(* ---------- cells ---------- *)
(* C03 alloc_cell_fresh: the new index is not a valid index of the old store, it holds the
   initial value, every old cell is unchanged and no other component of the state changes *)
Lemma alloc_cell_fresh_lemma v s :
  exists s', alloc_cell v s = Ret (length (cells s)) s' /\
    ~ (length (cells s) < length (cells s))%nat /\
    length (cells s') = S (length (cells s)) /\
    nth (length (cells s)) (cells s') VNil = v /\
    (forall i, (i < length (cells s))%nat -> nth i (cells s') VNil = nth i (cells s) VNil) /\
    tabs s' = tabs s /\ clos s' = clos s /\ cos s' = cos s /\ uds s' = uds s /\
    trace s' = trace s /\ cur s' = cur s /\ strmt s' = strmt s /\ dv s' = dv s.
Proof.
  eexists; split; [reflexivity|]. simpl. repeat split; try lia.
  - rewrite app_length; simpl; lia.
  - rewrite app_nth2 by lia. rewrite Nat.sub_diag. reflexivity.
  - intros i Hi. apply app_nth1; auto.
Qed.

(* C03 write_cell_other *)
Lemma write_cell_other_lemma i v s :
  exists s', write_cell i v s = Ret tt s' /\
    (forall j, j <> i -> nth j (cells s') VNil = nth j (cells s) VNil) /\
    ((i < length (cells s))%nat -> nth i (cells s') VNil = v) /\
    length (cells s') = length (cells s) /\
    tabs s' = tabs s /\ clos s' = clos s /\ cos s' = cos s /\ uds s' = uds s /\
    trace s' = trace s /\ cur s' = cur s /\ strmt s' = strmt s /\ dv s' = dv s.
Proof.
  eexists; split; [reflexivity|]. simpl. repeat split.
  - intros j Hj. apply set_nth_other_lemma; auto.
  - intros Hi. apply set_nth_same_lemma; auto.
  - apply set_nth_length_lemma.
Qed.

Lemma read_cell_spec_lemma i s : read_cell i s = Ret (nth i (cells s) VNil) s.
Proof. reflexivity. Qed.

(* read after write / read after alloc *)
Lemma read_write_same_lemma i v s : (i < length (cells s))%nat ->
  bind (write_cell i v s) (fun _ => read_cell i) = Ret v (with_cells s (set_nth (cells s) i v)).
Proof. intros Hi. simpl. unfold read_cell. simpl. rewrite set_nth_same_lemma; auto. Qed.

Lemma read_write_other_lemma i j v s : i <> j ->
  bind (write_cell i v s) (fun _ => read_cell j) = Ret (nth j (cells s) VNil) (with_cells s (set_nth (cells s) i v)).
Proof. intros Hi. simpl. unfold read_cell. simpl. rewrite set_nth_other_lemma; auto. Qed.

(* ---------- adjust ---------- *)
Lemma adjust_length_lemma n vs : length (adjust n vs) = n.
Proof. revert vs; induction n as [|n IH]; intros [|v r]; simpl; auto. Qed.

Lemma adjust_nil_lemma n : adjust n [] = repeat VNil n.
Proof. induction n as [|n IH]; simpl; auto. rewrite IH. reflexivity. Qed.

(* C02 adjust_app_nil_pad: truncation to n values, padding with nil *)
Lemma adjust_app_nil_pad_lemma n vs : adjust n vs = firstn n vs ++ repeat VNil (n - length vs).
Proof.
  revert vs; induction n as [|n IH]; intros [|v r]; simpl; auto.
  - rewrite adjust_nil_lemma. reflexivity.
  - rewrite IH. reflexivity.
Qed.

Lemma adjust_exact_lemma vs : adjust (length vs) vs = vs.
Proof. induction vs as [|v r IH]; simpl; auto. rewrite IH. reflexivity. Qed.

Lemma adjust_truncate_lemma n vs : (n <= length vs)%nat -> adjust n vs = firstn n vs.
Proof.
  intros H. rewrite adjust_app_nil_pad_lemma. replace (n - length vs)%nat with O by lia. simpl. apply app_nil_r.
Qed.

Lemma adjust_pad_lemma n vs : (length vs <= n)%nat -> adjust n vs = vs ++ repeat VNil (n - length vs).
Proof. intros H. rewrite adjust_app_nil_pad_lemma. rewrite firstn_all2 by lia. reflexivity. Qed.

Lemma adjust_nth_lemma n vs i : (i < n)%nat -> nth i (adjust n vs) VNil = nth i vs VNil.
Proof.
  revert vs i; induction n as [|n IH]; intros vs i Hi; [lia|].
  destruct vs as [|v r]; destruct i as [|i]; simpl; auto.
  - rewrite IH by lia. destruct i; reflexivity.
  - apply IH; lia.
Qed.

Lemma adjust_idem_lemma n vs : adjust n (adjust n vs) = adjust n vs.
Proof. revert vs; induction n as [|n IH]; intros [|v r]; simpl; auto; rewrite IH; reflexivity. Qed.

Lemma first_adjust_lemma vs : first vs = nth 0 (adjust 1 vs) VNil.
Proof. destruct vs; reflexivity. Qed.

(* ---------- mapM alloc_cell ---------- *)
Lemma seq_snoc_lemma a n : seq a (S n) = seq a n ++ [(a + n)%nat].
Proof. revert a; induction n as [|n IH]; intros a; simpl. - rewrite Nat.add_0_r; reflexivity.
  - f_equal. rewrite <- Nat.add_succ_comm. apply (IH (S a)). Qed.

(* ---------- raweq on float-free values is Leibniz equality ---------- *)
Definition no_float (v : value) : Prop := match v with VNum _ => False | _ => True end.

Lemma beqb_true_iff_lemma (a b : bytes) : beqb a b = true <-> a = b.
Proof.
  unfold beqb. revert b; induction a as [|x a IH]; intros [|y b]; simpl; split; intros H; try discriminate; auto.
  - apply andb_prop in H. destruct H as [H1 H2]. apply Z.eqb_eq in H1. apply IH in H2. congruence.
  - inversion H; subst. rewrite Z.eqb_refl. simpl. apply IH. reflexivity.
Qed.

Lemma builtin_code_inj_lemma a b : builtin_code a = builtin_code b -> a = b.
Proof.
  destruct a, b; unfold builtin_code; intros H; try reflexivity; try discriminate; try (exfalso; lia).
  f_equal. lia.
Qed.

Lemma raweq_nofloat_lemma a b : no_float b -> (raweq a b = true <-> a = b).
Proof.
  intros Hb. destruct a, b; simpl in *; try contradiction; split; intros H; try discriminate; try reflexivity; try (inversion H; fail).
  - f_equal. destruct b0, b; simpl in H; congruence.
  - inversion H; subst. destruct b; reflexivity.
  - f_equal. apply beqb_true_iff_lemma; auto.
  - inversion H; subst. apply beqb_true_iff_lemma; auto.
  - f_equal. apply Nat.eqb_eq; auto.
  - inversion H; subst. apply Nat.eqb_refl.
  - f_equal. apply Nat.eqb_eq; auto.
  - inversion H; subst. apply Nat.eqb_refl.
  - f_equal. apply builtin_code_inj_lemma. apply Z.eqb_eq. exact H.
  - inversion H; subst. apply Z.eqb_refl.
  - f_equal. apply Nat.eqb_eq; auto.
  - inversion H; subst. apply Nat.eqb_refl.
  - f_equal. apply Nat.eqb_eq; auto.
  - inversion H; subst. apply Nat.eqb_refl.
  - apply andb_prop in H. destruct H as [H1 H2]. apply Z.eqb_eq in H1, H2. congruence.
  - inversion H; subst. rewrite !Z.eqb_refl. reflexivity.
Qed.

Lemma raweq_refl_nofloat_lemma a : no_float a -> raweq a a = true.
Proof. intros H. apply raweq_nofloat_lemma; auto. Qed.

Lemma raweq_type_lemma a b : raweq a b = true -> tyname a = tyname b.
Proof. destruct a, b; simpl; intros H; try discriminate; reflexivity. Qed.
