From GL Require Import Common.Bytes Lua.Syntax Lua.Values Lua.Eval Lua.Run.

Lemma adjust_spec_lemma : forall n vs,
  length (adjust n vs) = n /\ forall i, (i < n)%nat -> nth i (adjust n vs) VNil = nth i vs VNil.
Proof.
  induction n as [|n IH]; intros vs; split; simpl; try reflexivity; try (intros; lia).
  - destruct vs as [|v r]; simpl; f_equal; apply IH.
  - intros i Hi. destruct vs as [|v r]; destruct i as [|i]; simpl; try reflexivity.
    + destruct (IH []) as [_ H]. rewrite H by lia. destruct i; reflexivity.
    + destruct (IH r) as [_ H]. apply H. lia.
Qed.
