(* M-Lua meta-theory for C03: variables are store cells; closures capture the environment (cell
   references), so cells are shared and survive every exit path; function environments. *)
From Coq Require Import Floats Lia.
From GL Require Import Common.Bytes Lua.Syntax Lua.Num Lua.Values Lua.Names Lua.Eval
  Lua.ValuesFacts Lua.MonadFacts Lua.EvalStepFacts Lua.CallFacts.

Definition clo_of (s : state) (r : nat) : clo := nth r (clos s) dummy_clo.

(* C03 closure_captures_env / fenv_inherited: a function expression allocates one closure whose
   environment IS the current environment (the same cell indices: shared, not copied) and whose
   function environment is the creator's at creation time; nothing else changes *)
Lemma closure_captures_env_lemma n cx ln en ps va body l1 l2 s :
  let c := mkClo ps va body en (c_fenv (clo_of s (cx_clo cx))) l1 false in
  let s' := with_clos s (clos s ++ [c]) in
  eval_e (S n) cx ln en (EFunc ps va body l1 l2) s = Ret (VFun (length (clos s))) s' /\
  clo_of s' (length (clos s)) = c /\
  c_env (clo_of s' (length (clos s))) = en /\
  c_fenv (clo_of s' (length (clos s))) = c_fenv (clo_of s (cx_clo cx)) /\
  (forall r, (r < length (clos s))%nat -> clo_of s' r = clo_of s r) /\
  cells s' = cells s /\ tabs s' = tabs s.
Proof.
  cbv zeta. split; [reflexivity|]. unfold clo_of. cbn [clos with_clos].
  assert (H : nth (length (clos s)) (clos s ++ [mkClo ps va body en (c_fenv (nth (cx_clo cx) (clos s) dummy_clo)) l1 false]) dummy_clo
              = mkClo ps va body en (c_fenv (nth (cx_clo cx) (clos s) dummy_clo)) l1 false).
  { rewrite app_nth2 by lia. rewrite Nat.sub_diag. reflexivity. }
  rewrite H. repeat split. intros r Hr. apply app_nth1; auto.
Qed.

(* two closures created in the same scope refer to the very same cells *)
Lemma closures_share_cells_lemma n m cx ln en ps va body l1 l2 ps' va' body' l1' l2' s s1 s2 v1 v2 x :
  eval_e (S n) cx ln en (EFunc ps va body l1 l2) s = Ret v1 s1 ->
  eval_e (S m) cx ln en (EFunc ps' va' body' l1' l2') s1 = Ret v2 s2 ->
  exists r1 r2, v1 = VFun r1 /\ v2 = VFun r2 /\ r1 <> r2 /\
    lookup (c_env (clo_of s2 r1)) x = lookup en x /\ lookup (c_env (clo_of s2 r2)) x = lookup en x.
Proof.
  intros H1 H2.
  destruct (closure_captures_env_lemma n cx ln en ps va body l1 l2 s) as [E1 [C1 _]]. cbv zeta in *.
  rewrite E1 in H1. inversion H1; subst v1 s1. clear H1.
  destruct (closure_captures_env_lemma m cx ln en ps' va' body' l1' l2'
             (with_clos s (clos s ++ [mkClo ps va body en (c_fenv (clo_of s (cx_clo cx))) l1 false])))
    as [E2 [C2 [_ [_ [Hold _]]]]]. cbv zeta in *.
  rewrite E2 in H2. inversion H2; subst v2 s2. clear H2.
  cbn [clos with_clos] in *. rewrite app_length in *. cbn [length] in *.
  exists (length (clos s)), (length (clos s) + 1)%nat. repeat split; try lia.
  - rewrite Hold by lia. rewrite C1. reflexivity.
  - rewrite C2. reflexivity.
Qed.

(* reading and writing a captured variable goes to the cell *)
Lemma local_read_lemma n cx ln en x c s : lookup en x = Some c ->
  eval_e (S n) cx ln en (EVar x) s = Ret (nth c (cells s) VNil) s.
Proof. intros H. rewrite eval_e_var, H. reflexivity. Qed.

(* free names resolve through the running function's environment table *)
Lemma global_read_lemma n cx ln en x s : lookup en x = None ->
  eval_e (S n) cx ln en (EVar x) s =
  index n (here cx ln) (VTab (c_fenv (clo_of s (cx_clo cx)))) (VStr x) 100 s.
Proof. intros H. rewrite eval_e_var, H. reflexivity. Qed.

(* ---------- fresh instances ---------- *)
(* C03 numfor_fresh_cell_per_iteration: every iteration that runs allocates a new cell for the
   loop variable — its index is not valid in the store the iteration started from, so no closure
   created earlier can refer to it — and runs the body with the variable bound to it *)
Definition numfor_continues (i lim step : float) : bool :=
  if PrimFloat.ltb 0%float step then PrimFloat.leb i lim else PrimFloat.leb lim i.

Definition numfor_next (n : nat) (cx : ctx) (en : env) (x : name) (i lim step : float) (body : list stmt)
  (r : signal * env) : M signal :=
  match fst r with
  | SigNormal => numfor_loop n cx en x (i + step)%float lim step body
  | SigBreak => ret SigNormal
  | sg => ret sg
  end.

Lemma numfor_fresh_cell_lemma n cx en x i lim step body s :
  numfor_continues i lim step = true ->
  let c := length (cells s) in
  let s1 := with_cells s (cells s ++ [VNum i]) in
  numfor_loop (S n) cx en x i lim step body s =
    bind (block n cx ((x, c) :: en) body [] 0 s1) (numfor_next n cx en x i lim step body) /\
  ~ (c < length (cells s))%nat /\
  nth c (cells s1) VNil = VNum i /\
  (forall j, (j < length (cells s))%nat -> nth j (cells s1) VNil = nth j (cells s) VNil).
Proof.
  intros H. cbv zeta. split; [|split; [lia|split]].
  - rewrite numfor_loop_step. unfold numfor_continues in H. cbv zeta. rewrite H. reflexivity.
  - cbn [cells with_cells]. rewrite app_nth2 by lia. rewrite Nat.sub_diag. reflexivity.
  - intros j Hj. cbn [cells with_cells]. apply app_nth1; auto.
Qed.

Lemma numfor_stops_lemma n cx en x i lim step body s :
  numfor_continues i lim step = false -> numfor_loop (S n) cx en x i lim step body s = Ret SigNormal s.
Proof. intros H. rewrite numfor_loop_step. unfold numfor_continues in H. cbv zeta. rewrite H. reflexivity. Qed.

(* local statement: fresh cells, one per name *)
Definition localfunc_shape (xs : list name) (es : list expr) : bool :=
  match xs, es with [_], [EFunc _ _ _ _ _] => true | _, _ => false end.

Lemma exec_local_lemma n cx en ln xs es s vs s1 :
  localfunc_shape xs es = false ->
  eval_list_with (eval_e n cx ln en) (eval_multi n cx ln en) es s = Ret vs s1 ->
  exec (S n) cx en (SLocal ln xs es) s =
  Ret (SigNormal, rev (combine xs (seq (length (cells s1)) (length xs))) ++ en)
      (with_cells s1 (cells s1 ++ adjust (length xs) vs)).
Proof.
  intros Hsh He.
  assert (Hx : exec (S n) cx en (SLocal ln xs es) s =
               bind (eval_list_with (eval_e n cx ln en) (eval_multi n cx ln en) es s)
                    (fun vs => do cs <- mapM alloc_cell (adjust (length xs) vs);
                               ret (SigNormal, rev (combine xs cs) ++ en))).
  { destruct xs as [|x [|x' xs']]; try reflexivity.
    destruct es as [|e es']; try reflexivity. destruct e; try reflexivity.
    destruct es'; try reflexivity. discriminate. }
  rewrite Hx, He. cbn [bind]. unfold bindM. rewrite mapM_alloc_cell_lemma. cbn [bind ret].
  rewrite adjust_length_lemma. reflexivity.
Qed.

(* `local function f`: the cell exists before the closure is built, so the body sees itself *)
Lemma exec_localfunc_lemma n cx en ln x ps va body l1 l2 s :
  let c := length (cells s) in
  let en' := (x, c) :: en in
  let s1 := with_cells s (cells s ++ [VNil]) in
  exec (S (S n)) cx en (SLocalFunc ln x (EFunc ps va body l1 l2)) s =
  Ret (SigNormal, en')
      (with_cells (with_clos s1 (clos s ++ [mkClo ps va body en' (c_fenv (clo_of s (cx_clo cx))) l1 false]))
                  (set_nth (cells s ++ [VNil]) c (VFun (length (clos s))))).
Proof. reflexivity. Qed.

(* ---------- function environments ---------- *)
Definition set_fenv_clo (c : clo) (t : nat) : clo :=
  mkClo (c_params c) (c_vararg c) (c_body c) (c_env c) t (c_line c) (c_main c).

(* C03 setfenv_changes_only_that_closure *)
Lemma setfenv_changes_only_that_lemma n fr r t rest s :
  let s' := with_clos s (set_nth (clos s) r (set_fenv_clo (clo_of s r) t)) in
  builtin_call (S n) fr BSetFenv (VFun r :: VTab t :: rest) s = Ret [VFun r] s' /\
  ((r < length (clos s))%nat -> clo_of s' r = set_fenv_clo (clo_of s r) t) /\
  (forall r', r' <> r -> clo_of s' r' = clo_of s r') /\
  c_env (set_fenv_clo (clo_of s r) t) = c_env (clo_of s r) /\
  c_body (set_fenv_clo (clo_of s r) t) = c_body (clo_of s r) /\
  cells s' = cells s /\ tabs s' = tabs s /\ cos s' = cos s.
Proof.
  cbv zeta. split; [reflexivity|]. unfold clo_of. cbn [clos with_clos]. repeat split.
  - intros Hr. apply set_nth_same_lemma; auto.
  - intros r' Hr'. apply set_nth_other_lemma; auto.
Qed.

Lemma getfenv_lemma n fr r rest s :
  builtin_call (S n) fr BGetFenv (VFun r :: rest) s = Ret [VTab (c_fenv (clo_of s r))] s.
Proof. reflexivity. Qed.

(* after setfenv(f, t), a free name inside f resolves through t *)
Lemma setfenv_then_global_lemma n m fr r t rest s cx ln en x :
  (r < length (clos s))%nat -> cx_clo cx = r -> lookup en x = None ->
  exists s', builtin_call (S n) fr BSetFenv (VFun r :: VTab t :: rest) s = Ret [VFun r] s' /\
    eval_e (S m) cx ln en (EVar x) s' = index m (here cx ln) (VTab t) (VStr x) 100 s'.
Proof.
  intros Hr Hcx Hl. destruct (setfenv_changes_only_that_lemma n fr r t rest s) as [E [Hsame _]]. cbv zeta in *.
  eexists. split; [exact E|]. rewrite global_read_lemma by auto. rewrite Hcx, Hsame by auto. reflexivity.
Qed.
